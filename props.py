"""props.py — per-property configuration of ./check: which Coq files carry the property's
theorems (every `Theorem` in them is audited with Print Assumptions on every run), which
harness streams tie the model to the code, which known findings belong to it."""
import os, re

ROOT = os.path.dirname(os.path.abspath(__file__))


def _registered():
    try:
        return {l.strip()[:-2] for l in open(os.path.join(ROOT, "coq", "_CoqProject")) if l.strip().endswith(".v")}
    except OSError:
        return set()


def theorems_of(files):
    out = []
    reg = _registered()
    for f in files:
        p = os.path.join(ROOT, "coq", f + ".v")
        if not os.path.exists(p) or f not in reg:
            continue
        txt = open(p, encoding="utf-8", errors="replace").read()
        txt = re.sub(r"\(\*.*?\*\)", "", txt, flags=re.S)
        for m in re.finditer(r"^\s*Theorem\s+([A-Za-z0-9_']+)", txt, flags=re.M):
            out.append((f, m.group(1)))
    return out


def P(files, streams, text, findings=(), partial="", assumptions=(), trusted_extra=(), generated=(), race_build=False):
    gen_thms = []
    for gfile in generated:
        gp = os.path.join(ROOT, "coq", gfile + ".v")
        if os.path.exists(gp):
            txt = re.sub(r"\(\*.*?\*\)", "", open(gp, encoding="utf-8", errors="replace").read(), flags=re.S)
            gen_thms += [(gfile, m.group(1)) for m in re.finditer(r"^\s*Theorem\s+([A-Za-z0-9_']+)", txt, flags=re.M)]
    return {"files": list(files), "theorems": theorems_of(files) + gen_thms, "generated": list(generated), "race_build": race_build, "streams": list(streams), "text": text,
            "findings": list(findings), "partial": partial, "assumptions": list(assumptions),
            "trusted_extra": list(trusted_extra)}


SEQ_ASSUME = [
    "the sequential model (coq/Exec*.v, Bits.v, Dispatch.v) is hand-written from the Go handlers; the theorems are about the model",
    "model = code is checked, not proved: random and structured histories on the real emulator over TCP vs the extracted model, replies compared after every command on a stated projection (error replies by error code, unordered collections as multisets, clock-dependent integers within the request's time bracket, random picks by membership)",
    "error message wording, COMMAND/INFO/CLIENT INFO text, SORT, DUMP/RESTORE, LCS and float text (INCRBYFLOAT/HINCRBYFLOAT) are outside the compared domain",
]

PROPS = {
    "C01": P(["PropC01"], ["C01"],
             "codec and connection loop: every encoded command parses back to exactly its argument bytes whatever follows (binary safety), every "
             "strict prefix is 'incomplete', and the dispatched command sequence is independent of how the byte stream is cut into TCP segments "
             "(all chunkings, by induction); every reply serialises to exactly one self-delimiting value; error/simple lines cannot carry CR/LF "
             "+ correspondence: pipelines with hostile bytes sent under many segmentations (reply bytes must be identical), deserializer vs model on mutated inputs",
             assumptions=["RespParse.v mirrors respDeserializer.go for the types + - : $ * % ~ # _ ; streamed forms and double/bignum/verbatim/blob/attribute/push requests are outside the modelled subset (only 'no panic' is checked for them)",
                          "the kernel's TCP segmentation only delivers some chunking of the stream, which the theorem quantifies over"]),
    "C11": P(["PropC11"], ["C11"],
             "block/wake protocol as a labelled transition system (Wait.v: one label per lock section / channel operation of blockOnListChangeWorker, "
             "waitTable.go, leaveListBlock, unlockAndUnblock): conservation of elements, list order, wait-table well-formedness, FIFO wake-up, and no lost "
             "wake-up for every reachable configuration (any number of clients, keys, steps, every interleaving) + hook-driven schedules on the real emulator",
             partial="Go channel/select semantics and the runtime scheduler are taken as the nondeterminism of the labels; the tie to the code is the schedule-point correspondence, not a proof about Go",
             assumptions=["a buffered channel of capacity 1 never blocks its single pending send; select may take any ready case"]),
    "C19": P(["PropC19", "PropC19Dir"], ["C19", "C19D"],
             "persistence: snapshot/load round trip, every command either changes nothing or marks the database dirty, saver invariant => restart after any "
             "history equals the state, crash atomicity of temp-file+rename for every prefix of the write sequence (and the refutation of the original in-place save); "
             "the start-up walk over the persist directory (PersistDir.v): exactly the names <base>.db<n> are picked, never the temporary ones, files below subdirectories and "
             "foreign names are ignored, the outcome does not depend on the order of the directory, and a save of all databases cut at ANY point boots every database as its "
             "previous or its new snapshot "
             "+ correspondence: histories, save, more changes, save with on-disk copies at every stage (verifPoint), clean shutdown, restart; every copy must load as old or new; "
             "a neighbour emulator saving below the same directory; prepared directories (canonical, non-canonical, temporary, near-miss and foreign names, subdirectories, "
             "truncated files) started on and compared database by database with the model's walk",
             partial="encoding/gob round-trips the record types, POSIX rename is atomic, no fsync reasoning: trusted",
             assumptions=["file system and gob are modelled at record level (Persist.v)"]),
    "C12": P(["PropC12", "PropC11"], ["C12"],
             "how a block ends: the capture protocol (Capture.v: every operation one critical section) delivers at most one unblock per capture, never across a release, "
             "reports whether the client was blocked, is re-usable; timeout conversion never turns a positive timeout into 'forever', the timer branch cannot fire early; "
             "leaving by timeout/unblock passes an unused wake-up on (Wait.v: LGiveUp) + correspondence: timeouts measured against the client clock, CLIENT UNBLOCK "
             "TIMEOUT|ERROR with the target held at each schedule point, CLIENT KILL and peer close of a blocked client, re-use after every ending",
             findings=["client-unblock-reply-not-blocked"],
             partial="timer accuracy and TCP close notification of the Go runtime are taken as labels of the model"),
    "C16": P(["PropC16"], ["C16"],
             "data-race freedom: lock-set soundness theorem (a disciplined, mutex-respecting trace orders every pair of conflicting accesses by a release/acquire on the "
             "common lock) and the per-run obligations on the regenerated lock table (every store method that touches the database holds its lock) + correspondence: "
             "the emulator built with the Go race detector under a workload that overlaps every command class; every report located in the emulator is a violation",
             generated=["LockFacts", "GenLockCheck"], race_build=True,
             partial="the Go memory model, races inside dependencies and accesses the syntactic table cannot see are outside the model; for fields not guarded by the database lock "
                     "(session fields, statistics, connection flags) the deciding evidence is the race-detector run, not a theorem"),
    "C20": P(["PropC20", "PropC20Cxn"], ["C20"],
             "lifecycle: wait-group model of an emulator instance with tracked connections (Lifecycle.v): termination can always complete by steps of the emulator alone, "
             "after it no command of an old connection and no accept is enabled, instances do not touch each other's data or clients; the event loop of one connection (Cxn.v, labels = the "
             "cxn.* schedule points of clientCxn.go): at most two events queued (channel capacity 3 never blocks), one command at a time, no socket read pending after a close request "
             "unless the request closed the socket, the terminate event is never lost, after a close request the loop ends within 8 of its own steps "
             "+ correspondence: Close() latency with "
             "clients idle / mid-pipeline / in MULTI / blocked / busy, old connections refused afterwards, data unchanged, successor on the same port starts empty, two instances, start/stop cycles; "
             "trace inclusion: every label sequence a connection reports is replayed through the extracted cstep and must be a run of Cxn.v, ending in PDone once Close() has returned",
             partial="TIME_WAIT/port reuse, goroutine leaks and os.Exit on a failed listen are runtime behaviour outside the model"),
    "C13": P(["PropC13", "PropC06"], ["C13", "C01"],
             "robustness: the parser model has explicit Panic outcomes at every Go indexing site and is proved never to reach one (all byte strings), a parsed "
             "value consumes between 1 and all buffered bytes, the connection loop never panics; every command of the table that fails leaves the state "
             "unchanged (PropC06) + correspondence: hostile commands (every command name x arities x extreme arguments x key types) and raw byte streams on a "
             "victim connection while a bystander must be served within 1.5 s and the process must stay alive",
             partial="stack/heap limits of the Go runtime and loops inside the ~120 handlers are not modelled as Panic/Diverge sites; the handler side is covered by the hostile-input stream only",
             assumptions=["a malformed line wedges only the connection that sent it (the emulator treats 'malformed' as 'incomplete'); this is recorded in PropC13.v as C13_malformed_head_wedges and is outside 'well-formed command'"],
             findings=["dict-table-blowup"]),
    "C02": P(["PropC02", "PropC02Lcs", "PropC02Fnum"], ["C02"],
             "string/counter commands: theorems on the model (overflow test = mathematical overflow, MSETNX all-or-nothing, GETRANGE/SETRANGE "
             "specifications, SET option table, decimal text round trip, errors leave the db unchanged) + correspondence of every reply and of the "
             "visible state after random histories over the family",
             findings=["getrange-negative-end-clamp", "set-option-order", "lcs-repeated-option", "incrbyfloat-error-order"], assumptions=SEQ_ASSUME),
    "C03": P(["PropC03"], ["C03"],
             "list commands: theorems on the model (index normalisation vs a Redis-style spec, push/pop equations, LMOVE same-key rotation and "
             "conservation, LREM/LINSERT/LPOS specifications, never-empty, errors inert) + correspondence over random histories",
             assumptions=SEQ_ASSUME),
    "C04": P(["PropC04", "PropC17", "PropC02Fnum"], ["C04", "C17"],
             "hash commands: theorems on the model (hash is a finite map, HINCRBY iff-characterisation for every sign combination, HDEL, reads "
             "pure, HRANDFIELD candidates); the bucket table under every hash is Dict.v (growth and shrink never lose or duplicate a field: PropC17 dictionary layer) "
             "+ correspondence of replies and of the table layout (real hashes, crafted bucket collisions)",
             assumptions=SEQ_ASSUME),
    "C05": P(["PropC05"], ["C05"],
             "set commands: theorems on the model (SINTER/SUNION/SDIFF are the mathematical operations for any number of operands, operands "
             "untouched, STORE replaces the destination even when it is an operand, SADD/SREM/SMOVE equations) + correspondence",
             assumptions=SEQ_ASSUME),
    "C06": P(["PropC06", "PropC06Sort"], ["C06"],
             "keyspace discipline over the whole command table: failed commands change nothing, well-formedness (no empty aggregates, unique "
             "keys/fields/members, fresh versions) preserved by every command, WRONGTYPE, RENAME/COPY carry value and deadline + correspondence "
             "over mixed-family histories; per-run obligation over the command table regenerated from cmdDispatcher.go: every command "
             "the emulator serves is in the model's tables (or on the audited not-modelled list)",
             generated=["CmdFacts", "GenCmdCheck"], assumptions=SEQ_ASSUME),
    "C07": P(["PropC07"], ["C07", "C06"],
             "expiry: expired entries are invisible to every command of the table (reply and successor state equal those on the purged db), "
             "TTL reporting and per-command deadline rules + correspondence with keys in each lifetime phase (real clock, margins)",
             findings=["exat-deadline-nanoseconds"],
             assumptions=SEQ_ASSUME + ["timer/clock accuracy of the Go runtime is trusted; observations keep >= 50 ms away from deadlines"]),
    "C08": P(["PropC08", "PropC08Oracles"], ["C08"],
             "the oracles of the volume-scale rounds are theorems about every sequential order (PropC08Oracles.v: uniform snapshots, conditional pushes never create, "
             "optimistic counter = committed EXECs + INCRs, each also composed with C08_linearizable); "
             "atomicity: a machine of invoke/execute/respond events in which 'execute' is one step of the sequential emulator is linearizable in execute order "
             "(replies and final state equal the sequential run, program order and real-time order respected; any number of clients and interleavings); that every Go "
             "command really is one lock section is re-checked on every run from the regenerated fact table (GenLockCheck.v over LockFacts.v: every store method "
             "locks its whole body, every handler calls one locking method) + correspondence: concurrent histories on the real emulator checked for linearizability "
             "against the extracted model (search re-validated by the model itself)",
             generated=["LockFacts", "GenLockCheck"],
             partial="that sync.Mutex excludes and that the scheduler realises only interleavings of lock sections is trusted; the fact table is syntactic (go/ast)",
             assumptions=["factgen (go/ast pass in harness/factgen.go) is in the trusted base"]),
    "C09": P(["PropC09"], ["C09"],
             "MULTI/EXEC state machine: queued commands have no effect, EXEC runs the queue in order with one reply each and never blocks, "
             "flagged transactions abort, state reset after EXEC/DISCARD, control errors inert (all programs) + correspondence of transaction "
             "programs with an observer connection", assumptions=SEQ_ASSUME,
             partial="interleaving of EXEC with other clients' commands is C08's lock-section argument; here every EXEC is one step"),
    "C10": P(["PropC10"], ["C10"],
             "WATCH: every observable change of a key changes the version EXEC compares (all commands of the table), reads and failed commands "
             "change nothing, EXEC runs iff no watched version changed + correspondence of WATCH scenarios with every write command on either connection",
             assumptions=SEQ_ASSUME),
    "C14": P(["PropC14"], ["C14", "C14B"],
             "databases and sessions: a command touches only the selected database, session fields are private to a connection, SELECT range, "
             "FLUSHDB exact / FLUSHALL all + correspondence with three connections, SELECT/FLUSH*/DBSIZE interleaved with data commands",
             assumptions=SEQ_ASSUME),
    "C15": P(["PropC15"], ["C15"],
             "protocol versions: to2 emits only RESP2 types, is idempotent and equals the canonical down-conversion; HELLO 2/3 switch only the "
             "caller, other versions refused + correspondence of the same commands on RESP2 and RESP3 connections", assumptions=SEQ_ASSUME),
    "C17": P(["PropC17"], ["C17", "C07"],
             "SCAN: the cursor walk of Dict.v (mirror of redisDict.go/dictScanUnlocked) returns every element present during a whole iteration "
             "for arbitrary table changes between calls, invents nothing, terminates + correspondence of table layout and SCAN/HSCAN/SSCAN replies",
             assumptions=["the hash function (SipHash) is not modelled: theorems hold for every hash function; the harness reads the real hashes through the verif accessor"]),
    "C18": P(["PropC18"], ["C18"],
             "bitmaps: bit-array specification of SETBIT/GETBIT/BITCOUNT/BITPOS/BITOP/BITFIELD, writes touch only addressed bits, two's-complement "
             "field semantics and overflow policies + correspondence over bitmap histories",
             findings=["bitfield-ro-multi-get"], assumptions=SEQ_ASSUME + [
                 "BITFIELD SET of a negative value into an unsigned field under OVERFLOW SAT is outside the compared domain (Redis saturates to the maximum, the emulator to 0; the property text does not decide it)"]),
}
