#!/usr/bin/env python3
"""seedhints.py <outdir>: writes Cnn.prop.txt-independent hint files (relevant code, what earlier seeds already
changed) for a new wave of seeding sub-agents; the agents see only these files, the property text and a worktree."""
import json, sys, glob, os
out = sys.argv[1]
areas={
'C01':"respDeserializer.go, respSerializer.go, resp.go, clientCxn.go (onWaitForCommand, parseCommand, onDispatchCommand, the inbound slice bookkeeping)",
'C02':"redisKeys.go (string handlers), dataStoreCommands.go (setKey with NX/XX/GET/KEEPTTL/EX.., getKeyRange, setRange, appendToKey, addInt, addFloat/addDecimalText, setKeys, getKeys, getKeySetExpiration (GETEX), GETDEL, GETSET), longestSeq.go (LCS)",
'C03':"redisList.go, dataStoreCommands.go (list workers: push/pop with count, lindex, lrange, lset, linsert, lrem, ltrim, lpos, lmove, lmpop and *Unlocked helpers), dataStoreKey.go (storeList)",
'C04':"redisHashTable.go, dataStoreCommands.go (setHashTableWorker, getHashTable*, deleteHashTableFields, fieldAddInt, fieldAddFloat, hrandfield, hscan), redisDict.go",
'C05':"redisSet.go, dataStoreCommands.go (setOperation, setOperationStore, setOperationCount, union/intersect/diff workers, setAdd/Remove, setMove, srandmember, sscan)",
'C06':"redisCore.go (DEL/EXISTS/TYPE/RENAME/COPY/KEYS/RANDOMKEY/DBSIZE/SORT/TOUCH/UNLINK handlers), dataStoreCommands.go (del, exists, rename/move/copy, keys, sort, sortPatternUnlocked, dbSize), dataStore.go (moveStoreKeyUnlocked, copyStoreKeyUnlocked), dataStoreKey.go (clone), redisGlob.go",
'C07':"dataStore.go (getStoreKey, getLiveStoreKey, isExpiredUnlocked), dataStoreCommands.go (getKeyObjectUnlocked; deadlineAfter; expire with NX/XX/GT/LT; persist; ttl/expireTime; getKeySetExpiration; setKey KEEPTTL/EX/PX/EXAT/PXAT; every worker that keeps or clears the deadline), redisCore.go (fnTtl, fnPTtl, fnExpire*, fnExpireTime)",
'C08':"dataStoreCommands.go (every method takes dsc.lock()/defer dsc.unlock() for its whole body; *Unlocked helpers expect the lock held), handlers in redis*.go, redisTransaction.go (EXEC exclusive + multiDataStoreLock)",
'C09':"redisTransaction.go (fnMulti, fnExec, fnDiscard, fnWatch, fnUnwatch), cmdDispatcher.go (dispatch: queueing, cmdQueueError, unqueuedCmdTable), clientState.go (cmdQueue, watches, clearWatches)",
'C10':"redisTransaction.go (fnWatch, isAbortedExecUnlocked), dataStore.go (hasChangedUnlocked, newStoreKeyUnlocked, move/copy), dataStoreCommands.go (modifiedUnlocked and every mutation path: replacements get a new store key, in-place changes call modifiedUnlocked, deletions remove; flush)",
'C11':"redisList.go (blockOnListChangeWorker), waitTable.go (enterWait, enterMultiWait, reenterWait, unblock, unlinkWakeSignal, disposeWakeSignal), dataStore.go (enterListBlock, reenterListBlock, leaveListBlock, unblockListUnlocked), dataStoreCommands.go (unlockAndUnblock in push paths; other producers of lists: LMOVE destination, RENAME/COPY/SORT STORE, LINSERT)",
'C12':"redisList.go (blockOnListChangeWorker: blockTimeoutNs, timer, select, releaseCapture), clientState.go (capture, releaseCapture, unblock, isBlocked), redisClient.go (fnClientUnblock TIMEOUT|ERROR, fnClientKill), clientCxn.go (onTerminate, watchPeer), cmdDispatcher.go/redisTransaction.go (blocking commands inside MULTI)",
'C13':"respDeserializer.go, clientCxn.go, cmdDispatcher.go, redisArgParser.go and every handler/worker that turns a client number into an index, length, count or allocation (ranges, bit offsets, counts with maxRandomCount, SCAN COUNT, LPOS MAXLEN, LCS maxLcsCells, SORT LIMIT, RESTORE, glob patterns)",
'C14':"dataStoreSet.go, clientState.go (selectDb, per-connection state), redisClient.go (fnSelect, CLIENT SETNAME/GETNAME), redisCore.go (FLUSHDB/FLUSHALL/DBSIZE), redisTransaction.go (queued SELECT), fnInfo.go",
'C15':"resp.go (reply value types, nativeValueToResp, resp3To2 and helpers), respSerializer.go, redisCore.go (fnHello), cmdDispatcher.go (where the reply is converted), handlers returning maps/sets/doubles/verbatim strings",
'C16':"all state shared between connection goroutines: dataStore (mu), dataStoreSet (mu, dbs), clientState accessors (mutex), blocked/unblockPending atomics + captureMu, clientCxn (mu, waiting, closing), client registry (clientsMu), fnInfo.go (infoMu), test-server.go (eng.mu, cxns), saver (dirty flag), redisDict iteration, the shared command table, waitTable signal ids",
'C17':"redisDict.go (store/remove/grow/shrink, scan cursor arithmetic, iterator), dataStoreCommands.go (dictScanUnlocked, scan/sscan/hscan workers: COUNT, MATCH, TYPE), handlers fnScan/fnSScan/fnHScan",
'C18':"redisBits.go, bitMath.go (extractBitfield/setBitfield/sign extension/wrap/saturate), bitmapUtils.go (findBit, bit counting, ranges), dataStoreCommands.go (bitfieldWrite, changeBits, invertBits, setBit, countBits, bitPos)",
'C19':"dataStorePersist.go (save/saveTo/load), dataStoreCommands.go (setDirty and every mutation path; dsc.save), dataStoreSet.go (save over all databases, loading), test-server.go (periodicSave, loading at NewEmulator)",
'C20':"test-server.go (NewEmulator, Start, RequestTermination, trackCxn, WaitForTermination/Close, periodicSave, killSignalMonitor, startServer accept loop), test-server-simple.go, clientCxn.go (run loop, RequestClose, onTerminate, done, watchPeer), clientState.go (client registry), redisClient.go (per-emulator filters), cmdDispatcher.go (newCmdDispatcher)",
}
extra={
'C01':"The demo should use a real emulator over TCP with raw RESP (NewEmulator(lane.NewNullLane(context.Background()), port, \"127.0.0.1\", \"\", nil); Start(); net.Dial).",
'C08':"The demo needs several real TCP connections hammering the emulator concurrently and must fail with high probability within a few seconds with the change and pass without it.",
'C11':"The demo needs several real TCP connections (NewEmulator(...); Start(); net.Dial raw RESP) with timeouts so that a lost wake-up shows within a few seconds.",
'C12':"The demo needs real TCP connections (NewEmulator(...); Start(); net.Dial raw RESP).",
'C13':"The demo should use a real emulator over TCP where a panic kills the process, or the in-process client with a recover-free test.",
'C15':"The demo should compare wire bytes over real TCP connections (one RESP2, one after HELLO 3).",
'C16':"It must be a genuine data race that `go test -race` reports under an ordinary concurrent workload while results stay the same without -race; the demo must FAIL under `go test -race` with the change and PASS under `go test -race` without it (give the exact command at the top of the file).",
'C19':"Demo: NewEmulator with a persist path under t.TempDir(), write over TCP, wait >1.2 s where a periodic snapshot is needed, Close(), start a second emulator on the same path and read back.",
'C20':"Do NOT remove the csTerminate event from RequestClose (the suite hangs). The demo should use real TCP connections with timeouts so that a hang is reported as a failure within a few seconds.",
}
for i in range(1,21):
    p='C%02d'%i
    prev=[]
    for d in sorted(glob.glob('/verif/seeded/seed-%s-*'%p)):
        m=json.load(open(d+'/meta.json'))
        prev.append((m.get('summary') or '')[:230].replace('\n',' '))
    txt="Relevant code: %s.\n\nPrevious workers already made these changes; choose a DIFFERENT function and a different kind of slip:\n"%areas[p]
    for n,x in enumerate(prev): txt+="  %d. %s ...\n"%(n+1,x)
    txt+="\n%s\n"%extra.get(p,'')
    open(os.path.join(out,'%s.hints.txt'%p),'w').write(txt)
    # the property text
    for l in open('/verif/properties.jsonl'):
        q=json.loads(l)
        if q['id']==p:
            open(os.path.join(out,'%s.prop.txt'%p),'w').write("%s — %s\n\n%s\n\nQuantified over: %s\n"%(p,q['title'],q['statement'],q['quantifier']['text']))
