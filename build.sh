#!/bin/bash
# build.sh — (re)build everything the checks need, from files on disk only.
#   coq/       full .vo build (coq_makefile + make), proofs included
#   build/ocaml/model   extracted model + driver (OCaml)
#   build/harness       Go harness linked against /repo's working tree, -tags verif
set -e
cd "$(dirname "$0")"
ROOT=$(pwd)
export GOFLAGS=-mod=mod GOPROXY=off GOSUMDB=off GOTOOLCHAIN=local CARGO_NET_OFFLINE=true PIP_NO_INDEX=1
mkdir -p build/ocaml
what=${1:-all}

if [ "$what" = all ] || [ "$what" = harness ] || [ "$what" = coq ]; then
  # the harness first: it contains factgen, which regenerates coq/LockFacts.v from /repo
  cd "$ROOT/harness"
  cp /repo/go.sum go.sum
  timeout 900 go build -tags verif -o "$ROOT/build/harness" . || { echo "HARNESS BUILD FAILED"; exit 1; }
  "$ROOT/build/harness" factgen -repo /repo -out "$ROOT/coq/LockFacts.v" || { echo "FACTGEN FAILED"; exit 1; }
fi

if [ "$what" = all ] || [ "$what" = coq ]; then
  cd "$ROOT/coq"
  if [ ! -f Makefile ] || [ _CoqProject -nt Makefile ]; then coq_makefile -f _CoqProject -o Makefile >/dev/null; fi
  timeout 3000 make -j16 >"$ROOT/build/coq-build.log" 2>&1 || { tail -40 "$ROOT/build/coq-build.log"; echo "COQ BUILD FAILED"; exit 1; }
fi

if [ "$what" = modelonly ]; then
  # the model files only (no proofs): for differential runs while the model is being changed
  cd "$ROOT/coq"
  if [ ! -f Makefile ] || [ _CoqProject -nt Makefile ]; then coq_makefile -f _CoqProject -o Makefile >/dev/null; fi
  timeout 900 make -j16 Dispatch.vo RespParse.vo Dict.vo PersistDir.vo Wait.vo Cxn.vo >"$ROOT/build/coq-build.log" 2>&1 || { tail -40 "$ROOT/build/coq-build.log"; echo "COQ BUILD FAILED"; exit 1; }
fi

if [ "$what" = all ] || [ "$what" = model ] || [ "$what" = coq ] || [ "$what" = modelonly ]; then
  cd "$ROOT/build/ocaml"
  # re-extract only when a model file is newer than the extracted code
  need=0
  [ -f model.ml ] || need=1
  for f in Base Resp State Exec Exec2 Bits Lcs Sort Fnum Dispatch Dict RespParse Persist PersistDir Wait Cxn; do
    [ -f "$ROOT/coq/$f.v" ] && [ "$ROOT/coq/$f.v" -nt model.ml ] && need=1
  done
  [ "$ROOT/coq/Extract.v" -nt model.ml ] && need=1
  [ "$ROOT/ocaml/driver.ml" -nt model ] && need=1
  [ -x model ] || need=1
  if [ $need = 1 ]; then
    cp "$ROOT/coq/Extract.v" Extract.v
    timeout 600 coqc -Q "$ROOT/coq" RE Extract.v >/dev/null
    rm -f Extract.vo Extract.glob .Extract.aux Extract.vok Extract.vos
    cp "$ROOT/ocaml/"*.ml .
    timeout 600 ocamlfind ocamlopt -O3 -w -a model.mli model.ml driver.ml -o model
  fi
fi

if [ "$what" = race ]; then
  # the harness (and with it the emulator from /repo) built with the Go race detector, for C16
  cd "$ROOT/harness"
  cp /repo/go.sum go.sum
  timeout 1500 go build -race -tags verif -o "$ROOT/build/harness_race" . || { echo "RACE BUILD FAILED"; exit 1; }
fi
echo BUILD-OK
