package main

// C11, lock-step conformance of the block/wake protocol: the labelled transition system of
// coq/Wait.v (extracted, driven over "W ..." lines) and the emulator take the SAME schedule of
// atomic steps — push, steal, a blocking command's first attempt + registration, its second
// look, wake-up, retry (+ re-registration), give-up — one at a time. The emulator is held at the
// schedule points of blockOnListChangeWorker (verifPoint) so that exactly one step happens, and
// after every step the two sides must agree on: every list's content, every key's wait queue
// (client order), the set of clients holding an unread wake-up token, and each reply.

import (
	"encoding/json"
	"fmt"
	"math/rand"
	"os"
	"path/filepath"
	"sort"
	"strconv"
	"strings"
	"time"
)

type lsState int

const (
	lsIdle lsState = iota
	lsRegistered
	lsWaiting
	lsWoken
	lsFinished
)

type lsClient struct {
	st     lsState
	point  string // where the emulator side is held
	keys   []string
	tokens bool
}

type wdump struct {
	lists  map[string][]string
	queues map[string][]int
	tokens map[int]bool
	pcs    map[int]string
}

func parseWDump(s string) (wdump, error) {
	d := wdump{lists: map[string][]string{}, queues: map[string][]int{}, tokens: map[int]bool{}, pcs: map[int]string{}}
	s = strings.TrimPrefix(s, "OK ")
	parts := strings.Split(s, "|")
	if len(parts) != 4 {
		return d, fmt.Errorf("bad dump %q", s)
	}
	for _, f := range strings.Fields(parts[0])[1:] {
		kv := strings.SplitN(f, ":", 2)
		k := string(unhex(kv[0]))
		for _, x := range strings.Split(kv[1], ",") {
			if x != "" {
				d.lists[k] = append(d.lists[k], string(unhex(x)))
			}
		}
	}
	for _, f := range strings.Fields(parts[1])[1:] {
		kv := strings.SplitN(f, ":", 2)
		k := string(unhex(kv[0]))
		for _, x := range strings.Split(kv[1], ",") {
			if x != "" {
				n, _ := strconv.Atoi(x)
				d.queues[k] = append(d.queues[k], n)
			}
		}
	}
	for _, f := range strings.Fields(parts[2])[1:] {
		n, _ := strconv.Atoi(f)
		d.tokens[n] = true
	}
	for _, f := range strings.Fields(parts[3])[1:] {
		kv := strings.SplitN(f, "=", 2)
		n, _ := strconv.Atoi(kv[0])
		d.pcs[n] = kv[1]
	}
	return d, nil
}

// one lock-step scenario; "" = the two sides agreed on every step
func scenLockstep(g *rand.Rand, modelPath string) (string, []string, error) {
	nc := 2 + g.Intn(3)
	w, err := newBWorld(nc)
	if err != nil {
		return "", nil, err
	}
	defer w.close()
	mdl, err := startModel(modelPath)
	if err != nil {
		return "", nil, err
	}
	defer mdl.Close()
	if _, err := mdl.line("W RESET"); err != nil {
		return "", nil, err
	}
	keys := []string{"k", "j"}
	cl := make([]*lsClient, nc)
	idOf := map[string]int{} // emulator client id -> model cid (1-based)
	for i := range cl {
		cl[i] = &lsClient{}
		idOf[w.clients[i].id] = i + 1
	}
	var md wdump
	hx := func(s string) string { return hexArg([]byte(s)) }

	// wait until client i either answered or is held at point
	settle := func(i int, point string) (*Node, bool, string) {
		for t := 0; t < 400; t++ {
			if r, _ := w.poll(i, 5*time.Millisecond); r != nil {
				return r, false, ""
			}
			if !w.clients[i].pending {
				return nil, false, "connection failed"
			}
			if r, err := w.srv.Ctl("PARKED "+point+" "+w.clients[i].id, time.Second); err == nil && r == "true" {
				return nil, true, ""
			}
		}
		return nil, false, fmt.Sprintf("client %d neither answered nor reached %s within 2 s", i+1, point)
	}
	compare := func(step string) string {
		line, err := w.srv.Ctl("DUMP 0 0", 2*time.Second)
		if err != nil {
			return "emulator dump failed: " + err.Error()
		}
		var d struct {
			Keys []struct {
				Key  string
				List []string
			}
			WaitQueues map[string][]int64
			Tokens     []int64
		}
		if err := json.Unmarshal([]byte(line), &d); err != nil {
			return "emulator dump unreadable"
		}
		for _, k := range keys {
			var got []string
			for _, kd := range d.Keys {
				if kd.Key == k {
					got = kd.List
				}
			}
			if fmt.Sprint(got) != fmt.Sprint(md.lists[k]) {
				return fmt.Sprintf("after %s: list %q is %q in the emulator, %q in the model", step, k, got, md.lists[k])
			}
			var q []int
			for _, id := range d.WaitQueues[k] {
				q = append(q, idOf[fmt.Sprint(id)])
			}
			if fmt.Sprint(q) != fmt.Sprint(md.queues[k]) {
				return fmt.Sprintf("after %s: wait queue of %q is %v in the emulator (clients in order), %v in the model", step, k, q, md.queues[k])
			}
		}
		et := map[int]bool{}
		for _, id := range d.Tokens {
			if c, ok := idOf[fmt.Sprint(id)]; ok {
				et[c] = true
			}
		}
		var a, b []int
		for c := range et {
			a = append(a, c)
		}
		for c := range md.tokens {
			b = append(b, c)
		}
		sort.Ints(a)
		sort.Ints(b)
		if fmt.Sprint(a) != fmt.Sprint(b) {
			return fmt.Sprintf("after %s: clients holding an unread wake-up token: %v in the emulator, %v in the model", step, a, b)
		}
		return ""
	}
	// reply of a finished blocking pop against the model's Finished state
	checkReply := func(i int, r *Node, step string) string {
		want := md.pcs[i+1]
		if r.Nil || (r.Kind == '*' && len(r.Elems) == 0) {
			if want != "finished:nil" {
				return fmt.Sprintf("after %s: client %d got a null reply, the model says %s", step, i+1, want)
			}
			return ""
		}
		if r.Kind != '*' || len(r.Elems) != 2 {
			return fmt.Sprintf("after %s: client %d got %s", step, i+1, r.String())
		}
		got := "finished:" + hx(string(r.Elems[0].Str)) + "/" + hx(string(r.Elems[1].Str))
		if got != want {
			return fmt.Sprintf("after %s: client %d got [%q %q], the model says %s", step, i+1, r.Elems[0].Str, r.Elems[1].Str, want)
		}
		return ""
	}
	mstep := func(line string) (bool, error) {
		r, err := mdl.line(line)
		if err != nil {
			return false, err
		}
		if r == "DISABLED" {
			return false, nil
		}
		md, err = parseWDump(r)
		return true, err
	}

	nsteps := 12 + g.Intn(30)
	pushed := 0
	for s := 0; s < nsteps; s++ {
		// candidate labels
		type cand struct {
			kind string
			i    int
		}
		cands := []cand{{"push", 0}, {"push", 0}}
		for _, k := range keys {
			if len(md.lists[k]) > 0 {
				cands = append(cands, cand{"steal:" + k, 0})
			}
		}
		for i, c := range cl {
			switch c.st {
			case lsIdle:
				cands = append(cands, cand{"start", i}, cand{"start", i})
			case lsRegistered:
				cands = append(cands, cand{"second", i}, cand{"second", i})
			case lsWaiting:
				if md.tokens[i+1] {
					cands = append(cands, cand{"wake", i}, cand{"wake", i})
				} else {
					cands = append(cands, cand{"giveup", i})
				}
			case lsWoken:
				cands = append(cands, cand{"retry", i}, cand{"retry", i})
			case lsFinished:
				cands = append(cands, cand{"reset", i}, cand{"reset", i})
			}
		}
		c := cands[g.Intn(len(cands))]
		i := c.i
		id := ""
		if i < len(w.clients) {
			id = w.clients[i].id
		}
		step := ""
		var why string
		finish := func(r *Node) {
			cl[i].st = lsFinished
			if why == "" {
				why = checkReply(i, r, step)
			}
		}
		switch {
		case c.kind == "push":
			k := keys[g.Intn(len(keys))]
			n := 1 + g.Intn(2)
			args := []string{"RPUSH", k}
			ml := "W PUSH " + hx(k)
			for x := 0; x < n; x++ {
				pushed++
				v := fmt.Sprintf("e%d", pushed)
				args = append(args, v)
				ml += " " + hx(v)
			}
			step = strings.Join(args, " ")
			if _, err := w.do(args...); err != nil {
				return "push got no reply", w.log, nil
			}
			if _, err := mstep(ml); err != nil {
				return "", nil, err
			}
		case strings.HasPrefix(c.kind, "steal:"):
			k := strings.TrimPrefix(c.kind, "steal:")
			step = "LPOP " + k
			if _, err := w.do("LPOP", k); err != nil {
				return "LPOP got no reply", w.log, nil
			}
			if _, err := mstep("W STEAL " + hx(k)); err != nil {
				return "", nil, err
			}
		case c.kind == "start":
			ks := [][]string{{"k"}, {"j"}, {"k", "j"}, {"j", "k"}}[g.Intn(4)]
			step = fmt.Sprintf("c%d: BLPOP %s 0 (first attempt, registration)", i+1, strings.Join(ks, " "))
			w.srv.Ctl("PARK block.afterregister "+id, time.Second)
			w.block(i, ks, append(append([]string{"BLPOP"}, ks...), "0")...)
			ml := fmt.Sprintf("W START %d", i+1)
			for _, k := range ks {
				ml += " " + hx(k)
			}
			if ok, err := mstep(ml); err != nil || !ok {
				return "", nil, fmt.Errorf("model refused %s: %v", ml, err)
			}
			r, held, bad := settle(i, "block.afterregister")
			why = bad
			cl[i].keys = ks
			if r != nil {
				w.srv.Ctl("UNPARK block.afterregister "+id, time.Second)
				finish(r)
			} else if held {
				cl[i].st, cl[i].point = lsRegistered, "block.afterregister"
				if !strings.HasPrefix(md.pcs[i+1], "registered") {
					why = fmt.Sprintf("after %s: the emulator registered client %d and looks again, the model says %s", step, i+1, md.pcs[i+1])
				}
			}
		case c.kind == "second":
			step = fmt.Sprintf("c%d: the look after registering", i+1)
			w.srv.Ctl("PARK block.beforewait "+id, time.Second)
			w.srv.Ctl("RELEASE "+cl[i].point+" "+id, time.Second)
			if ok, err := mstep(fmt.Sprintf("W SECOND %d", i+1)); err != nil || !ok {
				return "", nil, fmt.Errorf("model refused SECOND %d: %v", i+1, err)
			}
			r, held, bad := settle(i, "block.beforewait")
			why = bad
			if r != nil {
				w.srv.Ctl("UNPARK block.beforewait "+id, time.Second)
				finish(r)
			} else if held {
				cl[i].st, cl[i].point = lsWaiting, "block.beforewait"
				if !strings.HasPrefix(md.pcs[i+1], "waiting") {
					why = fmt.Sprintf("after %s: the emulator goes to wait, the model says %s", step, md.pcs[i+1])
				}
			}
		case c.kind == "wake":
			step = fmt.Sprintf("c%d: takes its wake-up token", i+1)
			w.srv.Ctl("PARK block.afterwake "+id, time.Second)
			w.srv.Ctl("RELEASE block.beforewait "+id, time.Second)
			if ok, err := mstep(fmt.Sprintf("W WAKE %d", i+1)); err != nil || !ok {
				return "", nil, fmt.Errorf("model refused WAKE %d: %v", i+1, err)
			}
			r, held, bad := settle(i, "block.afterwake")
			why = bad
			if r != nil {
				why = fmt.Sprintf("after %s: the emulator answered %s instead of retrying", step, r.String())
			} else if held {
				cl[i].st, cl[i].point = lsWoken, "block.afterwake"
			}
		case c.kind == "retry":
			step = fmt.Sprintf("c%d: retry after the wake-up (on failure: registers again)", i+1)
			w.srv.Ctl("PARK block.afterreregister "+id, time.Second)
			w.srv.Ctl("RELEASE block.afterwake "+id, time.Second)
			if ok, err := mstep(fmt.Sprintf("W RETRY %d", i+1)); err != nil || !ok {
				return "", nil, fmt.Errorf("model refused RETRY %d: %v", i+1, err)
			}
			r, held, bad := settle(i, "block.afterreregister")
			why = bad
			if r != nil {
				w.srv.Ctl("UNPARK block.afterreregister "+id, time.Second)
				finish(r)
			} else if held {
				cl[i].st, cl[i].point = lsRegistered, "block.afterreregister"
				if !strings.HasPrefix(md.pcs[i+1], "registered") {
					why = fmt.Sprintf("after %s: the emulator registered again, the model says %s", step, md.pcs[i+1])
				}
			}
		case c.kind == "giveup":
			step = fmt.Sprintf("c%d: CLIENT UNBLOCK while waiting without a token", i+1)
			ur, err := w.do("CLIENT", "UNBLOCK", id)
			if err != nil || ur.Int != 1 {
				return fmt.Sprintf("CLIENT UNBLOCK of the waiting client %d answered %v", i+1, ur), w.log, nil
			}
			w.srv.Ctl("RELEASE block.beforewait "+id, time.Second)
			if ok, err := mstep(fmt.Sprintf("W GIVEUP %d", i+1)); err != nil || !ok {
				return "", nil, fmt.Errorf("model refused GIVEUP %d: %v", i+1, err)
			}
			r, _, bad := settle(i, "block.nowhere")
			why = bad
			if r != nil {
				why = ""
				finish(r)
			}
		case c.kind == "reset":
			step = fmt.Sprintf("c%d: ready for its next command", i+1)
			if ok, err := mstep(fmt.Sprintf("W RESETC %d", i+1)); err != nil || !ok {
				return "", nil, fmt.Errorf("model refused RESETC %d: %v", i+1, err)
			}
			cl[i].st = lsIdle
		}
		w.logf("step %d: %s", s, step)
		if why == "" {
			why = compare(step)
		}
		if why != "" {
			return why, w.log, nil
		}
	}
	w.srv.Ctl("RELEASE all", time.Second)
	return "", w.log, nil
}

func runC11Lockstep(cfg runCfg, res *Result, n int) error {
	g := rand.New(rand.NewSource(cfg.seed*7919 + 11))
	steps := 0
	for i := 0; i < n && len(res.Mismatches) < 3; i++ {
		seed := g.Int63()
		why, log, err := scenLockstep(rand.New(rand.NewSource(seed)), cfg.modelPath)
		if err != nil {
			return err
		}
		res.Histories++
		res.Steps += len(log)
		steps += len(log)
		res.CmdHist["lockstep"]++
		if i == 0 {
			var st []string
			for _, l := range log {
				if strings.HasPrefix(l, "step ") {
					st = append(st, l)
				}
			}
			res.Samples = append(res.Samples, "lock-step with Wait.v: "+strings.Join(st[:min(len(st), 14)], " | "))
		}
		if why != "" {
			os.MkdirAll(cfg.replayDir, 0o755)
			path := filepath.Join(cfg.replayDir, fmt.Sprintf("C11-seed%d-lockstep%d.json", cfg.seed, i))
			b, _ := json.MarshalIndent(map[string]any{"property": "C11", "kind": "blocking-schedule", "seed": cfg.seed, "why": why,
				"case": bscenario{Name: "lockstep", Seed: seed, Log: log}}, "", " ")
			os.WriteFile(path, b, 0o644)
			res.Mismatches = append(res.Mismatches, &Mismatch{Index: -1, Op: "lock-step with Wait.v", Why: why})
			res.Replays = append(res.Replays, path)
		}
	}
	res.Extra["lockstep_scenarios"] = n
	res.Extra["lockstep_steps_compared"] = steps
	return nil
}
