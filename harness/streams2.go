package main

// Multi-connection streams: transactions (C09), WATCH (C10), databases (C14),
// protocol versions (C15), expiry phases (C07).

import (
	"fmt"
)

func (g *Gen) dataOp(c int) Op {
	return g.fromFamilies(c, map[string]int{"string": 4, "list": 4, "hash": 3, "set": 3, "key": 3, "expire": 2, "bits": 1})
}

func (g *Gen) writeOp(c int) Op {
	names := []string{"set", "setnx", "getset", "getdel", "mset", "append", "setrange", "incr", "incrby",
		"lpush", "lpop", "lset", "linsert", "lrem", "ltrim", "lmove", "rpoplpush", "lmpop",
		"hset", "hsetnx", "hdel", "hincrby", "sadd", "srem", "smove", "setopstore",
		"del", "rename", "copy", "expire", "pexpire", "persist", "getex", "setbit", "bitop", "bitfield"}
	n := names[g.r.Intn(len(names))]
	return mkOp(c, catalog[n](g)...)
}

func (g *Gen) readOp(c int) Op {
	names := []string{"get", "mget", "strlen", "getrange", "llen", "lindex", "lrange", "lpos", "hget", "hmget", "hgetall", "hexists",
		"scard", "sismember", "smismember", "setop", "sintercard", "type", "keys", "ttl", "getbit", "bitcount", "bitpos"}
	n := names[g.r.Intn(len(names))]
	return mkOp(c, catalog[n](g)...)
}

// a write aimed at key k, chosen to suit (or deliberately not suit) the type the key was seeded with
func (g *Gen) typedWrite(c int, k string) Op {
	other := g.key()
	pickOp := func(cands ...[]string) Op { return mkOp(c, cands[g.r.Intn(len(cands))]...) }
	switch g.r.Intn(6) {
	case 0: // string operations
		return pickOp([]string{"APPEND", k, g.pick("", "x")}, []string{"INCR", k}, []string{"SETRANGE", k, g.pick("0", "2"), g.pick("", "zz")},
			[]string{"SETBIT", k, g.pick("0", "7", "9"), g.pick("0", "1")}, []string{"GETSET", k, g.val()}, []string{"GETDEL", k},
			[]string{"SET", k, g.val()}, []string{"SET", k, g.val(), "XX"}, []string{"SET", k, g.val(), "NX"}, []string{"SETNX", k, "v"},
			[]string{"MSET", other, "1", k, "2"}, []string{"MSETNX", other, "1", k, "2"}, []string{"GETEX", k, "PERSIST"}, []string{"GETEX", k, "EX", "100"}, []string{"GETEX", k},
			[]string{"BITFIELD", k, "SET", "u8", "0", g.pick("0", "65")}, []string{"BITFIELD", k, "GET", "u8", "0"}, []string{"INCRBY", k, "0"}, []string{"DECRBY", k, "5"})
	case 1: // list operations
		return pickOp([]string{"LPUSH", k, g.elem()}, []string{"RPUSH", k, g.elem()}, []string{"LPUSHX", k, g.elem()}, []string{"LPOP", k}, []string{"RPOP", k}, []string{"LPOP", k, "0"},
			[]string{"LSET", k, g.pick("0", "-1", "5"), g.elem()}, []string{"LINSERT", k, g.pick("BEFORE", "AFTER"), g.elem(), "n"}, []string{"LREM", k, "0", g.elem()},
			[]string{"LTRIM", k, g.pick("0", "1"), g.pick("-1", "0", "-2")}, []string{"LMOVE", k, other, "LEFT", "RIGHT"}, []string{"LMOVE", other, k, "LEFT", "RIGHT"},
			[]string{"LMOVE", k, k, "LEFT", "RIGHT"}, []string{"RPOPLPUSH", k, other}, []string{"LMPOP", "1", k, "LEFT"}, []string{"BLPOP", k, "0.01"}, []string{"BRPOPLPUSH", k, other, "0.01"})
	case 2: // hash operations: new field, existing field with another value, with the same value, removal, increment
		return pickOp([]string{"HSET", k, g.field(), g.pick("1", "2", "x")}, []string{"HSET", k, "f1", g.pick("1", "2")}, []string{"HMSET", k, "f1", "9", "f2", "9"},
			[]string{"HSETNX", k, g.field(), "n"}, []string{"HDEL", k, g.field()}, []string{"HDEL", k, "nofield"}, []string{"HINCRBY", k, g.field(), g.pick("0", "1", "-1")})
	case 3: // set operations
		return pickOp([]string{"SADD", k, g.member()}, []string{"SREM", k, g.member()}, []string{"SREM", k, "nomember"}, []string{"SMOVE", k, other, g.member()}, []string{"SMOVE", other, k, g.member()},
			[]string{"SINTERSTORE", k, other, other}, []string{"SUNIONSTORE", k, other}, []string{"SDIFFSTORE", k, k, other})
	case 4: // keyspace operations
		return pickOp([]string{"DEL", k}, []string{"UNLINK", k}, []string{"DEL", "nokey"}, []string{"RENAME", k, other}, []string{"RENAME", other, k}, []string{"RENAME", k, k},
			[]string{"RENAMENX", other, k}, []string{"COPY", other, k}, []string{"COPY", other, k, "REPLACE"}, []string{"COPY", k, other, "REPLACE"},
			[]string{"BITOP", "NOT", k, other}, []string{"BITOP", "AND", k, k, other}, []string{"TOUCH", k}, []string{"TYPE", k})
	default: // expiry operations
		return pickOp([]string{"EXPIRE", k, "100"}, []string{"PEXPIRE", k, "100000", g.pick("NX", "XX", "GT", "LT")}, []string{"PERSIST", k}, []string{"EXPIRE", k, "-1"},
			[]string{"EXPIREAT", k, "4102444800"}, []string{"PEXPIRE", k, "0"}, []string{"TTL", k}, []string{"EXPIRE", "nokey", "10"})
	}
}

// a command that the server rejects when it is received (unknown, or wrong arity)
func (g *Gen) rejectedOp(c int) Op {
	switch g.r.Intn(4) {
	case 0:
		return mkOp(c, "NOSUCHCMD", g.key())
	case 1:
		return mkOp(c, g.kw("get"))
	case 2:
		return mkOp(c, g.kw("lrange"), g.key(), "a", "b")
	default:
		return mkOp(c, g.kw("hset"), g.key(), "f")
	}
}

// a command that is accepted but fails when it runs
func (g *Gen) runtimeErrOp(c int) Op {
	switch g.r.Intn(3) {
	case 0:
		return mkOp(c, g.kw("incr"), "kstr")
	case 1:
		return mkOp(c, g.kw("lpush"), "kstr", "x")
	default:
		return mkOp(c, g.kw("lset"), g.key(), "99", "x")
	}
}

func (g *Gen) blockingOp(c int) Op {
	switch g.r.Intn(5) {
	case 0:
		return mkOp(c, g.kw("blpop"), g.key(), g.key(), "0.01")
	case 1:
		return mkOp(c, g.kw("brpop"), g.key(), "0.01")
	case 2:
		return mkOp(c, g.kw("blmove"), g.key(), g.key(), g.kw("LEFT"), g.kw("RIGHT"), "0.01")
	case 3:
		return mkOp(c, g.kw("brpoplpush"), g.key(), g.key(), "0.01")
	default:
		return mkOp(c, g.kw("blmpop"), "0.01", "2", g.key(), g.key(), g.kw("LEFT"))
	}
}

func init() {
	// C09: transaction programs on c1 with an observer c2
	streams["C09"] = func(cfg runCfg, res *Result) error {
		g := newGen(cfg.seed)
		n := 120
		if cfg.tier == "thorough" {
			n = 2500
		}
		return runHistories(cfg, res, n, func(i int) History {
			var ops []Op
			ops = append(ops, g.seedOps(1)...)
			ops = append(ops, mkOp(1, "SET", "kstr", "abc"))
			l := 6 + g.r.Intn(30)
			for j := 0; j < l; j++ {
				switch x := g.r.Intn(100); {
				case x < 10:
					ops = append(ops, mkOp(1, g.kw("multi")))
				case x < 20:
					ops = append(ops, mkOp(1, g.kw("exec")))
				case x < 24:
					ops = append(ops, mkOp(1, g.kw("discard")))
				case x < 29:
					ops = append(ops, mkOp(1, g.kw("watch"), g.key()))
				case x < 31:
					ops = append(ops, mkOp(1, g.kw("unwatch")))
				case x < 37:
					ops = append(ops, g.rejectedOp(1))
				case x < 43:
					ops = append(ops, g.runtimeErrOp(1))
				case x < 49:
					ops = append(ops, g.blockingOp(1))
				case x < 52:
					ops = append(ops, mkOp(1, g.kw("select"), g.pick("0", "1", "0")))
				case x < 70:
					// the other connection reads and writes the same keys in between
					if g.chance(0.5) {
						ops = append(ops, g.readOp(2))
					} else {
						ops = append(ops, g.writeOp(2))
					}
				default:
					ops = append(ops, g.dataOp(1))
				}
			}
			ops = append(ops, mkOp(1, "EXEC"), mkOp(1, "PING"), mkOp(1, "SELECT", "0"))
			ops = append(ops, g.observeAll(2)...)
			ops = append(ops, g.observeAll(1)...)
			return History{Ops: ops}
		})
	}

	// C10: WATCH scenarios: every kind of command between WATCH and EXEC, on either connection
	streams["C10"] = func(cfg runCfg, res *Result) error {
		g := newGen(cfg.seed)
		n := 250
		if cfg.tier == "thorough" {
			n = 5000
		}
		return runHistories(cfg, res, n, func(i int) History {
			var ops []Op
			g.newHistory()
			ops = append(ops, g.seedOps(1)...)
			nw := 1 + g.r.Intn(2)
			w := []string{g.kw("watch")}
			for j := 0; j < nw; j++ {
				w = append(w, g.key())
			}
			ops = append(ops, mkOp(1, w...))
			watched := w[1:]
			mod := func() Op {
				who := 1 + g.r.Intn(2)
				switch x := g.r.Intn(10); {
				case x < 4:
					return g.typedWrite(who, watched[g.r.Intn(len(watched))])
				case x < 6:
					return g.writeOp(who)
				case x < 8:
					return g.readOp(who)
				case x < 9:
					return g.runtimeErrOp(who)
				default:
					if who == 2 && g.chance(0.5) {
						return mkOp(2, g.kw(g.pick("flushdb", "flushall")))
					}
					return g.rejectedOp(who)
				}
			}
			for j := 0; j < g.r.Intn(3); j++ {
				ops = append(ops, mod())
			}
			if g.chance(0.12) {
				ops = append(ops, mkOp(2, "PEXPIRE", watched[0], "30"))
				o := mkOp(2, "PING")
				o.SleepMs = 80
				ops = append(ops, o)
			}
			ops = append(ops, mkOp(1, g.kw("multi")))
			for j := 0; j < g.r.Intn(2); j++ {
				o := mod()
				if o.Conn == 2 {
					ops = append(ops, o)
				}
			}
			ops = append(ops, mkOp(1, "SET", "kq", "queued"), mkOp(1, "INCR", "kcount"))
			for j := 0; j < g.r.Intn(2); j++ {
				o := mod()
				if o.Conn == 2 {
					ops = append(ops, o)
				}
			}
			ops = append(ops, mkOp(1, g.kw("exec")), mkOp(1, "GET", "kq"), mkOp(1, "GET", "kcount"))
			// a second transaction on the same connection: the first one must have reset the watches
			ops = append(ops, mkOp(1, "MULTI"), mkOp(1, "INCR", "kcount"), mkOp(2, "SET", g.key(), "late"), mkOp(1, "EXEC"))
			ops = append(ops, g.observeAll(2)...)
			return History{Ops: ops}
		})
	}

	// C14: several connections, SELECT / FLUSHDB / FLUSHALL / DBSIZE interleaved with data commands
	streams["C14"] = func(cfg runCfg, res *Result) error {
		g := newGen(cfg.seed)
		n := 150
		if cfg.tier == "thorough" {
			n = 3000
		}
		return runHistories(cfg, res, n, func(i int) History {
			var ops []Op
			nc := 3
			for c := 1; c <= nc; c++ {
				ops = append(ops, mkOp(c, "PING"))
			}
			l := 10 + g.r.Intn(30)
			for j := 0; j < l; j++ {
				c := 1 + g.r.Intn(nc)
				switch x := g.r.Intn(100); {
				case x < 15:
					ops = append(ops, mkOp(c, g.kw("select"), g.pick("0", "1", "2", "15", "16", "-1", "0", "1", "abc")))
				case x < 21:
					ops = append(ops, mkOp(c, g.kw("flushdb")))
				case x < 24:
					ops = append(ops, mkOp(c, g.kw("flushall")))
				case x < 32:
					ops = append(ops, mkOp(c, g.kw("dbsize")))
				case x < 36:
					ops = append(ops, mkOp(c, g.kw("client"), g.kw("setname"), g.pick("alice", "bob", "x y", "")))
				case x < 40:
					ops = append(ops, mkOp(c, g.kw("client"), g.kw("getname")))
				case x < 44:
					ops = append(ops, mkOp(c, g.kw("multi")))
				case x < 48:
					ops = append(ops, mkOp(c, g.kw("exec")))
				case x < 50:
					ops = append(ops, mkOp(c, g.kw("hello"), g.pick("2", "3", "4", "0", "-3")))
				case x < 53:
					ops = append(ops, mkOp(c, g.kw("watch"), g.key()))
				case x < 60:
					ops = append(ops, mkOp(c, "KEYS", "*"))
				default:
					ops = append(ops, g.dataOp(c))
				}
			}
			for c := 1; c <= nc+1; c++ { // nc+1: a connection opened after everything
				ops = append(ops, mkOp(c, "DISCARD"))
				for _, db := range []string{"0", "1", "2"} {
					ops = append(ops, mkOp(c, "SELECT", db))
					ops = append(ops, g.observeAll(c)...)
				}
			}
			return History{Ops: ops}
		})
	}

	// C15: the same commands on a RESP3 connection (1) and a RESP2 connection (2)
	streams["C15"] = func(cfg runCfg, res *Result) error {
		g := newGen(cfg.seed)
		n := 150
		if cfg.tier == "thorough" {
			n = 3000
		}
		return runHistories(cfg, res, n, func(i int) History {
			var ops []Op
			ops = append(ops, mkOp(1, g.kw("hello"), "3"), mkOp(2, "PING"))
			ops = append(ops, g.seedOps(2)...)
			l := 8 + g.r.Intn(25)
			for j := 0; j < l; j++ {
				switch x := g.r.Intn(100); {
				case x < 8:
					c := 1 + g.r.Intn(3)
					ops = append(ops, mkOp(c, g.kw("hello"), g.pick("2", "3", "3", "4", "1", "0", "-1", "abc")))
				case x < 12:
					ops = append(ops, mkOp(1+g.r.Intn(3), g.kw("hello")))
				case x < 50:
					o := g.readOp(1)
					o2 := o
					o2.Conn = 2
					o3 := o
					o3.Conn = 3
					ops = append(ops, o, o2, o3)
				case x < 60:
					for c := 1; c <= 3; c++ {
						ops = append(ops, mkOp(c, catalog[g.pick("hgetall", "hrandfield", "srandmember", "scan", "hscan", "sscan", "setop", "keys", "scard")](g)...))
					}
				case x < 64:
					for c := 1; c <= 3; c++ {
						ops = append(ops, mkOp(c, g.kw("client"), g.kw(g.pick("info", "list", "id", "getname"))))
					}
				case x < 68:
					for c := 1; c <= 3; c++ {
						ops = append(ops, mkOp(c, g.kw("multi")), mkOp(c, "HGETALL", g.key()), mkOp(c, "SMEMBERS", g.key()), mkOp(c, "GET", g.key()), mkOp(c, g.kw("exec")))
					}
				default:
					ops = append(ops, g.dataOp(1+g.r.Intn(3)))
				}
			}
			for c := 1; c <= 3; c++ {
				ops = append(ops, g.observeAll(c)...)
			}
			return History{Ops: ops}
		})
	}

	// C07: every command applied to keys in each lifetime phase: no deadline, deadline far away,
	// deadline passed but the object still stored (short deadline followed by a sleep)
	streams["C07"] = func(cfg runCfg, res *Result) error {
		g := newGen(cfg.seed)
		n := 60
		if cfg.tier == "thorough" {
			n = 1200
		}
		return runHistories(cfg, res, n, func(i int) History {
			var ops []Op
			ops = append(ops, g.seedOps(1)...)
			// give some keys a short deadline in various ways, then let it pass
			short := 0
			for _, k := range g.keys {
				switch g.r.Intn(6) {
				case 0:
					ops = append(ops, mkOp(1, "SET", k, g.val(), "PX", "30"))
					short++
				case 1:
					ops = append(ops, mkOp(1, "PEXPIRE", k, "30"))
					short++
				case 2:
					ops = append(ops, mkOp(1, "RPUSH", k+"x", "a", "b"), mkOp(1, "PEXPIRE", k+"x", "30"), mkOp(1, "RENAME", k+"x", k))
					short++
				case 3:
					ops = append(ops, mkOp(1, "EXPIRE", k, g.farTTL(1000)))
				}
			}
			first := true
			l := 6 + g.r.Intn(16)
			for j := 0; j < l; j++ {
				o := g.dataOp(1)
				if g.chance(0.25) {
					o = mkOp(1, catalog[g.pick("ttl", "persist", "expire", "pexpire", "getex", "set", "append", "rename", "copy", "keys", "randomkey", "scan", "del", "type")](g)...)
				}
				if first && short > 0 {
					o.SleepMs = 80
					first = false
				}
				ops = append(ops, o)
			}
			ops = append(ops, g.observeAll(1)...)
			for _, k := range g.keys {
				ops = append(ops, mkOp(1, "TTL", k), mkOp(1, "EXPIRETIME", k), mkOp(1, "PEXPIRETIME", k))
			}
			return History{Ops: ops}
		})
	}
	_ = fmt.Sprint
}
