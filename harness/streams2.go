package main

// Multi-connection streams: transactions (C09), WATCH (C10), databases (C14),
// protocol versions (C15), expiry phases (C07).

import (
	"fmt"
)

func (g *Gen) dataOp(c int) Op {
	return g.fromFamilies(c, map[string]int{"string": 4, "list": 4, "hash": 3, "set": 3, "key": 3, "expire": 2, "bits": 1})
}

func (g *Gen) writeOp(c int) Op {
	names := []string{"set", "setnx", "getset", "getdel", "mset", "append", "setrange", "incr", "incrby",
		"lpush", "lpop", "lset", "linsert", "lrem", "ltrim", "lmove", "rpoplpush", "lmpop",
		"hset", "hsetnx", "hdel", "hincrby", "sadd", "srem", "smove", "setopstore",
		"del", "rename", "copy", "expire", "pexpire", "persist", "getex", "setbit", "bitop", "bitfield"}
	n := names[g.r.Intn(len(names))]
	return mkOp(c, catalog[n](g)...)
}

func (g *Gen) readOp(c int) Op {
	names := []string{"get", "mget", "strlen", "getrange", "llen", "lindex", "lrange", "lpos", "hget", "hmget", "hgetall", "hexists",
		"scard", "sismember", "smismember", "setop", "sintercard", "type", "keys", "ttl", "getbit", "bitcount", "bitpos"}
	n := names[g.r.Intn(len(names))]
	return mkOp(c, catalog[n](g)...)
}

// a command that the server rejects when it is received (unknown, or wrong arity)
func (g *Gen) rejectedOp(c int) Op {
	switch g.r.Intn(4) {
	case 0:
		return mkOp(c, "NOSUCHCMD", g.key())
	case 1:
		return mkOp(c, g.kw("get"))
	case 2:
		return mkOp(c, g.kw("lrange"), g.key(), "a", "b")
	default:
		return mkOp(c, g.kw("hset"), g.key(), "f")
	}
}

// a command that is accepted but fails when it runs
func (g *Gen) runtimeErrOp(c int) Op {
	switch g.r.Intn(3) {
	case 0:
		return mkOp(c, g.kw("incr"), "kstr")
	case 1:
		return mkOp(c, g.kw("lpush"), "kstr", "x")
	default:
		return mkOp(c, g.kw("lset"), g.key(), "99", "x")
	}
}

func (g *Gen) blockingOp(c int) Op {
	switch g.r.Intn(5) {
	case 0:
		return mkOp(c, g.kw("blpop"), g.key(), g.key(), "0.01")
	case 1:
		return mkOp(c, g.kw("brpop"), g.key(), "0.01")
	case 2:
		return mkOp(c, g.kw("blmove"), g.key(), g.key(), g.kw("LEFT"), g.kw("RIGHT"), "0.01")
	case 3:
		return mkOp(c, g.kw("brpoplpush"), g.key(), g.key(), "0.01")
	default:
		return mkOp(c, g.kw("blmpop"), "0.01", "2", g.key(), g.key(), g.kw("LEFT"))
	}
}

func init() {
	// C09: transaction programs on c1 with an observer c2
	streams["C09"] = func(cfg runCfg, res *Result) error {
		g := newGen(cfg.seed)
		n := 120
		if cfg.tier == "thorough" {
			n = 2500
		}
		return runHistories(cfg, res, n, func(i int) History {
			var ops []Op
			ops = append(ops, g.seedOps(1)...)
			ops = append(ops, mkOp(1, "SET", "kstr", "abc"))
			l := 6 + g.r.Intn(30)
			for j := 0; j < l; j++ {
				switch x := g.r.Intn(100); {
				case x < 10:
					ops = append(ops, mkOp(1, g.kw("multi")))
				case x < 20:
					ops = append(ops, mkOp(1, g.kw("exec")))
				case x < 24:
					ops = append(ops, mkOp(1, g.kw("discard")))
				case x < 29:
					ops = append(ops, mkOp(1, g.kw("watch"), g.key()))
				case x < 31:
					ops = append(ops, mkOp(1, g.kw("unwatch")))
				case x < 37:
					ops = append(ops, g.rejectedOp(1))
				case x < 43:
					ops = append(ops, g.runtimeErrOp(1))
				case x < 49:
					ops = append(ops, g.blockingOp(1))
				case x < 52:
					ops = append(ops, mkOp(1, g.kw("select"), g.pick("0", "1", "0")))
				case x < 70:
					// the other connection reads and writes the same keys in between
					if g.chance(0.5) {
						ops = append(ops, g.readOp(2))
					} else {
						ops = append(ops, g.writeOp(2))
					}
				default:
					ops = append(ops, g.dataOp(1))
				}
			}
			ops = append(ops, mkOp(1, "EXEC"), mkOp(1, "PING"), mkOp(1, "SELECT", "0"))
			ops = append(ops, g.observeAll(2)...)
			ops = append(ops, g.observeAll(1)...)
			return History{Ops: ops}
		})
	}

	// C10: WATCH scenarios: every kind of command between WATCH and EXEC, on either connection
	streams["C10"] = func(cfg runCfg, res *Result) error {
		g := newGen(cfg.seed)
		n := 250
		if cfg.tier == "thorough" {
			n = 5000
		}
		return runHistories(cfg, res, n, func(i int) History {
			var ops []Op
			ops = append(ops, g.seedOps(1)...)
			nw := 1 + g.r.Intn(2)
			w := []string{g.kw("watch")}
			for j := 0; j < nw; j++ {
				w = append(w, g.key())
			}
			ops = append(ops, mkOp(1, w...))
			mod := func() Op {
				who := 1 + g.r.Intn(2)
				switch x := g.r.Intn(10); {
				case x < 6:
					return g.writeOp(who)
				case x < 8:
					return g.readOp(who)
				case x < 9:
					return g.runtimeErrOp(who)
				default:
					if who == 2 && g.chance(0.5) {
						return mkOp(2, g.kw(g.pick("flushdb", "flushall")))
					}
					return g.rejectedOp(who)
				}
			}
			for j := 0; j < g.r.Intn(3); j++ {
				ops = append(ops, mod())
			}
			ops = append(ops, mkOp(1, g.kw("multi")))
			for j := 0; j < g.r.Intn(2); j++ {
				o := mod()
				if o.Conn == 2 {
					ops = append(ops, o)
				}
			}
			ops = append(ops, mkOp(1, "SET", "kq", "queued"), mkOp(1, "INCR", "kcount"))
			for j := 0; j < g.r.Intn(2); j++ {
				o := mod()
				if o.Conn == 2 {
					ops = append(ops, o)
				}
			}
			ops = append(ops, mkOp(1, g.kw("exec")), mkOp(1, "GET", "kq"), mkOp(1, "GET", "kcount"))
			// a second transaction on the same connection: the first one must have reset the watches
			ops = append(ops, mkOp(1, "MULTI"), mkOp(1, "INCR", "kcount"), mkOp(2, "SET", g.key(), "late"), mkOp(1, "EXEC"))
			ops = append(ops, g.observeAll(2)...)
			return History{Ops: ops}
		})
	}

	// C14: several connections, SELECT / FLUSHDB / FLUSHALL / DBSIZE interleaved with data commands
	streams["C14"] = func(cfg runCfg, res *Result) error {
		g := newGen(cfg.seed)
		n := 150
		if cfg.tier == "thorough" {
			n = 3000
		}
		return runHistories(cfg, res, n, func(i int) History {
			var ops []Op
			nc := 3
			for c := 1; c <= nc; c++ {
				ops = append(ops, mkOp(c, "PING"))
			}
			l := 10 + g.r.Intn(30)
			for j := 0; j < l; j++ {
				c := 1 + g.r.Intn(nc)
				switch x := g.r.Intn(100); {
				case x < 15:
					ops = append(ops, mkOp(c, g.kw("select"), g.pick("0", "1", "2", "15", "16", "-1", "0", "1", "abc")))
				case x < 21:
					ops = append(ops, mkOp(c, g.kw("flushdb")))
				case x < 24:
					ops = append(ops, mkOp(c, g.kw("flushall")))
				case x < 32:
					ops = append(ops, mkOp(c, g.kw("dbsize")))
				case x < 36:
					ops = append(ops, mkOp(c, g.kw("client"), g.kw("setname"), g.pick("alice", "bob", "x y", "")))
				case x < 40:
					ops = append(ops, mkOp(c, g.kw("client"), g.kw("getname")))
				case x < 44:
					ops = append(ops, mkOp(c, g.kw("multi")))
				case x < 48:
					ops = append(ops, mkOp(c, g.kw("exec")))
				case x < 50:
					ops = append(ops, mkOp(c, g.kw("hello"), g.pick("2", "3", "4", "0", "-3")))
				case x < 53:
					ops = append(ops, mkOp(c, g.kw("watch"), g.key()))
				case x < 60:
					ops = append(ops, mkOp(c, "KEYS", "*"))
				default:
					ops = append(ops, g.dataOp(c))
				}
			}
			for c := 1; c <= nc+1; c++ { // nc+1: a connection opened after everything
				ops = append(ops, mkOp(c, "DISCARD"))
				for _, db := range []string{"0", "1", "2"} {
					ops = append(ops, mkOp(c, "SELECT", db))
					ops = append(ops, g.observeAll(c)...)
				}
			}
			return History{Ops: ops}
		})
	}

	// C15: the same commands on a RESP3 connection (1) and a RESP2 connection (2)
	streams["C15"] = func(cfg runCfg, res *Result) error {
		g := newGen(cfg.seed)
		n := 150
		if cfg.tier == "thorough" {
			n = 3000
		}
		return runHistories(cfg, res, n, func(i int) History {
			var ops []Op
			ops = append(ops, mkOp(1, g.kw("hello"), "3"), mkOp(2, "PING"))
			ops = append(ops, g.seedOps(2)...)
			l := 8 + g.r.Intn(25)
			for j := 0; j < l; j++ {
				switch x := g.r.Intn(100); {
				case x < 8:
					c := 1 + g.r.Intn(3)
					ops = append(ops, mkOp(c, g.kw("hello"), g.pick("2", "3", "3", "4", "1", "0", "-1", "abc")))
				case x < 12:
					ops = append(ops, mkOp(1+g.r.Intn(3), g.kw("hello")))
				case x < 50:
					o := g.readOp(1)
					o2 := o
					o2.Conn = 2
					o3 := o
					o3.Conn = 3
					ops = append(ops, o, o2, o3)
				case x < 60:
					for c := 1; c <= 3; c++ {
						ops = append(ops, mkOp(c, catalog[g.pick("hgetall", "hrandfield", "srandmember", "scan", "hscan", "sscan", "setop", "keys", "scard")](g)...))
					}
				case x < 64:
					for c := 1; c <= 3; c++ {
						ops = append(ops, mkOp(c, g.kw("client"), g.kw(g.pick("info", "list", "id", "getname"))))
					}
				case x < 68:
					for c := 1; c <= 3; c++ {
						ops = append(ops, mkOp(c, g.kw("multi")), mkOp(c, "HGETALL", g.key()), mkOp(c, "SMEMBERS", g.key()), mkOp(c, "GET", g.key()), mkOp(c, g.kw("exec")))
					}
				default:
					ops = append(ops, g.dataOp(1+g.r.Intn(3)))
				}
			}
			for c := 1; c <= 3; c++ {
				ops = append(ops, g.observeAll(c)...)
			}
			return History{Ops: ops}
		})
	}

	// C07: every command applied to keys in each lifetime phase: no deadline, deadline far away,
	// deadline passed but the object still stored (short deadline followed by a sleep)
	streams["C07"] = func(cfg runCfg, res *Result) error {
		g := newGen(cfg.seed)
		n := 60
		if cfg.tier == "thorough" {
			n = 1200
		}
		return runHistories(cfg, res, n, func(i int) History {
			var ops []Op
			ops = append(ops, g.seedOps(1)...)
			// give some keys a short deadline in various ways, then let it pass
			short := 0
			for _, k := range g.keys {
				switch g.r.Intn(6) {
				case 0:
					ops = append(ops, mkOp(1, "SET", k, g.val(), "PX", "30"))
					short++
				case 1:
					ops = append(ops, mkOp(1, "PEXPIRE", k, "30"))
					short++
				case 2:
					ops = append(ops, mkOp(1, "RPUSH", k+"x", "a", "b"), mkOp(1, "PEXPIRE", k+"x", "30"), mkOp(1, "RENAME", k+"x", k))
					short++
				case 3:
					ops = append(ops, mkOp(1, "EXPIRE", k, g.farTTL(1000)))
				}
			}
			first := true
			l := 6 + g.r.Intn(16)
			for j := 0; j < l; j++ {
				o := g.dataOp(1)
				if g.chance(0.25) {
					o = mkOp(1, catalog[g.pick("ttl", "persist", "expire", "pexpire", "getex", "set", "append", "rename", "copy", "keys", "randomkey", "scan", "del", "type")](g)...)
				}
				if first && short > 0 {
					o.SleepMs = 80
					first = false
				}
				ops = append(ops, o)
			}
			ops = append(ops, g.observeAll(1)...)
			for _, k := range g.keys {
				ops = append(ops, mkOp(1, "TTL", k), mkOp(1, "EXPIRETIME", k), mkOp(1, "PEXPIRETIME", k))
			}
			return History{Ops: ops}
		})
	}
	_ = fmt.Sprint
}
