package main

// Multi-connection streams: transactions (C09), WATCH (C10), databases (C14),
// protocol versions (C15), expiry phases (C07).

import (
	"fmt"
	"os"
	"sort"
	"strings"
)

func (g *Gen) dataOp(c int) Op {
	return g.fromFamilies(c, map[string]int{"string": 4, "list": 4, "hash": 3, "set": 3, "key": 3, "expire": 2, "bits": 1})
}

func (g *Gen) writeOp(c int) Op {
	names := []string{"set", "setnx", "getset", "getdel", "mset", "append", "setrange", "incr", "incrby",
		"lpush", "lpop", "lset", "linsert", "lrem", "ltrim", "lmove", "rpoplpush", "lmpop",
		"hset", "hsetnx", "hdel", "hincrby", "sadd", "srem", "smove", "setopstore",
		"del", "rename", "copy", "expire", "pexpire", "persist", "getex", "setbit", "bitop", "bitfield"}
	n := names[g.r.Intn(len(names))]
	return mkOp(c, catalog[n](g)...)
}

func (g *Gen) readOp(c int) Op {
	names := []string{"get", "mget", "strlen", "getrange", "llen", "lindex", "lrange", "lpos", "hget", "hmget", "hgetall", "hexists",
		"scard", "sismember", "smismember", "setop", "sintercard", "type", "keys", "ttl", "getbit", "bitcount", "bitpos"}
	n := names[g.r.Intn(len(names))]
	return mkOp(c, catalog[n](g)...)
}

// a write aimed at key k, chosen to suit (or deliberately not suit) the type the key was seeded with
func (g *Gen) typedWrite(c int, k string) Op {
	other := g.key()
	pickOp := func(cands ...[]string) Op { return mkOp(c, cands[g.r.Intn(len(cands))]...) }
	switch g.r.Intn(6) {
	case 0: // string operations
		return pickOp([]string{"APPEND", k, g.pick("", "x")}, []string{"INCR", k}, []string{"SETRANGE", k, g.pick("0", "2"), g.pick("", "zz")},
			[]string{"SETBIT", k, g.pick("0", "7", "9"), g.pick("0", "1")}, []string{"GETSET", k, g.val()}, []string{"GETDEL", k},
			[]string{"SET", k, g.val()}, []string{"SET", k, g.val(), "XX"}, []string{"SET", k, g.val(), "NX"}, []string{"SETNX", k, "v"},
			[]string{"MSET", other, "1", k, "2"}, []string{"MSETNX", other, "1", k, "2"}, []string{"GETEX", k, "PERSIST"}, []string{"GETEX", k, "EX", "100"}, []string{"GETEX", k},
			[]string{"BITFIELD", k, "SET", "u8", "0", g.pick("0", "65")}, []string{"BITFIELD", k, "GET", "u8", "0"}, []string{"INCRBY", k, "0"}, []string{"DECRBY", k, "5"})
	case 1: // list operations
		return pickOp([]string{"LPUSH", k, g.elem()}, []string{"RPUSH", k, g.elem()}, []string{"LPUSHX", k, g.elem()}, []string{"LPOP", k}, []string{"RPOP", k}, []string{"LPOP", k, "0"},
			[]string{"LSET", k, g.pick("0", "-1", "5"), g.elem()}, []string{"LINSERT", k, g.pick("BEFORE", "AFTER"), g.elem(), "n"}, []string{"LREM", k, "0", g.elem()},
			[]string{"LTRIM", k, g.pick("0", "1"), g.pick("-1", "0", "-2")}, []string{"LMOVE", k, other, "LEFT", "RIGHT"}, []string{"LMOVE", other, k, "LEFT", "RIGHT"},
			[]string{"LMOVE", k, k, "LEFT", "RIGHT"}, []string{"RPOPLPUSH", k, other}, []string{"LMPOP", "1", k, "LEFT"}, []string{"BLPOP", k, "0.01"}, []string{"BRPOPLPUSH", k, other, "0.01"})
	case 2: // hash operations: new field, existing field with another value, with the same value, removal, increment
		return pickOp([]string{"HSET", k, g.field(), g.pick("1", "2", "x")}, []string{"HSET", k, "f1", g.pick("1", "2")}, []string{"HMSET", k, "f1", "9", "f2", "9"},
			[]string{"HSETNX", k, g.field(), "n"}, []string{"HDEL", k, g.field()}, []string{"HDEL", k, "nofield"}, []string{"HINCRBY", k, g.field(), g.pick("0", "1", "-1")})
	case 3: // set operations
		return pickOp([]string{"SADD", k, g.member()}, []string{"SREM", k, g.member()}, []string{"SREM", k, "nomember"}, []string{"SMOVE", k, other, g.member()}, []string{"SMOVE", other, k, g.member()},
			[]string{"SINTERSTORE", k, other, other}, []string{"SUNIONSTORE", k, other}, []string{"SDIFFSTORE", k, k, other})
	case 4: // keyspace operations
		return pickOp([]string{"DEL", k}, []string{"UNLINK", k}, []string{"DEL", "nokey"}, []string{"RENAME", k, other}, []string{"RENAME", other, k}, []string{"RENAME", k, k},
			[]string{"RENAMENX", other, k}, []string{"COPY", other, k}, []string{"COPY", other, k, "REPLACE"}, []string{"COPY", k, other, "REPLACE"},
			[]string{"BITOP", "NOT", k, other}, []string{"BITOP", "AND", k, k, other}, []string{"TOUCH", k}, []string{"TYPE", k},
			[]string{"SORT", other, "ALPHA", "STORE", k}, []string{"SORT", k, "ALPHA", "STORE", k}, []string{"SORT", "nokey", "STORE", k}, []string{"SORT", k, "ALPHA", "LIMIT", "0", "0", "STORE", other})
	default: // expiry operations
		return pickOp([]string{"EXPIRE", k, "100"}, []string{"PEXPIRE", k, "100000", g.pick("NX", "XX", "GT", "LT")}, []string{"PERSIST", k}, []string{"EXPIRE", k, "-1"},
			[]string{"EXPIREAT", k, "4102444800"}, []string{"PEXPIRE", k, "0"}, []string{"TTL", k}, []string{"EXPIRE", "nokey", "10"})
	}
}

// C10: every write command against a key of the type it suits, whose content is known, as the ONLY
// thing that happens between WATCH and EXEC — including writes that leave the value as it was
// (same value stored again, zero increment, removal of something absent, empty append)
type watchCase struct {
	setup [][]string
	write []string
}

// sequences after which the watched key looks exactly as before — and was nevertheless modified
// the life of a watch: what ends it (EXEC whatever its outcome, DISCARD inside MULTI, UNWATCH) and what
// does not (refused commands, a stray DISCARD or EXEC, more WATCHes, SELECT); then the key is
// modified (or not) and a fresh transaction shows whether the watch was still there
func (g *Gen) watchLife(n int) []Op {
	var ops []Op
	start, i := n, 0
	_ = i
	events := [][][]string{
		{{"MULTI"}, {"nosuchcommand"}, {"EXEC"}}, {{"MULTI"}, {"GET"}, {"SET", "kq", "1"}, {"EXEC"}}, {{"MULTI"}, {"SET", "kq", "1"}, {"DISCARD"}},
		{{"DISCARD"}}, {{"EXEC"}}, {{"UNWATCH"}}, {{"MULTI"}, {"SET", "kq", "1"}, {"EXEC"}}, {{"MULTI"}, {"MULTI"}, {"EXEC"}}, {{"MULTI"}, {"WATCH", "k2"}, {"EXEC"}},
		{{"nosuchcommand"}}, {{"WATCH"}}, {{"WATCH", "k2"}}, {{"SELECT", "1"}, {"SELECT", "0"}}, {{"PING"}}, {{"MULTI"}, {"EXEC"}}, {{"MULTI"}, {"DISCARD"}},
		{{"DISCARD", "x"}}, {{"UNWATCH", "x"}}, {{"MULTI"}, {"nosuchcommand"}, {"DISCARD"}}, {{"MULTI"}, {"EXEC", "x"}, {"EXEC"}}, {{"GET"}}, {{"MULTI", "x"}},
	}
	ev := events[start%len(events)]
	ops = append(ops, mkOp(1, "SET", "k", "hello"))
	if g.chance(0.3) {
		ops = append(ops, mkOp(1, "DEL", "k")) // a key that does not exist can be watched too
	}
	ops = append(ops, mkOp(1, "WATCH", "k"))
	if g.chance(0.25) {
		// ... and so can a transaction that was aborted by a modification
		ops = append(ops, mkOp(2, "APPEND", "k", "y"))
	}
	for _, a := range ev {
		ops = append(ops, mkOp(1, a...))
	}
	switch (start / len(events)) % 3 {
	case 0:
		ops = append(ops, mkOp(2, "APPEND", "k", "x"))
	case 1:
		ops = append(ops, mkOp(1, "APPEND", "k", "x"))
	}
	ops = append(ops, mkOp(1, "MULTI"), mkOp(1, "SET", "kq", "final"), mkOp(1, "EXEC"), mkOp(1, "GET", "kq"), mkOp(2, "GET", "k"))
	// and once more: every EXEC ends all watches
	ops = append(ops, mkOp(2, "APPEND", "k", "z"), mkOp(1, "MULTI"), mkOp(1, "SET", "kq", "again"), mkOp(1, "EXEC"), mkOp(1, "GET", "kq"))
	return ops
}

func c10Pairs() [][][]string {
	return [][][]string{
		{{"SET", "k", "hello"}, {"RENAME", "k", "t"}, {"RENAME", "t", "k"}},
		{{"SET", "k", "hello"}, {"RENAME", "k", "t1"}, {"RENAMENX", "t1", "t2"}, {"RENAME", "t2", "k"}},
		{{"RPUSH", "k", "a", "b"}, {"RENAME", "k", "t"}, {"RENAME", "t", "k"}},
		{{"SET", "k", "hello"}, {"DEL", "k"}, {"SET", "k", "hello"}},
		{{"SET", "k", "hello"}, {"SET", "k", "other"}, {"SET", "k", "hello"}},
		{{"SET", "k", "hello"}, {"APPEND", "k", "x"}, {"SETRANGE", "k", "0", "hello"}, {"GETDEL", "k"}, {"SET", "k", "hello"}},
		{{"RPUSH", "k", "a", "b"}, {"RPUSH", "k", "c"}, {"RPOP", "k"}},
		{{"RPUSH", "k", "a", "b"}, {"LPOP", "k"}, {"LPUSH", "k", "a"}},
		{{"RPUSH", "k", "a", "b"}, {"LSET", "k", "0", "z"}, {"LSET", "k", "0", "a"}},
		{{"SADD", "k", "m1"}, {"SADD", "k", "m2"}, {"SREM", "k", "m2"}},
		{{"SADD", "k", "m1"}, {"SMOVE", "k", "o", "m1"}, {"SMOVE", "o", "k", "m1"}},
		{{"HSET", "k", "f", "1"}, {"HSET", "k", "f", "2"}, {"HSET", "k", "f", "1"}},
		{{"HSET", "k", "f", "1"}, {"HINCRBY", "k", "f", "5"}, {"HINCRBY", "k", "f", "-5"}},
		{{"HSET", "k", "f", "1"}, {"HSET", "k", "g", "1"}, {"HDEL", "k", "g"}},
		{{"SET", "k", "10"}, {"INCR", "k"}, {"DECR", "k"}},
		{{"SET", "k", "hello"}, {"EXPIRE", "k", "1000"}, {"PERSIST", "k"}},
		{{"SET", "k", "hello", "EX", "1000"}, {"PERSIST", "k"}, {"EXPIRE", "k", "1000"}},
		{{"SET", "k", "hello"}, {"SETBIT", "k", "7", "1"}, {"SETBIT", "k", "7", "0"}},
		{{"SET", "k", "hello"}, {"COPY", "k", "t"}, {"DEL", "k"}, {"RENAME", "t", "k"}},
		{{"SET", "k", "hello"}, {"COPY", "k", "t"}, {"COPY", "t", "k", "REPLACE"}},
		{{"SET", "k", "hello"}, {"FLUSHDB"}, {"SET", "k", "hello"}},
		{{"RPUSH", "k", "a"}, {"LMOVE", "k", "t", "LEFT", "LEFT"}, {"LMOVE", "t", "k", "LEFT", "LEFT"}},
		{{"RPUSH", "k", "a", "b"}, {"LMOVE", "k", "k", "LEFT", "RIGHT"}, {"LMOVE", "k", "k", "RIGHT", "LEFT"}},
		{{"SET", "k", "hello"}, {"BITOP", "NOT", "k", "k"}, {"BITOP", "NOT", "k", "k"}},
		{{"SADD", "k", "m1"}, {"SUNIONSTORE", "k", "k"}},
		{{"RPUSH", "k", "b", "a"}, {"SORT", "k", "ALPHA", "STORE", "t"}, {"RENAME", "t", "k"}, {"LMOVE", "k", "k", "LEFT", "RIGHT"}},
	}
}

func c10Table() []watchCase {
	str := [][]string{{"SET", "k", "hello"}}
	num := [][]string{{"SET", "k", "10"}}
	lst := [][]string{{"RPUSH", "k", "a", "b", "c", "b"}}
	hsh := [][]string{{"HSET", "k", "f1", "1", "f2", "x"}}
	set := [][]string{{"SADD", "k", "m1", "m2"}, {"SADD", "o", "m2", "m3"}}
	ttl := [][]string{{"SET", "k", "v", "EX", "1000"}}
	oth := [][]string{{"SET", "k", "hello"}, {"SET", "o", "other"}}
	lst2 := [][]string{{"RPUSH", "k", "a", "b"}, {"RPUSH", "o", "x"}}
	none := [][]string{{"SET", "o", "other"}}
	var t []watchCase
	add := func(setup [][]string, writes ...[]string) {
		for _, w := range writes {
			t = append(t, watchCase{setup, w})
		}
	}
	add(str, []string{"SET", "k", "hello"}, []string{"SET", "k", "new"}, []string{"SET", "k", "v", "XX"}, []string{"SET", "k", "v", "NX"}, []string{"SET", "k", "v", "KEEPTTL"},
		[]string{"SETNX", "k", "v"}, []string{"SETEX", "k", "100", "hello"}, []string{"PSETEX", "k", "100000", "v"}, []string{"GETSET", "k", "hello"}, []string{"GETDEL", "k"},
		[]string{"APPEND", "k", ""}, []string{"APPEND", "k", "x"}, []string{"SETRANGE", "k", "0", ""}, []string{"SETRANGE", "k", "0", "h"}, []string{"SETRANGE", "k", "1", "E"},
		[]string{"SETBIT", "k", "1", "1"}, []string{"SETBIT", "k", "0", "1"}, []string{"SETBIT", "k", "100", "0"}, []string{"BITFIELD", "k", "SET", "u8", "0", "104"},
		[]string{"BITFIELD", "k", "SET", "u8", "0", "1"}, []string{"BITFIELD", "k", "INCRBY", "u8", "0", "0"}, []string{"BITFIELD", "k", "GET", "u8", "0"},
		[]string{"BITFIELD", "k", "OVERFLOW", "FAIL", "INCRBY", "u8", "0", "200"}, []string{"BITFIELD", "k", "OVERFLOW", "FAIL", "SET", "i4", "0", "13"},
		[]string{"BITFIELD", "k", "OVERFLOW", "FAIL", "INCRBY", "u8", "0", "200", "GET", "u8", "8"}, []string{"BITFIELD", "k", "OVERFLOW", "FAIL", "INCRBY", "u8", "0", "200", "INCRBY", "u8", "8", "1"},
		[]string{"BITFIELD", "k", "OVERFLOW", "SAT", "INCRBY", "u8", "0", "200"}, []string{"BITFIELD_RO", "k", "GET", "u8", "0"}, []string{"SETRANGE", "k", "1", "ello"}, []string{"SETBIT", "k", "1", "1"},
		[]string{"GETRANGE", "k", "0", "-1"}, []string{"STRLEN", "k"}, []string{"LCS", "k", "k"}, []string{"BITCOUNT", "k"}, []string{"BITPOS", "k", "1"}, []string{"GETBIT", "k", "3"},
		[]string{"EXISTS", "k"}, []string{"TYPE", "k"}, []string{"TTL", "k"}, []string{"SORT", "k"}, []string{"SCAN", "0"}, []string{"KEYS", "*"}, []string{"RANDOMKEY"},
		[]string{"INCR", "k"}, []string{"LPUSH", "k", "x"}, []string{"SETRANGE", "k", "-1", "x"}, []string{"SETBIT", "k", "0", "2"}, []string{"EXPIRE", "k", "abc"}, []string{"RENAME", "nokey", "k"}, []string{"COPY", "nokey", "k"},
		[]string{"MSET", "k", "hello"}, []string{"MSET", "o", "1", "k", "2"}, []string{"MSETNX", "k", "1", "o", "2"}, []string{"GETEX", "k"}, []string{"GETEX", "k", "PERSIST"},
		[]string{"GETEX", "k", "EX", "100"}, []string{"INCR", "k"}, []string{"LPUSH", "k", "x"}, []string{"HSET", "k", "f", "v"}, []string{"SADD", "k", "m"},
		[]string{"DEL", "k"}, []string{"UNLINK", "k"}, []string{"TOUCH", "k"}, []string{"RENAME", "k", "k"}, []string{"COPY", "k", "k"}, []string{"BITOP", "NOT", "k", "k"},
		[]string{"BITOP", "AND", "k", "k", "k"}, []string{"BITOP", "OR", "k", "k", "nokey"}, []string{"EXPIRE", "k", "100"}, []string{"EXPIRE", "k", "100", "XX"}, []string{"EXPIRE", "k", "100", "NX"},
		[]string{"PERSIST", "k"}, []string{"EXPIRE", "k", "0"}, []string{"PEXPIREAT", "k", "1"}, []string{"EXPIREAT", "k", "4102444800"})
	add(num, []string{"INCR", "k"}, []string{"DECR", "k"}, []string{"INCRBY", "k", "0"}, []string{"DECRBY", "k", "0"}, []string{"INCRBY", "k", "5"}, []string{"INCRBY", "k", "9223372036854775807"},
		[]string{"APPEND", "k", "0"}, []string{"SET", "k", "10"})
	add(ttl, []string{"PERSIST", "k"}, []string{"EXPIRE", "k", "1000"}, []string{"EXPIRE", "k", "2000", "GT"}, []string{"EXPIRE", "k", "2000", "LT"}, []string{"EXPIRE", "k", "10", "NX"},
		[]string{"SET", "k", "v", "KEEPTTL"}, []string{"GETEX", "k", "PERSIST"}, []string{"APPEND", "k", ""}, []string{"SETRANGE", "k", "0", "v"}, []string{"TTL", "k"})
	add(lst, []string{"LPUSH", "k", "x"}, []string{"RPUSH", "k", "x"}, []string{"LPUSHX", "k", "x"}, []string{"RPUSHX", "k", "x"}, []string{"LPOP", "k"}, []string{"RPOP", "k"}, []string{"LPOP", "k", "0"},
		[]string{"LPOP", "k", "10"}, []string{"LSET", "k", "0", "a"}, []string{"LSET", "k", "0", "z"}, []string{"LSET", "k", "-1", "z"}, []string{"LSET", "k", "9", "z"},
		[]string{"LINSERT", "k", "BEFORE", "b", "n"}, []string{"LINSERT", "k", "AFTER", "nosuch", "n"}, []string{"LREM", "k", "0", "b"}, []string{"LREM", "k", "1", "nosuch"}, []string{"LREM", "k", "-1", "b"},
		[]string{"LTRIM", "k", "0", "-1"}, []string{"LTRIM", "k", "1", "2"}, []string{"LTRIM", "k", "5", "9"}, []string{"LMOVE", "k", "k", "LEFT", "LEFT"}, []string{"LMOVE", "k", "k", "LEFT", "RIGHT"},
		[]string{"RPOPLPUSH", "k", "k"}, []string{"LMPOP", "1", "k", "LEFT"}, []string{"LMPOP", "2", "nokey", "k", "RIGHT", "COUNT", "2"}, []string{"BLPOP", "k", "0.01"}, []string{"BRPOP", "nokey", "k", "0.01"},
		[]string{"BLMOVE", "k", "k", "RIGHT", "LEFT", "0.01"}, []string{"BLMPOP", "0.01", "1", "k", "LEFT"},
		[]string{"LRANGE", "k", "0", "-1"}, []string{"LPOS", "k", "b"}, []string{"RENAME", "k", "k"}, []string{"COPY", "k", "k", "REPLACE"},
		[]string{"SORT", "k", "ALPHA", "STORE", "k"}, []string{"SORT", "k", "ALPHA"}, []string{"SORT", "k", "ALPHA", "LIMIT", "0", "0", "STORE", "k"}, []string{"SORT", "k", "STORE", "k"},
		[]string{"SORT", "nokey", "STORE", "k"}, []string{"SORT", "k", "BY", "nosort", "STORE", "k"}, []string{"SORT", "k", "BY", "nosort", "STORE", "o"})
	add(lst2, []string{"LMOVE", "k", "o", "LEFT", "RIGHT"}, []string{"LMOVE", "o", "k", "LEFT", "RIGHT"}, []string{"RPOPLPUSH", "o", "k"}, []string{"BLMOVE", "o", "k", "LEFT", "LEFT", "0.01"},
		[]string{"BRPOPLPUSH", "k", "o", "0.01"}, []string{"RENAME", "o", "k"}, []string{"RENAME", "k", "o"}, []string{"RENAMENX", "o", "k"}, []string{"COPY", "o", "k"}, []string{"COPY", "o", "k", "REPLACE"},
		[]string{"COPY", "k", "o", "REPLACE"}, []string{"LMPOP", "2", "o", "k", "LEFT"}, []string{"SORT", "o", "ALPHA", "STORE", "k"}, []string{"SORT", "k", "ALPHA", "STORE", "o"})
	add(hsh, []string{"HSET", "k", "f1", "1"}, []string{"HSET", "k", "f1", "2"}, []string{"HSET", "k", "f3", "3"}, []string{"HSET", "k", "f1", "1", "f2", "x"}, []string{"HSET", "k", "f1", "5", "f3", "6"},
		[]string{"HMSET", "k", "f1", "1"}, []string{"HMSET", "k", "f1", "7", "f2", "8"}, []string{"HSETNX", "k", "f1", "9"}, []string{"HSETNX", "k", "f9", "9"}, []string{"HDEL", "k", "f1"},
		[]string{"HDEL", "k", "nofield"}, []string{"HDEL", "k", "f1", "f2"}, []string{"HINCRBY", "k", "f1", "0"}, []string{"HINCRBY", "k", "f1", "3"}, []string{"HINCRBY", "k", "f2", "1"},
		[]string{"HINCRBY", "k", "fnew", "0"}, []string{"HGETALL", "k"}, []string{"HRANDFIELD", "k"}, []string{"HSTRLEN", "k", "f1"})
	add(set, []string{"SADD", "k", "m1"}, []string{"SADD", "k", "m9"}, []string{"SADD", "k", "m1", "m9"}, []string{"SREM", "k", "m1"}, []string{"SREM", "k", "nomember"}, []string{"SREM", "k", "m1", "m2"},
		[]string{"SMOVE", "k", "o", "m1"}, []string{"SMOVE", "k", "o", "m2"}, []string{"SMOVE", "k", "o", "nomember"}, []string{"SMOVE", "o", "k", "m3"}, []string{"SMOVE", "o", "k", "m2"}, []string{"SMOVE", "k", "k", "m1"},
		[]string{"SINTERSTORE", "k", "k", "o"}, []string{"SINTERSTORE", "k", "k", "k"}, []string{"SUNIONSTORE", "k", "k"}, []string{"SUNIONSTORE", "k", "k", "o"}, []string{"SDIFFSTORE", "k", "k", "nokey"},
		[]string{"SDIFFSTORE", "k", "k", "k"}, []string{"SDIFFSTORE", "o", "k", "o"}, []string{"SINTERSTORE", "k", "nokey", "o"}, []string{"SINTERCARD", "2", "k", "o"}, []string{"SMEMBERS", "k"},
		[]string{"SORT", "k", "ALPHA", "STORE", "k"}, []string{"SORT", "k", "ALPHA", "STORE", "o"}, []string{"SORT", "k", "BY", "nosort", "STORE", "k"})
	add(oth, []string{"RENAME", "o", "k"}, []string{"RENAME", "k", "o"}, []string{"RENAMENX", "o", "k"}, []string{"RENAMENX", "k", "new"}, []string{"COPY", "o", "k"}, []string{"COPY", "o", "k", "REPLACE"},
		[]string{"COPY", "k", "o", "REPLACE"}, []string{"BITOP", "XOR", "k", "o", "o"}, []string{"BITOP", "OR", "o", "k", "k"}, []string{"DEL", "o", "k"}, []string{"DEL", "o"}, []string{"MSETNX", "new", "1", "k", "2"},
		[]string{"FLUSHDB"}, []string{"FLUSHALL"}, []string{"SELECT", "1"}, []string{"LCS", "k", "o"}, []string{"LCS", "k", "o", "IDX"}, []string{"SORT", "k", "STORE", "k"})
	add(none, []string{"SET", "k", "v"}, []string{"SETNX", "k", "v"}, []string{"SET", "k", "v", "XX"}, []string{"APPEND", "k", ""}, []string{"APPEND", "k", "x"}, []string{"SETRANGE", "k", "0", ""}, []string{"SETBIT", "k", "0", "0"},
		[]string{"INCR", "k"}, []string{"INCRBY", "k", "0"}, []string{"LPUSH", "k", "x"}, []string{"LPUSHX", "k", "x"}, []string{"HSET", "k", "f", "v"}, []string{"HINCRBY", "k", "f", "0"}, []string{"HDEL", "k", "f"},
		[]string{"SADD", "k", "m"}, []string{"SREM", "k", "m"}, []string{"DEL", "k"}, []string{"RENAME", "o", "k"}, []string{"COPY", "o", "k"}, []string{"SUNIONSTORE", "k", "nokey"}, []string{"BITOP", "NOT", "k", "nokey"},
		[]string{"EXPIRE", "k", "100"}, []string{"PERSIST", "k"}, []string{"GETDEL", "k"}, []string{"GETSET", "k", "v"}, []string{"LMOVE", "nokey", "k", "LEFT", "LEFT"}, []string{"SMOVE", "nokey", "k", "m"},
		[]string{"FLUSHDB"}, []string{"BITFIELD", "k", "SET", "u8", "0", "0"}, []string{"BITFIELD", "k", "INCRBY", "u8", "0", "0"},
		[]string{"SORT", "nokey", "STORE", "k"}, []string{"SORT", "k", "STORE", "k"}, []string{"SORT", "o", "STORE", "k"})
	// a one-element list rotated onto itself is popped and pushed: a modification like any other rotation
	one := [][]string{{"RPUSH", "k", "a"}}
	add(one, []string{"LMOVE", "k", "k", "LEFT", "RIGHT"}, []string{"LMOVE", "k", "k", "RIGHT", "RIGHT"}, []string{"RPOPLPUSH", "k", "k"}, []string{"LMOVE", "nokey", "k", "LEFT", "LEFT"},
		[]string{"LSET", "k", "0", "a"}, []string{"LTRIM", "k", "0", "-1"}, []string{"LREM", "k", "0", "zz"}, []string{"LINSERT", "k", "BEFORE", "zz", "x"}, []string{"SORT", "k", "ALPHA", "STORE", "k"})
	// the watched key is gone but still stored when WATCH is issued (UNLINK moves the deadline into the past)
	goneS := [][]string{{"SET", "k", "hello"}, {"UNLINK", "k"}}
	goneL := [][]string{{"RPUSH", "k", "a", "b"}, {"SET", "o", "other"}, {"UNLINK", "k"}}
	for _, gone := range [][][]string{goneS, goneL} {
		add(gone, []string{"DEL", "k"}, []string{"UNLINK", "k"}, []string{"EXISTS", "k"}, []string{"GET", "o"}, []string{"TYPE", "k"}, []string{"TTL", "k"}, []string{"PERSIST", "k"}, []string{"EXPIRE", "k", "100"},
			[]string{"PING"}, []string{"SET", "k", "new"}, []string{"APPEND", "k", "x"}, []string{"RPUSH", "k", "a"}, []string{"SETRANGE", "k", "0", ""}, []string{"SETRANGE", "k", "0", "x"}, []string{"LPUSHX", "k", "x"},
			[]string{"RENAME", "o", "k"}, []string{"GETDEL", "k"}, []string{"INCRBY", "k", "0"}, []string{"HDEL", "k", "f"}, []string{"SREM", "k", "m"}, []string{"LPOP", "k"})
	}
	return t
}

// a command that the server rejects when it is received (unknown, or wrong arity)
func (g *Gen) rejectedOp(c int) Op {
	if g.chance(0.3) {
		// the transaction commands themselves with a wrong number of arguments
		return mkOp(c, [][]string{{g.kw("multi"), "x"}, {g.kw("exec"), "x"}, {g.kw("discard"), "x", "y"}, {g.kw("watch")}, {g.kw("unwatch"), "x"}, {g.kw("multi"), ""}}[g.r.Intn(6)]...)
	}
	switch g.r.Intn(4) {
	case 0:
		return mkOp(c, "NOSUCHCMD", g.key())
	case 1:
		return mkOp(c, g.kw("get"))
	case 2:
		return mkOp(c, g.kw("lrange"), g.key(), "a", "b")
	default:
		return mkOp(c, g.kw("hset"), g.key(), "f")
	}
}

// a command that is accepted but fails when it runs
func (g *Gen) runtimeErrOp(c int) Op {
	switch g.r.Intn(3) {
	case 0:
		return mkOp(c, g.kw("incr"), "kstr")
	case 1:
		return mkOp(c, g.kw("lpush"), "kstr", "x")
	default:
		return mkOp(c, g.kw("lset"), g.key(), "99", "x")
	}
}

func (g *Gen) blockingOp(c int) Op {
	switch g.r.Intn(5) {
	case 0:
		return mkOp(c, g.kw("blpop"), g.key(), g.key(), "0.01")
	case 1:
		return mkOp(c, g.kw("brpop"), g.key(), "0.01")
	case 2:
		return mkOp(c, g.kw("blmove"), g.key(), g.key(), g.kw("LEFT"), g.kw("RIGHT"), "0.01")
	case 3:
		return mkOp(c, g.kw("brpoplpush"), g.key(), g.key(), "0.01")
	default:
		return mkOp(c, g.kw("blmpop"), "0.01", "2", g.key(), g.key(), g.kw("LEFT"))
	}
}

func init() {
	// C09: transaction programs on c1 with an observer c2
	streams["C09"] = func(cfg runCfg, res *Result) error {
		g := newGen(cfg.seed)
		n := 120
		if cfg.tier == "thorough" {
			n = 2500
		}
		return runHistories(cfg, res, n, func(i int) History {
			var ops []Op
			if i%5 == 4 {
				return History{Ops: g.watchLife(i / 5)}
			}
			if i%10 == 3 {
				// every queued command takes effect where the queued SELECTs before it have led: flushes included
				ops = append(ops, mkOp(1, "SET", "k0", "zero"), mkOp(1, "SELECT", "1"), mkOp(1, "SET", "k1", "one"), mkOp(1, "RPUSH", "l1", "a"), mkOp(1, "SELECT", g.pick("0", "0", "2")))
				ops = append(ops, mkOp(1, "MULTI"), mkOp(1, "SELECT", "1"), mkOp(1, g.pick("FLUSHALL", "FLUSHALL", "FLUSHDB")))
				ops = append(ops, mkOp(1, "DBSIZE"), mkOp(1, "SELECT", "0"), mkOp(1, "DBSIZE"), mkOp(1, "GET", "k0"), mkOp(1, g.pick("EXEC", "EXEC", "EXEC", "DISCARD")))
				for _, db := range []string{"0", "1", "2"} {
					ops = append(ops, mkOp(2, "SELECT", db), mkOp(2, "DBSIZE"), mkOp(2, "KEYS", "*"))
				}
				return History{Ops: ops}
			}
			ops = append(ops, g.seedOps(1)...)
			ops = append(ops, mkOp(1, "SET", "kstr", "abc"))
			if i%5 < 2 {
				// structured: however a transaction ends (run, aborted by a watch, discarded because of a
				// rejected command, DISCARD, a runtime error inside, EXEC/DISCARD without MULTI), the connection
				// is back to normal: nothing watched, nothing queued, no error flag — shown by a second
				// transaction whose formerly watched key is changed by the other connection first
				k := g.key()
				ops = append(ops, mkOp(1, g.kw("watch"), k, "kstr"))
				end := (i/5*2 + i%5) % 7
				if end == 1 {
					ops = append(ops, mkOp(2, "APPEND", "kstr", "x")) // the watch will abort the first EXEC
				}
				if end != 5 {
					ops = append(ops, mkOp(1, g.kw("multi")))
					for j := 0; j < g.r.Intn(3); j++ {
						ops = append(ops, g.dataOp(1))
					}
					if g.chance(0.4) {
						// WATCH inside MULTI is refused and watches nothing: a later change of that key by the
						// other connection must not abort this transaction
						wk := g.key()
						ops = append(ops, mkOp(1, g.kw("watch"), wk), mkOp(2, "APPEND", wk+"w", "x"), mkOp(2, "DEL", wk), mkOp(2, "RPUSH", wk, "n"))
					}
				}
				switch end {
				case 0, 1:
					ops = append(ops, mkOp(1, g.kw("exec")))
				case 2:
					ops = append(ops, g.rejectedOp(1), g.dataOp(1), mkOp(1, g.kw("exec")))
				case 3:
					ops = append(ops, mkOp(1, g.kw("discard")))
				case 4:
					ops = append(ops, g.runtimeErrOp(1), mkOp(1, g.kw("exec")))
				case 5:
					ops = append(ops, mkOp(1, g.pick("EXEC", "DISCARD")), mkOp(1, g.kw("unwatch")))
				case 6:
					ops = append(ops, g.rejectedOp(1), mkOp(1, g.kw("discard")))
				}
				// back to normal: a plain command runs at once; then the second transaction
				ops = append(ops, mkOp(1, "INCR", "kcount"), mkOp(2, "APPEND", "kstr", "y"), mkOp(2, "DEL", k))
				ops = append(ops, mkOp(1, g.kw("multi")), mkOp(1, "INCR", "kcount"), g.dataOp(1), mkOp(1, g.kw("exec")), mkOp(1, "GET", "kcount"))
				ops = append(ops, g.observeAll(2)...)
				return History{Ops: ops}
			}
			l := 6 + g.r.Intn(30)
			for j := 0; j < l; j++ {
				switch x := g.r.Intn(100); {
				case x < 10:
					ops = append(ops, mkOp(1, g.kw("multi")))
				case x < 20:
					ops = append(ops, mkOp(1, g.kw("exec")))
				case x < 24:
					ops = append(ops, mkOp(1, g.kw("discard")))
				case x < 29:
					ops = append(ops, mkOp(1, g.kw("watch"), g.key()))
				case x < 31:
					ops = append(ops, mkOp(1, g.kw("unwatch")))
				case x < 37:
					ops = append(ops, g.rejectedOp(1))
				case x < 43:
					ops = append(ops, g.runtimeErrOp(1))
				case x < 49:
					ops = append(ops, g.blockingOp(1))
				case x < 52:
					ops = append(ops, mkOp(1, g.kw("select"), g.pick("0", "1", "0")))
				case x < 70:
					// the other connection reads and writes the same keys in between
					if g.chance(0.5) {
						ops = append(ops, g.readOp(2))
					} else {
						ops = append(ops, g.writeOp(2))
					}
				default:
					ops = append(ops, g.dataOp(1))
				}
			}
			ops = append(ops, mkOp(1, "EXEC"), mkOp(1, "PING"), mkOp(1, "SELECT", "0"))
			ops = append(ops, g.observeAll(2)...)
			ops = append(ops, g.observeAll(1)...)
			return History{Ops: ops}
		})
	}

	// C10: WATCH scenarios: every kind of command between WATCH and EXEC, on either connection
	streams["C10"] = func(cfg runCfg, res *Result) error {
		g := newGen(cfg.seed)
		n := 400
		if cfg.tier == "thorough" {
			n = 6000
		}
		table := c10Table()
		if n < len(table)*5/3+10 {
			n = len(table)*5/3 + 10 // every entry of the table in every run
		}
		start := g.r.Intn(len(table))
		res.Extra["single_write_table"] = len(table)
		return runHistories(cfg, res, n, func(i int) History {
			var ops []Op
			g.newHistory()
			if i%5 == 4 && i%10 == 9 || i%5 == 3 && i%2 == 0 {
				// the watched key is changed and changed back: the setup (first command) runs before WATCH
				pairs := c10Pairs()
				sq := pairs[(start+i/5)%len(pairs)]
				ops = append(ops, mkOp(1, sq[0]...), mkOp(1, "WATCH", "k"))
				before := g.chance(0.5) // by the watcher itself before MULTI, or by the other connection after it
				if !before {
					ops = append(ops, mkOp(1, "MULTI"), mkOp(1, "SET", "kq", "queued"))
				}
				for _, a := range sq[1:] {
					who := 2
					if before && g.chance(0.5) {
						who = 1
					}
					ops = append(ops, mkOp(who, a...))
				}
				if before {
					ops = append(ops, mkOp(1, "MULTI"), mkOp(1, "SET", "kq", "queued"))
				}
				ops = append(ops, mkOp(1, "EXEC"), mkOp(1, "GET", "kq"), mkOp(2, "TYPE", "k"), mkOp(2, "TTL", "k"))
				return History{Ops: ops}
			}
			if i%10 == 4 {
				return History{Ops: g.watchLife(start + i/10)}
			}
			if i%5 < 3 {
				// systematic: one write of the table, alone between WATCH and EXEC, by either connection
				tc := table[(start+i/5*3+i%5)%len(table)]
				for _, a := range tc.setup {
					ops = append(ops, mkOp(1, a...))
				}
				ops = append(ops, mkOp(1, "WATCH", "k"))
				who := 1 + g.r.Intn(2)
				if tc.write[0] == "SELECT" {
					who = 1
				}
				ops = append(ops, mkOp(who, tc.write...))
				ops = append(ops, mkOp(1, "MULTI"), mkOp(1, "SET", "kq", "queued"), mkOp(1, "EXEC"), mkOp(1, "GET", "kq"))
				for _, k := range []string{"k", "o", "new"} {
					ops = append(ops, mkOp(2, "TYPE", k), mkOp(2, "PTTL", k))
				}
				ops = append(ops, mkOp(2, "GET", "k"), mkOp(2, "LRANGE", "k", "0", "-1"), mkOp(2, "HGETALL", "k"), mkOp(2, "SMEMBERS", "k"))
				return History{Ops: ops}
			}
			ops = append(ops, g.seedOps(1)...)
			nw := 1 + g.r.Intn(2)
			w := []string{g.kw("watch")}
			for j := 0; j < nw; j++ {
				w = append(w, g.key())
			}
			ops = append(ops, mkOp(1, w...))
			watched := w[1:]
			mod := func() Op {
				who := 1 + g.r.Intn(2)
				switch x := g.r.Intn(10); {
				case x < 4:
					return g.typedWrite(who, watched[g.r.Intn(len(watched))])
				case x < 6:
					return g.writeOp(who)
				case x < 8:
					return g.readOp(who)
				case x < 9:
					return g.runtimeErrOp(who)
				default:
					if who == 2 && g.chance(0.5) {
						return mkOp(2, g.kw(g.pick("flushdb", "flushall")))
					}
					return g.rejectedOp(who)
				}
			}
			for j := 0; j < g.r.Intn(3); j++ {
				ops = append(ops, mod())
			}
			if g.chance(0.12) {
				ops = append(ops, mkOp(2, "PEXPIRE", watched[0], "30"))
				o := mkOp(2, "PING")
				o.SleepMs = 80
				ops = append(ops, o)
			}
			ops = append(ops, mkOp(1, g.kw("multi")))
			for j := 0; j < g.r.Intn(2); j++ {
				o := mod()
				if o.Conn == 2 {
					ops = append(ops, o)
				}
			}
			ops = append(ops, mkOp(1, "SET", "kq", "queued"), mkOp(1, "INCR", "kcount"))
			for j := 0; j < g.r.Intn(2); j++ {
				o := mod()
				if o.Conn == 2 {
					ops = append(ops, o)
				}
			}
			ops = append(ops, mkOp(1, g.kw("exec")), mkOp(1, "GET", "kq"), mkOp(1, "GET", "kcount"))
			// a second transaction on the same connection: the first one must have reset the watches
			ops = append(ops, mkOp(1, "MULTI"), mkOp(1, "INCR", "kcount"), mkOp(2, "SET", g.key(), "late"), mkOp(1, "EXEC"))
			ops = append(ops, g.observeAll(2)...)
			return History{Ops: ops}
		})
	}

	// C14: several connections, SELECT / FLUSHDB / FLUSHALL / DBSIZE interleaved with data commands
	streams["C14"] = func(cfg runCfg, res *Result) error {
		g := newGen(cfg.seed)
		n := 150
		if cfg.tier == "thorough" {
			n = 3000
		}
		return runHistories(cfg, res, n, func(i int) History {
			var ops []Op
			nc := 3
			for c := 1; c <= nc; c++ {
				ops = append(ops, mkOp(c, "PING"))
			}
			l := 10 + g.r.Intn(30)
			for j := 0; j < l; j++ {
				c := 1 + g.r.Intn(nc)
				switch x := g.r.Intn(100); {
				case x < 15:
					ops = append(ops, mkOp(c, g.kw("select"), g.pick("0", "1", "2", "15", "16", "-1", "0", "1", "abc")))
				case x < 21:
					ops = append(ops, mkOp(c, g.kw("flushdb")))
				case x < 24:
					ops = append(ops, mkOp(c, g.kw("flushall")))
				case x < 32:
					ops = append(ops, mkOp(c, g.kw("dbsize")))
				case x < 36:
					ops = append(ops, mkOp(c, g.kw("client"), g.kw("setname"), g.pick("alice", "bob", "x y", "")))
				case x < 38:
					ops = append(ops, mkOp(c, g.kw("client"), g.kw("getname")))
				case x < 40:
					ops = append(ops, mkOp(c, g.kw("client"), g.kw(g.pick("info", "list"))))
				case x < 44:
					ops = append(ops, mkOp(c, g.kw("multi")))
				case x < 48:
					ops = append(ops, mkOp(c, g.kw("exec")))
				case x < 50:
					ops = append(ops, mkOp(c, g.kw("hello"), g.pick("2", "3", "4", "0", "-3")))
				case x < 53:
					ops = append(ops, mkOp(c, g.kw("watch"), g.key()))
				case x < 60:
					ops = append(ops, mkOp(c, "KEYS", "*"))
				default:
					ops = append(ops, g.dataOp(c))
				}
			}
			if g.chance(0.3) {
				// a key watched in database x; EXEC is issued after SELECT y; another connection writes the SAME NAME
				// in x (must abort) or in y (must not)
				c, d := 1, 2
				x, y := g.pick("0", "1", "2"), g.pick("0", "1", "2", "3")
				wk := g.key()
				ops = append(ops, mkOp(c, "DISCARD"), mkOp(c, "UNWATCH"), mkOp(c, "SELECT", x), mkOp(c, "WATCH", wk), mkOp(c, "SELECT", y))
				ops = append(ops, mkOp(d, "DISCARD"), mkOp(d, "SELECT", g.pick(x, y, y)))
				ops = append(ops, mkOp(d, [][]string{{"SET", wk, "w"}, {"DEL", wk}, {"APPEND", wk, "w"}, {"RPUSH", wk + "x", "e"}}[g.r.Intn(4)]...))
				ops = append(ops, mkOp(c, "MULTI"), mkOp(c, "SET", "txmark", "1"), mkOp(c, "EXEC"), mkOp(c, "GET", "txmark"), mkOp(c, "DEL", "txmark"))
			}
			if g.chance(0.35) {
				// one transaction that walks through several databases: every queued command runs in the
				// database selected by the queued SELECTs before it, and the connection ends in the last one
				c := 1 + g.r.Intn(nc)
				ops = append(ops, mkOp(c, "DISCARD"), mkOp(c, "SELECT", g.pick("0", "1", "2")), mkOp(c, "MULTI"))
				for j := 0; j < 2+g.r.Intn(3); j++ {
					ops = append(ops, mkOp(c, "SELECT", g.pick("0", "1", "2", "3", "15", "16")))
					for x := 0; x < 1+g.r.Intn(2); x++ {
						ops = append(ops, [](Op){mkOp(c, "SET", g.key(), fmt.Sprintf("tx%d", j)), mkOp(c, "DBSIZE"), mkOp(c, "RPUSH", g.key(), "e"), mkOp(c, "KEYS", "*"), mkOp(c, "DEL", g.key()),
							mkOp(c, "FLUSHALL"), mkOp(c, "FLUSHDB"), mkOp(c, "SET", g.key(), "after"), mkOp(c, "DBSIZE")}[g.r.Intn(9)])
					}
				}
				ops = append(ops, mkOp(c, g.pick("EXEC", "EXEC", "EXEC", "DISCARD")), mkOp(c, "DBSIZE"), mkOp(c, "KEYS", "*"))
				for _, db := range []string{"0", "1", "2"} {
					o := 1 + c%nc
					ops = append(ops, mkOp(o, "SELECT", db), mkOp(o, "DBSIZE"))
				}
				ops = append(ops, mkOp(c, "SELECT", "3"))
				ops = append(ops, g.observeAll(c)...)
				ops = append(ops, mkOp(c, "SELECT", "15"))
				ops = append(ops, g.observeAll(c)...)
			}
			for c := 1; c <= nc+1; c++ { // nc+1: a connection opened after everything
				ops = append(ops, mkOp(c, "DISCARD"))
				for _, db := range []string{"0", "1", "2"} {
					ops = append(ops, mkOp(c, "SELECT", db))
					ops = append(ops, g.observeAll(c)...)
				}
			}
			return History{Ops: ops}
		})
	}

	// C15: the same commands on a RESP3 connection (1) and a RESP2 connection (2)
	specialReplay["C15"] = true
	streams["C15"] = func(cfg runCfg, res *Result) error {
		if cfg.replay != "" {
			if raw, err := os.ReadFile(cfg.replay); err == nil && strings.Contains(string(raw), "\"kind\": \"twin\"") {
				return runC15Twin(cfg, res)
			}
			return replayFile(cfg, res)
		}
		if err := runC15Twin(cfg, res); err != nil {
			return err
		}
		g := newGen(cfg.seed)
		n := 150
		if cfg.tier == "thorough" {
			n = 3000
		}
		return runHistories(cfg, res, n, func(i int) History {
			var ops []Op
			ops = append(ops, mkOp(1, g.kw("hello"), "3"), mkOp(2, "PING"))
			ops = append(ops, g.seedOps(2)...)
			l := 8 + g.r.Intn(25)
			for j := 0; j < l; j++ {
				switch x := g.r.Intn(100); {
				case x < 8:
					c := 1 + g.r.Intn(3)
					ops = append(ops, mkOp(c, g.kw("hello"), g.pick("2", "3", "3", "4", "1", "0", "-1", "abc")))
				case x < 12:
					ops = append(ops, mkOp(1+g.r.Intn(3), g.kw("hello")))
				case x < 50:
					o := g.readOp(1)
					o2 := o
					o2.Conn = 2
					o3 := o
					o3.Conn = 3
					ops = append(ops, o, o2, o3)
				case x < 60:
					for c := 1; c <= 3; c++ {
						ops = append(ops, mkOp(c, catalog[g.pick("hgetall", "hrandfield", "srandmember", "scan", "hscan", "sscan", "setop", "keys", "scard")](g)...))
					}
				case x < 64:
					for c := 1; c <= 3; c++ {
						ops = append(ops, mkOp(c, g.kw("client"), g.kw(g.pick("info", "list", "id", "getname"))))
					}
				case x < 68:
					for c := 1; c <= 3; c++ {
						ops = append(ops, mkOp(c, g.kw("multi")), mkOp(c, "HGETALL", g.key()), mkOp(c, "SMEMBERS", g.key()), mkOp(c, "GET", g.key()), mkOp(c, g.kw("exec")))
					}
				case x < 74:
					// replies with deep or unusual RESP3 structure (maps inside arrays inside arrays, doubles, verbatim text)
					a := [][]string{{"COMMAND", "INFO", "get"}, {"COMMAND", "INFO", "lmpop", "sintercard", "set"}, {"COMMAND", "DOCS", "set"}, {"COMMAND", "DOCS", "hset", "lcs"},
						{"COMMAND", "COUNT"}, {"COMMAND", "LIST"}, {"COMMAND", "INFO", "hgetall", "nosuchcommand"}, {"COMMAND", "DOCS"}, {"COMMAND", "INFO"},
						{"INFO"}, {"INFO", "server"}, {"CLIENT", "INFO"}, {"LCS", g.key(), g.key(), "IDX", "WITHMATCHLEN"}, {"HRANDFIELD", g.key(), "3", "WITHVALUES"}, {"HRANDFIELD", g.key(), "-3", "WITHVALUES"},
						{"HINCRBYFLOAT", "hfl", "f", "0.5"}, {"SORT", g.key(), "ALPHA", "GET", "#", "GET", "nokey_*"}, {"BITFIELD", g.key(), "GET", "u8", "0", "OVERFLOW", "FAIL", "INCRBY", "u2", "0", "3"},
						{"COMMAND", "HELP"}, {"MULTI"}}[g.r.Intn(20)]
					for c := 1; c <= 3; c++ {
						ops = append(ops, mkOp(c, a...))
						if a[0] == "MULTI" {
							ops = append(ops, mkOp(c, "COMMAND", "INFO", "get"), mkOp(c, "HINCRBYFLOAT", "hfl", "f", "0.25"), mkOp(c, "LCS", g.key(), g.key(), "IDX"), mkOp(c, "EXEC"))
						}
					}
				default:
					ops = append(ops, g.dataOp(1+g.r.Intn(3)))
				}
			}
			for c := 1; c <= 3; c++ {
				ops = append(ops, g.observeAll(c)...)
			}
			return History{Ops: ops}
		})
	}

	// C07: every command applied to keys in each lifetime phase: no deadline, deadline far away,
	// deadline passed but the object still stored (short deadline followed by a sleep)
	streams["C07"] = func(cfg runCfg, res *Result) error {
		g := newGen(cfg.seed)
		n := 150
		if cfg.tier == "thorough" {
			n = 1500
		}
		// every command of the catalogue is the first command after the deadlines have passed in at least two
		// histories of every run (the random part below does not reach each command in each phase)
		var names []string
		for name := range catalog {
			names = append(names, name)
		}
		sort.Strings(names)
		return runHistories(cfg, res, n, func(i int) History {
			var ops []Op
			ops = append(ops, g.seedOps(1)...)
			sweep := names[i%len(names)]
			// give some keys a short deadline in various ways, then let it pass
			short := 0
			for _, k := range g.keys {
				switch g.r.Intn(6) {
				case 0:
					ops = append(ops, mkOp(1, "SET", k, g.val(), "PX", "30"))
					short++
				case 1:
					ops = append(ops, mkOp(1, "PEXPIRE", k, "30"))
					short++
				case 2:
					ops = append(ops, mkOp(1, "RPUSH", k+"x", "a", "b"), mkOp(1, "PEXPIRE", k+"x", "30"), mkOp(1, "RENAME", k+"x", k))
					short++
				case 3:
					ops = append(ops, mkOp(1, "EXPIRE", k, g.farTTL(1000)))
				}
			}
			first := true
			l := 6 + g.r.Intn(16)
			for j := 0; j < l; j++ {
				o := g.dataOp(1)
				if g.chance(0.25) {
					o = mkOp(1, catalog[g.pick("ttl", "persist", "expire", "pexpire", "getex", "set", "append", "rename", "copy", "keys", "randomkey", "scan", "del", "type")](g)...)
				}
				if g.chance(0.25) {
					// the iteration commands and the filters of SCAN see the same keyspace as everybody else
					k := g.key()
					o = [](Op){mkOp(1, "SCAN", "0", "COUNT", "1000", g.kw("TYPE"), g.kw(g.pick("string", "list", "hash", "set"))), mkOp(1, "SCAN", "0", "MATCH", "k*", "COUNT", "1000"),
						mkOp(1, "SCAN", "0", "COUNT", "1000", "MATCH", "*", "TYPE", g.kw(g.pick("string", "list", "hash", "set", "zset", "none"))), mkOp(1, "HSCAN", k, "0", "COUNT", "1000"), mkOp(1, "SSCAN", k, "0", "COUNT", "1000"),
						mkOp(1, "HSCAN", k, "0", "MATCH", "*"), mkOp(1, "SSCAN", k, "0"), mkOp(1, "HRANDFIELD", k, "5"), mkOp(1, "SRANDMEMBER", k, "5"), mkOp(1, "HGETALL", k), mkOp(1, "SMEMBERS", k),
						mkOp(1, "SCAN", "0", "MATCH", g.pick("k[a-c]", "k[a-d]", "k[b-d]*", "[j-k]?", "k[^a-b]"), "COUNT", "1000"), mkOp(1, "HSCAN", k, "0", "MATCH", g.pick("f[1-3]", "f[1-4]", "f[2-4]", "[e-f]*"), "COUNT", "1000"),
						mkOp(1, "SSCAN", k, "0", "MATCH", g.pick("[a-c]", "[a-d]", "[b-d]", "[^a-c]"), "COUNT", "1000"), mkOp(1, "KEYS", g.pick("k[a-c]", "k[a-d]", "k[b-d]")),
						mkOp(1, "SETBIT", k, g.pick("3", "100", "1000"), "1"), mkOp(1, "BITFIELD", k, "SET", "u8", g.pick("0", "64", "800"), "7"), mkOp(1, "BITFIELD", k, "INCRBY", "u8", g.pick("8", "400"), "1"),
						mkOp(1, "SETRANGE", k, g.pick("0", "50"), "zz"), mkOp(1, "APPEND", k, "tail"), mkOp(1, "LSET", k, "0", "z"), mkOp(1, "HSET", k, "f1", "w"), mkOp(1, "SADD", k, "zz"), mkOp(1, "INCRBY", k, "3"), mkOp(1, "SET", k, "kept", g.kw("KEEPTTL")), mkOp(1, "SET", k, "kept", "XX", "KEEPTTL"), mkOp(1, "GETEX", k), mkOp(1, "GETSET", k, "gs"),
						mkOp(1, "SINTERCARD", "1", k), mkOp(1, "HSTRLEN", k, "f1"), mkOp(1, "LPOS", k, "a"), mkOp(1, "SMISMEMBER", k, "a", "b"), mkOp(1, "HMGET", k, "f1", "f2")}[g.r.Intn(33)]
				}
				if g.chance(0.12) {
					// SORT reads its source, its weights and its GET targets through the same expiry
					// filter, and a stored result has no deadline; LCS reads two strings
					a, b := g.key(), g.key()
					switch g.r.Intn(4) {
					case 0:
						o = mkOp(1, "SORT", a, "ALPHA", "STORE", b)
					case 1:
						o = mkOp(1, "SORT", a, "BY", "*", "ALPHA", "GET", "*", "GET", "#")
					case 2:
						o = mkOp(1, "SORT", a, "ALPHA", "LIMIT", "0", "2")
					default:
						o = mkOp(1, "LCS", a, b, g.pick("LEN", "IDX"))
					}
				}
				if first {
					o = mkOp(1, catalog[sweep](g)...)
				}
				if first && short > 0 {
					o.SleepMs = 80
				}
				first = false
				ops = append(ops, o)
			}
			ops = append(ops, g.observeAll(1)...)
			for _, k := range g.keys {
				ops = append(ops, mkOp(1, "TTL", k), mkOp(1, "EXPIRETIME", k), mkOp(1, "PEXPIRETIME", k))
			}
			return History{Ops: ops}
		})
	}
	_ = fmt.Sprint
}
