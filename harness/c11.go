package main

// C11 / C12: blocking list commands on the real emulator, with the schedule points of the
// block/wake loop (verifPoint) used to hold a client at a chosen step while other clients act.
// Checked on the emulator: element conservation (every pushed value is delivered exactly once
// or still in a list), nobody stays blocked on a non-empty list once everything is released,
// FIFO wake-up order, how a block ends (timeout, CLIENT UNBLOCK, kill, close) and re-use.

import (
	"encoding/json"
	"fmt"
	"math/rand"
	"net"
	"os"
	"path/filepath"
	"sort"
	"strconv"
	"strings"
	"time"
)

type bclient struct {
	conn    *Conn
	id      string
	pending bool     // a blocking command was sent and not yet answered
	move    bool     // the pending command moves the element to another list (its reply is not a delivery)
	keys    []string // keys of the pending command
	reply   chan *Node
	errs    chan error
	sentAt  time.Time
}

type bworld struct {
	srv     *Server
	clients []*bclient
	ctl     *Conn
	pushed  []string
	got     []string // delivered to anyone (blocking or not)
	log     []string
}

func newBWorld(n int) (*bworld, error) {
	srv, err := startServer("")
	if err != nil {
		return nil, err
	}
	w := &bworld{srv: srv}
	if w.ctl, err = dial(srv.Port); err != nil {
		return nil, err
	}
	for i := 0; i < n; i++ {
		c, err := dial(srv.Port)
		if err != nil {
			return nil, err
		}
		idn, err := c.Do(2*time.Second, bs("CLIENT", "ID")...)
		if err != nil {
			return nil, err
		}
		w.clients = append(w.clients, &bclient{conn: c, id: strconv.FormatInt(idn.Int, 10)})
	}
	return w, nil
}

func (w *bworld) close() {
	w.srv.Ctl("RELEASE all", 2*time.Second)
	for _, c := range w.clients {
		c.conn.Close()
	}
	w.ctl.Close()
	w.srv.Kill()
}

func (w *bworld) logf(f string, a ...any) { w.log = append(w.log, fmt.Sprintf(f, a...)) }

// send a blocking command without waiting for the answer
func (w *bworld) block(i int, keys []string, args ...string) error {
	c := w.clients[i]
	c.pending = true
	c.move = strings.HasPrefix(strings.ToUpper(args[0]), "BLMOVE") || strings.HasPrefix(strings.ToUpper(args[0]), "BRPOPLPUSH")
	c.keys = keys
	c.reply = make(chan *Node, 1)
	c.errs = make(chan error, 1)
	c.sentAt = time.Now()
	w.logf("c%d: %s", i, strings.Join(args, " "))
	if err := c.conn.Send(bs(args...)); err != nil {
		return err
	}
	go func() {
		n, err := c.conn.Read(30 * time.Second)
		if err != nil {
			c.errs <- err
		} else {
			c.reply <- n
		}
	}()
	return nil
}

// wait up to d for the pending command of client i; nil = still blocked
func (w *bworld) poll(i int, d time.Duration) (*Node, error) {
	c := w.clients[i]
	if !c.pending {
		return nil, nil
	}
	select {
	case n := <-c.reply:
		c.pending = false
		w.logf("c%d <- %s", i, n.String())
		if !c.move {
			w.collect(n)
		}
		return n, nil
	case err := <-c.errs:
		c.pending = false
		return nil, err
	case <-time.After(d):
		return nil, nil
	}
}

// record elements delivered by a reply (values look like "e<number>")
func (w *bworld) collect(n *Node) {
	if n == nil || n.Nil {
		return
	}
	if n.Kind == '$' && strings.HasPrefix(string(n.Str), "e") {
		w.got = append(w.got, string(n.Str))
	}
	for _, e := range n.Elems {
		w.collect(e)
	}
}

func (w *bworld) do(args ...string) (*Node, error) {
	w.logf("ctl: %s", strings.Join(args, " "))
	n, err := w.ctl.Do(3*time.Second, bs(args...)...)
	if err == nil {
		w.logf("ctl <- %s", n.String())
	}
	return n, err
}

func (w *bworld) push(key string, n int) error {
	args := []string{"RPUSH", key}
	for j := 0; j < n; j++ {
		v := fmt.Sprintf("e%d", len(w.pushed)+1)
		w.pushed = append(w.pushed, v)
		args = append(args, v)
	}
	_, err := w.do(args...)
	return err
}

// wait until the wait table shows n queued clients on key (or timeout)
func (w *bworld) waitQueued(key string, n int) bool {
	for t := 0; t < 200; t++ {
		line, err := w.srv.Ctl("DUMP 0 0", 2*time.Second)
		if err == nil {
			var d struct{ Waiters map[string]int }
			if json.Unmarshal([]byte(line), &d) == nil && d.Waiters[key] >= n {
				return true
			}
		}
		time.Sleep(5 * time.Millisecond)
	}
	return false
}

func (w *bworld) waitParked(point, id string) bool {
	for t := 0; t < 300; t++ {
		r, err := w.srv.Ctl("PARKED "+point+" "+id, 2*time.Second)
		if err == nil && r == "true" {
			return true
		}
		time.Sleep(5 * time.Millisecond)
	}
	return false
}

// after everything has been released and given time: the properties
func (w *bworld) verdict(keys []string) string {
	w.srv.Ctl("RELEASE all", 2*time.Second)
	time.Sleep(150 * time.Millisecond)
	for i := range w.clients {
		w.poll(i, 250*time.Millisecond)
	}
	if !w.srv.Alive() {
		return "emulator process died: " + tail(w.srv.Stderr(), 500)
	}
	// what is left in the lists
	var left []string
	lens := map[string]int{}
	for _, k := range keys {
		n, err := w.do("LRANGE", k, "0", "-1")
		if err != nil {
			return "control connection not served: " + err.Error()
		}
		if n.Kind == '*' {
			lens[k] = len(n.Elems)
			for _, e := range n.Elems {
				left = append(left, string(e.Str))
			}
		}
	}
	all := append(append([]string{}, w.got...), left...)
	sort.Strings(all)
	want := append([]string{}, w.pushed...)
	sort.Strings(want)
	if strings.Join(all, " ") != strings.Join(want, " ") {
		return fmt.Sprintf("elements are not conserved: pushed %v; delivered %v + still in lists %v", w.pushed, w.got, left)
	}
	for i, c := range w.clients {
		if c.pending {
			for _, k := range c.keys {
				if lens[k] > 0 {
					return fmt.Sprintf("client c%d is still blocked on %q although that list holds %d element(s) and nobody is consuming it", i, k, lens[k])
				}
			}
		}
	}
	return ""
}

type bscenario struct {
	Name string   `json:"name"`
	Seed int64    `json:"seed"`
	Log  []string `json:"log"`
}

// ---- fixed schedules ----

// W1: the woken client's element is taken by someone else before it retries; a later push must still reach it
func scenStolen(g *rand.Rand) (string, []string, error) {
	return scenStolenV(g.Intn(5), g)
}

// one scenario per blocking command (single-key and multi-key registration differ)
func stolenVariant(v int) func(g *rand.Rand) (string, []string, error) {
	return func(g *rand.Rand) (string, []string, error) { return scenStolenV(v, g) }
}

func scenStolenV(variant int, g *rand.Rand) (string, []string, error) {
	w, err := newBWorld(2)
	if err != nil {
		return "", nil, err
	}
	defer w.close()
	cmd := [][]string{{"BLPOP", "k", "0"}, {"BRPOP", "k", "0"}, {"BLMOVE", "k", "dst", "LEFT", "RIGHT", "0"}, {"BRPOPLPUSH", "k", "dst", "0"}, {"BLMPOP", "0", "1", "k", "LEFT"}}[variant]
	w.block(0, []string{"k"}, cmd...)
	if !w.waitQueued("k", 1) {
		return "the blocking client never registered in the wait table", w.log, nil
	}
	w.srv.Ctl("PARK block.afterwake "+w.clients[0].id, time.Second)
	w.push("k", 1)
	if !w.waitParked("block.afterwake", w.clients[0].id) {
		return "the blocked client was not woken by the push", w.log, nil
	}
	n, _ := w.do("LPOP", "k") // someone else takes the element first
	w.collect(n)
	w.srv.Ctl("RELEASE block.afterwake "+w.clients[0].id, time.Second)
	time.Sleep(30 * time.Millisecond)
	w.push("k", 1)
	if r, _ := w.poll(0, time.Second); r == nil {
		return "after a stolen wake-up the client is never woken again: a second push stayed in the list while it remained blocked", w.log, nil
	}
	// BLMOVE family moves into dst: count what arrived there
	return w.verdict([]string{"k", "dst"}), w.log, nil
}

// elements are opaque: the empty string, "0", a NUL byte, text that looks like a reply are delivered like any
// other element - to a client that is already blocked and to one that finds them in the list
func oddElementVariant(v int) func(g *rand.Rand) (string, []string, error) {
	return func(g *rand.Rand) (string, []string, error) {
		w, err := newBWorld(1)
		if err != nil {
			return "", nil, err
		}
		defer w.close()
		forms := [][]string{{"BLPOP", "k", "0"}, {"BRPOP", "k2", "k", "0"}, {"BLMOVE", "k", "dst", "LEFT", "RIGHT", "0"}, {"BRPOPLPUSH", "k", "dst", "0"}, {"BLMPOP", "0", "2", "k2", "k", "LEFT"}}
		form := forms[v%len(forms)]
		for _, el := range []string{"", "0", "\x00", "$-1\r\n", " "} {
			for _, blockedFirst := range []bool{true, false} {
				if blockedFirst {
					w.block(0, []string{"k"}, form...)
					if !w.waitQueued("k", 1) {
						return "the blocking client never registered in the wait table", w.log, nil
					}
					w.do("RPUSH", "k", el)
				} else {
					w.do("RPUSH", "k", el)
					w.block(0, []string{"k"}, form...)
				}
				r, _ := w.poll(0, time.Second)
				if r == nil {
					return fmt.Sprintf("%v is still blocked although %q was pushed to k (blocked before the push: %v)", form, el, blockedFirst), w.log, nil
				}
				got := ""
				switch {
				case r.Kind == '$' && !r.Nil:
					got = string(r.Str)
				case r.Kind == '*' && len(r.Elems) == 2 && r.Elems[1].Kind == '$':
					got = string(r.Elems[1].Str)
				case r.Kind == '*' && len(r.Elems) == 2 && r.Elems[1].Kind == '*' && len(r.Elems[1].Elems) == 1:
					got = string(r.Elems[1].Elems[0].Str)
				default:
					return fmt.Sprintf("%v answered %s after %q was pushed", form, r.String(), el), w.log, nil
				}
				if got != el {
					return fmt.Sprintf("%v delivered %q, pushed %q", form, got, el), w.log, nil
				}
				if n, _ := w.do("LLEN", "k"); n == nil || n.Int != 0 {
					return fmt.Sprintf("after %v took %q the list k still has elements", form, el), w.log, nil
				}
				if d, _ := w.do("LRANGE", "dst", "0", "-1"); d != nil && len(d.Elems) > 0 && string(d.Elems[len(d.Elems)-1].Str) != el {
					return fmt.Sprintf("%v moved %q but dst ends with %s", form, el, d.String()), w.log, nil
				}
				w.do("DEL", "dst")
			}
		}
		return "", w.log, nil
	}
}

// W2: a push coincides with the timeout of the first waiter; the second waiter must get the element
func scenTimeoutTie(g *rand.Rand) (string, []string, error) {
	w, err := newBWorld(2)
	if err != nil {
		return "", nil, err
	}
	defer w.close()
	w.srv.Ctl("PARK block.beforewait "+w.clients[0].id, time.Second)
	w.block(0, []string{"k"}, "BLPOP", "k", "0.05")
	if !w.waitParked("block.beforewait", w.clients[0].id) {
		return "client did not reach the wait", w.log, nil
	}
	w.block(1, []string{"k"}, "BLPOP", "k", "0")
	if !w.waitQueued("k", 2) {
		return "second client never registered", w.log, nil
	}
	w.push("k", 1)                    // token goes to c0, which is held just before its select
	time.Sleep(70 * time.Millisecond) // its timer has fired meanwhile
	w.srv.Ctl("RELEASE block.beforewait "+w.clients[0].id, time.Second)
	w.poll(0, 500*time.Millisecond)
	w.poll(1, 500*time.Millisecond)
	return w.verdict([]string{"k"}), w.log, nil
}

// W3: multi-key waiter woken through k2 but served from k1; the waiter on k2 must still be served
func scenMultiKey(g *rand.Rand) (string, []string, error) {
	w, err := newBWorld(2)
	if err != nil {
		return "", nil, err
	}
	defer w.close()
	w.block(0, []string{"k1", "k2"}, "BLPOP", "k1", "k2", "0")
	if !w.waitQueued("k2", 1) {
		return "first client never registered", w.log, nil
	}
	w.block(1, []string{"k2"}, "BLPOP", "k2", "0")
	if !w.waitQueued("k2", 2) {
		return "second client never registered", w.log, nil
	}
	w.srv.Ctl("PARK block.afterwake "+w.clients[0].id, time.Second)
	w.push("k2", 1)
	if !w.waitParked("block.afterwake", w.clients[0].id) {
		return "first client not woken", w.log, nil
	}
	w.push("k1", 1)
	w.srv.Ctl("RELEASE block.afterwake "+w.clients[0].id, time.Second)
	w.poll(0, time.Second)
	w.poll(1, time.Second)
	return w.verdict([]string{"k1", "k2"}), w.log, nil
}

// FIFO: the longest-blocked client is served first
func scenFifo(g *rand.Rand) (string, []string, error) {
	n := 2 + g.Intn(3)
	w, err := newBWorld(n)
	if err != nil {
		return "", nil, err
	}
	defer w.close()
	for i := 0; i < n; i++ {
		w.block(i, []string{"k"}, "BLPOP", "k", "0")
		if !w.waitQueued("k", i+1) {
			return "client never registered", w.log, nil
		}
	}
	for i := 0; i < n; i++ {
		w.push("k", 1)
		r, _ := w.poll(i, time.Second)
		if r == nil {
			return fmt.Sprintf("push %d did not complete the longest-blocked client c%d", i+1, i), w.log, nil
		}
		for j := i + 1; j < n; j++ {
			if r2, _ := w.poll(j, 20*time.Millisecond); r2 != nil {
				return fmt.Sprintf("push %d completed c%d although c%d had been blocked longer", i+1, j, i), w.log, nil
			}
		}
	}
	return w.verdict([]string{"k"}), w.log, nil
}

// a list created under a waited key by RENAME / LMOVE / a multi-element push serves the waiters
func scenOtherProducers(g *rand.Rand) (string, []string, error) {
	return scenOtherProducersV(g.Intn(8), g)
}

// one scenario per producer variant, so that every tier runs each of them at least once
func otherProducerVariant(v int) func(g *rand.Rand) (string, []string, error) {
	return func(g *rand.Rand) (string, []string, error) { return scenOtherProducersV(v, g) }
}

func scenOtherProducersV(variant int, g *rand.Rand) (string, []string, error) {
	w, err := newBWorld(2)
	if err != nil {
		return "", nil, err
	}
	defer w.close()
	w.block(0, []string{"k"}, "BLPOP", "k", "0")
	w.block(1, []string{"k"}, "BRPOP", "k", "0")
	if !w.waitQueued("k", 2) {
		return "clients never registered", w.log, nil
	}
	switch variant {
	case 4:
		// the push is queued in a transaction: EXEC runs it under the exclusive lock
		v1, v2 := fmt.Sprintf("e%d", len(w.pushed)+1), fmt.Sprintf("e%d", len(w.pushed)+2)
		w.pushed = append(w.pushed, v1, v2)
		w.do("MULTI")
		w.do("RPUSH", "k", v1)
		w.do("LPUSH", "k", v2)
		w.do("EXEC")
	case 5:
		w.push("src", 2)
		w.do("MULTI")
		w.do("LMOVE", "src", "k", "LEFT", "RIGHT")
		w.do("RPOPLPUSH", "src", "k")
		w.do("EXEC")
	case 6:
		// a transaction that switches into the waiters' database first
		v1, v2 := fmt.Sprintf("e%d", len(w.pushed)+1), fmt.Sprintf("e%d", len(w.pushed)+2)
		w.pushed = append(w.pushed, v1, v2)
		w.do("SELECT", "3")
		w.do("MULTI")
		w.do("SELECT", "0")
		w.do("RPUSH", "k", v1, v2)
		w.do("EXEC")
	case 7:
		// the waiters registered while the name was free; then a string (or hash) took the name; a list renamed
		// onto it is a producer like any other
		if g.Intn(2) == 0 {
			w.do("SET", "k", "v")
		} else {
			w.do("HSET", "k", "f", "v")
		}
		w.push("src", 2)
		w.do("RENAME", "src", "k")
	case 0:
		w.push("src", 2)
		w.do("RENAME", "src", "k")
	case 1:
		w.push("src", 1)
		w.do("LMOVE", "src", "k", "LEFT", "RIGHT")
		w.push("src", 1)
		w.do("RPOPLPUSH", "src", "k")
	case 2:
		w.push("k", 2)
	default:
		w.push("src", 2)
		w.do("COPY", "src", "k")
		// the copy duplicates the elements: account for them
		w.pushed = append(w.pushed, w.pushed...)
	}
	w.poll(0, time.Second)
	w.poll(1, time.Second)
	return w.verdict([]string{"k", "src"}), w.log, nil
}

// random schedule: blockers, pushers, non-blocking consumers and parking at random points
func scenRandom(g *rand.Rand) (string, []string, error) {
	n := 2 + g.Intn(3)
	w, err := newBWorld(n)
	if err != nil {
		return "", nil, err
	}
	defer w.close()
	keys := []string{"k1", "k2", "dst"}
	points := []string{"block.beforeregister", "block.afterregister", "block.beforecapture", "block.beforewait", "block.afterwake", "block.afterfailedretry"}
	steps := 8 + g.Intn(20)
	for s := 0; s < steps; s++ {
		i := g.Intn(n)
		c := w.clients[i]
		switch x := g.Intn(100); {
		case x < 30 && !c.pending:
			ks := []string{[]string{"k1", "k2"}[g.Intn(2)]}
			if g.Intn(3) == 0 {
				ks = []string{"k1", "k2"}
			}
			to := []string{"0", "0", "0.3"}[g.Intn(3)]
			if g.Intn(2) == 0 {
				w.srv.Ctl("PARK "+points[g.Intn(len(points))]+" "+c.id, time.Second)
			}
			switch g.Intn(5) {
			case 0, 1:
				w.block(i, ks, append(append([]string{[]string{"BLPOP", "BRPOP"}[g.Intn(2)]}, ks...), to)...)
			case 2:
				w.block(i, ks[:1], "BLMOVE", ks[0], "dst", "LEFT", "RIGHT", to)
			case 3:
				w.block(i, ks[:1], "BRPOPLPUSH", ks[0], "dst", to)
			default:
				w.block(i, ks, append(append([]string{"BLMPOP", to, strconv.Itoa(len(ks))}, ks...), "LEFT")...)
			}
			time.Sleep(time.Duration(g.Intn(8)) * time.Millisecond)
		case x < 60:
			w.push([]string{"k1", "k2"}[g.Intn(2)], 1+g.Intn(2))
		case x < 72:
			r, _ := w.do([]string{"LPOP", "RPOP"}[g.Intn(2)], []string{"k1", "k2"}[g.Intn(2)])
			w.collect(r)
		case x < 78:
			w.do("LMOVE", []string{"k1", "k2"}[g.Intn(2)], []string{"k1", "k2"}[g.Intn(2)], "LEFT", "RIGHT")
		case x < 90:
			w.srv.Ctl("RELEASE all", time.Second)
			time.Sleep(time.Duration(g.Intn(10)) * time.Millisecond)
		default:
			w.poll(i, time.Duration(g.Intn(20))*time.Millisecond)
		}
	}
	return w.verdict(keys), w.log, nil
}

// ---- C12 scenarios ----

func scenTimeouts(g *rand.Rand) (string, []string, error) {
	w, err := newBWorld(1)
	if err != nil {
		return "", nil, err
	}
	defer w.close()
	// every blocking command x timeouts incl. a positive one below a nanosecond (must not mean "for ever")
	forms := [][]string{{"BLPOP", "k"}, {"BRPOP", "k", "k2"}, {"BLMOVE", "k", "kdst", "LEFT", "RIGHT"}, {"BRPOPLPUSH", "k", "kdst"}, {"BLMPOP"}}
	timeouts := []string{"0.05", "0.2", "0.0000000001", "1e-3", "1e-10", "0.00000000099"}
	g.Shuffle(len(timeouts), func(i, j int) { timeouts[i], timeouts[j] = timeouts[j], timeouts[i] })
	for fi, form := range forms {
		for ti, t := range timeouts {
			if ti > 1 && !(t == "0.0000000001" || t == "1e-10" || t == "0.00000000099") && fi > 0 {
				continue
			}
			want, _ := strconv.ParseFloat(t, 64)
			cmd := append(append([]string{}, form...), t)
			if form[0] == "BLMPOP" {
				cmd = []string{"BLMPOP", t, "2", "k", "k2", "LEFT"}
			}
			t0 := time.Now()
			w.block(0, []string{"k"}, cmd...)
			r, err := w.poll(0, 3*time.Second)
			el := time.Since(t0)
			if err != nil || r == nil {
				return fmt.Sprintf("%v did not end by itself within 3 s (a positive timeout must not mean forever)", cmd), w.log, nil
			}
			if !r.Nil && !(r.Kind == '*' && len(r.Elems) == 0) {
				return fmt.Sprintf("%v: timeout reply is not null: %s", cmd, r.String()), w.log, nil
			}
			if el.Seconds() < want-0.002 {
				return fmt.Sprintf("%v ended after %v: earlier than the timeout", cmd, el), w.log, nil
			}
			if el.Seconds() > want+0.35 {
				return fmt.Sprintf("%v ended after %v: not promptly after the timeout", cmd, el), w.log, nil
			}
			// the connection is usable again
			w.clients[0].conn.Send(bs("PING"))
			if p, err := w.clients[0].conn.Read(time.Second); err != nil || string(p.Str) != "PONG" {
				return "connection unusable after a timed-out block", w.log, nil
			}
		}
	}
	// a wake-up that delivers nothing (the element is gone again before the retry) does not cancel
	// the timeout: the block still ends t after it was issued
	for _, cmd := range [][]string{{"BLPOP", "k", "0.5"}, {"BLMOVE", "k", "kdst", "LEFT", "RIGHT", "0.5"}, {"BRPOP", "other", "k", "0.5"}} {
		t0 := time.Now()
		w.block(0, []string{"k"}, cmd...)
		time.Sleep(150 * time.Millisecond)
		for _, a := range [][]string{{"MULTI"}, {"RPUSH", "k", "gone"}, {"LPOP", "k"}, {"EXEC"}} {
			if _, err := w.do(a...); err != nil {
				return "transaction got no reply", w.log, nil
			}
		}
		r, err := w.poll(0, 2500*time.Millisecond)
		el := time.Since(t0)
		if err != nil || r == nil {
			return fmt.Sprintf("%v woken by a push whose element was taken away again is still blocked %v after it was issued (timeout 0.5 s)", cmd, el.Round(time.Millisecond)), w.log, nil
		}
		if !r.Nil && !(r.Kind == '*' && len(r.Elems) == 0) {
			return fmt.Sprintf("%v: timeout reply is not null: %s", cmd, r.String()), w.log, nil
		}
		if el < 498*time.Millisecond || el > 900*time.Millisecond {
			return fmt.Sprintf("%v (timeout 0.5 s) with a fruitless wake-up at 0.15 s ended after %v", cmd, el.Round(time.Millisecond)), w.log, nil
		}
	}
	// timeout 0 waits indefinitely (observed for 400 ms), then a push completes it
	w.block(0, []string{"k"}, "BRPOP", "k", "0")
	if r, _ := w.poll(0, 400*time.Millisecond); r != nil {
		return "timeout 0 did not wait: " + r.String(), w.log, nil
	}
	w.push("k", 1)
	if r, _ := w.poll(0, time.Second); r == nil {
		return "a push did not complete a client blocked with timeout 0", w.log, nil
	}
	return w.verdict([]string{"k"}), w.log, nil
}

func scenUnblock(g *rand.Rand) (string, []string, error) {
	mode := []string{"", "TIMEOUT", "ERROR"}[g.Intn(3)]
	park := []string{"", "block.beforeregister", "block.beforecapture", "block.beforewait"}[g.Intn(4)]
	return scenUnblockV(mode, park, g)
}

// every spelling of the unblock type against a client that is blocked when the request arrives
func unblockVariant(mode string) func(g *rand.Rand) (string, []string, error) {
	return func(g *rand.Rand) (string, []string, error) { return scenUnblockV(mode, "", g) }
}

func scenUnblockV(mode, park string, g *rand.Rand) (string, []string, error) {
	w, err := newBWorld(3)
	if err != nil {
		return "", nil, err
	}
	defer w.close()
	if park != "" {
		w.srv.Ctl("PARK "+park+" "+w.clients[0].id, time.Second)
	}
	w.block(0, []string{"k"}, "BLPOP", "k", "0")
	w.block(1, []string{"k"}, "BLPOP", "k", "0")
	if park != "" {
		w.waitParked(park, w.clients[0].id)
	} else {
		w.waitQueued("k", 2)
	}
	args := []string{"CLIENT", "UNBLOCK", w.clients[0].id}
	if mode != "" {
		args = append(args, mode)
	}
	w.clients[2].conn.Send(bs(args...))
	ur, err := w.clients[2].conn.Read(2 * time.Second)
	if err != nil {
		return "CLIENT UNBLOCK not answered: " + err.Error(), w.log, nil
	}
	w.logf("unblock(%s, parked at %q) <- %s", mode, park, ur.String())
	w.srv.Ctl("RELEASE all", time.Second)
	r, _ := w.poll(0, 700*time.Millisecond)
	if park == "" {
		// the client was blocked when the request arrived: it must end now, in the requested way
		if r == nil {
			return "CLIENT UNBLOCK did not end the block", w.log, nil
		}
		if strings.EqualFold(mode, "ERROR") {
			if r.Kind != '-' || !strings.HasPrefix(string(r.Str), "UNBLOCKED") {
				return "CLIENT UNBLOCK ... ERROR ended the block with " + r.String(), w.log, nil
			}
		} else if !r.Nil {
			return "CLIENT UNBLOCK ended the block with " + r.String(), w.log, nil
		}
		if ur.Int != 1 {
			return "CLIENT UNBLOCK of a blocked client replied " + ur.String(), w.log, nil
		}
	}
	// the other client's block is untouched
	if r1, _ := w.poll(1, 100*time.Millisecond); r1 != nil {
		return "CLIENT UNBLOCK of one client also ended another client's block: " + r1.String(), w.log, nil
	}
	// re-use: whatever happened, c0 can run commands and block again
	if w.clients[0].pending {
		w.push("k", 1) // it is still blocked (request came before the block was established): serve it
		if r, _ := w.poll(0, time.Second); r == nil {
			// the element may have gone to c1, which registered earlier — then push one more
			w.push("k", 1)
			if r, _ := w.poll(0, time.Second); r == nil {
				return "client that was unblocked before its block was established is stuck", w.log, nil
			}
		}
	}
	w.clients[0].conn.Send(bs("PING"))
	if p, err := w.clients[0].conn.Read(time.Second); err != nil || string(p.Str) != "PONG" {
		return "connection unusable after CLIENT UNBLOCK", w.log, nil
	}
	w.block(0, []string{"k"}, "BRPOP", "k", "0")
	w.push("k", 2)
	w.poll(0, time.Second)
	w.poll(1, time.Second)
	return w.verdict([]string{"k"}), w.log, nil
}

// an unblock request that arrives while the client is being served (its wake-up token is already
// posted) belongs to THAT block: if the element wins, the request must be discarded — it must not
// end the client's next blocking command (Capture.v: C12_reusable, C12_block_again)
func scenStaleUnblock(g *rand.Rand) (string, []string, error) {
	w, err := newBWorld(2)
	if err != nil {
		return "", nil, err
	}
	defer w.close()
	id := w.clients[0].id
	for round := 0; round < 6; round++ {
		mode := []string{"", "TIMEOUT", "ERROR"}[g.Intn(3)]
		w.srv.Ctl("PARK block.beforewait "+id, time.Second)
		w.block(0, []string{"k"}, "BLPOP", "k", "0")
		if !w.waitParked("block.beforewait", id) {
			return "client never reached the wait", w.log, nil
		}
		w.push("k", 1) // the token is posted while the client is held just before its select
		args := []string{"CLIENT", "UNBLOCK", id}
		if mode != "" {
			args = append(args, mode)
		}
		ur, err := w.do(args...)
		if err != nil {
			return "CLIENT UNBLOCK not answered: " + err.Error(), w.log, nil
		}
		if ur.Int != 1 {
			return "CLIENT UNBLOCK of a blocked (captured) client replied " + ur.String(), w.log, nil
		}
		w.srv.Ctl("UNPARK block.beforewait "+id, time.Second)
		w.srv.Ctl("RELEASE all", time.Second)
		r, _ := w.poll(0, 2*time.Second)
		if r == nil {
			return "block ended neither by the element nor by the unblock request", w.log, nil
		}
		servedByElement := !r.Nil && r.Kind != '-'
		if !servedByElement {
			// the request won; the element stays in the list: take it away for the next round
			if n, _ := w.do("LPOP", "k"); n != nil {
				w.collect(n)
			}
		}
		// the next block of the same connection starts clean
		t0 := time.Now()
		w.block(0, []string{"k"}, "BLPOP", "k", "0.08")
		r2, err := w.poll(0, 2*time.Second)
		el := time.Since(t0)
		if err != nil || r2 == nil {
			return "second block did not end", w.log, nil
		}
		if r2.Kind == '-' {
			return fmt.Sprintf("the next blocking command ended with %s although nobody unblocked it (served by element before: %v)", r2.String(), servedByElement), w.log, nil
		}
		if !r2.Nil {
			return "the next blocking command on an empty list returned " + r2.String(), w.log, nil
		}
		if el < 75*time.Millisecond {
			return fmt.Sprintf("the next blocking command (timeout 80 ms) ended after %v: an unblock request of the previous block ended it (served by element before: %v)", el, servedByElement), w.log, nil
		}
	}
	return w.verdict([]string{"k"}), w.log, nil
}

// C14: a flush empties the keys; it does not cut the connections that wait on them off. A client
// blocked on a key of the flushed database is served by the next push to that key ("the effect is
// the state every connected client reads and writes afterwards" holds for the waiting client too).
func scenFlushBlocked(g *rand.Rand) (string, []string, error) {
	w, err := newBWorld(3)
	if err != nil {
		return "", nil, err
	}
	defer w.close()
	db := fmt.Sprint(g.Intn(4))
	for _, c := range w.clients {
		if r, err := c.conn.Do(2*time.Second, bs("SELECT", db)...); err != nil || r.Kind == '-' {
			return "SELECT failed", w.log, nil
		}
	}
	w.do("SELECT", db)
	w.do("RPUSH", "other", "x")
	cmd := [][]string{{"BLPOP", "q", "0"}, {"BRPOP", "q2", "q", "0"}, {"BLMOVE", "q", "dst", "LEFT", "RIGHT", "0"}, {"BLMPOP", "0", "1", "q", "LEFT"}}[g.Intn(4)]
	w.block(0, []string{"q"}, cmd...)
	w.block(1, []string{"q"}, "BLPOP", "q", "0")
	if !w.waitQueuedDb(db, "q", 2) {
		return "clients never registered", w.log, nil
	}
	flush := []string{"FLUSHDB"}
	if g.Intn(2) == 0 {
		flush = []string{"FLUSHALL"}
	}
	if g.Intn(3) == 0 {
		// the flush comes from a connection in another database
		w.do("SELECT", fmt.Sprint(9+g.Intn(4)))
		flush = []string{"FLUSHALL"}
	}
	if _, err := w.do(flush...); err != nil {
		return "flush got no reply", w.log, nil
	}
	w.do("SELECT", db)
	if n, _ := w.do("DBSIZE"); n == nil || n.Int != 0 {
		return "flush left keys behind", w.log, nil
	}
	if r, _ := w.poll(0, 150*time.Millisecond); r != nil {
		return "the flush ended a blocked command: " + r.String(), w.log, nil
	}
	w.push("q", 2)
	r0, _ := w.poll(0, 2*time.Second)
	r1, _ := w.poll(1, 2*time.Second)
	if r0 == nil || r1 == nil {
		n, _ := w.do("LLEN", "q")
		return fmt.Sprintf("after %v, two elements pushed to the key two clients were blocked on since before the flush reached %d of them (LLEN q = %v)", flush, map[bool]int{true: 1, false: 0}[r0 != nil]+map[bool]int{true: 1, false: 0}[r1 != nil], n), w.log, nil
	}
	// clients that block after the flush are served as well
	w.block(2, []string{"q"}, "BRPOP", "q", "0")
	w.push("q", 1)
	if r, _ := w.poll(2, 2*time.Second); r == nil {
		return "a client that blocked after the flush was not served", w.log, nil
	}
	return "", w.log, nil
}

// like waitQueued, for a database other than 0
func (w *bworld) waitQueuedDb(db, key string, n int) bool {
	for t := 0; t < 200; t++ {
		line, err := w.srv.Ctl("DUMP 0 "+db, 2*time.Second)
		if err == nil {
			var d struct{ Waiters map[string]int }
			if json.Unmarshal([]byte(line), &d) == nil && d.Waiters[key] >= n {
				return true
			}
		}
		time.Sleep(5 * time.Millisecond)
	}
	return false
}

// a killed (server side) or closed (client side) blocked client must stop competing for elements
func scenDisconnect(g *rand.Rand, clientSide bool) (string, []string, error) {
	w, err := newBWorld(2)
	if err != nil {
		return "", nil, err
	}
	defer w.close()
	// the connection ends either while the command waits, or in the step before: registered in the
	// wait table, not yet waiting (held at the schedule point before the capture)
	early := g.Intn(2) == 0
	if early {
		w.srv.Ctl("PARK block.beforecapture "+w.clients[0].id, time.Second)
	}
	w.block(0, []string{"k"}, "BLPOP", "k", "0")
	if !w.waitQueued("k", 1) {
		return "client never registered", w.log, nil
	}
	if early {
		if !w.waitParked("block.beforecapture", w.clients[0].id) {
			return "client never reached the point before its wait", w.log, nil
		}
		w.logf("c0 is held between registration and waiting")
		defer w.srv.Ctl("RELEASE all", time.Second)
	}
	if clientSide {
		if tc, ok := w.clients[0].conn.c.(*net.TCPConn); ok && g.Intn(2) == 0 {
			// an abortive close: the server's read ends with "connection reset", not with end-of-stream
			tc.SetLinger(0)
			w.logf("c0: connection reset by the client (SO_LINGER 0)")
		} else {
			w.logf("c0: socket closed by the client")
		}
		w.clients[0].conn.Close()
	} else {
		w.do("CLIENT", "KILL", "ID", w.clients[0].id)
	}
	w.clients[0].pending = false
	if early {
		time.Sleep(30 * time.Millisecond)
		w.srv.Ctl("RELEASE all", time.Second)
	}
	time.Sleep(120 * time.Millisecond)
	w.push("k", 1)
	time.Sleep(80 * time.Millisecond)
	n, err := w.do("LLEN", "k")
	if err != nil {
		return "control connection not served", w.log, nil
	}
	if n.Int != 1 {
		return fmt.Sprintf("an element pushed after the blocked client's connection was %s was consumed by the dead client (LLEN %d, expected 1)",
			map[bool]string{true: "closed by the peer", false: "killed"}[clientSide], n.Int), w.log, nil
	}
	// a live consumer gets it
	w.block(1, []string{"k"}, "BLPOP", "k", "0")
	if r, _ := w.poll(1, time.Second); r == nil {
		return "live consumer did not get the element", w.log, nil
	}
	return "", w.log, nil
}

func runBlocking(prop string, scen []func(g *rand.Rand) (string, []string, error), names []string, quickN, thoroughN int) func(runCfg, *Result) error {
	return func(cfg runCfg, res *Result) error {
		g := rand.New(rand.NewSource(cfg.seed))
		n := quickN
		if cfg.tier == "thorough" {
			n = thoroughN
		}
		listed := loadFindings("")
		if res.KnownActive == nil {
			res.KnownActive = map[string]string{}
			res.KnownHits = map[string]int{}
		}
		if cfg.replay != "" {
			b, err := os.ReadFile(cfg.replay)
			if err != nil {
				return err
			}
			var rp struct {
				Case bscenario `json:"case"`
			}
			json.Unmarshal(b, &rp)
			if rp.Case.Name == "lockstep" {
				why, _, err := scenLockstep(rand.New(rand.NewSource(rp.Case.Seed)), cfg.modelPath)
				if err != nil {
					return err
				}
				res.Histories = 1
				if why != "" {
					res.Mismatches = append(res.Mismatches, &Mismatch{Index: -1, Op: "lock-step with Wait.v", Why: why})
				}
				return nil
			}
			for i, nm := range names {
				if nm == rp.Case.Name {
					g = rand.New(rand.NewSource(rp.Case.Seed))
					why, _, err := scen[i](g)
					if err != nil {
						return err
					}
					res.Histories = 1
					if why != "" {
						res.Mismatches = append(res.Mismatches, &Mismatch{Index: -1, Op: nm, Why: why})
					}
				}
			}
			return nil
		}
		if prop == "C12" {
			// witness of the listed finding: CLIENT UNBLOCK of a client that is not blocked must answer 0
			w, err := newBWorld(1)
			if err != nil {
				return err
			}
			ur, err := w.do("CLIENT", "UNBLOCK", w.clients[0].id)
			w.close()
			res.Histories++
			if err == nil && ur.Int != 0 {
				why := fmt.Sprintf("CLIENT UNBLOCK %s for a connected client that is not blocked replied %s (Redis: 0)", "<id>", ur.String())
				known := false
				for _, lf := range listed {
					if lf.ID == "client-unblock-reply-not-blocked" {
						res.KnownActive[lf.ID] = lf.Text + " [" + why + "]"
						res.KnownHits[lf.ID]++
						known = true
					}
				}
				if !known {
					os.MkdirAll(cfg.replayDir, 0o755)
					path := filepath.Join(cfg.replayDir, fmt.Sprintf("%s-seed%d-unblock-idle.json", prop, cfg.seed))
					b, _ := json.MarshalIndent(map[string]any{"property": prop, "kind": "blocking-schedule", "seed": cfg.seed, "why": why,
						"case": bscenario{Name: "unblock-idle", Seed: 0, Log: w.log}}, "", " ")
					os.WriteFile(path, b, 0o644)
					res.Mismatches = append(res.Mismatches, &Mismatch{Index: -1, Op: "unblock-idle", Why: why})
					res.Replays = append(res.Replays, path)
				}
			}
		}
		for i := 0; i < n && len(res.Mismatches) < 3; i++ {
			k := i % len(scen)
			if i >= len(scen) {
				k = g.Intn(len(scen))
			}
			seed := g.Int63()
			why, log, err := scen[k](rand.New(rand.NewSource(seed)))
			if err != nil {
				return err
			}
			res.Histories++
			res.Steps += len(log)
			res.CmdHist[names[k]]++
			if len(res.Samples) < 3 && len(log) > 0 {
				res.Samples = append(res.Samples, names[k]+": "+strings.Join(log[:min(len(log), 10)], " | "))
			}
			if why == "" {
				continue
			}
			// a scenario whose failure is a listed finding
			matched := false
			for _, lf := range listed {
				if lf.ID == "blocked-client-peer-close-not-detected" && names[k] == "peer-close" {
					res.KnownActive[lf.ID] = lf.Text + " [" + why + "]"
					res.KnownHits[lf.ID]++
					matched = true
				}
			}
			if matched {
				continue
			}
			os.MkdirAll(cfg.replayDir, 0o755)
			path := filepath.Join(cfg.replayDir, fmt.Sprintf("%s-seed%d-%d.json", prop, cfg.seed, len(res.Mismatches)+1))
			b, _ := json.MarshalIndent(map[string]any{"property": prop, "kind": "blocking-schedule", "seed": cfg.seed, "why": why,
				"case": bscenario{Name: names[k], Seed: seed, Log: log}}, "", " ")
			os.WriteFile(path, b, 0o644)
			res.Mismatches = append(res.Mismatches, &Mismatch{Index: -1, Op: names[k], Why: why})
			res.Replays = append(res.Replays, path)
		}
		res.Distinct = res.Histories
		return nil
	}
}

func init() {
	c11scen := runBlocking("C11",
		[]func(g *rand.Rand) (string, []string, error){stolenVariant(0), stolenVariant(1), stolenVariant(2), stolenVariant(3), stolenVariant(4), scenStolen, oddElementVariant(0), oddElementVariant(1), oddElementVariant(2), oddElementVariant(3), oddElementVariant(4), scenTimeoutTie, scenMultiKey, scenFifo,
			otherProducerVariant(0), otherProducerVariant(1), otherProducerVariant(2), otherProducerVariant(3), otherProducerVariant(4), otherProducerVariant(5), otherProducerVariant(6), otherProducerVariant(7),
			scenOtherProducers, scenRandom, scenRandom, scenRandom},
		[]string{"stolen-wakeup", "stolen-wakeup", "stolen-wakeup", "stolen-wakeup", "stolen-wakeup", "stolen-wakeup", "opaque-elements", "opaque-elements", "opaque-elements", "opaque-elements", "opaque-elements", "timeout-tie", "multi-key", "fifo", "other-producers", "other-producers", "other-producers", "other-producers", "other-producers", "other-producers", "other-producers", "other-producers",
			"other-producers", "random", "random", "random"}, 56, 800)
	streams["C11"] = func(cfg runCfg, res *Result) error {
		if os.Getenv("VERIF_ONLY_LOCKSTEP") == "" {
			if err := c11scen(cfg, res); err != nil || cfg.replay != "" {
				return err
			}
		}
		n := 14
		if cfg.tier == "thorough" {
			n = 400
		}
		return runC11Lockstep(cfg, res, n)
	}
	specialReplay["C11"] = true
	streams["C12"] = runBlocking("C12",
		[]func(g *rand.Rand) (string, []string, error){scenTimeouts, unblockVariant(""), unblockVariant("TIMEOUT"), unblockVariant("timeout"), unblockVariant("ERROR"), unblockVariant("error"), scenUnblock, scenStaleUnblock,
			func(g *rand.Rand) (string, []string, error) { return scenDisconnect(g, false) },
			func(g *rand.Rand) (string, []string, error) { return scenDisconnect(g, true) },
			func(g *rand.Rand) (string, []string, error) { return scenDisconnect(g, true) }, scenTimeoutTie},
		[]string{"timeouts", "unblock", "unblock", "unblock", "unblock", "unblock", "unblock", "stale-unblock", "kill", "peer-close", "peer-close", "timeout-tie"}, 24, 300)
	specialReplay["C12"] = true
	streams["C14B"] = runBlocking("C14", []func(g *rand.Rand) (string, []string, error){scenFlushBlocked}, []string{"flush-while-blocked"}, 6, 120)
	specialReplay["C14B"] = true
}
