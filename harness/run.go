package main

// run: per-property correspondence streams. Writes a JSON result file that the
// check script merges with the proof status.

import (
	"encoding/json"
	"fmt"
	"os"
	"sort"
	"strconv"
	"time"
)

type Result struct {
	Property    string            `json:"property"`
	Tier        string            `json:"tier"`
	Seed        int64             `json:"seed"`
	Histories   int               `json:"histories"`
	Steps       int               `json:"steps"`
	Distinct    int               `json:"distinct_histories"`
	CmdHist     map[string]int    `json:"command_histogram"`
	ErrHist     map[string]int    `json:"error_histogram"`
	Samples     []string          `json:"samples"`
	Mismatches  []*Mismatch       `json:"mismatches"`
	Replays     []string          `json:"replays"`
	Flaky       int               `json:"unreproduced_mismatches"`
	KnownActive map[string]string `json:"known_findings_active"`
	KnownHits   map[string]int    `json:"known_finding_hits"`
	Extra       map[string]any    `json:"extra,omitempty"`
	WallS       float64           `json:"wall_s"`
	InfraError  string            `json:"infra_error,omitempty"`
}

type runCfg struct {
	prop, tier, modelPath, out, replayDir string
	seed                                  int64
	replay                                string
}

func runMain(args []string) {
	cfg := runCfg{tier: "quick", replayDir: "replays"}
	for i := 0; i < len(args); i++ {
		switch args[i] {
		case "-prop":
			i++
			cfg.prop = args[i]
		case "-tier":
			i++
			cfg.tier = args[i]
		case "-seed":
			i++
			cfg.seed, _ = strconv.ParseInt(args[i], 10, 64)
		case "-model":
			i++
			cfg.modelPath = args[i]
		case "-out":
			i++
			cfg.out = args[i]
		case "-replays":
			i++
			cfg.replayDir = args[i]
		case "-replay":
			i++
			cfg.replay = args[i]
		}
	}
	t0 := time.Now()
	res := &Result{Property: cfg.prop, Tier: cfg.tier, Seed: cfg.seed, CmdHist: map[string]int{}, ErrHist: map[string]int{}, Extra: map[string]any{}}
	var err error
	if cfg.replay != "" && specialReplay[cfg.prop] {
		err = streams[cfg.prop](cfg, res)
	} else if cfg.replay != "" {
		err = replayFile(cfg, res)
	} else {
		fn, ok := streams[cfg.prop]
		if !ok {
			err = fmt.Errorf("no stream for %s", cfg.prop)
		} else {
			err = fn(cfg, res)
		}
	}
	if err != nil {
		res.InfraError = err.Error()
	}
	res.WallS = time.Since(t0).Seconds()
	b, _ := json.MarshalIndent(res, "", " ")
	if cfg.out != "" {
		os.WriteFile(cfg.out, b, 0o644)
	} else {
		fmt.Println(string(b))
	}
	if err != nil {
		fmt.Fprintln(os.Stderr, "harness error:", err)
		os.Exit(3)
	}
}

var streams = map[string]func(runCfg, *Result) error{}

// streams that interpret their own replay files
var specialReplay = map[string]bool{"C17": true}

// runHistories drives the sequential engine over generated histories.
func runHistories(cfg runCfg, res *Result, n int, gen func(i int) History) error {
	e, err := newEngine(cfg.modelPath)
	if err != nil {
		return err
	}
	defer e.Close()
	listed := loadFindings("")
	if res.KnownActive == nil {
		res.KnownActive = map[string]string{}
		res.KnownHits = map[string]int{}
	}
	for _, lf := range listed {
		if _, done := res.KnownActive[lf.ID]; done {
			continue
		}
		if still, why := witnessStillFails(e, lf); still {
			res.KnownActive[lf.ID] = lf.Text + " [" + why + "]"
		} else if _, hasWitness := signatures[lf.ID]; hasWitness {
			res.Extra["finding_"+lf.ID] = why
		}
	}
	seen := map[string]bool{}
	for i := 0; i < n; i++ {
		h := gen(i)
		res.Histories++
		key := fmt.Sprint(h.Ops)
		if !seen[key] && len(h.Ops) > 1 {
			seen[key] = true
		}
		if len(res.Samples) < 3 {
			s := ""
			for j, o := range h.Ops {
				if j >= 12 {
					s += " ..."
					break
				}
				s += o.String() + " ; "
			}
			res.Samples = append(res.Samples, s)
		}
		m, err := e.Run(h)
		if err != nil {
			return err
		}
		if m == nil {
			if why := e.integrity(); why != "" {
				m = &Mismatch{Index: len(h.Ops) - 1, Op: "(internal structure after the history)", Why: why, History: h}
				res.Mismatches = append(res.Mismatches, m)
				res.Replays = append(res.Replays, writeReplay(cfg.replayDir, cfg.prop, m, cfg.seed, len(res.Mismatches)))
				if len(res.Mismatches) >= 5 {
					break
				}
			}
			continue
		}
		// confirm (timing flukes do not reproduce), then shrink
		m2, err := e.Confirm(h)
		if err != nil {
			return err
		}
		if m2 == nil {
			res.Flaky++
			continue
		}
		if id := explainMismatch(listed, m2); id != "" {
			if _, active := res.KnownActive[id]; active {
				res.KnownHits[id]++
				continue
			}
		}
		m3 := e.Shrink(m2, 80)
		if id := explainMismatch(listed, m3); id != "" {
			if _, active := res.KnownActive[id]; active {
				res.KnownHits[id]++
				continue
			}
		}
		res.Mismatches = append(res.Mismatches, m3)
		res.Replays = append(res.Replays, writeReplay(cfg.replayDir, cfg.prop, m3, cfg.seed, len(res.Mismatches)))
		if len(res.Mismatches) >= 5 {
			break
		}
	}
	res.Steps += e.Steps
	res.Distinct += len(seen)
	for k, v := range e.CmdHist {
		res.CmdHist[k] += v
	}
	for k, v := range e.ErrHist {
		res.ErrHist[k] += v
	}
	res.Extra["server_restarts"] = e.Restarts - 1
	return nil
}

func replayFile(cfg runCfg, res *Result) error {
	b, err := os.ReadFile(cfg.replay)
	if err != nil {
		return err
	}
	var r struct {
		Mismatch *Mismatch `json:"mismatch"`
		History  *History  `json:"history"`
	}
	if err := json.Unmarshal(b, &r); err != nil {
		return err
	}
	var h History
	if r.Mismatch != nil {
		h = r.Mismatch.History
	} else if r.History != nil {
		h = *r.History
	} else {
		return fmt.Errorf("no history in %s", cfg.replay)
	}
	e, err := newEngine(cfg.modelPath)
	if err != nil {
		return err
	}
	defer e.Close()
	m, err := e.Run(h)
	if err != nil {
		return err
	}
	res.Histories = 1
	res.Steps = e.Steps
	if m == nil {
		if why := e.integrity(); why != "" {
			m = &Mismatch{Index: len(h.Ops) - 1, Op: "(internal structure after the history)", Why: why, History: h}
		}
	}
	if m != nil {
		res.Mismatches = append(res.Mismatches, m)
	}
	return nil
}

// familyStream: random histories over a weighted mix of command families, from a
// seeded keyspace, with a full observation of the key universe at the end.
func familyStream(weights map[string]int, hostile bool, quickN, thoroughN, length int) func(runCfg, *Result) error {
	return func(cfg runCfg, res *Result) error {
		g := newGen(cfg.seed)
		g.hostile = hostile
		n := quickN
		if cfg.tier == "thorough" {
			n = thoroughN
		}
		return runHistories(cfg, res, n, func(i int) History {
			var ops []Op
			g.newHistory()
			ops = append(ops, g.seedOps(1)...)
			l := 3 + g.r.Intn(length)
			for j := 0; j < l; j++ {
				ops = append(ops, g.fromFamilies(1, weights))
				if g.chance(0.1) {
					ops = append(ops, g.observeAll(1)...)
				}
				if g.chance(0.08) {
					// a key that is gone but still stored (UNLINK only moves the deadline into the past; nothing sweeps):
					// the next commands of the family must treat it as missing
					k := g.key()
					old := g.focus
					g.focus = k
					ops = append(ops, mkOp(1, "UNLINK", k))
					for x := 0; x < 1+g.r.Intn(2); x++ {
						ops = append(ops, g.fromFamilies(1, weights))
					}
					ops = append(ops, mkOp(1, "TYPE", k), mkOp(1, "TTL", k))
					g.focus = old
				}
				if weights["string"] >= 10 && g.chance(0.06) {
					ops = append(ops, g.counterBoundary(1)...)
				}
				if weights["string"] >= 10 && g.chance(0.08) {
					ops = append(ops, g.lcsMacro(1)...)
				}
				if weights["string"] >= 10 && g.chance(0.08) {
					ops = append(ops, g.setMacro(1)...)
				}
				if weights["string"] >= 10 && g.chance(0.07) {
					ops = append(ops, g.floatMacro(1, false)...)
				}
				if weights["hash"] >= 10 && g.chance(0.07) {
					ops = append(ops, g.floatMacro(1, true)...)
				}
				if weights["list"] >= 10 && g.chance(0.08) {
					ops = append(ops, g.lposMacro(1)...)
				}
				if weights["bits"] >= 10 && g.chance(0.1) {
					ops = append(ops, g.bitposMacro(1)...)
				}
				if weights["bits"] >= 10 && g.chance(0.1) {
					ops = append(ops, g.bitrangeMacro(1)...)
				}
				if weights["key"] >= 5 && g.chance(0.12) {
					ops = append(ops, g.sortMacro(1)...)
				}
				if weights["key"] >= 5 && g.chance(0.1) {
					ops = append(ops, g.copyMacro(1)...)
				}
				if weights["key"] >= 5 && g.chance(0.12) {
					ops = append(ops, g.refusedMacro(1)...)
				}
				if weights["hash"] >= 10 && g.chance(0.06) {
					ops = append(ops, g.hcounterBoundary(1)...)
				}
				if weights["hash"] >= 10 && g.chance(0.07) {
					ops = append(ops, g.noncanonMacro(1, true)...)
				}
				if weights["string"] >= 10 && g.chance(0.05) {
					ops = append(ops, g.noncanonMacro(1, false)...)
				}
			}
			ops = append(ops, g.observeAll(1)...)
			return History{Ops: ops}
		})
	}
}

func sortedKeys(m map[string]int) []string {
	var ks []string
	for k := range m {
		ks = append(ks, k)
	}
	sort.Strings(ks)
	return ks
}

func init() {
	streams["C02"] = familyStream(map[string]int{"string": 12, "key": 1, "expire": 1, "list": 1}, true, 150, 3000, 25)
	streams["C03"] = familyStream(map[string]int{"list": 12, "key": 1, "string": 1}, true, 150, 3000, 25)
	streams["C04"] = familyStream(map[string]int{"hash": 12, "key": 1, "string": 1}, true, 150, 3000, 25)
	c05a := familyStream(map[string]int{"set": 12, "key": 1, "string": 1}, false, 120, 2500, 25)
	streams["C05"] = func(cfg runCfg, res *Result) error {
		if err := c05a(cfg, res); err != nil {
			return err
		}
		// long churn: few keys, six members, hundreds of operations — table growth, shrink and
		// removal counters of the set dictionaries come into play
		g := newGen(cfg.seed + 7919)
		g.keys = []string{"ka", "kb", "kc"}
		mem := func() string { return g.pick("a", "b", "c", "d", "e", "x") }
		n := 14
		if cfg.tier == "thorough" {
			n = 300
		}
		return runHistories(cfg, res, n, func(i int) History {
			var ops []Op
			l := 150 + g.r.Intn(250)
			for j := 0; j < l; j++ {
				switch x := g.r.Intn(100); {
				case x < 30:
					ops = append(ops, mkOp(1, "SADD", g.key(), mem(), mem()))
				case x < 55:
					ops = append(ops, mkOp(1, "SREM", g.key(), mem()))
				case x < 60:
					// churn on one member: the removal counter grows while the set stays the same
					k, m := g.key(), mem()
					for c := 0; c < 6+g.r.Intn(14); c++ {
						ops = append(ops, mkOp(1, "SADD", k, m), mkOp(1, "SREM", k, m))
					}
				case x < 72:
					ops = append(ops, mkOp(1, g.pick("SINTER", "SUNION", "SDIFF"), g.key(), g.key()))
				case x < 78:
					ops = append(ops, mkOp(1, g.pick("SINTER", "SUNION", "SDIFF"), g.key(), g.key(), g.key()))
				case x < 86:
					ops = append(ops, mkOp(1, g.pick("SINTERSTORE", "SUNIONSTORE", "SDIFFSTORE"), g.key(), g.key(), g.key()))
				case x < 90:
					ops = append(ops, mkOp(1, "SMOVE", g.key(), g.key(), mem()))
				case x < 94:
					ops = append(ops, mkOp(1, "SINTERCARD", "2", g.key(), g.key(), "LIMIT", g.pick("0", "1", "2")))
				default:
					ops = append(ops, mkOp(1, "SMEMBERS", g.key()), mkOp(1, "SCARD", g.key()))
				}
			}
			ops = append(ops, g.observeAll(1)...)
			return History{Ops: ops}
		})
	}
	streams["C06"] = familyStream(map[string]int{"string": 3, "list": 3, "hash": 3, "set": 3, "key": 6, "expire": 2, "bits": 1}, false, 150, 3000, 30)
	streams["C18"] = familyStream(map[string]int{"bits": 12, "string": 1, "key": 1}, false, 150, 3000, 25)
}
