package main

// C13: no client input can crash the process, stall other clients, or go unanswered.
// A victim connection sends hostile input; a bystander connection must keep being
// served; the process must stay alive; every well-formed command gets one reply.

import (
	"encoding/json"
	"fmt"
	"math/rand"
	"os"
	"path/filepath"
	"strings"
	"time"
)

var c13Blocking = map[string]bool{"blpop": true, "brpop": true, "blmove": true, "brpoplpush": true, "blmpop": true}

// commands that legitimately end or redirect the victim connection, or act on other clients
var c13Skip = map[string]bool{"quit": true, "client": true}

var c13Args = []string{"", "0", "1", "-1", "2", "10", "ka", "kl", "kh", "ks", "kmissing", "ke", "kz", "a", "b", "f1",
	"9223372036854775807", "-9223372036854775808", "9223372036854775808", "2147483648", "4294967296", "4294967297",
	"4000000000000000000", "-4000000000000000000", "1e308", "nan", "inf", "-inf", "3.5", "abc", "\r\n", "\x00",
	"NX", "XX", "GET", "EX", "PX", "COUNT", "MATCH", "LIMIT", "LEFT", "RIGHT", "BEFORE", "WITHVALUES", "BY", "STORE", "ALPHA", "DESC",
	"REPLACE", "ABSTTL", "u8", "i64", "u63", "i65", "#1", "OVERFLOW", "FAIL", "SET", "INCRBY", "AND", "NOT", "BIT", "BYTE", "*", "k*", "[", "\\"}

// argument templates: K = a key of some type, I = an integer from the extremes, F = a float, anything else literal
var c13Templates = [][]string{
	{"setrange", "K", "I", "x"}, {"getrange", "K", "I", "I"}, {"substr", "K", "I", "I"}, {"lrange", "K", "I", "I"}, {"lindex", "K", "I"}, {"lset", "K", "I", "x"},
	{"ltrim", "K", "I", "I"}, {"lrem", "K", "I", "a"}, {"lpop", "K", "I"}, {"rpop", "K", "I"}, {"lmpop", "I", "K", "LEFT", "COUNT", "I"}, {"lmpop", "1", "K", "RIGHT", "COUNT", "I"},
	{"lpos", "K", "a", "RANK", "I"}, {"lpos", "K", "a", "COUNT", "I", "MAXLEN", "I"}, {"incrby", "K", "I"}, {"decrby", "K", "I"}, {"hincrby", "K", "f1", "I"},
	{"expire", "K", "I"}, {"pexpire", "K", "I"}, {"expireat", "K", "I"}, {"pexpireat", "K", "I"}, {"setex", "K", "I", "v"}, {"psetex", "K", "I", "v"},
	{"set", "K", "v", "EX", "I"}, {"set", "K", "v", "PX", "I"}, {"set", "K", "v", "EXAT", "I"}, {"set", "K", "v", "PXAT", "I"}, {"getex", "K", "EX", "I"}, {"getex", "K", "PXAT", "I"},
	{"setbit", "K", "I", "1"}, {"setbit", "K", "I", "I"}, {"getbit", "K", "I"}, {"bitcount", "K", "I", "I"}, {"bitcount", "K", "I", "I", "BIT"}, {"bitpos", "K", "1", "I", "I"},
	{"bitpos", "K", "0", "I", "I", "BIT"}, {"bitpos", "K", "I"}, {"bitfield", "K", "SET", "u8", "I", "1"}, {"bitfield", "K", "GET", "i64", "I"}, {"bitfield", "K", "INCRBY", "i64", "#I", "I"},
	{"bitfield", "K", "SET", "u63", "#I", "I"}, {"bitfield", "K", "OVERFLOW", "SAT", "INCRBY", "i64", "0", "I"}, {"bitfield_ro", "K", "GET", "u8", "I"}, {"bitop", "NOT", "K", "K"},
	{"srandmember", "K", "I"}, {"hrandfield", "K", "I"}, {"hrandfield", "K", "I", "WITHVALUES"}, {"scan", "I"}, {"scan", "0", "COUNT", "I"}, {"scan", "I", "MATCH", "*", "COUNT", "I"},
	{"sscan", "K", "I", "COUNT", "I"}, {"hscan", "K", "I", "COUNT", "I"}, {"sintercard", "I", "K", "K", "LIMIT", "I"}, {"sintercard", "2", "K", "K", "LIMIT", "I"}, {"select", "I"},
	{"copy", "K", "K", "DB", "I"}, {"sort", "K", "LIMIT", "I", "I"}, {"sort", "K", "LIMIT", "I", "I", "ALPHA"}, {"sort", "K", "ALPHA", "DESC", "STORE", "K"}, {"restore", "kr", "I", "x"},
	{"blpop", "K", "F"}, {"brpop", "K", "K", "F"}, {"blmove", "K", "K", "LEFT", "RIGHT", "F"}, {"brpoplpush", "K", "K", "F"}, {"blmpop", "F", "I", "K", "LEFT", "COUNT", "I"},
	{"incrbyfloat", "K", "F"}, {"hincrbyfloat", "K", "f1", "F"}, {"lcs", "K", "K", "MINMATCHLEN", "I"}, {"lcs", "K", "K", "IDX", "MINMATCHLEN", "I", "WITHMATCHLEN"}, {"linsert", "K", "BEFORE", "a", "x"},
	{"hello", "I"}, {"smismember", "K", "a", "b"}, {"keys", "P"}, {"scan", "0", "MATCH", "P"}, {"sscan", "K", "0", "MATCH", "P"}, {"hscan", "K", "0", "MATCH", "P"}, {"command", "list", "filterby", "pattern", "P"},
	{"lcs", "kq", "khuge"}, {"lcs", "khuge", "kq"}, {"lcs", "kq", "khuge2"}, {"lcs", "khuge2", "kq", "LEN"}, {"lcs", "kz", "khuge2"}, {"lcs", "ka", "khuge2", "IDX"}, {"lcs", "khuge", "khuge", "LEN"},
	{"lcs", "kbig1", "kbig2"}, {"lcs", "kbig1", "kbig2", "IDX"}, {"lcs", "kbig1", "kbig1", "LEN"}, {"lcs", "kbig2", "K", "IDX", "WITHMATCHLEN"},
	{"sort", "K", "BY", "w_*->f"}, {"sort", "K", "GET", "w_*->f", "GET", "#"}, {"sort", "K", "BY", "k*->f1", "GET", "k*->f1"}, {"sort", "K", "BY", "h_*->f", "GET", "w_*->x", "STORE", "K"},
	{"sort", "K", "BY", "P"}, {"sort", "K", "BY", "w_*", "GET", "P", "GET", "#"}, {"sort", "K", "BY", "h_*->f", "LIMIT", "I", "I", "GET", "h_*->"}, {"sort", "K", "GET"},
	{"sort", "K", "ALPHA", "LIMIT", "I", "I", "STORE", "K"}, {"sort", "K", "BY", "nosort", "GET", "*->", "STORE", "K"}, {"sort", "kbig1", "ALPHA"},
	{"bitcount", "K"}, {"bitcount", "K", "I", "I", "BIT"}, {"bitpos", "K", "0"}, {"bitpos", "K", "1", "I"}, {"getrange", "K", "I", "I"}, {"lcs", "K", "K", "IDX"}, {"bitop", "AND", "K", "K", "K"},
	{"setrange", "K", "I", ""}, {"append", "K", ""}, {"bitfield", "K", "GET", "u8", "I"}, {"getbit", "K", "I"}, {"strlen", "K"}, {"substr", "K", "I", "I"}, {"incr", "K"}, {"decrby", "K", "I"},
	{"dump", "K"}, {"rename", "K", "K"}, {"smove", "K", "K", "a"}, {"lmove", "K", "K", "LEFT", "LEFT"}, {"sinterstore", "K", "K", "K"}, {"msetnx", "K", "v", "K", "v"}, {"getdel", "K"},
}

var c13Ints = []string{"0", "1", "-1", "2", "3", "7", "8", "64", "-100", "100", "2147483647", "2147483648", "4294967295", "4294967296", "-2147483649",
	"9223372036854775807", "-9223372036854775808", "9223372036854775806", "-9223372036854775807", "4611686018427387904", "4000000000000000000", "536870912"}
var c13Floats = []string{"0", "0.01", "-1", "1e308", "-1e308", "inf", "-inf", "nan", "1e-320", "0.0000000001", "9223372036854775807", "3.5e18", "abc", ""}
var c13Patterns = []string{"*", "[a-", "[^a-", "k[", "k[a", "k[a-", "*[", "\\", "k\\", "[]", "[^]", "[z-a]*", "?*?*?*", "k[\\", "*****k*****a", "[a-]x", "[-a", "[\\"}

// two different 12 KB strings over a small alphabet: their LCS table has 1.4e8 cells
func c13Big(which int) string {
	r := rand.New(rand.NewSource(int64(which)))
	b := make([]byte, 12000)
	for i := range b {
		b[i] = "abcd"[r.Intn(4)]
	}
	return string(b)
}

func c13Fill(g *rand.Rand, t []string) []string {
	keys := []string{"ka", "kl", "kh", "ks", "kmissing", "ke", "ke", "kz", "kn", "k1", "kx", "knames", "ksnames"}
	out := make([]string, len(t))
	for i, a := range t {
		switch a {
		case "K":
			out[i] = keys[g.Intn(len(keys))]
		case "I":
			out[i] = c13Ints[g.Intn(len(c13Ints))]
		case "#I":
			out[i] = "#" + c13Ints[g.Intn(len(c13Ints))]
		case "F":
			out[i] = c13Floats[g.Intn(len(c13Floats))]
		case "P":
			out[i] = c13Patterns[g.Intn(len(c13Patterns))]
		default:
			out[i] = a
		}
	}
	return out
}

type c13Case struct {
	Kind string   `json:"kind"` // "cmd" (well-formed command) or "raw" (raw bytes)
	Args []string `json:"args_hex,omitempty"`
	Raw  string   `json:"raw_hex,omitempty"`
	Seed []string `json:"seed_state,omitempty"`
}

type c13Runner struct {
	prev     c13Case
	late     string // a death noticed only when the next case started
	srv      *Server
	victim   *Conn
	by       *Conn
	restarts int
	slow     int  // replies that took longer than 1.5 s (and arrived within the bound)
	huge     bool // the current case uses the megabyte strings
}

func (r *c13Runner) setup() error {
	if r.srv != nil {
		r.srv.Kill()
	}
	var err error
	if r.srv, err = startServer(""); err != nil {
		return err
	}
	r.restarts++
	if r.by, err = dial(r.srv.Port); err != nil {
		return err
	}
	return r.newVictim()
}

func (r *c13Runner) newVictim() error {
	if r.victim != nil {
		r.victim.Close()
	}
	var err error
	r.victim, err = dial(r.srv.Port)
	return err
}

func (r *c13Runner) seedState() error {
	c := r.by
	defer func() {
		if r.huge {
			// the megabyte strings only for the cases that name them (allocating them for every case is slow)
			c.Do(5*time.Second, bs("SETRANGE", "khuge", "1499999", "y")...)
			c.Do(5*time.Second, bs("SETRANGE", "khuge2", "16777215", "y")...)
		}
	}()
	for _, cmd := range [][]string{{"FLUSHALL"}, {"SET", "ka", "hello"}, {"RPUSH", "kl", "a", "b", "c"}, {"HSET", "kh", "f1", "1", "f2", "x"}, {"SADD", "ks", "a", "b", "c"},
		{"SET", "kbig1", c13Big(1)}, {"SET", "kbig2", c13Big(2)}, {"SET", "w_a", "1"}, {"HSET", "h_a", "f", "1"},
		{"RPUSH", "knames", "a", "l", "h", "s", "e"}, {"SADD", "ksnames", "a", "l", "h", "s"}, {"SET", "ke", ""}, {"SET", "kz", "\x00"}, {"SET", "kq", "q"}, {"SET", "kn", "-9223372036854775808"}, {"SADD", "k1", "only"}, {"SET", "kx", "gone"}, {"PEXPIRE", "kx", "1"}} {
		if _, err := c.Do(3*time.Second, bs(cmd...)...); err != nil {
			return err
		}
	}
	return nil
}

// bystander must be served promptly
func (r *c13Runner) bystander() string {
	t0 := time.Now()
	n, err := r.by.Do(1500*time.Millisecond, bs("SET", "bystander", "1")...)
	if err != nil || n.Kind != '+' {
		return fmt.Sprintf("bystander connection not served within 1.5 s: %v", err)
	}
	n, err = r.by.Do(1500*time.Millisecond, bs("GET", "bystander")...)
	if err != nil || string(n.Str) != "1" {
		return fmt.Sprintf("bystander connection not served within 1.5 s: %v", err)
	}
	if d := time.Since(t0); d > time.Second {
		return fmt.Sprintf("bystander connection took %v", d)
	}
	return ""
}

// one hostile case; "" = fine
func (r *c13Runner) run(cs c13Case) (string, error) {
	if !r.srv.Alive() {
		// the process died after the previous case had been judged: blame that case
		why := fmt.Sprintf("emulator process died shortly after %q %q: %s", unhexs(r.prev.Args), unhex(r.prev.Raw), tail(r.srv.Stderr(), 700))
		if err := r.setup(); err != nil {
			return "", err
		}
		r.late = why
	}
	r.prev = cs
	r.huge = false
	for _, a := range unhexs(cs.Args) {
		if strings.HasPrefix(string(a), "khuge") {
			r.huge = true
		}
	}
	if err := r.seedState(); err != nil {
		if err := r.setup(); err != nil {
			return "", err
		}
		if err := r.seedState(); err != nil {
			return "", err
		}
	}
	died := func(what string, suspicious bool) string {
		if suspicious {
			waitDead(r.srv, 300*time.Millisecond)
		}
		if !r.srv.Alive() {
			return what + ": emulator process died: " + tail(r.srv.Stderr(), 700)
		}
		return ""
	}
	if cs.Kind == "cmd" {
		args := unhexs(cs.Args)
		name := ""
		if len(args) > 0 {
			name = strings.ToLower(string(args[0]))
		}
		_, err := r.victim.Do(1500*time.Millisecond, args...)
		if w := died(fmt.Sprintf("command %q", args), err != nil); w != "" {
			return w, nil
		}
		if err != nil && !c13Blocking[name] {
			// a command may legitimately work on half a gigabyte (SETBIT k 4294967295 1 allocates and copies
			// 512 MB): the bound for a reply is 12 s, replies slower than 1.5 s are counted
			if _, err2 := r.victim.Read(10500 * time.Millisecond); err2 == nil {
				r.slow++
				err = nil
			}
			if w := died(fmt.Sprintf("command %q", args), err != nil); w != "" {
				return w, nil
			}
		}
		if err != nil {
			if c13Blocking[name] {
				// a blocking command may legitimately wait; the connection is abandoned
				if err := r.newVictim(); err != nil {
					return "", err
				}
			} else {
				w := fmt.Sprintf("well-formed command %q got no single well-formed reply within 12 s: %v", args, err)
				r.newVictim()
				if b := r.bystander(); b != "" {
					w += "; and " + b
				}
				return w, nil
			}
		}
	} else {
		raw := unhex(cs.Raw)
		r.victim.SendRaw(raw)
		time.Sleep(15 * time.Millisecond)
		if w := died(fmt.Sprintf("raw bytes %q", raw), false); w != "" {
			return w, nil
		}
		// the stream may be desynchronised now: use a fresh victim next time
		if err := r.newVictim(); err != nil {
			return "", err
		}
	}
	if b := r.bystander(); b != "" {
		if w := died("afterwards", true); w != "" {
			return w, nil
		}
		return fmt.Sprintf("after %v: %s", cs, b), nil
	}
	return "", nil
}

func genC13Raw(g *rand.Rand) []byte {
	base := genParseInput(g)
	extra := [][]byte{
		[]byte("*1\r\n$4\r\nPING\r\n"), []byte("\r\n\r\n"), []byte("*3\r\n$3\r\nSET\r\n%1\r\n+a\r\n+b\r\n~1\r\n+x\r\n"),
		[]byte("*2\r\n$3\r\nGET\r\n*1\r\n$1\r\nk\r\n"), []byte("*2\r\n$4\r\nECHO\r\n,1.5\r\n"), []byte("*2\r\n$4\r\nECHO\r\n(123456789012345678901234567890\r\n"),
		[]byte("*2\r\n$4\r\nECHO\r\n=7\r\ntxt:abc\r\n"), []byte("*2\r\n$4\r\nECHO\r\n#t\r\n"), []byte("*2\r\n$4\r\nECHO\r\n_\r\n"),
		[]byte("*2\r\n$4\r\nECHO\r\n!3\r\nerr\r\n"), []byte(">2\r\n+x\r\n:1\r\n"), []byte("|1\r\n+a\r\n+b\r\n*1\r\n$4\r\nPING\r\n"),
		[]byte("*1\r\n:5\r\n"), []byte("*0\r\n"), []byte("*-1\r\n"), []byte("$?\r\n;3\r\nabc\r\n;0\r\n"), []byte("*?\r\n:1\r\n.\r\n"),
		[]byte("*2\r\n$4\r\nECHO\r\n%1\r\n*1\r\n:1\r\n:2\r\n"), []byte("*1\r\n$-5\r\n"), []byte("*2\r\n$6\r\nSELECT\r\n:1\r\n"),
		[]byte("*2\r\n$3\r\nGET\r\n$-1\r\n"), []byte("*2\r\n$5\r\nHELLO\r\n:3\r\n"),
	}
	if g.Intn(2) == 0 {
		return append(base, extra[g.Intn(len(extra))]...)
	}
	return extra[g.Intn(len(extra))]
}

func runC13(cfg runCfg, res *Result) error {
	g := rand.New(rand.NewSource(cfg.seed))
	r := &c13Runner{}
	if err := r.setup(); err != nil {
		return err
	}
	defer func() { r.srv.Kill() }()
	// the command names come from the server itself
	var names []string
	n, err := r.by.Do(5*time.Second, bs("COMMAND", "LIST")...)
	if err != nil || n.Kind != '*' {
		return fmt.Errorf("COMMAND LIST failed: %v", err)
	}
	for _, e := range n.Elems {
		nm := string(e.Str)
		if !strings.Contains(nm, "|") && !c13Skip[nm] {
			names = append(names, nm)
		}
	}
	report := func(why string, cs c13Case) {
		os.MkdirAll(cfg.replayDir, 0o755)
		path := filepath.Join(cfg.replayDir, fmt.Sprintf("C13-seed%d-%d.json", cfg.seed, len(res.Mismatches)+1))
		b, _ := json.MarshalIndent(map[string]any{"property": "C13", "kind": "hostile-input", "seed": cfg.seed, "why": why, "case": cs,
			"readable": fmt.Sprintf("%q %q", unhexs(cs.Args), unhex(cs.Raw))}, "", " ")
		os.WriteFile(path, b, 0o644)
		res.Mismatches = append(res.Mismatches, &Mismatch{Index: -1, Op: "hostile-input", Why: why})
		res.Replays = append(res.Replays, path)
	}
	if cfg.replay != "" {
		b, err := os.ReadFile(cfg.replay)
		if err != nil {
			return err
		}
		var rp struct {
			Case c13Case `json:"case"`
		}
		if err := json.Unmarshal(b, &rp); err != nil {
			return err
		}
		why, err := r.run(rp.Case)
		if err != nil {
			return err
		}
		res.Histories = 1
		if why != "" {
			res.Mismatches = append(res.Mismatches, &Mismatch{Index: -1, Op: "hostile-input", Why: why})
		}
		return nil
	}
	cmds, raws := 3600, 500
	if cfg.tier == "thorough" {
		cmds, raws = 30000, 8000
	}
	// known findings of this property must not mask different ones: the signature is the failing command name
	listed := loadFindings("")
	seenWhy := map[string]bool{}
	// witness of the listed finding "dict-table-blowup": the table keeps one item per bucket and doubles until
	// two keys separate, so two keys whose hashes agree in their low 23 bits need 2^24 buckets; 50 000 ordinary
	// keys need more memory than any machine has
	if res.KnownActive == nil {
		res.KnownActive = map[string]string{}
		res.KnownHits = map[string]int{}
	}
	{
		r.victim.Do(3*time.Second, bs("FLUSHALL")...)
		r.victim.Do(10*time.Second, bs("SET", "w3483", "x")...)
		r.victim.Do(20*time.Second, bs("SET", "w5152", "y")...)
		line, err := r.srv.Ctl("DUMP 0 0", 20*time.Second)
		var d struct{ Layout struct{ LogSize, Count int } }
		if err == nil && json.Unmarshal([]byte(line), &d) == nil && d.Layout.Count == 2 && d.Layout.LogSize >= 20 {
			why := fmt.Sprintf("SET w3483 x; SET w5152 y: the keyspace table of 2 keys has 2^%d buckets", d.Layout.LogSize)
			known := false
			for _, lf := range listed {
				if lf.ID == "dict-table-blowup" {
					res.KnownActive[lf.ID] = lf.Text + " [" + why + "]"
					res.KnownHits[lf.ID]++
					known = true
				}
			}
			if !known {
				os.MkdirAll(cfg.replayDir, 0o755)
				path := filepath.Join(cfg.replayDir, fmt.Sprintf("C13-seed%d-table.json", cfg.seed))
				b, _ := json.MarshalIndent(map[string]any{"property": "C13", "kind": "hostile-input", "seed": cfg.seed, "why": why}, "", " ")
				os.WriteFile(path, b, 0o644)
				res.Mismatches = append(res.Mismatches, &Mismatch{Index: -1, Op: "hostile-input", Why: why})
				res.Replays = append(res.Replays, path)
			}
		}
		r.victim.Do(20*time.Second, bs("FLUSHALL")...)
		if err := r.setup(); err != nil {
			return err
		}
	}
	// systematic part: every template with integer positions x the extreme values, all positions at once and
	// one position at a time (the random part below reaches a given template/value pair only by chance)
	var sweep []c13Case
	{
		extremes := []string{"9223372036854775807", "-9223372036854775808", "9223372036854775806", "4611686018427387904", "4294967296", "-1"}
		keys := []string{"ka", "kl", "kh", "ks", "kmissing", "k1"}
		n := 0
		for _, t := range c13Templates {
			var pos []int
			for i, a := range t {
				if a == "I" || a == "#I" {
					pos = append(pos, i)
				}
			}
			if len(pos) == 0 {
				continue
			}
			for _, x := range extremes {
				for variant := 0; variant <= len(pos)+1; variant++ {
					if variant > 0 && variant <= len(pos) && len(pos) == 1 {
						continue
					}
					args := make([]string, len(t))
					for i, a := range t {
						switch a {
						case "K":
							args[i] = keys[n%len(keys)]
							if variant == len(pos)+1 {
								// once more with a key of the type the command works on
								switch nm := t[0]; {
								case strings.HasPrefix(nm, "l") && nm != "lcs", strings.HasPrefix(nm, "r") && nm != "rename" && nm != "restore", strings.HasPrefix(nm, "bl"), strings.HasPrefix(nm, "br"):
									args[i] = "kl"
								case strings.HasPrefix(nm, "h") && nm != "hello":
									args[i] = "kh"
								case strings.HasPrefix(nm, "s") && nm != "set" && nm != "setrange" && nm != "setbit" && nm != "setex" && nm != "substr" && nm != "sort" && nm != "scan" && nm != "select" && nm != "strlen":
									args[i] = "ks"
								default:
									args[i] = "ka"
								}
							}
						case "F":
							args[i] = "0.01"
						case "P":
							args[i] = "*"
						case "I", "#I":
							v := "0"
							if variant == 0 || variant == len(pos)+1 || pos[variant-1] == i {
								v = x
							}
							if a == "#I" {
								v = "#" + v
							}
							args[i] = v
						default:
							args[i] = a
						}
					}
					n++
					sweep = append(sweep, c13Case{Kind: "cmd", Args: hexs(args...)})
				}
			}
		}
		res.Extra["extreme_value_sweep"] = len(sweep)
	}
	for i := -len(sweep); i < cmds+raws && len(res.Mismatches) < 6; i++ {
		var cs c13Case
		if i < 0 {
			cs = sweep[len(sweep)+i]
			res.CmdHist[strings.ToLower(string(unhex(cs.Args[0])))]++
		} else if i < cmds && i%2 == 1 {
			// integer-taking commands, filled from the table of extreme values
			t := c13Templates[g.Intn(len(c13Templates))]
			args := c13Fill(g, t)
			cs = c13Case{Kind: "cmd", Args: hexs(args...)}
			res.CmdHist[strings.ToLower(args[0])]++
		} else if i < cmds {
			name := names[g.Intn(len(names))]
			args := []string{name}
			keysPool := []string{"ka", "kl", "kh", "ks", "kmissing", "ke", "kz", "kn", "k1", "kx"}
			numPool := []string{"0", "1", "-1", "2", "5", "9223372036854775807", "-9223372036854775808", "9223372036854775808",
				"2147483648", "4294967296", "4000000000000000000", "-4000000000000000000", "1e308", "nan", "inf", "3.5", "", "abc"}
			for j := 0; j < g.Intn(7); j++ {
				switch x := g.Intn(100); {
				case j == 0 && x < 85:
					args = append(args, keysPool[g.Intn(len(keysPool))])
				case x < 45:
					args = append(args, numPool[g.Intn(len(numPool))])
				case x < 60:
					args = append(args, keysPool[g.Intn(len(keysPool))])
				default:
					args = append(args, c13Args[g.Intn(len(c13Args))])
				}
			}
			cs = c13Case{Kind: "cmd", Args: hexs(args...)}
			res.CmdHist[name]++
		} else {
			cs = c13Case{Kind: "raw", Raw: hexArgNE(genC13Raw(g))}
			res.CmdHist["(raw bytes)"]++
		}
		res.Histories++
		res.Steps++
		if len(res.Samples) < 4 && i >= 0 && i%300 == 0 {
			res.Samples = append(res.Samples, fmt.Sprintf("%s %q %q", cs.Kind, unhexs(cs.Args), unhex(cs.Raw)))
		}
		why, err := r.run(cs)
		if err != nil {
			return err
		}
		if r.late != "" {
			prev := r.prev
			_ = prev
			lateWhy := r.late
			r.late = ""
			report(lateWhy, c13Case{Kind: "late-death"})
		}
		if why == "" {
			continue
		}
		key := cs.Kind
		if len(cs.Args) > 0 {
			key = strings.ToLower(string(unhex(cs.Args[0])))
		}
		m := &Mismatch{Index: 0, Op: key, Why: why, History: History{Ops: []Op{{Conn: 1, Args: cs.Args}}}}
		if id := explainMismatch(listed, m); id != "" {
			if res.KnownHits == nil {
				res.KnownHits = map[string]int{}
			}
			res.KnownHits[id]++
			continue
		}
		if seenWhy[key] {
			continue
		}
		seenWhy[key] = true
		report(why, cs)
	}
	res.Distinct = res.Histories
	res.Extra["server_restarts"] = r.restarts - 1
	res.Extra["slow_replies_over_1500ms"] = r.slow
	res.Extra["command_names"] = len(names)
	return nil
}

func init() {
	streams["C13"] = runC13
	specialReplay["C13"] = true
}
