package main

// C01: framing independence and binary safety over raw TCP, and the request
// deserializer (verif accessor PARSE) against the RespParse.v model.
// C13: hostile input — process survival, bystander service, one reply per command.

import (
	"bytes"
	"encoding/json"
	"fmt"
	"math/rand"
	"os"
	"path/filepath"
	"strconv"
	"strings"
	"time"
)

type rawCase struct {
	Cmds    [][]string `json:"cmds_hex"` // each command: hex args
	Cuts    []int      `json:"cuts,omitempty"`
	GapMs   int        `json:"gap_ms,omitempty"`
	Stall   int        `json:"stall_after_byte,omitempty"`
	Blocked bool       `json:"sent_while_blocked,omitempty"`
}

func hexs(args ...string) []string {
	out := make([]string, len(args))
	for i, a := range args {
		out[i] = hexArg([]byte(a))
	}
	return out
}

func unhexs(h []string) [][]byte {
	out := make([][]byte, len(h))
	for i, a := range h {
		out[i] = unhex(a)
	}
	return out
}

var c01Hostile = []string{"", "a\r\nb", "\r\n", "\x00\xff\xfe", "$5\r\nhello\r\n", "+OK\r\n-ERR x\r\n", "*2\r\n", "\xc3\x28", "caf\xc3\xa9", "plain", "0", "-1",
	// well-formed multi-byte UTF-8: lengths are bytes, not characters
	"\xc3\xa9", "\xe2\x82\xacuro", "\xe6\x97\xa5\xe6\x9c\xac\xe8\xaa\x9e", "a\xf0\x9f\x98\x80b\r\n", "h\xc3\xa9\xe2\x82\xac\xf0\x9f\x98\x80\x00\xff"}

func genC01Pipeline(g *rand.Rand, n int, big bool) [][]string {
	val := func() string {
		if big && g.Intn(8) == 0 {
			b := make([]byte, 9000+g.Intn(12000))
			for i := range b {
				b[i] = byte(g.Intn(256))
			}
			return string(b)
		}
		return c01Hostile[g.Intn(len(c01Hostile))]
	}
	key := func() string { return []string{"ka", "kb", "k\r\nc", "k\x00d"}[g.Intn(4)] }
	var cmds [][]string
	for i := 0; i < n; i++ {
		switch g.Intn(16) {
		case 0:
			cmds = append(cmds, hexs("ECHO", val()))
		case 1:
			cmds = append(cmds, hexs("SET", key(), val()))
		case 2:
			cmds = append(cmds, hexs("GET", key()))
		case 3:
			cmds = append(cmds, hexs("APPEND", key(), val()))
		case 4:
			cmds = append(cmds, hexs("RPUSH", "l"+key(), val(), val()))
		case 5:
			cmds = append(cmds, hexs("LRANGE", "l"+key(), "0", "-1"))
		case 6:
			cmds = append(cmds, hexs("HSET", "h"+key(), val(), val()))
		case 7:
			cmds = append(cmds, hexs("HGET", "h"+key(), val()))
		case 8:
			cmds = append(cmds, hexs("SADD", "s"+key(), val()))
		case 9:
			cmds = append(cmds, hexs("SISMEMBER", "s"+key(), val()))
		case 10:
			cmds = append(cmds, hexs("NOSUCH"+val(), val())) // unknown command quoting client bytes
		case 11:
			cmds = append(cmds, hexs("GET")) // arity error
		case 12:
			cmds = append(cmds, hexs("CLIENT", "BOGUS"+val()))
		case 13:
			cmds = append(cmds, hexs("PING"))
		case 14:
			cmds = append(cmds, hexs("STRLEN", key()))
		default:
			cmds = append(cmds, hexs("GETRANGE", key(), "0", "2"))
		}
	}
	return cmds
}

type c01Runner struct {
	srv *Server
	mdl *Model
}

func (r *c01Runner) fresh() (*Conn, error) {
	if !r.srv.Alive() {
		return nil, fmt.Errorf("server died: %s", tail(r.srv.Stderr(), 800))
	}
	c, err := dial(r.srv.Port)
	if err != nil {
		return nil, err
	}
	if _, err := c.Do(3*time.Second, []byte("FLUSHALL")); err != nil {
		c.Close()
		return nil, err
	}
	c.Raw.Reset()
	return c, nil
}

// baseline: one command per write; returns raw reply bytes per command, and checks each against the model
func (r *c01Runner) baseline(cmds [][]string) ([][]byte, string, error) {
	c, err := r.fresh()
	if err != nil {
		return nil, "", err
	}
	defer c.Close()
	if err := r.mdl.Reset(); err != nil {
		return nil, "", err
	}
	var raws [][]byte
	for i, h := range cmds {
		args := unhexs(h)
		before := c.Raw.Len()
		g, err := c.Do(4*time.Second, args...)
		if err != nil {
			return nil, fmt.Sprintf("command %d %q: no single well-formed reply: %v (received %q)", i, args, err, tailBytes(c.Raw.Bytes()[before:], 80)), nil
		}
		ms, _, merr := r.mdl.Step(1, time.Now().UnixNano(), args)
		if merr != nil {
			return nil, "", merr
		}
		if err := matchReply(ms, g, CmpCtx{Resp: 2, SlackMs: 50}); err != nil {
			return nil, fmt.Sprintf("command %d %q: %v", i, args, err), nil
		}
		raws = append(raws, append([]byte{}, c.Raw.Bytes()[before:]...))
	}
	// nothing more may arrive
	c.c.SetReadDeadline(time.Now().Add(30 * time.Millisecond))
	if b, err := c.r.Peek(1); err == nil {
		return nil, fmt.Sprintf("unsolicited bytes after the last reply: %q", b), nil
	}
	return raws, "", nil
}

func tailBytes(b []byte, n int) []byte {
	if len(b) > n {
		return b[len(b)-n:]
	}
	return b
}

// send the whole pipeline cut at the given offsets; read exactly n replies; return raw bytes
func (r *c01Runner) chunked(cmds [][]string, cuts []int, gapMs int) ([]byte, string, error) {
	c, err := r.fresh()
	if err != nil {
		return nil, "", err
	}
	defer c.Close()
	var stream []byte
	for _, h := range cmds {
		stream = append(stream, encodeCmd(unhexs(h))...)
	}
	errc := make(chan error, 1)
	go func() {
		prev := 0
		for _, cut := range append(append([]int{}, cuts...), len(stream)) {
			if cut <= prev || cut > len(stream) {
				continue
			}
			if err := c.SendRaw(stream[prev:cut]); err != nil {
				errc <- err
				return
			}
			prev = cut
			if gapMs > 0 {
				time.Sleep(time.Duration(gapMs) * time.Millisecond)
			}
		}
		errc <- nil
	}()
	for i := range cmds {
		if _, err := c.Read(6 * time.Second); err != nil {
			return nil, fmt.Sprintf("reply %d of %d missing or malformed with cuts %v: %v (received so far %q)", i, len(cmds), cuts, err, tailBytes(c.Raw.Bytes(), 80)), nil
		}
	}
	<-errc
	got := append([]byte{}, c.Raw.Bytes()...)
	c.c.SetReadDeadline(time.Now().Add(30 * time.Millisecond))
	if b, err := c.r.Peek(1); err == nil {
		return nil, fmt.Sprintf("unsolicited bytes after the last reply: %q", b), nil
	}
	return got, "", nil
}

// a peer that stalls in the middle of the stream: after the bytes up to cut have been sent, exactly the replies
// of the commands that are complete in that prefix must arrive (the rest of the stream is sent only after
// they have been read), nothing more before the rest is sent, and the total must equal the baseline
func (r *c01Runner) stalled(cmds [][]string, cut int, raws [][]byte) (string, error) {
	c, err := r.fresh()
	if err != nil {
		return "", err
	}
	defer c.Close()
	var stream []byte
	complete := 0
	for _, h := range cmds {
		stream = append(stream, encodeCmd(unhexs(h))...)
		if len(stream) <= cut {
			complete++
		}
	}
	if cut <= 0 || cut >= len(stream) {
		return "", nil
	}
	if err := c.SendRaw(stream[:cut]); err != nil {
		return "", err
	}
	for i := 0; i < complete; i++ {
		if _, err := c.Read(3 * time.Second); err != nil {
			return fmt.Sprintf("peer stalls after byte %d (%d complete commands sent, then %d bytes of the next): reply %d was not written while the peer stalled: %v (received so far %q)",
				cut, complete, cut-len(bytes.Join(rawsLen(cmds[:complete]), nil)), i, err, tailBytes(c.Raw.Bytes(), 80)), nil
		}
	}
	want := bytes.Join(raws[:complete], nil)
	if got := c.Raw.Bytes(); !bytes.Equal(got, want) {
		return fmt.Sprintf("peer stalls after byte %d: the replies to the %d complete commands differ from one-command-per-write (%d bytes vs %d)", cut, complete, len(got), len(want)), nil
	}
	c.c.SetReadDeadline(time.Now().Add(20 * time.Millisecond))
	if b, err := c.r.Peek(1); err == nil {
		return fmt.Sprintf("peer stalls after byte %d: bytes %q arrive for a command that has not been sent completely", cut, b), nil
	}
	if err := c.SendRaw(stream[cut:]); err != nil {
		return "", err
	}
	for i := complete; i < len(cmds); i++ {
		if _, err := c.Read(6 * time.Second); err != nil {
			return fmt.Sprintf("after a stall at byte %d reply %d of %d is missing or malformed: %v", cut, i, len(cmds), err), nil
		}
	}
	if got, all := c.Raw.Bytes(), bytes.Join(raws, nil); !bytes.Equal(got, all) {
		return fmt.Sprintf("after a stall at byte %d the reply bytes differ from one-command-per-write (%d bytes vs %d)", cut, len(got), len(all)), nil
	}
	return "", nil
}

// the pipeline arrives while the connection is blocked in BLPOP (the server reads ahead to notice a closed
// peer): after the block ends, every pipelined command is answered, in order, with the baseline's bytes
func (r *c01Runner) whileBlocked(cmds [][]string, cuts []int, gapMs int, raws [][]byte) (string, error) {
	c, err := r.fresh()
	if err != nil {
		return "", err
	}
	defer c.Close()
	if err := c.Send(bs("BLPOP", "c01-blocked-on", "0")); err != nil {
		return "", err
	}
	queued := false
	for t := 0; t < 200 && !queued; t++ {
		line, err := r.srv.Ctl("DUMP 0 0", 2*time.Second)
		if err == nil {
			var d struct{ Waiters map[string]int }
			if json.Unmarshal([]byte(line), &d) == nil && d.Waiters["c01-blocked-on"] >= 1 {
				queued = true
			}
		}
		if !queued {
			time.Sleep(5 * time.Millisecond)
		}
	}
	if !queued {
		return "", fmt.Errorf("BLPOP never registered")
	}
	var stream []byte
	for _, h := range cmds {
		stream = append(stream, encodeCmd(unhexs(h))...)
	}
	prev := 0
	for _, cut := range append(append([]int{}, cuts...), len(stream)) {
		if cut <= prev || cut > len(stream) {
			continue
		}
		if err := c.SendRaw(stream[prev:cut]); err != nil {
			return "", err
		}
		prev = cut
		time.Sleep(time.Duration(gapMs) * time.Millisecond)
	}
	b, err := dial(r.srv.Port)
	if err != nil {
		return "", err
	}
	b.Do(3*time.Second, bs("RPUSH", "c01-blocked-on", "x")...)
	b.Close()
	if n, err := c.Read(4 * time.Second); err != nil || n.Kind != '*' || len(n.Elems) != 2 || string(n.Elems[1].Str) != "x" {
		return fmt.Sprintf("BLPOP with %d bytes pipelined behind it (cuts %v) was not completed by the push: %v", len(stream), cuts, err), nil
	}
	for i := range cmds {
		if _, err := c.Read(6 * time.Second); err != nil {
			return fmt.Sprintf("%d commands sent in %d segments while the connection was blocked in BLPOP: reply %d is missing or malformed: %v (received %q)", len(cmds), len(cuts)+1, i, err, tailBytes(c.Raw.Bytes(), 80)), nil
		}
	}
	if got, all := c.Raw.Bytes(), append([]byte("*2\r\n$14\r\nc01-blocked-on\r\n$1\r\nx\r\n"), bytes.Join(raws, nil)...); !bytes.Equal(got, all) {
		return fmt.Sprintf("%d commands sent in %d segments while the connection was blocked in BLPOP: the reply bytes differ from one-command-per-write (%d bytes vs %d)", len(cmds), len(cuts)+1, len(got), len(all)), nil
	}
	return "", nil
}

func rawsLen(cmds [][]string) [][]byte {
	var out [][]byte
	for _, h := range cmds {
		out = append(out, encodeCmd(unhexs(h)))
	}
	return out
}

func runC01(cfg runCfg, res *Result) error {
	g := rand.New(rand.NewSource(cfg.seed))
	srv, err := startServer("")
	if err != nil {
		return err
	}
	defer srv.Kill()
	mdl, err := startModel(cfg.modelPath)
	if err != nil {
		return err
	}
	defer mdl.Close()
	r := &c01Runner{srv: srv, mdl: mdl}
	report := func(kind, why string, payload any) {
		os.MkdirAll(cfg.replayDir, 0o755)
		path := filepath.Join(cfg.replayDir, fmt.Sprintf("C01-seed%d-%d.json", cfg.seed, len(res.Mismatches)+1))
		b, _ := json.MarshalIndent(map[string]any{"property": "C01", "kind": kind, "seed": cfg.seed, "why": why, "case": payload}, "", " ")
		os.WriteFile(path, b, 0o644)
		res.Mismatches = append(res.Mismatches, &Mismatch{Index: -1, Op: kind, Why: why})
		res.Replays = append(res.Replays, path)
	}
	var stallCuts []int
	var blockedCuts [][]int
	stalls, blockedRuns := 0, 0
	checkPipeline := func(cmds [][]string, cutSets [][]int, gaps []int) (string, any, error) {
		raws, why, err := r.baseline(cmds)
		if err != nil {
			return "", nil, err
		}
		if why != "" {
			return why, rawCase{Cmds: cmds}, nil
		}
		want := bytes.Join(raws, nil)
		for i, cuts := range cutSets {
			got, why, err := r.chunked(cmds, cuts, gaps[i%len(gaps)])
			if err != nil {
				return "", nil, err
			}
			if why != "" {
				return why, rawCase{Cmds: cmds, Cuts: cuts, GapMs: gaps[i%len(gaps)]}, nil
			}
			res.Steps += len(cmds)
			if !bytes.Equal(got, want) {
				d := 0
				for d < len(got) && d < len(want) && got[d] == want[d] {
					d++
				}
				return fmt.Sprintf("reply bytes depend on the segmentation: cuts %v give %d bytes, one-command-per-write gives %d; first difference at byte %d", cuts, len(got), len(want), d),
					rawCase{Cmds: cmds, Cuts: cuts, GapMs: gaps[i%len(gaps)]}, nil
			}
		}
		for _, cuts := range blockedCuts {
			why, err := r.whileBlocked(cmds, cuts, 12, raws)
			if err != nil {
				return "", nil, err
			}
			blockedRuns++
			if why != "" {
				return why, rawCase{Cmds: cmds, Cuts: cuts, Blocked: true}, nil
			}
		}
		for _, cut := range stallCuts {
			why, err := r.stalled(cmds, cut, raws)
			if err != nil {
				return "", nil, err
			}
			stalls++
			if why != "" {
				return why, rawCase{Cmds: cmds, Stall: cut}, nil
			}
		}
		return "", nil, nil
	}

	if cfg.replay != "" {
		b, err := os.ReadFile(cfg.replay)
		if err != nil {
			return err
		}
		var rp struct {
			Kind string          `json:"kind"`
			Case json.RawMessage `json:"case"`
		}
		if err := json.Unmarshal(b, &rp); err != nil {
			return err
		}
		res.Histories = 1
		if rp.Kind == "parse" {
			var pc struct {
				Hex string `json:"hex"`
			}
			json.Unmarshal(rp.Case, &pc)
			if why, _ := r.parseOne(unhex(pc.Hex)); why != "" {
				res.Mismatches = append(res.Mismatches, &Mismatch{Index: -1, Op: "parse", Why: why})
			}
			return nil
		}
		var rc rawCase
		json.Unmarshal(rp.Case, &rc)
		cutSets := [][]int{{}}
		if len(rc.Cuts) > 0 {
			cutSets = append(cutSets, rc.Cuts)
		}
		if rc.Stall > 0 {
			stallCuts = []int{rc.Stall}
		}
		if rc.Blocked {
			blockedCuts = [][]int{rc.Cuts}
			cutSets = [][]int{{}}
		}
		why, _, err := checkPipeline(rc.Cmds, cutSets, []int{rc.GapMs})
		if err != nil {
			return err
		}
		if why != "" {
			res.Mismatches = append(res.Mismatches, &Mismatch{Index: -1, Op: "framing", Why: why})
		}
		return nil
	}

	pipelines, parses := 25, 1500
	if cfg.tier == "thorough" {
		pipelines, parses = 300, 40000
	}
	for i := 0; i < pipelines && len(res.Mismatches) < 3; i++ {
		n := 2 + g.Intn(10)
		cmds := genC01Pipeline(g, n, i%3 == 0)
		var stream []byte
		for _, h := range cmds {
			stream = append(stream, encodeCmd(unhexs(h))...)
		}
		cutSets := [][]int{{}} // one write for everything
		// one byte at a time for short streams, every k bytes, random cut sets
		if len(stream) < 400 || (cfg.tier == "thorough" && len(stream) < 3000) {
			var all []int
			for p := 1; p < len(stream); p++ {
				all = append(all, p)
			}
			cutSets = append(cutSets, all)
		}
		for k := 0; k < 4; k++ {
			var cs []int
			p := 0
			for {
				p += 1 + g.Intn(1+len(stream)/(2+g.Intn(6)))
				if p >= len(stream) {
					break
				}
				cs = append(cs, p)
			}
			cutSets = append(cutSets, cs)
		}
		if cfg.tier == "thorough" && len(stream) <= 220 {
			// every single split offset
			for p := 1; p < len(stream); p++ {
				cutSets = append(cutSets, []int{p})
			}
		}
		// stalls: the peer stops inside a later command (mid-header, mid-argument, between CR and LF)
		stallCuts = nil
		ns := 5
		if cfg.tier == "thorough" {
			ns = 12
		}
		first := len(encodeCmd(unhexs(cmds[0])))
		for k := 0; k < ns && first+1 < len(stream); k++ {
			stallCuts = append(stallCuts, first+1+g.Intn(len(stream)-first-1))
		}
		// the same stream sent while the connection is blocked: in one piece, in two, in many
		blockedCuts = nil
		if i%2 == 0 || cfg.tier == "thorough" {
			blockedCuts = [][]int{{}, {len(stream) / 2}}
			var many []int
			for p := 5 + g.Intn(9); p < len(stream) && len(many) < 12; p += 1 + g.Intn(1+len(stream)/6) {
				many = append(many, p)
			}
			blockedCuts = append(blockedCuts, many)
		}
		res.Histories++
		if len(res.Samples) < 2 {
			res.Samples = append(res.Samples, fmt.Sprintf("pipeline of %d commands, %d bytes, %d segmentations; first command %q", n, len(stream), len(cutSets), unhexs(cmds[0])))
		}
		why, payload, err := checkPipeline(cmds, cutSets, []int{0, 0, 1, 3})
		if err != nil {
			return err
		}
		if why != "" {
			report("framing", why, payload)
		}
	}
	res.Extra["pipelines"] = res.Histories
	res.Extra["stalled_peer_runs"] = stalls
	res.Extra["sent_while_blocked_runs"] = blockedRuns

	// request deserializer vs model
	np := 0
	for i := 0; i < parses && len(res.Mismatches) < 3; i++ {
		b := genParseInput(g)
		why, err := r.parseOne(b)
		if err != nil {
			return err
		}
		np++
		if why != "" {
			report("parse", why, map[string]string{"hex": hexArg(b)})
		}
	}
	res.Extra["parse_inputs"] = np
	res.Steps += np
	res.Distinct = res.Histories + np
	res.Histories += np
	res.CmdHist["pipeline commands sent (all segmentations)"] = res.Steps - np
	res.CmdHist["deserializer inputs"] = np
	return nil
}

func genParseInput(g *rand.Rand) []byte {
	frag := func() []byte {
		switch g.Intn(14) {
		case 0:
			return encodeCmd(bs("GET", "k"))
		case 1:
			return encodeCmd([][]byte{[]byte("SET"), []byte("a\r\nb"), {0, 255}})
		case 2:
			return []byte("+OK\r\n")
		case 3:
			return []byte(":" + []string{"0", "-5", "9223372036854775807", "9223372036854775808", "abc", ""}[g.Intn(6)] + "\r\n")
		case 4:
			return []byte("$" + []string{"-1", "0", "3", "99999999999999", "9223372036854775807", "-9223372036854775808", "x", "+3"}[g.Intn(8)] + "\r\nabc\r\n")
		case 5:
			return []byte("*" + []string{"-1", "0", "1", "2", "99999999999999", "9223372036854775807", "x"}[g.Intn(7)] + "\r\n")
		case 6:
			return []byte("\r\n")
		case 7:
			return []byte("%1\r\n+k\r\n:1\r\n")
		case 8:
			return []byte("%1\r\n*1\r\n:1\r\n:2\r\n") // aggregate as map key
		case 9:
			return []byte("~2\r\n+a\r\n*0\r\n") // aggregate as set member
		case 10:
			return []byte("_\r\n#t\r\n#f\r\n")
		case 11:
			return []byte("PING\r\n")
		case 12:
			if g.Intn(2) == 0 {
				// streamed strings and aggregates: chunk headers with every kind of length
				n := []string{"-3", "-2", "-1", "0", "1", "3", "4", "99", "x", "", "+3", "9223372036854775807", "-9223372036854775808"}[g.Intn(13)]
				switch g.Intn(5) {
				case 0:
					return []byte("$?\r\n;" + n + "\r\nabc\r\n;0\r\n")
				case 1:
					return []byte("*2\r\n$4\r\nECHO\r\n$?\r\n;" + n + "\r\n;0\r\n")
				case 2:
					return []byte("!?\r\n;" + n + "\r\nerr\r\n;0\r\n")
				case 3:
					return []byte("$?\r\n;3\r\nabc\r\n;" + n + "\r\nxy\r\n;0\r\n")
				default:
					return []byte("*?\r\n$?\r\n;" + n + "\r\nab\r\n;0\r\n.\r\n")
				}
			}
			return []byte("~1\r\n$1\r\nx\r\n")
		default:
			n := g.Intn(6)
			b := make([]byte, n)
			for i := range b {
				b[i] = "*$:+-\r\n01%~_#"[g.Intn(13)]
			}
			return b
		}
	}
	var b []byte
	for i := 0; i <= g.Intn(3); i++ {
		b = append(b, frag()...)
	}
	switch g.Intn(4) {
	case 0: // truncate
		if len(b) > 0 {
			b = b[:g.Intn(len(b)+1)]
		}
	case 1: // mutate a byte
		if len(b) > 0 {
			b[g.Intn(len(b))] = "*$:+-\r\n019"[g.Intn(10)]
		}
	}
	return b
}

// compare Go's deserializeNext with the model's parse on one buffer
func (r *c01Runner) parseOne(b []byte) (string, error) {
	line, err := r.srv.Ctl("PARSE "+hexArgNE(b), 5*time.Second)
	if err != nil {
		if !r.srv.Alive() {
			return "emulator process died in the deserializer: " + tail(r.srv.Stderr(), 400), nil
		}
		return "", err
	}
	// "<valid> <length> <"panic text"> <render>"
	f := strings.SplitN(line, " ", 3)
	if len(f) < 3 {
		return "", fmt.Errorf("bad PARSE answer %q", line)
	}
	valid := f[0] == "true"
	length, _ := strconv.Atoi(f[1])
	rest := f[2]
	panicked := !strings.HasPrefix(rest, `""`)
	render := ""
	if i := strings.Index(rest, `" `); i >= 0 {
		render = strings.TrimSpace(rest[i+2:])
	}
	if panicked {
		return fmt.Sprintf("the deserializer panicked on %q: %s", b, rest), nil
	}
	ml, err := r.mdl.line("P " + hexArgNE(b))
	if err != nil {
		return "", err
	}
	switch {
	case ml == "Unsupported":
		return "", nil // outside the modelled subset: only "no panic" is checked
	case ml == "Panic":
		return "model reached a panic site (should be impossible)", nil
	case ml == "Invalid":
		if valid {
			return fmt.Sprintf("deserializer accepts %q (length %d, %s) but the model says incomplete/malformed", b, length, render), nil
		}
	case strings.HasPrefix(ml, "Done "):
		mf := strings.SplitN(ml, " ", 3)
		mlen, _ := strconv.Atoi(mf[1])
		mr := strings.ReplaceAll(mf[2], "-)", ")") // empty strings: "-" in the model's hex, "" in Go's
		mr = strings.ReplaceAll(mr, " )", ")")
		gr := strings.ReplaceAll(render, " )", ")")
		if !valid {
			return fmt.Sprintf("deserializer rejects %q but the model parses %d bytes: %s", b, mlen, mr), nil
		}
		if mlen != length || normRender(mr) != normRender(gr) {
			return fmt.Sprintf("deserializer and model disagree on %q: model (%d) %s, emulator (%d) %s", b, mlen, mr, length, gr), nil
		}
	}
	return "", nil
}

func normRender(s string) string {
	s = strings.ReplaceAll(s, "(bulk -)", "(bulk)")
	s = strings.ReplaceAll(s, "(bulk )", "(bulk)")
	s = strings.ReplaceAll(s, "(simple -)", "(simple)")
	s = strings.ReplaceAll(s, "(simple )", "(simple)")
	s = strings.ReplaceAll(s, "(err -)", "(err)")
	s = strings.ReplaceAll(s, "(err )", "(err)")
	return strings.Join(strings.Fields(s), " ")
}

func hexArgNE(b []byte) string {
	if len(b) == 0 {
		return "-"
	}
	return hexArg(b)
}

func init() {
	streams["C01"] = runC01
	specialReplay["C01"] = true
}
