package main

// Known findings: genuine defects of the emulator that are recorded rather than
// repaired (see /verif/known-findings.txt). Each has (a) a witness history under
// /verif/findings/<id>.json that is replayed on every run and must still fail for
// the KNOWN-FINDING line to be printed, and (b) a narrow signature used to
// recognise the same defect when a random history runs into it. A mismatch that
// matches no signature of a listed finding is a violation.

import (
	"bufio"
	"encoding/json"
	"os"
	"path/filepath"
	"strings"
)

type findingSig func(m *Mismatch, args [][]byte) bool

var signatures = map[string]findingSig{
	// GETRANGE/SUBSTR with a negative end index before the start of the string: the
	// emulator returns "" where Redis clamps the index to 0 (the repository's own test
	// asserts the emulator's behaviour, so it cannot be repaired here).
	"getrange-negative-end-clamp": func(m *Mismatch, args [][]byte) bool {
		if len(args) != 4 {
			return false
		}
		name := strings.ToLower(string(args[0]))
		if name != "getrange" && name != "substr" {
			return false
		}
		return strings.HasPrefix(string(args[3]), "-") && strings.Contains(m.Why, "bulk string differs") && strings.HasSuffix(strings.TrimSpace(m.Why), `emulator $""`)
	},
}

func init() {
	// SET key value with all three option groups (NX|XX, GET, EX|PX|EXAT|PXAT|KEEPTTL): some orders of the
	// groups are rejected by the grammar-driven argument parser (e.g. NX EX 100 GET, KEEPTTL GET XX).
	signatures["set-option-order"] = func(m *Mismatch, args [][]byte) bool {
		if len(args) < 6 || strings.ToLower(string(args[0])) != "set" {
			return false
		}
		// all three option groups present, each once, nothing else
		cond, get, exp := 0, 0, 0
		for i := 3; i < len(args); i++ {
			switch strings.ToUpper(string(args[i])) {
			case "NX", "XX":
				cond++
			case "GET":
				get++
			case "KEEPTTL":
				exp++
			case "EX", "PX", "EXAT", "PXAT":
				exp++
				i++
			default:
				return false
			}
		}
		if cond != 1 || get != 1 || exp != 1 {
			return false
		}
		// (on a key of another type the model answers WRONGTYPE where the emulator has already rejected the arguments)
		return strings.Contains(m.Why, "Incorrect or wrong number of arguments") &&
			(!strings.Contains(m.Why, "model (err") || strings.Contains(m.Why, "model (err 57524f4e4754595045"))
	}
	// SET/GETEX ... EXAT T: the stored deadline carries the nanoseconds of the current time
	signatures["exat-deadline-nanoseconds"] = func(m *Mismatch, args [][]byte) bool {
		// the deviation shows in a later PEXPIRETIME/PTTL/TTL read of a key that was given an EXAT deadline
		if len(args) < 2 {
			return false
		}
		name := strings.ToLower(string(args[0]))
		if name != "pexpiretime" && name != "pttl" && name != "ttl" && name != "expiretime" {
			return false
		}
		usedExat := false
		for _, o := range m.History.Ops[:m.Index] {
			a := o.bytesArgs()
			if len(a) > 3 && (strings.EqualFold(string(a[0]), "set") || strings.EqualFold(string(a[0]), "getex")) && string(a[1]) == string(args[1]) {
				for _, x := range a[2:] {
					if strings.EqualFold(string(x), "EXAT") {
						usedExat = true
					}
				}
			}
		}
		return usedExat && strings.Contains(m.Why, "clock-dependent integer off by")
	}
	// LCS with an option keyword given twice (LEN LEN, IDX IDX, WITHMATCHLEN WITHMATCHLEN): redis takes
	// the options in a loop and accepts repetitions, the argument parser rejects them.
	signatures["lcs-repeated-option"] = func(m *Mismatch, args [][]byte) bool {
		if len(args) < 5 || strings.ToLower(string(args[0])) != "lcs" {
			return false
		}
		seen := map[string]int{}
		for i := 3; i < len(args); i++ {
			kw := strings.ToUpper(string(args[i]))
			switch kw {
			case "LEN", "IDX", "WITHMATCHLEN":
				seen[kw]++
			case "MINMATCHLEN":
				seen[kw]++
				i++
			default:
				return false
			}
		}
		rep := false
		for _, n := range seen {
			if n > 1 {
				rep = true
			}
		}
		return rep && strings.Contains(m.Why, "Incorrect or wrong number of arguments") && !strings.Contains(m.Why, "model (err 455252")
	}
	// INCRBYFLOAT on a key of another type with an increment that is itself refused (not a number, inf, nan):
	// Redis tests the type of the key first and answers WRONGTYPE, the emulator validates the increment in the
	// argument parser (or, for inf/nan, at the top of the handler) and answers that error.
	signatures["incrbyfloat-error-order"] = func(m *Mismatch, args [][]byte) bool {
		if len(args) != 3 || strings.ToLower(string(args[0])) != "incrbyfloat" {
			return false
		}
		return strings.Contains(m.Why, "error code differs") && strings.Contains(m.Why, "model (err 57524f4e4754595045") &&
			(strings.Contains(m.Why, "Incorrect or wrong number of arguments") || strings.Contains(m.Why, "not a valid float") || strings.Contains(m.Why, "would produce NaN or Infinity"))
	}
	// BITFIELD_RO with more than one GET is rejected by the argument parser.
	signatures["bitfield-ro-multi-get"] = func(m *Mismatch, args [][]byte) bool {
		if len(args) < 8 || strings.ToLower(string(args[0])) != "bitfield_ro" {
			return false
		}
		n := 0
		for _, a := range args[2:] {
			if strings.EqualFold(string(a), "GET") {
				n++
			}
		}
		return n >= 2 && strings.Contains(m.Why, "Incorrect or wrong number of arguments") && !strings.Contains(m.Why, "model (err")
	}
}

type listedFinding struct {
	ID, Property, Text string
}

func verifRoot() string {
	if r := os.Getenv("VERIF_ROOT"); r != "" {
		return r
	}
	return "/verif"
}

// listed findings for one property, from known-findings.txt
func loadFindings(prop string) []listedFinding {
	f, err := os.Open(filepath.Join(verifRoot(), "known-findings.txt"))
	if err != nil {
		return nil
	}
	defer f.Close()
	var out []listedFinding
	sc := bufio.NewScanner(f)
	for sc.Scan() {
		line := strings.TrimSpace(sc.Text())
		if !strings.HasPrefix(line, "finding:") {
			continue
		}
		fields := strings.Fields(line)
		lf := listedFinding{}
		rest := []string{}
		for _, fl := range fields[1:] {
			switch {
			case strings.HasPrefix(fl, "property="):
				lf.Property = fl[len("property="):]
			case strings.HasPrefix(fl, "id="):
				lf.ID = fl[len("id="):]
			default:
				rest = append(rest, fl)
			}
		}
		lf.Text = strings.Join(rest, " ")
		if lf.Property == prop || prop == "" {
			out = append(out, lf)
		}
	}
	return out
}

// which listed finding (if any) explains this mismatch
func explainMismatch(listed []listedFinding, m *Mismatch) string {
	if m.Index < 0 || m.Index >= len(m.History.Ops) {
		return ""
	}
	args := m.History.Ops[m.Index].bytesArgs()
	for _, lf := range listed {
		if sig, ok := signatures[lf.ID]; ok && sig(m, args) {
			return lf.ID
		}
	}
	return ""
}

// replay the witness of a listed finding; true when the emulator still deviates from the model there
func witnessStillFails(e *Engine, lf listedFinding) (bool, string) {
	b, err := os.ReadFile(filepath.Join(verifRoot(), "findings", lf.ID+".json"))
	if err != nil {
		return false, "no witness file"
	}
	var w struct {
		History History `json:"history"`
	}
	if err := json.Unmarshal(b, &w); err != nil {
		return false, "bad witness file"
	}
	m, err := e.Run(w.History)
	if err != nil || m == nil {
		return false, "witness agrees with the model now"
	}
	if explainMismatch([]listedFinding{lf}, m) != lf.ID && signatures[lf.ID] != nil {
		return false, "witness fails differently: " + m.Why
	}
	return true, m.Why
}
