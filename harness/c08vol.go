package main

// C08, volume phase: a corollary of linearizability that can be checked on histories far too long
// for the order search. Some commands rewrite a key with the value it already has (BITOP OR k k
// missing, SUNIONSTORE s s missing, LMOVE l l LEFT LEFT, SETRANGE s 0 "", INCRBY k 0, ...); in the
// sequential model they change none of the observed quantities, whatever the order. So when
// "rewriter" connections hammer such commands while "mutator" connections run INCR / APPEND /
// RPUSH / SADD / HINCRBY, every linearizable execution ends in the state the model computes from
// the same commands in ANY order (here: invocation order). An execution that loses an update —
// a command split into two lock sections — ends elsewhere.

import (
	"encoding/json"
	"fmt"
	"os"
	"path/filepath"
	"sort"
	"strconv"
	"strings"
	"sync"
	"sync/atomic"
	"time"
)

// rewriter families: every command leaves cnt's number, s's length, lx's length, sx's members and h.f unchanged
var c08Rewriters = [][][]string{
	{{"BITOP", "OR", "cnt", "cnt", "nosuch"}, {"BITOP", "AND", "cnt", "cnt", "cnt"}, {"BITOP", "XOR", "cnt", "cnt", "nosuch"}},
	{{"BITOP", "AND", "s", "s", "s"}, {"BITOP", "OR", "s", "s", "nosuch"}, {"BITOP", "XOR", "tmp", "s", "big"}},
	{{"SUNIONSTORE", "sx", "sx", "nosuch"}, {"SINTERSTORE", "sx", "sx", "sx"}, {"SDIFFSTORE", "sx", "sx", "nosuch"}},
	{{"LMOVE", "lx", "lx", "LEFT", "LEFT"}, {"LMOVE", "lx", "lx", "RIGHT", "LEFT"}, {"RPOPLPUSH", "lx", "lx"}},
	{{"SMOVE", "sx", "sx", "seed"}, {"SMOVE", "sx", "sx", "m1_3"}},
	{{"SETRANGE", "s", "0", ""}, {"APPEND", "s", ""}, {"SETBIT", "cnt", "0", "0"}},
	{{"INCRBY", "cnt", "0"}, {"HINCRBY", "h", "f", "0"}, {"DECRBY", "cnt", "0"}},
	{{"SETNX", "cnt", "5"}, {"MSETNX", "cnt", "5", "zz", "1"}, {"HSETNX", "h", "f", "9"}},
	{{"COPY", "cnt", "c2", "REPLACE"}, {"COPY", "s", "s2", "REPLACE"}, {"COPY", "lx", "l2", "REPLACE"}, {"COPY", "sx", "sx2", "REPLACE"}},
	{{"EXPIRE", "cnt", "100000"}, {"PERSIST", "cnt"}, {"GETEX", "cnt", "PERSIST"}, {"EXPIRE", "s", "100000"}, {"PERSIST", "s"}},
	{{"LSET", "lx", "0", "z"}, {"LSET", "lx", "-1", "z"}, {"LTRIM", "lx", "0", "-1"}},
	{{"BITFIELD", "cnt", "GET", "u8", "0"}, {"BITFIELD", "cnt", "INCRBY", "u8", "0", "0"}, {"BITFIELD", "cnt", "OVERFLOW", "SAT", "INCRBY", "u4", "0", "0"}},
	{{"RENAME", "cnt", "cnt"}, {"RENAME", "s", "s"}, {"RENAME", "lx", "lx"}},
	{{"HSET", "h", "g", "1"}, {"HDEL", "h", "g"}, {"HSTRLEN", "h", "f"}},
	{{"SINTERCARD", "1", "sx"}, {"SISMEMBER", "sx", "seed"}, {"SREM", "sx", "nosuchmember"}, {"LREM", "lx", "0", "nosuchvalue"}},
	{{"GETRANGE", "s", "0", "10"}, {"STRLEN", "s"}, {"BITCOUNT", "s", "0", "10"}, {"LRANGE", "lx", "0", "2"}, {"LINDEX", "lx", "0"}},
}

type volProgram struct {
	Setup     [][]string   `json:"setup"`
	Mutators  [][][]string `json:"mutators"`
	Rewriters [][][]string `json:"rewriters"` // one cycle per rewriter connection; repeated while the mutators run
	Final     [][]string   `json:"final"`
}

func genVolProgram(g *Gen, round int, nMut int) volProgram {
	var p volProgram
	big := strings.Repeat("a", 8192)
	p.Setup = [][]string{{"FLUSHALL"}, {"SET", "cnt", "0"}, {"SET", "s", big}, {"SET", "big", big}, {"RPUSH", "lx", "seed"}, {"SADD", "sx", "seed"}, {"HSET", "h", "f", "0"}}
	for c := 0; c < 3; c++ {
		var prog [][]string
		for i := 0; i < nMut; i++ {
			switch g.r.Intn(7) {
			case 0, 1, 2:
				prog = append(prog, []string{"INCR", "cnt"})
			case 3:
				prog = append(prog, []string{"APPEND", "s", "x"})
			case 4:
				prog = append(prog, []string{"RPUSH", "lx", fmt.Sprintf("v%d_%d", c, i)})
			case 5:
				prog = append(prog, []string{"SADD", "sx", fmt.Sprintf("m%d_%d", c, i%40)})
			default:
				prog = append(prog, []string{"HINCRBY", "h", "f", "1"})
			}
		}
		p.Mutators = append(p.Mutators, prog)
	}
	for c := 0; c < 4; c++ {
		p.Rewriters = append(p.Rewriters, c08Rewriters[(round*4+c)%len(c08Rewriters)])
	}
	p.Final = [][]string{{"GET", "cnt"}, {"STRLEN", "s"}, {"LLEN", "lx"}, {"SMEMBERS", "sx"}, {"HGET", "h", "f"}}
	return p
}

// every connection of a concurrent phase has a past: a transaction and an introspection command (both run
// under the exclusive lock). Whatever they leave behind in the connection or in the lock bookkeeping must not
// change how the connection's later commands synchronise with other connections.
func c08Past(c *Conn, i int) {
	switch i % 3 {
	case 0:
		c.Do(3*time.Second, bs("MULTI")...)
		c.Do(3*time.Second, bs("PING")...)
		c.Do(3*time.Second, bs("EXEC")...)
	case 1:
		c.Do(3*time.Second, bs("CLIENT", "INFO")...)
	}
}

// runs the program on the emulator; returns the executed commands in invocation order and the final replies
func runVolProgram(srv *Server, p volProgram) (ops []cop, finals []*Node, why string, err error) {
	k := len(p.Mutators) + len(p.Rewriters)
	conns := make([]*Conn, k+1)
	for i := range conns {
		if conns[i], err = dial(srv.Port); err != nil {
			return nil, nil, "", err
		}
		defer conns[i].Close()
	}
	obs := conns[k]
	for _, a := range p.Setup {
		if _, err := obs.Do(4*time.Second, bs(a...)...); err != nil {
			return nil, nil, "setup got no reply: " + err.Error(), nil
		}
	}
	for i := range conns {
		c08Past(conns[i], i)
	}
	var mu sync.Mutex
	var wgM, wgR sync.WaitGroup
	var stop int32
	start := make(chan struct{})
	failed := ""
	worker := func(c int, next func(i int) []string, wg *sync.WaitGroup) {
		defer wg.Done()
		<-start
		var mine []cop
		for i := 0; ; i++ {
			a := next(i)
			if a == nil {
				break
			}
			t0 := time.Now().UnixNano()
			nd, err := conns[c].Do(5*time.Second, bs(a...)...)
			if err != nil {
				mu.Lock()
				failed = fmt.Sprintf("connection %d got no reply to %v: %v", c+1, a, err)
				mu.Unlock()
				break
			}
			b, _ := json.Marshal(nd)
			mine = append(mine, cop{Conn: c + 1, Args: hexs(a...), Inv: t0, Resp: time.Now().UnixNano(), Reply: string(b), node: nd})
		}
		mu.Lock()
		ops = append(ops, mine...)
		mu.Unlock()
	}
	for c := range p.Mutators {
		wgM.Add(1)
		prog := p.Mutators[c]
		go worker(c, func(i int) []string {
			if i < len(prog) {
				return prog[i]
			}
			return nil
		}, &wgM)
	}
	for r := range p.Rewriters {
		wgR.Add(1)
		cyc := p.Rewriters[r]
		go worker(len(p.Mutators)+r, func(i int) []string {
			if atomic.LoadInt32(&stop) != 0 || i >= 6000 {
				return nil
			}
			return cyc[i%len(cyc)]
		}, &wgR)
	}
	close(start)
	wgM.Wait()
	atomic.StoreInt32(&stop, 1)
	wgR.Wait()
	if failed != "" {
		return ops, nil, failed, nil
	}
	for _, a := range p.Final {
		nd, err := obs.Do(5*time.Second, bs(a...)...)
		if err != nil {
			return ops, nil, fmt.Sprintf("observer got no reply to %v: %v", a, err), nil
		}
		finals = append(finals, nd)
	}
	sort.SliceStable(ops, func(i, j int) bool { return ops[i].Inv < ops[j].Inv })
	return ops, finals, "", nil
}

// the model's final observation after the same commands in invocation order, compared with the emulator's
func volVerdict(mdl *Model, p volProgram, ops []cop, finals []*Node) (string, error) {
	if err := mdl.Reset(); err != nil {
		return "", err
	}
	now := time.Now().UnixNano()
	for _, a := range p.Setup {
		if _, _, err := mdl.Step(99, now, bs(a...)); err != nil {
			return "", err
		}
	}
	// per-connection sanity that needs no order: INCR replies of one connection strictly increase
	last := map[int]int64{}
	for _, o := range ops {
		if string(unhex(o.Args[0])) == "INCR" && o.node != nil && o.node.Kind == ':' {
			if o.node.Int <= last[o.Conn] {
				return fmt.Sprintf("connection %d saw INCR cnt return %d after it had returned %d", o.Conn, o.node.Int, last[o.Conn]), nil
			}
			last[o.Conn] = o.node.Int
		}
	}
	for _, o := range ops {
		args := make([][]byte, len(o.Args))
		for i, a := range o.Args {
			args[i] = unhex(a)
		}
		if _, _, err := mdl.Step(o.Conn, now, args); err != nil {
			return "", err
		}
	}
	for i, a := range p.Final {
		ms, _, err := mdl.Step(99, now, bs(a...))
		if err != nil {
			return "", err
		}
		if e := matchReply(ms, finals[i], CmpCtx{Resp: 2, SlackMs: 2000}); e != nil {
			return fmt.Sprintf("after %d concurrent commands (mutators INCR/APPEND/RPUSH/SADD/HINCRBY, rewriters that store back what they read) %v answers %s; every sequential order of the same commands gives %s: an update was lost",
				len(ops), a, finals[i].String(), canonSx(ms)), nil
		}
	}
	return "", nil
}

// conditional commands against a key that one connection creates and deletes in a loop: whatever the
// interleaving, every reply must be one the sequential model can give in SOME state the key can be in.
// q is created only by the toggler's RPUSH q x (cmd_push_spec / cmd_push_missing in PropC03.v: RPUSHX and
// LPUSHX answer 0 on a missing key and length+1 >= 2 on a list; they never create a key), so:
//
//	RPUSHX/LPUSHX q y never answers 1; LINSERT q BEFORE x y answers 0 (missing) or >= 2 (x is always there);
//	the toggler's RPUSH always answers 1 and its DEL always 1.
func c08Conditional(cfg runCfg, res *Result, srv *Server, round int) error {
	const nPushers = 6
	conns := make([]*Conn, nPushers+2)
	var err error
	for i := range conns {
		if conns[i], err = dial(srv.Port); err != nil {
			return err
		}
		defer conns[i].Close()
		c08Past(conns[i], i+round)
	}
	conns[nPushers+1].Do(3*time.Second, bs("FLUSHALL")...)
	var stop int32
	var mu sync.Mutex
	why := ""
	total := 0
	fail := func(s string) {
		mu.Lock()
		if why == "" {
			why = s
		}
		mu.Unlock()
		atomic.StoreInt32(&stop, 1)
	}
	var wg sync.WaitGroup
	deadline := time.Now().Add(1200 * time.Millisecond)
	wg.Add(1)
	go func() {
		defer wg.Done()
		n := 0
		for atomic.LoadInt32(&stop) == 0 && time.Now().Before(deadline) {
			r, err := conns[nPushers].Do(4*time.Second, bs("RPUSH", "q", "x")...)
			if err != nil {
				fail("the toggler got no reply to RPUSH q x")
				return
			}
			if r.Int != 1 {
				fail(fmt.Sprintf("RPUSH q x on the key this connection had just deleted answered %s: somebody else created q, but RPUSHX/LPUSHX/LINSERT never create a key", r.String()))
				return
			}
			if r, err = conns[nPushers].Do(4*time.Second, bs("DEL", "q")...); err != nil || r.Int != 1 {
				fail(fmt.Sprintf("DEL q right after this connection's RPUSH q x answered %v", r))
				return
			}
			n += 2
		}
		mu.Lock()
		total += n
		mu.Unlock()
	}()
	for p := 0; p < nPushers; p++ {
		wg.Add(1)
		go func(p int) {
			defer wg.Done()
			cmds := [][]string{{"RPUSHX", "q", "y"}, {"LPUSHX", "q", "y"}, {"LINSERT", "q", "BEFORE", "x", "y"}}
			n := 0
			for atomic.LoadInt32(&stop) == 0 && time.Now().Before(deadline) {
				a := cmds[(p+n)%len(cmds)]
				r, err := conns[p].Do(4*time.Second, bs(a...)...)
				if err != nil {
					fail(fmt.Sprintf("no reply to %v", a))
					return
				}
				if r.Kind != ':' || r.Int == 1 || r.Int < 0 {
					fail(fmt.Sprintf("%v answered %s while another connection creates (RPUSH q x) and deletes q in a loop: no state of q gives that reply (missing: 0, a list: its new length >= 2)", a, r.String()))
					return
				}
				n++
			}
			mu.Lock()
			total += n
			mu.Unlock()
		}(p)
	}
	wg.Wait()
	res.Histories++
	res.Steps += total
	res.CmdHist["rpushx"] += total / 4
	res.Extra["conditional_commands"] = toInt(res.Extra["conditional_commands"]) + total
	if why != "" {
		os.MkdirAll(cfg.replayDir, 0o755)
		path := filepath.Join(cfg.replayDir, fmt.Sprintf("C08-seed%d-cond%d.json", cfg.seed, round))
		b, _ := json.MarshalIndent(map[string]any{"property": "C08", "kind": "conditional", "seed": cfg.seed, "why": why,
			"how": "one connection loops RPUSH q x / DEL q, six connections loop RPUSHX q y, LPUSHX q y, LINSERT q BEFORE x y for 1.2 s; replies are checked against the replies the sequential model can give"}, "", " ")
		os.WriteFile(path, b, 0o644)
		res.Mismatches = append(res.Mismatches, &Mismatch{Index: -1, Op: "conditional commands under a create/delete loop", Why: why})
		res.Replays = append(res.Replays, path)
	}
	return nil
}

// snapshot consistency: writers replace ALL parts of a value by one fresh tag in a single command
// (MSET of four keys, HSET of eight fields), or add / remove a fixed group of members or elements in a
// single command; every state reachable by such commands is uniform (all parts carry the same tag; the
// group is present completely or not at all), so every reply of a multi-part reader must be uniform. A
// reader that looks at the value outside the writer's lock section sees a half-applied command.
func c08Snapshot(cfg runCfg, res *Result, srv *Server, round int) error {
	const nW, nR = 4, 6
	const blobN = 128 * 1024
	conns := make([]*Conn, nW+nR+1)
	var err error
	for i := range conns {
		if conns[i], err = dial(srv.Port); err != nil {
			return err
		}
		defer conns[i].Close()
		c08Past(conns[i], i+round)
	}
	conns[nW+nR].Do(3*time.Second, bs("FLUSHALL")...)
	// a large string whose bytes are all equal: every writer replaces the whole payload by ONE letter in a
	// single command (SETRANGE bb 0 <blob> without growth, SET bb <blob>), so every reader must see one letter
	conns[nW+nR].Do(3*time.Second, bs("SET", "bb", strings.Repeat("g", blobN))...)
	var stop int32
	var mu sync.Mutex
	why := ""
	total := 0
	fail := func(s string) {
		mu.Lock()
		if why == "" {
			why = s
		}
		mu.Unlock()
		atomic.StoreInt32(&stop, 1)
	}
	deadline := time.Now().Add(1200 * time.Millisecond)
	var wg sync.WaitGroup
	for w := 0; w < nW; w++ {
		wg.Add(1)
		go func(w int) {
			defer wg.Done()
			n := 0
			for atomic.LoadInt32(&stop) == 0 && time.Now().Before(deadline) {
				tag := fmt.Sprintf("w%d-%d", w, n)
				var a []string
				k := n % 6
				if w == nW-1 {
					k = 6 + n%4
				}
				switch k {
				case 6, 7, 8:
					a = []string{"SETRANGE", "bb", "0", strings.Repeat(string("agco"[n%4]), blobN)}
				case 9:
					a = []string{"SET", "bb", strings.Repeat(string("agco"[n%4]), blobN)}
				case 0:
					a = []string{"MSET", "ma", tag, "mb", tag, "mc", tag, "md", tag}
				case 1, 2:
					a = []string{"HSET", "hh"}
					for f := 0; f < 8; f++ {
						a = append(a, fmt.Sprintf("f%d", f), tag)
					}
				case 3:
					a = []string{"SADD", "ss", "a", "b", "c", "d"}
				case 4:
					a = []string{"SREM", "ss", "a", "b", "c", "d"}
				default:
					a = []string{"HMSET", "hh", "f0", tag, "f1", tag, "f2", tag, "f3", tag, "f4", tag, "f5", tag, "f6", tag, "f7", tag}
				}
				if _, err := conns[w].Do(4*time.Second, bs(a...)...); err != nil {
					fail(fmt.Sprintf("no reply to %v", a[:2]))
					return
				}
				n++
			}
			mu.Lock()
			total += n
			mu.Unlock()
		}(w)
	}
	uniform := func(ns []*Node) bool {
		for _, x := range ns[1:] {
			if x.Nil != ns[0].Nil || string(x.Str) != string(ns[0].Str) || x.Int != ns[0].Int {
				return false
			}
		}
		return true
	}
	for r := 0; r < nR; r++ {
		wg.Add(1)
		go func(r int) {
			defer wg.Done()
			n := 0
			for atomic.LoadInt32(&stop) == 0 && time.Now().Before(deadline) {
				var a []string
				switch (r + n) % 9 {
				case 6:
					a = []string{"BITCOUNT", "bb"}
				case 7:
					a = []string{"BITCOUNT", "bb", "1000", "-1000"}
				case 8:
					a = []string{"GETRANGE", "bb", "100", "-100"}
				case 0:
					a = []string{"MGET", "ma", "mb", "mc", "md"}
				case 1:
					a = []string{"HMGET", "hh", "f0", "f1", "f2", "f3", "f4", "f5", "f6", "f7"}
				case 2:
					a = []string{"HVALS", "hh"}
				case 3:
					a = []string{"SMISMEMBER", "ss", "a", "b", "c", "d"}
				case 4:
					a = []string{"SCARD", "ss"}
				default:
					a = []string{"HGETALL", "hh"}
				}
				nd, err := conns[nW+r].Do(4*time.Second, bs(a...)...)
				if err != nil {
					fail(fmt.Sprintf("no reply to %v", a[:2]))
					return
				}
				bad := false
				switch a[0] {
				case "MGET", "HMGET", "SMISMEMBER", "HVALS":
					bad = len(nd.Elems) > 1 && !uniform(nd.Elems)
				case "SCARD":
					bad = nd.Int != 0 && nd.Int != 4
				case "BITCOUNT":
					// 'a' 3 bits, 'c' 4, 'g' 5, 'o' 6
					nb := int64(blobN)
					if len(a) > 2 {
						nb = blobN - 1999
					}
					bad = nd.Int != 3*nb && nd.Int != 4*nb && nd.Int != 5*nb && nd.Int != 6*nb
				case "GETRANGE":
					bad = len(nd.Str) != blobN-199 || strings.Trim(string(nd.Str), string(nd.Str[:1])) != ""
				case "HGETALL":
					var vals []*Node
					for i := 1; i < len(nd.Elems); i += 2 {
						vals = append(vals, nd.Elems[i])
					}
					bad = len(vals) > 1 && !uniform(vals)
				}
				if bad {
					shown := nd.String()
					if len(shown) > 200 {
						shown = shown[:200] + "..."
					}
					fail(fmt.Sprintf("%v answered %s while every writer replaces all parts by ONE value in a single command (MSET of 4 keys / HSET of 8 fields / SADD, SREM of 4 members / SETRANGE, SET of a whole one-letter payload): the reader saw a half-applied command", a, shown))
					return
				}
				n++
			}
			mu.Lock()
			total += n
			mu.Unlock()
		}(r)
	}
	wg.Wait()
	res.Histories++
	res.Steps += total
	res.Extra["snapshot_commands"] = toInt(res.Extra["snapshot_commands"]) + total
	if why != "" {
		os.MkdirAll(cfg.replayDir, 0o755)
		path := filepath.Join(cfg.replayDir, fmt.Sprintf("C08-seed%d-snap%d.json", cfg.seed, round))
		b, _ := json.MarshalIndent(map[string]any{"property": "C08", "kind": "snapshot", "seed": cfg.seed, "why": why,
			"how": "3 connections write (MSET ma..md tag / HSET hh f0..f7 tag / SADD, SREM ss a b c d), 5 read (MGET, HMGET, HVALS, HGETALL, SMISMEMBER, SCARD) for 1.2 s; every reply must be uniform"}, "", " ")
		os.WriteFile(path, b, 0o644)
		res.Mismatches = append(res.Mismatches, &Mismatch{Index: -1, Op: "multi-part readers against single-command writers", Why: why})
		res.Replays = append(res.Replays, path)
	}
	return nil
}

// optimistic counters: connection A runs WATCH ctr; GET ctr; MULTI; SET ctr v+1; EXEC in a loop while
// connection B sends INCR ctr. In every sequential execution a committed EXEC adds one and an INCR adds one, and
// an EXEC whose watched key changed after the WATCH commits nothing: at the end ctr = committed EXECs + INCRs.
// An EXEC that checks its watches and runs its queue in two steps overwrites an INCR that falls between them.
func c08Watched(cfg runCfg, res *Result, srv *Server, round int) error {
	const groups = 4
	type pair struct{ a, b *Conn }
	var ps []pair
	for i := 0; i < groups; i++ {
		a, err := dial(srv.Port)
		if err != nil {
			return err
		}
		defer a.Close()
		b, err := dial(srv.Port)
		if err != nil {
			return err
		}
		defer b.Close()
		c08Past(a, i+round)
		ps = append(ps, pair{a, b})
	}
	ps[0].a.Do(3*time.Second, bs("FLUSHALL")...)
	deadline := time.Now().Add(900 * time.Millisecond)
	var wg sync.WaitGroup
	var mu sync.Mutex
	why := ""
	total := 0
	for i, p := range ps {
		key := fmt.Sprintf("ctr%d", i)
		committed, incrs := 0, 0
		var gmu sync.Mutex
		var gw sync.WaitGroup
		gw.Add(2)
		wg.Add(1)
		go func() {
			defer gw.Done()
			n := 0
			for time.Now().Before(deadline) {
				watch := []string{"WATCH", key}
				for x := 0; x < (n%3)*200; x++ {
					watch = append(watch, fmt.Sprintf("bystander:%d", x)) // a longer watch list widens the check
				}
				p.a.Do(3*time.Second, bs(watch...)...)
				v, err := p.a.Do(3*time.Second, bs("GET", key)...)
				if err != nil {
					return
				}
				cur := 0
				fmt.Sscan(string(v.Str), &cur)
				p.a.Do(3*time.Second, bs("MULTI")...)
				p.a.Do(3*time.Second, bs("SET", key, fmt.Sprint(cur+1))...)
				r, err := p.a.Do(3*time.Second, bs("EXEC")...)
				if err != nil {
					return
				}
				if r.Kind == '*' && !r.Nil {
					gmu.Lock()
					committed++
					gmu.Unlock()
				}
				n++
			}
		}()
		go func() {
			defer gw.Done()
			for time.Now().Before(deadline) {
				if r, err := p.b.Do(3*time.Second, bs("INCR", key)...); err != nil || r.Kind != ':' {
					return
				}
				gmu.Lock()
				incrs++
				gmu.Unlock()
				// paced, so that a good share of A's transactions commit and a good share meet an INCR
				time.Sleep(time.Duration(50+(incrs*37)%400) * time.Microsecond)
			}
		}()
		go func(i int, p pair) {
			defer wg.Done()
			gw.Wait()
			v, err := p.b.Do(3*time.Second, bs("GET", key)...)
			fin := 0
			if err == nil {
				fmt.Sscan(string(v.Str), &fin)
			}
			mu.Lock()
			total += committed*5 + incrs
			if err == nil && fin != committed+incrs && why == "" {
				why = fmt.Sprintf("%s = %d after %d committed WATCH/GET/MULTI/SET v+1/EXEC rounds and %d INCRs by another connection (every sequential execution ends at %d): an update was lost between EXEC's watch check and its queue", key, fin, committed, incrs, committed+incrs)
			}
			mu.Unlock()
		}(i, p)
	}
	wg.Wait()
	res.Histories++
	res.Steps += total
	res.Extra["optimistic_counter_commands"] = toInt(res.Extra["optimistic_counter_commands"]) + total
	if why != "" {
		os.MkdirAll(cfg.replayDir, 0o755)
		path := filepath.Join(cfg.replayDir, fmt.Sprintf("C08-seed%d-watched%d.json", cfg.seed, round))
		b, _ := json.MarshalIndent(map[string]any{"property": "C08", "kind": "watched", "seed": cfg.seed, "why": why,
			"how": "4 pairs of connections for 0.9 s: A loops WATCH ctr [bystanders]; GET ctr; MULTI; SET ctr v+1; EXEC, B loops INCR ctr; at the end ctr must equal committed EXECs + INCRs"}, "", " ")
		os.WriteFile(path, b, 0o644)
		res.Mismatches = append(res.Mismatches, &Mismatch{Index: -1, Op: "optimistic counters (WATCH/EXEC against INCR)", Why: why})
		res.Replays = append(res.Replays, path)
	}
	return nil
}

func c08Volume(cfg runCfg, res *Result, srv *Server, mdl *Model, g *Gen) error {
	rounds, nMut := 4, 2500
	if cfg.tier == "thorough" {
		rounds, nMut = 48, 4000
	}
	total := 0
	for r := 0; r < rounds && len(res.Mismatches) < 3; r++ {
		p := genVolProgram(g, r, nMut)
		ops, finals, why, err := runVolProgram(srv, p)
		if err != nil {
			return err
		}
		if why == "" && !srv.Alive() {
			why = "emulator process died: " + tail(srv.Stderr(), 400)
		}
		if why == "" {
			if why, err = volVerdict(mdl, p, ops, finals); err != nil {
				return err
			}
		}
		total += len(ops)
		for _, o := range ops {
			res.CmdHist[strings.ToLower(string(unhex(o.Args[0])))]++
		}
		res.Histories++
		res.Steps += len(ops)
		if why != "" {
			os.MkdirAll(cfg.replayDir, 0o755)
			path := filepath.Join(cfg.replayDir, fmt.Sprintf("C08-seed%d-vol%d.json", cfg.seed, r))
			b, _ := json.MarshalIndent(map[string]any{"property": "C08", "kind": "volume", "seed": cfg.seed, "why": why, "program": p,
				"how": "3 mutator connections run their programs once, 4 rewriter connections repeat their cycles meanwhile; then the final commands; the model runs the same commands sequentially"}, "", " ")
			os.WriteFile(path, b, 0o644)
			res.Mismatches = append(res.Mismatches, &Mismatch{Index: -1, Op: "concurrent volume history", Why: why})
			res.Replays = append(res.Replays, path)
			if !srv.Alive() {
				return nil
			}
		}
	}
	res.Extra["volume_rounds"] = rounds
	res.Extra["volume_commands"] = total
	crounds := 2
	if cfg.tier == "thorough" {
		crounds = 20
	}
	for r := 0; r < crounds && len(res.Mismatches) < 3; r++ {
		if err := c08Conditional(cfg, res, srv, r); err != nil {
			return err
		}
		if err := c08Snapshot(cfg, res, srv, r); err != nil {
			return err
		}
		if err := c08Watched(cfg, res, srv, r); err != nil {
			return err
		}
	}
	return nil
}

// replay of a volume finding: the schedule cannot be replayed, the workload can — up to 5 attempts
func c08VolumeReplay(cfg runCfg, res *Result, srv *Server, mdl *Model, raw []byte) error {
	var rp struct {
		Program volProgram `json:"program"`
	}
	if err := json.Unmarshal(raw, &rp); err != nil {
		return err
	}
	for i := 0; i < 5; i++ {
		ops, finals, why, err := runVolProgram(srv, rp.Program)
		if err != nil {
			return err
		}
		if why == "" {
			if why, err = volVerdict(mdl, rp.Program, ops, finals); err != nil {
				return err
			}
		}
		res.Histories++
		if why != "" {
			res.Mismatches = append(res.Mismatches, &Mismatch{Index: -1, Op: "concurrent volume history (re-run " + strconv.Itoa(i+1) + ")", Why: why})
			return nil
		}
	}
	return nil
}
