package main

// Wrapper around the extracted OCaml model process and a parser for its s-expressions.

import (
	"bufio"
	"encoding/hex"
	"fmt"
	"io"
	"os/exec"
	"strconv"
	"strings"
)

type Model struct {
	cmd *exec.Cmd
	in  io.WriteCloser
	out *bufio.Reader
}

func startModel(path string) (*Model, error) {
	// deep structural recursion over table slots needs a large stack
	cmd := exec.Command("/bin/sh", "-c", "ulimit -s 4000000 2>/dev/null || ulimit -s unlimited 2>/dev/null; exec \"$0\"", path)
	in, err := cmd.StdinPipe()
	if err != nil {
		return nil, err
	}
	so, err := cmd.StdoutPipe()
	if err != nil {
		return nil, err
	}
	if err := cmd.Start(); err != nil {
		return nil, err
	}
	return &Model{cmd: cmd, in: in, out: bufio.NewReaderSize(so, 1<<20)}, nil
}

func (m *Model) Close() {
	io.WriteString(m.in, "QUIT\n")
	m.in.Close()
	m.cmd.Wait()
}

func hexArg(b []byte) string {
	if len(b) == 0 {
		return "-"
	}
	return hex.EncodeToString(b)
}

func (m *Model) line(s string) (string, error) {
	if _, err := io.WriteString(m.in, s+"\n"); err != nil {
		return "", err
	}
	l, err := m.out.ReadString('\n')
	if err != nil {
		// the model process ended: say on which request (this is a defect of the model or the driver)
		show := s
		if len(show) > 600 {
			show = show[:600] + "..."
		}
		return "", fmt.Errorf("model process ended (%v) on request %q", err, show)
	}
	return strings.TrimRight(l, "\n"), nil
}

func (m *Model) Reset() error {
	_, err := m.line("RESET")
	return err
}

func (m *Model) CloseConn(cid int) error {
	_, err := m.line(fmt.Sprintf("CLOSE %d", cid))
	return err
}

// ConnInfo: the model's session state of a connection (selected database, protocol version, name, queue length or -1)
func (m *Model) ConnInfo(cid int) (db int, resp int, name string, queued int, err error) {
	l, err := m.line(fmt.Sprintf("CONN %d", cid))
	if err != nil {
		return 0, 0, "", 0, err
	}
	f := strings.Fields(l)
	if len(f) != 5 || f[0] != "CONN" {
		return 0, 0, "", 0, fmt.Errorf("model answered %q to CONN", l)
	}
	fmt.Sscan(f[1], &db)
	fmt.Sscan(f[2], &resp)
	name = string(unhex(f[3]))
	queued = -1
	if f[4] != "-" {
		fmt.Sscan(f[4], &queued)
	}
	return db, resp, name, queued, nil
}

// Step runs one command; returns the wire reply as an s-expression tree and the would-block flag.
func (m *Model) Step(cid int, nowNs int64, args [][]byte) (*Sx, bool, error) {
	var sb strings.Builder
	fmt.Fprintf(&sb, "S %d %d", cid, nowNs)
	for _, a := range args {
		sb.WriteByte(' ')
		sb.WriteString(hexArg(a))
	}
	l, err := m.line(sb.String())
	if err != nil {
		return nil, false, err
	}
	if !strings.HasPrefix(l, "R ") {
		return nil, false, fmt.Errorf("model said %q", l)
	}
	block := l[2] == '1'
	sx, rest, err := parseSx(l[4:])
	if err != nil || strings.TrimSpace(rest) != "" {
		return nil, false, fmt.Errorf("bad model reply %q: %v", l, err)
	}
	return sx, block, nil
}

// Sx is a parsed s-expression: (tag atom* child*) in source order.
type Sx struct {
	Tag   string
	Items []SxItem
	Src   string
}
type SxItem struct {
	Atom  string
	Child *Sx
}

func parseSx(s string) (*Sx, string, error) {
	s = strings.TrimLeft(s, " ")
	if len(s) == 0 || s[0] != '(' {
		return nil, s, fmt.Errorf("expected (")
	}
	start := s
	s = s[1:]
	i := 0
	for i < len(s) && s[i] != ' ' && s[i] != ')' {
		i++
	}
	x := &Sx{Tag: s[:i]}
	s = s[i:]
	for {
		s = strings.TrimLeft(s, " ")
		if len(s) == 0 {
			return nil, s, fmt.Errorf("unterminated")
		}
		if s[0] == ')' {
			x.Src = start[:len(start)-len(s)+1]
			return x, s[1:], nil
		}
		if s[0] == '(' {
			c, rest, err := parseSx(s)
			if err != nil {
				return nil, rest, err
			}
			x.Items = append(x.Items, SxItem{Child: c})
			s = rest
			continue
		}
		j := 0
		for j < len(s) && s[j] != ' ' && s[j] != ')' {
			j++
		}
		x.Items = append(x.Items, SxItem{Atom: s[:j]})
		s = s[j:]
	}
}

func (x *Sx) atoms() []string {
	var out []string
	for _, it := range x.Items {
		if it.Child == nil {
			out = append(out, it.Atom)
		}
	}
	return out
}
func (x *Sx) children() []*Sx {
	var out []*Sx
	for _, it := range x.Items {
		if it.Child != nil {
			out = append(out, it.Child)
		}
	}
	return out
}

func unhex(a string) []byte {
	if a == "-" {
		return []byte{}
	}
	b, _ := hex.DecodeString(a)
	return b
}

func atoi64(a string) int64 {
	v, _ := strconv.ParseInt(a, 10, 64)
	return v
}
