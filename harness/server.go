package main

// Parent-side handle on a "harness serve" child and raw TCP connections to it.

import (
	"bufio"
	"bytes"
	"errors"
	"fmt"
	"io"
	"net"
	"os"
	"os/exec"
	"strconv"
	"strings"
	"sync"
	"time"
)

type Server struct {
	cmd     *exec.Cmd
	stdin   io.WriteCloser
	stdout  *bufio.Reader
	Port    int
	stderr  bytes.Buffer
	mu      sync.Mutex
	exited  chan struct{}
	exitErr error
}

var portCounter = 21000 + (os.Getpid()%400)*20

func freePort() int {
	for {
		portCounter++
		if portCounter > 60000 {
			portCounter = 21000
		}
		l, err := net.Listen("tcp", fmt.Sprintf("127.0.0.1:%d", portCounter))
		if err == nil {
			l.Close()
			return portCounter
		}
	}
}

func startServer(persist string) (*Server, error) {
	port := freePort()
	args := []string{"serve", "-port", strconv.Itoa(port)}
	if persist != "" {
		args = append(args, "-persist", persist)
	}
	self, _ := os.Executable()
	if serverBinary != "" {
		self = serverBinary
	}
	cmd := exec.Command(self, args...)
	s := &Server{cmd: cmd, Port: port, exited: make(chan struct{})}
	cmd.Stderr = &s.stderr
	var err error
	if s.stdin, err = cmd.StdinPipe(); err != nil {
		return nil, err
	}
	so, err := cmd.StdoutPipe()
	if err != nil {
		return nil, err
	}
	s.stdout = bufio.NewReaderSize(so, 1<<20)
	// memory cap so allocation bombs kill the child rather than the sandbox
	cmd.Env = append(os.Environ(), "GOMEMLIMIT=3GiB")
	if err = cmd.Start(); err != nil {
		return nil, err
	}
	go func() { s.exitErr = cmd.Wait(); close(s.exited) }()
	line, err := s.readLine(20 * time.Second)
	if err != nil || !strings.HasPrefix(line, "READY") {
		s.Kill()
		return nil, fmt.Errorf("server did not start: %v %q %s", err, line, s.stderr.String())
	}
	return s, nil
}

func (s *Server) readLine(d time.Duration) (string, error) {
	type res struct {
		l string
		e error
	}
	ch := make(chan res, 1)
	go func() {
		l, e := s.stdout.ReadString('\n')
		ch <- res{strings.TrimRight(l, "\n"), e}
	}()
	select {
	case r := <-ch:
		return r.l, r.e
	case <-time.After(d):
		return "", errors.New("control timeout")
	case <-s.exited:
		select {
		case r := <-ch:
			return r.l, r.e
		case <-time.After(100 * time.Millisecond):
		}
		return "", errors.New("server exited")
	}
}

// Ctl sends one control line and returns the one-line answer.
func (s *Server) Ctl(line string, d time.Duration) (string, error) {
	s.mu.Lock()
	defer s.mu.Unlock()
	if _, err := io.WriteString(s.stdin, line+"\n"); err != nil {
		return "", err
	}
	return s.readLine(d)
}

func (s *Server) Alive() bool {
	select {
	case <-s.exited:
		return false
	default:
		return true
	}
}

func (s *Server) Stderr() string { return s.stderr.String() }

func (s *Server) Kill() {
	if s.cmd.Process != nil {
		s.cmd.Process.Kill()
	}
	select {
	case <-s.exited:
	case <-time.After(2 * time.Second):
	}
}

// ---------------- RESP reply tree ----------------

type Node struct {
	Kind  byte // + - : $ * % ~ , # ( = _ ! >
	Str   []byte
	Int   int64
	Nil   bool
	Elems []*Node
}

func (n *Node) String() string {
	switch n.Kind {
	case '+', '-', ',', '(', '=', '!':
		return fmt.Sprintf("%c%q", n.Kind, n.Str)
	case ':':
		return fmt.Sprintf(":%d", n.Int)
	case '$':
		if n.Nil {
			return "$nil"
		}
		return fmt.Sprintf("$%q", n.Str)
	case '#':
		return fmt.Sprintf("#%d", n.Int)
	case '_':
		return "_"
	default:
		if n.Nil {
			return fmt.Sprintf("%cnil", n.Kind)
		}
		var sb strings.Builder
		sb.WriteByte(n.Kind)
		sb.WriteByte('[')
		for i, e := range n.Elems {
			if i > 0 {
				sb.WriteByte(' ')
			}
			sb.WriteString(e.String())
		}
		sb.WriteByte(']')
		return sb.String()
	}
}

type Conn struct {
	c   net.Conn
	r   *bufio.Reader
	Raw bytes.Buffer // every byte received (for framing checks)
}

func dial(port int) (*Conn, error) {
	c, err := net.DialTimeout("tcp", fmt.Sprintf("127.0.0.1:%d", port), 3*time.Second)
	if err != nil {
		return nil, err
	}
	cn := &Conn{c: c}
	cn.r = bufio.NewReaderSize(io.TeeReader(c, &cn.Raw), 1<<16)
	return cn, nil
}

func (c *Conn) Close() { c.c.Close() }

func encodeCmd(args [][]byte) []byte {
	var b bytes.Buffer
	fmt.Fprintf(&b, "*%d\r\n", len(args))
	for _, a := range args {
		fmt.Fprintf(&b, "$%d\r\n", len(a))
		b.Write(a)
		b.WriteString("\r\n")
	}
	return b.Bytes()
}

func (c *Conn) Send(args [][]byte) error {
	c.c.SetWriteDeadline(time.Now().Add(5 * time.Second))
	_, err := c.c.Write(encodeCmd(args))
	return err
}

func (c *Conn) SendRaw(b []byte) error {
	c.c.SetWriteDeadline(time.Now().Add(5 * time.Second))
	_, err := c.c.Write(b)
	return err
}

func (c *Conn) readLine() ([]byte, error) {
	line, err := c.r.ReadBytes('\n')
	if err != nil {
		return nil, err
	}
	if len(line) < 2 || line[len(line)-2] != '\r' {
		return nil, fmt.Errorf("bad line ending %q", line)
	}
	return line[:len(line)-2], nil
}

// Read parses exactly one reply value (RESP2 or RESP3) within the timeout.
func (c *Conn) Read(d time.Duration) (*Node, error) {
	c.c.SetReadDeadline(time.Now().Add(d))
	return c.readValue(0)
}

func (c *Conn) readValue(depth int) (*Node, error) {
	if depth > 64 {
		return nil, errors.New("reply nesting too deep")
	}
	line, err := c.readLine()
	if err != nil {
		return nil, err
	}
	if len(line) == 0 {
		return nil, errors.New("empty reply line")
	}
	n := &Node{Kind: line[0]}
	body := line[1:]
	switch line[0] {
	case '+', '-', ',', '(':
		n.Str = body
	case ':':
		v, err := strconv.ParseInt(string(body), 10, 64)
		if err != nil {
			return nil, fmt.Errorf("bad integer reply %q", line)
		}
		n.Int = v
	case '#':
		if string(body) == "t" {
			n.Int = 1
		} else if string(body) != "f" {
			return nil, fmt.Errorf("bad bool %q", line)
		}
	case '_':
		if len(body) != 0 {
			return nil, fmt.Errorf("bad null %q", line)
		}
		n.Nil = true
	case '$', '=', '!':
		l, err := strconv.Atoi(string(body))
		if err != nil {
			return nil, fmt.Errorf("bad bulk header %q", line)
		}
		if l < 0 {
			n.Nil = true
			return n, nil
		}
		buf := make([]byte, l+2)
		if _, err := io.ReadFull(c.r, buf); err != nil {
			return nil, err
		}
		if buf[l] != '\r' || buf[l+1] != '\n' {
			return nil, fmt.Errorf("bulk not terminated by CRLF")
		}
		n.Str = buf[:l]
	case '*', '~', '>', '%':
		l, err := strconv.Atoi(string(body))
		if err != nil {
			return nil, fmt.Errorf("bad aggregate header %q", line)
		}
		if l < 0 {
			n.Nil = true
			return n, nil
		}
		cnt := l
		if line[0] == '%' {
			cnt = 2 * l
		}
		for i := 0; i < cnt; i++ {
			e, err := c.readValue(depth + 1)
			if err != nil {
				return nil, err
			}
			n.Elems = append(n.Elems, e)
		}
	default:
		return nil, fmt.Errorf("unknown reply type byte %q", line)
	}
	return n, nil
}

// Do sends one command and reads its reply.
func (c *Conn) Do(d time.Duration, args ...[]byte) (*Node, error) {
	if err := c.Send(args); err != nil {
		return nil, err
	}
	return c.Read(d)
}

func bs(ss ...string) [][]byte {
	out := make([][]byte, len(ss))
	for i, s := range ss {
		out[i] = []byte(s)
	}
	return out
}
