package main

// Internal-structure check through the verif accessor DUMP: what the wire cannot show.
// Lists must read the same forwards and backwards and have the cached count; no
// aggregate may be stored empty; dictionary counters must equal the occupied buckets.

import (
	"encoding/json"
	"fmt"
	"time"
)

type dumpKey struct {
	Key       string
	Type      string
	List      []string
	ListBack  []string
	ListCount int
	Hash      map[string]string
	Set       []string
	SubLayout *struct {
		LogSize, Count, Removals int
		Buckets                  map[string]int
	}
	PayloadNil bool
	ExpiresNs  int64
}

type dumpDb struct {
	Exists bool
	Dirty  bool
	Layout struct {
		LogSize, Count, Removals int
		Buckets                  map[string]int
	}
	Keys []dumpKey
}

func (e *Engine) integrity() string { return integrityOf(e.srv, 0) }

// the internal-structure check on emulator eng of the child process
func integrityOf(srv *Server, eng int) string {
	for db := 0; db < 3; db++ {
		line, err := srv.Ctl(fmt.Sprintf("DUMP %d %d", eng, db), 5*time.Second)
		if err != nil {
			return ""
		}
		var d dumpDb
		if json.Unmarshal([]byte(line), &d) != nil || !d.Exists {
			continue
		}
		if d.Layout.Count != len(d.Keys) || len(d.Layout.Buckets) != len(d.Keys) {
			return fmt.Sprintf("db %d: dictionary count %d but %d occupied buckets", db, d.Layout.Count, len(d.Keys))
		}
		now := time.Now().UnixNano()
		for _, k := range d.Keys {
			expired := k.ExpiresNs != 0 && k.ExpiresNs < now
			switch k.Type {
			case "list":
				if len(k.List) != k.ListCount {
					return fmt.Sprintf("db %d list %q: cached count %d but %d elements from the head", db, k.Key, k.ListCount, len(k.List))
				}
				if fmt.Sprint(k.List) != fmt.Sprint(k.ListBack) {
					return fmt.Sprintf("db %d list %q: forward walk %q differs from backward walk %q (broken links)", db, k.Key, k.List, k.ListBack)
				}
				if len(k.List) == 0 && !expired {
					return fmt.Sprintf("db %d list %q is stored empty", db, k.Key)
				}
			case "hash":
				if k.SubLayout == nil {
					return fmt.Sprintf("db %d hash %q has no dictionary payload", db, k.Key)
				}
				if k.SubLayout.Count != len(k.Hash) || len(k.SubLayout.Buckets) != len(k.Hash) {
					return fmt.Sprintf("db %d hash %q: count %d but %d fields", db, k.Key, k.SubLayout.Count, len(k.Hash))
				}
				if len(k.Hash) == 0 && !expired {
					return fmt.Sprintf("db %d hash %q is stored empty", db, k.Key)
				}
			case "set":
				if k.SubLayout == nil {
					return fmt.Sprintf("db %d set %q has no dictionary payload", db, k.Key)
				}
				if k.SubLayout.Count != len(k.Set) || len(k.SubLayout.Buckets) != len(k.Set) {
					return fmt.Sprintf("db %d set %q: count %d but %d members", db, k.Key, k.SubLayout.Count, len(k.Set))
				}
				if len(k.Set) == 0 && !expired {
					return fmt.Sprintf("db %d set %q is stored empty", db, k.Key)
				}
			case "string":
			default:
				return fmt.Sprintf("db %d key %q has unknown type %q", db, k.Key, k.Type)
			}
		}
	}
	return ""
}
