package main

// C08: concurrent histories on the real emulator, checked for linearizability against the
// extracted sequential model: is there an order of the commands, consistent with each
// connection's own order and with real-time precedence, in which the model gives every
// client the reply it received (the final observation included)?

import (
	"encoding/json"
	"fmt"
	"math/rand"
	"os"
	"path/filepath"
	"sort"
	"strings"
	"sync"
	"time"
)

type cop struct {
	Conn  int      `json:"conn"`
	Args  []string `json:"args"`
	Inv   int64    `json:"inv_ns"`
	Resp  int64    `json:"resp_ns"`
	Reply string   `json:"reply"`
	node  *Node
}

func (m *Model) ctl(line string) error {
	r, err := m.line(line)
	if err != nil {
		return err
	}
	if !strings.HasPrefix(r, "OK") {
		return fmt.Errorf("model: %s", r)
	}
	return nil
}

// depth-first search for a linearization; snapshots of the model state per depth
func linearizable(m *Model, ops []cop) (bool, int, error) {
	n := len(ops)
	done := make([]bool, n)
	memo := map[string]bool{}
	explored := 0
	var rec func(depth int) (bool, error)
	rec = func(depth int) (bool, error) {
		if depth == n {
			return true, nil
		}
		explored++
		if explored > 400000 {
			return false, fmt.Errorf("search budget exhausted")
		}
		// an operation may come next only if it was invoked before every unlinearized operation responded
		minResp := int64(1 << 62)
		for i := range ops {
			if !done[i] && ops[i].Resp < minResp {
				minResp = ops[i].Resp
			}
		}
		for i := range ops {
			if done[i] || ops[i].Inv > minResp {
				continue
			}
			// program order: an earlier operation of the same connection must be done
			blocked := false
			for j := range ops {
				if !done[j] && j != i && ops[j].Conn == ops[i].Conn && ops[j].Inv < ops[i].Inv {
					blocked = true
				}
			}
			if blocked {
				continue
			}
			if err := m.ctl(fmt.Sprintf("RESTORE %d", depth)); err != nil {
				return false, err
			}
			args := make([][]byte, len(ops[i].Args))
			for k, a := range ops[i].Args {
				args[k] = unhex(a)
			}
			ms, _, err := m.Step(ops[i].Conn, ops[i].Inv, args)
			if err != nil {
				return false, err
			}
			if matchReply(ms, ops[i].node, CmpCtx{Resp: 2, SlackMs: 2000}) != nil {
				continue
			}
			done[i] = true
			h, _ := m.line("STATEHASH")
			key := h + fmt.Sprint(done)
			if !memo[key] {
				memo[key] = true
				if err := m.ctl(fmt.Sprintf("SNAP %d", depth+1)); err != nil {
					return false, err
				}
				ok, err := rec(depth + 1)
				if err != nil || ok {
					return ok, err
				}
			}
			done[i] = false
		}
		return false, nil
	}
	if err := m.mdlResetSnap(); err != nil {
		return false, 0, err
	}
	ok, err := rec(0)
	return ok, explored, err
}

func (m *Model) mdlResetSnap() error {
	if err := m.Reset(); err != nil {
		return err
	}
	return m.ctl("SNAP 0")
}

func genC08Client(g *Gen, c int, n int) [][]string {
	keys := []string{"x", "y"}
	k := func() string { return keys[g.r.Intn(2)] }
	var out [][]string
	if c%2 == 1 {
		out = append(out, []string{"SELECT", "1"})
	}
	for i := 0; i < n; i++ {
		switch g.r.Intn(31) {
		case 0, 1:
			out = append(out, []string{"INCR", "cnt"})
		case 2:
			out = append(out, []string{"INCRBY", "cnt", g.pick("2", "-1", "10")})
		case 3:
			out = append(out, []string{"APPEND", "s", g.pick("a", "b", "c")})
		case 4:
			out = append(out, []string{"GET", g.pick("cnt", "s", "m1", "m2")})
		case 5:
			out = append(out, []string{"MSET", "m1", fmt.Sprint(c), "m2", fmt.Sprint(c)})
		case 6:
			out = append(out, []string{"MGET", "m1", "m2"})
		case 7:
			out = append(out, []string{"MSETNX", "n1", fmt.Sprint(c), "n2", fmt.Sprint(c)})
		case 8:
			out = append(out, []string{"MGET", "n1", "n2"})
		case 9, 10:
			out = append(out, []string{g.pick("LPUSH", "RPUSH"), "l" + k(), fmt.Sprintf("v%d_%d", c, i)})
		case 11:
			out = append(out, []string{g.pick("LPOP", "RPOP"), "l" + k()})
		case 12:
			out = append(out, []string{"LMOVE", "l" + k(), "l" + k(), g.pick("LEFT", "RIGHT"), g.pick("LEFT", "RIGHT")})
		case 13:
			out = append(out, []string{"LRANGE", "l" + k(), "0", "-1"})
		case 14:
			out = append(out, []string{"HINCRBY", "h", "f", g.pick("1", "5")})
		case 15:
			out = append(out, []string{"SADD", "s" + k(), g.pick("a", "b", "c")})
		case 16:
			out = append(out, []string{"SMOVE", "s" + k(), "s" + k(), g.pick("a", "b", "c")})
		case 17:
			out = append(out, []string{g.pick("SINTERSTORE", "SUNIONSTORE", "SDIFFSTORE"), "sd", "sx", "sy"})
		case 18:
			out = append(out, []string{"SCARD", g.pick("sx", "sy", "sd")})
		case 19:
			out = append(out, []string{"RENAME", g.pick("lx", "sx", "s", "cnt"), g.pick("ly", "sy", "t")})
		case 20:
			out = append(out, []string{g.pick("DEL", "EXISTS", "TOUCH"), "lx", "ly", "sx", "sy"})
		case 21:
			out = append(out, []string{"COPY", g.pick("lx", "sx", "h"), g.pick("ly", "sy", "h2"), "REPLACE"})
		case 22:
			out = append(out, []string{"SETBIT", "bm", g.pick("1", "9", "17"), "1"}, []string{"BITOP", "OR", "bo", "bm", "s"})
		case 23:
			// a transaction: its commands must not interleave with anybody else's
			out = append(out, []string{"MULTI"}, []string{"INCR", "cnt"}, []string{"INCR", "cnt"}, []string{"GET", "cnt"}, []string{"EXEC"})
		case 24:
			out = append(out, []string{"SETNX", "lock", fmt.Sprint(c)})
		case 25, 26:
			// a transaction that switches into the other database and back (connections with an even
			// number live in database 0, odd ones in database 1)
			own, other := fmt.Sprint(c%2), fmt.Sprint(1-c%2)
			out = append(out, []string{"MULTI"}, []string{"INCR", "cnt"}, []string{"SELECT", other}, []string{"INCR", "cnt"}, []string{"SELECT", own}, []string{"GET", "cnt"}, []string{"EXEC"})
		case 28:
			out = append(out, [][]string{{"SORT", "l" + k(), "ALPHA", "STORE", "l" + k()}, {"SORT", "s" + k(), "ALPHA", "STORE", "l" + k()}, {"INCRBYFLOAT", "fl", g.pick("0.5", "-0.25", "1")},
				{"HINCRBYFLOAT", "h", "g", g.pick("0.5", "0.1")}, {"LCS", "s", "m1", g.pick("LEN", "IDX")}, {"SORT", "l" + k(), "ALPHA", "LIMIT", "0", "2"}}[g.r.Intn(6)])
		case 27:
			// a key watched in the other database
			own, other := fmt.Sprint(c%2), fmt.Sprint(1-c%2)
			out = append(out, []string{"SELECT", other}, []string{"WATCH", "cnt"}, []string{"SELECT", own}, []string{"MULTI"}, []string{"APPEND", "s", "w"}, []string{"EXEC"})
		default:
			out = append(out, []string{"GETSET", "s", fmt.Sprintf("g%d", c)})
		}
	}
	return out
}

func runC08(cfg runCfg, res *Result) error {
	g := newGen(cfg.seed)
	n := 60
	if cfg.tier == "thorough" {
		n = 1500
	}
	srv, err := startServer("")
	if err != nil {
		return err
	}
	defer srv.Kill()
	mdl, err := startModel(cfg.modelPath)
	if err != nil {
		return err
	}
	defer mdl.Close()

	check := func(ops []cop) (string, error) {
		for i := range ops {
			var nd Node
			if err := json.Unmarshal([]byte(ops[i].Reply), &nd); err != nil {
				return "", err
			}
			ops[i].node = &nd
		}
		ok, explored, err := linearizable(mdl, ops)
		res.Extra["search_nodes"] = toInt(res.Extra["search_nodes"]) + explored
		if err != nil {
			return "", err
		}
		if !ok {
			return "no sequential order of the commands (respecting each connection's order and real time) explains the replies the clients received", nil
		}
		return "", nil
	}

	if cfg.replay != "" {
		b, err := os.ReadFile(cfg.replay)
		if err != nil {
			return err
		}
		var rp struct {
			Kind string `json:"kind"`
			Case []cop  `json:"case"`
		}
		if err := json.Unmarshal(b, &rp); err != nil {
			return err
		}
		if rp.Kind == "volume" {
			return c08VolumeReplay(cfg, res, srv, mdl, b)
		}
		if rp.Kind == "snapshot" {
			for i := 0; i < 3 && len(res.Mismatches) == 0; i++ {
				if err := c08Snapshot(cfg, res, srv, i); err != nil {
					return err
				}
			}
			return nil
		}
		if rp.Kind == "watched" {
			for i := 0; i < 3 && len(res.Mismatches) == 0; i++ {
				if err := c08Watched(cfg, res, srv, i); err != nil {
					return err
				}
			}
			return nil
		}
		if rp.Kind == "conditional" {
			for i := 0; i < 3 && len(res.Mismatches) == 0; i++ {
				if err := c08Conditional(cfg, res, srv, i); err != nil {
					return err
				}
			}
			return nil
		}
		why, err := check(rp.Case)
		if err != nil {
			return err
		}
		res.Histories = 1
		if why != "" {
			res.Mismatches = append(res.Mismatches, &Mismatch{Index: -1, Op: "recorded history re-checked against the model", Why: why})
		}
		return nil
	}

	for h := 0; h < n && len(res.Mismatches) < 3; h++ {
		k := 2 + g.r.Intn(3)
		conns := make([]*Conn, k+1)
		for i := range conns {
			if conns[i], err = dial(srv.Port); err != nil {
				return err
			}
		}
		conns[k].Do(3*time.Second, bs("FLUSHALL")...)
		progs := make([][][]string, k)
		hot := h%4 == 3
		for c := 0; c < k; c++ {
			if hot {
				// contention on single keys: read-modify-write commands only
				for j := 0; j < 12; j++ {
					progs[c] = append(progs[c], [][]string{{"INCR", "cnt"}, {"APPEND", "s", "x"}, {"HINCRBY", "h", "f", "1"}, {"RPUSH", "lx", fmt.Sprintf("v%d_%d", c, j)},
						{"LPOP", "lx"}, {"LMOVE", "lx", "ly", "LEFT", "RIGHT"}, {"SADD", "sx", fmt.Sprintf("m%d", j%3)}, {"SMOVE", "sx", "sy", fmt.Sprintf("m%d", j%3)}}[g.r.Intn(8)])
				}
			} else {
				progs[c] = genC08Client(g, c+1, 3+g.r.Intn(6))
			}
		}
		var mu sync.Mutex
		var ops []cop
		var wg sync.WaitGroup
		start := make(chan struct{})
		failed := ""
		for c := 0; c < k; c++ {
			wg.Add(1)
			go func(c int) {
				defer wg.Done()
				<-start
				for _, a := range progs[c] {
					t0 := time.Now().UnixNano()
					nd, err := conns[c].Do(4*time.Second, bs(a...)...)
					t1 := time.Now().UnixNano()
					if err != nil {
						mu.Lock()
						failed = fmt.Sprintf("connection %d got no reply to %v: %v", c+1, a, err)
						mu.Unlock()
						return
					}
					b, _ := json.Marshal(nd)
					mu.Lock()
					ops = append(ops, cop{Conn: c + 1, Args: hexs(a...), Inv: t0, Resp: t1, Reply: string(b)})
					mu.Unlock()
				}
			}(c)
		}
		close(start)
		wg.Wait()
		// final observation by a further connection, after everything
		for _, a := range [][]string{{"GET", "cnt"}, {"GET", "s"}, {"MGET", "m1", "m2", "n1", "n2", "lock", "t"}, {"LRANGE", "lx", "0", "-1"}, {"LRANGE", "ly", "0", "-1"},
			{"SMEMBERS", "sx"}, {"SMEMBERS", "sy"}, {"SMEMBERS", "sd"}, {"HGET", "h", "f"}, {"HGET", "h", "g"}, {"GET", "fl"}, {"GET", "bo"}, {"KEYS", "*"},
			{"SELECT", "1"}, {"GET", "cnt"}, {"GET", "s"}, {"LRANGE", "lx", "0", "-1"}, {"SMEMBERS", "sx"}, {"KEYS", "*"}, {"SELECT", "0"}} {
			t0 := time.Now().UnixNano()
			nd, err := conns[k].Do(4*time.Second, bs(a...)...)
			t1 := time.Now().UnixNano()
			if err != nil {
				failed = fmt.Sprintf("observer got no reply to %v: %v", a, err)
				break
			}
			b, _ := json.Marshal(nd)
			ops = append(ops, cop{Conn: k + 1, Args: hexs(a...), Inv: t0, Resp: t1, Reply: string(b)})
		}
		for _, c := range conns {
			c.Close()
		}
		res.Histories++
		res.Steps += len(ops)
		for _, o := range ops {
			res.CmdHist[strings.ToLower(string(unhex(o.Args[0])))]++
		}
		sort.Slice(ops, func(i, j int) bool { return ops[i].Inv < ops[j].Inv })
		if len(res.Samples) < 2 {
			s := fmt.Sprintf("%d concurrent connections:", k)
			for c := 0; c < k; c++ {
				s += fmt.Sprintf(" c%d=%v", c+1, progs[c])
			}
			res.Samples = append(res.Samples, s)
		}
		why := failed
		if why == "" {
			if !srv.Alive() {
				why = "emulator process died: " + tail(srv.Stderr(), 400)
			} else {
				why, err = check(ops)
				if err != nil {
					return err
				}
			}
		}
		if why != "" {
			os.MkdirAll(cfg.replayDir, 0o755)
			path := filepath.Join(cfg.replayDir, fmt.Sprintf("C08-seed%d-%d.json", cfg.seed, len(res.Mismatches)+1))
			readable := []string{}
			for _, o := range ops {
				readable = append(readable, fmt.Sprintf("c%d [%d..%d] %q -> %s", o.Conn, o.Inv%1e9, o.Resp%1e9, unhexs(o.Args), o.Reply))
			}
			b, _ := json.MarshalIndent(map[string]any{"property": "C08", "kind": "concurrent-history", "seed": cfg.seed, "why": why, "case": ops, "readable": readable}, "", " ")
			os.WriteFile(path, b, 0o644)
			res.Mismatches = append(res.Mismatches, &Mismatch{Index: -1, Op: "concurrent history", Why: why})
			res.Replays = append(res.Replays, path)
			if !srv.Alive() {
				if srv, err = startServer(""); err != nil {
					return err
				}
			}
		}
	}
	if err := c08Volume(cfg, res, srv, mdl, g); err != nil {
		return err
	}
	res.Distinct = res.Histories
	_ = rand.Int
	return nil
}

func init() {
	streams["C08"] = runC08
	specialReplay["C08"] = true
}
