package main

// C19, start-up loader against PersistDir.v: a persist directory is filled with files under many
// names (snapshot names of several databases, non-canonical spellings of an index, temporary names,
// near-miss names, names of other bases, the same names below subdirectories), each holding either a
// loadable snapshot (with a marker that identifies the file) or a truncated one. The emulator is
// started on the directory; which file every database 0..15 was loaded from must be what the model's
// walk (load_plan) says for the same listing.

import (
	"encoding/hex"
	"encoding/json"
	"fmt"
	"io/fs"
	"math/rand"
	"os"
	"path/filepath"
	"strconv"
	"strings"
	"time"
)

type dirEnt struct {
	Rel   string `json:"path"`  // relative to the persist directory
	Valid bool   `json:"loads"` // holds a complete snapshot
}

type dirCase struct {
	Ents []dirEnt `json:"files"`
}

var dirNamePool = []string{"emu.db0", "emu.db1", "emu.db2", "emu.db3", "emu.db7", "emu.db15", "emu.db+3", "emu.db03", "emu.db-0", "emu.db+0", "emu.db007",
	"emu.db0.tmp", "emu.db1.tmp", "emu.db2.tmp", "emu.db15.tmp", "emu.db", "emu.dbx", "emu.db1x", "emu.db1 ", "emu.db 1", "emu.db1_0", "emu.db0x1", "emu.db1e0", "emu.db1.0",
	"emux.db1", "other.db2", "emu.d", "emu", "emu.db1.bak", "emu.db١", "EMU.DB1", "emu.DB1", "emu.db0~", "xemu.db0",
	"zz/emu.db0", "zz/emu.db1", "zz/emu.db4", "aa/emu.db0", "aa/emu.db2", "aa/emu.db5", "emu.db1.d/emu.db6", "zz/deep/emu.db8"}

func genDirCase(g *rand.Rand) dirCase {
	n := 2 + g.Intn(9)
	seen := map[string]bool{}
	var c dirCase
	for len(c.Ents) < n {
		nm := dirNamePool[g.Intn(len(dirNamePool))]
		if g.Intn(3) == 0 {
			nm = "emu.db" + strconv.Itoa(g.Intn(16))
		}
		if seen[nm] {
			continue
		}
		// a file and a directory cannot share a name
		clash := false
		for o := range seen {
			if strings.HasPrefix(o, nm+"/") || strings.HasPrefix(nm, o+"/") {
				clash = true
			}
		}
		if clash {
			continue
		}
		seen[nm] = true
		c.Ents = append(c.Ents, dirEnt{Rel: nm, Valid: g.Intn(6) != 0})
	}
	return c
}

// one loadable snapshot per marker, produced by the emulator itself
func makeSnapshot(srv *Server, dir string, marker int) ([]byte, error) {
	base := filepath.Join(dir, "src", fmt.Sprintf("c%d", marker), "x")
	os.MkdirAll(filepath.Dir(base), 0o755)
	p := freePort()
	id := 200 + marker
	if r, err := srv.Ctl(fmt.Sprintf("START %d %d %s", id, p, base), 15*time.Second); err != nil || !strings.HasPrefix(r, "STARTED") {
		return nil, fmt.Errorf("START: %v %q", err, r)
	}
	c, err := dial(p)
	if err != nil {
		return nil, err
	}
	c.Do(3*time.Second, bs("SET", "marker", strconv.Itoa(marker))...)
	c.Do(3*time.Second, bs("RPUSH", "l", "a", strconv.Itoa(marker))...)
	c.Close()
	srv.Ctl(fmt.Sprintf("CLOSE %d", id), 15*time.Second)
	return os.ReadFile(base + ".db0")
}

func runDirCase(srv *Server, mdl *Model, c dirCase) (string, error) {
	dir, err := os.MkdirTemp("", "verif-c19d-")
	if err != nil {
		return "", err
	}
	defer os.RemoveAll(dir)
	pdir := filepath.Join(dir, "snap")
	base := filepath.Join(pdir, "emu")
	for i, e := range c.Ents {
		b, err := makeSnapshot(srv, dir, i)
		if err != nil {
			return "", err
		}
		if !e.Valid {
			b = b[:len(b)*2/3]
		}
		path := filepath.Join(pdir, filepath.FromSlash(e.Rel))
		os.MkdirAll(filepath.Dir(path), 0o755)
		if err := os.WriteFile(path, b, 0o644); err != nil {
			return "", err
		}
	}
	// the walk order of the directory (filepath.WalkDir: lexical, directories in place)
	type went struct {
		sub   bool
		name  string
		index int
	}
	var walk []went
	filepath.WalkDir(pdir, func(path string, d fs.DirEntry, err error) error {
		if err != nil || d.IsDir() {
			return nil
		}
		rel, _ := filepath.Rel(pdir, path)
		rel = filepath.ToSlash(rel)
		for i, e := range c.Ents {
			if e.Rel == rel {
				walk = append(walk, went{sub: strings.Contains(rel, "/"), name: filepath.Base(path), index: i})
			}
		}
		return nil
	})
	line := "LOADDIR " + hex.EncodeToString([]byte("emu"))
	for _, w := range walk {
		ok := "0"
		if c.Ents[w.index].Valid {
			ok = "1"
		}
		sub := "0"
		if w.sub {
			sub = "1"
		}
		line += " " + sub + " " + hex.EncodeToString([]byte(w.name)) + " " + ok
	}
	ans, err := mdl.line(line)
	if err != nil {
		return "", err
	}
	if !strings.HasPrefix(ans, "PLAN") {
		return "", fmt.Errorf("model answered %q (the generator avoids indexes outside 0..15)", ans)
	}
	want := map[int]int{} // database -> marker
	for _, f := range strings.Fields(ans)[1:] {
		kv := strings.SplitN(f, ":", 2)
		db, _ := strconv.Atoi(kv[0])
		pos, _ := strconv.Atoi(kv[1])
		want[db] = walk[pos].index
	}
	p := freePort()
	if r, err := srv.Ctl(fmt.Sprintf("START 100 %d %s", p, base), 15*time.Second); err != nil || !strings.HasPrefix(r, "STARTED") {
		return "", fmt.Errorf("START on the prepared directory: %v %q", err, r)
	}
	defer srv.Ctl("CLOSE 100", 15*time.Second)
	cn, err := dial(p)
	if err != nil {
		return "the emulator does not accept connections after starting on the prepared directory: " + err.Error(), nil
	}
	defer cn.Close()
	for db := 0; db < 16; db++ {
		if _, err := cn.Do(3*time.Second, bs("SELECT", strconv.Itoa(db))...); err != nil {
			return "", err
		}
		m, err := cn.Do(3*time.Second, bs("GET", "marker")...)
		if err != nil {
			return "", err
		}
		sz, _ := cn.Do(3*time.Second, bs("DBSIZE")...)
		mk, has := want[db]
		switch {
		case !has && (!m.Nil || sz.Int != 0):
			return fmt.Sprintf("database %d must start empty (no file of the directory stands for it in the model's walk) but holds %d keys, marker %s", db, sz.Int, m.String()), nil
		case has && (m.Nil || string(m.Str) != strconv.Itoa(mk)):
			return fmt.Sprintf("database %d must start with the contents of %q (marker %d) but GET marker answers %s", db, c.Ents[mk].Rel, mk, m.String()), nil
		}
	}
	return "", nil
}

func runC19Dir(cfg runCfg, res *Result) error {
	srv, err := startServer("")
	if err != nil {
		return err
	}
	defer srv.Kill()
	mdl, err := startModel(cfg.modelPath)
	if err != nil {
		return err
	}
	defer mdl.Close()
	if cfg.replay != "" {
		raw, err := os.ReadFile(cfg.replay)
		if err != nil {
			return err
		}
		var rp struct {
			Case dirCase `json:"case"`
		}
		if err := json.Unmarshal(raw, &rp); err != nil {
			return err
		}
		why, err := runDirCase(srv, mdl, rp.Case)
		if err != nil {
			return err
		}
		res.Histories = 1
		if why != "" {
			res.Mismatches = append(res.Mismatches, &Mismatch{Index: -1, Op: "start-up loader", Why: why})
		}
		return nil
	}
	g := rand.New(rand.NewSource(cfg.seed + 1919))
	n := 40
	if cfg.tier == "thorough" {
		n = 600
	}
	files := 0
	for i := 0; i < n && len(res.Mismatches) < 3; i++ {
		c := genDirCase(g)
		why, err := runDirCase(srv, mdl, c)
		if err != nil {
			return err
		}
		res.Histories++
		files += len(c.Ents)
		for _, e := range c.Ents {
			k := "canonical snapshot name"
			switch {
			case strings.Contains(e.Rel, "/"):
				k = "file below a subdirectory"
			case strings.HasSuffix(e.Rel, ".tmp"):
				k = "temporary name"
			case !strings.HasPrefix(e.Rel, "emu.db"):
				k = "foreign name"
			default:
				if _, err := strconv.Atoi(strings.TrimPrefix(e.Rel, "emu.db")); err != nil || strings.ContainsAny(e.Rel, "+-") || (len(e.Rel) > 7 && e.Rel[6] == '0') {
					k = "near-miss or non-canonical index"
				}
			}
			if !e.Valid {
				k += " (truncated)"
			}
			res.CmdHist[k]++
		}
		if why == "" {
			continue
		}
		// shrink: drop files while the verdict stays
		for changed := true; changed && len(c.Ents) > 1; {
			changed = false
			for k := len(c.Ents) - 1; k >= 0; k-- {
				cand := dirCase{Ents: append(append([]dirEnt{}, c.Ents[:k]...), c.Ents[k+1:]...)}
				if w, err := runDirCase(srv, mdl, cand); err == nil && w != "" {
					c, why, changed = cand, w, true
				}
			}
		}
		os.MkdirAll(cfg.replayDir, 0o755)
		path := filepath.Join(cfg.replayDir, fmt.Sprintf("C19-seed%d-dir-%d.json", cfg.seed, len(res.Mismatches)+1))
		b, _ := json.MarshalIndent(map[string]any{"property": "C19", "kind": "start-up-directory", "seed": cfg.seed, "why": why, "case": c}, "", " ")
		os.WriteFile(path, b, 0o644)
		res.Mismatches = append(res.Mismatches, &Mismatch{Index: -1, Op: "start-up loader", Why: why})
		res.Replays = append(res.Replays, path)
	}
	res.Steps += files
	res.Extra["directory_files"] = files
	return nil
}

func init() {
	streams["C19D"] = runC19Dir
	specialReplay["C19D"] = true
}
