package main

// serve: child process hosting the real emulator (built from /repo's working tree
// with -tags verif). Control protocol on stdin/stdout, one line each way.

import (
	"bufio"
	"context"
	"encoding/hex"
	"encoding/json"
	"fmt"
	"os"
	"path/filepath"
	"strconv"
	"strings"
	"sync"
	"time"

	"github.com/jimsnab/go-lane"
	redisemu "github.com/jimsnab/go-redisemu"
)

func serveMain(args []string) {
	port := 0
	persist := ""
	for i := 0; i < len(args); i++ {
		switch args[i] {
		case "-port":
			i++
			port, _ = strconv.Atoi(args[i])
		case "-persist":
			i++
			persist = args[i]
		}
	}
	// the control protocol owns the real stdout; stray prints of the emulator go to stderr
	ctlOut := os.Stdout
	os.Stdout = os.Stderr
	l := lane.NewNullLane(context.Background())
	engs := map[int]*redisemu.RedisEmu{}
	start := func(id, p int, path string) {
		eng, err := redisemu.NewEmulator(l, p, "127.0.0.1", path, nil)
		if err != nil {
			fmt.Printf("ERR %v\n", err)
			return
		}
		eng.Start()
		engs[id] = eng
	}
	start(0, port, persist)
	out := bufio.NewWriter(ctlOut)
	crashDir := ""
	crashN := 0
	crashSrc := persist
	// schedule points of the block/wake loop: a goroutine reaching a point for which a rule
	// exists waits there until it is released
	var parkMu sync.Mutex
	parkRules := map[string]bool{}       // "point id" or "point *"
	parked := map[string]chan struct{}{} // "point id" -> release channel
	// schedule points of the connection event loops ("cxn.*"): recorded per client id, in the order reported
	var cxnMu sync.Mutex
	cxnLog := map[int64][]string{}
	cxnSent := map[int64]int{}
	redisemu.VerifSetPointCallback(func(name string, id int64) {
		if strings.HasPrefix(name, "cxn.") {
			cxnMu.Lock()
			cxnLog[id] = append(cxnLog[id], name[4:])
			cxnMu.Unlock()
			return
		}
		if strings.HasPrefix(name, "block.") || strings.HasPrefix(name, "exec.") {
			key := fmt.Sprintf("%s %d", name, id)
			parkMu.Lock()
			if parkRules[key] || parkRules[name+" *"] {
				delete(parkRules, key)
				ch := make(chan struct{})
				parked[key] = ch
				parkMu.Unlock()
				select {
				case <-ch:
				case <-time.After(20 * time.Second):
				}
				return
			}
			parkMu.Unlock()
			return
		}
		if crashDir == "" || !strings.HasPrefix(name, "save.") {
			return
		}
		// what a crash at this point would leave on disk: copy every file of the snapshot directory
		crashN++
		dst := filepath.Join(crashDir, fmt.Sprintf("%04d-%s", crashN, name))
		os.MkdirAll(dst, 0o755)
		srcDir := filepath.Dir(crashSrc)
		ents, _ := os.ReadDir(srcDir)
		for _, e := range ents {
			if e.IsDir() {
				continue
			}
			b, err := os.ReadFile(filepath.Join(srcDir, e.Name()))
			if err == nil {
				os.WriteFile(filepath.Join(dst, e.Name()), b, 0o644)
			}
		}
	})
	fmt.Fprintf(out, "READY %d\n", port)
	out.Flush()

	sc := bufio.NewScanner(os.Stdin)
	sc.Buffer(make([]byte, 1<<20), 1<<26)
	for sc.Scan() {
		f := strings.Fields(sc.Text())
		if len(f) == 0 {
			continue
		}
		switch f[0] {
		case "PING":
			fmt.Fprintln(out, "PONG")
		case "DUMP": // DUMP <eng> <db>
			e, _ := strconv.Atoi(f[1])
			n, _ := strconv.Atoi(f[2])
			d := engs[e].VerifDump(n)
			b, _ := json.Marshal(d)
			fmt.Fprintln(out, string(b))
		case "DBS":
			e, _ := strconv.Atoi(f[1])
			b, _ := json.Marshal(engs[e].VerifDbIndexes())
			fmt.Fprintln(out, string(b))
		case "HASH":
			s, _ := hex.DecodeString(f[1])
			fmt.Fprintf(out, "%d\n", redisemu.VerifHash(string(s)))
		case "SAVE":
			e, _ := strconv.Atoi(f[1])
			err := engs[e].VerifSaveNow()
			fmt.Fprintf(out, "OK %v\n", err)
		case "CLOSE": // CLOSE <eng>: Close() and report how long it took
			e, _ := strconv.Atoi(f[1])
			t0 := time.Now()
			done := make(chan struct{})
			go func() { engs[e].Close(); close(done) }()
			select {
			case <-done:
				fmt.Fprintf(out, "CLOSED %d\n", time.Since(t0).Microseconds())
			case <-time.After(10 * time.Second):
				fmt.Fprintf(out, "TIMEOUT\n")
			}
		case "START": // START <eng> <port> [persist]
			e, _ := strconv.Atoi(f[1])
			p, _ := strconv.Atoi(f[2])
			path := ""
			if len(f) > 3 {
				path = f[3]
			}
			start(e, p, path)
			fmt.Fprintf(out, "STARTED %d\n", p)
		case "STARTCFG": // STARTCFG <eng> <port>: an emulator with non-default configuration (CLIENT SETINFO disabled, a dispatch hook on ECHO)
			e, _ := strconv.Atoi(f[1])
			p, _ := strconv.Atoi(f[2])
			eng, err := redisemu.NewEmulator(l, p, "127.0.0.1", "", nil)
			if err != nil {
				fmt.Fprintf(out, "ERR %v\n", err)
				break
			}
			eng.DisableClientSetInfo()
			eng.SetHook(func(cmd string, args map[string]any) (bool, any, error) {
				if strings.EqualFold(cmd, "echo") {
					return true, "hooked", nil
				}
				return false, nil, nil
			})
			eng.Start()
			engs[e] = eng
			fmt.Fprintf(out, "STARTED %d\n", p)
		case "CXNLOG": // the recorded connection-loop labels per client id (JSON)
			// every connection that has reported since the last request, with its WHOLE sequence (a dispatcher
			// goroutine may report after its connection has terminated and been fetched)
			cxnMu.Lock()
			m := map[string][]string{}
			for id, l := range cxnLog {
				if len(l) > cxnSent[id] {
					m[strconv.FormatInt(id, 10)] = append([]string{}, l...)
					cxnSent[id] = len(l)
				}
			}
			cxnMu.Unlock()
			b, _ := json.Marshal(m)
			fmt.Fprintln(out, string(b))
		case "CRASHCOPY": // CRASHCOPY <dir>|off
			if f[1] == "off" {
				crashDir = ""
			} else {
				crashDir = f[1]
				crashN = 0
			}
			fmt.Fprintln(out, "OK")
		case "PARK": // PARK <point> <id|*>: the next goroutine reaching the point with that client id waits
			parkMu.Lock()
			parkRules[f[1]+" "+f[2]] = true
			parkMu.Unlock()
			fmt.Fprintln(out, "OK")
		case "UNPARK": // forget a rule that was not hit
			parkMu.Lock()
			delete(parkRules, f[1]+" "+f[2])
			parkMu.Unlock()
			fmt.Fprintln(out, "OK")
		case "PARKED": // is a goroutine waiting at <point> <id>?
			parkMu.Lock()
			_, ok := parked[f[1]+" "+f[2]]
			parkMu.Unlock()
			fmt.Fprintln(out, ok)
		case "RELEASE": // RELEASE <point> <id> | RELEASE all
			parkMu.Lock()
			if f[1] == "all" {
				for k, ch := range parked {
					close(ch)
					delete(parked, k)
				}
				for k := range parkRules {
					delete(parkRules, k)
				}
			} else if ch, ok := parked[f[1]+" "+f[2]]; ok {
				close(ch)
				delete(parked, f[1]+" "+f[2])
			}
			parkMu.Unlock()
			fmt.Fprintln(out, "OK")
		case "CLIENTS":
			fmt.Fprintf(out, "%d\n", redisemu.VerifClientCount())
		case "WORD":
			id, _ := strconv.ParseInt(f[1], 10, 64)
			fmt.Fprintf(out, "%d\n", redisemu.VerifClientWord(id))
		case "PARSE":
			var b []byte
			if f[1] != "-" {
				b, _ = hex.DecodeString(f[1])
			}
			r, n, ok, p := redisemu.VerifParse(l, b)
			fmt.Fprintf(out, "%v %d %q %s\n", ok, n, p, r)
		case "EXIT":
			out.Flush()
			os.Exit(0)
		default:
			fmt.Fprintln(out, "ERR unknown control")
		}
		out.Flush()
	}
}
