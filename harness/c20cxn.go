package main

// C20, trace inclusion for the connection event loop: the verif build reports the schedule points
// "cxn.*" of clientCxn.go (event taken, follow-up queued, the two looks at `closing`, read started /
// ended, reply written, close requested, terminated) per client; every recorded sequence must be a run
// of the transition system Cxn.v (extracted `cstep`, driver command CXN), and after Close() has returned
// every connection's run must have reached PDone. The theorems of PropC20Cxn.v hold for all runs of
// Cxn.v, so they hold for every recorded behaviour.

import (
	"encoding/json"
	"fmt"
	"sort"
	"strings"
	"time"
)

type cxnCheck struct {
	Conns  int `json:"connections"`
	Labels int `json:"labels"`
	Done   int `json:"reached_done"`
}

// fetches and forgets the recorded labels; mustBeDone: every recorded connection must have terminated
func checkCxnLogs(srv *Server, mdl *Model, mustBeDone bool, tot *cxnCheck) (string, map[string]any, error) {
	line, err := srv.Ctl("CXNLOG", 20*time.Second)
	if err != nil {
		return "", nil, err
	}
	var logs map[string][]string
	if err := json.Unmarshal([]byte(line), &logs); err != nil {
		return "", nil, fmt.Errorf("CXNLOG: %v", err)
	}
	ids := make([]string, 0, len(logs))
	for id := range logs {
		ids = append(ids, id)
	}
	sort.Strings(ids)
	for _, id := range ids {
		ls := logs[id]
		ans, err := mdl.line("CXN " + strings.Join(ls, " "))
		if err != nil {
			return "", nil, err
		}
		tot.Conns++
		tot.Labels += len(ls)
		f := strings.Fields(ans)
		switch {
		case len(f) >= 2 && f[0] == "REJECT":
			var pos int
			fmt.Sscan(f[1], &pos)
			from := pos - 12
			if from < 0 {
				from = 0
			}
			return fmt.Sprintf("the event loop of client %s took a step the model of clientCxn.go does not have: label %d %q after ... %s (state before: %s)",
					id, pos, ls[pos], strings.Join(ls[from:pos], " "), strings.Join(f[2:], " ")),
				map[string]any{"client": id, "labels": ls, "rejected_at": pos}, nil
		case len(f) >= 2 && f[0] == "OK":
			if f[1] == "PDone" {
				tot.Done++
			} else if mustBeDone {
				from := len(ls) - 12
				if from < 0 {
					from = 0
				}
				return fmt.Sprintf("Close() has returned but the event loop of client %s has not ended: it is at %s after ... %s", id, strings.Join(f[1:], " "), strings.Join(ls[from:], " ")),
					map[string]any{"client": id, "labels": ls, "state": strings.Join(f[1:], " ")}, nil
			}
		default:
			return "", nil, fmt.Errorf("model answered %q to CXN", ans)
		}
	}
	return "", nil, nil
}
