package main

// C19: persistence. Restart after a clean shutdown restores the acknowledged state;
// the on-disk state at every stage of a save loads as the previous or the new snapshot.

import (
	"encoding/json"
	"fmt"
	"math/rand"
	"os"
	"path/filepath"
	"sort"
	"strconv"
	"strings"
	"time"
)

type c19Case struct {
	A []Op `json:"ops_before_first_save"`
	B []Op `json:"ops_after_first_save"`
}

func doOp(c *Conn, o Op) (*Node, error) {
	if o.SleepMs > 0 {
		time.Sleep(time.Duration(o.SleepMs) * time.Millisecond)
	}
	return c.Do(4*time.Second, o.bytesArgs()...)
}

// canonical text of everything visible in databases 0..2, one entry per database
func snapshotText(port int) (res []string, rerr error) {
	c, err := dial(port)
	if err != nil {
		return nil, err
	}
	defer c.Close()
	// a read that gets no reply (the emulator died or hangs) ends the snapshot with an error
	defer func() {
		if r := recover(); r != nil {
			res, rerr = nil, fmt.Errorf("the emulator stopped answering while its contents were read (%v)", r)
		}
	}()
	var out []string
	for db := 0; db < 3; db++ {
		if _, err := c.Do(3*time.Second, bs("SELECT", strconv.Itoa(db))...); err != nil {
			return nil, err
		}
		n, err := c.Do(3*time.Second, bs("KEYS", "*")...)
		if err != nil {
			return nil, err
		}
		var keys []string
		for _, e := range n.Elems {
			keys = append(keys, string(e.Str))
		}
		sort.Strings(keys)
		var sb strings.Builder
		for _, k := range keys {
			ty, _ := c.Do(3*time.Second, bs("TYPE", k)...)
			ex, _ := c.Do(3*time.Second, bs("PEXPIRETIME", k)...)
			fmt.Fprintf(&sb, "%q type=%s deadline=%d ", k, ty.Str, ex.Int)
			switch string(ty.Str) {
			case "string":
				v, _ := c.Do(3*time.Second, bs("GET", k)...)
				fmt.Fprintf(&sb, "%q", v.Str)
			case "list":
				v, _ := c.Do(3*time.Second, bs("LRANGE", k, "0", "-1")...)
				sb.WriteString(canonNode(v))
				// and from the tail (the back links of the list)
				for _, ix := range []string{"-1", "-2", "-3"} {
					e, _ := c.Do(3*time.Second, bs("LINDEX", k, ix)...)
					if e != nil {
						sb.WriteString(" " + ix + "=" + canonNode(e))
					}
				}
			case "hash":
				v, _ := c.Do(3*time.Second, bs("HGETALL", k)...)
				p, _ := pairStrings(v.Elems)
				sort.Strings(p)
				sb.WriteString(strings.Join(p, ","))
			case "set":
				v, _ := c.Do(3*time.Second, bs("SMEMBERS", k)...)
				var m []string
				for _, e := range v.Elems {
					m = append(m, string(e.Str))
				}
				sort.Strings(m)
				fmt.Fprintf(&sb, "%q", m)
			}
			sb.WriteString("\n")
		}
		sz, _ := c.Do(3*time.Second, bs("DBSIZE")...)
		fmt.Fprintf(&sb, "dbsize=%d", sz.Int)
		out = append(out, sb.String())
	}
	return out, nil
}

func genC19Ops(g *Gen, n int) []Op {
	var ops []Op
	for i := 0; i < n; i++ {
		switch x := g.r.Intn(100); {
		case x < 8:
			ops = append(ops, mkOp(1, "SELECT", g.pick("0", "1", "2")))
		case x < 11:
			ops = append(ops, mkOp(1, g.pick("FLUSHDB", "FLUSHDB", "FLUSHALL")))
		case x < 19:
			// values the snapshot encoding may treat as "absent": the empty key name, the empty string, empty
			// elements, fields, members; zero-looking numbers
			k := g.key()
			ops = append(ops, [](Op){mkOp(1, "SET", "", "value-of-the-empty-name", "EX", "3600"), mkOp(1, "RPUSH", "", "x", ""), mkOp(1, "SET", k, ""), mkOp(1, "RPUSH", k, "", "a", ""),
				mkOp(1, "HSET", k, "", "empty-field", "f", ""), mkOp(1, "SADD", k, "", "m"), mkOp(1, "SET", k, "0"), mkOp(1, "HSET", "", "", ""), mkOp(1, "SADD", "", ""), mkOp(1, "DEL", ""),
				mkOp(1, "SET", k, "\x00"), mkOp(1, "LSET", k, "0", ""), mkOp(1, "RPUSH", k, "e1", "e2", "e3", "e4", "e5"), mkOp(1, "LPUSH", "longlist", "x", "y", "z", "w")}[g.r.Intn(14)])
		case x < 55:
			// in-place changes, deletions and expiry changes are what a lazy dirty flag forgets
			ops = append(ops, g.typedWrite(1, g.key()))
		default:
			ops = append(ops, g.dataOp(1))
		}
	}
	return ops
}

func runC19(cfg runCfg, res *Result) error {
	g := newGen(cfg.seed)
	rounds := 90
	if cfg.tier == "thorough" {
		rounds = 600
	}
	report := func(kind, why string, payload any) {
		os.MkdirAll(cfg.replayDir, 0o755)
		path := filepath.Join(cfg.replayDir, fmt.Sprintf("C19-seed%d-%d.json", cfg.seed, len(res.Mismatches)+1))
		b, _ := json.MarshalIndent(map[string]any{"property": "C19", "kind": kind, "seed": cfg.seed, "why": why, "case": payload}, "", " ")
		os.WriteFile(path, b, 0o644)
		res.Mismatches = append(res.Mismatches, &Mismatch{Index: -1, Op: kind, Why: why})
		res.Replays = append(res.Replays, path)
	}
	var replayCase *c19Case
	if cfg.replay != "" {
		b, err := os.ReadFile(cfg.replay)
		if err != nil {
			return err
		}
		if strings.Contains(string(b), "\"kind\": \"start-up-directory\"") {
			return runC19Dir(cfg, res)
		}
		var rp struct {
			Case c19Case `json:"case"`
		}
		if err := json.Unmarshal(b, &rp); err != nil {
			return err
		}
		replayCase = &rp.Case
		rounds = 1
	}
	for round := 0; round < rounds && len(res.Mismatches) < 3; round++ {
		dir, err := os.MkdirTemp("", "verif-c19-")
		if err != nil {
			return err
		}
		why, cs, err := c19Round(g, dir, replayCase, res)
		os.RemoveAll(dir)
		if err != nil {
			return err
		}
		res.Histories++
		if why != "" {
			if replayCase != nil {
				res.Mismatches = append(res.Mismatches, &Mismatch{Index: -1, Op: "persistence", Why: why})
			} else {
				report("persistence", why, cs)
			}
		}
	}
	res.Distinct = res.Histories
	return nil
}

func firstDiff(a, b string) string {
	la, lb := strings.Split(a, "\n"), strings.Split(b, "\n")
	for i := 0; i < len(la) || i < len(lb); i++ {
		x, y := "", ""
		if i < len(la) {
			x = la[i]
		}
		if i < len(lb) {
			y = lb[i]
		}
		if x != y {
			return fmt.Sprintf("before %q / after %q", x, y)
		}
	}
	return ""
}

func c19Round(g *Gen, dir string, rc *c19Case, res *Result) (string, c19Case, error) {
	base := filepath.Join(dir, "snap", "emu")
	os.MkdirAll(filepath.Dir(base), 0o755)
	srv, err := startServer(base)
	if err != nil {
		return "", c19Case{}, err
	}
	defer srv.Kill()
	g.newHistory()
	cs := c19Case{}
	if rc != nil {
		cs = *rc
	} else {
		cs.A = append(g.seedOps(1), genC19Ops(g, 10+g.r.Intn(30))...)
		if x := g.r.Intn(100); x < 25 {
			// a single removal after the save, in each of the ways a key can go away (a key that only
			// gets a deadline in the past stays stored: the dirty flag is all that makes the saver write)
			k := g.key()
			cs.B = []Op{[]Op{mkOp(1, "UNLINK", k), mkOp(1, "UNLINK", k, g.key()), mkOp(1, "EXPIRE", k, "-1"), mkOp(1, "PEXPIRE", k, "0"), mkOp(1, "EXPIREAT", k, "1"),
				mkOp(1, "PEXPIREAT", k, "1"), mkOp(1, "GETEX", k, "PXAT", "1"), mkOp(1, "GETEX", k, "EX", "-1"), mkOp(1, "DEL", k), mkOp(1, "GETDEL", k), mkOp(1, "RENAME", k, g.key()),
				mkOp(1, "LTRIM", k, "1", "0"), mkOp(1, "SPOP", k, "100"), mkOp(1, "HDEL", k, "f1", "f2", "f3", "f4"), mkOp(1, "LPOP", k, "100"), mkOp(1, "GETEX", k, "PX", "-5"),
				mkOp(1, "SINTERSTORE", k, "nokey", "nokey2"), mkOp(1, "SORT", "nokey", "STORE", k), mkOp(1, "BITOP", "AND", k, "nokey"), mkOp(1, "LMOVE", k, g.key(), "LEFT", "LEFT")}[g.r.Intn(20)]}
		} else if x < 55 {
			// a single change after the save: nothing else can set the dirty flag for it
			cs.B = []Op{g.typedWrite(1, g.key())}
		} else {
			cs.B = genC19Ops(g, 2+g.r.Intn(20))
		}
	}
	c, err := dial(srv.Port)
	if err != nil {
		return "", cs, err
	}
	for _, o := range cs.A {
		if _, err := doOp(c, o); err != nil {
			return "emulator stopped answering during the history: " + err.Error(), cs, nil
		}
		res.Steps++
		res.CmdHist[strings.ToLower(string(o.bytesArgs()[0]))]++
	}
	if r, err := srv.Ctl("SAVE 0", 10*time.Second); err != nil || !strings.HasPrefix(r, "OK") {
		return "", cs, fmt.Errorf("SAVE: %v %q", err, r)
	}
	old, err := snapshotText(srv.Port)
	if err != nil {
		return "", cs, err
	}
	for _, o := range cs.B {
		if _, err := doOp(c, o); err != nil {
			return "emulator stopped answering during the history: " + err.Error(), cs, nil
		}
		res.Steps++
		res.CmdHist[strings.ToLower(string(o.bytesArgs()[0]))]++
	}
	c.Close()
	nw, err := snapshotText(srv.Port)
	if err != nil {
		return "", cs, err
	}
	if len(res.Samples) < 2 {
		s := ""
		for i, o := range cs.B {
			if i > 8 {
				break
			}
			s += o.String() + " ; "
		}
		res.Samples = append(res.Samples, "after the first save: "+s+" then save with crash copies, close, restart")
	}

	// crash points: what is on disk at every stage of this save
	crashDir := filepath.Join(dir, "crash")
	if _, err := srv.Ctl("CRASHCOPY "+crashDir, 5*time.Second); err != nil {
		return "", cs, err
	}
	if r, err := srv.Ctl("SAVE 0", 20*time.Second); err != nil || !strings.HasPrefix(r, "OK") {
		return "", cs, fmt.Errorf("SAVE: %v %q", err, r)
	}
	srv.Ctl("CRASHCOPY off", 5*time.Second)

	// a neighbour: another emulator of the same process whose persist path lies BELOW this one's directory
	// and has the same base name (a directory name that sorts after the snapshot files); what it saves
	// must not show up in, or replace, this emulator's databases at the restart below
	sib := filepath.Join(filepath.Dir(base), "zz", filepath.Base(base))
	os.MkdirAll(filepath.Dir(sib), 0o755)
	p9 := freePort()
	if r, err := srv.Ctl(fmt.Sprintf("START 9 %d %s", p9, sib), 15*time.Second); err != nil || !strings.HasPrefix(r, "STARTED") {
		return "", cs, fmt.Errorf("START neighbour: %v %q", err, r)
	}
	if nc, err := dial(p9); err == nil {
		nc.Do(3*time.Second, bs("SET", "neighbour-only", "1")...)
		nc.Do(3*time.Second, bs("SELECT", "2")...)
		nc.Do(3*time.Second, bs("RPUSH", "neighbour-list", "x", "y")...)
		nc.Close()
	}
	srv.Ctl("CLOSE 9", 15*time.Second)

	// clean shutdown and restart on the same path
	if r, err := srv.Ctl("CLOSE 0", 15*time.Second); err != nil || !strings.HasPrefix(r, "CLOSED") {
		return fmt.Sprintf("Close() did not return within 10 s (%q %v)", r, err), cs, nil
	}
	p2 := freePort()
	if r, err := srv.Ctl(fmt.Sprintf("START 1 %d %s", p2, base), 15*time.Second); err != nil || !strings.HasPrefix(r, "STARTED") {
		return "", cs, fmt.Errorf("START: %v %q", err, r)
	}
	after, err := snapshotText(p2)
	if err != nil {
		if !srv.Alive() {
			return "after the restart the emulator process died while its restored contents were read: " + tail(srv.Stderr(), 600), cs, nil
		}
		return "after the restart: " + err.Error(), cs, nil
	}
	// what was loaded is well-formed inside: list links both ways, cached counts, dictionary counters
	if why := integrityOf(srv, 1); why != "" {
		return "after restart: " + why, cs, nil
	}
	for db := range nw {
		if nw[db] != after[db] {
			return fmt.Sprintf("database %d differs after clean shutdown and restart: %s", db, firstDiff(nw[db], after[db])), cs, nil
		}
	}
	srv.Ctl("CLOSE 1", 15*time.Second)

	// every crash copy must load, per database, as the old or the new snapshot
	ents, _ := os.ReadDir(crashDir)
	sort.Slice(ents, func(i, j int) bool { return ents[i].Name() < ents[j].Name() })
	step := 1
	if len(ents) > 24 {
		step = len(ents) / 24
	}
	n := 0
	for i := 0; i < len(ents); i += step {
		e := ents[i]
		p3 := freePort()
		path := filepath.Join(crashDir, e.Name(), "emu")
		if r, err := srv.Ctl(fmt.Sprintf("START %d %d %s", 10+i, p3, path), 15*time.Second); err != nil || !strings.HasPrefix(r, "STARTED") {
			return "", cs, fmt.Errorf("START crash copy: %v %q", err, r)
		}
		got, err := snapshotText(p3)
		srv.Ctl(fmt.Sprintf("CLOSE %d", 10+i), 15*time.Second)
		if err != nil {
			return "", cs, err
		}
		n++
		for db := range got {
			if got[db] != old[db] && got[db] != nw[db] {
				return fmt.Sprintf("a crash at stage %s leaves database %d neither as the previous nor as the new snapshot: vs previous: %s; vs new: %s",
					e.Name(), db, firstDiff(old[db], got[db]), firstDiff(nw[db], got[db])), cs, nil
			}
		}
	}
	res.Extra["crash_points_checked"] = toInt(res.Extra["crash_points_checked"]) + n
	return "", cs, nil
}

func toInt(v any) int {
	if i, ok := v.(int); ok {
		return i
	}
	return 0
}

func init() {
	streams["C19"] = runC19
	specialReplay["C19"] = true
	_ = rand.Int
}
