package main

// factgen: a small go/ast pass over /repo that regenerates coq/Generated/LockFacts.v on every
// run: for each method of *dataStoreCommand — does it take the database lock for its whole body
// (first statement dsc.lock(), a deferred unlock), does it touch the store — and for each
// command handler — how many locking store methods it calls (one = the command is one lock section).

import (
	"fmt"
	"go/ast"
	"go/parser"
	"go/token"
	"os"
	"path/filepath"
	"sort"
	"strings"
)

type methodFact struct {
	Name     string
	Locks    bool // body starts with dsc.lock() and defers an unlock
	Touches  bool // reads or writes store state (dsc.ds.*) or calls an *Unlocked helper
	Unlocked bool // name says the caller holds the lock
	Sections int  // lock acquisitions in the body: dsc.lock()/acquireExclusive() calls plus calls of other locking methods
	body     *ast.BlockStmt
	recv     string
}

func isSelCall(e ast.Expr, recv, name string) bool {
	c, ok := e.(*ast.CallExpr)
	if !ok {
		return false
	}
	s, ok := c.Fun.(*ast.SelectorExpr)
	if !ok || s.Sel.Name != name {
		return false
	}
	id, ok := s.X.(*ast.Ident)
	return ok && id.Name == recv
}

func factgenMain(args []string) {
	repo, out := "/repo", ""
	for i := 0; i < len(args); i++ {
		switch args[i] {
		case "-repo":
			i++
			repo = args[i]
		case "-out":
			i++
			out = args[i]
		}
	}
	fset := token.NewFileSet()
	files, _ := filepath.Glob(filepath.Join(repo, "*.go"))
	var methods []methodFact
	lockingMethod := map[string]bool{}
	type handlerFact struct {
		Name  string
		Calls []string
	}
	var handlers []handlerFact
	var parsed []*ast.File
	for _, f := range files {
		if strings.HasSuffix(f, "_test.go") || strings.HasPrefix(filepath.Base(f), "verif_") {
			continue
		}
		af, err := parser.ParseFile(fset, f, nil, 0)
		if err != nil {
			fmt.Fprintln(os.Stderr, "factgen: parse error:", err)
			os.Exit(3)
		}
		parsed = append(parsed, af)
	}
	for _, af := range parsed {
		for _, d := range af.Decls {
			fd, ok := d.(*ast.FuncDecl)
			if !ok || fd.Body == nil || fd.Recv == nil || len(fd.Recv.List) != 1 {
				continue
			}
			st, ok := fd.Recv.List[0].Type.(*ast.StarExpr)
			if !ok {
				continue
			}
			id, ok := st.X.(*ast.Ident)
			if !ok || id.Name != "dataStoreCommand" || len(fd.Recv.List[0].Names) != 1 {
				continue
			}
			recv := fd.Recv.List[0].Names[0].Name
			m := methodFact{Name: fd.Name.Name, Unlocked: strings.HasSuffix(fd.Name.Name, "Unlocked")}
			// lock discipline: a top-level dsc.lock() immediately followed by a deferred unlock, and no
			// statement before it that touches the store
			touchesStore := func(n ast.Node) bool {
				found := false
				ast.Inspect(n, func(x ast.Node) bool {
					switch y := x.(type) {
					case *ast.SelectorExpr:
						if in, ok := y.X.(*ast.SelectorExpr); ok {
							if id, ok := in.X.(*ast.Ident); ok && id.Name == recv && in.Sel.Name == "ds" {
								found = true
							}
						}
					case *ast.CallExpr:
						if s, ok := y.Fun.(*ast.SelectorExpr); ok {
							if id, ok := s.X.(*ast.Ident); ok && id.Name == recv && strings.HasSuffix(s.Sel.Name, "Unlocked") {
								found = true
							}
						}
					}
					return true
				})
				return found
			}
			hasLock, hasDefer := false, false
			for i, s := range fd.Body.List {
				if es, ok := s.(*ast.ExprStmt); ok && (isSelCall(es.X, recv, "lock") || isSelCall(es.X, recv, "acquireExclusive")) {
					hasLock = true
					if i+1 < len(fd.Body.List) {
						if ds, ok := fd.Body.List[i+1].(*ast.DeferStmt); ok {
							if isSelCall(ds.Call, recv, "unlock") || isSelCall(ds.Call, recv, "unlockAndUnblock") || isSelCall(ds.Call, recv, "releaseExclusive") {
								hasDefer = true
							}
						}
					}
					break
				}
				if touchesStore(s) {
					break // the store is touched before any lock is taken
				}
			}
			m.Locks = hasLock && hasDefer
			ast.Inspect(fd.Body, func(n ast.Node) bool {
				switch x := n.(type) {
				case *ast.SelectorExpr:
					// dsc.ds.<field>
					if in, ok := x.X.(*ast.SelectorExpr); ok {
						if id, ok := in.X.(*ast.Ident); ok && id.Name == recv && in.Sel.Name == "ds" {
							m.Touches = true
						}
					}
				case *ast.CallExpr:
					if s, ok := x.Fun.(*ast.SelectorExpr); ok {
						if id, ok := s.X.(*ast.Ident); ok && id.Name == recv && strings.HasSuffix(s.Sel.Name, "Unlocked") {
							m.Touches = true
						}
					}
				}
				return true
			})
			m.body, m.recv = fd.Body, recv
			methods = append(methods, m)
			if m.Locks {
				lockingMethod[m.Name] = true
			}
		}
	}
	// how many lock sections a method consists of: two sections in one method make the command it
	// implements two steps, although every access is made under the lock
	for i := range methods {
		m := &methods[i]
		ast.Inspect(m.body, func(n ast.Node) bool {
			if c, ok := n.(*ast.CallExpr); ok {
				if isSelCall(c, m.recv, "lock") || isSelCall(c, m.recv, "acquireExclusive") {
					m.Sections++
				} else if s, ok := c.Fun.(*ast.SelectorExpr); ok {
					if id, ok := s.X.(*ast.Ident); ok && id.Name == m.recv && lockingMethod[s.Sel.Name] {
						m.Sections++
					}
				}
			}
			return true
		})
	}
	for _, af := range parsed {
		for _, d := range af.Decls {
			fd, ok := d.(*ast.FuncDecl)
			if !ok || fd.Body == nil || fd.Recv != nil || !strings.HasPrefix(fd.Name.Name, "fn") {
				continue
			}
			h := handlerFact{Name: fd.Name.Name}
			ast.Inspect(fd.Body, func(n ast.Node) bool {
				if c, ok := n.(*ast.CallExpr); ok {
					if s, ok := c.Fun.(*ast.SelectorExpr); ok {
						if in, ok := s.X.(*ast.SelectorExpr); ok && in.Sel.Name == "dsc" && lockingMethod[s.Sel.Name] {
							h.Calls = append(h.Calls, s.Sel.Name)
						}
					}
				}
				return true
			})
			handlers = append(handlers, h)
		}
	}
	// the dispatcher's handler table: every command name the emulator serves
	cmdNames := map[string]bool{}
	for _, af := range parsed {
		for _, d := range af.Decls {
			gd, ok := d.(*ast.GenDecl)
			if !ok {
				continue
			}
			for _, sp := range gd.Specs {
				vs, ok := sp.(*ast.ValueSpec)
				if !ok || len(vs.Names) != 1 || vs.Names[0].Name != "handlerTable" || len(vs.Values) != 1 {
					continue
				}
				cl, ok := vs.Values[0].(*ast.CompositeLit)
				if !ok {
					continue
				}
				for _, e := range cl.Elts {
					kv, ok := e.(*ast.KeyValueExpr)
					if !ok {
						continue
					}
					if bl, ok := kv.Key.(*ast.BasicLit); ok && bl.Kind == token.STRING {
						name := strings.Trim(bl.Value, "\"`")
						if i := strings.Index(name, "|"); i >= 0 {
							name = name[:i]
						}
						cmdNames[name] = true
					}
				}
			}
		}
	}
	if out != "" {
		var names []string
		for n := range cmdNames {
			names = append(names, n)
		}
		sort.Strings(names)
		var cb strings.Builder
		cb.WriteString("(* CmdFacts.v — GENERATED by `harness factgen` from /repo (cmdDispatcher.go: handlerTable) on every run. Do not edit. *)\n")
		cb.WriteString("From Coq Require Import String List.\nImport ListNotations.\nOpen Scope string_scope.\n\n")
		cb.WriteString("(* every command name of the dispatcher's handler table (sub-commands folded into their command) *)\n")
		cb.WriteString("Definition go_commands : list string := [\n")
		for i, n := range names {
			sep := ";"
			if i == len(names)-1 {
				sep = ""
			}
			fmt.Fprintf(&cb, "  %q%s\n", n, sep)
		}
		cb.WriteString("].\n")
		cpath := filepath.Join(filepath.Dir(out), "CmdFacts.v")
		if old, err := os.ReadFile(cpath); err != nil || string(old) != cb.String() {
			os.WriteFile(cpath, []byte(cb.String()), 0o644)
		}
	}
	sort.Slice(methods, func(i, j int) bool { return methods[i].Name < methods[j].Name })
	sort.Slice(handlers, func(i, j int) bool { return handlers[i].Name < handlers[j].Name })
	var sb strings.Builder
	sb.WriteString("(* LockFacts.v — GENERATED by `harness factgen` from /repo on every run. Do not edit. *)\n")
	sb.WriteString("From Coq Require Import String List Bool.\nImport ListNotations.\nOpen Scope string_scope.\n\n")
	sb.WriteString("(* (method of dataStoreCommand, takes the lock for its whole body, touches the store, name ends in Unlocked) *)\n")
	sb.WriteString("Definition store_methods : list (string * bool * bool * bool) := [\n")
	for i, m := range methods {
		sep := ";"
		if i == len(methods)-1 {
			sep = ""
		}
		fmt.Fprintf(&sb, "  (%q, %v, %v, %v)%s\n", m.Name, m.Locks, m.Touches, m.Unlocked, sep)
	}
	sb.WriteString("].\n\n(* (method of dataStoreCommand, lock acquisitions in its body: lock()/acquireExclusive() calls and calls of locking methods) *)\n")
	sb.WriteString("Definition method_sections : list (string * nat) := [\n")
	for i, m := range methods {
		sep := ";"
		if i == len(methods)-1 {
			sep = ""
		}
		fmt.Fprintf(&sb, "  (%q, %d)%s\n", m.Name, m.Sections, sep)
	}
	sb.WriteString("].\n\n(* (command handler, number of locking store methods it calls directly) *)\n")
	sb.WriteString("Definition handler_sections : list (string * nat) := [\n")
	for i, h := range handlers {
		sep := ";"
		if i == len(handlers)-1 {
			sep = ""
		}
		fmt.Fprintf(&sb, "  (%q, %d)%s\n", h.Name, len(h.Calls), sep)
	}
	sb.WriteString("].\n")
	if out == "" {
		fmt.Print(sb.String())
		return
	}
	os.MkdirAll(filepath.Dir(out), 0o755)
	// rewrite only when the content changed, so that make does not rebuild needlessly
	if old, err := os.ReadFile(out); err == nil && string(old) == sb.String() {
		return
	}
	os.WriteFile(out, []byte(sb.String()), 0o644)
}
