package main

// Command generators. One PRNG (seeded from VERIF_SEED) drives every choice.

import (
	"fmt"
	"math/big"
	"math/rand"
	"strconv"
	"strings"
	"time"
)

type Gen struct {
	r       *rand.Rand
	keys    []string
	hostile bool   // include CR/LF/NUL/0xFF in values
	focus   string // when set, most key choices of the current history go to this key
	bfType  string // BITFIELD: type and offsets the current history concentrates on
	bfOffs  []string
	refIdx  int // refusedMacro walks its templates in turn
}

func newGen(seed int64) *Gen {
	return &Gen{r: rand.New(rand.NewSource(seed)), keys: []string{"ka", "kb", "kc", "kd"}}
}

func (g *Gen) pick(ss ...string) string { return ss[g.r.Intn(len(ss))] }
func (g *Gen) key() string {
	if g.focus != "" && g.r.Intn(100) < 60 {
		return g.focus
	}
	return g.keys[g.r.Intn(len(g.keys))]
}

// newHistory re-draws the per-history concentration points
func (g *Gen) newHistory() {
	g.focus = ""
	if g.r.Intn(4) != 0 {
		g.focus = g.keys[g.r.Intn(len(g.keys))]
	}
	g.bfType = g.pick("u1", "u4", "u8", "i8", "i5", "u16", "i16", "i32", "u63", "i64", "i64", "u63", "u7", "i3")
	g.bfOffs = []string{g.pick("0", "1", "3", "7", "8", "13", "#0", "#1", "#2", "20"), g.pick("0", "5", "#1", "9")}
}

// boundary values of a BITFIELD type, as decimal text
func bfExtremes(ty string) []string {
	var w int
	fmt.Sscanf(ty[1:], "%d", &w)
	signed := ty[0] == 'i'
	var lo, hi *big.Int
	one := big.NewInt(1)
	if signed {
		hi = new(big.Int).Sub(new(big.Int).Lsh(one, uint(w-1)), one)
		lo = new(big.Int).Neg(new(big.Int).Lsh(one, uint(w-1)))
	} else {
		hi = new(big.Int).Sub(new(big.Int).Lsh(one, uint(w)), one)
		lo = big.NewInt(0)
	}
	out := []string{"0", "1", "-1", "2", lo.String(), hi.String(), new(big.Int).Sub(hi, one).String(), new(big.Int).Add(lo, one).String()}
	max64 := new(big.Int).Sub(new(big.Int).Lsh(one, 63), one)
	min64 := new(big.Int).Neg(new(big.Int).Lsh(one, 63))
	for _, v := range []*big.Int{new(big.Int).Add(hi, one), new(big.Int).Sub(lo, one), new(big.Int).Neg(hi), max64, min64} {
		if v.Cmp(max64) <= 0 && v.Cmp(min64) >= 0 {
			out = append(out, v.String())
		}
	}
	return out
}
func (g *Gen) chance(p float64) bool { return g.r.Float64() < p }

// random case of a keyword: the command table and option keywords are case-insensitive
func (g *Gen) kw(s string) string {
	switch g.r.Intn(4) {
	case 0:
		return strings.ToUpper(s)
	case 1:
		return strings.ToLower(s)
	case 2:
		b := []byte(strings.ToLower(s))
		for i := range b {
			if g.r.Intn(2) == 0 && b[i] >= 'a' && b[i] <= 'z' {
				b[i] -= 32
			}
		}
		return string(b)
	}
	return strings.ToUpper(s)
}

var strVals = []string{"", "0", "-1", "1", "10", "007", "+5", "-05", "-00", "-0012", "00", "- 5", "9223372036854775807", "-9223372036854775808",
	"9223372036854775806", "abc", "hello world", "a", "3", "-0", " 1", "1 ", "12abc", "0x10", "18446744073709551616"}

var hostileVals = []string{"\xe2\x82\xacuro", "\xe6\x97\xa5\xe6\x9c\xac", "a\xf0\x9f\x98\x80b", "a\r\nb", "\x00\xff\xfe", "\r", "\n", "$5\r\nhello\r\n", "+OK\r\n", "-ERR x\r\n", "\xc3\x28", "caf\xc3\xa9"}

func (g *Gen) val() string {
	if g.hostile && g.chance(0.3) {
		return g.pick(hostileVals...)
	}
	if g.chance(0.04) {
		return strings.Repeat("x", 300+g.r.Intn(50))
	}
	return g.pick(strVals...)
}

var boundaryInts = []string{"0", "1", "-1", "2", "-2", "3", "5", "-5", "7", "100", "-100", "2147483647", "2147483648",
	"4294967296", "9223372036854775807", "-9223372036854775808", "-9223372036854775807", "9223372036854775806"}

func (g *Gen) num() string {
	if g.chance(0.6) {
		return fmt.Sprint(g.r.Intn(15) - 7)
	}
	return g.pick(boundaryInts...)
}
func (g *Gen) idx() string { return fmt.Sprint(g.r.Intn(15) - 7) }
func (g *Gen) elem() string {
	if g.hostile && g.chance(0.2) {
		return g.pick(hostileVals...)
	}
	return g.pick("a", "b", "c", "a", "b")
}
func (g *Gen) field() string  { return g.pick("f1", "f2", "f3", "f4") }
func (g *Gen) member() string { return g.pick("a", "b", "c", "d") }
func (g *Gen) pattern() string {
	return g.pick("*", "k?", "ka", "k[ab]", "*a", "k*", "?b", "k[a-c]", "k[^a]", "x*", "k\\a", "**", "k[a", "*[bd]")
}

// a TTL that is safely in the future for the whole history, in the given unit
func (g *Gen) farTTL(unitMs int64) string {
	secs := int64(100 + g.r.Intn(900))
	return fmt.Sprint(secs * 1000 / unitMs)
}

type cmdGen func(g *Gen) []string

// catalog of well-formed command generators by family
var catalog = map[string]cmdGen{}
var families = map[string][]string{}

func reg(family, name string, f cmdGen) {
	catalog[name] = f
	families[family] = append(families[family], name)
}

func init() {
	// ---------- strings ----------
	reg("string", "set", func(g *Gen) []string {
		a := []string{g.kw("set"), g.key(), g.val()}
		var opts [][]string
		if g.chance(0.3) {
			opts = append(opts, []string{g.kw(g.pick("NX", "XX"))})
		}
		if g.chance(0.3) {
			opts = append(opts, []string{g.kw("GET")})
		}
		switch g.r.Intn(8) {
		case 0:
			opts = append(opts, []string{g.kw("EX"), g.farTTL(1000)})
		case 1:
			opts = append(opts, []string{g.kw("PX"), g.farTTL(1)})
		case 2:
			opts = append(opts, []string{g.kw("KEEPTTL")})
		case 3:
			opts = append(opts, []string{g.kw(g.pick("EX", "PX")), g.pick("0", "-1")})
		}
		g.r.Shuffle(len(opts), func(i, j int) { opts[i], opts[j] = opts[j], opts[i] })
		for _, o := range opts {
			a = append(a, o...)
		}
		return a
	})
	reg("string", "setnx", func(g *Gen) []string { return []string{g.kw("setnx"), g.key(), g.val()} })
	reg("string", "setex", func(g *Gen) []string {
		return []string{g.kw("setex"), g.key(), g.pick(g.farTTL(1000), g.farTTL(1000), "0", "-5"), g.val()}
	})
	reg("string", "psetex", func(g *Gen) []string {
		return []string{g.kw("psetex"), g.key(), g.pick(g.farTTL(1), g.farTTL(1), "0"), g.val()}
	})
	reg("string", "get", func(g *Gen) []string { return []string{g.kw("get"), g.key()} })
	reg("string", "getset", func(g *Gen) []string { return []string{g.kw("getset"), g.key(), g.val()} })
	reg("string", "getdel", func(g *Gen) []string { return []string{g.kw("getdel"), g.key()} })
	reg("string", "getex", func(g *Gen) []string {
		a := []string{g.kw("getex"), g.key()}
		switch g.r.Intn(5) {
		case 0:
			a = append(a, g.kw("EX"), g.farTTL(1000))
		case 1:
			a = append(a, g.kw("PX"), g.farTTL(1))
		case 2:
			a = append(a, g.kw("PERSIST"))
		}
		return a
	})
	reg("string", "mget", func(g *Gen) []string {
		a := []string{g.kw("mget")}
		for i := 0; i <= g.r.Intn(4); i++ {
			a = append(a, g.key())
		}
		return a
	})
	reg("string", "mset", func(g *Gen) []string {
		a := []string{g.kw("mset")}
		for i := 0; i <= g.r.Intn(3); i++ {
			a = append(a, g.key(), g.val())
		}
		return a
	})
	reg("string", "msetnx", func(g *Gen) []string {
		a := []string{g.kw("msetnx")}
		for i := 0; i <= g.r.Intn(3); i++ {
			a = append(a, g.key(), g.val())
		}
		return a
	})
	reg("string", "append", func(g *Gen) []string { return []string{g.kw("append"), g.key(), g.val()} })
	reg("string", "strlen", func(g *Gen) []string { return []string{g.kw("strlen"), g.key()} })
	reg("string", "getrange", func(g *Gen) []string {
		return []string{g.kw(g.pick("getrange", "substr")), g.key(), g.pick(g.idx(), g.idx(), "-100", "100"), g.pick(g.idx(), g.idx(), "-100", "100")}
	})
	reg("string", "setrange", func(g *Gen) []string {
		return []string{g.kw("setrange"), g.key(), g.pick("0", "1", "2", "3", "5", "9", "-1"), g.pick("", "x", "xy", "zzz")}
	})
	reg("string", "incr", func(g *Gen) []string { return []string{g.kw(g.pick("incr", "decr")), g.key()} })
	reg("string", "incrby", func(g *Gen) []string { return []string{g.kw(g.pick("incrby", "decrby")), g.key(), g.num()} })

	// ---------- lists ----------
	reg("list", "lpush", func(g *Gen) []string {
		a := []string{g.kw(g.pick("lpush", "rpush", "lpush", "rpush", "lpushx", "rpushx")), g.key()}
		for i := 0; i <= g.r.Intn(3); i++ {
			a = append(a, g.elem())
		}
		return a
	})
	reg("list", "lpop", func(g *Gen) []string {
		a := []string{g.kw(g.pick("lpop", "rpop")), g.key()}
		if g.chance(0.4) {
			a = append(a, g.pick("0", "1", "2", "3", "10", "-1"))
		}
		return a
	})
	reg("list", "llen", func(g *Gen) []string { return []string{g.kw("llen"), g.key()} })
	reg("list", "lindex", func(g *Gen) []string { return []string{g.kw("lindex"), g.key(), g.num()} })
	reg("list", "lrange", func(g *Gen) []string {
		if g.chance(0.25) {
			// a stop before the head of the list (empty range), a start behind the tail, both far outside
			return []string{g.kw("lrange"), g.key(), g.pick("0", "-3", "-100", "1", "-9223372036854775808"), g.pick("-4", "-5", "-8", "-100", "-9223372036854775808", "100")}
		}
		return []string{g.kw("lrange"), g.key(), g.num(), g.num()}
	})
	reg("list", "lset", func(g *Gen) []string { return []string{g.kw("lset"), g.key(), g.num(), g.elem()} })
	reg("list", "linsert", func(g *Gen) []string {
		return []string{g.kw("linsert"), g.key(), g.kw(g.pick("BEFORE", "AFTER")), g.elem(), g.pick("x", "y", "a")}
	})
	reg("list", "lrem", func(g *Gen) []string {
		return []string{g.kw("lrem"), g.key(), g.pick("0", "1", "-1", "2", "-2", "5"), g.elem()}
	})
	reg("list", "ltrim", func(g *Gen) []string { return []string{g.kw("ltrim"), g.key(), g.num(), g.num()} })
	reg("list", "lpos", func(g *Gen) []string {
		a := []string{g.kw("lpos"), g.key(), g.elem()}
		var opts [][]string
		if g.chance(0.5) {
			opts = append(opts, []string{g.kw("RANK"), g.pick("1", "2", "-1", "-2", "3", "0", "-3")})
		}
		if g.chance(0.5) {
			opts = append(opts, []string{g.kw("COUNT"), g.pick("0", "1", "2", "5", "-1")})
		}
		if g.chance(0.4) {
			opts = append(opts, []string{g.kw("MAXLEN"), g.pick("0", "1", "2", "3", "10", "-1")})
		}
		g.r.Shuffle(len(opts), func(i, j int) { opts[i], opts[j] = opts[j], opts[i] })
		for _, o := range opts {
			a = append(a, o...)
		}
		return a
	})
	reg("list", "lmove", func(g *Gen) []string {
		s := g.key()
		d := g.key()
		if g.chance(0.3) {
			d = s
		}
		return []string{g.kw("lmove"), s, d, g.kw(g.pick("LEFT", "RIGHT")), g.kw(g.pick("LEFT", "RIGHT"))}
	})
	reg("list", "rpoplpush", func(g *Gen) []string {
		s := g.key()
		d := g.key()
		if g.chance(0.3) {
			d = s
		}
		return []string{g.kw("rpoplpush"), s, d}
	})
	reg("list", "lmpop", func(g *Gen) []string {
		n := 1 + g.r.Intn(3)
		a := []string{g.kw("lmpop"), fmt.Sprint(n)}
		for i := 0; i < n; i++ {
			a = append(a, g.key())
		}
		a = append(a, g.kw(g.pick("LEFT", "RIGHT")))
		if g.chance(0.5) {
			a = append(a, g.kw("COUNT"), g.pick("1", "2", "3", "10"))
		}
		return a
	})

	// ---------- hashes ----------
	reg("hash", "hset", func(g *Gen) []string {
		a := []string{g.kw(g.pick("hset", "hset", "hmset")), g.key()}
		for i := 0; i <= g.r.Intn(3); i++ {
			a = append(a, g.field(), g.val())
		}
		return a
	})
	reg("hash", "hsetnx", func(g *Gen) []string { return []string{g.kw("hsetnx"), g.key(), g.field(), g.val()} })
	reg("hash", "hget", func(g *Gen) []string { return []string{g.kw("hget"), g.key(), g.field()} })
	reg("hash", "hmget", func(g *Gen) []string {
		a := []string{g.kw("hmget"), g.key()}
		for i := 0; i <= g.r.Intn(3); i++ {
			a = append(a, g.field())
		}
		return a
	})
	reg("hash", "hgetall", func(g *Gen) []string { return []string{g.kw(g.pick("hgetall", "hkeys", "hvals", "hlen")), g.key()} })
	reg("hash", "hexists", func(g *Gen) []string { return []string{g.kw(g.pick("hexists", "hstrlen")), g.key(), g.field()} })
	reg("hash", "hdel", func(g *Gen) []string {
		a := []string{g.kw("hdel"), g.key()}
		for i := 0; i <= g.r.Intn(3); i++ {
			a = append(a, g.field())
		}
		return a
	})
	reg("hash", "hincrby", func(g *Gen) []string { return []string{g.kw("hincrby"), g.key(), g.field(), g.num()} })
	reg("hash", "hrandfield", func(g *Gen) []string {
		a := []string{g.kw("hrandfield"), g.key()}
		if g.chance(0.7) {
			a = append(a, g.pick("0", "1", "2", "3", "5", "-1", "-2", "-5"))
			if g.chance(0.4) {
				a = append(a, g.kw("WITHVALUES"))
			}
		}
		return a
	})
	reg("hash", "hscan", func(g *Gen) []string {
		a := []string{g.kw("hscan"), g.key(), "0"}
		if g.chance(0.3) {
			a = append(a, g.kw("MATCH"), g.pick("*", "f?", "f1", "f[12]"))
		}
		if g.chance(0.3) {
			a = append(a, g.kw("COUNT"), g.pick("1", "2", "100", "0"))
		}
		return a
	})

	// ---------- sets ----------
	reg("set", "sadd", func(g *Gen) []string {
		a := []string{g.kw("sadd"), g.key()}
		for i := 0; i <= g.r.Intn(3); i++ {
			a = append(a, g.member())
		}
		return a
	})
	reg("set", "srem", func(g *Gen) []string {
		a := []string{g.kw("srem"), g.key()}
		for i := 0; i <= g.r.Intn(3); i++ {
			a = append(a, g.member())
		}
		return a
	})
	reg("set", "scard", func(g *Gen) []string { return []string{g.kw(g.pick("scard", "smembers")), g.key()} })
	reg("set", "sismember", func(g *Gen) []string { return []string{g.kw("sismember"), g.key(), g.member()} })
	reg("set", "smismember", func(g *Gen) []string {
		a := []string{g.kw("smismember"), g.key()}
		for i := 0; i <= g.r.Intn(3); i++ {
			a = append(a, g.member())
		}
		return a
	})
	reg("set", "smove", func(g *Gen) []string {
		s := g.key()
		d := g.key()
		if g.chance(0.25) {
			d = s
		}
		return []string{g.kw("smove"), s, d, g.member()}
	})
	reg("set", "srandmember", func(g *Gen) []string {
		a := []string{g.kw("srandmember"), g.key()}
		if g.chance(0.7) {
			a = append(a, g.pick("0", "1", "2", "3", "5", "-1", "-2", "-5"))
		}
		return a
	})
	reg("set", "sscan", func(g *Gen) []string {
		a := []string{g.kw("sscan"), g.key(), "0"}
		if g.chance(0.3) {
			a = append(a, g.kw("MATCH"), g.pick("*", "?", "a", "[ab]"))
		}
		return a
	})
	reg("set", "setop", func(g *Gen) []string {
		a := []string{g.kw(g.pick("sinter", "sunion", "sdiff"))}
		for i := 0; i <= g.r.Intn(3); i++ {
			a = append(a, g.key())
		}
		if g.chance(0.3) {
			// an operand that does not exist, at any position
			a[1+g.r.Intn(len(a)-1)] = "nokey_set"
			if g.chance(0.5) {
				a = append(a, g.key())
			}
		}
		return a
	})
	reg("set", "setopstore", func(g *Gen) []string {
		a := []string{g.kw(g.pick("sinterstore", "sunionstore", "sdiffstore")), g.key()}
		for i := 0; i <= g.r.Intn(3); i++ {
			a = append(a, g.key())
		}
		if g.chance(0.3) {
			a[2+g.r.Intn(len(a)-2)] = "nokey_set"
			if g.chance(0.5) {
				a = append(a, g.key())
			}
		}
		return a
	})
	reg("set", "sintercard", func(g *Gen) []string {
		n := 1 + g.r.Intn(3)
		a := []string{g.kw("sintercard"), fmt.Sprint(n)}
		for i := 0; i < n; i++ {
			a = append(a, g.key())
		}
		if g.chance(0.5) {
			a = append(a, g.kw("LIMIT"), g.pick("0", "1", "2", "5"))
		}
		return a
	})

	// ---------- keyspace ----------
	reg("key", "del", func(g *Gen) []string {
		a := []string{g.kw(g.pick("del", "unlink", "exists", "touch"))}
		for i := 0; i <= g.r.Intn(3); i++ {
			a = append(a, g.key())
		}
		return a
	})
	reg("key", "type", func(g *Gen) []string { return []string{g.kw("type"), g.key()} })
	reg("key", "rename", func(g *Gen) []string {
		s := g.key()
		d := g.key()
		return []string{g.kw(g.pick("rename", "renamenx")), s, d}
	})
	reg("key", "copy", func(g *Gen) []string {
		a := []string{g.kw("copy"), g.key(), g.key()}
		if g.chance(0.5) {
			a = append(a, g.kw("REPLACE"))
		}
		return a
	})
	reg("key", "keys", func(g *Gen) []string { return []string{g.kw("keys"), g.pattern()} })
	reg("key", "randomkey", func(g *Gen) []string { return []string{g.kw(g.pick("randomkey", "dbsize"))} })
	reg("key", "scan", func(g *Gen) []string {
		a := []string{g.kw("scan"), "0"}
		if g.chance(0.3) {
			a = append(a, g.kw("MATCH"), g.pattern())
		}
		if g.chance(0.3) {
			a = append(a, g.kw("COUNT"), g.pick("1", "100", "0"))
		}
		if g.chance(0.3) {
			a = append(a, g.kw("TYPE"), g.kw(g.pick("string", "list", "hash", "set", "zset")))
		}
		return a
	})

	// ---------- expiry ----------
	reg("expire", "expire", func(g *Gen) []string {
		a := []string{g.kw("expire"), g.key(), g.pick(g.farTTL(1000), g.farTTL(1000), "-1", "0")}
		if g.chance(0.5) {
			a = append(a, g.kw(g.pick("NX", "XX", "GT", "LT")))
		}
		return a
	})
	reg("expire", "pexpire", func(g *Gen) []string {
		a := []string{g.kw("pexpire"), g.key(), g.pick(g.farTTL(1), g.farTTL(1), "-1")}
		if g.chance(0.5) {
			a = append(a, g.kw(g.pick("NX", "XX", "GT", "LT")))
		}
		return a
	})
	// absolute deadlines: near future, decades, and centuries away (beyond what a time.Duration can hold,
	// about 292 years), and relative ones of the same magnitude
	reg("expire", "expireat", func(g *Gen) []string {
		now := time.Now().Unix()
		secs := []int64{now + 500 + int64(g.r.Intn(500)), 4102444800, 13569465600, 32503680000, 100000000000, 221845392000, now + 9300000000}[g.r.Intn(7)]
		var a []string
		if g.chance(0.5) {
			a = []string{g.kw("expireat"), g.key(), fmt.Sprint(secs)}
		} else {
			a = []string{g.kw("pexpireat"), g.key(), fmt.Sprint(secs * 1000)}
		}
		if g.chance(0.3) {
			a = append(a, g.kw(g.pick("NX", "XX", "GT", "LT")))
		}
		return a
	})
	reg("expire", "expirefar", func(g *Gen) []string {
		if g.chance(0.5) {
			return []string{g.kw("expire"), g.key(), g.pick("9300000000", "31536000000", "3153600000")}
		}
		return []string{g.kw("pexpire"), g.key(), g.pick("9300000000000", "31536000000000")}
	})
	reg("expire", "ttl", func(g *Gen) []string {
		return []string{g.kw(g.pick("ttl", "pttl", "expiretime", "pexpiretime")), g.key()}
	})
	reg("expire", "persist", func(g *Gen) []string { return []string{g.kw("persist"), g.key()} })

	// ---------- bits ----------
	reg("bits", "setbit", func(g *Gen) []string {
		return []string{g.kw("setbit"), g.key(), g.pick("0", "1", "7", "8", "9", "15", "23", "40", "-1"), g.pick("0", "1", "1", "2")}
	})
	reg("bits", "getbit", func(g *Gen) []string {
		return []string{g.kw("getbit"), g.key(), g.pick("0", "1", "7", "8", "9", "15", "23", "100", "-1")}
	})
	reg("bits", "bitcount", func(g *Gen) []string {
		a := []string{g.kw("bitcount"), g.key()}
		if g.chance(0.7) {
			a = append(a, g.idx(), g.idx())
			if g.chance(0.5) {
				a = append(a, g.kw(g.pick("BYTE", "BIT")))
			}
		}
		return a
	})
	reg("bits", "bitpos", func(g *Gen) []string {
		a := []string{g.kw("bitpos"), g.key(), g.pick("0", "1")}
		if g.chance(0.7) {
			a = append(a, g.idx())
			if g.chance(0.7) {
				a = append(a, g.idx())
				if g.chance(0.5) {
					a = append(a, g.kw(g.pick("BYTE", "BIT")))
				}
			}
		}
		return a
	})
	reg("bits", "bitop", func(g *Gen) []string {
		op := g.pick("AND", "OR", "XOR", "NOT")
		a := []string{g.kw("bitop"), g.kw(op), g.key()}
		n := 1
		if op != "NOT" {
			n = 1 + g.r.Intn(3)
		}
		for i := 0; i < n; i++ {
			a = append(a, g.key())
		}
		return a
	})
	reg("bits", "bitfield", func(g *Gen) []string {
		ro := g.chance(0.15)
		name := "bitfield"
		if ro {
			name = "bitfield_ro"
		}
		a := []string{g.kw(name), g.key()}
		n := 1 + g.r.Intn(4)
		if ro {
			n = 1 // more than one GET on BITFIELD_RO: known finding bitfield-ro-multi-get
		}
		for i := 0; i < n; i++ {
			ty := g.pick("u1", "u4", "u8", "i8", "i5", "u16", "i16", "i32", "u63", "i64", "u7", "i3")
			off := g.pick("0", "1", "3", "7", "8", "13", "#0", "#1", "#2", "20")
			if g.bfType != "" && g.chance(0.7) {
				ty = g.bfType
				off = g.bfOffs[g.r.Intn(len(g.bfOffs))]
			}
			if ro || g.chance(0.3) {
				a = append(a, g.kw("GET"), ty, off)
				continue
			}
			// the documented grammar puts OVERFLOW directly in front of a write operation
			if g.chance(0.6) {
				a = append(a, g.kw("OVERFLOW"), g.kw(g.pick("WRAP", "SAT", "FAIL")))
			}
			ex := bfExtremes(ty)
			v := ex[g.r.Intn(len(ex))]
			if g.chance(0.2) {
				v = g.num()
			}
			if g.chance(0.45) {
				if ty[0] == 'u' && v[0] == '-' {
					v = v[1:] // a negative value for an unsigned field is outside the compared domain (DESIGN.md, C18)
				}
				a = append(a, g.kw("SET"), ty, off, v)
			} else {
				a = append(a, g.kw("INCRBY"), ty, off, v)
			}
		}
		return a
	})

	// ---------- connection / misc ----------
	reg("misc", "ping", func(g *Gen) []string {
		if g.chance(0.5) {
			return []string{g.kw("ping")}
		}
		return []string{g.kw(g.pick("ping", "echo")), g.val()}
	})
}

// a counter brought next to an int64 boundary and then moved onto, or just past, it

// ---- LCS: two strings built from a small alphabet (many equally long common subsequences, so the
// choice among them and the reported ranges are exercised), then every reply form ----
func (g *Gen) lcsString() string {
	switch g.r.Intn(10) {
	case 0:
		return ""
	case 1:
		return g.pick("ohmytext", "mynewtext", "ab", "aab", "h\xc3\xa9llo", "\xff\xfe", "\xfe", "a\x00b", "\xe2\x82\xac")
	}
	alpha := g.pick("ab", "abc", "ab\xff", "xyz\xc3")
	n := g.r.Intn(14)
	b := make([]byte, n)
	for i := range b {
		b[i] = alpha[g.r.Intn(len(alpha))]
	}
	return string(b)
}

func (g *Gen) lcsArgs(k1, k2 string) []string {
	a := []string{g.kw("lcs"), k1, k2}
	switch g.r.Intn(8) {
	case 0:
	case 1:
		a = append(a, g.kw("LEN"))
	case 2:
		a = append(a, g.kw("IDX"))
	case 3:
		a = append(a, g.kw("IDX"), g.kw("MINMATCHLEN"), g.pick("0", "1", "2", "3", "-1", "100"))
	case 4:
		a = append(a, g.kw("IDX"), g.kw("MINMATCHLEN"), g.pick("1", "2", "3"), g.kw("WITHMATCHLEN"))
	case 5:
		a = append(a, g.kw("IDX"), g.kw("WITHMATCHLEN"))
	case 6:
		a = append(a, g.pick("LEN", "IDX", "MINMATCHLEN", "WITHMATCHLEN", "BOGUS"), g.pick("IDX", "LEN", "2", "x", "WITHMATCHLEN"))
	default:
		a = append(a, g.kw("MINMATCHLEN"), g.pick("2", "x", ""), g.kw("IDX"))
	}
	return a
}

func (g *Gen) lcsMacro(c int) []Op {
	k1, k2 := g.key(), g.key()
	var ops []Op
	first := ""
	if g.chance(0.85) {
		first = g.lcsString()
		ops = append(ops, mkOp(c, "SET", k1, first))
	}
	if g.chance(0.85) {
		s := g.lcsString()
		if g.chance(0.3) && len(ops) > 0 {
			// a variation of the first string: drop, double or change a few bytes
			b := []byte(first)
			for j := 0; j < 1+g.r.Intn(3) && len(b) > 0; j++ {
				i := g.r.Intn(len(b))
				switch g.r.Intn(3) {
				case 0:
					b = append(b[:i], b[i+1:]...)
				case 1:
					b = append(b[:i+1], b[i:]...)
				default:
					b[i] = "abz"[g.r.Intn(3)]
				}
			}
			s = string(b)
		}
		ops = append(ops, mkOp(c, "SET", k2, s))
	}
	for j := 0; j < 1+g.r.Intn(4); j++ {
		ops = append(ops, mkOp(c, g.lcsArgs(k1, k2)...))
	}
	return ops
}

// ---- SORT: a list or set of numbers / words, optional weight keys and hashes, every option ----
func (g *Gen) sortMacro(c int) []Op {
	src := g.key()
	var ops []Op
	numeric := g.chance(0.6)
	pool := []string{"3", "1", "2.5", "-4", "10", "2", "02", "+7", "0.50", ".5", "1.", "-0", "100", "1"}
	if !numeric {
		pool = []string{"b", "a", "c", "aa", "B", "", "ab", "a", "10", "9", "\xff", "z"}
	}
	if g.chance(0.1) {
		// clearly not numbers (forms that strtod and the model read differently - exponents, hex,
		// inf, leading blanks - are outside the modelled domain and are not generated)
		pool = append(pool, g.pick("abc", "--1", "1.2.3", "-", ".", "1a", "a1", "+-1", "1-"))
	}
	n := g.r.Intn(7)
	var elems []string
	for i := 0; i < n; i++ {
		elems = append(elems, pool[g.r.Intn(len(pool))])
	}
	kind := g.r.Intn(10)
	switch {
	case n == 0 || kind == 0:
		if g.chance(0.5) {
			ops = append(ops, mkOp(c, "DEL", src))
		}
	case kind < 6:
		ops = append(ops, mkOp(c, "DEL", src), mkOp(c, append([]string{"RPUSH", src}, elems...)...))
	case kind < 9:
		ops = append(ops, mkOp(c, "DEL", src), mkOp(c, append([]string{"SADD", src}, elems...)...))
	default:
		ops = append(ops, mkOp(c, "SET", src, "string"))
	}
	// weights and things to GET
	for _, e := range elems {
		if g.chance(0.5) {
			ops = append(ops, mkOp(c, "SET", "w_"+e, g.pick("1", "2", "2", "-1", "0.5", "x", "b", "a", "")))
		}
		if g.chance(0.3) {
			ops = append(ops, mkOp(c, "HSET", "h_"+e, "f", g.pick("1", "2", "3", "a", "b"), "g", g.pick("x", "y")))
		}
		if g.chance(0.1) {
			ops = append(ops, mkOp(c, "RPUSH", "w_"+e, "notastring"))
		}
	}
	for j := 0; j < 1+g.r.Intn(3); j++ {
		a := []string{g.kw("sort"), src}
		if g.chance(0.45) {
			a = append(a, g.kw("BY"), g.pick("w_*", "w_*", "h_*->f", "h_*->g", "nosort", "w_*->", "*", "nokey_*", "h_*->nofield", "h_*", "w_*->f", ""))
		}
		if g.chance(0.35) {
			a = append(a, g.kw("LIMIT"), g.pick("0", "1", "2", "-1", "5", "100", "9223372036854775807", "-9223372036854775808"),
				g.pick("0", "1", "2", "3", "-1", "100", "x", "9223372036854775807", "9223372036854775806", "-9223372036854775808"))
		}
		for x := 0; x < g.r.Intn(3); x++ {
			a = append(a, g.kw("GET"), g.pick("#", "w_*", "h_*->f", "h_*->g", "nostar", "h_*", "w_*->f", "*", "h_*->"))
		}
		if g.chance(0.4) {
			a = append(a, g.kw(g.pick("ASC", "DESC", "DESC")))
		}
		if g.chance(0.5) != numeric {
			a = append(a, g.kw("ALPHA"))
		}
		if g.chance(0.3) {
			a = append(a, g.kw("STORE"), g.pick(g.key(), src, "dst", "dst", ""))
		}
		if g.chance(0.04) {
			a = append(a, g.pick("BOGUS", "LIMIT", "GET", "BY", "STORE"))
		}
		ops = append(ops, mkOp(c, a...))
		if a[len(a)-2] == "STORE" || a[len(a)-2] == "store" {
			ops = append(ops, mkOp(c, "LRANGE", a[len(a)-1], "0", "-1"), mkOp(c, "TYPE", a[len(a)-1]), mkOp(c, "TTL", a[len(a)-1]))
		}
	}
	return ops
}

// ---- INCRBYFLOAT / HINCRBYFLOAT inside the modelled domain: decimals with at most 6 fractional
// digits and magnitude below 16 per step, sums kept below 30 (beyond that long double arithmetic
// shows binary noise in the 17th place and the exact-decimal model no longer describes redis) ----
func (g *Gen) smallDec() string {
	switch g.r.Intn(8) {
	case 0:
		return g.pick("0", "1", "-1", "0.1", "0.2", "-0.3", "2.5", "-.5", ".25", "1.", "+1.5", "10", "-10", "0.000001", "3.0", "007")
	case 1:
		return fmt.Sprint(g.r.Intn(21) - 10)
	}
	frac := g.r.Intn(7)
	v := g.r.Intn(2000000) - 1000000 // +-1.000000 scaled
	str := strconv.FormatFloat(float64(v)/1e5, 'f', frac, 64)
	if strings.Trim(str, "-0.") == "" {
		return "0" // a negative zero prints differently on the two sides of the reply conversion: not generated
	}
	return str
}

func (g *Gen) floatMacro(c int, hash bool) []Op {
	k := g.key()
	var ops []Op
	start := g.r.Intn(2)
	if hash {
		switch start {
		case 0:
			ops = append(ops, mkOp(c, "DEL", k))
		case 1:
			ops = append(ops, mkOp(c, "DEL", k), mkOp(c, "HSET", k, "f", g.smallDec(), "g", g.pick("abc", "", "1e", "1.2.3")))
		}
		for j := 0; j < 1+g.r.Intn(5); j++ {
			f := g.pick("f", "f", "f", "g", "new")
			if g.chance(0.15) {
				ops = append(ops, mkOp(c, g.kw("hincrbyfloat"), g.pick(k, k, g.key(), "nokey_h"), f, g.pick("abc", "", "1.2.3", "--1", "inf", "-inf", "nan", "+Infinity", "infinity", "0x1p-2", "-0X.8p1", "0x1_0p0", "0x10", "1_0", "0b1", ".", "+", "1e", "e5")),
					mkOp(c, "EXISTS", "nokey_h"), mkOp(c, "TYPE", "nokey_h"))
			} else {
				ops = append(ops, mkOp(c, g.kw("hincrbyfloat"), k, f, g.smallDec()))
			}
		}
		ops = append(ops, mkOp(c, "HGETALL", k), mkOp(c, "TTL", k))
		return ops
	}
	switch {
	case start == 0:
		ops = append(ops, mkOp(c, "DEL", k))
	case g.chance(0.5):
		ops = append(ops, mkOp(c, "SET", k, g.smallDec()))
	default:
		ops = append(ops, mkOp(c, "SET", k, g.smallDec(), "EX", "1000"))
	}
	for j := 0; j < 1+g.r.Intn(5); j++ {
		if g.chance(0.15) {
			ops = append(ops, mkOp(c, g.kw("incrbyfloat"), g.pick(k, k, "nokey_f"), g.pick("abc", "", "1.2.3", "--1", "1 ", "inf", "-inf", "nan", "infinity", "0x1p-2", "-0X.8p1", "0x1_0p0", "0x10", "1_0", "0b1", ".", "+", "1e", "e5")),
				mkOp(c, "EXISTS", "nokey_f"))
		} else {
			ops = append(ops, mkOp(c, g.kw("incrbyfloat"), k, g.smallDec()))
		}
	}
	ops = append(ops, mkOp(c, "GET", k), mkOp(c, "TTL", k))
	return ops
}

// ---- SET with two option groups (condition, GET, expiry) in either order, on a key of ANY type: the
// interplay of the groups (NX GET on a list is WRONGTYPE, XX GET on a missing key writes nothing ...) ----
func (g *Gen) setMacro(c int) []Op {
	k := g.pick(g.key(), g.key(), "nokey_s")
	var ops []Op
	for j := 0; j < 2+g.r.Intn(3); j++ {
		groups := [][]string{{g.kw(g.pick("NX", "XX"))}, {g.kw("GET")}, {g.kw("EX"), g.farTTL(1000)}}
		if g.chance(0.4) {
			groups[2] = []string{g.kw("PX"), g.farTTL(1)}
		}
		if g.chance(0.3) {
			groups[2] = []string{g.kw("KEEPTTL")}
		}
		drop := g.r.Intn(3)
		groups = append(groups[:drop], groups[drop+1:]...)
		if g.chance(0.5) {
			groups[0], groups[1] = groups[1], groups[0]
		}
		a := []string{g.kw("set"), k, g.val()}
		a = append(a, groups[0]...)
		a = append(a, groups[1]...)
		ops = append(ops, mkOp(c, a...), mkOp(c, "TYPE", k), mkOp(c, "TTL", k))
		if g.chance(0.3) {
			ops = append(ops, mkOp(c, "DEL", k))
		}
	}
	ops = append(ops, mkOp(c, "DEL", "nokey_s"))
	return ops
}

// ---- commands that must be refused (or have nothing to do), aimed at a key that does not exist and at keys
// of every type: afterwards the missing key must still be missing (no empty aggregate, no half-made value) ----
func (g *Gen) refusedMacro(c int) []Op {
	var ops []Op
	badf := func() string {
		if g.chance(0.5) {
			// accepted by strconv.ParseFloat (the argument parser), refused by the decimal arithmetic
			return g.pick("0x1p-2", "-0X.8p1", "0x1_0p0", "0x1P+3", "+0x.1p4")
		}
		return g.pick("abc", "", "1.2.3", "--1", "inf", "nan", "0x10", "1_0", ".", "1e", " 1")
	}
	badi := func() string {
		return g.pick("abc", "", "1.5", "--1", "9223372036854775808", "-9223372036854775809", "0x10", "1_0", " 1", "1 ", "+")
	}
	for j := 0; j < 3+g.r.Intn(4); j++ {
		k := g.pick("nokey_r", "nokey_r", g.key())
		t := [][]string{
			{"HINCRBYFLOAT", k, "f", badf()}, {"HINCRBY", k, "f", badi()}, {"INCRBYFLOAT", k, badf()}, {"INCRBY", k, badi()}, {"DECRBY", k, badi()},
			{"LINSERT", k, "BEFORE", "nopivot", "x"}, {"LINSERT", k, "MIDDLE", "a", "x"}, {"LSET", k, "0", "x"}, {"LSET", k, badi(), "x"},
			{"SETRANGE", k, "-1", "x"}, {"SETRANGE", k, badi(), "x"}, {"SETRANGE", k, "536870912", "x"}, {"SETBIT", k, "-1", "1"}, {"SETBIT", k, "0", "2"}, {"SETBIT", k, badi(), "1"},
			{"BITFIELD", k, "SET", "u99", "0", "1"}, {"BITFIELD", k, "SET", "u8", "0", badi()}, {"BITFIELD", k, "INCRBY", "i65", "0", "1"}, {"BITFIELD", k, "OVERFLOW", "NOPE", "SET", "u8", "0", "1"},
			{"LPUSHX", k, "x"}, {"RPUSHX", k, "x"}, {"RPOPLPUSH", k, "nokey_r2"}, {"LMOVE", k, "nokey_r2", "LEFT", "RIGHT"}, {"LMOVE", k, "nokey_r2", "UP", "RIGHT"}, {"SMOVE", k, "nokey_r2", "a"},
			{"RENAME", k, "nokey_r2"}, {"RENAMENX", k, "nokey_r2"}, {"COPY", k, "nokey_r2"}, {"LTRIM", k, "0", badi()}, {"LREM", k, badi(), "a"}, {"LPOP", k, "-1"}, {"LPOP", k, badi()},
			{"EXPIRE", k, badi()}, {"EXPIRE", k, "100", "NX", "XX"}, {"PEXPIRE", k, "100", "GT", "LT"}, {"GETEX", k, "EX", badi()}, {"GETEX", k, "EX", "0"}, {"GETEX", k, "PX", "-5"},
			{"SET", k, "v", "EX", badi()}, {"SET", k, "v", "EX", "0"}, {"SET", k, "v", "PX", "-1"}, {"SET", k, "v", "NX", "XX"}, {"SET", k, "v", "EX", "10", "PX", "10"}, {"SETEX", k, "0", "v"}, {"SETEX", k, badi(), "v"}, {"PSETEX", k, "-1", "v"},
			{"HSET", k, "f"}, {"HSET", k, "f", "v", "g"}, {"HMSET", k, "f"}, {"MSET", k}, {"MSET", k, "v", "nokey_r2"}, {"MSETNX", k, "v", g.key(), "w", "nokey_r2"},
			{"SORT", k, "STORE", "nokey_r2"}, {"SORT", k, "LIMIT", "0"}, {"SORT", k, "BY"}, {"SINTERSTORE", "nokey_r2", k, "nokey_r"}, {"SDIFFSTORE", "nokey_r2", "nokey_r", k}, {"SUNIONSTORE", "nokey_r2", "nokey_r"},
			{"BITOP", "AND", "nokey_r2", "nokey_r"}, {"BITOP", "NOT", "nokey_r2", "nokey_r", k}, {"BITOP", "NAND", "nokey_r2", k}, {"LMPOP", "2", k, "nokey_r", "LEFT", "COUNT", "0"}, {"LMPOP", "0", "LEFT"},
			{"SINTERCARD", "2", k}, {"SINTERCARD", "1", k, "LIMIT", "-1"}, {"HRANDFIELD", k, badi()}, {"SRANDMEMBER", k, badi()}, {"SPOP", k, "-1"}, {"SPOP", k, badi()},
			{"LPOS", k, "a", "RANK", "0"}, {"LPOS", k, "a", "COUNT", "-1"}, {"LPOS", k, "a", "MAXLEN", "-1"}, {"GETRANGE", k, badi(), "1"}, {"LRANGE", k, "0", badi()}, {"LINDEX", k, badi()},
			{"APPEND", k}, {"GETDEL", k, "x"}, {"OBJECT", "ENCODING", k}, {"MOVE", k, "99"}, {"MOVE", k, badi()}, {"SWAPDB", "0", badi()}, {"SELECT", badi()},
		}
		g.refIdx++
		ops = append(ops, mkOp(c, t[g.refIdx%len(t)]...), mkOp(c, "EXISTS", "nokey_r", "nokey_r2"), mkOp(c, "TYPE", k))
	}
	ops = append(ops, mkOp(c, "DBSIZE"), mkOp(c, "DEL", "nokey_r", "nokey_r2"))
	return ops
}

// ---- COPY / RENAME carry a complete, independent value: build a key of a known type, copy or rename
// it, change ONE side in place (overwrite of an existing field / element / member / byte included),
// look at both sides ----
func (g *Gen) copyMacro(c int) []Op {
	src, dst := g.key(), g.key()
	var ops []Op
	ops = append(ops, mkOp(c, "DEL", src))
	var writes [][]string
	side := func() string { return g.pick(src, dst, dst) }
	switch g.r.Intn(4) {
	case 0:
		ops = append(ops, mkOp(c, "HSET", src, "f1", "1", "f2", "x", "f3", "y"))
		writes = [][]string{{"HSET", side(), "f1", "changed"}, {"HINCRBY", side(), "f1", "5"}, {"HSET", side(), "fnew", "n"}, {"HDEL", side(), "f2"}, {"HSETNX", side(), "f3", "z"}, {"HMSET", side(), "f2", "q", "f3", "q"}}
	case 1:
		ops = append(ops, mkOp(c, "RPUSH", src, "a", "b", "c"))
		writes = [][]string{{"LSET", side(), "0", "z"}, {"LSET", side(), "-1", "z"}, {"RPUSH", side(), "d"}, {"LPOP", side()}, {"LINSERT", side(), "BEFORE", "b", "n"}, {"LREM", side(), "0", "b"}, {"LTRIM", side(), "1", "-1"}}
	case 2:
		ops = append(ops, mkOp(c, "SADD", src, "m1", "m2", "m3"))
		writes = [][]string{{"SREM", side(), "m1"}, {"SADD", side(), "m9"}, {"SMOVE", side(), "nokey_set", "m2"}, {"SADD", side(), "m1"}}
	default:
		ops = append(ops, mkOp(c, "SET", src, "hello"))
		writes = [][]string{{"APPEND", side(), "!"}, {"SETRANGE", side(), "0", "J"}, {"SETBIT", side(), "7", "1"}, {"INCR", side()}, {"BITFIELD", side(), "SET", "u8", "0", "65"}}
	}
	if g.chance(0.5) {
		ops = append(ops, mkOp(c, "EXPIRE", src, g.farTTL(1000)))
	}
	if g.chance(0.75) {
		ops = append(ops, mkOp(c, "COPY", src, dst, "REPLACE"))
	} else {
		ops = append(ops, mkOp(c, "DEL", dst), mkOp(c, g.pick("RENAME", "RENAMENX", "COPY"), src, dst))
	}
	for j := 0; j < 1+g.r.Intn(3); j++ {
		ops = append(ops, mkOp(c, writes[g.r.Intn(len(writes))]...))
	}
	for _, k := range []string{src, dst} {
		ops = append(ops, mkOp(c, "TYPE", k), mkOp(c, "TTL", k), mkOp(c, "HGETALL", k), mkOp(c, "LRANGE", k, "0", "-1"), mkOp(c, "SMEMBERS", k), mkOp(c, "GET", k))
	}
	return ops
}

// ---- BITPOS / BITCOUNT on strings whose tail (or head) is all ones or all zeros: the implicit
// padding rules differ between "no range", "start only" and "start and end" ----
func (g *Gen) bitposMacro(c int) []Op {
	k := g.key()
	v := g.pick("\xff\xff\xff", "\x0f\xff\xff", "\xff", "\x00\x00", "\x00\xff", "\xff\x00", "\xff\xfe", "\x7f\xff", "\x00", "", "\xff\xff\xff\xff\xff\xff\xff\xff\xff")
	ops := []Op{mkOp(c, "SET", k, v)}
	if v == "" {
		ops = []Op{mkOp(c, "DEL", k)}
	}
	for j := 0; j < 3+g.r.Intn(5); j++ {
		bit := g.pick("0", "1")
		switch g.r.Intn(6) {
		case 0:
			ops = append(ops, mkOp(c, g.kw("bitpos"), k, bit))
		case 1, 2:
			ops = append(ops, mkOp(c, g.kw("bitpos"), k, bit, g.pick("0", "1", "2", "-1", "-2", "-3", "3", "9")))
		case 3:
			ops = append(ops, mkOp(c, g.kw("bitpos"), k, bit, g.pick("0", "1", "-2"), g.pick("-1", "0", "1", "2", "9")))
		case 4:
			ops = append(ops, mkOp(c, g.kw("bitpos"), k, bit, g.pick("0", "3", "8", "-9", "-1"), g.pick("-1", "7", "12", "23", "99"), "BIT"))
		default:
			ops = append(ops, mkOp(c, g.kw("bitcount"), k, g.pick("0", "1", "-1", "-2"), g.pick("-1", "0", "5", "11"), g.pick("BIT", "BYTE")))
		}
	}
	ops = append(ops, mkOp(c, "GET", k))
	return ops
}

// ---- BITCOUNT / BITPOS over bit ranges of a value with distinct bytes: ranges that start and end inside
// bytes, cover several whole bytes between, start beyond the first byte, given from either end ----
func (g *Gen) bitrangeMacro(c int) []Op {
	k := g.key()
	n := 4 + g.r.Intn(5)
	v := make([]byte, n)
	for i := range v {
		v[i] = []byte{0xff, 0x00, 0x01, 0x80, 0x3c, 0xa5, 0x7e, 0x10}[g.r.Intn(8)]
	}
	ops := []Op{mkOp(c, "SET", k, string(v))}
	bits := n * 8
	for j := 0; j < 5+g.r.Intn(6); j++ {
		s := g.r.Intn(bits)
		e := s + g.r.Intn(bits-s)
		if g.chance(0.6) {
			// at least three bytes wide, not starting in the first byte
			s = 8 + g.r.Intn(8)
			e = s + 16 + g.r.Intn(bits-s-16+1)
			if e >= bits {
				e = bits - 1
			}
		}
		ss, es := fmt.Sprint(s), fmt.Sprint(e)
		if g.chance(0.3) {
			ss = fmt.Sprint(s - bits)
		}
		if g.chance(0.3) {
			es = fmt.Sprint(e - bits)
		}
		switch g.r.Intn(3) {
		case 0, 1:
			ops = append(ops, mkOp(c, g.kw("bitcount"), k, ss, es, g.kw("BIT")))
		default:
			ops = append(ops, mkOp(c, g.kw("bitpos"), k, g.pick("0", "1"), ss, es, g.kw("BIT")))
		}
	}
	ops = append(ops, mkOp(c, "GET", k))
	return ops
}

// ---- LPOS: a list with repeated elements, then RANK (both directions) x COUNT x MAXLEN combinations
// whose window is shorter or longer than the list ----
func (g *Gen) lposMacro(c int) []Op {
	k := g.key()
	n := 4 + g.r.Intn(6)
	a := []string{"RPUSH", k}
	for i := 0; i < n; i++ {
		a = append(a, g.pick("a", "b", "c"))
	}
	ops := []Op{mkOp(c, "DEL", k), mkOp(c, a...)}
	for j := 0; j < 4+g.r.Intn(5); j++ {
		q := []string{g.kw("lpos"), k, g.pick("a", "b", "c", "z")}
		if g.chance(0.8) {
			q = append(q, g.kw("RANK"), g.pick("1", "2", "3", "-1", "-1", "-2", "-3", "-9"))
		}
		if g.chance(0.5) {
			q = append(q, g.kw("COUNT"), g.pick("0", "1", "2", "3", "10"))
		}
		if g.chance(0.7) {
			q = append(q, g.kw("MAXLEN"), fmt.Sprint(g.r.Intn(n+3)))
		}
		ops = append(ops, mkOp(c, q...))
	}
	return ops
}

func (g *Gen) counterBoundary(c int) []Op {
	k := g.key()
	max := new(big.Int).Sub(new(big.Int).Lsh(big.NewInt(1), 63), big.NewInt(1))
	min := new(big.Int).Neg(new(big.Int).Lsh(big.NewInt(1), 63))
	dist := int64(g.r.Intn(4))            // distance from the boundary before the step
	step := dist + int64(g.r.Intn(3)) - 1 // lands one short of, on, or one past the boundary
	if step < 0 {
		step = 0
	}
	var ops []Op
	if g.chance(0.5) {
		v := new(big.Int).Sub(max, big.NewInt(dist))
		ops = append(ops, mkOp(c, "SET", k, v.String()))
		switch {
		case step == 1 && g.chance(0.5):
			ops = append(ops, mkOp(c, g.kw("incr"), k))
		case g.chance(0.5):
			ops = append(ops, mkOp(c, g.kw("incrby"), k, fmt.Sprint(step)))
		default:
			ops = append(ops, mkOp(c, g.kw("decrby"), k, fmt.Sprint(-step)))
		}
	} else {
		v := new(big.Int).Add(min, big.NewInt(dist))
		ops = append(ops, mkOp(c, "SET", k, v.String()))
		switch {
		case step == 1 && g.chance(0.5):
			ops = append(ops, mkOp(c, g.kw("decr"), k))
		case g.chance(0.5):
			ops = append(ops, mkOp(c, g.kw("decrby"), k, fmt.Sprint(step)))
		default:
			ops = append(ops, mkOp(c, g.kw("incrby"), k, fmt.Sprint(-step)))
		}
	}
	ops = append(ops, mkOp(c, "GET", k))
	return ops
}

// the same for a hash field
func (g *Gen) hcounterBoundary(c int) []Op {
	ops := g.counterBoundary(c)
	k, f := g.key(), g.field()
	v := string(ops[0].bytesArgs()[2])
	a := ops[1].bytesArgs()
	delta := "1"
	name := strings.ToLower(string(a[0]))
	switch name {
	case "incr":
		delta = "1"
	case "decr":
		delta = "-1"
	case "incrby":
		delta = string(a[2])
	case "decrby":
		if strings.HasPrefix(string(a[2]), "-") {
			delta = string(a[2])[1:]
		} else {
			delta = "-" + string(a[2])
		}
	}
	return []Op{mkOp(c, "DEL", k), mkOp(c, "HSET", k, f, v), mkOp(c, g.kw("hincrby"), k, f, delta), mkOp(c, "HGET", k, f)}
}

// a stored value that is a number to the eye but not in Redis' canonical form: the counter commands refuse it
// and leave it as it is
func (g *Gen) noncanonMacro(c int, hash bool) []Op {
	k := g.key()
	v := g.pick("-05", "-00", "-0012", "+5", "05", "-0", " 1", "1 ", "0x10", "1e2", "1_0", "٣", "9223372036854775808", "-9223372036854775809", "")
	d := g.pick("1", "0", "-1", "9223372036854775807")
	if hash {
		return []Op{mkOp(c, "DEL", k), mkOp(c, "HSET", k, "f", v), mkOp(c, g.kw("hincrby"), k, "f", d), mkOp(c, "HGET", k, "f")}
	}
	return []Op{mkOp(c, "SET", k, v), mkOp(c, g.kw(g.pick("incrby", "decrby")), k, d), mkOp(c, "GET", k), mkOp(c, g.kw(g.pick("incr", "decr")), k), mkOp(c, "GET", k)}
}

// binary-rich strings as values for string-typed keys (bitmaps)
var bitVals = []string{"\x00", "\xff", "\x0f\xf0", "\x80\x01", "\x00\x00\x00", "\xff\xff\xff", "\xaa\x55\xaa", "a", "\x12\x34\x56\x78\x9a"}

// observation of the complete visible state of the key universe on connection c
func (g *Gen) observeAll(c int) []Op {
	var ops []Op
	ops = append(ops, mkOp(c, "DBSIZE"), mkOp(c, "KEYS", "*"))
	for _, k := range g.keys {
		ops = append(ops, mkOp(c, "TYPE", k), mkOp(c, "EXISTS", k), mkOp(c, "PTTL", k),
			mkOp(c, "GET", k), mkOp(c, "LRANGE", k, "0", "-1"), mkOp(c, "LLEN", k), mkOp(c, "HGETALL", k), mkOp(c, "SMEMBERS", k), mkOp(c, "SCARD", k))
	}
	return ops
}

// seed the key universe with keys of assorted types
func (g *Gen) seedOps(c int) []Op {
	var ops []Op
	for _, k := range g.keys {
		switch g.r.Intn(7) {
		case 0:
			// missing
		case 1:
			ops = append(ops, mkOp(c, "SET", k, g.val()))
		case 2:
			a := []string{"RPUSH", k}
			for i := 0; i <= g.r.Intn(5); i++ {
				a = append(a, g.elem())
			}
			ops = append(ops, mkOp(c, a...))
		case 3:
			a := []string{"HSET", k}
			for i := 0; i <= g.r.Intn(3); i++ {
				a = append(a, g.field(), g.val())
			}
			ops = append(ops, mkOp(c, a...))
		case 4:
			a := []string{"SADD", k}
			for i := 0; i <= g.r.Intn(3); i++ {
				a = append(a, g.member())
			}
			ops = append(ops, mkOp(c, a...))
		case 5:
			ops = append(ops, mkOp(c, "SET", k, g.val(), "PX", g.farTTL(1)))
		case 6:
			ops = append(ops, mkOp(c, "SET", k, g.pick(bitVals...)))
		}
	}
	return ops
}

func (g *Gen) fromFamilies(c int, weights map[string]int) Op {
	total := 0
	for _, w := range weights {
		total += w
	}
	n := g.r.Intn(total)
	// deterministic order
	for _, fam := range []string{"string", "list", "hash", "set", "key", "expire", "bits", "misc"} {
		w := weights[fam]
		if n < w {
			names := families[fam]
			return mkOp(c, catalog[names[g.r.Intn(len(names))]](g)...)
		}
		n -= w
	}
	return mkOp(c, "PING")
}
