package main

// Sequential correspondence engine: the same history (commands on numbered
// connections, with optional sleeps) is run on the real emulator over TCP and on
// the extracted model; replies are compared after every command.

import (
	"encoding/hex"
	"encoding/json"
	"fmt"
	"os"
	"path/filepath"
	"strings"
	"time"
)

type Op struct {
	Conn    int      `json:"conn"`
	Args    []string `json:"args"` // hex
	SleepMs int      `json:"sleep_ms,omitempty"`
	Close   bool     `json:"close,omitempty"` // close the connection instead of sending
	text    string
}

func mkOp(conn int, args ...string) Op {
	o := Op{Conn: conn}
	for _, a := range args {
		o.Args = append(o.Args, hex.EncodeToString([]byte(a)))
	}
	return o
}

func (o Op) bytesArgs() [][]byte {
	out := make([][]byte, len(o.Args))
	for i, a := range o.Args {
		out[i], _ = hex.DecodeString(a)
	}
	return out
}

func (o Op) String() string {
	if o.Close {
		return fmt.Sprintf("c%d: <close>", o.Conn)
	}
	var parts []string
	for _, a := range o.bytesArgs() {
		if len(a) > 40 {
			parts = append(parts, fmt.Sprintf("%q...(%d bytes)", a[:16], len(a)))
		} else {
			parts = append(parts, fmt.Sprintf("%q", a))
		}
	}
	s := fmt.Sprintf("c%d: %s", o.Conn, strings.Join(parts, " "))
	if o.SleepMs > 0 {
		s = fmt.Sprintf("(sleep %dms) ", o.SleepMs) + s
	}
	return s
}

type History struct {
	Ops  []Op   `json:"ops"`
	Note string `json:"note,omitempty"`
}

type Mismatch struct {
	Index   int     `json:"index"`
	Op      string  `json:"op"`
	Why     string  `json:"why"`
	Crash   bool    `json:"crash,omitempty"`
	Stall   bool    `json:"stall,omitempty"`
	Stderr  string  `json:"stderr,omitempty"`
	History History `json:"history"`
}

type Engine struct {
	modelPath   string
	srv         *Server
	mdl         *Model
	conns       map[int]*Conn
	resp        map[int]int
	queuedHello map[int][]int // HELLO versions queued inside an open transaction, per connection
	persist     string
	Steps       int
	CmdHist     map[string]int
	ErrHist     map[string]int
	Restarts    int
}

func newEngine(modelPath string) (*Engine, error) {
	e := &Engine{modelPath: modelPath, conns: map[int]*Conn{}, resp: map[int]int{}, queuedHello: map[int][]int{}, CmdHist: map[string]int{}, ErrHist: map[string]int{}}
	var err error
	if e.mdl, err = startModel(modelPath); err != nil {
		return nil, err
	}
	if err = e.restartServer(); err != nil {
		return nil, err
	}
	return e, nil
}

func (e *Engine) restartServer() error {
	if e.srv != nil {
		e.srv.Kill()
	}
	for _, c := range e.conns {
		c.Close()
	}
	e.conns = map[int]*Conn{}
	e.resp = map[int]int{}
	e.queuedHello = map[int][]int{}
	var err error
	e.srv, err = startServer(e.persist)
	e.Restarts++
	return err
}

func (e *Engine) Close() {
	for _, c := range e.conns {
		c.Close()
	}
	if e.srv != nil {
		e.srv.Kill()
	}
	if e.mdl != nil {
		e.mdl.Close()
	}
}

func (e *Engine) conn(id int) (*Conn, error) {
	if c, ok := e.conns[id]; ok {
		return c, nil
	}
	c, err := dial(e.srv.Port)
	if err != nil {
		return nil, err
	}
	e.conns[id] = c
	e.resp[id] = 2
	return c, nil
}

// reset brings emulator and model to the empty state with no sessions.
func (e *Engine) reset() error {
	for id, c := range e.conns {
		c.Close()
		delete(e.conns, id)
	}
	e.resp = map[int]int{}
	e.queuedHello = map[int][]int{}
	if err := e.mdl.Reset(); err != nil {
		return err
	}
	if !e.srv.Alive() {
		return e.restartServer()
	}
	c, err := dial(e.srv.Port)
	if err != nil {
		return e.restartServer()
	}
	defer c.Close()
	if _, err := c.Do(3*time.Second, []byte("FLUSHALL")); err != nil {
		return e.restartServer()
	}
	return nil
}

const replyTimeout = 4 * time.Second

// Run executes one history on both sides. A nil result means full agreement.
func (e *Engine) Run(h History) (*Mismatch, error) {
	if err := e.reset(); err != nil {
		return nil, err
	}
	for i, op := range h.Ops {
		if op.SleepMs > 0 {
			time.Sleep(time.Duration(op.SleepMs) * time.Millisecond)
		}
		if op.Close {
			if c, ok := e.conns[op.Conn]; ok {
				c.Close()
				delete(e.conns, op.Conn)
				delete(e.resp, op.Conn)
				delete(e.queuedHello, op.Conn)
			}
			e.mdl.CloseConn(op.Conn)
			time.Sleep(5 * time.Millisecond)
			continue
		}
		args := op.bytesArgs()
		c, err := e.conn(op.Conn)
		if err != nil {
			if !e.srv.Alive() {
				return &Mismatch{Index: i, Op: op.String(), Why: "emulator process died", Crash: true, Stderr: tail(e.srv.Stderr(), 1500), History: h}, nil
			}
			return nil, err
		}
		e.Steps++
		if len(args) > 0 {
			e.CmdHist[strings.ToLower(string(args[0]))]++
		}
		t0 := time.Now()
		g, gerr := c.Do(replyTimeout, args...)
		el := time.Since(t0)
		ms, block, merr := e.mdl.Step(op.Conn, t0.UnixNano(), args)
		if merr != nil {
			return nil, merr
		}
		if gerr != nil {
			if !e.srv.Alive() || waitDead(e.srv, 300*time.Millisecond) {
				return &Mismatch{Index: i, Op: op.String(), Why: "emulator process died: " + gerr.Error(), Crash: true, Stderr: tail(e.srv.Stderr(), 1500), History: h}, nil
			}
			if block {
				// the model says this command blocks forever; the emulator blocking is agreement
				c.Close()
				delete(e.conns, op.Conn)
				e.mdl.CloseConn(op.Conn)
				continue
			}
			m := &Mismatch{Index: i, Op: op.String(), Why: "no well-formed reply: " + gerr.Error() + "; model " + ms.Src, Stall: true, History: h}
			// the connection is unusable now
			e.restartServer()
			return m, nil
		}
		if block {
			// model: would block; the emulator answered: only a nil after the timeout is acceptable
			if !g.Nil {
				return &Mismatch{Index: i, Op: op.String(), Why: "model blocks (no data) but emulator replied " + g.String(), History: h}, nil
			}
			continue
		}
		if ms.Tag == "err" {
			e.ErrHist[errCode(unhex(ms.atoms()[0]))]++
		}
		ctx := CmpCtx{Resp: e.resp[op.Conn], SlackMs: el.Milliseconds() + 25}
		if len(args) == 2 && strings.EqualFold(string(args[0]), "client") && strings.EqualFold(string(args[1]), "info") && (g.Kind == '$' || g.Kind == '=') && !g.Nil {
			// what the connection says about itself against the model's session: database, protocol, name, MULTI state
			if db, rv, name, queued, err := e.mdl.ConnInfo(op.Conn); err == nil {
				fields := map[string]string{}
				for _, f := range strings.Fields(strings.TrimPrefix(string(g.Str), "txt:")) {
					if i := strings.IndexByte(f, '='); i > 0 {
						fields[f[:i]] = f[i+1:]
					}
				}
				why := ""
				if fields["db"] != fmt.Sprint(db) {
					why = fmt.Sprintf("CLIENT INFO reports db=%s, the connection's selected database is %d", fields["db"], db)
				} else if fields["resp"] != fmt.Sprint(rv) {
					why = fmt.Sprintf("CLIENT INFO reports resp=%s, the connection speaks RESP%d", fields["resp"], rv)
				} else if fields["name"] != name {
					why = fmt.Sprintf("CLIENT INFO reports name=%q, the connection's name is %q", fields["name"], name)
				} else if (queued < 0) != (fields["multi"] == "-1") {
					why = fmt.Sprintf("CLIENT INFO reports multi=%s, the model's session has queue state %d", fields["multi"], queued)
				}
				if why != "" {
					return &Mismatch{Index: i, Op: op.String(), Why: why, History: h}, nil
				}
			}
		}
		if len(args) > 1 {
			switch strings.ToLower(string(args[0])) {
			case "scan":
				ctx.FullScan = string(args[1]) == "0"
			case "sscan", "hscan":
				ctx.FullScan = len(args) > 2 && string(args[2]) == "0"
			}
		}
		if len(args) > 0 {
			// which protocol the connection speaks: HELLO 2|3 switches when it is executed - at once, or, when it
			// was queued in a transaction, when EXEC runs the queue (never, if the transaction is dropped)
			name := strings.ToLower(string(args[0]))
			queued := g.Kind == '+' && string(g.Str) == "QUEUED"
			switch {
			case name == "hello" && len(args) > 1 && g.Kind != '-':
				v := 0
				if string(args[1]) == "3" {
					v = 3
				} else if string(args[1]) == "2" {
					v = 2
				}
				if queued {
					e.queuedHello[op.Conn] = append(e.queuedHello[op.Conn], v)
				} else if v != 0 {
					e.resp[op.Conn] = v
				}
			case name == "exec":
				if g.Kind == '*' && !g.Nil {
					for _, v := range e.queuedHello[op.Conn] {
						if v != 0 {
							e.resp[op.Conn] = v
						}
					}
				}
				delete(e.queuedHello, op.Conn)
			case name == "discard" && g.Kind != '-':
				delete(e.queuedHello, op.Conn)
			}
			ctx.Resp = e.resp[op.Conn]
			if name == "exec" {
				// the EXEC reply itself is still sent in the protocol in force when EXEC was issued? No: the
				// queued HELLO has run by then; the emulator converts with the version in force after the queue
				ctx.Resp = e.resp[op.Conn]
			}
		}
		if ctx.Resp != 3 {
			// whatever the command and whatever the model says about it: a connection that has not
			// switched to RESP3 never sees a RESP3-only type, at any depth of the reply
			if path, kind := resp3Only(g, "reply"); path != "" {
				return &Mismatch{Index: i, Op: op.String(), Why: fmt.Sprintf("RESP3 type '%c' at %s on a connection that speaks RESP2", kind, path), History: h}, nil
			}
		}
		if err := matchReply(ms, g, ctx); err != nil {
			return &Mismatch{Index: i, Op: op.String(), Why: err.Error(), History: h}, nil
		}
	}
	return nil, nil
}

// first RESP3-only node of a reply: its path and type byte
func resp3Only(n *Node, path string) (string, byte) {
	if n == nil {
		return "", 0
	}
	switch n.Kind {
	case '%', '~', ',', '#', '(', '=', '_', '!', '>', '|':
		return path, n.Kind
	}
	for i, e := range n.Elems {
		if p, k := resp3Only(e, fmt.Sprintf("%s[%d]", path, i)); p != "" {
			return p, k
		}
	}
	return "", 0
}

func waitDead(s *Server, d time.Duration) bool {
	select {
	case <-s.exited:
		return true
	case <-time.After(d):
		return false
	}
}

func tail(s string, n int) string {
	if len(s) > n {
		return s[len(s)-n:]
	}
	return s
}

// Confirm re-runs a mismatching history; timing flukes do not reproduce.
func (e *Engine) Confirm(h History) (*Mismatch, error) {
	return e.Run(h)
}

// Shrink removes operations while some mismatch persists.
func (e *Engine) Shrink(m *Mismatch, budget int) *Mismatch {
	best := m
	ops := append([]Op{}, m.History.Ops[:min(m.Index+1, len(m.History.Ops))]...)
	h := History{Ops: ops, Note: m.History.Note}
	if mm, err := e.Run(h); err == nil && mm != nil {
		best = mm
	} else {
		return best
	}
	for i := len(best.History.Ops) - 2; i >= 0 && budget > 0; i-- {
		cand := append([]Op{}, best.History.Ops[:i]...)
		cand = append(cand, best.History.Ops[i+1:]...)
		if best.History.Ops[i].SleepMs > 0 && i+1 < len(best.History.Ops) {
			// keep the sleep by moving it to the next op
			cand[i].SleepMs += best.History.Ops[i].SleepMs
		}
		budget--
		mm, err := e.Run(History{Ops: cand, Note: best.History.Note})
		if err != nil {
			break
		}
		if mm != nil && mm.Crash == best.Crash {
			best = mm
			if i > len(best.History.Ops)-1 {
				i = len(best.History.Ops) - 1
			}
		}
	}
	return best
}

func writeReplay(dir, prop string, m *Mismatch, seed int64, n int) string {
	os.MkdirAll(dir, 0o755)
	path := filepath.Join(dir, fmt.Sprintf("%s-seed%d-%d.json", prop, seed, n))
	type replay struct {
		Property string    `json:"property"`
		Kind     string    `json:"kind"`
		Seed     int64     `json:"seed"`
		Why      string    `json:"why"`
		AtIndex  int       `json:"at_index"`
		Ops      []string  `json:"ops_readable"`
		Mismatch *Mismatch `json:"mismatch"`
	}
	r := replay{Property: prop, Kind: "sequential-history", Seed: seed, Why: m.Why, AtIndex: m.Index, Mismatch: m}
	for _, o := range m.History.Ops {
		r.Ops = append(r.Ops, o.String())
	}
	b, _ := json.MarshalIndent(r, "", " ")
	os.WriteFile(path, b, 0o644)
	return path
}
