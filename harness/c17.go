package main

// C17: dictionary layout and SCAN-family cursor walk, emulator vs the Dict.v model.
// The model takes the real hash of every key (verif accessor HASH), so layouts and
// cursors can be compared exactly, not just by membership.

import (
	"encoding/hex"
	"encoding/json"
	"fmt"
	"math/rand"
	"os"
	"path/filepath"
	"sort"
	"strconv"
	"strings"
	"time"
)

type c17Op struct {
	Kind   string `json:"kind"` // add, rem, layout, scan, iter
	Member string `json:"member,omitempty"`
	Cursor uint64 `json:"cursor,omitempty"`
	Count  int    `json:"count,omitempty"`
}

type c17Case struct {
	Target string  `json:"target"` // "set" (SADD/SREM/SSCAN on one key), "keys" (SET/DEL/SCAN on the keyspace), "hash" (HSET/HDEL/HSCAN)
	Ops    []c17Op `json:"ops"`
}

type c17Runner struct {
	srv    *Server
	mdl    *Model
	conn   *Conn
	hashes map[string]string
	steps  int
}

func (r *c17Runner) hash(m string) (string, error) {
	if h, ok := r.hashes[m]; ok {
		return h, nil
	}
	h, err := r.srv.Ctl("HASH "+hexArg([]byte(m)), 3*time.Second)
	if err != nil {
		return "", err
	}
	r.hashes[m] = h
	return h, nil
}

func (r *c17Runner) mline(s string) (string, error) { return r.mdl.line(s) }

// run one case; returns a description of the first disagreement ("" = agreement)
func (r *c17Runner) run(cs c17Case) (string, int, error) {
	if _, err := r.conn.Do(3*time.Second, []byte("FLUSHALL")); err != nil {
		return "", 0, err
	}
	if _, err := r.mline("DRESET"); err != nil {
		return "", 0, err
	}
	key := "thekey"
	present := map[string]bool{}
	do := func(args ...string) (*Node, error) { return r.conn.Do(4*time.Second, bs(args...)...) }
	for i, op := range cs.Ops {
		r.steps++
		switch op.Kind {
		case "add":
			h, err := r.hash(op.Member)
			if err != nil {
				return "", i, err
			}
			var n *Node
			switch cs.Target {
			case "set":
				n, err = do("SADD", key, op.Member)
			case "hash":
				n, err = do("HSET", key, op.Member, "v"+op.Member)
			default:
				n, err = do("SET", op.Member, "v")
			}
			if err != nil {
				return fmt.Sprintf("add %q: %v", op.Member, err), i, nil
			}
			_ = n
			ml, err := r.mline("DSTORE " + hexArg([]byte(op.Member)) + " " + h)
			if err != nil {
				return "", i, err
			}
			if ml != "OK" {
				return "model store: " + ml, i, nil
			}
			present[op.Member] = true
			// the list-based model is quadratic in the table size: leave cases where two hashes
			// agree on many low bits (table beyond 2^13 slots) to the end-to-end iterations
			if lay, _ := r.mline("DLAYOUT"); len(lay) > 2 {
				if k, _ := strconv.Atoi(strings.Fields(lay)[0]); k > 13 {
					return "", 0, nil
				}
			}
		case "rem":
			h, err := r.hash(op.Member)
			if err != nil {
				return "", i, err
			}
			switch cs.Target {
			case "set":
				_, err = do("SREM", key, op.Member)
			case "hash":
				_, err = do("HDEL", key, op.Member)
			default:
				_, err = do("DEL", op.Member)
			}
			if err != nil {
				return fmt.Sprintf("rem %q: %v", op.Member, err), i, nil
			}
			if _, err := r.mline("DREMOVE " + hexArg([]byte(op.Member)) + " " + h); err != nil {
				return "", i, err
			}
			delete(present, op.Member)
			if len(present) == 0 && cs.Target != "keys" {
				// the emptied set/hash is deleted; the next add builds a fresh table
				if _, err := r.mline("DRESET"); err != nil {
					return "", i, err
				}
			}
		case "layout":
			if len(present) == 0 {
				continue
			}
			d, err := r.srv.Ctl("DUMP 0 0", 5*time.Second)
			if err != nil {
				return "", i, err
			}
			var dump struct {
				Layout struct {
					LogSize, Count, Removals int
					Buckets                  map[string]int
				}
				Keys []struct {
					Key       string
					SubLayout *struct {
						LogSize, Count, Removals int
						Buckets                  map[string]int
					}
				}
			}
			if err := json.Unmarshal([]byte(d), &dump); err != nil {
				return "", i, fmt.Errorf("dump: %v", err)
			}
			logSize, count, removals, buckets := dump.Layout.LogSize, dump.Layout.Count, dump.Layout.Removals, dump.Layout.Buckets
			if cs.Target != "keys" {
				found := false
				for _, k := range dump.Keys {
					if k.Key == key && k.SubLayout != nil {
						logSize, count, removals, buckets = k.SubLayout.LogSize, k.SubLayout.Count, k.SubLayout.Removals, k.SubLayout.Buckets
						found = true
					}
				}
				if !found {
					return "emulator has no table for the key although members are present", i, nil
				}
			}
			var parts []string
			for k, b := range buckets {
				parts = append(parts, fmt.Sprintf("%s:%d", hexArg([]byte(k)), b))
			}
			sort.Slice(parts, func(a, b int) bool {
				x, _ := strconv.Atoi(parts[a][strings.IndexByte(parts[a], ':')+1:])
				y, _ := strconv.Atoi(parts[b][strings.IndexByte(parts[b], ':')+1:])
				return x < y
			})
			emu := fmt.Sprintf("%d %d %d", logSize, count, removals)
			if len(parts) > 0 {
				emu += " " + strings.Join(parts, " ")
			}
			ml, err := r.mline("DLAYOUT")
			if err != nil {
				return "", i, err
			}
			if ml != emu {
				return fmt.Sprintf("table layout differs (log-size count removals key:bucket...): model %q emulator %q", ml, emu), i, nil
			}
		case "scan":
			var n *Node
			var err error
			cur := strconv.FormatUint(op.Cursor, 10)
			cnt := strconv.Itoa(op.Count)
			switch cs.Target {
			case "set":
				n, err = do("SSCAN", key, cur, "COUNT", cnt)
			case "hash":
				n, err = do("HSCAN", key, cur, "COUNT", cnt)
			default:
				n, err = do("SCAN", cur, "COUNT", cnt)
			}
			if err != nil {
				return fmt.Sprintf("scan: %v", err), i, nil
			}
			if n.Kind != '*' || len(n.Elems) != 2 {
				return "scan reply shape: " + n.String(), i, nil
			}
			emu := string(n.Elems[0].Str)
			items := n.Elems[1].Elems
			step := 1
			if cs.Target == "hash" {
				step = 2
			}
			for j := 0; j < len(items); j += step {
				emu += " " + hexArg(items[j].Str)
			}
			if len(present) == 0 && cs.Target != "keys" {
				if emu != "0" {
					return "scan of a missing key: " + emu, i, nil
				}
				continue
			}
			ml, err := r.mline("DSCAN " + cur + " " + cnt)
			if err != nil {
				return "", i, err
			}
			if ml != emu {
				return fmt.Sprintf("scan(cursor %s, count %s) differs (next-cursor keys...): model %q emulator %q", cur, cnt, ml, emu), i, nil
			}
		}
	}
	return "", 0, nil
}

// end-to-end iteration on the emulator alone: the property itself
func (r *c17Runner) iterate(g *rand.Rand, target string, stable []string, churn []string, count int, wipe bool) (string, error) {
	do := func(args ...string) (*Node, error) { return r.conn.Do(4*time.Second, bs(args...)...) }
	if _, err := do("FLUSHALL"); err != nil {
		return "", err
	}
	key := "thekey"
	add := func(m string) {
		switch target {
		case "set":
			do("SADD", key, m)
		case "hash":
			do("HSET", key, m, "v")
		default:
			do("SET", m, "v")
		}
	}
	rem := func(m string) {
		switch target {
		case "set":
			do("SREM", key, m)
		case "hash":
			do("HDEL", key, m)
		default:
			do("DEL", m)
		}
	}
	for _, m := range stable {
		add(m)
	}
	ever := map[string]bool{}
	for _, m := range stable {
		ever[m] = true
	}
	live := map[string]bool{}
	seen := map[string]bool{}
	cursor := "0"
	calls := 0
	for {
		var n *Node
		var err error
		cnt := strconv.Itoa(count)
		switch target {
		case "set":
			n, err = do("SSCAN", key, cursor, "COUNT", cnt)
		case "hash":
			n, err = do("HSCAN", key, cursor, "COUNT", cnt)
		default:
			n, err = do("SCAN", cursor, "COUNT", cnt)
		}
		if err != nil || n.Kind != '*' || len(n.Elems) != 2 {
			return fmt.Sprintf("scan failed: %v %v", err, n), nil
		}
		r.steps++
		calls++
		step := 1
		if target == "hash" {
			step = 2
		}
		for j := 0; j < len(n.Elems[1].Elems); j += step {
			m := string(n.Elems[1].Elems[j].Str)
			if !ever[m] {
				return fmt.Sprintf("iteration returned %q which was never present", m), nil
			}
			seen[m] = true
		}
		cursor = string(n.Elems[0].Str)
		if cursor == "0" {
			break
		}
		if calls > 4*(len(stable)+len(churn))+64 {
			return fmt.Sprintf("iteration did not finish within %d calls", calls), nil
		}
		if wipe && calls == 2 {
			// everything disappears in the middle of the iteration: it must still finish
			for _, m := range stable {
				rem(m)
			}
			for m := range live {
				rem(m)
			}
			live = map[string]bool{}
			stable = nil
			churn = churn[:1]
			continue
		}
		// churn between calls: insert and delete other elements (grows and shrinks the table)
		for k := 0; k < g.Intn(12); k++ {
			m := churn[g.Intn(len(churn))]
			if live[m] && g.Intn(2) == 0 {
				rem(m)
				delete(live, m)
			} else {
				add(m)
				live[m] = true
				ever[m] = true
			}
		}
	}
	for _, m := range stable {
		if !seen[m] {
			return fmt.Sprintf("element %q was present during the whole iteration but never returned (%d calls, count %d)", m, calls, count), nil
		}
	}
	return "", nil
}

func genC17Case(g *rand.Rand, size int) c17Case {
	targets := []string{"set", "keys", "hash"}
	cs := c17Case{Target: targets[g.Intn(3)]}
	univ := make([]string, size)
	for i := range univ {
		univ[i] = fmt.Sprintf("m%d", g.Intn(100000))
	}
	live := map[string]bool{}
	nops := size*2 + g.Intn(size)
	for i := 0; i < nops; i++ {
		m := univ[g.Intn(len(univ))]
		phaseRemove := i > nops/2
		if live[m] && (phaseRemove || g.Intn(4) == 0) {
			cs.Ops = append(cs.Ops, c17Op{Kind: "rem", Member: m})
			delete(live, m)
		} else {
			cs.Ops = append(cs.Ops, c17Op{Kind: "add", Member: m})
			live[m] = true
		}
		if g.Intn(6) == 0 {
			cs.Ops = append(cs.Ops, c17Op{Kind: "layout"})
		}
		if g.Intn(5) == 0 {
			cs.Ops = append(cs.Ops, c17Op{Kind: "scan", Cursor: uint64(g.Intn(1 << 12)), Count: 1 + g.Intn(12)})
		}
		if g.Intn(40) == 0 {
			cs.Ops = append(cs.Ops, c17Op{Kind: "scan", Cursor: 0, Count: 1000})
		}
	}
	cs.Ops = append(cs.Ops, c17Op{Kind: "layout"}, c17Op{Kind: "scan", Cursor: 0, Count: 7})
	// finally remove everything: an iteration that was under way must still come to an end
	for m := range live {
		cs.Ops = append(cs.Ops, c17Op{Kind: "rem", Member: m})
	}
	cs.Ops = append(cs.Ops, c17Op{Kind: "scan", Cursor: uint64(1 + g.Intn(1<<12)), Count: 1 + g.Intn(5)}, c17Op{Kind: "scan", Cursor: 0, Count: 3})
	return cs
}

// bit-reversed low k bits of a hash: the bucket of a key in a table of 2^k buckets
func bucketOf(h uint64, k uint) int {
	v := uint32(h) & (1<<k - 1)
	r := uint32(0)
	for i := uint(0); i < k; i++ {
		if v&(1<<i) != 0 {
			r |= 1 << (k - 1 - i)
		}
	}
	return int(r)
}

// crafted cases: two keys that share a bucket of the 16-table and sit in one even/odd bucket pair of
// the 2^k table (first pair, last pair, a random pair), plus a few loners; then enough add/remove churn
// to make remove() consider halving the table. Targets rehash, the doubling loop and the shrink test.
func (r *c17Runner) craftedCases(g *rand.Rand, n int) ([]c17Case, error) {
	type cand struct {
		name string
		h    uint64
	}
	var pool []cand
	for i := 0; i < 6000; i++ {
		name := fmt.Sprintf("f%d", i)
		hs, err := r.hash(name)
		if err != nil {
			return nil, err
		}
		h, _ := strconv.ParseUint(hs, 10, 64)
		pool = append(pool, cand{name, h})
	}
	var out []c17Case
	for c := 0; c < n; c++ {
		k := uint(5 + g.Intn(3)) // 32, 64 or 128 buckets
		size := 1 << k
		pair := []int{0, size/2 - 1, g.Intn(size / 2), size/2 - 1}[g.Intn(4)]
		var a, b string
		for _, cd := range pool {
			switch bucketOf(cd.h, k) {
			case 2 * pair:
				if a == "" {
					a = cd.name
				}
			case 2*pair + 1:
				if b == "" {
					b = cd.name
				}
			}
		}
		if a == "" || b == "" {
			continue
		}
		cs := c17Case{Target: []string{"set", "keys", "hash"}[g.Intn(3)]}
		cs.Ops = append(cs.Ops, c17Op{Kind: "add", Member: a}, c17Op{Kind: "add", Member: b}, c17Op{Kind: "layout"})
		// loners that do not complete any other pair
		used := map[int]bool{2 * pair: true, 2*pair + 1: true}
		for _, cd := range pool[g.Intn(3000):] {
			if len(used) >= 2+g.Intn(4) {
				break
			}
			bk := bucketOf(cd.h, k)
			if !used[bk] && !used[bk^1] && cd.name != a && cd.name != b {
				used[bk] = true
				cs.Ops = append(cs.Ops, c17Op{Kind: "add", Member: cd.name})
			}
		}
		// churn on one loner-free temporary element until the removal counter passes half the table
		tmp := ""
		for _, cd := range pool {
			bk := bucketOf(cd.h, k)
			if !used[bk] && !used[bk^1] {
				tmp = cd.name
				break
			}
		}
		for i := 0; i < size/2+3; i++ {
			cs.Ops = append(cs.Ops, c17Op{Kind: "add", Member: tmp}, c17Op{Kind: "rem", Member: tmp})
			if i%5 == 4 || i >= size/2-1 {
				cs.Ops = append(cs.Ops, c17Op{Kind: "layout"})
			}
		}
		cs.Ops = append(cs.Ops, c17Op{Kind: "scan", Cursor: 0, Count: 1000})
		// now remove one of the pair: the table may shrink at the next opportunity
		cs.Ops = append(cs.Ops, c17Op{Kind: "rem", Member: []string{a, b}[g.Intn(2)]})
		for i := 0; i < size/2+3; i++ {
			cs.Ops = append(cs.Ops, c17Op{Kind: "add", Member: tmp}, c17Op{Kind: "rem", Member: tmp})
		}
		cs.Ops = append(cs.Ops, c17Op{Kind: "layout"}, c17Op{Kind: "scan", Cursor: 0, Count: 1000})
		out = append(out, cs)
	}
	return out, nil
}

func runC17(cfg runCfg, res *Result) error {
	g := rand.New(rand.NewSource(cfg.seed))
	srv, err := startServer("")
	if err != nil {
		return err
	}
	defer srv.Kill()
	mdl, err := startModel(cfg.modelPath)
	if err != nil {
		return err
	}
	defer mdl.Close()
	conn, err := dial(srv.Port)
	if err != nil {
		return err
	}
	defer conn.Close()
	r := &c17Runner{srv: srv, mdl: mdl, conn: conn, hashes: map[string]string{}}

	report := func(kind, why string, payload any) {
		os.MkdirAll(cfg.replayDir, 0o755)
		path := filepath.Join(cfg.replayDir, fmt.Sprintf("C17-seed%d-%d.json", cfg.seed, len(res.Mismatches)+1))
		b, _ := json.MarshalIndent(map[string]any{"property": "C17", "kind": kind, "seed": cfg.seed, "why": why, "case": payload}, "", " ")
		os.WriteFile(path, b, 0o644)
		res.Mismatches = append(res.Mismatches, &Mismatch{Index: -1, Op: kind, Why: why})
		res.Replays = append(res.Replays, path)
	}

	if cfg.replay != "" {
		b, err := os.ReadFile(cfg.replay)
		if err != nil {
			return err
		}
		var rp struct {
			Kind string  `json:"kind"`
			Case c17Case `json:"case"`
		}
		if err := json.Unmarshal(b, &rp); err != nil {
			return err
		}
		why, _, err := r.run(rp.Case)
		if err != nil {
			return err
		}
		res.Histories = 1
		if why != "" {
			res.Mismatches = append(res.Mismatches, &Mismatch{Index: -1, Op: "layout/scan", Why: why})
		}
		return nil
	}

	cases, iters := 40, 60
	sizes := []int{10, 25, 50}
	if cfg.tier == "thorough" {
		cases, iters = 120, 400
		sizes = []int{10, 25, 50, 100}
	}
	for i := 0; i < cases && len(res.Mismatches) < 3; i++ {
		cs := genC17Case(g, sizes[g.Intn(len(sizes))])
		res.Histories++
		if len(res.Samples) < 2 {
			s := cs.Target + ":"
			for j, o := range cs.Ops {
				if j > 10 {
					s += " ..."
					break
				}
				s += fmt.Sprintf(" %s(%s%d/%d)", o.Kind, o.Member, o.Cursor, o.Count)
			}
			res.Samples = append(res.Samples, s)
		}
		why, at, err := r.run(cs)
		if err != nil {
			return fmt.Errorf("case %d op %d (%v): %v; server alive=%v stderr=%s", i, at, cs.Ops[min(at, len(cs.Ops)-1)], err, srv.Alive(), tail(srv.Stderr(), 600))
		}
		if why != "" {
			// shrink: cut the case after the failing op, then drop leading halves while it still fails
			cs.Ops = cs.Ops[:at+1]
			report("layout/scan", why, cs)
		}
	}
	ncraft := 24
	if cfg.tier == "thorough" {
		ncraft = 300
	}
	crafted, err := r.craftedCases(g, ncraft)
	if err != nil {
		return err
	}
	for _, cs := range crafted {
		if len(res.Mismatches) >= 3 {
			break
		}
		res.Histories++
		why, at, err := r.run(cs)
		if err != nil {
			return fmt.Errorf("crafted case: %v", err)
		}
		if why != "" {
			cs.Ops = cs.Ops[:at+1]
			report("layout/scan", why, cs)
		}
	}
	res.Extra["crafted_collision_cases"] = len(crafted)
	res.Extra["layout_scan_cases"] = res.Histories
	its := 0
	for i := 0; i < iters && len(res.Mismatches) < 3; i++ {
		nst := 5 + g.Intn(60)
		if cfg.tier == "thorough" && g.Intn(4) == 0 {
			nst = 500 + g.Intn(3000)
		}
		stable := make([]string, nst)
		for j := range stable {
			stable[j] = fmt.Sprintf("s%d_%d", i, j)
		}
		churn := make([]string, 4+g.Intn(200))
		for j := range churn {
			churn[j] = fmt.Sprintf("c%d_%d", i, g.Intn(100000))
		}
		target := []string{"set", "keys", "hash"}[g.Intn(3)]
		count := 1 + g.Intn(12)
		why, err := r.iterate(g, target, stable, churn, count, g.Intn(6) == 0)
		if err != nil {
			return err
		}
		its++
		res.Histories++
		if why != "" {
			report("iteration", why, map[string]any{"target": target, "stable": len(stable), "churn": len(churn), "count": count, "iteration_index": i})
		}
	}
	res.Extra["full_iterations"] = its
	res.Steps = r.steps
	res.Distinct = res.Histories
	res.CmdHist["sadd/srem/sscan,set/del/scan,hset/hdel/hscan ops"] = r.steps
	_ = hex.EncodeToString
	return nil
}

func init() { streams["C17"] = runC17 }
