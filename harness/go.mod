module verifharness

go 1.22

require (
	github.com/jimsnab/go-lane v1.30.0
	github.com/jimsnab/go-redisemu v0.0.0
)

require github.com/google/uuid v1.6.0 // indirect

replace github.com/jimsnab/go-redisemu => /repo
