package main

// C16: the emulator child is built with the Go race detector; a workload makes the command
// classes overlap (data commands, introspection, SELECT, transactions, blocking commands,
// connects/disconnects, flushes, the periodic saver). Every race report whose stack lies in
// the emulator is a violation.

import (
	"encoding/json"
	"fmt"
	"math/rand"
	"os"
	"path/filepath"
	"regexp"
	"sort"
	"strings"
	"sync"
	"time"
)

var serverBinary = "" // when set, "serve" children are started from this binary

var raceFrame = regexp.MustCompile(`(?m)^\s+(/repo/[A-Za-z0-9_\-./]+\.go):(\d+)`)

// split the race detector's output into reports; keep the emulator frames of the two accesses
func parseRaces(stderr string) []string {
	var out []string
	parts := strings.Split(stderr, "WARNING: DATA RACE")
	seen := map[string]bool{}
	for _, p := range parts[1:] {
		end := strings.Index(p, "==================")
		if end > 0 {
			p = p[:end]
		}
		// the two access stacks come first ("Read at"/"Write at"/"Previous ... by")
		secs := regexp.MustCompile(`(?m)^(Read at|Write at|Previous read at|Previous write at|Previous atomic|Atomic)`).Split(p, -1)
		var sites []string
		for _, s := range secs[1:] {
			if i := strings.Index(s, "\nGoroutine "); i > 0 {
				s = s[:i]
			}
			m := raceFrame.FindStringSubmatch(s)
			if m != nil {
				sites = append(sites, filepath.Base(m[1])+":"+m[2])
			}
			if len(sites) == 2 {
				break
			}
		}
		if len(sites) == 0 {
			continue // a race entirely outside the emulator's source (harness, runtime)
		}
		sort.Strings(sites)
		key := strings.Join(sites, " <-> ")
		if !seen[key] {
			seen[key] = true
			out = append(out, key)
		}
	}
	return out
}

func c16Workload(g *rand.Rand, port int, dur time.Duration) int {
	var wg sync.WaitGroup
	stop := time.Now().Add(dur)
	total := 0
	var mu sync.Mutex
	worker := func(id int, f func(c *Conn, r *rand.Rand) [][]string, reconnect bool) {
		defer wg.Done()
		r := rand.New(rand.NewSource(g.Int63()))
		c, err := dial(port)
		if err != nil {
			return
		}
		n := 0
		for time.Now().Before(stop) {
			for _, a := range f(c, r) {
				if _, err := c.Do(2*time.Second, bs(a...)...); err != nil {
					c.Close()
					if c, err = dial(port); err != nil {
						return
					}
				}
				n++
			}
			if reconnect && r.Intn(6) == 0 {
				c.Close()
				if c, err = dial(port); err != nil {
					return
				}
			}
		}
		c.Close()
		mu.Lock()
		total += n
		mu.Unlock()
	}
	k := func(r *rand.Rand) string { return []string{"ka", "kb", "kl", "kh", "ks"}[r.Intn(5)] }
	data := func(c *Conn, r *rand.Rand) [][]string {
		return [][]string{[][]string{
			{"SET", k(r), "v"}, {"GET", k(r)}, {"INCR", "cnt"}, {"APPEND", "ka", "x"}, {"RPUSH", "kl", "a"}, {"LPOP", "kl"}, {"LRANGE", "kl", "0", "-1"},
			{"HSET", "kh", "f", "1"}, {"HGETALL", "kh"}, {"HINCRBY", "kh", "n", "1"}, {"SADD", "ks", "a", "b"}, {"SREM", "ks", "a"}, {"SMEMBERS", "ks"},
			{"SETBIT", "kb", "7", "1"}, {"GETBIT", "kb", "7"}, {"BITCOUNT", "kb"}, {"BITPOS", "kb", "1"}, {"EXPIRE", k(r), "100"}, {"PERSIST", k(r)}, {"TTL", k(r)},
			{"DEL", k(r)}, {"RENAME", "ka", "kb"}, {"COPY", "kl", "kl2", "REPLACE"}, {"KEYS", "*"}, {"SCAN", "0"}, {"RANDOMKEY"}, {"TYPE", k(r)}, {"EXISTS", "ka", "kb"},
			{"SET", "kt", "v", "PX", "5"}, {"GET", "kt"}, {"SORT", "kl", "ALPHA"}, {"LMOVE", "kl", "kl2", "LEFT", "RIGHT"}, {"SINTERSTORE", "kd", "ks", "ks"},
			{"SETRANGE", "ka", "2", "zz"}, {"GETRANGE", "ka", "0", "-1"}, {"MSET", "ka", "1", "kb", "2"}, {"UNLINK", k(r)}, {"GETEX", "ka", "PERSIST"}, {"LSET", "kl", "0", "z"},
		}[r.Intn(39)]}
	}
	intro := func(c *Conn, r *rand.Rand) [][]string {
		return [][]string{[][]string{{"CLIENT", "LIST"}, {"CLIENT", "INFO"}, {"INFO"}, {"DBSIZE"}, {"CLIENT", "ID"}, {"CLIENT", "GETNAME"},
			{"CLIENT", "SETNAME", fmt.Sprintf("n%d", r.Intn(9))}, {"COMMAND", "COUNT"}, {"HELLO", []string{"2", "3"}[r.Intn(2)]}, {"PING"}, {"CLIENT", "NO-EVICT", "on"},
			{"COMMAND", "INFO", "get"}, {"COMMAND", "DOCS", "set"}, {"COMMAND", "LIST"}}[r.Intn(14)]}
	}
	sel := func(c *Conn, r *rand.Rand) [][]string {
		return [][]string{{"SELECT", []string{"0", "1", "2"}[r.Intn(3)]}, {"SET", "ka", "s"}, {"GET", "ka"}, {"DBSIZE"}, {"FLUSHDB"}}[:2+r.Intn(3)]
	}
	tx := func(c *Conn, r *rand.Rand) [][]string {
		return [][]string{{"WATCH", k(r)}, {"MULTI"}, {"INCR", "cnt"}, {"RPUSH", "kl", "t"}, {"GET", "ka"}, {"CLIENT", "INFO"}, {"EXEC"}}
	}
	blocker := func(c *Conn, r *rand.Rand) [][]string {
		return [][]string{[][]string{{"BLPOP", "kl", "kl2", "0.01"}, {"BRPOP", "bq", "0.02"}, {"BLMOVE", "bq", "kl", "LEFT", "RIGHT", "0.01"}, {"BLMPOP", "0.01", "1", "bq", "LEFT"}}[r.Intn(4)]}
	}
	feeder := func(c *Conn, r *rand.Rand) [][]string {
		time.Sleep(time.Millisecond)
		return [][]string{{"RPUSH", "bq", "x"}, {"CLIENT", "UNBLOCK", fmt.Sprint(1 + r.Intn(20))}}[:1+r.Intn(2)]
	}
	flusher := func(c *Conn, r *rand.Rand) [][]string {
		time.Sleep(3 * time.Millisecond)
		return [][]string{{[]string{"FLUSHDB", "FLUSHALL"}[r.Intn(2)]}}
	}
	// databases that come into existence while the saver walks the set of databases
	selmany := func(c *Conn, r *rand.Rand) [][]string {
		return [][]string{{"SELECT", fmt.Sprint(r.Intn(16))}, {"SET", "ka", "m"}, {"SWAPDB", "0", "0"}}[:2]
	}
	// a key watched in one database, EXEC issued from another while others write the watched key
	xwatch := func(c *Conn, r *rand.Rand) [][]string {
		return [][]string{{"SELECT", "1"}, {"WATCH", "ka", "kl"}, {"SELECT", "0"}, {"MULTI"}, {"INCR", "cnt"}, {"EXEC"}, {"SELECT", "2"}, {"WATCH", "ka"}, {"SELECT", "1"}, {"CLIENT", "LIST"}, {"UNWATCH"}}
	}
	// blocking commands in other databases (state shared by the wait tables of all databases)
	blocker2 := func(c *Conn, r *rand.Rand) [][]string {
		return [][]string{{"SELECT", fmt.Sprint(1 + r.Intn(3))}, {"BLPOP", "kl", "0.005"}, {"BRPOP", "bq", "kl", "0.005"}, {"RPUSH", "bq", "x"}}
	}
	// writer/reader pairs hammering ONE key per type: in-place writes against readers that look at the
	// value after the lock is released
	pairW := func(c *Conn, r *rand.Rand) [][]string {
		return [][]string{[][]string{{"SETBIT", "pb", fmt.Sprint(r.Intn(500)), fmt.Sprint(r.Intn(2))}, {"BITFIELD", "pb", "SET", "u8", fmt.Sprint(8 * r.Intn(60)), fmt.Sprint(r.Intn(256))},
			{"BITFIELD", "pb", "INCRBY", "i16", fmt.Sprint(r.Intn(400)), "3"}, {"SETRANGE", "ps", fmt.Sprint(r.Intn(40)), "zz"}, {"APPEND", "ps", "a"}, {"LSET", "pl", fmt.Sprint(r.Intn(3)), "w"},
			{"RPUSH", "pl", "x"}, {"LPOP", "pl"}, {"HSET", "ph", "f1", fmt.Sprint(r.Intn(99))}, {"HINCRBY", "ph", "n", "1"}, {"SADD", "pz", fmt.Sprint(r.Intn(9))}, {"SREM", "pz", fmt.Sprint(r.Intn(9))},
			{"SET", "pb", strings.Repeat("\x55", 64)}, {"BITOP", "NOT", "pb2", "pb"}, {"INCR", "pc"}, {"EXPIRE", "ps", "100"}, {"PERSIST", "ps"}}[r.Intn(17)]}
	}
	pairR := func(c *Conn, r *rand.Rand) [][]string {
		return [][]string{[][]string{{"GETBIT", "pb", fmt.Sprint(r.Intn(500))}, {"BITCOUNT", "pb"}, {"BITPOS", "pb", "1"}, {"BITPOS", "pb", "0", "2", "-1"}, {"BITFIELD", "pb", "GET", "u8", "16"},
			{"BITFIELD_RO", "pb", "GET", "i16", "32"}, {"GET", "pb"}, {"GETRANGE", "ps", "0", "-1"}, {"STRLEN", "ps"}, {"LCS", "ps", "pb", "LEN"}, {"LRANGE", "pl", "0", "-1"}, {"LINDEX", "pl", "1"},
			{"LPOS", "pl", "w"}, {"HGETALL", "ph"}, {"HGET", "ph", "f1"}, {"HVALS", "ph"}, {"HMGET", "ph", "f1", "n", "x"}, {"HKEYS", "ph"}, {"HRANDFIELD", "ph", "2"}, {"HSTRLEN", "ph", "f1"}, {"HSCAN", "ph", "0"}, {"SSCAN", "pz", "0"}, {"SRANDMEMBER", "pz", "2"}, {"SMISMEMBER", "pz", "1", "2"}, {"LINDEX", "pl", "-1"}, {"MGET", "ps", "pc", "pb"}, {"SMEMBERS", "pz"}, {"SISMEMBER", "pz", "3"}, {"SINTER", "pz", "pz"}, {"SORT", "pz"}, {"SORT", "pl", "ALPHA"},
			{"DUMP", "pb"}, {"TTL", "ps"}, {"TYPE", "pl"}, {"BITOP", "AND", "pb3", "pb", "pb2"}, {"COPY", "ph", "ph2", "REPLACE"}, {"GET", "pc"}}[r.Intn(37)]}
	}
	// the same command classes at the same time in DIFFERENT databases: the database lock does not order these
	// connections, so anything they share (package-level helpers, generators, caches, the client registry)
	// needs its own synchronisation
	mirror := func(db string) func(c *Conn, r *rand.Rand) [][]string {
		return func(c *Conn, r *rand.Rand) [][]string {
			extra := [][]string{{"SADD", "ks", "a", "b", "c", "d", "e"}, {"HSET", "kh", "f1", "1", "f2", "2", "f3", "3"}, {"SRANDMEMBER", "ks", "3"}, {"SRANDMEMBER", "ks", "-20"}, {"SRANDMEMBER", "ks"},
				{"SPOP", "ks"}, {"SPOP", "ks", "2"}, {"HRANDFIELD", "kh", "2"}, {"HRANDFIELD", "kh", "-20", "WITHVALUES"}, {"HRANDFIELD", "kh"}, {"RANDOMKEY"}, {"SCAN", "0", "COUNT", "3"},
				{"SSCAN", "ks", "0"}, {"HSCAN", "kh", "0"}, {"SORT", "ks", "ALPHA"}, {"LCS", "ka", "kb"}, {"INCRBYFLOAT", "kf", "0.5"}, {"HINCRBYFLOAT", "kh", "n", "0.5"}, {"OBJECT", "ENCODING", "ka"},
				{"EXPIRE", "ka", "100"}, {"SET", "kt", "v", "PX", "3"}, {"GET", "kt"}, {"KEYS", "k[a-z]*"}, {"BITFIELD", "kb", "INCRBY", "u8", "0", "1"}, {"DUMP", "ka"},
				{"BLPOP", "nolist", "0.002"}, {"BRPOP", "nolist", "nolist2", "0.003"}, {"BLMOVE", "nolist", "kl", "LEFT", "RIGHT", "0.002"}, {"BLMPOP", "0.002", "1", "nolist", "LEFT"}, {"BRPOPLPUSH", "nolist", "kl", "0.002"}}
			var a []string
			if r.Intn(2) == 0 {
				a = data(c, r)[0]
			} else {
				a = extra[r.Intn(len(extra))]
			}
			return [][]string{{"SELECT", db}, a}
		}
	}
	// random-member and random-key commands at the same time in two further databases (shared generators)
	randDb := func(db string) func(c *Conn, r *rand.Rand) [][]string {
		return func(c *Conn, r *rand.Rand) [][]string {
			return [][]string{{"SELECT", db}, {"SADD", "ks", "a", "b", "c", "d", "e"}, {"HSET", "kh", "f1", "1", "f2", "2", "f3", "3"}, {"SRANDMEMBER", "ks", "-20"}, {"HRANDFIELD", "kh", "-20"},
				{"SRANDMEMBER", "ks", "3"}, {"HRANDFIELD", "kh", "2", "WITHVALUES"}, {"SPOP", "ks"}, {"RANDOMKEY"}, {"SRANDMEMBER", "ks"}, {"HRANDFIELD", "kh"}}
		}
	}
	fns := []func(c *Conn, r *rand.Rand) [][]string{randDb("11"), randDb("12"), mirror("5"), mirror("6"), mirror("7"), data, data, data, intro, intro, sel, tx, tx, blocker, blocker, feeder, flusher, selmany, xwatch, sel, blocker2, blocker2, pairW, pairR, pairR, pairW}
	for i, f := range fns {
		wg.Add(1)
		go worker(i, f, i%3 == 0)
	}
	wg.Wait()
	return total
}

// cold start: in a fresh process, several connections issue the SAME command at the same moment as the first
// command of that kind the process has ever seen — the schedule that "parse once, cache for ever" code
// (lazy initialisation without synchronisation) needs to show up; the long workload above never produces it,
// because there the first INFO, COMMAND DOCS ... of the process comes from one connection
func c16ColdStart(g *rand.Rand, port int) int {
	const nc = 8
	volleys := [][]string{{"INFO"}, {"INFO", "server"}, {"COMMAND", "DOCS", "get"}, {"COMMAND", "INFO", "set"}, {"COMMAND", "COUNT"}, {"COMMAND", "LIST"}, {"COMMAND", "DOCS"}, {"COMMAND", "INFO"},
		{"CLIENT", "LIST"}, {"CLIENT", "INFO"}, {"HELLO", "3"}, {"DBSIZE"}, {"LCS", "a", "b"}, {"SORT", "l"}, {"BITFIELD", "b", "GET", "u8", "0"}, {"SET", "cs", "1", "EX", "100"}, {"INCRBYFLOAT", "fl", "1.5"},
		{"HINCRBYFLOAT", "h", "f", "1.5"}, {"SCAN", "0"}, {"KEYS", "*"}, {"RANDOMKEY"}, {"OBJECT", "ENCODING", "cs"}, {"TYPE", "cs"}, {"CLIENT", "SETNAME", "x"}, {"CLIENT", "NO-EVICT", "on"},
		{"COMMAND", "GETKEYS", "get", "a"}, {"SELECT", "3"}, {"MULTI"}, {"EXEC"}, {"WATCH", "a"}, {"BLPOP", "nolist", "0.01"}, {"SRANDMEMBER", "s"}, {"SPOP", "s"}, {"HRANDFIELD", "h"},
		{"EXPIRE", "cs", "100"}, {"TTL", "cs"}, {"PING"}, {"ECHO", "x"}, {"TIME"}, {"nosuchcommand"}, {"GET"}, {"RESET"}, {"QUIT"}}
	g.Shuffle(len(volleys)-2, func(i, j int) { volleys[i], volleys[j] = volleys[j], volleys[i] })
	conns := make([]*Conn, 0, nc)
	for i := 0; i < nc; i++ {
		c, err := dial(port)
		if err != nil {
			break
		}
		conns = append(conns, c)
	}
	total := 0
	for _, v := range volleys {
		start := make(chan struct{})
		var wg sync.WaitGroup
		for _, c := range conns {
			wg.Add(1)
			go func(c *Conn) {
				defer wg.Done()
				raw := encodeCmd(bs(v...))
				<-start
				c.SendRaw(raw)
				c.Read(2 * time.Second)
			}(c)
		}
		time.Sleep(2 * time.Millisecond)
		close(start)
		wg.Wait()
		total += len(conns)
	}
	for _, c := range conns {
		c.Close()
	}
	return total
}

func runC16(cfg runCfg, res *Result) error {
	g := rand.New(rand.NewSource(cfg.seed))
	race := filepath.Join(filepath.Dir(os.Args[0]), "harness_race")
	if _, err := os.Stat(race); err != nil {
		return fmt.Errorf("race-detector build of the harness is missing (%s)", race)
	}
	serverBinary = race
	defer func() { serverBinary = "" }()
	dur := 8 * time.Second
	rounds := 1
	if cfg.tier == "thorough" {
		dur, rounds = 40*time.Second, 4
	}
	listed := loadFindings("")
	if res.KnownActive == nil {
		res.KnownActive = map[string]string{}
		res.KnownHits = map[string]int{}
	}
	all := map[string]string{}
	collect := func(stderr string) {
		for _, site := range parseRaces(stderr) {
			all[site] = ""
		}
		if len(all) > 0 && res.Extra["first_report"] == nil {
			res.Extra["first_report"] = tail(firstRace(stderr), 1800)
		}
		if !strings.Contains(stderr, "WARNING: DATA RACE") && strings.Contains(stderr, "panic:") {
			all["process panic"] = tail(stderr, 600)
		}
	}
	// fresh processes that only see the cold-start volleys, each in a different order
	cold := 3
	if cfg.tier == "thorough" {
		cold = 12
	}
	os.Setenv("GORACE", "halt_on_error=0 history_size=3")
	for k := 0; k < cold; k++ {
		srv, err := startServer("")
		if err != nil {
			return err
		}
		n := c16ColdStart(g, srv.Port)
		res.Extra["cold_start_commands"] = toInt(res.Extra["cold_start_commands"]) + n
		res.Steps += n
		srv.Ctl("CLOSE 0", 10*time.Second)
		srv.Ctl("EXIT", 2*time.Second)
		waitDead(srv, 3*time.Second)
		stderr := srv.Stderr()
		srv.Kill()
		collect(stderr)
	}
	for r := 0; r < rounds; r++ {
		dir, err := os.MkdirTemp("", "verif-c16-")
		if err != nil {
			return err
		}
		os.Setenv("GORACE", "halt_on_error=0 history_size=3")
		srv, err := startServer(filepath.Join(dir, "snap"))
		if err != nil {
			os.RemoveAll(dir)
			return err
		}
		// the saver pass, much more often than its one-second ticker
		saverStop := make(chan struct{})
		saverDone := make(chan struct{})
		go func() {
			defer close(saverDone)
			for {
				select {
				case <-saverStop:
					return
				case <-time.After(7 * time.Millisecond):
					srv.Ctl("SAVE 0", 5*time.Second)
				}
			}
		}()
		n := c16ColdStart(g, srv.Port)
		res.Extra["cold_start_commands"] = toInt(res.Extra["cold_start_commands"]) + n
		n += c16Workload(g, srv.Port, dur)
		close(saverStop)
		<-saverDone
		res.Steps += n
		res.Histories++
		// a second emulator in the same process, start/stop while the first is busy
		p2 := freePort()
		srv.Ctl(fmt.Sprintf("START 1 %d", p2), 10*time.Second)
		c16Workload(g, p2, time.Second)
		srv.Ctl("CLOSE 1", 10*time.Second)
		srv.Ctl("CLOSE 0", 10*time.Second)
		srv.Ctl("EXIT", 2*time.Second)
		waitDead(srv, 3*time.Second)
		stderr := srv.Stderr()
		srv.Kill()
		os.RemoveAll(dir)
		collect(stderr)
	}
	var sites []string
	for s := range all {
		sites = append(sites, s)
	}
	sort.Strings(sites)
	res.Samples = append(res.Samples, fmt.Sprintf("26 concurrent connections for %v: the command mix at the same time in three further databases x data commands x introspection x SELECT (16 databases)/FLUSH x MULTI/EXEC (also with keys watched in another database) x blocking commands (in four databases) x writer/reader pairs on one key per type x reconnects, saver pass every 7 ms, a second emulator started and closed", dur))
	for _, s := range sites {
		m := &Mismatch{Index: -1, Op: "data race", Why: "the race detector reports unsynchronised accesses at " + s}
		known := false
		for _, lf := range listed {
			if strings.HasPrefix(lf.ID, "race-") && strings.Contains(lf.Text, s) {
				res.KnownActive[lf.ID] = lf.Text
				res.KnownHits[lf.ID]++
				known = true
			}
		}
		if known {
			continue
		}
		os.MkdirAll(cfg.replayDir, 0o755)
		path := filepath.Join(cfg.replayDir, fmt.Sprintf("C16-seed%d-%d.json", cfg.seed, len(res.Mismatches)+1))
		b, _ := json.MarshalIndent(map[string]any{"property": "C16", "kind": "race-report", "seed": cfg.seed, "why": m.Why, "sites": s,
			"workload": "harness run -prop C16 (race-detector build of the emulator child)", "first_report": res.Extra["first_report"]}, "", " ")
		os.WriteFile(path, b, 0o644)
		res.Mismatches = append(res.Mismatches, m)
		res.Replays = append(res.Replays, path)
	}
	res.Distinct = res.Steps
	res.Extra["distinct_race_sites"] = len(sites)
	return nil
}

func firstRace(stderr string) string {
	i := strings.Index(stderr, "WARNING: DATA RACE")
	if i < 0 {
		return ""
	}
	s := stderr[i:]
	if j := strings.Index(s[10:], "=================="); j > 0 {
		s = s[:j+10]
	}
	return s
}

func init() {
	streams["C16"] = runC16
	specialReplay["C16"] = true
}
