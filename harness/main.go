package main

import (
	"fmt"
	"os"
)

func main() {
	if len(os.Args) < 2 {
		fmt.Println("usage: harness serve|run ...")
		os.Exit(2)
	}
	switch os.Args[1] {
	case "serve":
		serveMain(os.Args[2:])
	case "run":
		runMain(os.Args[2:])
	case "factgen":
		factgenMain(os.Args[2:])
	default:
		fmt.Println("unknown subcommand")
		os.Exit(2)
	}
}
