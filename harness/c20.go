package main

// C20: lifecycle. Close() returns promptly whatever the clients are doing, afterwards no old
// connection can read or modify data, the port is reusable at once, a successor starts empty,
// and several emulators in one process do not see each other's clients or data.

import (
	"bufio"
	"encoding/json"
	"fmt"
	"math/rand"
	"net"
	"os"
	"path/filepath"
	"strings"
	"sync"
	"sync/atomic"
	"time"
)

func c20Dump(srv *Server, eng, db int) (dumpDb, error) {
	var d dumpDb
	line, err := srv.Ctl(fmt.Sprintf("DUMP %d %d", eng, db), 5*time.Second)
	if err != nil {
		return d, err
	}
	err = json.Unmarshal([]byte(line), &d)
	return d, err
}

func keyStr(d dumpDb, k string) (string, bool) {
	for _, e := range d.Keys {
		if e.Key == k {
			raw, _ := json.Marshal(e)
			var m map[string]any
			json.Unmarshal(raw, &m)
			if s, ok := m["Str"].(string); ok {
				return s, true
			}
			return "", true
		}
	}
	return "", false
}

// one termination scenario; "" = fine
func c20Close(g *rand.Rand, log *[]string) (string, error) {
	srv, err := startServer("")
	if err != nil {
		return "", err
	}
	defer srv.Kill()
	note := func(f string, a ...any) { *log = append(*log, fmt.Sprintf(f, a...)) }
	port := srv.Port
	setup, err := dial(port)
	if err != nil {
		return "", err
	}
	setup.Do(2*time.Second, bs("SET", "k", "1")...)
	setup.Do(2*time.Second, bs("RPUSH", "l", "a")...)

	// clients in assorted states at the moment of termination
	kinds := []string{"idle", "pipeline", "multi", "blocked", "blocked-timeout", "busy", "busy", "stalled", "just-replied"}
	setup.Do(4*time.Second, bs("SET", "bigvalue", strings.Repeat("v", 1<<20))...)
	type cl struct {
		kind string
		c    *Conn
	}
	var cls []cl
	for i := 0; i < 2+g.Intn(5); i++ {
		kind := kinds[g.Intn(len(kinds))]
		c, err := dial(port)
		if err != nil {
			return "", err
		}
		switch kind {
		case "pipeline":
			c.SendRaw([]byte("*3\r\n$3\r\nSET\r\n$1\r\nk\r\n$1\r\n")) // half a command
		case "multi":
			c.Do(2*time.Second, bs("MULTI")...)
			c.Do(2*time.Second, bs("SET", "k", "2")...)
		case "blocked":
			c.Send(bs("BLPOP", "nolist", "0"))
		case "blocked-timeout":
			c.Send(bs("BRPOP", "nolist", "30"))
		case "stalled":
			// many large replies requested, none read: the server side is stuck in its write
			var req []byte
			for j := 0; j < 48; j++ {
				req = append(req, encodeCmd(bs("GET", "bigvalue"))...)
			}
			c.SendRaw(req)
		case "just-replied":
			c.Do(2*time.Second, bs("PING")...)
		case "busy":
			go func() {
				for j := 0; j < 2000; j++ {
					if _, err := c.Do(time.Second, bs("INCR", "counter")...); err != nil {
						return
					}
				}
			}()
		}
		cls = append(cls, cl{kind, c})
		note("client %d: %s", i, kind)
	}
	// connections that are being established while Close() runs: each ends up refused or closed
	var lateMu sync.Mutex
	var late []*Conn
	stopDial := make(chan struct{})
	var dialWg sync.WaitGroup
	nDialers := g.Intn(4)
	for d := 0; d < nDialers; d++ {
		dialWg.Add(1)
		go func() {
			defer dialWg.Done()
			// keeps connecting until Close() has returned; only the most recent connections matter
			// (those accepted around the moment of termination), older ones are given back
			var mine []*Conn
			for j := 0; j < 200000; j++ {
				select {
				case <-stopDial:
					j = 200000
					continue
				default:
				}
				c, err := net.DialTimeout("tcp", fmt.Sprintf("127.0.0.1:%d", port), time.Second)
				if err != nil {
					break
				}
				cn := &Conn{c: c}
				cn.r = bufio.NewReaderSize(c, 1<<12)
				mine = append(mine, cn)
				if len(mine) > 120 {
					mine[0].Close()
					mine = mine[1:]
				}
			}
			lateMu.Lock()
			late = append(late, mine...)
			lateMu.Unlock()
		}()
	}
	note("%d goroutines keep connecting while Close() runs", nDialers)
	if g.Intn(3) > 0 {
		time.Sleep(time.Duration(g.Intn(40)) * time.Millisecond)
	}

	t0 := time.Now()
	r, err := srv.Ctl("CLOSE 0", 15*time.Second)
	el := time.Since(t0)
	close(stopDial)
	dialWg.Wait()
	note("Close() -> %s after %v", r, el)
	if err != nil || !strings.HasPrefix(r, "CLOSED") {
		return fmt.Sprintf("Close() did not return within 10 s with clients %v", *log), nil
	}
	if el > 2*time.Second {
		return fmt.Sprintf("Close() took %v", el), nil
	}
	before, err := c20Dump(srv, 0, 0)
	if err != nil {
		return "", err
	}
	kBefore, _ := keyStr(before, "k")
	cBefore, _ := keyStr(before, "counter")

	// no previously connected client can read or modify data any more
	for i, x := range cls {
		var reply *Node
		var err error
		switch x.kind {
		case "pipeline":
			x.c.SendRaw([]byte("9\r\n"))
			reply, err = x.c.Read(400 * time.Millisecond)
		case "multi":
			reply, err = x.c.Do(400*time.Millisecond, bs("EXEC")...)
		case "blocked", "blocked-timeout":
			// the pending BLPOP may be answered with nil (the block was ended); nothing after that
			reply, err = x.c.Read(400 * time.Millisecond)
			if err == nil && reply.Nil {
				reply, err = x.c.Do(400*time.Millisecond, bs("SET", "k", "3")...)
			}
		case "busy":
			time.Sleep(20 * time.Millisecond)
			reply, err = x.c.Do(400*time.Millisecond, bs("SET", "k", "4")...)
		default:
			reply, err = x.c.Do(400*time.Millisecond, bs("SET", "k", "5")...)
		}
		if err == nil && reply != nil && !(reply.Kind == '-') && x.kind != "stalled" {
			return fmt.Sprintf("client %d (%s) was still served after Close() had returned: %s", i, x.kind, reply.String()), nil
		}
		// existing connections are closed: after whatever was already in flight, the stream ends
		if !reachesEOF(x.c, 1500*time.Millisecond) {
			return fmt.Sprintf("client %d (%s): its connection is still open after Close() had returned", i, x.kind), nil
		}
		x.c.Close()
	}
	for i, c := range late {
		// a connection whose handshake the kernel completed on a listener that was closed before
		// accepting it exists only on the client's side: it ends as soon as the client sends
		c.c.SetWriteDeadline(time.Now().Add(time.Second))
		c.c.Write(encodeCmd(bs("PING")))
		c.c.SetReadDeadline(time.Now().Add(1500 * time.Millisecond))
		if n, _ := c.r.Peek(1); len(n) == 1 && n[0] == '+' {
			return fmt.Sprintf("connection %d of %d established while Close() was running was served after Close() had returned", i, len(late)), nil
		}
		if !reachesEOF(c, 1500*time.Millisecond) {
			return fmt.Sprintf("connection %d of %d established while Close() was running is still open after Close() had returned", i, len(late)), nil
		}
		c.Close()
	}
	note("%d connections were established while Close() ran", len(late))
	time.Sleep(30 * time.Millisecond)
	after, err := c20Dump(srv, 0, 0)
	if err != nil {
		return "", err
	}
	kAfter, _ := keyStr(after, "k")
	cAfter, _ := keyStr(after, "counter")
	if kAfter != kBefore || cAfter != cBefore {
		return fmt.Sprintf("data changed after Close() had returned: k %q -> %q, counter %q -> %q", kBefore, kAfter, cBefore, cAfter), nil
	}
	// new requests are refused
	if c, err := dial(port); err == nil {
		if rr, err2 := c.Do(300*time.Millisecond, bs("PING")...); err2 == nil {
			c.Close()
			return "a new connection was accepted and served after Close(): " + rr.String(), nil
		}
		c.Close()
	}
	// the port is free at once, the successor starts empty and sees only its own clients
	if r, err := srv.Ctl(fmt.Sprintf("START 1 %d", port), 10*time.Second); err != nil || !strings.HasPrefix(r, "STARTED") {
		if !srv.Alive() {
			return "starting a successor on the same port right after Close() failed (process exited): " + tail(srv.Stderr(), 300), nil
		}
		return "", fmt.Errorf("START: %v %q", err, r)
	}
	c2, err := dial(port)
	if err != nil {
		return "cannot connect to the successor on the same port: " + err.Error(), nil
	}
	defer c2.Close()
	sz, err := c2.Do(2*time.Second, bs("DBSIZE")...)
	if err != nil || sz.Int != 0 {
		return fmt.Sprintf("successor without persist path does not start empty: DBSIZE %v %v", sz, err), nil
	}
	ks, _ := c2.Do(2*time.Second, bs("KEYS", "*")...)
	if len(ks.Elems) != 0 {
		return "successor sees keys of its predecessor: " + ks.String(), nil
	}
	time.Sleep(60 * time.Millisecond)
	cl2, err := c2.Do(2*time.Second, bs("CLIENT", "LIST")...)
	if err != nil {
		return "successor: CLIENT LIST failed", nil
	}
	if n := strings.Count(string(cl2.Str), "id="); n != 1 {
		return fmt.Sprintf("successor's CLIENT LIST shows %d clients, expected only its own: %q", n, cl2.Str), nil
	}
	srv.Ctl("CLOSE 1", 10*time.Second)
	if why := c20Trace(srv, false); why != "" {
		return why, nil
	}
	return "", nil
}

// does the peer end the stream (EOF or reset) within d? Bytes still in flight are drained.
func reachesEOF(c *Conn, d time.Duration) bool {
	deadline := time.Now().Add(d)
	buf := make([]byte, 1<<16)
	for {
		c.c.SetReadDeadline(deadline)
		_, err := c.r.Read(buf)
		if err != nil {
			if ne, ok := err.(net.Error); ok && ne.Timeout() {
				return false
			}
			return true
		}
		if time.Now().After(deadline) {
			// still sending after the bound: not closed
			return false
		}
	}
}

// goroutines that keep connecting until stopped; returns the most recent connections of each
// (those established around the moment of termination)
func startDialers(port, n int) func() []*Conn {
	var mu sync.Mutex
	var late []*Conn
	stop := make(chan struct{})
	var wg sync.WaitGroup
	for d := 0; d < n; d++ {
		wg.Add(1)
		go func() {
			defer wg.Done()
			var mine []*Conn
			for j := 0; j < 200000; j++ {
				select {
				case <-stop:
					j = 200000
					continue
				default:
				}
				c, err := net.DialTimeout("tcp", fmt.Sprintf("127.0.0.1:%d", port), time.Second)
				if err != nil {
					break
				}
				cn := &Conn{c: c}
				cn.r = bufio.NewReaderSize(c, 1<<12)
				mine = append(mine, cn)
				if len(mine) > 120 {
					mine[0].Close()
					mine = mine[1:]
				}
			}
			mu.Lock()
			late = append(late, mine...)
			mu.Unlock()
		}()
	}
	return func() []*Conn {
		close(stop)
		wg.Wait()
		return late
	}
}

// a connection made while Close() ran must be refused or closed: "" = fine
func lateVerdict(late []*Conn) string {
	for i, c := range late {
		// a connection whose handshake the kernel completed on a listener that was closed before
		// accepting it exists only on the client's side: it ends as soon as the client sends
		c.c.SetWriteDeadline(time.Now().Add(time.Second))
		c.c.Write(encodeCmd(bs("PING")))
		c.c.SetReadDeadline(time.Now().Add(1500 * time.Millisecond))
		if n, _ := c.r.Peek(1); len(n) == 1 && n[0] == '+' {
			return fmt.Sprintf("connection %d of %d established while Close() was running was served after Close() had returned", i, len(late))
		}
		if !reachesEOF(c, 1500*time.Millisecond) {
			return fmt.Sprintf("connection %d of %d established while Close() was running is still open after Close() had returned", i, len(late))
		}
		c.Close()
	}
	return ""
}

// many start/stop cycles on one port in one process, Close() landing while every client is between
// two commands at a different point: the narrow windows of the connection state machine
func c20Swarm(g *rand.Rand, log *[]string) (string, error) {
	srv, err := startServer("")
	if err != nil {
		return "", err
	}
	defer srv.Kill()
	port := freePort()
	// churn: connections coming and going at the same time (on the emulator the child starts with) while a
	// second emulator is alive; both must keep serving, and both must close within the bound afterwards
	{
		pb := freePort()
		if r, err := srv.Ctl(fmt.Sprintf("START 2 %d", pb), 10*time.Second); err != nil || !strings.HasPrefix(r, "STARTED") {
			return "", fmt.Errorf("START: %v %q", err, r)
		}
		var wg sync.WaitGroup
		stop := time.Now().Add(700 * time.Millisecond)
		var cyclesDone int64
		for i := 0; i < 24; i++ {
			wg.Add(1)
			go func() {
				defer wg.Done()
				for time.Now().Before(stop) {
					c, err := dial(srv.Port)
					if err != nil {
						return
					}
					c.Do(2*time.Second, bs("PING")...)
					c.Close()
					atomic.AddInt64(&cyclesDone, 1)
				}
			}()
		}
		wg.Wait()
		for _, p := range []int{srv.Port, pb} {
			c, err := dial(p)
			if err != nil {
				return fmt.Sprintf("after %d connect/PING/disconnect cycles by 24 clients the emulator on port %d refuses connections: %v", cyclesDone, p, err), nil
			}
			if r, err := c.Do(2*time.Second, bs("PING")...); err != nil || string(r.Str) != "PONG" {
				c.Close()
				return fmt.Sprintf("after %d connect/PING/disconnect cycles by 24 clients (connections registering and unregistering at the same time) an emulator of the process no longer answers PING: %v", cyclesDone, err), nil
			}
			c.Close()
		}
		if r, err := srv.Ctl("CLOSE 2", 15*time.Second); err != nil || !strings.HasPrefix(r, "CLOSED") {
			return fmt.Sprintf("Close() of the second emulator after the churn did not return (%q %v)", r, err), nil
		}
		*log = append(*log, fmt.Sprintf("churn: %d connect/PING/disconnect cycles by 24 clients in 0.7 s", cyclesDone))
	}
	cycles := 40
	for cy := 0; cy < cycles; cy++ {
		if r, err := srv.Ctl(fmt.Sprintf("START 1 %d", port), 10*time.Second); err != nil || !strings.HasPrefix(r, "STARTED") {
			if !srv.Alive() {
				return fmt.Sprintf("cycle %d: starting an emulator on the port of the one just closed failed (process exited): %s", cy, tail(srv.Stderr(), 300)), nil
			}
			return "", fmt.Errorf("START: %v %q", err, r)
		}
		n := 8 + g.Intn(17)
		conns := make([]*Conn, 0, n)
		for i := 0; i < n; i++ {
			c, err := dial(port)
			if err != nil {
				return fmt.Sprintf("cycle %d: cannot connect to the restarted emulator: %v", cy, err), nil
			}
			conns = append(conns, c)
		}
		var wg sync.WaitGroup
		served := make([]int, n)
		for i, c := range conns {
			wg.Add(1)
			go func(i int, c *Conn) {
				defer wg.Done()
				for j := 0; j < 100000; j++ {
					if _, err := c.Do(3*time.Second, bs("PING")...); err != nil {
						return
					}
					served[i]++
				}
			}(i, c)
		}
		var stopDialers func() []*Conn
		if cy%2 == 1 {
			stopDialers = startDialers(port, 2+g.Intn(5))
		}
		time.Sleep(time.Duration(500+g.Intn(3000)) * time.Microsecond)
		t0 := time.Now()
		r, err := srv.Ctl("CLOSE 1", 15*time.Second)
		el := time.Since(t0)
		var late []*Conn
		if stopDialers != nil {
			late = stopDialers()
		}
		if err != nil || !strings.HasPrefix(r, "CLOSED") || el > 2*time.Second {
			*log = append(*log, fmt.Sprintf("cycle %d: %d clients sending PING in a loop; Close() -> %q after %v", cy, n, r, el))
			for _, c := range conns {
				c.Close()
			}
			wg.Wait()
			why := fmt.Sprintf("cycle %d: Close() did not return promptly (%q after %v) while %d clients were sending PING in a loop", cy, r, el, n)
			if t := c20Trace(srv, false); t != "" {
				why += "; " + t
			}
			return why, nil
		}
		if why := lateVerdict(late); why != "" {
			return fmt.Sprintf("cycle %d: %s", cy, why), nil
		}
		wg.Wait() // every loop ends: its connection was closed (a Do that times out after 3 s also ends it)
		for i, c := range conns {
			if !reachesEOF(c, time.Second) {
				return fmt.Sprintf("cycle %d: connection %d is still open after Close() had returned", cy, i), nil
			}
			c.Close()
		}
		for _, c := range late {
			c.Close()
		}
		if why := c20Trace(srv, true); why != "" {
			return fmt.Sprintf("cycle %d: %s", cy, why), nil
		}
	}
	*log = append(*log, fmt.Sprintf("%d start/stop cycles on port %d with 8-24 busy clients each", cycles, port))
	return "", nil
}

// two emulators alive in one process
func c20TwoInstances(g *rand.Rand, log *[]string) (string, error) {
	srv, err := startServer("")
	if err != nil {
		return "", err
	}
	defer srv.Kill()
	pb := freePort()
	if r, err := srv.Ctl(fmt.Sprintf("START 1 %d", pb), 10*time.Second); err != nil || !strings.HasPrefix(r, "STARTED") {
		return "", fmt.Errorf("START: %v %q", err, r)
	}
	a, err := dial(srv.Port)
	if err != nil {
		return "", err
	}
	defer a.Close()
	b, err := dial(pb)
	if err != nil {
		return "", err
	}
	defer b.Close()
	b2, _ := dial(pb)
	defer b2.Close()
	a.Do(2*time.Second, bs("SET", "shared", "fromA")...)
	if r, _ := b.Do(2*time.Second, bs("GET", "shared")...); r == nil || !r.Nil {
		return "data written on emulator A is visible on emulator B", nil
	}
	b.Do(2*time.Second, bs("SET", "shared", "fromB")...)
	if r, _ := a.Do(2*time.Second, bs("GET", "shared")...); r == nil || string(r.Str) != "fromA" {
		return "a write on emulator B changed emulator A's data", nil
	}
	idb, _ := b2.Do(2*time.Second, bs("CLIENT", "ID")...)
	la, _ := a.Do(2*time.Second, bs("CLIENT", "LIST")...)
	if n := strings.Count(string(la.Str), "id="); n != 1 {
		return fmt.Sprintf("CLIENT LIST on emulator A shows %d clients although only one is connected to it: %q", n, la.Str), nil
	}
	// A tries to kill and to unblock a client of B
	b2.Send(bs("BLPOP", "nolist", "0"))
	time.Sleep(40 * time.Millisecond)
	kills := [][]string{{"CLIENT", "KILL", "ID", fmt.Sprint(idb.Int)}, {"CLIENT", "KILL", "TYPE", "normal"}, {"CLIENT", "KILL", "USER", "default"},
		{"CLIENT", "KILL", "ADDR", b2.c.LocalAddr().String()}, {"CLIENT", "KILL", "LADDR", b2.c.RemoteAddr().String()}, {"CLIENT", "KILL", b2.c.LocalAddr().String()},
		{"CLIENT", "KILL", "ID", fmt.Sprint(idb.Int), "SKIPME", "no"}, {"CLIENT", "KILL", "TYPE", "normal", "SKIPME", "yes"}}
	first := g.Intn(len(kills))
	for j := 0; j < 3; j++ {
		kill := kills[(first+j*3)%len(kills)]
		kr, err := a.Do(2*time.Second, bs(kill...)...)
		*log = append(*log, fmt.Sprintf("on A: %v -> %v", kill, kr))
		if err != nil {
			return fmt.Sprintf("%v on emulator A got no reply", kill), nil
		}
		if kr.Kind == ':' && kr.Int != 0 || kr.Kind == '+' {
			return fmt.Sprintf("%v on emulator A, to which only the issuing client is connected, reports %s: it acted on a client of emulator B", kill, kr.String()), nil
		}
	}
	ub, _ := a.Do(2*time.Second, bs("CLIENT", "UNBLOCK", fmt.Sprint(idb.Int))...)
	if ub != nil && ub.Int != 0 {
		return "CLIENT UNBLOCK on emulator A acted on a client of emulator B", nil
	}
	// b2 must still be blocked: its read times out; an end of stream means it was killed
	if r, err := b2.Read(300 * time.Millisecond); err == nil {
		return fmt.Sprintf("a client of emulator B was unblocked from emulator A (%v)", r), nil
	} else if ne, ok := err.(net.Error); !ok || !ne.Timeout() {
		return fmt.Sprintf("a client of emulator B was disconnected by CLIENT KILL issued on emulator A (%v)", err), nil
	}
	if r, err := b.Do(2*time.Second, bs("PING")...); err != nil || string(r.Str) != "PONG" {
		return fmt.Sprintf("a client of emulator B was disconnected by CLIENT KILL issued on emulator A (%v)", err), nil
	}
	// an emulator with its own configuration (CLIENT SETINFO disabled, a dispatch hook on ECHO) changes nothing
	// for the others, neither while it runs nor for a successor on its port
	pcfg := freePort()
	if r, err := srv.Ctl(fmt.Sprintf("STARTCFG 2 %d", pcfg), 10*time.Second); err != nil || !strings.HasPrefix(r, "STARTED") {
		return "", fmt.Errorf("STARTCFG: %v %q", err, r)
	}
	plain := func(c *Conn, who string) string {
		if r, err := c.Do(2*time.Second, bs("CLIENT", "SETINFO", "LIB-NAME", "x")...); err != nil || r.Kind == '-' {
			return fmt.Sprintf("%s: CLIENT SETINFO answers %v although only another emulator in the process was configured without it", who, r)
		}
		if r, err := c.Do(2*time.Second, bs("ECHO", "hi")...); err != nil || string(r.Str) != "hi" {
			return fmt.Sprintf("%s: ECHO hi answers %v: the dispatch hook of another emulator was applied", who, r)
		}
		return ""
	}
	if cc, err := dial(pcfg); err == nil {
		if r, _ := cc.Do(2*time.Second, bs("CLIENT", "SETINFO", "LIB-NAME", "x")...); r == nil || r.Kind != '-' {
			cc.Close()
			return fmt.Sprintf("the emulator configured without CLIENT SETINFO serves it: %v", r), nil
		}
		cc.Close()
	}
	for _, x := range []struct {
		c   *Conn
		who string
	}{{a, "emulator A (connected before)"}, {b, "emulator B (connected before)"}} {
		if why := plain(x.c, x.who); why != "" {
			return why, nil
		}
	}
	if nb, err := dial(pb); err == nil {
		why := plain(nb, "emulator B (new connection)")
		nb.Close()
		if why != "" {
			return why, nil
		}
	}
	srv.Ctl("CLOSE 2", 10*time.Second)
	if r, err := srv.Ctl(fmt.Sprintf("START 3 %d", pcfg), 10*time.Second); err != nil || !strings.HasPrefix(r, "STARTED") {
		return fmt.Sprintf("a plain successor on the port of the configured emulator did not start: %v %q", err, r), nil
	}
	if sc, err := dial(pcfg); err == nil {
		why := plain(sc, "plain successor on the configured emulator's port")
		sc.Close()
		if why != "" {
			return why, nil
		}
	}
	srv.Ctl("CLOSE 3", 10*time.Second)
	// closing A leaves B serving
	if r, err := srv.Ctl("CLOSE 0", 10*time.Second); err != nil || !strings.HasPrefix(r, "CLOSED") {
		return fmt.Sprintf("Close() of emulator A did not return (%q %v) %s", r, err, tail(srv.Stderr(), 300)), nil
	}
	if r, err := b.Do(2*time.Second, bs("GET", "shared")...); err != nil || string(r.Str) != "fromB" {
		return "closing emulator A disturbed emulator B", nil
	}
	// start/stop cycles on one port
	pc := freePort()
	for i := 0; i < 8; i++ {
		if r, err := srv.Ctl(fmt.Sprintf("START %d %d", 10+i, pc), 10*time.Second); err != nil || !strings.HasPrefix(r, "STARTED") {
			return fmt.Sprintf("start/stop cycle %d: emulator did not start on the reused port: %v %q %s", i, err, r, tail(srv.Stderr(), 200)), nil
		}
		c, err := dial(pc)
		if err != nil {
			return fmt.Sprintf("start/stop cycle %d: cannot connect: %v", i, err), nil
		}
		if r, err := c.Do(2*time.Second, bs("INCR", "n")...); err != nil || r.Int != 1 {
			return fmt.Sprintf("start/stop cycle %d: emulator does not start empty (INCR n -> %v)", i, r), nil
		}
		if g.Intn(2) == 0 {
			c.Close()
		}
		if r, err := srv.Ctl(fmt.Sprintf("CLOSE %d", 10+i), 10*time.Second); err != nil || !strings.HasPrefix(r, "CLOSED") {
			return fmt.Sprintf("start/stop cycle %d: Close() did not return", i), nil
		}
		c.Close()
	}
	if why := c20Trace(srv, false); why != "" {
		return why, nil
	}
	return "", nil
}

var c20Model *Model
var c20Cxn cxnCheck

// the recorded event-loop labels of every connection against Cxn.v ("" = all runs are runs of the model)
func c20Trace(srv *Server, mustBeDone bool) string {
	if c20Model == nil || !srv.Alive() {
		return ""
	}
	why, _, err := checkCxnLogs(srv, c20Model, mustBeDone, &c20Cxn)
	if err != nil {
		return "connection-loop trace check failed: " + err.Error()
	}
	return why
}

func runC20(cfg runCfg, res *Result) error {
	g := rand.New(rand.NewSource(cfg.seed))
	if mdl, err := startModel(cfg.modelPath); err == nil {
		c20Model = mdl
		c20Cxn = cxnCheck{}
		defer func() { mdl.Close(); c20Model = nil }()
	} else {
		return err
	}
	n := 10
	if cfg.tier == "thorough" {
		n = 150
	}
	for i := 0; i < n && len(res.Mismatches) < 3; i++ {
		var log []string
		var why string
		var err error
		name := "close"
		seed := g.Int63()
		if cfg.replay != "" {
			b, rerr := os.ReadFile(cfg.replay)
			if rerr != nil {
				return rerr
			}
			var rp struct {
				Case struct {
					Name string
					Seed int64
				} `json:"case"`
			}
			json.Unmarshal(b, &rp)
			name, seed = rp.Case.Name, rp.Case.Seed
		} else if i%4 == 3 {
			name = "two-instances"
		} else if i%4 == 1 {
			name = "swarm"
		}
		gg := rand.New(rand.NewSource(seed))
		if name == "two-instances" {
			why, err = c20TwoInstances(gg, &log)
		} else if name == "swarm" {
			why, err = c20Swarm(gg, &log)
		} else {
			why, err = c20Close(gg, &log)
		}
		if err != nil {
			return err
		}
		res.Histories++
		res.Steps += len(log) + 10
		res.CmdHist[name]++
		if len(res.Samples) < 3 {
			res.Samples = append(res.Samples, name+": "+strings.Join(log, " | "))
		}
		if why != "" {
			if cfg.replay != "" {
				res.Mismatches = append(res.Mismatches, &Mismatch{Index: -1, Op: name, Why: why})
			} else {
				os.MkdirAll(cfg.replayDir, 0o755)
				path := filepath.Join(cfg.replayDir, fmt.Sprintf("C20-seed%d-%d.json", cfg.seed, len(res.Mismatches)+1))
				b, _ := json.MarshalIndent(map[string]any{"property": "C20", "kind": "lifecycle", "seed": cfg.seed, "why": why,
					"case": map[string]any{"Name": name, "Seed": seed, "log": log}}, "", " ")
				os.WriteFile(path, b, 0o644)
				res.Mismatches = append(res.Mismatches, &Mismatch{Index: -1, Op: name, Why: why})
				res.Replays = append(res.Replays, path)
			}
		}
		if cfg.replay != "" {
			break
		}
	}
	res.Distinct = res.Histories
	res.Extra["connection_loop_traces"] = c20Cxn
	return nil
}

func init() {
	streams["C20"] = runC20
	specialReplay["C20"] = true
}
