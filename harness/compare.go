package main

// Comparison of a model reply (s-expression, possibly with markers for unordered,
// clock-dependent or random content) with the reply read from the wire.

import (
	"bytes"
	"fmt"
	"sort"
	"strings"
)

type CmpCtx struct {
	Resp     int   // protocol version of the connection
	SlackMs  int64 // tolerance for clock-dependent integers, in ms
	FullScan bool  // the request was a SCAN/SSCAN/HSCAN from cursor 0: a reply with cursor 0 is a complete iteration
}

func errCode(b []byte) string {
	s := string(b)
	if i := strings.IndexByte(s, ' '); i >= 0 {
		s = s[:i]
	}
	return s
}

// canonical text of concrete values, identical for model and wire side
func canonSx(x *Sx) string {
	switch x.Tag {
	case "bulk", "simple", "double", "big":
		return "s:" + string(unhex(x.atoms()[0]))
	case "verb":
		return "s:" + string(unhex(x.atoms()[1]))
	case "int":
		return "i:" + x.atoms()[0]
	case "approx":
		return "i:" + x.atoms()[0]
	case "bool":
		return "i:" + x.atoms()[0]
	case "nil", "null":
		return "nil"
	case "err":
		return "e:" + errCode(unhex(x.atoms()[0]))
	case "arr", "arru", "set", "map", "flatu", "pairs":
		var parts []string
		for _, c := range x.children() {
			parts = append(parts, canonSx(c))
		}
		return "[" + strings.Join(parts, ",") + "]"
	}
	return "?" + x.Tag
}

func canonNode(n *Node) string {
	switch n.Kind {
	case '+', '$', ',', '(':
		if n.Nil {
			return "nil"
		}
		return "s:" + string(n.Str)
	case '=':
		if len(n.Str) >= 4 {
			return "s:" + string(n.Str[4:])
		}
		return "s:" + string(n.Str)
	case ':', '#':
		return fmt.Sprintf("i:%d", n.Int)
	case '_':
		return "nil"
	case '-', '!':
		return "e:" + errCode(n.Str)
	default:
		if n.Nil {
			return "nil"
		}
		var parts []string
		for _, e := range n.Elems {
			parts = append(parts, canonNode(e))
		}
		return "[" + strings.Join(parts, ",") + "]"
	}
}

func isNilNode(n *Node) bool { return n.Nil }

func sortedEq(a, b []string) bool {
	if len(a) != len(b) {
		return false
	}
	a = append([]string{}, a...)
	b = append([]string{}, b...)
	sort.Strings(a)
	sort.Strings(b)
	for i := range a {
		if a[i] != b[i] {
			return false
		}
	}
	return true
}

func pairStrings(ns []*Node) ([]string, bool) {
	if len(ns)%2 != 0 {
		return nil, false
	}
	var out []string
	for i := 0; i < len(ns); i += 2 {
		out = append(out, "["+canonNode(ns[i])+","+canonNode(ns[i+1])+"]")
	}
	return out, true
}

func sxPairStrings(cs []*Sx) []string {
	var out []string
	for i := 0; i+1 < len(cs); i += 2 {
		out = append(out, "["+canonSx(cs[i])+","+canonSx(cs[i+1])+"]")
	}
	return out
}

// matchReply returns nil when the wire reply g is what the model reply m allows.
func matchReply(m *Sx, g *Node, ctx CmpCtx) error {
	bad := func(why string) error {
		return fmt.Errorf("%s: model %s, emulator %s", why, m.Src, g.String())
	}
	switch m.Tag {
	case "any":
		if g.Kind == '-' || g.Kind == '!' {
			return bad("error where a value was expected")
		}
		return nil
	case "simple":
		if g.Kind != '+' || !bytes.Equal(g.Str, unhex(m.atoms()[0])) {
			return bad("simple string differs")
		}
	case "err":
		if g.Kind != '-' && g.Kind != '!' {
			return bad("expected an error reply")
		}
		if errCode(g.Str) != errCode(unhex(m.atoms()[0])) {
			return bad("error code differs")
		}
	case "int":
		if g.Kind != ':' || fmt.Sprint(g.Int) != m.atoms()[0] {
			return bad("integer differs")
		}
	case "bool":
		if g.Kind != '#' || fmt.Sprint(g.Int) != m.atoms()[0] {
			return bad("boolean differs")
		}
	case "approx":
		if g.Kind != ':' {
			return bad("expected an integer")
		}
		want := atoi64(m.atoms()[0])
		unit := atoi64(m.atoms()[1])
		if unit < 1 {
			unit = 1
		}
		tol := ctx.SlackMs/unit + 1
		d := g.Int - want
		if d < -tol || d > tol {
			return bad(fmt.Sprintf("clock-dependent integer off by %d (tolerance %d)", d, tol))
		}
	case "bulk":
		if g.Kind != '$' || g.Nil || !bytes.Equal(g.Str, unhex(m.atoms()[0])) {
			return bad("bulk string differs")
		}
	case "double", "big":
		want := unhex(m.atoms()[0])
		if (g.Kind != ',' && g.Kind != '(' && g.Kind != '$') || !bytes.Equal(g.Str, want) {
			return bad("number text differs")
		}
	case "verb":
		if g.Kind != '=' && g.Kind != '$' {
			return bad("expected verbatim/bulk")
		}
	case "nil", "null":
		if !g.Nil {
			return bad("expected nil")
		}
	case "arr":
		cs := m.children()
		if g.Kind != '*' || g.Nil || len(g.Elems) != len(cs) {
			return bad("array shape differs")
		}
		for i, c := range cs {
			if err := matchReply(c, g.Elems[i], ctx); err != nil {
				return err
			}
		}
	case "arru", "set":
		cs := m.children()
		okKind := g.Kind == '*' || g.Kind == '~'
		if !okKind || g.Nil || len(g.Elems) != len(cs) {
			return bad("collection size/kind differs")
		}
		if m.Tag == "set" && ctx.Resp == 3 && g.Kind != '~' {
			return bad("expected a RESP3 set")
		}
		var a, b []string
		for _, c := range cs {
			a = append(a, canonSx(c))
		}
		for _, e := range g.Elems {
			b = append(b, canonNode(e))
		}
		if !sortedEq(a, b) {
			return bad("collection content differs")
		}
	case "map":
		if g.Kind != '%' || g.Nil {
			return bad("expected a RESP3 map")
		}
		b, ok := pairStrings(g.Elems)
		if !ok || !sortedEq(sxPairStrings(m.children()), b) {
			return bad("map content differs")
		}
	case "flatu":
		if g.Kind != '*' || g.Nil {
			return bad("expected a flat array")
		}
		b, ok := pairStrings(g.Elems)
		if !ok || !sortedEq(sxPairStrings(m.children()), b) {
			return bad("flat key/value array differs")
		}
	case "pairs":
		cs := m.children()
		if g.Kind != '*' || g.Nil || len(g.Elems)*2 != len(cs) {
			return bad("pairs shape differs")
		}
		for i, e := range g.Elems {
			if e.Kind != '*' || len(e.Elems) != 2 {
				return bad("pair is not a 2-array")
			}
			if err := matchReply(cs[2*i], e.Elems[0], ctx); err != nil {
				return err
			}
			if err := matchReply(cs[2*i+1], e.Elems[1], ctx); err != nil {
				return err
			}
		}
	case "pick":
		at := m.atoms()
		count := atoi64(at[0])
		single := at[1] == "1"
		withv := at[2] == "1"
		cands := map[string]bool{}
		for _, c := range m.children() {
			cands[canonSx(c)] = true
		}
		if single {
			if len(cands) == 0 {
				if !g.Nil {
					return bad("expected nil from an empty collection")
				}
				return nil
			}
			if !cands[canonNode(g)] || g.Kind != '$' {
				return bad("random element is not a member")
			}
			return nil
		}
		if g.Kind != '*' || g.Nil {
			return bad("expected an array of random elements")
		}
		var got []string
		if withv {
			if ctx.Resp == 3 {
				for _, e := range g.Elems {
					if e.Kind != '*' || len(e.Elems) != 2 {
						return bad("expected [field value] pairs")
					}
					got = append(got, canonNode(e))
				}
			} else {
				p, ok := pairStrings(g.Elems)
				if !ok {
					return bad("odd flat field/value array")
				}
				got = p
			}
		} else {
			for _, e := range g.Elems {
				got = append(got, canonNode(e))
			}
		}
		for _, s := range got {
			if !cands[s] {
				return bad("random element is not a member")
			}
		}
		if count >= 0 {
			want := int(count)
			if len(cands) < want {
				want = len(cands)
			}
			if len(got) != want {
				return bad(fmt.Sprintf("expected %d distinct elements", want))
			}
			seen := map[string]bool{}
			for _, s := range got {
				if seen[s] {
					return bad("duplicate in a distinct random sample")
				}
				seen[s] = true
			}
		} else if len(cands) > 0 && int64(len(got)) != -count {
			return bad(fmt.Sprintf("expected exactly %d elements", -count))
		}
	case "scan":
		paired := m.atoms()[0] == "1"
		cands := map[string]bool{}
		for _, c := range m.children() {
			cands[canonSx(c)] = true
		}
		if g.Kind != '*' || len(g.Elems) != 2 || g.Elems[0].Kind != '$' || g.Elems[1].Kind != '*' {
			return bad("scan reply shape")
		}
		items := g.Elems[1].Elems
		if paired {
			p, ok := pairStrings(items)
			if !ok {
				return bad("odd field/value list")
			}
			for _, s := range p {
				if !cands[s] {
					return bad("scan returned a non-member")
				}
			}
		} else {
			for _, e := range items {
				if !cands[canonNode(e)] {
					return bad("scan returned a non-member")
				}
			}
		}
		if ctx.FullScan && string(g.Elems[0].Str) == "0" {
			// one call from cursor 0 back to cursor 0 is a full iteration: everything that matches was returned
			n := len(items)
			if paired {
				n /= 2
			}
			seen := map[string]bool{}
			if paired {
				p, _ := pairStrings(items)
				for _, s := range p {
					seen[s] = true
				}
			} else {
				for _, e := range items {
					seen[canonNode(e)] = true
				}
			}
			for c := range cands {
				if !seen[c] {
					return bad(fmt.Sprintf("a full iteration (cursor 0 to cursor 0) returned %d of %d matching elements: missing", len(seen), len(cands)))
				}
			}
		}
	default:
		return bad("unknown model tag " + m.Tag)
	}
	return nil
}
