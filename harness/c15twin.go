package main

// C15, twin connections: the property itself, checked without the model. Connection A speaks RESP3
// (HELLO 3) in database 1, connection B speaks RESP2 in database 2; both receive the same commands, so
// both databases go through the same states, and after every command the RESP2 reply must be the
// canonical down-conversion of the RESP3 reply (map -> flat array, set -> array, double / big number /
// verbatim text -> bulk string, boolean -> 0/1, null -> nil) and contain RESP2 types only. Commands whose
// reply is random or depends on the clock are sent but not compared; commands that would let one
// database see the other (SELECT, MOVE, SWAPDB, FLUSHALL, COPY ... DB) are left out.

import (
	"encoding/hex"
	"encoding/json"
	"fmt"
	"os"
	"path/filepath"
	"strings"
	"time"
)

var twinLeaveOut = map[string]bool{"spop": true, "select": true, "move": true, "swapdb": true, "flushall": true, "hello": true,
	"multi": true, "exec": true, "discard": true, "watch": true, "unwatch": true, "reset": true, "quit": true}
var twinNoCompare = map[string]bool{"srandmember": true, "hrandfield": true, "randomkey": true, "ttl": true, "pttl": true, "expiretime": true,
	"pexpiretime": true, "client": true, "scan": true, "hscan": true, "sscan": true, "object": true, "info": true}
var twinMultiset = map[string]bool{"command": true, "keys": true, "hkeys": true, "hvals": true, "sort": true, "sort_ro": true}

func twinCanon(n *Node) string { return n.String() }

// down-conversion relation between a RESP3 reply and a RESP2 reply; "" when it holds
func downEq(a, b *Node, multiset bool, path string) string {
	switch b.Kind {
	case '+', '-', ':', '$', '*':
	default:
		return fmt.Sprintf("%s: the RESP2 connection received the RESP3 type %q", path, string(b.Kind))
	}
	switch a.Kind {
	case '_':
		if (b.Kind == '$' || b.Kind == '*') && b.Nil {
			return ""
		}
		return fmt.Sprintf("%s: RESP3 null, RESP2 %s", path, b.String())
	case ',', '(':
		if b.Kind == '$' && !b.Nil && string(b.Str) == string(a.Str) {
			return ""
		}
		return fmt.Sprintf("%s: RESP3 %s, RESP2 %s (expected the same digits as a bulk string)", path, a.String(), b.String())
	case '=':
		txt := string(a.Str)
		if len(txt) >= 4 && txt[3] == ':' {
			txt = txt[4:]
		}
		if b.Kind == '$' && !b.Nil && (string(b.Str) == txt || string(b.Str) == string(a.Str)) {
			return ""
		}
		return fmt.Sprintf("%s: RESP3 verbatim text of %d bytes, RESP2 %.80s", path, len(a.Str), b.String())
	case '#':
		if b.Kind == ':' && b.Int == a.Int {
			return ""
		}
		return fmt.Sprintf("%s: RESP3 %s, RESP2 %s", path, a.String(), b.String())
	case '!':
		if b.Kind == '-' && string(b.Str) == string(a.Str) {
			return ""
		}
		return fmt.Sprintf("%s: RESP3 %s, RESP2 %s", path, a.String(), b.String())
	case '+', '-', ':':
		if b.Kind == a.Kind && string(b.Str) == string(a.Str) && b.Int == a.Int {
			return ""
		}
		return fmt.Sprintf("%s: RESP3 %.120s, RESP2 %.120s", path, a.String(), b.String())
	case '$':
		if b.Kind == '$' && b.Nil == a.Nil && string(b.Str) == string(a.Str) {
			return ""
		}
		return fmt.Sprintf("%s: RESP3 %.120s, RESP2 %.120s", path, a.String(), b.String())
	case '%':
		if b.Kind != '*' || b.Nil || len(b.Elems) != len(a.Elems) {
			return fmt.Sprintf("%s: RESP3 map of %d pairs, RESP2 %.120s", path, len(a.Elems)/2, b.String())
		}
		if !multiset {
			// the flat array carries the pairs in the order of the map (the emulator's maps have one: the order
			// the entries were added in, which is what the RESP3 connection shows)
			for i := range a.Elems {
				if why := downEq(a.Elems[i], b.Elems[i], false, fmt.Sprintf("%s{%d}", path, i)); why != "" {
					return why + " (the RESP2 array does not list the pairs in the order of the RESP3 map)"
				}
			}
			return ""
		}
		// replies assembled from unordered tables (COMMAND DOCS ...): pairs in any order
		idx := map[string]int{}
		for i := 0; i+1 < len(b.Elems); i += 2 {
			idx[twinCanon(b.Elems[i])] = i
		}
		for i := 0; i+1 < len(a.Elems); i += 2 {
			j, ok := idx[twinCanonDown(a.Elems[i])]
			if !ok {
				return fmt.Sprintf("%s: map key %.80s of the RESP3 reply is missing in the RESP2 reply %.160s", path, a.Elems[i].String(), b.String())
			}
			if why := downEq(a.Elems[i+1], b.Elems[j+1], true, path+"/"+a.Elems[i].String()); why != "" {
				return why
			}
		}
		return ""
	case '~', '*', '>':
		if a.Kind == '*' && a.Nil {
			if b.Kind == '*' && b.Nil {
				return ""
			}
			return fmt.Sprintf("%s: RESP3 nil array, RESP2 %.120s", path, b.String())
		}
		if b.Kind != '*' || b.Nil || len(b.Elems) != len(a.Elems) {
			return fmt.Sprintf("%s: RESP3 %c of %d elements, RESP2 %.160s", path, a.Kind, len(a.Elems), b.String())
		}
		if a.Kind == '~' || multiset {
			// compare as multisets: every RESP3 element is matched with a distinct RESP2 element
			used := make([]bool, len(b.Elems))
			for _, e := range a.Elems {
				found := false
				for k, f := range b.Elems {
					if !used[k] && downEq(e, f, multiset && a.Kind != '~', path) == "" {
						used[k], found = true, true
						break
					}
				}
				if !found {
					return fmt.Sprintf("%s: element %.160s of the RESP3 reply has no counterpart in the RESP2 reply", path, e.String())
				}
			}
			return ""
		}
		for i := range a.Elems {
			if why := downEq(a.Elems[i], b.Elems[i], false, fmt.Sprintf("%s[%d]", path, i)); why != "" {
				return why
			}
		}
		return ""
	}
	return fmt.Sprintf("%s: unexpected RESP3 type %q", path, string(a.Kind))
}

// the canonical rendering of the down-converted value (for unordered comparison)
func twinCanonDown(a *Node) string {
	switch a.Kind {
	case ',', '(':
		return (&Node{Kind: '$', Str: a.Str}).String()
	case '=':
		txt := a.Str
		if len(txt) >= 4 && txt[3] == ':' {
			txt = txt[4:]
		}
		return (&Node{Kind: '$', Str: txt}).String()
	case '#':
		return (&Node{Kind: ':', Int: a.Int}).String()
	case '_':
		return (&Node{Kind: '$', Nil: true}).String()
	case '%', '~', '*', '>':
		if a.Nil {
			return a.String()
		}
		// render element by element
		parts := make([]string, len(a.Elems))
		for i, e := range a.Elems {
			parts[i] = twinCanonDown(e)
		}
		return "*[" + strings.Join(parts, " ") + "]"
	}
	return a.String()
}

type twinCase struct {
	Cmds [][]string `json:"cmds_hex"`
}

func twinProgram(g *Gen) [][]string {
	var cmds [][]string
	add := func(a ...string) { cmds = append(cmds, hexs(a...)) }
	g.newHistory()
	for _, o := range g.seedOps(1) {
		cmds = append(cmds, o.Args)
	}
	bigs := []string{"10000000000000000000", "4611686018427387904", "-20000000000000000000", "1.2e26", "9223372036854775808", "123456789012345678", "1e17", "0.1", "3.0e3",
		"-9223372036854775809", "1e300", "0.000001", "5e-324", "2.5", "100"}
	l := 25 + g.r.Intn(40)
	for j := 0; j < l; j++ {
		switch x := g.r.Intn(100); {
		case x < 12:
			add("HINCRBYFLOAT", g.pick("hfl", "hfl2", g.key()), g.pick("f", "f2"), bigs[g.r.Intn(len(bigs))])
		case x < 14:
			// verbatim text that is not ASCII: lengths on the wire are bytes (the replies differ per connection
			// - ids, addresses - and are only required to be well-formed and of the right protocol)
			add("CLIENT", "SETNAME", g.pick("caf\xc3\xa9", "\xe6\x97\xa5\xe6\x9c\xac\xe8\xaa\x9e-\xd0\xba\xd0\xbb", "plain", "\xf0\x9f\x98\x80"))
			add("CLIENT", g.pick("LIST", "INFO", "GETNAME"))
		case x < 16:
			add("INCRBYFLOAT", g.pick("fl", g.key()), bigs[g.r.Intn(len(bigs))])
		case x < 22:
			a := [][]string{{"COMMAND", "INFO", "get"}, {"COMMAND", "INFO", "lmpop", "sintercard", "set"}, {"COMMAND", "DOCS", "set"}, {"COMMAND", "DOCS", "hset", "lcs"},
				{"COMMAND", "COUNT"}, {"COMMAND", "INFO", "hgetall", "nosuchcommand"}, {"LCS", g.key(), g.key(), "IDX", "WITHMATCHLEN"}, {"LCS", g.key(), g.key(), "IDX"},
				{"BITFIELD", g.key(), "GET", "u8", "0", "OVERFLOW", "FAIL", "INCRBY", "u2", "0", "3"}, {"BITFIELD_RO", g.key(), "GET", "u8", "0"},
				{"LMPOP", "2", g.key(), g.key(), "LEFT", "COUNT", "2"}, {"SMISMEMBER", g.key(), "a", "b", "zz"}, {"HGETALL", g.key()}, {"SMEMBERS", g.key()},
				{"HSETNX", g.key(), "f1", "v"}, {"SISMEMBER", g.key(), "a"}, {"LPOS", g.key(), g.elem(), "COUNT", "0"}, {"EXISTS", g.key(), g.key()},
				{"COMMAND", "DOCS"}, {"COMMAND", "INFO"}, {"COMMAND", "LIST"}, {"COMMAND", "HELP"}, {"PING"}, {"ECHO", "x\r\ny"}, {"nosuchcommand", "a"}, {"GET"}}[g.r.Intn(26)]
			add(a...)
		case x < 50:
			cmds = append(cmds, g.readOp(1).Args)
		default:
			cmds = append(cmds, g.fromFamilies(1, map[string]int{"string": 4, "list": 4, "hash": 4, "set": 4, "key": 2, "bits": 2}).Args)
		}
	}
	for _, o := range g.observeAll(1) {
		cmds = append(cmds, o.Args)
	}
	return cmds
}

func twinRun(srv *Server, cmds [][]string) (why string, steps int, hist map[string]int, err error) {
	hist = map[string]int{}
	a, err := dial(srv.Port)
	if err != nil {
		return "", 0, hist, err
	}
	defer a.Close()
	b, err := dial(srv.Port)
	if err != nil {
		return "", 0, hist, err
	}
	defer b.Close()
	if _, err = a.Do(3*time.Second, bs("FLUSHALL")...); err != nil {
		return "", 0, hist, err
	}
	if h, err := a.Do(3*time.Second, bs("HELLO", "3")...); err != nil || h.Kind != '%' {
		return "HELLO 3 did not answer with a map", 0, hist, err
	}
	a.Do(3*time.Second, bs("SELECT", "1")...)
	b.Do(3*time.Second, bs("SELECT", "2")...)
	for i, h := range cmds {
		args := unhexs(h)
		if len(args) == 0 {
			continue
		}
		name := strings.ToLower(string(args[0]))
		skip := twinLeaveOut[name]
		for _, x := range args[1:] {
			if strings.EqualFold(string(x), "DB") {
				skip = true
			}
		}
		if skip {
			continue
		}
		ra, err := a.Do(6*time.Second, args...)
		if err != nil {
			return fmt.Sprintf("command %d %q: no reply on the RESP3 connection: %v", i, args, err), steps, hist, nil
		}
		rb, err := b.Do(6*time.Second, args...)
		if err != nil {
			return fmt.Sprintf("command %d %q: no reply on the RESP2 connection: %v", i, args, err), steps, hist, nil
		}
		steps++
		hist[name]++
		if twinNoCompare[name] {
			// still: RESP2 types only
			if why := resp2Only(rb); why != "" {
				return fmt.Sprintf("command %d %q: %s", i, args, why), steps, hist, nil
			}
			continue
		}
		if why := downEq(ra, rb, twinMultiset[name], "reply"); why != "" {
			return fmt.Sprintf("command %d %.200q sent to a RESP3 and a RESP2 connection in the same state: %s", i, args, why), steps, hist, nil
		}
	}
	return "", steps, hist, nil
}

func resp2Only(n *Node) string {
	switch n.Kind {
	case '+', '-', ':', '$':
		return ""
	case '*':
		for _, e := range n.Elems {
			if why := resp2Only(e); why != "" {
				return why
			}
		}
		return ""
	}
	return fmt.Sprintf("the RESP2 connection received the RESP3 type %q", string(n.Kind))
}

func runC15Twin(cfg runCfg, res *Result) error {
	srv, err := startServer("")
	if err != nil {
		return err
	}
	defer srv.Kill()
	if cfg.replay != "" {
		raw, err := os.ReadFile(cfg.replay)
		if err != nil {
			return err
		}
		var rp struct {
			Case twinCase `json:"case"`
		}
		if err := json.Unmarshal(raw, &rp); err != nil {
			return err
		}
		why, _, _, err := twinRun(srv, rp.Case.Cmds)
		if err != nil {
			return err
		}
		res.Histories = 1
		if why != "" {
			res.Mismatches = append(res.Mismatches, &Mismatch{Index: -1, Op: "twin", Why: why})
		}
		return nil
	}
	g := newGen(cfg.seed + 7777)
	n := 60
	if cfg.tier == "thorough" {
		n = 1500
	}
	total := 0
	for i := 0; i < n && len(res.Mismatches) < 3; i++ {
		cmds := twinProgram(g)
		why, steps, hist, err := twinRun(srv, cmds)
		if err != nil {
			return err
		}
		total += steps
		res.Histories++
		res.Steps += steps
		for k, v := range hist {
			res.CmdHist[k] += v
		}
		if why == "" {
			continue
		}
		// shrink: drop commands while the verdict stays
		cur := cmds
		for changed := true; changed && len(cur) > 1; {
			changed = false
			for k := len(cur) - 1; k >= 0; k-- {
				cand := append(append([][]string{}, cur[:k]...), cur[k+1:]...)
				if w, _, _, err := twinRun(srv, cand); err == nil && w != "" {
					cur, why, changed = cand, w, true
				}
			}
		}
		os.MkdirAll(cfg.replayDir, 0o755)
		path := filepath.Join(cfg.replayDir, fmt.Sprintf("C15-seed%d-twin-%d.json", cfg.seed, len(res.Mismatches)+1))
		var text []string
		for _, h := range cur {
			var parts []string
			for _, x := range h {
				bb, _ := hex.DecodeString(x)
				parts = append(parts, fmt.Sprintf("%q", bb))
			}
			text = append(text, strings.Join(parts, " "))
		}
		bj, _ := json.MarshalIndent(map[string]any{"property": "C15", "kind": "twin", "seed": cfg.seed, "why": why, "commands": text, "case": twinCase{Cmds: cur}}, "", " ")
		os.WriteFile(path, bj, 0o644)
		res.Mismatches = append(res.Mismatches, &Mismatch{Index: -1, Op: "twin", Why: why})
		res.Replays = append(res.Replays, path)
	}
	res.Extra["twin_commands"] = total
	return nil
}
