(* PropC10.v — WATCH versions: every observable change of a key changes the version
   WATCH compares, reads and failed commands change nothing, EXEC runs iff no watched
   version moved, FLUSH resets versions to 0. *)
From RE Require Import Base Resp State Exec Exec2 Bits Lcs Sort Fnum Dispatch Lemmas.
From Coq Require Import String.
From Coq Require Import List.
From Coq Require Import Lia.
Open Scope string_scope.
Open Scope list_scope.
Open Scope Z_scope.

(* ------------------------------------------------------------------ *)
(* generic case-splitting tactic: destruct the scrutinee of an innermost match *)
Ltac bm :=
  first
  [ match goal with
    | |- context[match ?x with _ => _ end] =>
        lazymatch x with
        | context[match _ with _ => _ end] => fail
        | _ => destruct x eqn:?
        end
    end
  | match goal with
    | |- context[match ?x with _ => _ end] => destruct x eqn:?
    end ].
Ltac bms := cbv beta zeta; repeat (bm; cbv beta iota zeta).

(* ------------------------------------------------------------------ *)
(* the table as a list, so that table-wide theorems are [Forall]s *)
Definition table : list (string * (Z -> db -> list bytes -> res)) :=
  [("set", cmd_set); ("setnx", cmd_setnx); ("setex", cmd_setex sec); ("psetex", cmd_setex msec);
   ("get", cmd_get); ("getset", cmd_getset); ("getdel", cmd_getdel); ("getex", cmd_getex);
   ("append", cmd_append); ("strlen", cmd_strlen); ("getrange", cmd_getrange); ("substr", cmd_getrange);
   ("setrange", cmd_setrange); ("incr", cmd_incr 1); ("decr", cmd_incr (-1));
   ("incrby", cmd_incrby 1); ("decrby", cmd_incrby (-1)); ("mget", cmd_mget); ("mset", cmd_mset);
   ("msetnx", cmd_msetnx); ("lpush", cmd_push true false); ("rpush", cmd_push false false);
   ("lpushx", cmd_push true true); ("rpushx", cmd_push false true); ("lpop", cmd_pop true);
   ("rpop", cmd_pop false); ("llen", cmd_llen); ("lindex", cmd_lindex); ("lrange", cmd_lrange);
   ("lset", cmd_lset); ("linsert", cmd_linsert); ("lrem", cmd_lrem); ("ltrim", cmd_ltrim);
   ("lpos", cmd_lpos); ("lmove", cmd_lmove); ("rpoplpush", cmd_rpoplpush); ("lmpop", cmd_lmpop);
   ("hset", cmd_hset 0); ("hmset", cmd_hset 1); ("hsetnx", cmd_hset 2); ("hget", cmd_hget);
   ("hmget", cmd_hmget); ("hgetall", cmd_hgetall); ("hkeys", cmd_hkeys false); ("hvals", cmd_hkeys true);
   ("hlen", cmd_hlen); ("hexists", cmd_hexists false); ("hstrlen", cmd_hexists true); ("hdel", cmd_hdel);
   ("hincrby", cmd_hincrby); ("hrandfield", cmd_hrandfield); ("hscan", cmd_hscan); ("sadd", cmd_sadd);
   ("srem", cmd_srem); ("scard", cmd_scard); ("sismember", cmd_sismember); ("smismember", cmd_smismember);
   ("smembers", cmd_smembers); ("smove", cmd_smove); ("srandmember", cmd_srandmember); ("sscan", cmd_sscan);
   ("sinter", cmd_setop OpInter); ("sunion", cmd_setop OpUnion); ("sdiff", cmd_setop OpDiff);
   ("sinterstore", cmd_setop_store OpInter); ("sunionstore", cmd_setop_store OpUnion);
   ("sdiffstore", cmd_setop_store OpDiff); ("sintercard", cmd_sintercard); ("del", cmd_del);
   ("unlink", cmd_del); ("exists", cmd_exists); ("touch", cmd_touch); ("type", cmd_type);
   ("rename", cmd_rename false); ("renamenx", cmd_rename true); ("copy", cmd_copy); ("keys", cmd_keys);
   ("randomkey", cmd_randomkey); ("dbsize", cmd_dbsize); ("scan", cmd_scan);
   ("expire", cmd_expire sec true); ("pexpire", cmd_expire msec true); ("expireat", cmd_expire sec false);
   ("pexpireat", cmd_expire msec false); ("ttl", cmd_ttl sec true); ("pttl", cmd_ttl msec true);
   ("expiretime", cmd_ttl sec false); ("pexpiretime", cmd_ttl msec false); ("persist", cmd_persist);
   ("setbit", cmd_setbit); ("getbit", cmd_getbit); ("bitcount", cmd_bitcount); ("bitpos", cmd_bitpos);
   ("bitop", cmd_bitop); ("bitfield", cmd_bitfield false); ("bitfield_ro", cmd_bitfield true);
   ("lcs", cmd_lcs); ("sort", cmd_sort); ("incrbyfloat", cmd_incrbyfloat);
   ("hincrbyfloat", cmd_hincrbyfloat)].

Fixpoint tlook (t : list (string * (Z -> db -> list bytes -> res))) (name : bytes) :=
  match t with
  | [] => None
  | (s, f) :: r => if bytes_eqb name (s2b s) then Some f else tlook r name
  end.

(* both sides are normalised to the same [if]-chain first, so that a table that lacks an entry
   of [data_cmd] makes this fail at once (plain [reflexivity] then backtracks for hours) *)
Lemma data_cmd_tlook name : data_cmd name = tlook table name.
Proof. cbv [data_cmd table tlook]. reflexivity. Qed.

Lemma tlook_in t name f : tlook t name = Some f -> exists s, name = s2b s /\ In (s, f) t.
Proof.
  induction t as [|[s g] t IH]; simpl; [discriminate|].
  destruct (bytes_eqb name (s2b s)) eqn:E; intro H.
  - injection H as <-. apply bytes_eqb_eq in E. exists s. auto.
  - destruct (IH H) as (s' & H1 & H2). exists s'. auto.
Qed.

Lemma data_cmd_table name f :
  data_cmd name = Some f -> exists s, name = s2b s /\ In (s, f) table.
Proof. rewrite data_cmd_tlook. apply tlook_in. Qed.

(* the list is exactly the table *)
Lemma table_data_cmd : Forall (fun sf => data_cmd (s2b (fst sf)) = Some (snd sf)) table.
Proof. unfold table. repeat (constructor; [reflexivity|]). constructor. Qed.

Lemma table_forall (P : (Z -> db -> list bytes -> res) -> Prop) :
  Forall (fun sf => P (snd sf)) table -> forall name f, data_cmd name = Some f -> P f.
Proof.
  intros HF name f H. apply data_cmd_table in H as (s & _ & Hin).
  rewrite Forall_forall in HF. apply (HF _ Hin).
Qed.

(* unfold every non-recursive command and helper; recursive helpers stay folded *)
Ltac unf :=
  cbv beta delta
    [cmd_set cmd_setnx cmd_setex cmd_get cmd_getset cmd_getdel cmd_getex cmd_append cmd_strlen
     cmd_getrange cmd_setrange cmd_incr cmd_incrby cmd_mget cmd_mset cmd_msetnx cmd_push cmd_pop
     cmd_llen cmd_lindex cmd_lrange cmd_lset cmd_linsert cmd_lrem cmd_ltrim cmd_lpos cmd_lmove
     cmd_rpoplpush cmd_lmpop cmd_hset cmd_hget cmd_hmget cmd_hgetall cmd_hkeys cmd_hlen cmd_hexists
     cmd_hdel cmd_hincrby cmd_hrandfield cmd_hscan cmd_sadd cmd_srem cmd_scard cmd_sismember
     cmd_smismember cmd_smembers cmd_smove cmd_srandmember cmd_sscan cmd_setop cmd_setop_store
     cmd_sintercard cmd_del cmd_exists cmd_touch cmd_type cmd_rename cmd_copy cmd_keys cmd_randomkey
     cmd_dbsize cmd_scan cmd_expire cmd_ttl cmd_persist cmd_setbit cmd_getbit cmd_bitcount cmd_bitpos
     cmd_bitop cmd_bitfield cmd_incrbyfloat cmd_hincrbyfloat set_core incr_core expire_core lmove_core store_str_or_del].

(* ------------------------------------------------------------------ *)
(* every state a command produces is reached by a sequence of put/del *)
Inductive reach (d : db) : db -> Prop :=
| reach_refl : reach d d
| reach_put d' k v x : reach d d' -> reach d (put d' k v x)
| reach_del d' k : reach d d' -> reach d (del d' k)
| reach_flush d' : reach d d' -> reach d (flush_db d').   (* FLUSHDB / FLUSHALL, used for whole runs *)
#[export] Hint Resolve reach_refl reach_put reach_del : rch.

Lemma reach_trans d1 d2 d3 : reach d1 d2 -> reach d2 d3 -> reach d1 d3.
Proof. intros H1 H2. induction H2; [exact H1|apply reach_put|apply reach_del|apply reach_flush]; assumption. Qed.

Lemma reach_put_or_del d d' k v x : reach d d' -> reach d (put_or_del d' k v x).
Proof. intro H. unfold put_or_del. destruct (is_empty_agg v); auto with rch. Qed.
Lemma reach_set_exp d d' k e x : reach d d' -> reach d (set_exp d' k e x).
Proof. intro H. unfold set_exp. auto with rch. Qed.
Lemma reach_put_list d d' k l x : reach d d' -> reach d (put_list d' k l x).
Proof. apply reach_put_or_del. Qed.
Lemma reach_put_hash d d' k l x : reach d d' -> reach d (put_hash d' k l x).
Proof. apply reach_put_or_del. Qed.
Lemma reach_put_set d d' k l x : reach d d' -> reach d (put_set d' k l x).
Proof. apply reach_put_or_del. Qed.

Lemma reach_fold_put d0 ps : forall d,
  reach d0 d -> reach d0 (fold_left (fun d kv => put d (fst kv) (VStr (snd kv)) None) ps d).
Proof. induction ps as [|p ps IH]; simpl; intros d H; [exact H|]. apply IH. auto with rch. Qed.

Lemma reach_fold_del now d0 l : forall acc,
  reach d0 (fst acc) ->
  reach d0 (fst (fold_left (fun acc k => let '(d, r) := acc in
                 match r with
                 | RInt n => match lookup now d k with
                             | Some _ => (del d k, RInt (n + 1))
                             | None => (d, RInt n)
                             end
                 | _ => acc
                 end) l acc)).
Proof.
  induction l as [|k l IH]; simpl; intros [d r] H; [exact H|].
  apply IH. destruct r; try exact H. destruct (lookup now d k); cbn [fst] in *; auto with rch.
Qed.

Lemma reach_lmpop_keys now d0 lft c ks : forall d,
  reach d0 d -> reach d0 (fst (lmpop_keys now d ks lft c)).
Proof.
  induction ks as [|k ks IH]; simpl; intros d H; [exact H|].
  destruct (get_list now d k) as [[[l x]|]|]; cbn [fst]; auto.
  destruct lft; cbn [fst]; apply reach_put_list; exact H.
Qed.
#[export] Hint Resolve reach_put_or_del reach_set_exp reach_put_list reach_put_hash reach_put_set
  reach_fold_put reach_fold_del reach_lmpop_keys : rch.

Ltac rgo := unf; bms; cbn [fst snd]; auto 6 with rch.

Lemma r_set  now d a : reach d (fst (cmd_set now d a)).
Proof. rgo. Qed.
Lemma r_setnx  now d a : reach d (fst (cmd_setnx now d a)).
Proof. rgo. Qed.
Lemma r_setex u now d a : reach d (fst (cmd_setex u now d a)).
Proof. rgo. Qed.
Lemma r_get  now d a : reach d (fst (cmd_get now d a)).
Proof. rgo. Qed.
Lemma r_getset  now d a : reach d (fst (cmd_getset now d a)).
Proof. rgo. Qed.
Lemma r_getdel  now d a : reach d (fst (cmd_getdel now d a)).
Proof. rgo. Qed.
Lemma r_getex  now d a : reach d (fst (cmd_getex now d a)).
Proof. rgo. Qed.
Lemma r_append  now d a : reach d (fst (cmd_append now d a)).
Proof. rgo. Qed.
Lemma r_strlen  now d a : reach d (fst (cmd_strlen now d a)).
Proof. rgo. Qed.
Lemma r_getrange  now d a : reach d (fst (cmd_getrange now d a)).
Proof. rgo. Qed.
Lemma r_setrange  now d a : reach d (fst (cmd_setrange now d a)).
Proof. rgo. Qed.
Lemma r_incr dl now d a : reach d (fst (cmd_incr dl now d a)).
Proof. rgo. Qed.
Lemma r_incrby sg now d a : reach d (fst (cmd_incrby sg now d a)).
Proof. rgo. Qed.
Lemma r_mget  now d a : reach d (fst (cmd_mget now d a)).
Proof. rgo. Qed.
Lemma r_mset  now d a : reach d (fst (cmd_mset now d a)).
Proof. rgo. Qed.
Lemma r_msetnx  now d a : reach d (fst (cmd_msetnx now d a)).
Proof. rgo. Qed.
Lemma r_push lf xo now d a : reach d (fst (cmd_push lf xo now d a)).
Proof. rgo. Qed.
Lemma r_pop lf now d a : reach d (fst (cmd_pop lf now d a)).
Proof. rgo. Qed.
Lemma r_llen  now d a : reach d (fst (cmd_llen now d a)).
Proof. rgo. Qed.
Lemma r_lindex  now d a : reach d (fst (cmd_lindex now d a)).
Proof. rgo. Qed.
Lemma r_lrange  now d a : reach d (fst (cmd_lrange now d a)).
Proof. rgo. Qed.
Lemma r_lset  now d a : reach d (fst (cmd_lset now d a)).
Proof. rgo. Qed.
Lemma r_linsert  now d a : reach d (fst (cmd_linsert now d a)).
Proof. rgo. Qed.
Lemma r_lrem  now d a : reach d (fst (cmd_lrem now d a)).
Proof. rgo. Qed.
Lemma r_ltrim  now d a : reach d (fst (cmd_ltrim now d a)).
Proof. rgo. Qed.
Lemma r_lpos  now d a : reach d (fst (cmd_lpos now d a)).
Proof. rgo. Qed.
Lemma r_lmove  now d a : reach d (fst (cmd_lmove now d a)).
Proof. rgo. Qed.
Lemma r_rpoplpush  now d a : reach d (fst (cmd_rpoplpush now d a)).
Proof. rgo. Qed.
Lemma r_lmpop  now d a : reach d (fst (cmd_lmpop now d a)).
Proof. rgo. Qed.
Lemma r_hset md now d a : reach d (fst (cmd_hset md now d a)).
Proof. rgo. Qed.
Lemma r_hget  now d a : reach d (fst (cmd_hget now d a)).
Proof. rgo. Qed.
Lemma r_hmget  now d a : reach d (fst (cmd_hmget now d a)).
Proof. rgo. Qed.
Lemma r_hgetall  now d a : reach d (fst (cmd_hgetall now d a)).
Proof. rgo. Qed.
Lemma r_hkeys vl now d a : reach d (fst (cmd_hkeys vl now d a)).
Proof. rgo. Qed.
Lemma r_hlen  now d a : reach d (fst (cmd_hlen now d a)).
Proof. rgo. Qed.
Lemma r_hexists sl now d a : reach d (fst (cmd_hexists sl now d a)).
Proof. rgo. Qed.
Lemma r_hdel  now d a : reach d (fst (cmd_hdel now d a)).
Proof. rgo. Qed.
Lemma r_hincrby  now d a : reach d (fst (cmd_hincrby now d a)).
Proof. rgo. Qed.
Lemma r_hrandfield  now d a : reach d (fst (cmd_hrandfield now d a)).
Proof. rgo. Qed.
Lemma r_hscan  now d a : reach d (fst (cmd_hscan now d a)).
Proof. rgo. Qed.
Lemma r_sadd  now d a : reach d (fst (cmd_sadd now d a)).
Proof. rgo. Qed.
Lemma r_srem  now d a : reach d (fst (cmd_srem now d a)).
Proof. rgo. Qed.
Lemma r_scard  now d a : reach d (fst (cmd_scard now d a)).
Proof. rgo. Qed.
Lemma r_sismember  now d a : reach d (fst (cmd_sismember now d a)).
Proof. rgo. Qed.
Lemma r_smismember  now d a : reach d (fst (cmd_smismember now d a)).
Proof. rgo. Qed.
Lemma r_smembers  now d a : reach d (fst (cmd_smembers now d a)).
Proof. rgo. Qed.
Lemma r_smove  now d a : reach d (fst (cmd_smove now d a)).
Proof. rgo. Qed.
Lemma r_srandmember  now d a : reach d (fst (cmd_srandmember now d a)).
Proof. rgo. Qed.
Lemma r_sscan  now d a : reach d (fst (cmd_sscan now d a)).
Proof. rgo. Qed.
Lemma r_setop o now d a : reach d (fst (cmd_setop o now d a)).
Proof. rgo. Qed.
Lemma r_setop_store o now d a : reach d (fst (cmd_setop_store o now d a)).
Proof. rgo. Qed.
Lemma r_sintercard  now d a : reach d (fst (cmd_sintercard now d a)).
Proof. rgo. Qed.
Lemma r_del  now d a : reach d (fst (cmd_del now d a)).
Proof. rgo. Qed.
Lemma r_exists  now d a : reach d (fst (cmd_exists now d a)).
Proof. rgo. Qed.
Lemma r_touch  now d a : reach d (fst (cmd_touch now d a)).
Proof. rgo. Qed.
Lemma r_type  now d a : reach d (fst (cmd_type now d a)).
Proof. rgo. Qed.
Lemma r_rename nx now d a : reach d (fst (cmd_rename nx now d a)).
Proof. rgo. Qed.
Lemma r_copy  now d a : reach d (fst (cmd_copy now d a)).
Proof. rgo. Qed.
Lemma r_keys  now d a : reach d (fst (cmd_keys now d a)).
Proof. rgo. Qed.
Lemma r_randomkey  now d a : reach d (fst (cmd_randomkey now d a)).
Proof. rgo. Qed.
Lemma r_dbsize  now d a : reach d (fst (cmd_dbsize now d a)).
Proof. rgo. Qed.
Lemma r_scan  now d a : reach d (fst (cmd_scan now d a)).
Proof. rgo. Qed.
Lemma r_expire u rl now d a : reach d (fst (cmd_expire u rl now d a)).
Proof. rgo. Qed.
Lemma r_ttl u rl now d a : reach d (fst (cmd_ttl u rl now d a)).
Proof. rgo. Qed.
Lemma r_persist  now d a : reach d (fst (cmd_persist now d a)).
Proof. rgo. Qed.
Lemma r_setbit  now d a : reach d (fst (cmd_setbit now d a)).
Proof. rgo. Qed.
Lemma r_getbit  now d a : reach d (fst (cmd_getbit now d a)).
Proof. rgo. Qed.
Lemma r_bitcount  now d a : reach d (fst (cmd_bitcount now d a)).
Proof. rgo. Qed.
Lemma r_bitpos  now d a : reach d (fst (cmd_bitpos now d a)).
Proof. rgo. Qed.
Lemma r_bitop  now d a : reach d (fst (cmd_bitop now d a)).
Proof. rgo. Qed.
Lemma r_bitfield ro now d a : reach d (fst (cmd_bitfield ro now d a)).
Proof. rgo. Qed.
Lemma r_incrbyfloat now d a : reach d (fst (cmd_incrbyfloat now d a)).
Proof. rgo. Qed.
Lemma r_hincrbyfloat now d a : reach d (fst (cmd_hincrbyfloat now d a)).
Proof. rgo. Qed.

(* LCS and SORT are walked along the head match only (their replies contain many matches) *)
Ltac hs10 t :=
  lazymatch t with
  | fst ?x => hs10 x
  | snd ?x => hs10 x
  | match ?x with _ => _ end => hs10 x
  | _ => t
  end.
Ltac head_fst :=
  repeat (lazymatch goal with
          | |- context[fst (match _ with _ => _ end)] =>
            match goal with |- context[fst (match ?x with _ => _ end)] => let y := hs10 x in destruct y end
          end).
(* LCS never writes *)
Lemma o_lcs now d a : fst (cmd_lcs now d a) = d.
Proof. unfold cmd_lcs. head_fst. all: reflexivity. Qed.
Lemma r_lcs now d a : reach d (fst (cmd_lcs now d a)).
Proof. rewrite o_lcs. apply reach_refl. Qed.
(* SORT writes only with STORE: one put_or_del on the destination *)
Lemma sort_shape now d a :
  fst (cmd_sort now d a) = d \/
  exists dst l n, fst (cmd_sort now d a) = put_list d dst l None /\ snd (cmd_sort now d a) = RInt n.
Proof.
  unfold cmd_sort. cbv zeta.
  repeat (lazymatch goal with
          | |- fst (match _ with _ => _ end) = _ \/ _ =>
            match goal with |- fst ?T = _ \/ _ => let y := hs10 T in destruct y end
          end).
  all: cbn [fst snd]; first [left; reflexivity | right; eexists; eexists; eexists; split; reflexivity].
Qed.
Lemma r_sort now d a : reach d (fst (cmd_sort now d a)).
Proof.
  destruct (sort_shape now d a) as [->|(dst & l & n & -> & _)]; auto with rch.
Qed.

Lemma reach_table : Forall (fun sf => forall now d a, reach d (fst (snd sf now d a))) table.
Proof.
  unfold table.
  apply Forall_cons; [exact r_set|].
  apply Forall_cons; [exact r_setnx|].
  apply Forall_cons; [exact (r_setex sec)|].
  apply Forall_cons; [exact (r_setex msec)|].
  apply Forall_cons; [exact r_get|].
  apply Forall_cons; [exact r_getset|].
  apply Forall_cons; [exact r_getdel|].
  apply Forall_cons; [exact r_getex|].
  apply Forall_cons; [exact r_append|].
  apply Forall_cons; [exact r_strlen|].
  apply Forall_cons; [exact r_getrange|].
  apply Forall_cons; [exact r_getrange|].
  apply Forall_cons; [exact r_setrange|].
  apply Forall_cons; [exact (r_incr 1)|].
  apply Forall_cons; [exact (r_incr (-1))|].
  apply Forall_cons; [exact (r_incrby 1)|].
  apply Forall_cons; [exact (r_incrby (-1))|].
  apply Forall_cons; [exact r_mget|].
  apply Forall_cons; [exact r_mset|].
  apply Forall_cons; [exact r_msetnx|].
  apply Forall_cons; [exact (r_push true false)|].
  apply Forall_cons; [exact (r_push false false)|].
  apply Forall_cons; [exact (r_push true true)|].
  apply Forall_cons; [exact (r_push false true)|].
  apply Forall_cons; [exact (r_pop true)|].
  apply Forall_cons; [exact (r_pop false)|].
  apply Forall_cons; [exact r_llen|].
  apply Forall_cons; [exact r_lindex|].
  apply Forall_cons; [exact r_lrange|].
  apply Forall_cons; [exact r_lset|].
  apply Forall_cons; [exact r_linsert|].
  apply Forall_cons; [exact r_lrem|].
  apply Forall_cons; [exact r_ltrim|].
  apply Forall_cons; [exact r_lpos|].
  apply Forall_cons; [exact r_lmove|].
  apply Forall_cons; [exact r_rpoplpush|].
  apply Forall_cons; [exact r_lmpop|].
  apply Forall_cons; [exact (r_hset 0%N)|].
  apply Forall_cons; [exact (r_hset 1%N)|].
  apply Forall_cons; [exact (r_hset 2%N)|].
  apply Forall_cons; [exact r_hget|].
  apply Forall_cons; [exact r_hmget|].
  apply Forall_cons; [exact r_hgetall|].
  apply Forall_cons; [exact (r_hkeys false)|].
  apply Forall_cons; [exact (r_hkeys true)|].
  apply Forall_cons; [exact r_hlen|].
  apply Forall_cons; [exact (r_hexists false)|].
  apply Forall_cons; [exact (r_hexists true)|].
  apply Forall_cons; [exact r_hdel|].
  apply Forall_cons; [exact r_hincrby|].
  apply Forall_cons; [exact r_hrandfield|].
  apply Forall_cons; [exact r_hscan|].
  apply Forall_cons; [exact r_sadd|].
  apply Forall_cons; [exact r_srem|].
  apply Forall_cons; [exact r_scard|].
  apply Forall_cons; [exact r_sismember|].
  apply Forall_cons; [exact r_smismember|].
  apply Forall_cons; [exact r_smembers|].
  apply Forall_cons; [exact r_smove|].
  apply Forall_cons; [exact r_srandmember|].
  apply Forall_cons; [exact r_sscan|].
  apply Forall_cons; [exact (r_setop OpInter)|].
  apply Forall_cons; [exact (r_setop OpUnion)|].
  apply Forall_cons; [exact (r_setop OpDiff)|].
  apply Forall_cons; [exact (r_setop_store OpInter)|].
  apply Forall_cons; [exact (r_setop_store OpUnion)|].
  apply Forall_cons; [exact (r_setop_store OpDiff)|].
  apply Forall_cons; [exact r_sintercard|].
  apply Forall_cons; [exact r_del|].
  apply Forall_cons; [exact r_del|].
  apply Forall_cons; [exact r_exists|].
  apply Forall_cons; [exact r_touch|].
  apply Forall_cons; [exact r_type|].
  apply Forall_cons; [exact (r_rename false)|].
  apply Forall_cons; [exact (r_rename true)|].
  apply Forall_cons; [exact r_copy|].
  apply Forall_cons; [exact r_keys|].
  apply Forall_cons; [exact r_randomkey|].
  apply Forall_cons; [exact r_dbsize|].
  apply Forall_cons; [exact r_scan|].
  apply Forall_cons; [exact (r_expire sec true)|].
  apply Forall_cons; [exact (r_expire msec true)|].
  apply Forall_cons; [exact (r_expire sec false)|].
  apply Forall_cons; [exact (r_expire msec false)|].
  apply Forall_cons; [exact (r_ttl sec true)|].
  apply Forall_cons; [exact (r_ttl msec true)|].
  apply Forall_cons; [exact (r_ttl sec false)|].
  apply Forall_cons; [exact (r_ttl msec false)|].
  apply Forall_cons; [exact r_persist|].
  apply Forall_cons; [exact r_setbit|].
  apply Forall_cons; [exact r_getbit|].
  apply Forall_cons; [exact r_bitcount|].
  apply Forall_cons; [exact r_bitpos|].
  apply Forall_cons; [exact r_bitop|].
  apply Forall_cons; [exact (r_bitfield false)|].
  apply Forall_cons; [exact (r_bitfield true)|].
  apply Forall_cons; [exact r_lcs|].
  apply Forall_cons; [exact r_sort|].
  apply Forall_cons; [exact r_incrbyfloat|].
  apply Forall_cons; [exact r_hincrbyfloat|].
  apply Forall_nil.
Qed.

(* ------------------------------------------------------------------ *)
(* C10.1  every observable change of a key changes the version WATCH compares *)
Definition vis (now : Z) (d : db) (k : bytes) : option (value * option Z) :=
  match lookup now d k with Some e => Some (e_val e, e_exp e) | None => None end.
Definition wf_ver (d : db) : Prop :=
  forall k e, In (k, e) (d_map d) -> (1 <= e_ver e <= d_next d)%N.

Lemma aget_In {V} (m : list (bytes * V)) k v : aget m k = Some v -> In (k, v) m.
Proof.
  induction m as [|[k' v'] m IH]; simpl; [discriminate|].
  destruct (bytes_eqb k k') eqn:E; intro H.
  - apply bytes_eqb_eq in E. left. congruence.
  - right. auto.
Qed.
Lemma In_aset {V} (m : list (bytes * V)) k0 v0 k v :
  In (k, v) (aset m k0 v0) -> (k = k0 /\ v = v0) \/ In (k, v) m.
Proof.
  induction m as [|[k' v'] m IH]; simpl.
  - intros [H|[]]. left. split; congruence.
  - destruct (bytes_eqb k0 k'); simpl.
    + intros [H|H]; [left; split; congruence | right; right; exact H].
    + intros [H|H]; [right; left; exact H|]. destruct (IH H); auto.
Qed.
Lemma In_adel {V} (m : list (bytes * V)) k0 k v : In (k, v) (adel m k0) -> In (k, v) m.
Proof.
  induction m as [|[k' v'] m IH]; simpl; [tauto|].
  destruct (bytes_eqb k0 k'); simpl; intros H; [right; auto|]. destruct H; auto.
Qed.

Lemma wf_ver_put d k v x : wf_ver d -> wf_ver (put d k v x).
Proof.
  intros H k' e Hin. unfold put in Hin; cbn [d_map d_next] in *. unfold put; cbn [d_next].
  apply In_aset in Hin as [[_ ->]|Hin]; cbn [e_ver]; [lia|]. apply H in Hin. lia.
Qed.
Lemma wf_ver_del d k : wf_ver d -> wf_ver (del d k).
Proof.
  intros H k' e Hin. unfold del in *; cbn [d_map d_next] in *.
  apply In_adel in Hin. apply H in Hin. lia.
Qed.

(* what a put/del sequence can do to the raw entry of a key: nothing, remove it, or
   replace it by an entry with a version that did not exist before *)
Definition chg (d d' : db) : Prop :=
  (d_next d <= d_next d')%N /\
  forall k, aget (d_map d') k = aget (d_map d) k \/ aget (d_map d') k = None \/
            exists e, aget (d_map d') k = Some e /\ (d_next d < e_ver e)%N.

Lemma reach_chg d d' : reach d d' -> wf_ver d -> wf_ver d' /\ chg d d'.
Proof.
  intros Hr Hw. induction Hr as [|d' k0 v x Hr [IHw [IHn IHk]]|d' k0 Hr [IHw [IHn IHk]]|d' Hr [IHw [IHn IHk]]].
  - split; [exact Hw|]. split; [lia|]. intro k. left. reflexivity.
  - split; [apply wf_ver_put; exact IHw|]. split; [unfold put; cbn [d_next]; lia|].
    intro k. destruct (bytes_eq_dec k k0) as [->|Hne].
    + right. right. eexists. unfold put; cbn [d_map]. rewrite aget_aset_same.
      split; [reflexivity|]. cbn [e_ver]. lia.
    + unfold put; cbn [d_map]. rewrite aget_aset_other by exact Hne. apply IHk.
  - split; [apply wf_ver_del; exact IHw|]. split; [unfold del; cbn [d_next]; lia|].
    intro k. destruct (bytes_eq_dec k k0) as [->|Hne].
    + right. left. unfold del; cbn [d_map]. apply aget_adel_same.
    + unfold del; cbn [d_map]. rewrite aget_adel_other by exact Hne. apply IHk.
  - split; [intros k e []|]. split; [unfold flush_db; cbn [d_next]; lia|].
    intro k. right. left. reflexivity.
Qed.

Lemma NoDup_reach d d' : reach d d' -> NoDup (map fst (d_map d)) -> NoDup (map fst (d_map d')).
Proof.
  intros Hr Hn. induction Hr; [exact Hn| | |].
  - unfold put; cbn [d_map]. apply (NoDup_akeys_aset (d_map d')). exact IHHr.
  - unfold del; cbn [d_map]. apply (NoDup_akeys_adel (d_map d')). exact IHHr.
  - constructor.
Qed.

Lemma lookup_ver_bounds now d k e :
  wf_ver d -> lookup now d k = Some e -> (1 <= e_ver e <= d_next d)%N.
Proof.
  intros Hw H. unfold lookup in H. destruct (aget (d_map d) k) as [e0|] eqn:E; [|discriminate].
  destruct (expired now e0); [discriminate|]. injection H as <-. apply aget_In in E. exact (Hw _ _ E).
Qed.

Lemma ver_of_bounds now d k : wf_ver d -> (ver_of now d k <= d_next d)%N.
Proof.
  intro Hw. unfold ver_of. destruct (lookup now d k) as [e|] eqn:E; [|lia].
  apply (lookup_ver_bounds _ _ _ _ Hw) in E. lia.
Qed.

Lemma chg_bumps now d d' k :
  wf_ver d -> chg d d' -> vis now d' k <> vis now d k -> ver_of now d' k <> ver_of now d k.
Proof.
  intros Hw [Hn Hk] Hvis. pose proof (ver_of_bounds now d k Hw) as Hb.
  destruct (Hk k) as [Hsame|[Hnone|(e & He & Hver)]].
  - exfalso. apply Hvis. unfold vis, lookup. rewrite Hsame. reflexivity.
  - assert (L' : lookup now d' k = None) by (unfold lookup; rewrite Hnone; reflexivity).
    unfold vis, ver_of in *. rewrite L' in *.
    destruct (lookup now d k) as [e0|] eqn:L; [|congruence].
    apply (lookup_ver_bounds _ _ _ _ Hw) in L. lia.
  - assert (L' : lookup now d' k = if expired now e then None else Some e)
      by (unfold lookup; rewrite He; reflexivity).
    unfold vis, ver_of in *. rewrite L' in *.
    destruct (expired now e).
    + destruct (lookup now d k) as [e0|] eqn:L; [|congruence].
      apply (lookup_ver_bounds _ _ _ _ Hw) in L. lia.
    + lia.
Qed.

Lemma cmd_reach name f : data_cmd name = Some f -> forall now d a, reach d (fst (f now d a)).
Proof.
  apply (table_forall (fun f => forall now d a, reach d (fst (f now d a))) reach_table).
Qed.

Theorem C10_modification_bumps name f now d args :
  data_cmd name = Some f ->
  wf_ver d ->
  let d' := fst (f now d args) in
  wf_ver d' /\ (d_next d <= d_next d')%N /\
  forall k, vis now d' k <> vis now d k -> ver_of now d' k <> ver_of now d k.
Proof.
  intros Hf Hw d'.
  assert (Hr : reach d d') by (apply (cmd_reach _ _ Hf)).
  destruct (reach_chg _ _ Hr Hw) as [Hw' Hc]. split; [exact Hw'|]. split; [apply Hc|].
  intro k. apply chg_bumps; assumption.
Qed.
Print Assumptions C10_modification_bumps.

(* the requested shape, with the NoDup invariant carried along (it is not needed for the
   version argument, but it is preserved, so both invariants are inductive) *)
Theorem C10_modification_bumps_inv name f now d args :
  data_cmd name = Some f ->
  wf_ver d -> NoDup (map fst (d_map d)) ->
  let d' := fst (f now d args) in
  wf_ver d' /\ NoDup (map fst (d_map d')) /\ (d_next d <= d_next d')%N /\
  forall k, vis now d' k <> vis now d k -> ver_of now d' k <> ver_of now d k.
Proof.
  intros Hf Hw Hn d'.
  destruct (C10_modification_bumps name f now d args Hf Hw) as (H1 & H2 & H3).
  split; [exact H1|]. split; [|split; [exact H2|exact H3]].
  apply (NoDup_reach d); [|exact Hn]. apply (cmd_reach _ _ Hf).
Qed.
Print Assumptions C10_modification_bumps_inv.

(* the invariants hold initially *)
Lemma wf_ver_empty : wf_ver empty_db /\ NoDup (map fst (d_map empty_db)).
Proof. split; [intros k e []|constructor]. Qed.

(* a key the command did not write keeps version and visibility: converse direction is false in
   general (a rewrite with the same value bumps the version), which is Redis' behaviour too *)

Example C10_bumps_ex :
  let d := fst (cmd_set 5 empty_db [s2b "k"; s2b "v"]) in
  let d' := fst (cmd_expire sec true 5 d [s2b "k"; s2b "10"]) in
  wf_ver d /\ vis 5 d' (s2b "k") <> vis 5 d (s2b "k") /\ ver_of 5 d (s2b "k") = 1%N /\ ver_of 5 d' (s2b "k") = 2%N.
Proof.
  vm_compute. split; [|split; [discriminate | split; reflexivity]].
  intros k e [H|[]]. injection H as <- <-. vm_compute. split; discriminate.
Qed.

(* SORT ... STORE and INCRBYFLOAT are modifications (fresh version for the written key, the
   source keeps its version); SORT without STORE and LCS leave the record alone *)
Example C10_sort_lcs_ex :
  let d := fst (cmd_push false false 0 empty_db [s2b "l"; s2b "2"; s2b "1"]) in
  let d := fst (cmd_set 0 d [s2b "s"; s2b "1.5"]) in
  let d1 := fst (cmd_sort 0 d [s2b "l"; s2b "STORE"; s2b "s"]) in
  let d2 := fst (cmd_incrbyfloat 0 d [s2b "s"; s2b "0.25"]) in
  ver_of 0 d (s2b "s") = 2%N /\ ver_of 0 d1 (s2b "s") = 3%N /\ ver_of 0 d1 (s2b "l") = 1%N /\
  vis 0 d1 (s2b "s") = Some (VList [s2b "1"; s2b "2"], None) /\
  ver_of 0 d2 (s2b "s") = 3%N /\ vis 0 d2 (s2b "s") = Some (VStr (s2b "1.75"), None) /\
  fst (cmd_sort 0 d [s2b "l"; s2b "DESC"]) = d /\ fst (cmd_lcs 0 d [s2b "s"; s2b "s"]) = d /\
  data_cmd (s2b "sort") = Some cmd_sort /\ data_cmd (s2b "lcs") = Some cmd_lcs /\
  data_cmd (s2b "incrbyfloat") = Some cmd_incrbyfloat.
Proof. repeat split; try reflexivity; vm_compute; reflexivity. Qed.

(* ------------------------------------------------------------------ *)
(* C10.2  reads and failed commands do not modify anything *)
Ltac ogo := unf; bms; reflexivity.

Lemma run_bf_ro ops : forall bs o ch,
  existsb (fun op => match op with BGet _ _ _ => false | _ => true end) ops = false ->
  snd (run_bf ops bs o ch) = ch.
Proof.
  induction ops as [|op ops IH]; intros bs o ch H; [reflexivity|].
  destruct op; simpl in H; try discriminate. simpl.
  specialize (IH bs o ch H). destruct (run_bf ops bs o ch) as [[b rs] c]. exact IH.
Qed.

Lemma bf_ro_unchanged ops bs o b rs :
  run_bf ops bs o false = (b, rs, true) ->
  true && existsb (fun op => match op with BGet _ _ _ => false | _ => true end) ops = false -> False.
Proof.
  intros H E. cbn [andb] in E. pose proof (run_bf_ro ops bs o false E) as H1.
  rewrite H in H1. discriminate.
Qed.
Lemma o_get  now d a : fst (cmd_get now d a) = d.
Proof. ogo. Qed.
Lemma o_strlen  now d a : fst (cmd_strlen now d a) = d.
Proof. ogo. Qed.
Lemma o_getrange  now d a : fst (cmd_getrange now d a) = d.
Proof. ogo. Qed.
Lemma o_mget  now d a : fst (cmd_mget now d a) = d.
Proof. ogo. Qed.
Lemma o_llen  now d a : fst (cmd_llen now d a) = d.
Proof. ogo. Qed.
Lemma o_lindex  now d a : fst (cmd_lindex now d a) = d.
Proof. ogo. Qed.
Lemma o_lrange  now d a : fst (cmd_lrange now d a) = d.
Proof. ogo. Qed.
Lemma o_lpos  now d a : fst (cmd_lpos now d a) = d.
Proof. ogo. Qed.
Lemma o_hget  now d a : fst (cmd_hget now d a) = d.
Proof. ogo. Qed.
Lemma o_hmget  now d a : fst (cmd_hmget now d a) = d.
Proof. ogo. Qed.
Lemma o_hgetall  now d a : fst (cmd_hgetall now d a) = d.
Proof. ogo. Qed.
Lemma o_hkeys vl now d a : fst (cmd_hkeys vl now d a) = d.
Proof. ogo. Qed.
Lemma o_hlen  now d a : fst (cmd_hlen now d a) = d.
Proof. ogo. Qed.
Lemma o_hexists sl now d a : fst (cmd_hexists sl now d a) = d.
Proof. ogo. Qed.
Lemma o_hrandfield  now d a : fst (cmd_hrandfield now d a) = d.
Proof. ogo. Qed.
Lemma o_hscan  now d a : fst (cmd_hscan now d a) = d.
Proof. ogo. Qed.
Lemma o_scard  now d a : fst (cmd_scard now d a) = d.
Proof. ogo. Qed.
Lemma o_sismember  now d a : fst (cmd_sismember now d a) = d.
Proof. ogo. Qed.
Lemma o_smismember  now d a : fst (cmd_smismember now d a) = d.
Proof. ogo. Qed.
Lemma o_smembers  now d a : fst (cmd_smembers now d a) = d.
Proof. ogo. Qed.
Lemma o_srandmember  now d a : fst (cmd_srandmember now d a) = d.
Proof. ogo. Qed.
Lemma o_sscan  now d a : fst (cmd_sscan now d a) = d.
Proof. ogo. Qed.
Lemma o_setop o now d a : fst (cmd_setop o now d a) = d.
Proof. ogo. Qed.
Lemma o_sintercard  now d a : fst (cmd_sintercard now d a) = d.
Proof. ogo. Qed.
Lemma o_exists  now d a : fst (cmd_exists now d a) = d.
Proof. ogo. Qed.
Lemma o_touch  now d a : fst (cmd_touch now d a) = d.
Proof. ogo. Qed.
Lemma o_type  now d a : fst (cmd_type now d a) = d.
Proof. ogo. Qed.
Lemma o_keys  now d a : fst (cmd_keys now d a) = d.
Proof. ogo. Qed.
Lemma o_randomkey  now d a : fst (cmd_randomkey now d a) = d.
Proof. ogo. Qed.
Lemma o_dbsize  now d a : fst (cmd_dbsize now d a) = d.
Proof. ogo. Qed.
Lemma o_scan  now d a : fst (cmd_scan now d a) = d.
Proof. ogo. Qed.
Lemma o_ttl u rl now d a : fst (cmd_ttl u rl now d a) = d.
Proof. ogo. Qed.
Lemma o_getbit  now d a : fst (cmd_getbit now d a) = d.
Proof. ogo. Qed.
Lemma o_bitcount  now d a : fst (cmd_bitcount now d a) = d.
Proof. ogo. Qed.
Lemma o_bitpos  now d a : fst (cmd_bitpos now d a) = d.
Proof. ogo. Qed.
Lemma o_bitfield_ro now d a : fst (cmd_bitfield true now d a) = d.
Proof.
  unf. bms; try reflexivity.
  all: exfalso.
  all: match goal with H : run_bf ?ops _ _ _ = (_, _, true), E : true && existsb _ ?ops = false |- _ => revert H E end.
  all: apply bf_ro_unchanged.
Qed.

Definition ro_names : list string :=
  ["get"; "mget"; "strlen"; "getrange"; "substr"; "llen"; "lindex"; "lrange"; "lpos"; "hget"; "hmget";
   "hgetall"; "hkeys"; "hvals"; "hlen"; "hexists"; "hstrlen"; "hrandfield"; "hscan"; "scard"; "sismember";
   "smismember"; "smembers"; "srandmember"; "sscan"; "sinter"; "sunion"; "sdiff"; "sintercard"; "exists";
   "touch"; "type"; "keys"; "randomkey"; "dbsize"; "scan"; "ttl"; "pttl"; "expiretime"; "pexpiretime";
   "getbit"; "bitcount"; "bitpos"; "bitfield_ro"; "lcs"].

Lemma ro_table : Forall (fun s => exists f, data_cmd (s2b s) = Some f /\ forall now d a, fst (f now d a) = d) ro_names.
Proof.
  unfold ro_names.
  apply Forall_cons; [exists (cmd_get); split; [reflexivity | exact o_get]|].
  apply Forall_cons; [exists (cmd_mget); split; [reflexivity | exact o_mget]|].
  apply Forall_cons; [exists (cmd_strlen); split; [reflexivity | exact o_strlen]|].
  apply Forall_cons; [exists (cmd_getrange); split; [reflexivity | exact o_getrange]|].
  apply Forall_cons; [exists (cmd_getrange); split; [reflexivity | exact o_getrange]|].
  apply Forall_cons; [exists (cmd_llen); split; [reflexivity | exact o_llen]|].
  apply Forall_cons; [exists (cmd_lindex); split; [reflexivity | exact o_lindex]|].
  apply Forall_cons; [exists (cmd_lrange); split; [reflexivity | exact o_lrange]|].
  apply Forall_cons; [exists (cmd_lpos); split; [reflexivity | exact o_lpos]|].
  apply Forall_cons; [exists (cmd_hget); split; [reflexivity | exact o_hget]|].
  apply Forall_cons; [exists (cmd_hmget); split; [reflexivity | exact o_hmget]|].
  apply Forall_cons; [exists (cmd_hgetall); split; [reflexivity | exact o_hgetall]|].
  apply Forall_cons; [exists (cmd_hkeys false); split; [reflexivity | exact (o_hkeys false)]|].
  apply Forall_cons; [exists (cmd_hkeys true); split; [reflexivity | exact (o_hkeys true)]|].
  apply Forall_cons; [exists (cmd_hlen); split; [reflexivity | exact o_hlen]|].
  apply Forall_cons; [exists (cmd_hexists false); split; [reflexivity | exact (o_hexists false)]|].
  apply Forall_cons; [exists (cmd_hexists true); split; [reflexivity | exact (o_hexists true)]|].
  apply Forall_cons; [exists (cmd_hrandfield); split; [reflexivity | exact o_hrandfield]|].
  apply Forall_cons; [exists (cmd_hscan); split; [reflexivity | exact o_hscan]|].
  apply Forall_cons; [exists (cmd_scard); split; [reflexivity | exact o_scard]|].
  apply Forall_cons; [exists (cmd_sismember); split; [reflexivity | exact o_sismember]|].
  apply Forall_cons; [exists (cmd_smismember); split; [reflexivity | exact o_smismember]|].
  apply Forall_cons; [exists (cmd_smembers); split; [reflexivity | exact o_smembers]|].
  apply Forall_cons; [exists (cmd_srandmember); split; [reflexivity | exact o_srandmember]|].
  apply Forall_cons; [exists (cmd_sscan); split; [reflexivity | exact o_sscan]|].
  apply Forall_cons; [exists (cmd_setop OpInter); split; [reflexivity | exact (o_setop OpInter)]|].
  apply Forall_cons; [exists (cmd_setop OpUnion); split; [reflexivity | exact (o_setop OpUnion)]|].
  apply Forall_cons; [exists (cmd_setop OpDiff); split; [reflexivity | exact (o_setop OpDiff)]|].
  apply Forall_cons; [exists (cmd_sintercard); split; [reflexivity | exact o_sintercard]|].
  apply Forall_cons; [exists (cmd_exists); split; [reflexivity | exact o_exists]|].
  apply Forall_cons; [exists (cmd_touch); split; [reflexivity | exact o_touch]|].
  apply Forall_cons; [exists (cmd_type); split; [reflexivity | exact o_type]|].
  apply Forall_cons; [exists (cmd_keys); split; [reflexivity | exact o_keys]|].
  apply Forall_cons; [exists (cmd_randomkey); split; [reflexivity | exact o_randomkey]|].
  apply Forall_cons; [exists (cmd_dbsize); split; [reflexivity | exact o_dbsize]|].
  apply Forall_cons; [exists (cmd_scan); split; [reflexivity | exact o_scan]|].
  apply Forall_cons; [exists (cmd_ttl sec true); split; [reflexivity | exact (o_ttl sec true)]|].
  apply Forall_cons; [exists (cmd_ttl msec true); split; [reflexivity | exact (o_ttl msec true)]|].
  apply Forall_cons; [exists (cmd_ttl sec false); split; [reflexivity | exact (o_ttl sec false)]|].
  apply Forall_cons; [exists (cmd_ttl msec false); split; [reflexivity | exact (o_ttl msec false)]|].
  apply Forall_cons; [exists (cmd_getbit); split; [reflexivity | exact o_getbit]|].
  apply Forall_cons; [exists (cmd_bitcount); split; [reflexivity | exact o_bitcount]|].
  apply Forall_cons; [exists (cmd_bitpos); split; [reflexivity | exact o_bitpos]|].
  apply Forall_cons; [exists (cmd_bitfield true); split; [reflexivity | exact o_bitfield_ro]|].
  apply Forall_cons; [exists (cmd_lcs); split; [reflexivity | exact o_lcs]|].
  apply Forall_nil.
Qed.

Theorem C10_reads_do_not_bump s f :
  In s ro_names -> data_cmd (s2b s) = Some f ->
  forall now d args, fst (f now d args) = d.
Proof.
  intros Hin Hf. pose proof ro_table as HT. rewrite Forall_forall in HT.
  destruct (HT _ Hin) as (g & Hg & Hro). rewrite Hg in Hf. injection Hf as <-. exact Hro.
Qed.
Print Assumptions C10_reads_do_not_bump.

(* in particular neither the version of any key nor the version counter moves *)
Corollary C10_reads_keep_versions s f now d args k :
  In s ro_names -> data_cmd (s2b s) = Some f ->
  ver_of now (fst (f now d args)) k = ver_of now d k /\ d_next (fst (f now d args)) = d_next d.
Proof. intros Hin Hf. rewrite (C10_reads_do_not_bump s f Hin Hf). auto. Qed.
Print Assumptions C10_reads_keep_versions.

Example C10_reads_ex :
  In "smembers" ro_names /\ data_cmd (s2b "smembers") = Some cmd_smembers /\
  snd (cmd_smembers 0 (fst (cmd_sadd 0 empty_db [s2b "s"; s2b "a"])) [s2b "s"]) = RArrU [RBulk (s2b "a")].
Proof. split; [simpl; tauto|]. split; reflexivity. Qed.

(* failed commands: a command that replies an error leaves the database untouched *)
Ltac ego := unf; bms; cbn [fst snd]; intros;
  first [reflexivity | discriminate | eauto with inert].

Lemma e_del_fold now l : forall d0 n s d,
  snd (fold_left (fun acc k => let '(d, r) := acc in
                 match r with
                 | RInt n => match lookup now d k with
                             | Some _ => (del d k, RInt (n + 1))
                             | None => (d, RInt n)
                             end
                 | _ => acc
                 end) l (d0, RInt n)) = RErr s ->
  fst (fold_left (fun acc k => let '(d, r) := acc in
                 match r with
                 | RInt n => match lookup now d k with
                             | Some _ => (del d k, RInt (n + 1))
                             | None => (d, RInt n)
                             end
                 | _ => acc
                 end) l (d0, RInt n)) = d.
Proof.
  induction l as [|k l IH]; simpl; intros d0 n s d H; [discriminate|].
  destruct (lookup now d0 k); eapply IH; exact H.
Qed.

Lemma e_lmpop_keys now lft c ks : forall d s,
  snd (lmpop_keys now d ks lft c) = RErr s -> fst (lmpop_keys now d ks lft c) = d.
Proof.
  induction ks as [|k ks IH]; simpl; intros d s H; [reflexivity|].
  destruct (get_list now d k) as [[[l x]|]|]; cbn [fst snd] in *; [|eauto|reflexivity].
  destruct lft; discriminate.
Qed.
#[export] Hint Resolve e_del_fold e_lmpop_keys : inert.

Lemma e_set  now d a : forall s, snd (cmd_set now d a) = RErr s -> fst (cmd_set now d a) = d.
Proof. ego. Qed.
Lemma e_setnx  now d a : forall s, snd (cmd_setnx now d a) = RErr s -> fst (cmd_setnx now d a) = d.
Proof. ego. Qed.
Lemma e_setex u now d a : forall s, snd (cmd_setex u now d a) = RErr s -> fst (cmd_setex u now d a) = d.
Proof. ego. Qed.
Lemma e_get  now d a : forall s, snd (cmd_get now d a) = RErr s -> fst (cmd_get now d a) = d.
Proof. ego. Qed.
Lemma e_getset  now d a : forall s, snd (cmd_getset now d a) = RErr s -> fst (cmd_getset now d a) = d.
Proof. ego. Qed.
Lemma e_getdel  now d a : forall s, snd (cmd_getdel now d a) = RErr s -> fst (cmd_getdel now d a) = d.
Proof. ego. Qed.
Lemma e_getex  now d a : forall s, snd (cmd_getex now d a) = RErr s -> fst (cmd_getex now d a) = d.
Proof. ego. Qed.
Lemma e_append  now d a : forall s, snd (cmd_append now d a) = RErr s -> fst (cmd_append now d a) = d.
Proof. ego. Qed.
Lemma e_strlen  now d a : forall s, snd (cmd_strlen now d a) = RErr s -> fst (cmd_strlen now d a) = d.
Proof. ego. Qed.
Lemma e_getrange  now d a : forall s, snd (cmd_getrange now d a) = RErr s -> fst (cmd_getrange now d a) = d.
Proof. ego. Qed.
Lemma e_setrange  now d a : forall s, snd (cmd_setrange now d a) = RErr s -> fst (cmd_setrange now d a) = d.
Proof. ego. Qed.
Lemma e_incr dl now d a : forall s, snd (cmd_incr dl now d a) = RErr s -> fst (cmd_incr dl now d a) = d.
Proof. ego. Qed.
Lemma e_incrby sg now d a : forall s, snd (cmd_incrby sg now d a) = RErr s -> fst (cmd_incrby sg now d a) = d.
Proof. ego. Qed.
Lemma e_mget  now d a : forall s, snd (cmd_mget now d a) = RErr s -> fst (cmd_mget now d a) = d.
Proof. ego. Qed.
Lemma e_mset  now d a : forall s, snd (cmd_mset now d a) = RErr s -> fst (cmd_mset now d a) = d.
Proof. ego. Qed.
Lemma e_msetnx  now d a : forall s, snd (cmd_msetnx now d a) = RErr s -> fst (cmd_msetnx now d a) = d.
Proof. ego. Qed.
Lemma e_push lf xo now d a : forall s, snd (cmd_push lf xo now d a) = RErr s -> fst (cmd_push lf xo now d a) = d.
Proof. ego. Qed.
Lemma e_pop lf now d a : forall s, snd (cmd_pop lf now d a) = RErr s -> fst (cmd_pop lf now d a) = d.
Proof. ego. Qed.
Lemma e_llen  now d a : forall s, snd (cmd_llen now d a) = RErr s -> fst (cmd_llen now d a) = d.
Proof. ego. Qed.
Lemma e_lindex  now d a : forall s, snd (cmd_lindex now d a) = RErr s -> fst (cmd_lindex now d a) = d.
Proof. ego. Qed.
Lemma e_lrange  now d a : forall s, snd (cmd_lrange now d a) = RErr s -> fst (cmd_lrange now d a) = d.
Proof. ego. Qed.
Lemma e_lset  now d a : forall s, snd (cmd_lset now d a) = RErr s -> fst (cmd_lset now d a) = d.
Proof. ego. Qed.
Lemma e_linsert  now d a : forall s, snd (cmd_linsert now d a) = RErr s -> fst (cmd_linsert now d a) = d.
Proof. ego. Qed.
Lemma e_lrem  now d a : forall s, snd (cmd_lrem now d a) = RErr s -> fst (cmd_lrem now d a) = d.
Proof. ego. Qed.
Lemma e_ltrim  now d a : forall s, snd (cmd_ltrim now d a) = RErr s -> fst (cmd_ltrim now d a) = d.
Proof. ego. Qed.
Lemma e_lpos  now d a : forall s, snd (cmd_lpos now d a) = RErr s -> fst (cmd_lpos now d a) = d.
Proof. ego. Qed.
Lemma e_lmove  now d a : forall s, snd (cmd_lmove now d a) = RErr s -> fst (cmd_lmove now d a) = d.
Proof. ego. Qed.
Lemma e_rpoplpush  now d a : forall s, snd (cmd_rpoplpush now d a) = RErr s -> fst (cmd_rpoplpush now d a) = d.
Proof. ego. Qed.
Lemma e_lmpop  now d a : forall s, snd (cmd_lmpop now d a) = RErr s -> fst (cmd_lmpop now d a) = d.
Proof. ego. Qed.
Lemma e_hset md now d a : forall s, snd (cmd_hset md now d a) = RErr s -> fst (cmd_hset md now d a) = d.
Proof. ego. Qed.
Lemma e_hget  now d a : forall s, snd (cmd_hget now d a) = RErr s -> fst (cmd_hget now d a) = d.
Proof. ego. Qed.
Lemma e_hmget  now d a : forall s, snd (cmd_hmget now d a) = RErr s -> fst (cmd_hmget now d a) = d.
Proof. ego. Qed.
Lemma e_hgetall  now d a : forall s, snd (cmd_hgetall now d a) = RErr s -> fst (cmd_hgetall now d a) = d.
Proof. ego. Qed.
Lemma e_hkeys vl now d a : forall s, snd (cmd_hkeys vl now d a) = RErr s -> fst (cmd_hkeys vl now d a) = d.
Proof. ego. Qed.
Lemma e_hlen  now d a : forall s, snd (cmd_hlen now d a) = RErr s -> fst (cmd_hlen now d a) = d.
Proof. ego. Qed.
Lemma e_hexists sl now d a : forall s, snd (cmd_hexists sl now d a) = RErr s -> fst (cmd_hexists sl now d a) = d.
Proof. ego. Qed.
Lemma e_hdel  now d a : forall s, snd (cmd_hdel now d a) = RErr s -> fst (cmd_hdel now d a) = d.
Proof. ego. Qed.
Lemma e_hincrby  now d a : forall s, snd (cmd_hincrby now d a) = RErr s -> fst (cmd_hincrby now d a) = d.
Proof. ego. Qed.
Lemma e_hrandfield  now d a : forall s, snd (cmd_hrandfield now d a) = RErr s -> fst (cmd_hrandfield now d a) = d.
Proof. ego. Qed.
Lemma e_hscan  now d a : forall s, snd (cmd_hscan now d a) = RErr s -> fst (cmd_hscan now d a) = d.
Proof. ego. Qed.
Lemma e_sadd  now d a : forall s, snd (cmd_sadd now d a) = RErr s -> fst (cmd_sadd now d a) = d.
Proof. ego. Qed.
Lemma e_srem  now d a : forall s, snd (cmd_srem now d a) = RErr s -> fst (cmd_srem now d a) = d.
Proof. ego. Qed.
Lemma e_scard  now d a : forall s, snd (cmd_scard now d a) = RErr s -> fst (cmd_scard now d a) = d.
Proof. ego. Qed.
Lemma e_sismember  now d a : forall s, snd (cmd_sismember now d a) = RErr s -> fst (cmd_sismember now d a) = d.
Proof. ego. Qed.
Lemma e_smismember  now d a : forall s, snd (cmd_smismember now d a) = RErr s -> fst (cmd_smismember now d a) = d.
Proof. ego. Qed.
Lemma e_smembers  now d a : forall s, snd (cmd_smembers now d a) = RErr s -> fst (cmd_smembers now d a) = d.
Proof. ego. Qed.
Lemma e_smove  now d a : forall s, snd (cmd_smove now d a) = RErr s -> fst (cmd_smove now d a) = d.
Proof. ego. Qed.
Lemma e_srandmember  now d a : forall s, snd (cmd_srandmember now d a) = RErr s -> fst (cmd_srandmember now d a) = d.
Proof. ego. Qed.
Lemma e_sscan  now d a : forall s, snd (cmd_sscan now d a) = RErr s -> fst (cmd_sscan now d a) = d.
Proof. ego. Qed.
Lemma e_setop o now d a : forall s, snd (cmd_setop o now d a) = RErr s -> fst (cmd_setop o now d a) = d.
Proof. ego. Qed.
Lemma e_setop_store o now d a : forall s, snd (cmd_setop_store o now d a) = RErr s -> fst (cmd_setop_store o now d a) = d.
Proof. ego. Qed.
Lemma e_sintercard  now d a : forall s, snd (cmd_sintercard now d a) = RErr s -> fst (cmd_sintercard now d a) = d.
Proof. ego. Qed.
Lemma e_del  now d a : forall s, snd (cmd_del now d a) = RErr s -> fst (cmd_del now d a) = d.
Proof. ego. Qed.
Lemma e_exists  now d a : forall s, snd (cmd_exists now d a) = RErr s -> fst (cmd_exists now d a) = d.
Proof. ego. Qed.
Lemma e_touch  now d a : forall s, snd (cmd_touch now d a) = RErr s -> fst (cmd_touch now d a) = d.
Proof. ego. Qed.
Lemma e_type  now d a : forall s, snd (cmd_type now d a) = RErr s -> fst (cmd_type now d a) = d.
Proof. ego. Qed.
Lemma e_rename nx now d a : forall s, snd (cmd_rename nx now d a) = RErr s -> fst (cmd_rename nx now d a) = d.
Proof. ego. Qed.
Lemma e_copy  now d a : forall s, snd (cmd_copy now d a) = RErr s -> fst (cmd_copy now d a) = d.
Proof. ego. Qed.
Lemma e_keys  now d a : forall s, snd (cmd_keys now d a) = RErr s -> fst (cmd_keys now d a) = d.
Proof. ego. Qed.
Lemma e_randomkey  now d a : forall s, snd (cmd_randomkey now d a) = RErr s -> fst (cmd_randomkey now d a) = d.
Proof. ego. Qed.
Lemma e_dbsize  now d a : forall s, snd (cmd_dbsize now d a) = RErr s -> fst (cmd_dbsize now d a) = d.
Proof. ego. Qed.
Lemma e_scan  now d a : forall s, snd (cmd_scan now d a) = RErr s -> fst (cmd_scan now d a) = d.
Proof. ego. Qed.
Lemma e_expire u rl now d a : forall s, snd (cmd_expire u rl now d a) = RErr s -> fst (cmd_expire u rl now d a) = d.
Proof. ego. Qed.
Lemma e_ttl u rl now d a : forall s, snd (cmd_ttl u rl now d a) = RErr s -> fst (cmd_ttl u rl now d a) = d.
Proof. ego. Qed.
Lemma e_persist  now d a : forall s, snd (cmd_persist now d a) = RErr s -> fst (cmd_persist now d a) = d.
Proof. ego. Qed.
Lemma e_setbit  now d a : forall s, snd (cmd_setbit now d a) = RErr s -> fst (cmd_setbit now d a) = d.
Proof. ego. Qed.
Lemma e_getbit  now d a : forall s, snd (cmd_getbit now d a) = RErr s -> fst (cmd_getbit now d a) = d.
Proof. ego. Qed.
Lemma e_bitcount  now d a : forall s, snd (cmd_bitcount now d a) = RErr s -> fst (cmd_bitcount now d a) = d.
Proof. ego. Qed.
Lemma e_bitpos  now d a : forall s, snd (cmd_bitpos now d a) = RErr s -> fst (cmd_bitpos now d a) = d.
Proof. ego. Qed.
Lemma e_bitop  now d a : forall s, snd (cmd_bitop now d a) = RErr s -> fst (cmd_bitop now d a) = d.
Proof. ego. Qed.
Lemma e_bitfield ro now d a : forall s, snd (cmd_bitfield ro now d a) = RErr s -> fst (cmd_bitfield ro now d a) = d.
Proof. ego. Qed.
Lemma e_lcs now d a : forall s, snd (cmd_lcs now d a) = RErr s -> fst (cmd_lcs now d a) = d.
Proof. intros s _. apply o_lcs. Qed.
Lemma e_sort now d a : forall s, snd (cmd_sort now d a) = RErr s -> fst (cmd_sort now d a) = d.
Proof.
  intros s H. destruct (sort_shape now d a) as [E|(dst & l & n & _ & E)]; [exact E|].
  rewrite E in H. discriminate.
Qed.
Lemma e_incrbyfloat now d a : forall s, snd (cmd_incrbyfloat now d a) = RErr s -> fst (cmd_incrbyfloat now d a) = d.
Proof. ego. Qed.
Lemma e_hincrbyfloat now d a : forall s, snd (cmd_hincrbyfloat now d a) = RErr s -> fst (cmd_hincrbyfloat now d a) = d.
Proof. ego. Qed.

Lemma err_table : Forall (fun sf => forall now d a s, snd (snd sf now d a) = RErr s -> fst (snd sf now d a) = d) table.
Proof.
  unfold table.
  apply Forall_cons; [exact e_set|].
  apply Forall_cons; [exact e_setnx|].
  apply Forall_cons; [exact (e_setex sec)|].
  apply Forall_cons; [exact (e_setex msec)|].
  apply Forall_cons; [exact e_get|].
  apply Forall_cons; [exact e_getset|].
  apply Forall_cons; [exact e_getdel|].
  apply Forall_cons; [exact e_getex|].
  apply Forall_cons; [exact e_append|].
  apply Forall_cons; [exact e_strlen|].
  apply Forall_cons; [exact e_getrange|].
  apply Forall_cons; [exact e_getrange|].
  apply Forall_cons; [exact e_setrange|].
  apply Forall_cons; [exact (e_incr 1)|].
  apply Forall_cons; [exact (e_incr (-1))|].
  apply Forall_cons; [exact (e_incrby 1)|].
  apply Forall_cons; [exact (e_incrby (-1))|].
  apply Forall_cons; [exact e_mget|].
  apply Forall_cons; [exact e_mset|].
  apply Forall_cons; [exact e_msetnx|].
  apply Forall_cons; [exact (e_push true false)|].
  apply Forall_cons; [exact (e_push false false)|].
  apply Forall_cons; [exact (e_push true true)|].
  apply Forall_cons; [exact (e_push false true)|].
  apply Forall_cons; [exact (e_pop true)|].
  apply Forall_cons; [exact (e_pop false)|].
  apply Forall_cons; [exact e_llen|].
  apply Forall_cons; [exact e_lindex|].
  apply Forall_cons; [exact e_lrange|].
  apply Forall_cons; [exact e_lset|].
  apply Forall_cons; [exact e_linsert|].
  apply Forall_cons; [exact e_lrem|].
  apply Forall_cons; [exact e_ltrim|].
  apply Forall_cons; [exact e_lpos|].
  apply Forall_cons; [exact e_lmove|].
  apply Forall_cons; [exact e_rpoplpush|].
  apply Forall_cons; [exact e_lmpop|].
  apply Forall_cons; [exact (e_hset 0%N)|].
  apply Forall_cons; [exact (e_hset 1%N)|].
  apply Forall_cons; [exact (e_hset 2%N)|].
  apply Forall_cons; [exact e_hget|].
  apply Forall_cons; [exact e_hmget|].
  apply Forall_cons; [exact e_hgetall|].
  apply Forall_cons; [exact (e_hkeys false)|].
  apply Forall_cons; [exact (e_hkeys true)|].
  apply Forall_cons; [exact e_hlen|].
  apply Forall_cons; [exact (e_hexists false)|].
  apply Forall_cons; [exact (e_hexists true)|].
  apply Forall_cons; [exact e_hdel|].
  apply Forall_cons; [exact e_hincrby|].
  apply Forall_cons; [exact e_hrandfield|].
  apply Forall_cons; [exact e_hscan|].
  apply Forall_cons; [exact e_sadd|].
  apply Forall_cons; [exact e_srem|].
  apply Forall_cons; [exact e_scard|].
  apply Forall_cons; [exact e_sismember|].
  apply Forall_cons; [exact e_smismember|].
  apply Forall_cons; [exact e_smembers|].
  apply Forall_cons; [exact e_smove|].
  apply Forall_cons; [exact e_srandmember|].
  apply Forall_cons; [exact e_sscan|].
  apply Forall_cons; [exact (e_setop OpInter)|].
  apply Forall_cons; [exact (e_setop OpUnion)|].
  apply Forall_cons; [exact (e_setop OpDiff)|].
  apply Forall_cons; [exact (e_setop_store OpInter)|].
  apply Forall_cons; [exact (e_setop_store OpUnion)|].
  apply Forall_cons; [exact (e_setop_store OpDiff)|].
  apply Forall_cons; [exact e_sintercard|].
  apply Forall_cons; [exact e_del|].
  apply Forall_cons; [exact e_del|].
  apply Forall_cons; [exact e_exists|].
  apply Forall_cons; [exact e_touch|].
  apply Forall_cons; [exact e_type|].
  apply Forall_cons; [exact (e_rename false)|].
  apply Forall_cons; [exact (e_rename true)|].
  apply Forall_cons; [exact e_copy|].
  apply Forall_cons; [exact e_keys|].
  apply Forall_cons; [exact e_randomkey|].
  apply Forall_cons; [exact e_dbsize|].
  apply Forall_cons; [exact e_scan|].
  apply Forall_cons; [exact (e_expire sec true)|].
  apply Forall_cons; [exact (e_expire msec true)|].
  apply Forall_cons; [exact (e_expire sec false)|].
  apply Forall_cons; [exact (e_expire msec false)|].
  apply Forall_cons; [exact (e_ttl sec true)|].
  apply Forall_cons; [exact (e_ttl msec true)|].
  apply Forall_cons; [exact (e_ttl sec false)|].
  apply Forall_cons; [exact (e_ttl msec false)|].
  apply Forall_cons; [exact e_persist|].
  apply Forall_cons; [exact e_setbit|].
  apply Forall_cons; [exact e_getbit|].
  apply Forall_cons; [exact e_bitcount|].
  apply Forall_cons; [exact e_bitpos|].
  apply Forall_cons; [exact e_bitop|].
  apply Forall_cons; [exact (e_bitfield false)|].
  apply Forall_cons; [exact (e_bitfield true)|].
  apply Forall_cons; [exact e_lcs|].
  apply Forall_cons; [exact e_sort|].
  apply Forall_cons; [exact e_incrbyfloat|].
  apply Forall_cons; [exact e_hincrbyfloat|].
  apply Forall_nil.
Qed.

Theorem C10_failed_do_not_bump name f now d args s :
  data_cmd name = Some f -> snd (f now d args) = RErr s -> fst (f now d args) = d.
Proof.
  intro Hf. revert now d args s.
  apply (table_forall (fun f => forall now d a s, snd (f now d a) = RErr s -> fst (f now d a) = d)
           err_table _ _ Hf).
Qed.
Print Assumptions C10_failed_do_not_bump.

Corollary C10_failed_keep_versions name f now d args s k :
  data_cmd name = Some f -> snd (f now d args) = RErr s ->
  ver_of now (fst (f now d args)) k = ver_of now d k /\ d_next (fst (f now d args)) = d_next d.
Proof. intros Hf He. rewrite (C10_failed_do_not_bump _ _ _ _ _ _ Hf He). auto. Qed.
Print Assumptions C10_failed_keep_versions.

Example C10_failed_ex :
  let d := fst (cmd_push true false 0 empty_db [s2b "l"; s2b "a"]) in
  snd (cmd_incr 1 0 d [s2b "l"]) = wrongtype /\ fst (cmd_incr 1 0 d [s2b "l"]) = d.
Proof. split; reflexivity. Qed.

(* ------------------------------------------------------------------ *)
(* C10.3  EXEC runs iff no watched version moved *)
Lemma watch_dirty_false_iff now st ws :
  watch_dirty now st ws = false <->
  forall i k v, In (i, k, v) ws -> ver_of now (get_db st i) k = v.
Proof.
  unfold watch_dirty. induction ws as [|[[i k] v] ws IH]; simpl.
  - split; [intros _ i k v []|reflexivity].
  - rewrite orb_false_iff, IH, negb_false_iff, N.eqb_eq. split.
    + intros [H1 H2] i' k' v' [E|Hin]; [injection E as <- <- <-; exact H1|eauto].
    + intro H. split; [apply H; left; reflexivity|]. intros i' k' v' Hin. apply H. right. exact Hin.
Qed.

Lemma watch_dirty_true_iff now st ws :
  watch_dirty now st ws = true <->
  exists i k v, In (i, k, v) ws /\ ver_of now (get_db st i) k <> v.
Proof.
  unfold watch_dirty. rewrite existsb_exists. split.
  - intros ([[i k] v] & Hin & H). exists i, k, v. split; [exact Hin|].
    apply negb_true_iff, N.eqb_neq in H. exact H.
  - intros (i & k & v & Hin & H). exists (i, k, v). split; [exact Hin|].
    apply negb_true_iff, N.eqb_neq. exact H.
Qed.

(* a watched key whose entry has expired counts as modified (Redis: expired keys are
   deleted, which touches the watch) *)
Lemma C10_expired_watch_dirty now st ws i k v e :
  In (i, k, v) ws -> (1 <= v)%N ->
  aget (d_map (get_db st i)) k = Some e -> expired now e = true ->
  watch_dirty now st ws = true.
Proof.
  intros Hin Hv Hg He. apply watch_dirty_true_iff. exists i, k, v. split; [exact Hin|].
  unfold ver_of, lookup. rewrite Hg, He. lia.
Qed.

(* ... and so does a watched key that was missing (version 0) and exists now *)
Lemma C10_created_watch_dirty now st ws i k e :
  wf_ver (get_db st i) -> In (i, k, 0%N) ws -> lookup now (get_db st i) k = Some e ->
  watch_dirty now st ws = true.
Proof.
  intros Hw Hin Hl. apply watch_dirty_true_iff. exists i, k, 0%N. split; [exact Hin|].
  unfold ver_of. rewrite Hl. apply (lookup_ver_bounds _ _ _ _ Hw) in Hl. lia.
Qed.

Lemma known_exec : known_cmd (s2b "exec") = true. Proof. vm_compute. reflexivity. Qed.
Lemma exec_is_multi : bytes_eqb (s2b "exec") (s2b "multi") = false. Proof. reflexivity. Qed.
Lemma exec_is_discard : bytes_eqb (s2b "exec") (s2b "discard") = false. Proof. reflexivity. Qed.
Lemma exec_is_watch : bytes_eqb (s2b "exec") (s2b "watch") = false. Proof. reflexivity. Qed.
Lemma exec_is_exec : bytes_eqb (s2b "exec") (s2b "exec") = true. Proof. reflexivity. Qed.

(* what EXEC (in any letter case) does *)
Lemma step_exec now st cid name0 :
  lower name0 = s2b "exec" ->
  step now st cid [name0] =
  let c := get_conn st cid in
  match c_queue c with
  | None => mkOut st (err "ERR EXEC without MULTI") false
  | Some q =>
    if c_qerr c then
      mkOut (set_conn st cid (reset_tx c)) (err "EXECABORT Transaction discarded because of previous errors.") false
    else if watch_dirty now st (c_watch c) then mkOut (set_conn st cid (reset_tx c)) RNil false
    else mkOut (fst (exec_queue now (set_conn st cid (reset_tx c)) cid q))
               (RArr (snd (exec_queue now (set_conn st cid (reset_tx c)) cid q))) false
  end.
Proof.
  intro Hl. unfold step. cbv beta iota zeta. rewrite Hl.
  rewrite known_exec, exec_is_multi, exec_is_discard, exec_is_watch, exec_is_exec.
  cbn [negb]. cbv beta iota.
  destruct (c_queue (get_conn st cid)) as [q|]; [|reflexivity].
  destruct (c_qerr (get_conn st cid)); [reflexivity|].
  destruct (watch_dirty now st (c_watch (get_conn st cid))); [reflexivity|].
  destruct (exec_queue now (set_conn st cid (reset_tx (get_conn st cid))) cid q) as [st2 rs].
  reflexivity.
Qed.

Theorem C10_exec_iff now st cid q name0 :
  lower name0 = s2b "exec" ->
  let c := get_conn st cid in
  c_queue c = Some q -> c_qerr c = false ->
  let o := step now st cid [name0] in
  ((exists rs, o_reply o = RArr rs) <-> watch_dirty now st (c_watch c) = false) /\
  (watch_dirty now st (c_watch c) = false ->
     o_st o = fst (exec_queue now (set_conn st cid (reset_tx c)) cid q) /\
     o_reply o = RArr (snd (exec_queue now (set_conn st cid (reset_tx c)) cid q))) /\
  (watch_dirty now st (c_watch c) = true ->
     o_reply o = RNil /\ s_dbs (o_st o) = s_dbs st /\ o_st o = set_conn st cid (reset_tx c)).
Proof.
  intros Hl c Hq He o. subst o. rewrite (step_exec _ _ _ _ Hl). cbv zeta. fold c.
  rewrite Hq, He. destruct (watch_dirty now st (c_watch c)); cbn [o_reply o_st].
  - split; [split; [intros [rs H]; discriminate | discriminate]|].
    split; [discriminate|]. intros _. split; [reflexivity|]. split; reflexivity.
  - split; [split; [reflexivity | intros _; eexists; reflexivity]|].
    split; [intros _; split; reflexivity | discriminate].
Qed.
Print Assumptions C10_exec_iff.

(* EXEC in terms of versions *)
Corollary C10_exec_iff_versions now st cid q :
  let c := get_conn st cid in
  c_queue c = Some q -> c_qerr c = false ->
  ((exists rs, o_reply (step now st cid [s2b "exec"]) = RArr rs) <->
   forall i k v, In (i, k, v) (c_watch c) -> ver_of now (get_db st i) k = v).
Proof.
  intros c Hq He. rewrite <- watch_dirty_false_iff.
  apply (C10_exec_iff now st cid q (s2b "exec") eq_refl Hq He).
Qed.
Print Assumptions C10_exec_iff_versions.

(* WATCH records the current versions of the named keys in the selected database *)
Lemma known_watch : known_cmd (s2b "watch") = true. Proof. vm_compute. reflexivity. Qed.
Lemma step_watch now st cid name0 k ks :
  lower name0 = s2b "watch" ->
  c_queue (get_conn st cid) = None ->
  let c := get_conn st cid in
  let o := step now st cid (name0 :: k :: ks) in
  o_reply o = ok /\ s_dbs (o_st o) = s_dbs st /\
  forall k', In k' (k :: ks) ->
    In (c_sel c, k', ver_of now (get_db st (c_sel c)) k') (c_watch (get_conn (o_st o) cid)).
Proof.
  intros Hl Hq c o. subst o. unfold step. cbv beta iota zeta. rewrite Hl, known_watch.
  replace (bytes_eqb (s2b "watch") (s2b "multi")) with false by reflexivity.
  replace (bytes_eqb (s2b "watch") (s2b "discard")) with false by reflexivity.
  replace (bytes_eqb (s2b "watch") (s2b "watch")) with true by reflexivity.
  cbn [negb]. cbv beta iota. rewrite Hq. cbn [o_reply o_st].
  split; [reflexivity|]. split; [reflexivity|].
  intros k' Hin. unfold get_conn at 1. unfold set_conn. cbn [s_conns].
  assert (Hn : forall (m : list (N * conn)) x, nget (nset m cid x) cid = Some x).
  { induction m as [|[i y] m IH]; intro x; simpl; [rewrite N.eqb_refl; reflexivity|].
    destruct (N.eqb cid i) eqn:E; simpl; [rewrite N.eqb_refl; reflexivity|]. rewrite E. apply IH. }
  rewrite Hn. cbn [c_watch]. apply in_or_app. left.
  apply (in_map (fun k0 => (c_sel (get_conn st cid), k0, ver_of now (get_db st (c_sel (get_conn st cid))) k0))).
  exact Hin.
Qed.

Example C10_exec_ex :
  let st1 := o_st (step 0 state0 1 [s2b "SET"; s2b "k"; s2b "v"]) in
  let st2 := o_st (step 0 st1 1 [s2b "WATCH"; s2b "k"]) in
  let st3 := o_st (step 0 st2 1 [s2b "MULTI"]) in
  let st4 := o_st (step 0 st3 1 [s2b "GET"; s2b "k"]) in
  (* another connection touches the key: EXEC is refused *)
  let st5 := o_st (step 0 st4 2 [s2b "APPEND"; s2b "k"; s2b "w"]) in
  o_reply (step 0 st4 1 [s2b "EXEC"]) = RArr [RBulk (s2b "v")] /\
  o_reply (step 0 st5 1 [s2b "EXEC"]) = RNil /\
  (* another connection only reads the key: EXEC runs *)
  let st6 := o_st (step 0 st4 2 [s2b "GET"; s2b "k"]) in
  o_reply (step 0 st6 1 [s2b "EXEC"]) = RArr [RBulk (s2b "v")].
Proof. vm_compute. split; [reflexivity|]. split; reflexivity. Qed.

Example C10_expired_ex :
  let st1 := o_st (step 0 state0 1 [s2b "SET"; s2b "k"; s2b "v"; s2b "PX"; s2b "5"]) in
  let st2 := o_st (step 0 st1 1 [s2b "WATCH"; s2b "k"]) in
  let st3 := o_st (step 0 st2 1 [s2b "MULTI"]) in
  o_reply (step (5 * msec) st3 1 [s2b "EXEC"]) = RArr [] /\
  o_reply (step (5 * msec + 1) st3 1 [s2b "EXEC"]) = RNil.
Proof. vm_compute. split; reflexivity. Qed.

(* ------------------------------------------------------------------ *)
(* C10.4  FLUSHDB / FLUSHALL *)
Theorem C10_flush now d k :
  ver_of now (flush_db d) k = 0%N /\
  (wf_ver d -> forall e, lookup now d k = Some e -> ver_of now (flush_db d) k <> ver_of now d k) /\
  (lookup now d k = None -> ver_of now (flush_db d) k = ver_of now d k) /\
  wf_ver (flush_db d) /\ (d_next d < d_next (flush_db d))%N.
Proof.
  assert (H0 : ver_of now (flush_db d) k = 0%N) by reflexivity.
  split; [exact H0|]. split; [|split; [|split]].
  - intros Hw e Hl. rewrite H0. unfold ver_of. rewrite Hl.
    apply (lookup_ver_bounds _ _ _ _ Hw) in Hl. lia.
  - intro Hl. rewrite H0. unfold ver_of. rewrite Hl. reflexivity.
  - intros k' e [].
  - unfold flush_db; cbn [d_next]. lia.
Qed.
Print Assumptions C10_flush.

(* so a watch on a key that was visible before the flush is dirty afterwards *)
Corollary C10_flush_dirty now st st' ws i k e :
  wf_ver (get_db st i) -> lookup now (get_db st i) k = Some e ->
  In (i, k, ver_of now (get_db st i) k) ws ->
  get_db st' i = flush_db (get_db st i) ->
  watch_dirty now st' ws = true.
Proof.
  intros Hw Hl Hin Hf. apply watch_dirty_true_iff. exists i, k, (ver_of now (get_db st i) k).
  split; [exact Hin|]. rewrite Hf.
  destruct (C10_flush now (get_db st i) k) as (_ & H & _). exact (H Hw e Hl).
Qed.
Print Assumptions C10_flush_dirty.

Lemma nget_nset_same {A} (m : list (N * A)) i x : nget (nset m i x) i = Some x.
Proof.
  induction m as [|[j y] m IH]; simpl; [rewrite N.eqb_refl; reflexivity|].
  destruct (N.eqb i j) eqn:E; simpl; [rewrite N.eqb_refl; reflexivity|]. rewrite E. apply IH.
Qed.

Lemma known_flushdb : known_cmd (s2b "flushdb") = true. Proof. vm_compute. reflexivity. Qed.

(* FLUSHDB outside MULTI replaces the selected database by its flush *)
Lemma step_flushdb now st cid :
  c_queue (get_conn st cid) = None ->
  let c := get_conn st cid in
  let o := step now st cid [s2b "flushdb"] in
  o_reply o = ok /\ get_db (o_st o) (c_sel c) = flush_db (get_db st (c_sel c)).
Proof.
  intros Hq c o. subst o c. unfold step. cbv beta iota zeta.
  replace (lower (s2b "flushdb")) with (s2b "flushdb") by reflexivity.
  rewrite known_flushdb.
  replace (bytes_eqb (s2b "flushdb") (s2b "multi")) with false by reflexivity.
  replace (bytes_eqb (s2b "flushdb") (s2b "discard")) with false by reflexivity.
  replace (bytes_eqb (s2b "flushdb") (s2b "watch")) with false by reflexivity.
  replace (bytes_eqb (s2b "flushdb") (s2b "exec")) with false by reflexivity.
  cbn [negb]. cbv beta iota. rewrite Hq. unfold run_plain.
  replace (data_cmd (s2b "flushdb")) with (@None (Z -> db -> list bytes -> res)) by reflexivity.
  replace (blocking_cmd (s2b "flushdb")) with (@None (Z -> db -> list bytes -> res)) by reflexivity.
  cbv beta iota.
  replace (session_cmd now st cid (s2b "flushdb") [])
    with (Some (set_db st (c_sel (get_conn st cid)) (flush_db (get_db st (c_sel (get_conn st cid)))), ok))
    by reflexivity.
  cbn [o_reply o_st]. split; [reflexivity|].
  unfold get_db at 1, set_db. cbn [s_dbs]. rewrite nget_nset_same. reflexivity.
Qed.

Example C10_flush_ex :
  let st1 := o_st (step 0 state0 1 [s2b "SET"; s2b "k"; s2b "v"]) in
  let st2 := o_st (step 0 st1 1 [s2b "WATCH"; s2b "k"; s2b "nokey"]) in
  let st3 := o_st (step 0 st2 1 [s2b "MULTI"]) in
  let st4 := o_st (step 0 st3 2 [s2b "FLUSHDB"]) in
  o_reply (step 0 st4 1 [s2b "EXEC"]) = RNil.
Proof. vm_compute. reflexivity. Qed.

(* ------------------------------------------------------------------ *)
(* End to end: over any run of the emulator (any connections, any commands, any clock
   readings, including MULTI/EXEC blocks, blocking commands, FLUSHDB/FLUSHALL), a watched
   version that is unchanged at EXEC time means the key looks exactly as it did at WATCH
   time; hence any observable difference makes EXEC reply nil. *)
Lemma chg_same_version now now' d d' k :
  wf_ver d -> wf_ver d' -> chg d d' ->
  ver_of now' d' k = ver_of now d k -> vis now' d' k = vis now d k.
Proof.
  intros Hw Hw' [Hn Hk] Hv. pose proof (ver_of_bounds now d k Hw) as Hb.
  destruct (Hk k) as [Hsame|[Hnone|(e & He & Hver)]].
  - unfold vis, ver_of, lookup in *. rewrite Hsame in *.
    destruct (aget (d_map d) k) as [e|] eqn:G; [|reflexivity].
    apply aget_In in G. apply Hw in G.
    destruct (expired now' e), (expired now e); try reflexivity; lia.
  - assert (L' : lookup now' d' k = None) by (unfold lookup; rewrite Hnone; reflexivity).
    unfold vis, ver_of in *. rewrite L' in *.
    destruct (lookup now d k) as [e0|] eqn:L; [|reflexivity].
    apply (lookup_ver_bounds _ _ _ _ Hw) in L. lia.
  - assert (L' : lookup now' d' k = if expired now' e then None else Some e)
      by (unfold lookup; rewrite He; reflexivity).
    unfold vis, ver_of in *. rewrite L' in *.
    destruct (expired now' e).
    + destruct (lookup now d k) as [e0|] eqn:L; [|reflexivity].
      apply (lookup_ver_bounds _ _ _ _ Hw) in L. lia.
    + lia.
Qed.

Definition st_reach (st st' : state) : Prop := forall i, reach (get_db st i) (get_db st' i).
Definition wf_st (st : state) : Prop := forall i, wf_ver (get_db st i).

Lemma st_reach_refl st : st_reach st st.
Proof. intro i. apply reach_refl. Qed.
Lemma st_reach_trans a b c : st_reach a b -> st_reach b c -> st_reach a c.
Proof. intros H1 H2 i. exact (reach_trans _ _ _ (H1 i) (H2 i)). Qed.

Lemma nget_nset_other {A} (m : list (N * A)) i j x : j <> i -> nget (nset m i x) j = nget m j.
Proof.
  intro Hne. induction m as [|[k y] m IH]; simpl.
  - apply N.eqb_neq in Hne. rewrite Hne. reflexivity.
  - destruct (N.eqb i k) eqn:E; simpl.
    + apply N.eqb_eq in E. subst k. apply N.eqb_neq in Hne. rewrite Hne. reflexivity.
    + destruct (N.eqb j k); [reflexivity|exact IH].
Qed.

Lemma st_reach_set_db st i d : reach (get_db st i) d -> st_reach st (set_db st i d).
Proof.
  intros H j. unfold get_db at 2, set_db. cbn [s_dbs]. destruct (N.eq_dec j i) as [->|Hne].
  - rewrite nget_nset_same. exact H.
  - rewrite nget_nset_other by exact Hne. apply reach_refl.
Qed.
Lemma st_reach_set_conn st c x : st_reach st (set_conn st c x).
Proof. intro i. apply reach_refl. Qed.

Lemma st_reach_flushall st :
  st_reach st (mkSt (map (fun id => (fst id, flush_db (snd id))) (s_dbs st)) (s_conns st)).
Proof.
  intro i. unfold get_db. cbn [s_dbs]. induction (s_dbs st) as [|[j d] m IH]; simpl; [apply reach_refl|].
  destruct (N.eqb i j); [apply reach_flush, reach_refl|exact IH].
Qed.
#[export] Hint Resolve st_reach_refl st_reach_set_conn st_reach_flushall : strch.

Lemma session_reach now st cid name args st' r :
  session_cmd now st cid name args = Some (st', r) -> st_reach st st'.
Proof.
  unfold session_cmd. cbv beta zeta. repeat (bm; cbv beta iota zeta).
  all: intro H; try discriminate; injection H as <- <-; auto with strch.
  all: apply st_reach_set_db, reach_flush, reach_refl.
Qed.

Lemma reach_bpop_keys lft now ks : forall d, reach d (fst (bpop_keys lft now d ks)).
Proof.
  induction ks as [|k ks IH]; cbn [bpop_keys]; intro d; [apply reach_refl|].
  pose proof (r_pop lft now d [k]) as Hp.
  destruct (cmd_pop lft now d [k]) as [d' r]. cbn [fst] in Hp.
  destruct r; cbn [fst]; auto.
Qed.

Lemma blocking_reach name f : blocking_cmd name = Some f -> forall now d a, reach d (fst (f now d a)).
Proof.
  unfold blocking_cmd. cbv beta zeta.
  repeat lazymatch goal with
  | |- (if ?b then _ else _) = _ -> _ => destruct b
  end; intro H; try discriminate; injection H as <-; intros now d a; cbv beta.
  - bms; cbn [fst]; try apply reach_refl; apply reach_bpop_keys.
  - bms; cbn [fst]; try apply reach_refl; apply reach_bpop_keys.
  - bms; cbn [fst]; try apply reach_refl; apply r_lmove.
  - bms; cbn [fst]; try apply reach_refl; apply r_rpoplpush.
  - bms; cbn [fst]; try apply reach_refl; apply r_lmpop.
Qed.

Lemma run_plain_reach now st cid name args b : st_reach st (o_st (run_plain now st cid name args b)).
Proof.
  unfold run_plain. destruct (data_cmd name) as [f|] eqn:Hf.
  - pose proof (cmd_reach _ _ Hf now (get_db st (c_sel (get_conn st cid))) args) as Hr.
    destruct (f now (get_db st (c_sel (get_conn st cid))) args) as [d' r]. cbn [fst o_st] in *.
    apply st_reach_set_db. exact Hr.
  - destruct (blocking_cmd name) as [f|] eqn:Hb.
    + pose proof (blocking_reach _ _ Hb now (get_db st (c_sel (get_conn st cid))) args) as Hr.
      destruct (f now (get_db st (c_sel (get_conn st cid))) args) as [d' r]. cbn [fst] in Hr.
      destruct r; cbn [o_st]; try (apply st_reach_set_db; exact Hr). apply st_reach_refl.
    + destruct (session_cmd now st cid name args) as [[st' r]|] eqn:Hs; cbn [o_st].
      * exact (session_reach _ _ _ _ _ _ _ Hs).
      * apply st_reach_refl.
Qed.

(* (the clock advances by one per executed queued command, hence the quantification over now) *)
Lemma exec_queue_reach cid q : forall now st, st_reach st (fst (exec_queue now st cid q)).
Proof.
  induction q as [|cmd q IH]; intros now st; cbn [exec_queue]; [apply st_reach_refl|].
  destruct cmd as [|name args]; [apply IH|].
  pose proof (IH (now + 1) (o_st (run_plain now st cid (lower name) args true))) as H.
  destruct (exec_queue (now + 1) (o_st (run_plain now st cid (lower name) args true)) cid q) as [st' rs].
  cbn [fst] in *. eapply st_reach_trans; [apply run_plain_reach|exact H].
Qed.

(* flagging an open transaction (arity error of a control command) touches no database *)
Lemma st_reach_flag_tx st cid c : st_reach st (flag_tx st cid c).
Proof. unfold flag_tx. destruct (c_queue c); [apply st_reach_set_conn | apply st_reach_refl]. Qed.

Theorem step_reach now st cid cmd : st_reach st (o_st (step now st cid cmd)).
Proof.
  unfold step. destruct cmd as [|name0 args]; [apply st_reach_refl|]. cbv beta zeta.
  repeat lazymatch goal with
  | |- st_reach _ (o_st (if ?b then _ else _)) => destruct b
  | |- st_reach _ (o_st (match ?x with _ => _ end)) => destruct x eqn:?
  end; cbn [o_st]; auto using run_plain_reach, st_reach_flag_tx with strch.
  match goal with
  | H : exec_queue ?n ?s ?c ?q = (?s2, _) |- st_reach _ ?s2 =>
      pose proof (exec_queue_reach c q n s) as Hq; rewrite H in Hq; cbn [fst] in Hq;
      eapply st_reach_trans; [|exact Hq]; auto with strch
  end.
Qed.
Print Assumptions step_reach.

(* a run: any number of commands by any connections at any clock readings *)
Inductive run : state -> state -> Prop :=
| run_nil st : run st st
| run_step st now cid cmd st' : run (o_st (step now st cid cmd)) st' -> run st st'.

Lemma run_reach st st' : run st st' -> st_reach st st'.
Proof.
  induction 1 as [|st now cid cmd st' _ IH]; [apply st_reach_refl|].
  eapply st_reach_trans; [apply step_reach|exact IH].
Qed.

Lemma wf_st_state0 : wf_st state0.
Proof. intros i k e []. Qed.

Lemma run_wf st st' : run st st' -> wf_st st -> wf_st st'.
Proof. intros Hr Hw i. exact (proj1 (reach_chg _ _ (run_reach _ _ Hr i) (Hw i))). Qed.

Theorem C10_same_version_same_key st st' now now' i k :
  wf_st st -> run st st' ->
  ver_of now' (get_db st' i) k = ver_of now (get_db st i) k ->
  vis now' (get_db st' i) k = vis now (get_db st i) k.
Proof.
  intros Hw Hr. destruct (reach_chg _ _ (run_reach _ _ Hr i) (Hw i)) as [Hw' Hc].
  apply chg_same_version; auto.
Qed.
Print Assumptions C10_same_version_same_key.

Theorem C10_watch_exec_sound st0 st now0 now cid q i k :
  wf_st st0 -> run st0 st ->
  let c := get_conn st cid in
  c_queue c = Some q -> c_qerr c = false ->
  In (i, k, ver_of now0 (get_db st0 i) k) (c_watch c) ->
  vis now (get_db st i) k <> vis now0 (get_db st0 i) k ->
  o_reply (step now st cid [s2b "exec"]) = RNil /\ s_dbs (o_st (step now st cid [s2b "exec"])) = s_dbs st.
Proof.
  intros Hw Hr c Hq He Hin Hvis.
  assert (Hd : watch_dirty now st (c_watch c) = true).
  { apply watch_dirty_true_iff. exists i, k, (ver_of now0 (get_db st0 i) k). split; [exact Hin|].
    intro Hv. apply Hvis. exact (C10_same_version_same_key st0 st now0 now i k Hw Hr Hv). }
  destruct (C10_exec_iff now st cid q (s2b "exec") eq_refl Hq He) as (_ & _ & H).
  destruct (H Hd) as (H1 & H2 & _). split; assumption.
Qed.
Print Assumptions C10_watch_exec_sound.

Example C10_watch_exec_sound_ex :
  let st1 := o_st (step 0 state0 1 [s2b "SET"; s2b "k"; s2b "v"]) in
  let st2 := o_st (step 0 st1 1 [s2b "WATCH"; s2b "k"]) in
  let st3 := o_st (step 0 st2 1 [s2b "MULTI"]) in
  (* another connection gives the watched key a deadline: the value is the same, EXEC is refused *)
  let st4 := o_st (step 7 st3 2 [s2b "EXPIRE"; s2b "k"; s2b "100"]) in
  o_reply (step 9 st4 1 [s2b "exec"]) = RNil.
Proof.
  intros st1 st2 st3 st4.
  assert (Hr0 : run state0 st1) by (apply (run_step state0 0 1 [s2b "SET"; s2b "k"; s2b "v"]); apply run_nil).
  assert (Hr : run st1 st4).
  { apply (run_step st1 0 1 [s2b "WATCH"; s2b "k"]). apply (run_step st2 0 1 [s2b "MULTI"]).
    apply (run_step st3 7 2 [s2b "EXPIRE"; s2b "k"; s2b "100"]). apply run_nil. }
  refine (proj1 (C10_watch_exec_sound st1 st4 0 9 1 [] 0%N (s2b "k")
                   (run_wf _ _ Hr0 wf_st_state0) Hr _ _ _ _)).
  - reflexivity.
  - reflexivity.
  - vm_compute. left. reflexivity.
  - vm_compute. discriminate.
Qed.
