(* Resp.v — reply values, their serialisation (respSerializer.go) and the
   RESP3 -> RESP2 down-conversion (resp.go: resp3To2). *)
From RE Require Import Base.
From Coq Require Import String.
From Coq Require Import List.
Open Scope string_scope.
Open Scope list_scope.
Open Scope Z_scope.

(* Reply values.  Besides the wire types there are three model-only markers that
   serialise like ordinary values but tell the correspondence comparator how to
   compare: RArrU (array whose order is unspecified), RApprox (integer that
   depends on the clock), RPick (random choice among candidates). *)
Inductive resp :=
| RSimple (s : bytes)
| RErr (s : bytes)
| RInt (z : Z)
| RBulk (b : bytes)
| RNil                          (* Go nil: "$-1" *)
| RNull                         (* RESP3 "_" *)
| RArr (l : list resp)
| RArrU (l : list resp)         (* unordered array (dict iteration order) *)
| RMap (l : list (resp * resp)) (* RESP3 map; dict iteration order *)
| RSet (l : list resp)
| RPairs (l : list (resp * resp)) (* array of 2-arrays in RESP3, flat in RESP2 *)
| RFlatU (l : list (resp * resp)) (* RESP2 image of a map: flat k v k v, pair order unspecified *)
| RDouble (text : bytes)
| RBool (b : bool)
| RBig (text : bytes)
| RVerb (fmt text : bytes)
| RApprox (z : Z) (unit_ms : Z)  (* clock dependent integer; unit 1 = ms, 1000 = s *)
| RPick (cands : list resp) (count : Z) (single : bool) (withvals : bool)
| RScan (cands : list resp) (paired : bool)
| RAny.                          (* reply not modelled: anything but an error *)

Definition crlf : bytes := [13%N; 10%N].

Definition line (prefix : N) (body : bytes) : bytes := prefix :: body ++ crlf.

(* CR and LF cannot appear inside a simple line *)
Definition line_safe (b : bytes) : bool :=
  forallb (fun c => negb (N.eqb c 13%N || N.eqb c 10%N)) b.

(* what the fixed serializer does to simple/error lines: CR, LF -> space *)
Definition sanitize (b : bytes) : bytes :=
  map (fun c => if (N.eqb c 13%N || N.eqb c 10%N) then 32%N else c) b.

Definition ser_bulk (b : bytes) : bytes :=
  line 36%N (N_to_bytes (N.of_nat (length b))) ++ b ++ crlf.

Definition pad3 (f : bytes) : bytes := firstn 3 (f ++ [32%N;32%N;32%N]).

Fixpoint ser (v : resp) : bytes :=
  match v with
  | RSimple s => line 43%N (sanitize s)
  | RErr s => line 45%N (sanitize s)
  | RInt z => line 58%N (Z_to_bytes z)
  | RApprox z _ => line 58%N (Z_to_bytes z)
  | RBulk b => ser_bulk b
  | RNil => s2b "$-1" ++ crlf
  | RNull => s2b "_" ++ crlf
  | RArr l | RArrU l =>
      line 42%N (N_to_bytes (N.of_nat (length l))) ++ concat (map ser l)
  | RSet l => line 126%N (N_to_bytes (N.of_nat (length l))) ++ concat (map ser l)
  | RMap l => line 37%N (N_to_bytes (N.of_nat (length l)))
              ++ concat (map (fun kv => ser (fst kv) ++ ser (snd kv)) l)
  | RPairs l => line 42%N (N_to_bytes (N.of_nat (length l)))
              ++ concat (map (fun kv => s2b "*2" ++ crlf ++ ser (fst kv) ++ ser (snd kv)) l)
  | RFlatU l => line 42%N (N_to_bytes (N.of_nat (2 * length l)))
              ++ concat (map (fun kv => ser (fst kv) ++ ser (snd kv)) l)
  | RDouble t => line 44%N t
  | RBool true => s2b "#t" ++ crlf
  | RBool false => s2b "#f" ++ crlf
  | RBig t => line 40%N t
  | RVerb f t => let body := pad3 f ++ [58%N] ++ t in
                 line 61%N (N_to_bytes (N.of_nat (length body))) ++ body ++ crlf
  | RPick _ _ _ _ => s2b "$-1" ++ crlf
  | RScan _ _ => s2b "$-1" ++ crlf
  | RAny => s2b "$-1" ++ crlf
  end.

(* resp3To2 after the fixes: double/bignum/verbatim -> bulk string, bool -> 0/1,
   map/pairs -> flat array, set -> array, null -> nil *)
Fixpoint to2 (v : resp) : resp :=
  match v with
  | RSimple _ | RErr _ | RInt _ | RBulk _ | RNil | RApprox _ _ => v
  | RNull => RNil
  | RArr l => RArr (map to2 l)
  | RArrU l => RArrU (map to2 l)
  | RSet l => RArrU (map to2 l)
  | RMap l => RFlatU (map (fun kv => (to2 (fst kv), to2 (snd kv))) l)
  | RFlatU l => RFlatU (map (fun kv => (to2 (fst kv), to2 (snd kv))) l)
  | RPairs l => RArr (flat_map (fun kv => [to2 (fst kv); to2 (snd kv)]) l)
  | RDouble t => RBulk t
  | RBool b => RInt (if b then 1 else 0)
  | RBig t => RBulk t
  | RVerb _ t => RBulk t
  | RPick _ _ _ _ => v
  | RScan _ _ => v
  | RAny => v
  end.
