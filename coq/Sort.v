(* Sort.v — the SORT command (redisCore.go: fnSort; dataStoreCommands.go: sort), as Redis 7
   defines it (sort.c: sortCommand, lookupKeyByPattern):
     SORT key [BY pattern] [LIMIT offset count] [GET pattern ...] [ASC|DESC] [ALPHA] [STORE dest]
   Scores are decimal numbers (optional sign, digits, optional fraction), compared exactly;
   exponent / hex / inf / nan forms and strings that round to the same double are outside
   the modelled domain (they are reported as not convertible). *)
From RE Require Import Base Resp State Exec.
From Coq Require Import String.
From Coq Require Import List.
Open Scope string_scope.
Open Scope list_scope.
Open Scope Z_scope.

(* ---------- scores ---------- *)
(* value = sc_m / 10^sc_k *)
Record score := mkSc { sc_m : Z; sc_k : nat }.

Definition sdigit (c : N) : bool := (N.leb 48 c && N.leb c 57)%bool.

Fixpoint digits_val (l : list N) (acc : Z) : option Z :=
  match l with
  | [] => Some acc
  | c :: r => if sdigit c then digits_val r (acc * 10 + Z.of_N (c - 48)) else None
  end.

Fixpoint split_dot (l : list N) : list N * option (list N) :=
  match l with
  | [] => ([], None)
  | c :: r => if N.eqb c 46 then ([], Some r)
              else let '(a, b) := split_dot r in (c :: a, b)
  end.

Definition parse_score (b : bytes) : option score :=
  let '(neg, body) := match b with
                      | 45%N :: r => (true, r)
                      | 43%N :: r => (false, r)
                      | _ => (false, b)
                      end in
  let '(ip, fp) := split_dot body in
  let fpd := match fp with Some f => f | None => [] end in
  match ip, fpd with
  | [], [] => None                       (* "", "-", "." *)
  | _, _ =>
    match digits_val (ip ++ fpd) 0 with
    | Some m => Some (mkSc (if neg then - m else m) (length fpd))
    | None => None
    end
  end.

Definition score_cmp (a b : score) : comparison :=
  Z.compare (sc_m a * 10 ^ Z.of_nat (sc_k b)) (sc_m b * 10 ^ Z.of_nat (sc_k a)).

Definition bytes_cmp (a b : bytes) : comparison :=
  if bytes_eqb a b then Eq else if bytes_ltb a b then Lt else Gt.

(* ---------- pattern lookup (lookupKeyByPattern) ---------- *)
Fixpoint split_star (p : list N) : option (list N * list N) :=
  match p with
  | [] => None
  | c :: r => if N.eqb c 42 then Some ([], r)
              else match split_star r with Some (a, b) => Some (c :: a, b) | None => None end
  end.

(* first "->" in l that is followed by at least one byte: (before, field) *)
Fixpoint split_arrow (l : list N) : option (list N * list N) :=
  match l with
  | [] => None
  | c :: r =>
    match c, r with
    | 45%N, 62%N :: (f0 :: fr) => Some ([], f0 :: fr)
    | _, _ => match split_arrow r with Some (a, f) => Some (c :: a, f) | None => None end
    end
  end.

(* the value a pattern designates for an element: "#" is the element itself; the first '*'
   is replaced by the element; "key->field" reads a hash field; anything else: nothing *)
Definition pattern_get (now : Z) (d : db) (pat elem : bytes) : option bytes :=
  if bytes_eqb pat [35%N] then Some elem else
  match split_star pat with
  | None => None
  | Some (pre, post) =>
    match split_arrow post with
    | Some (post', fld) =>
      match lookup now d (pre ++ elem ++ post') with
      | Some e => match hash_of e with Some h => aget h fld | None => None end
      | None => None
      end
    | None =>
      match lookup now d (pre ++ elem ++ post) with
      | Some e => str_of e
      | None => None
      end
    end
  end.

(* ---------- options ---------- *)
Record sortopts := mkSoO { st_by : option bytes; st_limit : option (Z * Z); st_gets : list bytes;
                          st_desc : bool; st_alpha : bool; st_store : option bytes }.
Definition st0 := mkSoO None None [] false false None.

Inductive sortscan := SOk (o : sortopts) | SSyntax | SNotInt.

Fixpoint scan_sort (args : list bytes) (o : sortopts) : sortscan :=
  match args with
  | [] => SOk o
  | a :: r =>
    if is_kw a "ASC" then scan_sort r (mkSoO (st_by o) (st_limit o) (st_gets o) false (st_alpha o) (st_store o))
    else if is_kw a "DESC" then scan_sort r (mkSoO (st_by o) (st_limit o) (st_gets o) true (st_alpha o) (st_store o))
    else if is_kw a "ALPHA" then scan_sort r (mkSoO (st_by o) (st_limit o) (st_gets o) (st_desc o) true (st_store o))
    else if is_kw a "LIMIT" then
      match r with
      | x :: y :: r' =>
        match parse_i64 x, parse_i64 y with
        | Some s, Some c => scan_sort r' (mkSoO (st_by o) (Some (s, c)) (st_gets o) (st_desc o) (st_alpha o) (st_store o))
        | _, _ => SNotInt
        end
      | _ => SSyntax
      end
    else if is_kw a "STORE" then
      match r with
      | k :: r' => scan_sort r' (mkSoO (st_by o) (st_limit o) (st_gets o) (st_desc o) (st_alpha o) (Some k))
      | [] => SSyntax
      end
    else if is_kw a "BY" then
      match r with
      | p :: r' => scan_sort r' (mkSoO (Some p) (st_limit o) (st_gets o) (st_desc o) (st_alpha o) (st_store o))
      | [] => SSyntax
      end
    else if is_kw a "GET" then
      match r with
      | p :: r' => scan_sort r' (mkSoO (st_by o) (st_limit o) (st_gets o ++ [p]) (st_desc o) (st_alpha o) (st_store o))
      | [] => SSyntax
      end
    else SSyntax
  end.

(* ---------- ordering ---------- *)
(* an element with its sort key: a score (numeric), a weight string or nothing (ALPHA BY) *)
Inductive skey := KNum (s : score) | KStr (w : option bytes).

Definition skey_cmp (a b : skey) : comparison :=
  match a, b with
  | KNum x, KNum y => score_cmp x y
  | KStr None, KStr None => Eq
  | KStr None, KStr (Some _) => Lt
  | KStr (Some _), KStr None => Gt
  | KStr (Some x), KStr (Some y) => bytes_cmp x y
  | KNum _, KStr _ => Lt
  | KStr _, KNum _ => Gt
  end.

(* equal keys are ordered by the element itself *)
Definition item_le (desc : bool) (a b : skey * bytes) : bool :=
  let c := match skey_cmp (fst a) (fst b) with
           | Eq => bytes_cmp (snd a) (snd b)
           | c => c
           end in
  match c with
  | Lt => negb desc
  | Eq => true
  | Gt => desc
  end.

Fixpoint insert_item (desc : bool) (x : skey * bytes) (l : list (skey * bytes)) : list (skey * bytes) :=
  match l with
  | [] => [x]
  | y :: r => if item_le desc x y then x :: l else y :: insert_item desc x r
  end.

Definition sort_items (desc : bool) (l : list (skey * bytes)) : list (skey * bytes) :=
  fold_right (insert_item desc) [] l.

(* the sort key of every element; None = a score cannot be converted *)
Fixpoint keyed (now : Z) (d : db) (by_ : option bytes) (alpha : bool) (l : list bytes)
  : option (list (skey * bytes)) :=
  match l with
  | [] => Some []
  | x :: r =>
    let w := match by_ with Some p => pattern_get now d p x | None => Some x end in
    let k := if alpha then Some (KStr w)
             else match w with
                  | None => Some (KNum (mkSc 0 0))      (* no weight: score 0 *)
                  | Some wb => match parse_score wb with Some s => Some (KNum s) | None => None end
                  end in
    match k, keyed now d by_ alpha r with
    | Some k', Some rest => Some ((k', x) :: rest)
    | _, _ => None
    end
  end.

(* LIMIT offset count over n elements: the window [start, start+len) *)
Definition limit_window (n : Z) (lim : option (Z * Z)) : Z * Z :=
  match lim with
  | None => (0, n)
  | Some (off, cnt) =>
    let start := if off <? 0 then 0 else off in
    let stop := if cnt <? 0 then n - 1 else start + cnt - 1 in
    if n <=? start then (0, 0) else
    let stop := if n <=? stop then n - 1 else stop in
    (start, if stop <? start then 0 else stop - start + 1)
  end.

Definition window {A} (l : list A) (w : Z * Z) : list A :=
  firstn (Z.to_nat (snd w)) (skipn (Z.to_nat (fst w)) l).

Definition has_star (p : bytes) : bool := match split_star p with Some _ => true | None => false end.

Inductive source := SrcList (l : list bytes) | SrcSet (s : list bytes) | SrcNone | SrcWrong.

Definition sort_source (now : Z) (d : db) (k : bytes) : source :=
  match lookup now d k with
  | None => SrcNone
  | Some e => match e_val e with
              | VList l => SrcList l
              | VSet s => SrcSet s
              | _ => SrcWrong
              end
  end.

Definition out_elems (now : Z) (d : db) (gets : list bytes) (elems : list bytes) : list (option bytes) :=
  match gets with
  | [] => map Some elems
  | _ => flat_map (fun x => map (fun p => pattern_get now d p x) gets) elems
  end.

Definition opt_resp (o : option bytes) : resp := match o with Some b => RBulk b | None => RNil end.
Definition opt_bytes (o : option bytes) : bytes := match o with Some b => b | None => [] end.

Definition cmd_sort (now : Z) (d : db) (args : list bytes) : res :=
  match args with
  | k :: opts =>
    match scan_sort opts st0 with
    | SSyntax => (d, syntaxerr)
    | SNotInt => (d, notint)
    | SOk o =>
      let src := sort_source now d k in
      match src with
      | SrcWrong => (d, wrongtype)
      | _ =>
        let elems := match src with SrcList l => l | SrcSet s => s | _ => [] end in
        let is_set := match src with SrcSet _ => true | _ => false end in
        let nosort := match st_by o with Some p => negb (has_star p) | None => false end in
        (* a set has no order of its own: when the result is stored it is sorted as text *)
        let force := nosort && is_set && (match st_store o with Some _ => true | None => false end) in
        let by_ := if force then None else st_by o in
        let alpha := if force then true else st_alpha o in
        let nosort := if force then false else nosort in
        let ordered : option (list bytes) :=
          if nosort then Some elems
          else match keyed now d by_ alpha elems with
               | Some ks => Some (map snd (sort_items (st_desc o) ks))
               | None => None
               end in
        match ordered with
        | None => (d, err "ERR One or more scores can't be converted into double")
        | Some l =>
          let sel := window l (limit_window (Zlen l) (st_limit o)) in
          let out := out_elems now d (st_gets o) sel in
          match st_store o with
          | Some dst => (put_list d dst (map opt_bytes out) None, RInt (Zlen out))
          | None =>
            if nosort && is_set then
              (* iteration order of the table: any order; with a window or GETs, any reply *)
              match st_limit o, st_gets o with
              | None, [] => (d, RArrU (map opt_resp out))
              | _, _ => (d, RAny)
              end
            else (d, RArr (map opt_resp out))
          end
        end
      end
    end
  | _ => (d, argerr)
  end.
