(* PropC19.v — DURABILITY of the persist path (model: Persist.v).

   Property C19: "After a clean shutdown and a restart on the same path every database
   holds exactly the keys, types, values, element order and expiry deadlines that were
   acknowledged before shutdown - including changes made in place (LSET, SREM, EXPIRE,
   PERSIST ...) and including deletions and flushes, which must not reappear.  A save
   interrupted at any point leaves files that load as either the previous or the new
   snapshot of each database, never as a partial, mixed or empty one."

   Main theorems
     C19_roundtrip            load (snapshot d) = Some (clean d)            (every field of every entry)
     C19_truncated_fails      a snapshot cut short anywhere does not load   (+ _strong: no side condition)
     C19_snapshot_inj         two databases with the same snapshot are the same database
     C19_dirty_complete       every command of [data_cmd] either returns the database record
                              unchanged or marks it dirty; C19_flush_dirty
     C19_synced_init/_step/_run   the saver invariant
     C19_restart              restart (tick (prun es p0)) = clean (p_db (prun es p0))  for EVERY history
     C19_restart_lookup       ... hence every key reads the same after the restart
     C19_restart_after_tick   the same at any moment at which the saver has just run
     C19_crash_old / _new / C19_crash_atomic / _snap / _absent
                              the temporary-file-and-rename save is atomic under a crash at any point
     C19_inplace_refuted      the ORIGINAL truncate-and-rewrite save is not (concrete witness)
     C19_inplace_window       ... in fact EVERY crash strictly inside an in-place save leaves a file
                              that fails to load (the server then starts with an empty database)
     C19_kill_loses_only_unsaved  a kill at any moment restarts into the state the last saver run saw
     C19_save_writes_snapshot, C19_crash_during_save
                              saver state and file operations combined: a kill during the (shutdown)
                              save restarts into the previously saved state or the current one
     C19_restart_wf, C19_restart_fresh_version
                              the restarted database is a well-formed keyspace (PropC06.wf_db)        *)
From RE Require Import Base Resp State Exec Exec2 Bits Lcs Sort Fnum Dispatch Lemmas Persist PropC06.
From Coq Require Import String List ZArith NArith Lia Bool.
Import ListNotations.
Open Scope string_scope.
Open Scope list_scope.
Open Scope Z_scope.

(* ================================================================== *)
(* 1. snapshot / load round trip                                       *)
(* ================================================================== *)
Lemma keys_of_map m : keys_of (map rec_of m) = Some m.
Proof.
  induction m as [|[k [v x n]] m IH]; [reflexivity|].
  cbn [map]. unfold rec_of at 1. cbn [fst snd e_val e_exp e_ver keys_of].
  rewrite IH. reflexivity.
Qed.

Lemma keys_of_length rs : forall m, keys_of rs = Some m -> length m = length rs.
Proof.
  induction rs as [|r rs IH]; intros m H; cbn [keys_of] in H.
  - injection H as <-. reflexivity.
  - destruct r as [c nx|k ver exp v]; [discriminate|].
    destruct (keys_of rs) as [m'|] eqn:E; [|discriminate].
    injection H as <-. cbn [length]. f_equal. apply IH. reflexivity.
Qed.

(* THEOREM.  Everything comes back: the key order, every value of every type with its element
   order, every deadline, every version, and the object counter.  Only the dirty flag is reset. *)
Theorem C19_roundtrip : forall d, load (snapshot d) = Some (clean d).
Proof.
  intro d. unfold load, snapshot. rewrite Nat2N.id.
  rewrite firstn_all2 by (rewrite map_length; lia).
  rewrite keys_of_map. rewrite Nat.eqb_refl. reflexivity.
Qed.
Print Assumptions C19_roundtrip.

Definition ex_db : db :=
  mkDb [ (s2b "s", mkE (VStr (s2b "v")) (Some 77) 4%N);
         (s2b "l", mkE (VList [s2b "b"; s2b "a"; s2b "b"]) None 2%N);
         (s2b "h", mkE (VHash [(s2b "f", s2b "1"); (s2b "g", s2b "2")]) (Some 5) 9%N);
         (s2b "t", mkE (VSet [s2b "y"; s2b "x"]) None 7%N) ] 9%N true.

Example C19_roundtrip_ex :
  load (snapshot ex_db) = Some (mkDb (d_map ex_db) 9%N false)
  /\ length (snapshot ex_db) = 5%nat.
Proof. vm_compute. split; reflexivity. Qed.

(* Two databases that produce the same snapshot agree on everything but the dirty flag. *)
Corollary C19_snapshot_inj : forall d1 d2, snapshot d1 = snapshot d2 -> clean d1 = clean d2.
Proof.
  intros d1 d2 H. pose proof (C19_roundtrip d1) as H1. rewrite H in H1.
  rewrite C19_roundtrip in H1. congruence.
Qed.

(* THEOREM.  A file that is a proper prefix of a snapshot never loads — it is never taken for a
   smaller database.  (The Go loader turns the failure into an empty database.) *)
Theorem C19_truncated_fails_strong : forall d rs q,
  q <> [] -> rs ++ q = snapshot d -> load rs = None.
Proof.
  intros d rs q Hq H. destruct rs as [|r rs]; [reflexivity|].
  unfold snapshot in H. cbn [app] in H. injection H as Hh Ht. subst r.
  unfold load. rewrite Nat2N.id.
  destruct (keys_of (firstn (length (d_map d)) rs)) as [m|] eqn:E; [|reflexivity].
  apply keys_of_length in E. rewrite firstn_length in E.
  assert (Hl : (length rs + length q = length (d_map d))%nat).
  { rewrite <- app_length, Ht, map_length. reflexivity. }
  assert (Hq' : (0 < length q)%nat) by (destruct q; [congruence | cbn; lia]).
  destruct (Nat.eqb_spec (length m) (length (d_map d))) as [Heq|Hne]; [lia | reflexivity].
Qed.

Theorem C19_truncated_fails : forall d rs,
  d_map d <> [] -> (exists q, q <> [] /\ rs ++ q = snapshot d) -> load rs = None.
Proof.
  intros d rs _ [q [Hq H]]. exact (C19_truncated_fails_strong d rs q Hq H).
Qed.
Print Assumptions C19_truncated_fails.

Example C19_truncated_ex :
  load (firstn 3 (snapshot ex_db)) = None /\ load (firstn 1 (snapshot ex_db)) = None /\ load [] = None.
Proof. vm_compute. repeat split; reflexivity. Qed.

Lemma snapshot_clean d : snapshot (clean d) = snapshot d.
Proof. reflexivity. Qed.

Lemma lookup_clean now d k : lookup now (clean d) k = lookup now d k.
Proof. reflexivity. Qed.

(* ================================================================== *)
(* 2. every command either changes nothing or marks the db dirty       *)
(* ================================================================== *)
Definition dok (d d' : db) : Prop := d' = d \/ d_dirty d' = true.
Definition dres (d : db) (r : res) : Prop := dok d (fst r).
Definition dcmd (f : cmd) : Prop := forall now d args, dres d (f now d args).

Lemma dok_refl d : dok d d.
Proof. left. reflexivity. Qed.
Lemma dok_put d d1 k v e : dok d (put d1 k v e).
Proof. right. reflexivity. Qed.
Lemma dok_del d d1 k : dok d (del d1 k).
Proof. right. reflexivity. Qed.
Lemma dok_put_or_del d d1 k v e : dok d (put_or_del d1 k v e).
Proof. right. unfold put_or_del. destruct (is_empty_agg v); reflexivity. Qed.
Lemma dok_put_list d d1 k l e : dok d (put_list d1 k l e).
Proof. apply dok_put_or_del. Qed.
Lemma dok_put_hash d d1 k l e : dok d (put_hash d1 k l e).
Proof. apply dok_put_or_del. Qed.
Lemma dok_put_set d d1 k l e : dok d (put_set d1 k l e).
Proof. apply dok_put_or_del. Qed.
Lemma dok_set_exp d d1 k e x : dok d (set_exp d1 k e x).
Proof. right. reflexivity. Qed.
Lemma dok_update d now d1 k v : dok d (update now d1 k v).
Proof. unfold update. destruct (lookup now d1 k); apply dok_put_or_del. Qed.
Lemma dok_store_str_or_del d k b : dok d (store_str_or_del d k b).
Proof.
  unfold store_str_or_del. destruct b; [|apply dok_put].
  destruct (aget (d_map d) k); [apply dok_del | apply dok_refl].
Qed.
(* once dirty, a later step cannot hide it *)
Lemma dok_trans d d1 d2 : dok d d1 -> dok d1 d2 -> dok d d2.
Proof.
  intros [->|H1] [->|H2]; try (left; reflexivity); right; assumption.
Qed.

Create HintDb c19.
#[export] Hint Resolve dok_refl dok_put dok_del dok_put_or_del dok_put_list dok_put_hash
  dok_put_set dok_set_exp dok_update dok_store_str_or_del : c19.

Ltac hs19 t :=
  lazymatch t with
  | fst ?x => hs19 x
  | snd ?x => hs19 x
  | match ?x with _ => _ end => hs19 x
  | _ => t
  end.

Ltac dok_leaf :=
  unfold dres; cbn [fst];
  repeat (lazymatch goal with
          | |- dok _ (match _ with _ => _ end) =>
            match goal with |- dok _ ?T => let x := hs19 T in destruct x end
          end);
  auto with c19.

Ltac dres_step :=
  lazymatch goal with
  | |- dres _ (match _ with _ => _ end) =>
    match goal with |- dres _ ?T => let x := hs19 T in destruct x end
  | |- dres _ (_, _) => dok_leaf
  | |- _ => solve [auto with c19]
  end.

Ltac dres_cmd := intros; cbv beta zeta; repeat dres_step.

Lemma set_core_d now d k v o : dres d (set_core now d k v o).
Proof. unfold set_core. dres_cmd. Qed.
Lemma incr_core_d now d k dl : dres d (incr_core now d k dl).
Proof. unfold incr_core. dres_cmd. Qed.
Lemma lmove_core_d now d s t a b : dres d (lmove_core now d s t a b).
Proof. unfold lmove_core. dres_cmd. Qed.
Lemma expire_core_d now d k t c : dres d (expire_core now d k t c).
Proof. unfold expire_core. dres_cmd. Qed.
Lemma lmpop_keys_d now d keys lft c : dres d (lmpop_keys now d keys lft c).
Proof.
  induction keys as [|k r IH]; cbn [lmpop_keys]; [dres_cmd | ].
  destruct (get_list now d k) as [[[l exp]|]|]; [ | exact IH | dres_cmd ].
  dres_cmd.
Qed.
#[export] Hint Resolve set_core_d incr_core_d lmove_core_d expire_core_d lmpop_keys_d : c19.

Lemma mset_fold_d ps : forall d0 d, dok d0 d ->
  dok d0 (fold_left (fun d kv => put d (fst kv) (VStr (snd kv)) None) ps d).
Proof.
  induction ps as [|p ps IH]; intros d0 d H; cbn [fold_left]; [exact H|].
  apply IH. apply dok_put.
Qed.

Lemma del_fold_d now args : forall d0 d r, dok d0 d ->
  dok d0 (fst (fold_left (fun (acc : db * resp) k => let '(d, r) := acc in
               match r with
               | RInt n => match lookup now d k with
                           | Some _ => (del d k, RInt (n + 1))
                           | None => (d, RInt n)
                           end
               | _ => acc
               end) args (d, r))).
Proof.
  induction args as [|k a IH]; intros d0 d r H; cbn [fold_left]; [exact H|].
  destruct r; try (apply IH; exact H).
  destruct (lookup now d k); apply IH; [apply dok_del | exact H].
Qed.

Lemma cmd_set_d : dcmd cmd_set.
Proof. unfold dcmd, cmd_set. dres_cmd. Qed.
Lemma cmd_setnx_d : dcmd cmd_setnx.
Proof. unfold dcmd, cmd_setnx. dres_cmd. Qed.
Lemma cmd_setex_d u : dcmd (cmd_setex u).
Proof. unfold dcmd, cmd_setex. dres_cmd. Qed.
Lemma cmd_get_d : dcmd cmd_get.
Proof. unfold dcmd, cmd_get. dres_cmd. Qed.
Lemma cmd_getset_d : dcmd cmd_getset.
Proof. unfold dcmd, cmd_getset. dres_cmd. Qed.
Lemma cmd_getdel_d : dcmd cmd_getdel.
Proof. unfold dcmd, cmd_getdel. dres_cmd. Qed.
Lemma cmd_getex_d : dcmd cmd_getex.
Proof. unfold dcmd, cmd_getex. dres_cmd. Qed.
Lemma cmd_append_d : dcmd cmd_append.
Proof. unfold dcmd, cmd_append. dres_cmd. Qed.
Lemma cmd_strlen_d : dcmd cmd_strlen.
Proof. unfold dcmd, cmd_strlen. dres_cmd. Qed.
Lemma cmd_getrange_d : dcmd cmd_getrange.
Proof. unfold dcmd, cmd_getrange. dres_cmd. Qed.
Lemma cmd_setrange_d : dcmd cmd_setrange.
Proof. unfold dcmd, cmd_setrange. dres_cmd. Qed.
Lemma cmd_incr_d dl : dcmd (cmd_incr dl).
Proof. unfold dcmd, cmd_incr. dres_cmd. Qed.
Lemma cmd_incrby_d sg : dcmd (cmd_incrby sg).
Proof. unfold dcmd, cmd_incrby. dres_cmd. Qed.
Lemma cmd_mget_d : dcmd cmd_mget.
Proof. unfold dcmd, cmd_mget. dres_cmd. Qed.
Lemma cmd_mset_d : dcmd cmd_mset.
Proof.
  unfold dcmd, cmd_mset. intros now d args.
  destruct args as [|a r]; [apply dok_refl|].
  destruct (pairs_of (a :: r)) as [ps|]; [|apply dok_refl].
  unfold dres. cbn [fst]. apply mset_fold_d. apply dok_refl.
Qed.
Lemma cmd_msetnx_d : dcmd cmd_msetnx.
Proof.
  unfold dcmd, cmd_msetnx. intros now d args.
  destruct args as [|a r]; [apply dok_refl|].
  destruct (pairs_of (a :: r)) as [ps|]; [|apply dok_refl].
  destruct (existsb _ ps); [apply dok_refl|].
  unfold dres. cbn [fst]. apply mset_fold_d. apply dok_refl.
Qed.
Lemma cmd_push_d a b : dcmd (cmd_push a b).
Proof. unfold dcmd, cmd_push. dres_cmd. Qed.
Lemma cmd_pop_d a : dcmd (cmd_pop a).
Proof. unfold dcmd, cmd_pop. dres_cmd. Qed.
Lemma cmd_llen_d : dcmd cmd_llen.
Proof. unfold dcmd, cmd_llen. dres_cmd. Qed.
Lemma cmd_lindex_d : dcmd cmd_lindex.
Proof. unfold dcmd, cmd_lindex. dres_cmd. Qed.
Lemma cmd_lrange_d : dcmd cmd_lrange.
Proof. unfold dcmd, cmd_lrange. dres_cmd. Qed.
Lemma cmd_lset_d : dcmd cmd_lset.
Proof. unfold dcmd, cmd_lset. dres_cmd. Qed.
Lemma cmd_linsert_d : dcmd cmd_linsert.
Proof. unfold dcmd, cmd_linsert. dres_cmd. Qed.
Lemma cmd_lrem_d : dcmd cmd_lrem.
Proof. unfold dcmd, cmd_lrem. dres_cmd. Qed.
Lemma cmd_ltrim_d : dcmd cmd_ltrim.
Proof. unfold dcmd, cmd_ltrim. dres_cmd. Qed.
Lemma cmd_lpos_d : dcmd cmd_lpos.
Proof. unfold dcmd, cmd_lpos. dres_cmd. Qed.
Lemma cmd_lmove_d : dcmd cmd_lmove.
Proof. unfold dcmd, cmd_lmove. dres_cmd. Qed.
Lemma cmd_rpoplpush_d : dcmd cmd_rpoplpush.
Proof. unfold dcmd, cmd_rpoplpush. dres_cmd. Qed.
Lemma cmd_lmpop_d : dcmd cmd_lmpop.
Proof. unfold dcmd, cmd_lmpop. dres_cmd. Qed.
Lemma cmd_hset_d m : dcmd (cmd_hset m).
Proof. unfold dcmd, cmd_hset. dres_cmd. Qed.
Lemma cmd_hget_d : dcmd cmd_hget.
Proof. unfold dcmd, cmd_hget. dres_cmd. Qed.
Lemma cmd_hmget_d : dcmd cmd_hmget.
Proof. unfold dcmd, cmd_hmget. dres_cmd. Qed.
Lemma cmd_hgetall_d : dcmd cmd_hgetall.
Proof. unfold dcmd, cmd_hgetall. dres_cmd. Qed.
Lemma cmd_hkeys_d b : dcmd (cmd_hkeys b).
Proof. unfold dcmd, cmd_hkeys. dres_cmd. Qed.
Lemma cmd_hlen_d : dcmd cmd_hlen.
Proof. unfold dcmd, cmd_hlen. dres_cmd. Qed.
Lemma cmd_hexists_d b : dcmd (cmd_hexists b).
Proof. unfold dcmd, cmd_hexists. dres_cmd. Qed.
Lemma cmd_hdel_d : dcmd cmd_hdel.
Proof. unfold dcmd, cmd_hdel. dres_cmd. Qed.
Lemma cmd_hincrby_d : dcmd cmd_hincrby.
Proof. unfold dcmd, cmd_hincrby. dres_cmd. Qed.
Lemma cmd_hrandfield_d : dcmd cmd_hrandfield.
Proof. unfold dcmd, cmd_hrandfield. dres_cmd. Qed.
Lemma cmd_hscan_d : dcmd cmd_hscan.
Proof. unfold dcmd, cmd_hscan. dres_cmd. Qed.
Lemma cmd_sadd_d : dcmd cmd_sadd.
Proof. unfold dcmd, cmd_sadd. dres_cmd. Qed.
Lemma cmd_srem_d : dcmd cmd_srem.
Proof. unfold dcmd, cmd_srem. dres_cmd. Qed.
Lemma cmd_scard_d : dcmd cmd_scard.
Proof. unfold dcmd, cmd_scard. dres_cmd. Qed.
Lemma cmd_sismember_d : dcmd cmd_sismember.
Proof. unfold dcmd, cmd_sismember. dres_cmd. Qed.
Lemma cmd_smismember_d : dcmd cmd_smismember.
Proof. unfold dcmd, cmd_smismember. dres_cmd. Qed.
Lemma cmd_smembers_d : dcmd cmd_smembers.
Proof. unfold dcmd, cmd_smembers. dres_cmd. Qed.
Lemma cmd_smove_d : dcmd cmd_smove.
Proof. unfold dcmd, cmd_smove. dres_cmd. Qed.
Lemma cmd_srandmember_d : dcmd cmd_srandmember.
Proof. unfold dcmd, cmd_srandmember. dres_cmd. Qed.
Lemma cmd_sscan_d : dcmd cmd_sscan.
Proof. unfold dcmd, cmd_sscan. dres_cmd. Qed.
Lemma cmd_setop_d o : dcmd (cmd_setop o).
Proof. unfold dcmd, cmd_setop. dres_cmd. Qed.
Lemma cmd_setop_store_d o : dcmd (cmd_setop_store o).
Proof. unfold dcmd, cmd_setop_store. dres_cmd. Qed.
Lemma cmd_sintercard_d : dcmd cmd_sintercard.
Proof. unfold dcmd, cmd_sintercard. dres_cmd. Qed.
Lemma cmd_del_d : dcmd cmd_del.
Proof.
  unfold dcmd, cmd_del. intros now d args. destruct args as [|a r]; [apply dok_refl|].
  unfold dres. apply del_fold_d. apply dok_refl.
Qed.
Lemma cmd_exists_d : dcmd cmd_exists.
Proof. unfold dcmd, cmd_exists. dres_cmd. Qed.
Lemma cmd_touch_d : dcmd cmd_touch.
Proof. exact cmd_exists_d. Qed.
Lemma cmd_type_d : dcmd cmd_type.
Proof. unfold dcmd, cmd_type. dres_cmd. Qed.
Lemma cmd_rename_d nx : dcmd (cmd_rename nx).
Proof. unfold dcmd, cmd_rename. dres_cmd. Qed.
Lemma cmd_copy_d : dcmd cmd_copy.
Proof. unfold dcmd, cmd_copy. dres_cmd. Qed.
Lemma cmd_keys_d : dcmd cmd_keys.
Proof. unfold dcmd, cmd_keys. dres_cmd. Qed.
Lemma cmd_randomkey_d : dcmd cmd_randomkey.
Proof. unfold dcmd, cmd_randomkey. dres_cmd. Qed.
Lemma cmd_dbsize_d : dcmd cmd_dbsize.
Proof. unfold dcmd, cmd_dbsize. dres_cmd. Qed.
Lemma cmd_scan_d : dcmd cmd_scan.
Proof. unfold dcmd, cmd_scan. dres_cmd. Qed.
Lemma cmd_expire_d u r : dcmd (cmd_expire u r).
Proof. unfold dcmd, cmd_expire. dres_cmd. Qed.
Lemma cmd_ttl_d u r : dcmd (cmd_ttl u r).
Proof. unfold dcmd, cmd_ttl. dres_cmd. Qed.
Lemma cmd_persist_d : dcmd cmd_persist.
Proof. unfold dcmd, cmd_persist. dres_cmd. Qed.
Lemma cmd_setbit_d : dcmd cmd_setbit.
Proof. unfold dcmd, cmd_setbit. dres_cmd. Qed.
Lemma cmd_getbit_d : dcmd cmd_getbit.
Proof. unfold dcmd, cmd_getbit. dres_cmd. Qed.
Lemma cmd_bitcount_d : dcmd cmd_bitcount.
Proof. unfold dcmd, cmd_bitcount. dres_cmd. Qed.
Lemma cmd_bitpos_d : dcmd cmd_bitpos.
Proof. unfold dcmd, cmd_bitpos. dres_cmd. Qed.
Lemma cmd_bitop_d : dcmd cmd_bitop.
Proof. unfold dcmd, cmd_bitop. dres_cmd. Qed.
Lemma cmd_bitfield_d ro : dcmd (cmd_bitfield ro).
Proof. unfold dcmd, cmd_bitfield. dres_cmd. Qed.
Lemma cmd_lcs_d : dcmd cmd_lcs.
Proof. unfold dcmd, cmd_lcs. dres_cmd. Qed.
Lemma cmd_sort_d : dcmd cmd_sort.
Proof. unfold dcmd, cmd_sort. dres_cmd. Qed.
Lemma cmd_incrbyfloat_d : dcmd cmd_incrbyfloat.
Proof. unfold dcmd, cmd_incrbyfloat. dres_cmd. Qed.
Lemma cmd_hincrbyfloat_d : dcmd cmd_hincrbyfloat.
Proof. unfold dcmd, cmd_hincrbyfloat. dres_cmd. Qed.

#[export] Hint Resolve cmd_set_d cmd_setnx_d cmd_setex_d cmd_get_d cmd_getset_d cmd_getdel_d
  cmd_getex_d cmd_append_d cmd_strlen_d cmd_getrange_d cmd_setrange_d cmd_incr_d cmd_incrby_d
  cmd_mget_d cmd_mset_d cmd_msetnx_d cmd_push_d cmd_pop_d cmd_llen_d cmd_lindex_d cmd_lrange_d
  cmd_lset_d cmd_linsert_d cmd_lrem_d cmd_ltrim_d cmd_lpos_d cmd_lmove_d cmd_rpoplpush_d
  cmd_lmpop_d cmd_hset_d cmd_hget_d cmd_hmget_d cmd_hgetall_d cmd_hkeys_d cmd_hlen_d
  cmd_hexists_d cmd_hdel_d cmd_hincrby_d cmd_hrandfield_d cmd_hscan_d cmd_sadd_d cmd_srem_d
  cmd_scard_d cmd_sismember_d cmd_smismember_d cmd_smembers_d cmd_smove_d cmd_srandmember_d
  cmd_sscan_d cmd_setop_d cmd_setop_store_d cmd_sintercard_d cmd_del_d cmd_exists_d cmd_touch_d
  cmd_type_d cmd_rename_d cmd_copy_d cmd_keys_d cmd_randomkey_d cmd_dbsize_d cmd_scan_d
  cmd_expire_d cmd_ttl_d cmd_persist_d cmd_setbit_d cmd_getbit_d cmd_bitcount_d cmd_bitpos_d
  cmd_bitop_d cmd_bitfield_d cmd_lcs_d cmd_sort_d cmd_incrbyfloat_d cmd_hincrbyfloat_d : c19tab.

Lemma table_dirty : Forall (fun x : cmd * option vtype => dcmd (fst x)) table.
Proof.
  unfold table.
  repeat (apply Forall_cons; [ cbn [fst]; solve [auto with c19tab] | ]).
  apply Forall_nil.
Qed.

(* THEOREM.  Whatever the command of the table and whatever its arguments: the database record
   it returns is either literally the one it received, or it carries the dirty flag — no
   in-place change (LSET, SREM, EXPIRE, PERSIST, SETRANGE, BITFIELD ...) can escape the saver. *)
Theorem C19_dirty_complete : forall name f now d args,
  data_cmd name = Some f ->
  let d' := fst (f now d args) in d' = d \/ d_dirty d' = true.
Proof.
  intros name f now d args Hf.
  exact (table_sound (fun f _ => dcmd f) table_dirty name f Hf now d args).
Qed.
Print Assumptions C19_dirty_complete.

Theorem C19_flush_dirty : forall d, d_dirty (flush_db d) = true.
Proof. reflexivity. Qed.

(* LSET, SREM, PEXPIRE, PERSIST on a clean database: the flag is raised; LLEN: same record *)
Example C19_dirty_ex :
  let d0 := clean (fst (cmd_expire sec true 0
                   (fst (cmd_sadd 0 (fst (cmd_push false false 0 empty_db [s2b "l"; s2b "a"; s2b "b"]))
                                  [s2b "t"; s2b "x"; s2b "y"])) [s2b "t"; s2b "100"])) in
  match data_cmd (s2b "lset"), data_cmd (s2b "srem"), data_cmd (s2b "pexpire"),
        data_cmd (s2b "persist"), data_cmd (s2b "llen") with
  | Some f1, Some f2, Some f3, Some f4, Some f5 =>
    d_dirty d0 = false /\
    d_dirty (fst (f1 5 d0 [s2b "l"; s2b "0"; s2b "z"])) = true /\
    d_dirty (fst (f2 5 d0 [s2b "t"; s2b "x"])) = true /\
    d_dirty (fst (f3 5 d0 [s2b "l"; s2b "500"])) = true /\
    d_dirty (fst (f4 5 d0 [s2b "t"])) = true /\
    fst (f5 5 d0 [s2b "l"]) = d0
  | _, _, _, _, _ => False
  end.
Proof. vm_compute. repeat split; reflexivity. Qed.

(* SORT ... STORE and INCRBYFLOAT / HINCRBYFLOAT on a clean database raise the flag; SORT without
   STORE and LCS return the same record *)
Example C19_dirty_sort_ex :
  let d0 := clean (fst (cmd_hset 0 0 (fst (cmd_set 0
                   (fst (cmd_push false false 0 empty_db [s2b "l"; s2b "b"; s2b "a"]))
                   [s2b "s"; s2b "1.5"])) [s2b "h"; s2b "f"; s2b "2"])) in
  d_dirty d0 = false /\
  d_dirty (fst (cmd_sort 5 d0 [s2b "l"; s2b "ALPHA"; s2b "STORE"; s2b "dst"])) = true /\
  d_dirty (fst (cmd_incrbyfloat 5 d0 [s2b "s"; s2b "1"])) = true /\
  d_dirty (fst (cmd_hincrbyfloat 5 d0 [s2b "h"; s2b "f"; s2b "0.5"])) = true /\
  fst (cmd_sort 5 d0 [s2b "l"; s2b "ALPHA"]) = d0 /\
  fst (cmd_lcs 5 d0 [s2b "s"; s2b "s"]) = d0.
Proof. vm_compute. repeat split; reflexivity. Qed.

(* ================================================================== *)
(* 3. the saver invariant and the restart theorem                      *)
(* ================================================================== *)
(* whenever the database is not marked dirty, the file on disk is its snapshot
   (or nothing was ever written and nothing ever happened) *)
Definition synced (p : pstate) : Prop :=
  d_dirty (p_db p) = false ->
  p_file p = Some (snapshot (p_db p)) \/ (p_file p = None /\ p_db p = empty_db).

Theorem C19_synced_init : synced p0.
Proof. intros _. right. split; reflexivity. Qed.

Lemma synced_tick p : synced p -> synced (tick p).
Proof.
  intros H. unfold tick. destruct (d_dirty (p_db p)) eqn:E.
  - intros _. left. reflexivity.
  - exact H.
Qed.

Theorem C19_synced_step : forall p e, synced p -> synced (pstep p e).
Proof.
  intros p e H. destruct e as [name now args| |]; cbn [pstep].
  - destruct (data_cmd name) as [f|] eqn:Hf; [|exact H].
    destruct (C19_dirty_complete name f now (p_db p) args Hf) as [Heq|Hd].
    + rewrite Heq. destruct p as [d fl]. exact H.
    + intros Hc. cbn [p_db] in Hc. congruence.
  - intros Hc. cbn [p_db] in Hc. rewrite C19_flush_dirty in Hc. discriminate.
  - apply synced_tick. exact H.
Qed.

Theorem C19_synced_run : forall es p, synced p -> synced (prun es p).
Proof.
  induction es as [|e es IH]; intros p H; cbn [prun fold_left]; [exact H|].
  apply IH. apply C19_synced_step. exact H.
Qed.

Lemma restart_tick_synced p : synced p -> restart (tick p) = clean (p_db p).
Proof.
  intros H. unfold tick. destruct (d_dirty (p_db p)) eqn:E.
  - unfold restart. cbn [p_file]. rewrite C19_roundtrip. reflexivity.
  - destruct (H E) as [Hf|[Hf Hd]]; unfold restart; rewrite Hf.
    + rewrite C19_roundtrip. reflexivity.
    + rewrite Hd. reflexivity.
Qed.

(* THEOREM.  After ANY history of commands, flushes and saver runs, the save performed by a clean
   shutdown followed by a restart gives back exactly the database as it was: keys in the same
   order, values, deadlines, versions, object counter.  Deleted and flushed keys are not in
   [p_db (prun es p0)] and therefore not in the restarted database; in-place changes are. *)
Theorem C19_restart : forall es,
  restart (tick (prun es p0)) = clean (p_db (prun es p0)).
Proof.
  intro es. apply restart_tick_synced. apply C19_synced_run. exact C19_synced_init.
Qed.
Print Assumptions C19_restart.

Corollary C19_restart_lookup : forall es now k,
  lookup now (restart (tick (prun es p0))) k = lookup now (p_db (prun es p0)) k.
Proof. intros es now k. rewrite C19_restart. apply lookup_clean. Qed.

Corollary C19_restart_live : forall es now,
  live now (restart (tick (prun es p0))) = live now (p_db (prun es p0)).
Proof. intros es now. rewrite C19_restart. reflexivity. Qed.

(* the same holds for a restart (e.g. after a kill) at any moment at which the saver has just run:
   the final tick need not be the one of a shutdown *)
Corollary C19_restart_after_tick : forall es,
  restart (prun (es ++ [ETick]) p0) = clean (p_db (prun es p0)).
Proof.
  intro es. unfold prun. rewrite fold_left_app. cbn [fold_left pstep]. apply C19_restart.
Qed.

(* and a kill at an arbitrary moment loses at most what happened since the last saver run:
   the restarted database is the one the last run saw *)
Lemma restart_synced_clean p : synced p -> d_dirty (p_db p) = false -> restart p = p_db p.
Proof.
  intros H E. destruct (H E) as [Hf|[Hf Hd]]; unfold restart; rewrite Hf.
  - rewrite C19_roundtrip. destruct (p_db p) as [m n b]. cbn in E. subst b. reflexivity.
  - rewrite Hd. reflexivity.
Qed.

Definition no_tick (e : pevent) : Prop := match e with ETick => False | _ => True end.

Lemma pstep_file p e : no_tick e -> p_file (pstep p e) = p_file p.
Proof.
  destruct e as [name now args| |]; cbn [pstep no_tick]; intro H; try contradiction; try reflexivity.
  destruct (data_cmd name); reflexivity.
Qed.

Lemma prun_file es : forall p, Forall no_tick es -> p_file (prun es p) = p_file p.
Proof.
  induction es as [|e es IH]; intros p H; cbn [prun fold_left]; [reflexivity|].
  inversion H as [|? ? He Hes]; subst. fold (prun es (pstep p e)). rewrite IH by exact Hes.
  apply pstep_file. exact He.
Qed.

Theorem C19_kill_loses_only_unsaved : forall es1 es2,
  Forall no_tick es2 ->
  restart (prun (es1 ++ ETick :: es2) p0) = clean (p_db (prun es1 p0)).
Proof.
  intros es1 es2 H. unfold prun. rewrite fold_left_app. cbn [fold_left].
  fold (prun es1 p0). fold (prun es2 (pstep (prun es1 p0) ETick)).
  unfold restart. rewrite prun_file by exact H. cbn [pstep].
  exact (restart_tick_synced _ (C19_synced_run es1 p0 C19_synced_init)).
Qed.
Print Assumptions C19_kill_loses_only_unsaved.

(* histories whose LAST change is an in-place one made after the saver ran *)
Definition hist0 : list pevent :=
  [ ECmd (s2b "rpush") 0 [s2b "l"; s2b "a"; s2b "b"];
    ECmd (s2b "sadd") 0 [s2b "t"; s2b "x"; s2b "y"];
    ECmd (s2b "set") 0 [s2b "s"; s2b "v"];
    ECmd (s2b "hset") 0 [s2b "h"; s2b "f"; s2b "1"];
    ETick ].

Definition val_at (d : db) (k : string) : option (value * option Z) :=
  match lookup 1 d (s2b k) with Some e => Some (e_val e, e_exp e) | None => None end.

Example C19_restart_ex_lset :
  let es := hist0 ++ [ECmd (s2b "lset") 1 [s2b "l"; s2b "0"; s2b "z"]] in
  restart (tick (prun es p0)) = clean (p_db (prun es p0)) /\
  val_at (restart (tick (prun es p0))) "l" = Some (VList [s2b "z"; s2b "b"], None) /\
  (* without the final save the file still has the old list *)
  val_at (restart (prun es p0)) "l" = Some (VList [s2b "a"; s2b "b"], None).
Proof. vm_compute. repeat split; reflexivity. Qed.

Example C19_restart_ex_srem :
  let es := hist0 ++ [ECmd (s2b "srem") 1 [s2b "t"; s2b "x"]] in
  restart (tick (prun es p0)) = clean (p_db (prun es p0)) /\
  val_at (restart (tick (prun es p0))) "t" = Some (VSet [s2b "y"], None).
Proof. vm_compute. repeat split; reflexivity. Qed.

Example C19_restart_ex_pexpire_persist :
  let es := hist0 ++ [ECmd (s2b "pexpire") 1 [s2b "s"; s2b "500"]] in
  let es2 := es ++ [ETick; ECmd (s2b "persist") 1 [s2b "s"]] in
  restart (tick (prun es p0)) = clean (p_db (prun es p0)) /\
  val_at (restart (tick (prun es p0))) "s" = Some (VStr (s2b "v"), Some 500000001) /\
  restart (tick (prun es2 p0)) = clean (p_db (prun es2 p0)) /\
  val_at (restart (tick (prun es2 p0))) "s" = Some (VStr (s2b "v"), None).
Proof. vm_compute. repeat split; reflexivity. Qed.

Example C19_restart_ex_del_flush :
  let es := hist0 ++ [ECmd (s2b "del") 1 [s2b "s"]] in
  let es2 := hist0 ++ [EFlush] in
  restart (tick (prun es p0)) = clean (p_db (prun es p0)) /\
  val_at (restart (tick (prun es p0))) "s" = None /\
  val_at (restart (tick (prun es p0))) "h" = Some (VHash [(s2b "f", s2b "1")], None) /\
  restart (tick (prun es2 p0)) = clean (p_db (prun es2 p0)) /\
  d_map (restart (tick (prun es2 p0))) = [] /\
  (* removing the last element of an aggregate removes the key: it does not come back either *)
  val_at (restart (tick (prun (hist0 ++ [ECmd (s2b "hdel") 1 [s2b "h"; s2b "f"]]) p0))) "h" = None.
Proof. vm_compute. repeat split; reflexivity. Qed.

(* ================================================================== *)
(* 4. crash atomicity of the repaired save                             *)
(* ================================================================== *)
Definition tmp_only (tmp : bytes) (o : fsop) : Prop :=
  match o with FCreate n => n = tmp | FAppend n _ => n = tmp | FRename _ _ => False end.

Lemma fs_apply_other tmp final s o :
  tmp <> final -> tmp_only tmp o -> aget (fs_apply s o) final = aget s final.
Proof.
  intros Hne Ho. assert (Hne' : final <> tmp) by congruence.
  destruct o as [n|n r|a b]; cbn [tmp_only] in Ho; cbn [fs_apply]; try contradiction; subst n.
  - apply aget_aset_other. exact Hne'.
  - destruct (aget s tmp); [apply aget_aset_other; exact Hne' | reflexivity].
Qed.

Lemma fs_run_other tmp final ops : tmp <> final -> Forall (tmp_only tmp) ops ->
  forall s, aget (fs_run ops s) final = aget s final.
Proof.
  intros Hne. induction ops as [|o ops IH]; intros H s; cbn [fs_run fold_left]; [reflexivity|].
  inversion H as [|? ? Ho Hops]; subst. fold (fs_run ops (fs_apply s o)).
  rewrite IH by exact Hops. apply fs_apply_other with (tmp := tmp); assumption.
Qed.

Lemma fs_run_appends n rs : forall s cur, aget s n = Some cur ->
  aget (fs_run (map (FAppend n) rs) s) n = Some (cur ++ rs).
Proof.
  induction rs as [|r rs IH]; intros s cur H; cbn [map fs_run fold_left].
  - rewrite app_nil_r. exact H.
  - cbn [fs_apply]. rewrite H. fold (fs_run (map (FAppend n) rs) (aset s n (cur ++ [r]))).
    rewrite (IH _ (cur ++ [r])) by apply aget_aset_same.
    rewrite <- app_assoc. reflexivity.
Qed.

Lemma fs_run_create_appends n rs s :
  aget (fs_run (FCreate n :: map (FAppend n) rs) s) n = Some rs.
Proof.
  cbn [fs_run fold_left fs_apply]. fold (fs_run (map (FAppend n) rs) (aset s n [])).
  rewrite (fs_run_appends n rs _ []) by apply aget_aset_same. reflexivity.
Qed.

Lemma fs_run_app a b s : fs_run (a ++ b) s = fs_run b (fs_run a s).
Proof. unfold fs_run. apply fold_left_app. Qed.

Lemma save_ops_split tmp final d :
  save_ops tmp final d = (FCreate tmp :: map (FAppend tmp) (snapshot d)) ++ [FRename tmp final].
Proof. reflexivity. Qed.

Lemma tmp_only_body tmp rs : Forall (tmp_only tmp) (FCreate tmp :: map (FAppend tmp) rs).
Proof.
  constructor; [reflexivity|]. apply Forall_forall. intros o Ho.
  apply in_map_iff in Ho as [r [<- _]]. reflexivity.
Qed.

(* the save ran to completion: the snapshot name holds the new database (whatever was there,
   including the remains of an earlier interrupted save under the temporary name) *)
Theorem C19_crash_new : forall tmp final d_new s,
  load_file (fs_run (save_ops tmp final d_new) s) final = Some (clean d_new).
Proof.
  intros tmp final d s. rewrite save_ops_split, fs_run_app.
  change (fs_run [FRename tmp final] ?x) with (fs_apply x (FRename tmp final)).
  unfold fs_apply at 1. rewrite fs_run_create_appends. unfold load_file. rewrite aget_aset_same.
  apply C19_roundtrip.
Qed.

(* the save was interrupted before its last operation: the snapshot name is untouched *)
Theorem C19_crash_old : forall tmp final d_new s p q,
  tmp <> final -> q <> [] -> p ++ q = save_ops tmp final d_new ->
  aget (fs_run p s) final = aget s final /\ load_file (fs_run p s) final = load_file s final.
Proof.
  intros tmp final d s p q Hne Hq H.
  assert (Hp : Forall (tmp_only tmp) p).
  { destruct (exists_last Hq) as [q' [x Hx]]. subst q.
    rewrite save_ops_split, app_assoc in H. apply app_inj_tail in H as [H _].
    pose proof (tmp_only_body tmp (snapshot d)) as Hb. rewrite <- H in Hb.
    apply Forall_app in Hb as [Hb _]. exact Hb. }
  assert (Ha : aget (fs_run p s) final = aget s final)
    by (apply fs_run_other with (tmp := tmp); assumption).
  split; [exact Ha|]. unfold load_file. rewrite Ha. reflexivity.
Qed.

(* THEOREM.  Crash atomicity: cut the operation sequence of a save anywhere — the snapshot name
   loads exactly as before the save began, or as the complete new database. *)
Theorem C19_crash_atomic : forall tmp final d_new s p q,
  tmp <> final -> p ++ q = save_ops tmp final d_new ->
  load_file (fs_run p s) final = load_file s final \/
  load_file (fs_run p s) final = Some (clean d_new).
Proof.
  intros tmp final d s p q Hne H. destruct q as [|x q].
  - right. rewrite app_nil_r in H. subst p. apply C19_crash_new.
  - left. apply (C19_crash_old tmp final d s p (x :: q) Hne); [discriminate | exact H].
Qed.
Print Assumptions C19_crash_atomic.

(* never partial, mixed or empty: with the previous snapshot on disk the loader sees the previous
   or the new database; with no snapshot yet it sees nothing or the new database *)
Corollary C19_crash_atomic_snap : forall tmp final d_old d_new s p q,
  tmp <> final -> aget s final = Some (snapshot d_old) -> p ++ q = save_ops tmp final d_new ->
  load_file (fs_run p s) final = Some (clean d_old) \/
  load_file (fs_run p s) final = Some (clean d_new).
Proof.
  intros tmp final d_old d_new s p q Hne Hs H.
  destruct (C19_crash_atomic tmp final d_new s p q Hne H) as [E|E]; [left|right; exact E].
  rewrite E. unfold load_file. rewrite Hs. apply C19_roundtrip.
Qed.

Corollary C19_crash_atomic_absent : forall tmp final d_new s p q,
  tmp <> final -> aget s final = None -> p ++ q = save_ops tmp final d_new ->
  aget (fs_run p s) final = None \/
  load_file (fs_run p s) final = Some (clean d_new).
Proof.
  intros tmp final d_new s p q Hne Hs H. destruct q as [|x q].
  - right. rewrite app_nil_r in H. subst p. apply C19_crash_new.
  - left. destruct (C19_crash_old tmp final d_new s p (x :: q) Hne) as [Ha _];
      [discriminate | exact H | ]. rewrite Ha. exact Hs.
Qed.

(* a save interrupted anywhere and then retried from the start completes correctly *)
Corollary C19_crash_then_retry : forall tmp final d_new d_newer s p q,
  p ++ q = save_ops tmp final d_new ->
  load_file (fs_run (save_ops tmp final d_newer) (fs_run p s)) final = Some (clean d_newer).
Proof. intros. apply C19_crash_new. Qed.

Definition ex_new : db :=
  mkDb [ (s2b "s", mkE (VStr (s2b "w")) None 11%N);
         (s2b "n", mkE (VList [s2b "q"]) None 12%N) ] 12%N true.

Example C19_crash_ex :
  let s := [(s2b "dump", snapshot ex_db)] in
  let ops := save_ops (s2b "dump.tmp") (s2b "dump") ex_new in
  length ops = 5%nat /\
  load_file (fs_run (firstn 0 ops) s) (s2b "dump") = Some (clean ex_db) /\
  load_file (fs_run (firstn 1 ops) s) (s2b "dump") = Some (clean ex_db) /\
  load_file (fs_run (firstn 3 ops) s) (s2b "dump") = Some (clean ex_db) /\
  load_file (fs_run (firstn 4 ops) s) (s2b "dump") = Some (clean ex_db) /\
  load_file (fs_run (firstn 5 ops) s) (s2b "dump") = Some (clean ex_new).
Proof. vm_compute. repeat split; reflexivity. Qed.

(* ================================================================== *)
(* 5. the original in-place save is NOT crash atomic                   *)
(* ================================================================== *)
(* crash right after the header record was written: the file announces two keys and holds none;
   it loads neither as the old nor as the new database *)
Theorem C19_inplace_refuted : exists final d_old d_new p q,
  p ++ q = save_ops_inplace final d_new /\
  load_file (fs_run p [(final, snapshot d_old)]) final <> Some (clean d_old) /\
  load_file (fs_run p [(final, snapshot d_old)]) final <> Some (clean d_new).
Proof.
  exists (s2b "dump"), ex_db, ex_new,
    (firstn 2 (save_ops_inplace (s2b "dump") ex_new)),
    (skipn 2 (save_ops_inplace (s2b "dump") ex_new)).
  split; [apply firstn_skipn|].
  split; vm_compute; discriminate.
Qed.
Print Assumptions C19_inplace_refuted.

(* In fact EVERY crash strictly inside an in-place save destroys the snapshot: from the
   truncation up to (excluding) the last record the file fails to load, so a process started
   then comes up with an EMPTY database although a complete snapshot existed before. *)
Theorem C19_inplace_window : forall final d_new s p q,
  p <> [] -> q <> [] -> p ++ q = save_ops_inplace final d_new ->
  load_file (fs_run p s) final = None.
Proof.
  intros final d s p q Hp Hq H. destruct p as [|o p]; [congruence|].
  unfold save_ops_inplace in H. remember (snapshot d) as sn eqn:Hsn.
  cbn [app] in H. injection H as Ho H. subst o.
  symmetry in H. apply map_eq_app in H as [l1 [l2 [Hs [Hl1 Hl2]]]]. subst p q sn.
  unfold load_file. rewrite fs_run_create_appends.
  apply (C19_truncated_fails_strong d l1 l2); [|symmetry; exact Hs].
  intro E. subst l2. apply Hq. reflexivity.
Qed.
Print Assumptions C19_inplace_window.

Example C19_inplace_window_ex :
  let s := [(s2b "dump", snapshot ex_db)] in
  let ops := save_ops_inplace (s2b "dump") ex_new in
  length ops = 4%nat /\
  load_file s (s2b "dump") = Some (clean ex_db) /\
  load_file (fs_run (firstn 1 ops) s) (s2b "dump") = None /\
  load_file (fs_run (firstn 2 ops) s) (s2b "dump") = None /\
  load_file (fs_run (firstn 3 ops) s) (s2b "dump") = None /\
  load_file (fs_run (firstn 4 ops) s) (s2b "dump") = Some (clean ex_new).
Proof. vm_compute. repeat split; reflexivity. Qed.

(* ================================================================== *)
(* 6. links between the three levels                                   *)
(* ================================================================== *)
(* what [tick] records as the new file content is what the operation sequence of the repaired
   save leaves under the snapshot name *)
Theorem C19_save_writes_snapshot : forall tmp final d s,
  aget (fs_run (save_ops tmp final d) s) final = Some (snapshot d).
Proof.
  intros tmp final d s. rewrite save_ops_split, fs_run_app.
  change (fs_run [FRename tmp final] ?x) with (fs_apply x (FRename tmp final)).
  unfold fs_apply at 1. rewrite fs_run_create_appends. apply aget_aset_same.
Qed.

(* a restart from a file system: a missing or unreadable snapshot gives an empty database *)
Definition restart_fs (s : fs) (final : bytes) : db :=
  match load_file s final with Some d => d | None => empty_db end.

Lemma restart_fs_agrees s final p :
  aget s final = p_file p -> restart_fs s final = restart p.
Proof. intro H. unfold restart_fs, restart, load_file. rewrite H. destruct (p_file p); reflexivity. Qed.

(* THEOREM.  Saver and crash together: the file system agrees with the saver state [p]; the saver
   (or the shutdown) starts saving and the process is killed after any number of file
   operations.  The restarted database is then the one a restart BEFORE that save would have
   given, or exactly the current database. *)
Theorem C19_crash_during_save : forall es tmp final s ops rest,
  tmp <> final ->
  aget s final = p_file (prun es p0) ->
  ops ++ rest = save_ops tmp final (p_db (prun es p0)) ->
  restart_fs (fs_run ops s) final = restart (prun es p0) \/
  restart_fs (fs_run ops s) final = clean (p_db (prun es p0)).
Proof.
  intros es tmp final s ops rest Hne Hs H.
  destruct (C19_crash_atomic tmp final _ s ops rest Hne H) as [E|E].
  - left. unfold restart_fs at 1. rewrite E. apply restart_fs_agrees. exact Hs.
  - right. unfold restart_fs. rewrite E. reflexivity.
Qed.
Print Assumptions C19_crash_during_save.

(* the restarted database is again a well-formed keyspace (PropC06.wf_db): unique keys, no
   empty aggregate, unique versions below the restored object counter *)
Lemma wf_clean d : wf_db d -> wf_db (clean d).
Proof. intro H. exact H. Qed.

Lemma wf_flush d : wf_db d -> wf_db (flush_db d).
Proof.
  intros _. unfold wf_db, flush_db. cbn. split; [constructor|]. split; [intros k e []|constructor].
Qed.

Lemma wf_pstep p e : wf_db (p_db p) -> wf_db (p_db (pstep p e)).
Proof.
  intro H. destruct e as [name now args| |]; cbn [pstep].
  - destruct (data_cmd name) as [f|] eqn:Hf; [|exact H].
    cbn [p_db]. apply (C06_wf_preserved name f now _ args Hf H).
  - cbn [p_db]. apply wf_flush. exact H.
  - unfold tick. destruct (d_dirty (p_db p)); [cbn [p_db]; apply wf_clean|]; exact H.
Qed.

Lemma wf_prun es : forall p, wf_db (p_db p) -> wf_db (p_db (prun es p)).
Proof.
  induction es as [|e es IH]; intros p H; cbn [prun fold_left]; [exact H|].
  apply IH. apply wf_pstep. exact H.
Qed.

Corollary C19_restart_wf : forall es, wf_db (restart (tick (prun es p0))).
Proof.
  intro es. rewrite C19_restart. apply wf_clean. apply wf_prun. exact C06_wf_empty.
Qed.
Print Assumptions C19_restart_wf.

(* versions continue above everything restored: the first write after a restart takes a version
   that no restored key carries (WATCH cannot confuse a pre-restart and a post-restart value) *)
Corollary C19_restart_fresh_version : forall es k e,
  In (k, e) (d_map (restart (tick (prun es p0)))) ->
  (e_ver e < d_next (restart (tick (prun es p0))) + 1)%N.
Proof.
  intros es k e Hin. destruct (C19_restart_wf es) as [_ [Hall _]].
  destruct (Hall k e Hin) as [_ [_ Hle]]. lia.
Qed.

(* a kill two commands after the last saver run: the restart shows the state the saver saw *)
Example C19_kill_ex :
  let es := hist0 ++ [ECmd (s2b "del") 1 [s2b "s"]] in
  let tail := [ECmd (s2b "lset") 1 [s2b "l"; s2b "0"; s2b "z"]; ECmd (s2b "set") 1 [s2b "s"; s2b "new"]] in
  Forall no_tick tail /\
  restart (prun (es ++ ETick :: tail) p0) = clean (p_db (prun es p0)) /\
  val_at (restart (prun (es ++ ETick :: tail) p0)) "s" = None /\
  val_at (restart (prun (es ++ ETick :: tail) p0)) "l" = Some (VList [s2b "a"; s2b "b"], None).
Proof. split; [repeat constructor|]. vm_compute. repeat split; reflexivity. Qed.

(* crash of the shutdown save after an in-place LSET: old list or new list, nothing else *)
Example C19_crash_during_save_ex :
  let es := hist0 ++ [ECmd (s2b "lset") 1 [s2b "l"; s2b "0"; s2b "z"]] in
  let s := match p_file (prun es p0) with Some rs => [(s2b "dump", rs)] | None => [] end in
  let ops := save_ops (s2b "dump.tmp") (s2b "dump") (p_db (prun es p0)) in
  aget s (s2b "dump") = p_file (prun es p0) /\
  length ops = 7%nat /\
  val_at (restart_fs (fs_run (firstn 6 ops) s) (s2b "dump")) "l" = Some (VList [s2b "a"; s2b "b"], None) /\
  val_at (restart_fs (fs_run (firstn 7 ops) s) (s2b "dump")) "l" = Some (VList [s2b "z"; s2b "b"], None) /\
  restart_fs (fs_run ops s) (s2b "dump") = clean (p_db (prun es p0)).
Proof. vm_compute. repeat split; reflexivity. Qed.
