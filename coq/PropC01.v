(* PropC01.v — C01: framing and binary safety of the RESP request and reply paths.
   Request side: what a client encodes with [enc_cmd] is parsed back exactly, whatever
   the argument bytes are and whatever follows in the buffer; an incompletely received
   command is "not yet"; the dispatched sequence is independent of TCP chunking.
   Reply side: every serialised reply is exactly one self-delimiting RESP value. *)
From RE Require Import Base Resp RespParse.
From Coq Require Import String List Lia Arith DecimalN DecimalPos.
Open Scope string_scope.
Open Scope list_scope.
Open Scope nat_scope.

(* ====================================================================== *)
(* Generic list facts                                                      *)
(* ====================================================================== *)
Lemma firstn_length_app {A} (l r : list A) : firstn (length l) (l ++ r) = l.
Proof. induction l as [|x l IH]; cbn; [reflexivity|]. now rewrite IH. Qed.

Lemma skipn_length_app {A} (l r : list A) : skipn (length l) (l ++ r) = r.
Proof. induction l as [|x l IH]; cbn; [reflexivity|]. exact IH. Qed.

Lemma skipn_add {A} (n : nat) : forall (m : nat) (l : list A), skipn (n + m) l = skipn m (skipn n l).
Proof.
  induction n as [|n IH]; intros m l; [reflexivity|].
  destruct l as [|x l]; cbn [Nat.add skipn]; [now destruct m|]. apply IH.
Qed.

Lemma skipn_shift {A} (c x y : list A) pos :
  skipn pos c = x ++ y -> skipn (pos + length x) c = y.
Proof. intro H. rewrite skipn_add, H. apply skipn_length_app. Qed.

Lemma skipn_len_eq {A} (c q : list A) pos :
  skipn pos c = q -> q <> [] -> length c = pos + length q.
Proof.
  intros H Hq. pose proof (skipn_length pos c) as Hl. rewrite H in Hl.
  destruct q; [congruence|]. cbn [length] in *. lia.
Qed.

Lemma skipn_len_le {A} (c q : list A) pos :
  skipn pos c = q -> length c <= pos + length q.
Proof. intros H. pose proof (skipn_length pos c) as Hl. rewrite H in Hl. lia. Qed.

Lemma at_skipn (c : bytes) pos : forall i, at_ c (pos + i) = nth_error (skipn pos c) i.
Proof.
  unfold at_. revert c. induction pos as [|p IH]; intros c i; [reflexivity|].
  destruct c as [|x c]; cbn [Nat.add skipn nth_error]; [now destruct i|]. apply IH.
Qed.

Lemma nth_error_firstn_lt {A} (q : nat) : forall (c : list A) i, i < q -> nth_error (firstn q c) i = nth_error c i.
Proof.
  induction q as [|q IH]; intros c i Hi; [lia|].
  destruct c as [|x c]; [reflexivity|]. destruct i as [|i]; [reflexivity|].
  cbn [firstn nth_error]. apply IH. lia.
Qed.

(* strict prefix *)
Definition sprefix {A} (p x : list A) : Prop := exists q, q <> [] /\ p ++ q = x.

Lemma app_split {A} (a b c d : list A) :
  a ++ b = c ++ d ->
  (exists q, q <> [] /\ a ++ q = c /\ b = q ++ d) \/ (exists a', a = c ++ a' /\ a' ++ b = d).
Proof.
  revert c. induction a as [|x a IH]; intros c H.
  - destruct c as [|y c].
    + right. exists []. auto.
    + left. exists (y :: c). repeat split; [discriminate | exact H].
  - destruct c as [|y c].
    + right. exists (x :: a). auto.
    + cbn in H. injection H as -> H. destruct (IH _ H) as [(q & Hq & H1 & H2)|(a' & H1 & H2)].
      * left. exists q. cbn. rewrite H1. auto.
      * right. exists a'. cbn. rewrite H1. auto.
Qed.

Lemma sprefix_app {A} (p a b : list A) :
  sprefix p (a ++ b) -> sprefix p a \/ exists p', p = a ++ p' /\ sprefix p' b.
Proof.
  intros (q & Hq & H). destruct (app_split _ _ _ _ H) as [(q' & Hq' & H1 & H2)|(p' & H1 & H2)].
  - left. exists q'. auto.
  - right. exists p'. split; [exact H1|]. exists q. auto.
Qed.

Lemma sprefix_length {A} (p x : list A) : sprefix p x -> length p < length x.
Proof.
  intros (q & Hq & <-). rewrite app_length. destruct q; [congruence|]. cbn. lia.
Qed.

(* ====================================================================== *)
(* 4. Decimal headers                                                      *)
(* ====================================================================== *)
Lemma uint_bytes_digits u : Forall (fun c => is_digit c = true) (uint_bytes u).
Proof. induction u; cbn [uint_bytes]; constructor; auto. Qed.

Lemma uint_bytes_nil u : uint_bytes u = [] -> u = Decimal.Nil.
Proof. destruct u; cbn; intro H; try discriminate; reflexivity. Qed.

Theorem C01_dec_digits n : Forall (fun c => is_digit c = true) (N_to_bytes n).
Proof. apply uint_bytes_digits. Qed.

Theorem C01_dec_nonempty n : N_to_bytes n <> [].
Proof.
  unfold N_to_bytes. intro H. apply uint_bytes_nil in H.
  destruct n as [|p]; cbn in H; [discriminate|].
  exact (DecimalPos.Unsigned.to_uint_nonnil p H).
Qed.

Lemma digit_range c : is_digit c = true -> (48 <= c <= 57)%N.
Proof.
  unfold is_digit. intro H. apply andb_true_iff in H as [H1 H2].
  apply N.leb_le in H1. apply N.leb_le in H2. lia.
Qed.

Theorem C01_dec_no_crlf n : Forall (fun c => c <> 13%N /\ c <> 10%N) (N_to_bytes n).
Proof.
  eapply Forall_impl; [|apply C01_dec_digits].
  intros c H. apply digit_range in H. lia.
Qed.

Lemma parse_i64_digit d r :
  is_digit d = true ->
  parse_i64 (d :: r) =
  match parse_udec (d :: r) with
  | Some n => if in_i64 (Z.of_N n) then Some (Z.of_N n) else None
  | None => None
  end.
Proof.
  intro H. unfold parse_i64.
  destruct d as [|p]; [reflexivity|].
  do 6 (try (destruct p as [p|p|]; try reflexivity)); vm_compute in H; discriminate H.
Qed.

Lemma parse_i64_digits b :
  b <> [] -> Forall (fun c => is_digit c = true) b ->
  parse_i64 b =
  match parse_udec b with
  | Some n => if in_i64 (Z.of_N n) then Some (Z.of_N n) else None
  | None => None
  end.
Proof.
  intros Hn Hd. destruct b as [|d r]; [congruence|].
  apply parse_i64_digit. now inversion Hd.
Qed.

Lemma parse_udec_N n : parse_udec (N_to_bytes n) = Some n.
Proof.
  unfold parse_udec. pose proof (C01_dec_nonempty n) as Hn.
  destruct (N_to_bytes n) as [|d r] eqn:E; [congruence|].
  rewrite <- E. unfold N_to_bytes.
  now rewrite bytes_uint_uint_bytes, DecimalN.Unsigned.of_to.
Qed.

Theorem C01_dec_parse_gen n :
  parse_i64 (N_to_bytes n) = if (Z.of_N n <=? max_i64)%Z then Some (Z.of_N n) else None.
Proof.
  rewrite parse_i64_digits by (apply C01_dec_nonempty || apply C01_dec_digits).
  rewrite parse_udec_N.
  unfold in_i64. replace (min_i64 <=? Z.of_N n)%Z with true; [reflexivity|].
  symmetry. apply Z.leb_le. unfold min_i64. lia.
Qed.

Theorem C01_dec_parse n :
  (Z.of_N n <= max_i64)%Z -> parse_i64 (N_to_bytes n) = Some (Z.of_N n).
Proof.
  intro H. rewrite C01_dec_parse_gen. apply Z.leb_le in H. now rewrite H.
Qed.
Print Assumptions C01_dec_parse.

Example C01_dec_parse_ex :
  N_to_bytes 1048576 = s2b "1048576" /\ parse_i64 (N_to_bytes 1048576) = Some 1048576%Z.
Proof. vm_compute. split; reflexivity. Qed.

(* ====================================================================== *)
(* 5. findNextLine finds the FIRST CRLF, and only looks at the bytes up to it *)
(* ====================================================================== *)
Lemma crlf_match3 (A : Type) (x y : option N) (a b d : A) :
  match x, y with Some 13%N, Some 10%N => a | Some _, Some _ => b | _, _ => d end =
  match x, y with
  | Some u, Some v => if N.eqb u 13 && N.eqb v 10 then a else b
  | _, _ => d end.
Proof.
  destruct x as [[|p]|]; destruct y as [[|q]|]; try reflexivity;
  do 4 (try destruct p as [p|p|]; try reflexivity);
  do 4 (try destruct q as [q|q|]; try reflexivity).
Qed.

Lemma crlf_match2 (A : Type) (x y : option N) (a b : A) :
  match x, y with Some 13%N, Some 10%N => a | _, _ => b end =
  match x, y with
  | Some u, Some v => if N.eqb u 13 && N.eqb v 10 then a else b
  | _, _ => b end.
Proof.
  destruct x as [[|p]|]; destruct y as [[|q]|]; try reflexivity;
  do 4 (try destruct p as [p|p|]; try reflexivity);
  do 4 (try destruct q as [q|q|]; try reflexivity).
Qed.

(* a CR LF pair sits at index i *)
Definition pair_at (c : bytes) (i : nat) : Prop := at_ c i = Some 13%N /\ at_ c (S i) = Some 10%N.

Definition pairb (c : bytes) (i : nat) : bool :=
  match at_ c i, at_ c (S i) with
  | Some u, Some v => N.eqb u 13 && N.eqb v 10
  | _, _ => false
  end.

Lemma pairb_spec c i : pairb c i = true <-> pair_at c i.
Proof.
  unfold pairb, pair_at. destruct (at_ c i) as [u|]; destruct (at_ c (S i)) as [v|];
    try (split; [discriminate | intros [? ?]; discriminate]).
  rewrite andb_true_iff, !N.eqb_eq. split; intros [H1 H2]; split; congruence.
Qed.

Lemma pair_at_lt c i : pair_at c i -> S i < length c.
Proof. intros [_ H]. apply nth_error_Some. unfold at_ in H. congruence. Qed.

Lemma find_crlf_S fuel c p :
  find_crlf (S fuel) c p =
  if Nat.leb (length c) (S p) then None
  else if pairb c p then Some (p + 2) else find_crlf fuel c (S p).
Proof.
  cbn [find_crlf]. rewrite crlf_match2. unfold pairb.
  destruct (at_ c p); destruct (at_ c (S p)); reflexivity.
Qed.

Lemma find_crlf_sound fuel : forall c p q,
  find_crlf fuel c p = Some q ->
  p + 2 <= q <= length c /\ pair_at c (q - 2) /\ forall i, p <= i < q - 2 -> ~ pair_at c i.
Proof.
  induction fuel as [|f IH]; intros c p q H; [discriminate|].
  rewrite find_crlf_S in H.
  destruct (Nat.leb (length c) (S p)) eqn:El; [discriminate|]. apply Nat.leb_gt in El.
  destruct (pairb c p) eqn:Ep.
  - injection H as <-. replace (p + 2 - 2) with p by lia.
    apply pairb_spec in Ep. split; [lia|]. split; [exact Ep|]. intros i Hi; lia.
  - apply IH in H. destruct H as (H1 & H2 & H3). split; [lia|]. split; [exact H2|].
    intros i Hi. destruct (Nat.eq_dec i p) as [->|Hne].
    + intro Hp. apply pairb_spec in Hp. congruence.
    + apply H3. lia.
Qed.

Lemma find_crlf_none fuel : forall c p,
  length c <= p + fuel + 1 -> find_crlf fuel c p = None ->
  forall i, p <= i -> ~ pair_at c i.
Proof.
  induction fuel as [|f IH]; intros c p Hf H i Hi Hp.
  - apply pair_at_lt in Hp. lia.
  - rewrite find_crlf_S in H.
    destruct (Nat.leb (length c) (S p)) eqn:El.
    + apply Nat.leb_le in El. apply pair_at_lt in Hp. lia.
    + destruct (pairb c p) eqn:Ep; [discriminate|].
      destruct (Nat.eq_dec i p) as [->|Hne].
      * apply pairb_spec in Hp. congruence.
      * apply (IH c (S p)) with (i := i); auto; lia.
Qed.

Lemma find_crlf_complete c p i fuel :
  p <= i -> pair_at c i -> (forall j, p <= j < i -> ~ pair_at c j) ->
  length c <= p + fuel + 1 -> find_crlf fuel c p = Some (i + 2).
Proof.
  intros Hi Hp Hmin Hf.
  destruct (find_crlf fuel c p) as [q|] eqn:E.
  - apply find_crlf_sound in E. destruct E as (H1 & H2 & H3).
    destruct (Nat.lt_trichotomy (q - 2) i) as [Hlt|[Heq|Hgt]].
    + exfalso. apply (Hmin (q - 2)); [lia | exact H2].
    + f_equal. lia.
    + exfalso. apply (H3 i); [lia | exact Hp].
  - exfalso. exact (find_crlf_none fuel c p Hf E i Hi Hp).
Qed.

Theorem C01_find_crlf_first c p q :
  find_crlf (S (length c)) c p = Some q <->
  (p + 2 <= q /\ pair_at c (q - 2) /\ forall i, p <= i < q - 2 -> ~ pair_at c i).
Proof.
  split.
  - intro H. apply find_crlf_sound in H. tauto.
  - intros (H1 & H2 & H3). replace q with (q - 2 + 2) at 1 by lia.
    apply find_crlf_complete; auto; lia.
Qed.
Print Assumptions C01_find_crlf_first.

Theorem C01_find_crlf_none c p :
  find_crlf (S (length c)) c p = None <-> forall i, p <= i -> ~ pair_at c i.
Proof.
  split.
  - intro H. apply (find_crlf_none (S (length c)) c p); [lia | exact H].
  - intro H. destruct (find_crlf (S (length c)) c p) as [q|] eqn:E; [|reflexivity].
    apply find_crlf_sound in E. destruct E as (H1 & H2 & _).
    exfalso. apply (H (q - 2)); [lia | exact H2].
Qed.

(* locality: the answer depends only on the bytes before the returned position *)
Theorem C01_find_crlf_local c c' p q :
  firstn q c = firstn q c' ->
  find_crlf (S (length c)) c p = Some q -> find_crlf (S (length c')) c' p = Some q.
Proof.
  intros Hfq H. apply C01_find_crlf_first in H. destruct H as (H1 & H2 & H3).
  assert (Hat : forall i, i < q -> at_ c' i = at_ c i).
  { intros i Hi. unfold at_. rewrite <- (nth_error_firstn_lt q c' i Hi), <- Hfq.
    apply nth_error_firstn_lt. exact Hi. }
  assert (Hpa : forall i, S i < q -> (pair_at c' i <-> pair_at c i)).
  { intros i Hi. unfold pair_at. rewrite !Hat by lia. tauto. }
  apply C01_find_crlf_first. split; [lia|]. split; [apply Hpa; [lia | exact H2]|].
  intros i Hi Hp. apply (H3 i Hi). apply Hpa; [lia | exact Hp].
Qed.
Print Assumptions C01_find_crlf_local.

Example C01_find_crlf_ex :
  (* a lone CR, a lone LF, then the first CRLF at index 5 *)
  find_crlf 12 [97; 13; 98; 10; 99; 13; 10; 100; 13; 10; 101]%N 0 = Some 7 /\
  find_crlf 12 [97; 13; 98; 10; 99; 13; 10; 100; 13; 10; 101]%N 6 = Some 10 /\
  find_crlf 12 [97; 13; 98; 10; 99; 13; 10; 100; 13; 10; 101]%N 9 = None.
Proof. vm_compute. repeat split; reflexivity. Qed.

(* ---------- positioned lines ---------- *)
Lemma find_line c pos l rest :
  skipn pos c = l ++ 13%N :: 10%N :: rest -> Forall (fun x => x <> 13%N) l ->
  find_crlf (S (length c)) c pos = Some (pos + length l + 2).
Proof.
  intros Hs Hl. apply find_crlf_complete; try lia.
  - split.
    + rewrite at_skipn, Hs, nth_error_app2, Nat.sub_diag by lia. reflexivity.
    + replace (S (pos + length l)) with (pos + S (length l)) by lia.
      rewrite at_skipn, Hs, nth_error_app2 by lia.
      replace (S (length l) - length l) with 1 by lia. reflexivity.
  - intros j Hj [H13 _]. replace j with (pos + (j - pos)) in H13 by lia.
    rewrite at_skipn, Hs, nth_error_app1 in H13 by lia.
    apply nth_error_In in H13. rewrite Forall_forall in Hl. exact (Hl _ H13 eq_refl).
Qed.

Lemma sub_line c pos l rest n :
  skipn pos c = l ++ rest -> n = pos + length l -> sub c pos n = l.
Proof.
  intros Hs ->. unfold sub. rewrite Hs. replace (pos + length l - pos) with (length l) by lia.
  apply firstn_length_app.
Qed.

(* a line whose terminator has not completely arrived: no CRLF is found *)
Lemma find_incomplete c pos q l :
  skipn pos c = q -> sprefix q (l ++ [13%N; 10%N]) -> Forall (fun x => x <> 13%N) l ->
  find_crlf (S (length c)) c pos = None.
Proof.
  intros Hs (q' & Hq' & Hqq) Hl. apply C01_find_crlf_none. intros i Hi [H13 H10].
  replace i with (pos + (i - pos)) in H13 by lia.
  replace (S i) with (pos + S (i - pos)) in H10 by lia.
  rewrite at_skipn, Hs in H13, H10. set (k := i - pos) in *.
  assert (Hk : S k < length q) by (apply nth_error_Some; congruence).
  assert (Hlen : length q + length q' = length l + 2).
  { rewrite <- app_length, Hqq, app_length. reflexivity. }
  assert (Hq1 : 1 <= length q') by (destruct q'; [congruence | cbn; lia]).
  assert (H13' : nth_error (l ++ [13%N; 10%N]) k = Some 13%N).
  { rewrite <- Hqq, nth_error_app1 by lia. exact H13. }
  rewrite nth_error_app1 in H13' by lia.
  apply nth_error_In in H13'. rewrite Forall_forall in Hl. exact (Hl _ H13' eq_refl).
Qed.

(* ====================================================================== *)
(* 6. Round trip of an encoded command (binary safety of the request path) *)
(* ====================================================================== *)
Lemma peek_bulk_eq c pos len :
  peek_bulk c pos len =
  if Nat.ltb (length c) (pos + len + 2) then Invalid
  else match at_ c (pos + len), at_ c (pos + len + 1) with
       | Some u, Some v =>
           if N.eqb u 13 && N.eqb v 10 then Done (PBulk (sub c pos (pos + len))) (pos + len + 2)
           else Invalid
       | _, _ => Panic "peekBulkLine: index out of range"
       end.
Proof. unfold peek_bulk. rewrite crlf_match3. reflexivity. Qed.

(* one unfolding of the deserializer, for the two headers a command uses *)
Lemma parse_at_bulk_hdr f c pos nxt body :
  find_crlf (S (length c)) c pos = Some nxt ->
  sub c pos (nxt - 2) = 36%N :: body ->
  bytes_eqb body (s2b "?") = false ->
  parse_at (S f) c pos =
  match get_count c body with
  | None => Invalid
  | Some n => if (n <? 0)%Z then Done PNil nxt else peek_bulk c nxt (Z.to_nat n)
  end.
Proof.
  intros Hf Hs Hq. cbn [parse_at]. rewrite Hf. cbv zeta. rewrite Hs.
  cbn [N.eqb Pos.eqb]. rewrite Hq. reflexivity.
Qed.

Lemma parse_at_arr_hdr f c pos nxt body :
  find_crlf (S (length c)) c pos = Some nxt ->
  sub c pos (nxt - 2) = 42%N :: body ->
  bytes_eqb body (s2b "?") = false ->
  parse_at (S f) c pos =
  match get_count c body with
  | None => Invalid
  | Some n =>
    if (n <? 0)%Z then Done PNil nxt else
    match parse_seq (parse_at f) (Z.to_nat n) c nxt with
    | inl (Some (vs, p)) => Done (PArr vs) p
    | inl None => Invalid
    | inr r => r
    end
  end.
Proof.
  intros Hf Hs Hq. cbn [parse_at]. rewrite Hf. cbv zeta. rewrite Hs.
  cbn [N.eqb Pos.eqb]. rewrite Hq. reflexivity.
Qed.

Lemma parse_at_no_line f c pos :
  find_crlf (S (length c)) c pos = None -> parse_at (S f) c pos = Invalid.
Proof. intros Hf. cbn [parse_at]. rewrite Hf. reflexivity. Qed.

Lemma dec_not_q n : bytes_eqb (N_to_bytes n) (s2b "?") = false.
Proof.
  apply bytes_eqb_neq. intro H. pose proof (C01_dec_digits n) as Hd. rewrite H in Hd.
  inversion Hd as [|? ? Hd1 _]. vm_compute in Hd1. discriminate.
Qed.

Lemma dec_no_cr n : Forall (fun x => x <> 13%N) (N_to_bytes n).
Proof. eapply Forall_impl; [|apply C01_dec_no_crlf]. cbn. tauto. Qed.

Lemma get_count_dec c n :
  get_count c (N_to_bytes n) =
  if (Z.of_N n <=? max_i64)%Z
  then (if (Z.of_nat (length c) <? Z.of_N n)%Z then None else Some (Z.of_N n))
  else None.
Proof. unfold get_count. rewrite C01_dec_parse_gen. destruct (Z.of_N n <=? max_i64)%Z; reflexivity. Qed.

(* a header line "<t><decimal>\r\n" at [pos] *)
Lemma hdr_line c pos (t : N) n tail :
  t <> 13%N ->
  skipn pos c = (t :: N_to_bytes n) ++ 13%N :: 10%N :: tail ->
  let nxt := pos + S (length (N_to_bytes n)) + 2 in
  find_crlf (S (length c)) c pos = Some nxt /\ sub c pos (nxt - 2) = t :: N_to_bytes n
  /\ skipn nxt c = tail.
Proof.
  intros Ht Hs nxt. split; [|split].
  - apply (find_line c pos (t :: N_to_bytes n) tail Hs).
    constructor; [exact Ht | apply dec_no_cr].
  - eapply sub_line; [exact Hs|]. subst nxt. cbn [length]. lia.
  - subst nxt. replace (pos + S (length (N_to_bytes n)) + 2)
      with (pos + length ((t :: N_to_bytes n) ++ [13%N; 10%N])) by (rewrite app_length; cbn [length]; lia).
    apply skipn_shift. rewrite <- app_assoc. exact Hs.
Qed.

Lemma enc_bulk_shape b rest :
  enc_bulk b ++ rest =
  (36%N :: N_to_bytes (N.of_nat (length b))) ++ 13%N :: 10%N :: (b ++ 13%N :: 10%N :: rest).
Proof. unfold enc_bulk. cbn [app]. repeat (rewrite <- app_assoc; cbn [app]). reflexivity. Qed.

Lemma enc_bulk_length b :
  length (enc_bulk b) = S (length (N_to_bytes (N.of_nat (length b)))) + 2 + length b + 2.
Proof. unfold enc_bulk. cbn [length app]. rewrite ?app_length. cbn [length]. rewrite ?app_length. cbn [length]. lia. Qed.

Lemma enc_cmd_shape args :
  enc_cmd args =
  (42%N :: N_to_bytes (N.of_nat (length args))) ++ 13%N :: 10%N :: concat (map enc_bulk args).
Proof. reflexivity. Qed.

Lemma enc_cmd_length args :
  length (enc_cmd args) =
  S (length (N_to_bytes (N.of_nat (length args)))) + 2 + length (concat (map enc_bulk args)).
Proof. unfold enc_cmd. cbn [length app]. rewrite ?app_length. cbn [length]. rewrite ?app_length. cbn [length]. lia. Qed.

(* a completely received bulk string parses to exactly its bytes *)
Lemma parse_bulk_full f c pos b rest :
  skipn pos c = enc_bulk b ++ rest ->
  parse_at (S f) c pos =
  if (Z.of_nat (length b) <=? max_i64)%Z then Done (PBulk b) (pos + length (enc_bulk b)) else Invalid.
Proof.
  intros Hs. pose proof Hs as Hs0. rewrite enc_bulk_shape in Hs.
  destruct (hdr_line c pos 36%N _ _ ltac:(discriminate) Hs) as (Hf & Hsub & Hnx).
  set (nxt := pos + S (length (N_to_bytes (N.of_nat (length b)))) + 2) in *.
  rewrite (parse_at_bulk_hdr f c pos nxt _ Hf Hsub (dec_not_q _)).
  rewrite get_count_dec, nat_N_Z.
  destruct (Z.of_nat (length b) <=? max_i64)%Z; [|reflexivity].
  assert (Hlen : length c = pos + length (enc_bulk b ++ rest)).
  { apply skipn_len_eq; [exact Hs0|]. unfold enc_bulk. discriminate. }
  rewrite app_length, enc_bulk_length in Hlen.
  destruct (Z.ltb_spec (Z.of_nat (length c)) (Z.of_nat (length b))) as [Hlt|_]; [lia|].
  destruct (Z.ltb_spec (Z.of_nat (length b)) 0) as [Hlt|_]; [lia|].
  rewrite Nat2Z.id, peek_bulk_eq.
  destruct (Nat.ltb_spec (length c) (nxt + length b + 2)) as [Hlt|_]; [subst nxt; lia|].
  rewrite at_skipn, Hnx, nth_error_app2, Nat.sub_diag by lia. cbn [nth_error].
  replace (nxt + length b + 1) with (nxt + S (length b)) by lia.
  rewrite at_skipn, Hnx, nth_error_app2 by lia.
  replace (S (length b) - length b) with 1 by lia. cbn [nth_error N.eqb Pos.eqb andb].
  rewrite (sub_line c nxt b _ _ Hnx eq_refl).
  f_equal. rewrite enc_bulk_length. subst nxt. lia.
Qed.

Definition len_ok (b : bytes) : bool := (Z.of_nat (length b) <=? max_i64)%Z.

(* a run of completely received bulk strings, followed by k further values *)
Lemma parse_seq_bulks f c : forall args pos rest k,
  skipn pos c = concat (map enc_bulk args) ++ rest ->
  parse_seq (parse_at (S f)) (length args + k) c pos =
  if forallb len_ok args then
    match parse_seq (parse_at (S f)) k c (pos + length (concat (map enc_bulk args))) with
    | inl (Some (vs, p')) => inl (Some (map PBulk args ++ vs, p'))
    | other => other
    end
  else inr Invalid.
Proof.
  induction args as [|b args IH]; intros pos rest k Hs.
  - cbn [length Nat.add map concat forallb app]. rewrite Nat.add_0_r.
    destruct (parse_seq (parse_at (S f)) k c pos) as [[[vs p']|]|r]; reflexivity.
  - cbn [map concat] in Hs. rewrite <- app_assoc in Hs.
    cbn [length Nat.add parse_seq forallb map concat].
    rewrite (parse_bulk_full f c pos b _ Hs). unfold len_ok at 1.
    destruct (Z.of_nat (length b) <=? max_i64)%Z; cbn [andb]; [|reflexivity].
    rewrite (IH (pos + length (enc_bulk b)) rest k (skipn_shift _ _ _ _ Hs)).
    destruct (forallb len_ok args); [|reflexivity].
    rewrite app_length, Nat.add_assoc.
    destruct (parse_seq (parse_at (S f)) k c _) as [[[vs p']|]|r]; reflexivity.
Qed.

Lemma enc_bulk_ge b : length b + 6 <= length (enc_bulk b).
Proof.
  rewrite enc_bulk_length. pose proof (C01_dec_nonempty (N.of_nat (length b))) as H.
  destruct (N_to_bytes (N.of_nat (length b))); [congruence|]. cbn [length]. lia.
Qed.

Lemma bulks_count_le args : length args <= length (concat (map enc_bulk args)).
Proof.
  induction args as [|b args IH]; cbn [map concat length]; [lia|].
  rewrite app_length. pose proof (enc_bulk_ge b). lia.
Qed.

Lemma bulks_each_le args b : In b args -> length b <= length (concat (map enc_bulk args)).
Proof.
  induction args as [|a args IH]; cbn [map concat In]; [tauto|].
  rewrite app_length. intros [->|H]; [pose proof (enc_bulk_ge b); lia | apply IH in H; lia].
Qed.

Lemma cmd_lens_ok args :
  (Z.of_nat (length (enc_cmd args)) <= max_i64)%Z -> forallb len_ok args = true.
Proof.
  intro H. apply forallb_forall. intros b Hb. unfold len_ok. apply Z.leb_le.
  apply bulks_each_le in Hb. rewrite enc_cmd_length in H. lia.
Qed.

Definition cmd_val (args : list bytes) : pval := PArr (map PBulk args).

(* the array header of a command, at the start of a non-empty buffer *)
Lemma parse_cmd_hdr c n tail :
  c = (42%N :: N_to_bytes n) ++ 13%N :: 10%N :: tail ->
  let nxt := S (length (N_to_bytes n)) + 2 in
  skipn nxt c = tail /\
  parse c =
  match get_count c (N_to_bytes n) with
  | None => Invalid
  | Some z =>
    if (z <? 0)%Z then Done PNil nxt else
    match parse_seq (parse_at (length c)) (Z.to_nat z) c nxt with
    | inl (Some (vs, p)) => Done (PArr vs) p
    | inl None => Invalid
    | inr r => r
    end
  end.
Proof.
  intros Hc nxt.
  assert (Hs : skipn 0 c = (42%N :: N_to_bytes n) ++ 13%N :: 10%N :: tail) by exact Hc.
  destruct (hdr_line c 0 42%N _ _ ltac:(discriminate) Hs) as (Hf & Hsub & Hnx).
  cbn [Nat.add] in Hf, Hsub, Hnx. split; [exact Hnx|].
  unfold parse. apply (parse_at_arr_hdr (length c) c 0 _ _ Hf Hsub (dec_not_q _)).
Qed.

Theorem C01_cmd_roundtrip : forall args rest,
  (Z.of_nat (length (enc_cmd args)) <= max_i64)%Z ->
  parse (enc_cmd args ++ rest) = Done (PArr (map PBulk args)) (length (enc_cmd args)).
Proof.
  intros args rest Hb. set (c := enc_cmd args ++ rest).
  assert (Hc : c = (42%N :: N_to_bytes (N.of_nat (length args))) ++ 13%N :: 10%N ::
                   (concat (map enc_bulk args) ++ rest)).
  { subst c. rewrite enc_cmd_shape, <- app_assoc. reflexivity. }
  destruct (parse_cmd_hdr c _ _ Hc) as (Hnx & Hp). rewrite Hp. clear Hp.
  assert (Hlen : length c = length (enc_cmd args) + length rest) by (subst c; apply app_length).
  pose proof (enc_cmd_length args) as Hel. pose proof (bulks_count_le args) as Hcnt.
  rewrite get_count_dec, nat_N_Z.
  destruct (Z.leb_spec (Z.of_nat (length args)) max_i64) as [_|Hgt]; [|lia].
  destruct (Z.ltb_spec (Z.of_nat (length c)) (Z.of_nat (length args))) as [Hlt|_]; [lia|].
  destruct (Z.ltb_spec (Z.of_nat (length args)) 0) as [Hlt|_]; [lia|].
  rewrite Nat2Z.id.
  destruct (length c) as [|f] eqn:Elc; [lia|].
  replace (length args) with (length args + 0) at 1 by lia.
  rewrite (parse_seq_bulks f c args _ rest 0 Hnx), (cmd_lens_ok args Hb).
  cbn [parse_seq]. rewrite app_nil_r. f_equal. lia.
Qed.
Print Assumptions C01_cmd_roundtrip.

(* arguments: empty, containing CR LF NUL and the RESP type bytes, non-UTF-8; followed by junk *)
Example C01_cmd_roundtrip_ex :
  let args := [s2b "SET"; []; [13; 10; 0; 36; 42; 255; 13; 10]%N] in
  parse (enc_cmd args ++ [42; 13]%N) = Done (PArr (map PBulk args)) (length (enc_cmd args))
  /\ parse (enc_cmd [] ++ [1;2;3]%N) = Done (PArr []) 4.
Proof. vm_compute. split; reflexivity. Qed.

(* ====================================================================== *)
(* 7. A partially received command is "not yet": Invalid, never a wrong value *)
(* ====================================================================== *)
Lemma get_count_dec_some c n z : get_count c (N_to_bytes n) = Some z -> z = Z.of_N n.
Proof.
  rewrite get_count_dec. destruct (Z.of_N n <=? max_i64)%Z; [|discriminate].
  destruct (Z.of_nat (length c) <? Z.of_N n)%Z; [discriminate|]. now intros [= <-].
Qed.

Lemma parse_bulk_incomplete f c pos q b :
  skipn pos c = q -> sprefix q (enc_bulk b) -> parse_at (S f) c pos = Invalid.
Proof.
  intros Hs Hq.
  assert (Hshape : enc_bulk b = ((36%N :: N_to_bytes (N.of_nat (length b))) ++ [13%N; 10%N]) ++ (b ++ [13%N; 10%N])).
  { pose proof (enc_bulk_shape b []) as H. rewrite app_nil_r in H. rewrite H.
    rewrite <- app_assoc. reflexivity. }
  rewrite Hshape in Hq. apply sprefix_app in Hq. destruct Hq as [Hq|(q' & Hq1 & Hq2)].
  - apply parse_at_no_line. eapply find_incomplete; [exact Hs | exact Hq |].
    constructor; [discriminate | apply dec_no_cr].
  - rewrite Hq1, <- app_assoc in Hs. cbn [app] in Hs.
    destruct (hdr_line c pos 36%N _ _ ltac:(discriminate) Hs) as (Hf & Hsub & Hnx).
    set (nxt := pos + S (length (N_to_bytes (N.of_nat (length b)))) + 2) in *.
    rewrite (parse_at_bulk_hdr f c pos nxt _ Hf Hsub (dec_not_q _)).
    destruct (get_count c (N_to_bytes (N.of_nat (length b)))) as [z|] eqn:Eg; [|reflexivity].
    apply get_count_dec_some in Eg. rewrite nat_N_Z in Eg. subst z.
    destruct (Z.ltb_spec (Z.of_nat (length b)) 0) as [Hlt|_]; [lia|].
    rewrite Nat2Z.id, peek_bulk_eq.
    apply sprefix_length in Hq2. rewrite app_length in Hq2. cbn [length] in Hq2.
    pose proof (skipn_len_le c q' nxt Hnx) as Hle.
    destruct (Nat.ltb_spec (length c) (nxt + length b + 2)) as [_|Hge]; [reflexivity|lia].
Qed.

Lemma sprefix_bulks args : forall p,
  sprefix p (concat (map enc_bulk args)) ->
  exists a1 b a2 q, args = a1 ++ b :: a2 /\ p = concat (map enc_bulk a1) ++ q /\ sprefix q (enc_bulk b).
Proof.
  induction args as [|b args IH]; intros p Hp.
  - destruct Hp as (q & Hq & H). cbn in H. apply app_eq_nil in H. tauto.
  - cbn [map concat] in Hp. apply sprefix_app in Hp. destruct Hp as [Hp|(p' & Hp1 & Hp2)].
    + exists [], b, args, p. auto.
    + destruct (IH _ Hp2) as (a1 & b' & a2 & q & H1 & H2 & H3).
      exists (b :: a1), b', a2, q. subst. cbn [map concat app]. rewrite <- app_assoc. auto.
Qed.

Theorem C01_prefix_incomplete : forall args p,
  (exists q, q <> [] /\ p ++ q = enc_cmd args) -> parse p = Invalid.
Proof.
  intros args p Hp. change (sprefix p (enc_cmd args)) in Hp.
  assert (Hshape : enc_cmd args = ((42%N :: N_to_bytes (N.of_nat (length args))) ++ [13%N; 10%N])
                                   ++ concat (map enc_bulk args)).
  { rewrite enc_cmd_shape, <- app_assoc. reflexivity. }
  rewrite Hshape in Hp. apply sprefix_app in Hp. destruct Hp as [Hp|(p' & Hp1 & Hp2)].
  - unfold parse. apply parse_at_no_line. eapply find_incomplete; [reflexivity | exact Hp |].
    constructor; [discriminate | apply dec_no_cr].
  - rewrite <- app_assoc in Hp1. cbn [app] in Hp1.
    destruct (parse_cmd_hdr p _ _ Hp1) as (Hnx & Hparse). rewrite Hparse. clear Hparse.
    destruct (get_count p (N_to_bytes (N.of_nat (length args)))) as [z|] eqn:Eg; [|reflexivity].
    apply get_count_dec_some in Eg. rewrite nat_N_Z in Eg. subst z.
    destruct (Z.ltb_spec (Z.of_nat (length args)) 0) as [Hlt|_]; [lia|].
    rewrite Nat2Z.id.
    destruct (sprefix_bulks _ _ Hp2) as (a1 & b & a2 & q & Ha & Hp' & Hq).
    destruct (length p) as [|f] eqn:Elp; [subst p; discriminate|].
    set (nxt := S (length (N_to_bytes (N.of_nat (length args)))) + 2) in *.
    replace (length args) with (length a1 + S (length a2))
      by (rewrite Ha, app_length; reflexivity).
    rewrite Hp' in Hnx.
    rewrite (parse_seq_bulks f p a1 _ q (S (length a2)) Hnx).
    destruct (forallb len_ok a1); [|reflexivity].
    cbn [parse_seq].
    rewrite (parse_bulk_incomplete f p _ q b (skipn_shift _ _ _ _ Hnx) Hq). reflexivity.
Qed.
Print Assumptions C01_prefix_incomplete.

Example C01_prefix_incomplete_ex :
  let full := enc_cmd [s2b "GET"; [13;10;36]%N] in
  forallb (fun k => match parse (firstn k full) with Invalid => true | _ => false end)
          (seq 0 (length full)) = true
  /\ parse full = Done (PArr [PBulk (s2b "GET"); PBulk [13;10;36]%N]) (length full).
Proof. vm_compute. split; reflexivity. Qed.

(* ====================================================================== *)
(* 8. The dispatched command sequence does not depend on TCP chunking      *)
(* ====================================================================== *)
Definition cmd_ok (args : list bytes) : Prop := (Z.of_nat (length (enc_cmd args)) <= max_i64)%Z.

Lemma enc_cmd_nonempty args : enc_cmd args <> [].
Proof. unfold enc_cmd. discriminate. Qed.

Lemma parse_nil : parse [] = Invalid.
Proof. reflexivity. Qed.

Lemma stream_count_le cmds : length cmds <= length (concat (map enc_cmd cmds)).
Proof.
  induction cmds as [|a cmds IH]; cbn [map concat length]; [lia|].
  rewrite app_length. pose proof (enc_cmd_length a). lia.
Qed.

(* drain dispatches every complete command at the head of the buffer and stops at the
   first incomplete one *)
Lemma drain_cmds : forall cmds tail fuel,
  Forall cmd_ok cmds -> parse tail = Invalid -> length cmds < fuel ->
  drain fuel (concat (map enc_cmd cmds) ++ tail) = (map cmd_val cmds, tail, false).
Proof.
  induction cmds as [|a cmds IH]; intros tail fuel Hok Ht Hf.
  - destruct fuel as [|f]; [lia|]. cbn [map concat app drain]. rewrite Ht. reflexivity.
  - destruct fuel as [|f]; [cbn in Hf; lia|].
    inversion Hok as [|? ? Hok1 Hok2]; subst.
    cbn [map concat drain]. rewrite <- app_assoc.
    rewrite (C01_cmd_roundtrip a _ Hok1).
    destruct (length (enc_cmd a)) as [|n] eqn:El.
    + exfalso. apply (enc_cmd_nonempty a). now apply length_zero_iff_nil.
    + rewrite <- El, skipn_length_app, (IH tail f Hok2 Ht) by (cbn in Hf; lia). reflexivity.
Qed.

(* what has been received is a whole number of commands plus a strict prefix of the next *)
Lemma split_stream : forall cmds buf rest,
  buf ++ rest = concat (map enc_cmd cmds) ->
  exists cmds1 cmds2 tail,
    cmds = cmds1 ++ cmds2 /\ buf = concat (map enc_cmd cmds1) ++ tail /\
    tail ++ rest = concat (map enc_cmd cmds2) /\
    (tail = [] \/ exists c0 r, cmds2 = c0 :: r /\ sprefix tail (enc_cmd c0)).
Proof.
  induction cmds as [|a cmds IH]; intros buf rest H.
  - cbn in H. apply app_eq_nil in H as [-> ->]. exists [], [], []. cbn. auto.
  - cbn [map concat] in H. destruct (app_split _ _ _ _ H) as [(q & Hq & H1 & H2)|(b' & H1 & H2)].
    + exists [], (a :: cmds), buf. cbn [map concat app]. repeat split; auto.
      right. exists a, cmds. split; [reflexivity|]. exists q. auto.
    + destruct (IH _ _ H2) as (c1 & c2 & tail & E1 & E2 & E3 & E4).
      exists (a :: c1), c2, tail. subst. cbn [map concat app]. rewrite <- app_assoc. auto.
Qed.

Lemma tail_invalid tail cmds2 :
  (tail = [] \/ exists c0 r, cmds2 = c0 :: r /\ sprefix tail (enc_cmd c0)) -> parse tail = Invalid.
Proof.
  intros [->|(c0 & r & _ & Hp)]; [reflexivity|]. eapply C01_prefix_incomplete; exact Hp.
Qed.

Lemma conn_run_stream : forall chunks cmds inb,
  Forall cmd_ok cmds ->
  inb ++ concat chunks = concat (map enc_cmd cmds) ->
  (inb = [] \/ exists c0 r, cmds = c0 :: r /\ sprefix inb (enc_cmd c0)) ->
  conn_run chunks inb = (map cmd_val cmds, [], false).
Proof.
  induction chunks as [|ch chunks IH]; intros cmds inb Hok Hs Hinv.
  - cbn [concat] in Hs. rewrite app_nil_r in Hs. cbn [conn_run].
    destruct Hinv as [->|(c0 & r & -> & Hp)].
    + destruct cmds as [|a cmds]; [reflexivity|]. exfalso.
      cbn [map concat] in Hs. symmetry in Hs. apply app_eq_nil in Hs as [Hs _].
      exact (enc_cmd_nonempty a Hs).
    + exfalso. apply sprefix_length in Hp. rewrite Hs in Hp. cbn [map concat] in Hp.
      rewrite app_length in Hp. lia.
  - cbn [concat] in Hs. rewrite app_assoc in Hs.
    destruct (split_stream _ _ _ Hs) as (c1 & c2 & tail & E1 & E2 & E3 & E4).
    cbn [conn_run].
    assert (Hok12 : Forall cmd_ok c1 /\ Forall cmd_ok c2).
    { rewrite E1 in Hok. apply Forall_app in Hok. exact Hok. }
    destruct Hok12 as [Hok1 Hok2].
    assert (Hd : drain (S (length (inb ++ ch))) (inb ++ ch) = (map cmd_val c1, tail, false)).
    { rewrite E2 at 2. apply drain_cmds; [exact Hok1 | exact (tail_invalid _ _ E4) |].
      pose proof (stream_count_le c1) as Hc. rewrite E2, app_length. lia. }
    rewrite Hd. rewrite (IH c2 tail Hok2 E3 E4). rewrite E1, map_app. reflexivity.
Qed.

Theorem C01_chunking_independent : forall cmds chunks,
  Forall (fun args => (Z.of_nat (length (enc_cmd args)) <= max_i64)%Z) cmds ->
  concat chunks = concat (map enc_cmd cmds) ->
  conn_run chunks [] = (map (fun args => PArr (map PBulk args)) cmds, [], false).
Proof.
  intros cmds chunks Hok Hs. apply (conn_run_stream chunks cmds [] Hok Hs). left. reflexivity.
Qed.
Print Assumptions C01_chunking_independent.

(* special cases: any single cut point, and one byte per segment *)
Corollary C01_two_chunks : forall cmds a b,
  Forall cmd_ok cmds -> a ++ b = concat (map enc_cmd cmds) ->
  conn_run [a; b] [] = (map cmd_val cmds, [], false).
Proof.
  intros cmds a b Hok H. apply C01_chunking_independent; [exact Hok|].
  cbn [concat]. rewrite app_nil_r. exact H.
Qed.

Corollary C01_bytewise : forall cmds,
  Forall cmd_ok cmds ->
  conn_run (map (fun x => [x]) (concat (map enc_cmd cmds))) [] = (map cmd_val cmds, [], false).
Proof.
  intros cmds Hok. apply C01_chunking_independent; [exact Hok|].
  induction (concat (map enc_cmd cmds)) as [|x l IH]; cbn [map concat app]; [reflexivity|].
  now rewrite IH.
Qed.

(* the same pipeline in one segment and in any other segmentation gives the same dispatches *)
Corollary C01_chunking_same : forall cmds chunks1 chunks2,
  Forall cmd_ok cmds ->
  concat chunks1 = concat (map enc_cmd cmds) -> concat chunks2 = concat (map enc_cmd cmds) ->
  conn_run chunks1 [] = conn_run chunks2 [] /\
  length (fst (fst (conn_run chunks1 []))) = length cmds.
Proof.
  intros cmds c1 c2 Hok H1 H2.
  rewrite (C01_chunking_independent cmds c1 Hok H1), (C01_chunking_independent cmds c2 Hok H2).
  split; [reflexivity|]. cbn [fst]. apply map_length.
Qed.

(* a peer that stalls inside a command: whatever the segmentation of what HAS arrived, exactly the
   complete commands have been dispatched (their replies are owed now, not when more bytes come),
   and the received part of the next command waits in the buffer *)
Lemma conn_run_stalled : forall chunks cmds inb p c,
  Forall cmd_ok cmds -> sprefix p (enc_cmd c) ->
  inb ++ concat chunks = concat (map enc_cmd cmds) ++ p ->
  (inb = [] \/ exists c0 r, cmds ++ [c] = c0 :: r /\ sprefix inb (enc_cmd c0)) ->
  conn_run chunks inb = (map cmd_val cmds, p, false).
Proof.
  induction chunks as [|ch chunks IH]; intros cmds inb p c Hok Hp Hs Hinv.
  - cbn [concat] in Hs. rewrite app_nil_r in Hs. cbn [conn_run].
    destruct Hinv as [->|(c0 & r & Hc & Hi)].
    + symmetry in Hs. apply app_eq_nil in Hs as [Hs ->].
      destruct cmds as [|a cmds]; [reflexivity|]. exfalso.
      cbn [map concat] in Hs. apply app_eq_nil in Hs as [Hs _]. exact (enc_cmd_nonempty a Hs).
    + destruct cmds as [|a cmds].
      * cbn [map concat app] in Hs. subst inb. reflexivity.
      * exfalso. cbn [app] in Hc. injection Hc as <- _.
        apply sprefix_length in Hi. rewrite Hs in Hi. cbn [map concat] in Hi.
        rewrite !app_length in Hi. lia.
  - destruct Hp as (q & Hq & Hpq).
    assert (Hs' : (inb ++ ch) ++ (concat chunks ++ q) = concat (map enc_cmd (cmds ++ [c]))).
    { rewrite map_app, concat_app. cbn [map concat]. rewrite app_nil_r, <- Hpq.
      rewrite (app_assoc _ p q), <- Hs. cbn [concat]. now rewrite <- !app_assoc. }
    destruct (split_stream _ _ _ Hs') as (c1 & c2 & tail & E1 & E2 & E3 & E4).
    assert (Hc2 : c2 <> []).
    { intros ->. cbn [map concat] in E3. apply app_eq_nil in E3 as [_ E3].
      apply app_eq_nil in E3 as [_ E3]. exact (Hq E3). }
    destruct (exists_last Hc2) as (c2' & x & ->).
    rewrite app_assoc in E1. apply app_inj_tail in E1 as [E1 <-].
    assert (Hok12 : Forall cmd_ok c1 /\ Forall cmd_ok c2').
    { rewrite E1 in Hok. apply Forall_app in Hok. exact Hok. }
    destruct Hok12 as [Hok1 Hok2].
    cbn [conn_run].
    assert (Hd : drain (S (length (inb ++ ch))) (inb ++ ch) = (map cmd_val c1, tail, false)).
    { rewrite E2 at 2. apply drain_cmds; [exact Hok1 | exact (tail_invalid _ _ E4) |].
      pose proof (stream_count_le c1) as Hc. rewrite E2, app_length. lia. }
    rewrite Hd.
    assert (E3' : tail ++ concat chunks = concat (map enc_cmd c2') ++ p).
    { rewrite map_app, concat_app in E3. cbn [map concat] in E3. rewrite app_nil_r, <- Hpq in E3.
      rewrite (app_assoc tail), (app_assoc _ p q) in E3. apply app_inv_tail in E3. exact E3. }
    rewrite (IH c2' tail p c Hok2 (ex_intro _ q (conj Hq Hpq)) E3' E4).
    rewrite E1, map_app. reflexivity.
Qed.

Theorem C01_stalled_peer : forall chunks cmds c p,
  Forall cmd_ok cmds -> sprefix p (enc_cmd c) ->
  concat chunks = concat (map enc_cmd cmds) ++ p ->
  conn_run chunks [] = (map cmd_val cmds, p, false).
Proof.
  intros chunks cmds c p Hok Hp Hs. apply (conn_run_stalled chunks cmds [] p c Hok Hp Hs). left. reflexivity.
Qed.
Print Assumptions C01_stalled_peer.

(* and the rest of the command, whenever and however it arrives, completes the transcript *)
Corollary C01_stall_then_rest : forall chunks1 chunks2 cmds c p q,
  Forall cmd_ok cmds -> cmd_ok c -> q <> [] -> p ++ q = enc_cmd c ->
  concat chunks1 = concat (map enc_cmd cmds) ++ p -> concat chunks2 = q ->
  fst (fst (conn_run chunks1 [])) = map cmd_val cmds /\
  conn_run (chunks1 ++ chunks2) [] = (map cmd_val (cmds ++ [c]), [], false).
Proof.
  intros chunks1 chunks2 cmds c p q Hok Hc Hq Hpq H1 H2. split.
  - rewrite (C01_stalled_peer chunks1 cmds c p Hok (ex_intro _ q (conj Hq Hpq)) H1). reflexivity.
  - apply C01_chunking_independent.
    + apply Forall_app. split; [exact Hok|]. constructor; [exact Hc|constructor].
    + rewrite concat_app, H1, H2, map_app, concat_app. cbn [map concat].
      now rewrite app_nil_r, <- Hpq, <- app_assoc.
Qed.

Example C01_stalled_ex :
  let cmds := [[s2b "SET"; s2b "k"; [13;10;0;255]%N]; [s2b "PING"]] in
  let nxt := [s2b "GET"; s2b "k"] in
  let stream := concat (map enc_cmd cmds) ++ firstn 9 (enc_cmd nxt) in
  conn_run [firstn 7 stream; skipn 7 stream] [] = (map cmd_val cmds, firstn 9 (enc_cmd nxt), false).
Proof. vm_compute. reflexivity. Qed.

Example C01_chunking_ex :
  let cmds := [[s2b "SET"; s2b "k"; [13;10;0;255]%N]; [s2b "PING"]; []; [s2b "GET"; s2b "k"]] in
  let stream := concat (map enc_cmd cmds) in
  conn_run [firstn 7 stream; firstn 30 (skipn 7 stream); []; skipn 37 stream] []
    = (map cmd_val cmds, [], false)
  /\ conn_run [stream] [] = (map cmd_val cmds, [], false)
  /\ conn_run (map (fun x => [x]) stream) [] = (map cmd_val cmds, [], false).
Proof. vm_compute. repeat split; reflexivity. Qed.

(* ====================================================================== *)
(* 10. Simple / error lines cannot carry a second frame                    *)
(* ====================================================================== *)
Theorem C01_lines_safe : forall s, line_safe (sanitize s) = true.
Proof.
  induction s as [|a s IH]; [reflexivity|].
  cbn [sanitize map line_safe forallb]. fold (sanitize s). fold (line_safe (sanitize s)).
  rewrite IH, andb_true_r.
  destruct (N.eqb a 13 || N.eqb a 10) eqn:E; [reflexivity | now rewrite E].
Qed.
Print Assumptions C01_lines_safe.

Theorem C01_err_one_line : forall s,
  exists body, ser (RErr s) = 45%N :: body ++ crlf /\ line_safe body = true.
Proof. intro s. exists (sanitize s). split; [reflexivity | apply C01_lines_safe]. Qed.

Theorem C01_simple_one_line : forall s,
  exists body, ser (RSimple s) = 43%N :: body ++ crlf /\ line_safe body = true.
Proof. intro s. exists (sanitize s). split; [reflexivity | apply C01_lines_safe]. Qed.

Lemma line_safe_no_cr b : line_safe b = true -> Forall (fun x => x <> 13%N) b.
Proof.
  unfold line_safe. intro H. apply Forall_forall. intros x Hx.
  rewrite forallb_forall in H. specialize (H x Hx). intros ->. discriminate H.
Qed.

(* the only CRLF of an error / status reply is its terminator, whatever follows it on
   the wire: scanning for the first line end lands exactly at the end of the reply *)
Theorem C01_err_single_frame : forall s rest,
  let w := ser (RErr s) ++ rest in
  find_crlf (S (length w)) w 0 = Some (length (ser (RErr s))).
Proof.
  intros s rest w.
  assert (Hs : skipn 0 w = (45%N :: sanitize s) ++ 13%N :: 10%N :: rest).
  { subst w. cbn [ser line skipn app]. rewrite <- app_assoc. reflexivity. }
  rewrite (find_line w 0 _ _ Hs).
  - f_equal. cbn [ser line length]. rewrite app_length. cbn [Nat.add length crlf]. lia.
  - constructor; [discriminate | apply line_safe_no_cr, C01_lines_safe].
Qed.
Print Assumptions C01_err_single_frame.

Theorem C01_simple_single_frame : forall s rest,
  let w := ser (RSimple s) ++ rest in
  find_crlf (S (length w)) w 0 = Some (length (ser (RSimple s))).
Proof.
  intros s rest w.
  assert (Hs : skipn 0 w = (43%N :: sanitize s) ++ 13%N :: 10%N :: rest).
  { subst w. cbn [ser line skipn app]. rewrite <- app_assoc. reflexivity. }
  rewrite (find_line w 0 _ _ Hs).
  - f_equal. cbn [ser line length]. rewrite app_length. cbn [Nat.add length crlf]. lia.
  - constructor; [discriminate | apply line_safe_no_cr, C01_lines_safe].
Qed.

Example C01_err_ex :
  (* an error quoting client bytes "x\r\n+OK\r\n" stays one line *)
  ser (RErr (s2b "ERR unknown 'x" ++ [13;10]%N ++ s2b "+OK" ++ [13;10]%N ++ s2b "'"))
  = s2b "-ERR unknown 'x  +OK  '" ++ [13;10]%N.
Proof. vm_compute. reflexivity. Qed.

(* ====================================================================== *)
(* 9 / 11. Every reply is exactly ONE well-formed, self-delimiting value    *)
(* ====================================================================== *)
(* A reference reply parser for the wire forms [ser] produces. *)

(* split at the first CRLF: (line without terminator, rest after terminator) *)
Fixpoint take_line (c : bytes) : option (bytes * bytes) :=
  match c with
  | [] => None
  | x :: c' =>
    let rec := match take_line c' with Some (l, r) => Some (x :: l, r) | None => None end in
    if N.eqb x 13 then
      match c' with
      | y :: c'' => if N.eqb y 10 then Some ([], c'') else rec
      | [] => None
      end
    else rec
  end.

(* n payload bytes followed by CRLF *)
Definition take_blob (n : nat) (r : bytes) : option (bytes * bytes) :=
  match skipn n r with
  | x :: y :: r' => if N.eqb x 13 && N.eqb y 10 then Some (firstn n r, r') else None
  | _ => None
  end.

(* optional '-' then digits, no range limit *)
Definition parse_Z (b : bytes) : option Z :=
  match b with
  | [] => None
  | x :: r =>
    if N.eqb x 45 then match parse_udec r with Some n => Some (- Z.of_N n)%Z | None => None end
    else match parse_udec b with Some n => Some (Z.of_N n) | None => None end
  end.

Section RP.
  Variable rp : bytes -> option (resp * bytes).
  Fixpoint rp_seq (n : nat) (c : bytes) : option (list resp * bytes) :=
    match n with
    | O => Some ([], c)
    | S n' =>
      match rp c with
      | Some (v, r) =>
        match rp_seq n' r with Some (vs, r') => Some (v :: vs, r') | None => None end
      | None => None
      end
    end.
  Fixpoint rp_pairs (n : nat) (c : bytes) : option (list (resp * resp) * bytes) :=
    match n with
    | O => Some ([], c)
    | S n' =>
      match rp c with
      | Some (k, r) =>
        match rp r with
        | Some (v, r2) =>
          match rp_pairs n' r2 with Some (kvs, r') => Some ((k, v) :: kvs, r') | None => None end
        | None => None
        end
      | None => None
      end
    end.

  Definition rp_dispatch (t : N) (body r : bytes) : option (resp * bytes) :=
    if N.eqb t 43 then Some (RSimple body, r)
    else if N.eqb t 45 then Some (RErr body, r)
    else if N.eqb t 58 then
      match parse_Z body with Some z => Some (RInt z, r) | None => None end
    else if N.eqb t 36 then
      if bytes_eqb body (s2b "-1") then Some (RNil, r) else
      match parse_udec body with
      | Some n => match take_blob (N.to_nat n) r with
                  | Some (b, r') => Some (RBulk b, r') | None => None end
      | None => None
      end
    else if N.eqb t 42 then
      match parse_udec body with
      | Some n => match rp_seq (N.to_nat n) r with
                  | Some (vs, r') => Some (RArr vs, r') | None => None end
      | None => None
      end
    else if N.eqb t 126 then
      match parse_udec body with
      | Some n => match rp_seq (N.to_nat n) r with
                  | Some (vs, r') => Some (RSet vs, r') | None => None end
      | None => None
      end
    else if N.eqb t 37 then
      match parse_udec body with
      | Some n => match rp_pairs (N.to_nat n) r with
                  | Some (kvs, r') => Some (RMap kvs, r') | None => None end
      | None => None
      end
    else if N.eqb t 95 then
      match body with [] => Some (RNull, r) | _ => None end
    else if N.eqb t 35 then
      if bytes_eqb body (s2b "t") then Some (RBool true, r)
      else if bytes_eqb body (s2b "f") then Some (RBool false, r) else None
    else if N.eqb t 44 then Some (RDouble body, r)
    else if N.eqb t 40 then Some (RBig body, r)
    else if N.eqb t 61 then
      match parse_udec body with
      | Some n => match take_blob (N.to_nat n) r with
                  | Some (b, r') =>
                    match nth_error b 3 with
                    | Some x => if N.eqb x 58 then Some (RVerb (firstn 3 b) (skipn 4 b), r') else None
                    | None => None
                    end
                  | None => None end
      | None => None
      end
    else None.
End RP.

Fixpoint rp (fuel : nat) (c : bytes) : option (resp * bytes) :=
  match fuel with
  | O => None
  | S f =>
    match take_line c with
    | None => None
    | Some (ln, r) =>
      match ln with
      | [] => None
      | t :: body => rp_dispatch (rp f) t body r
      end
    end
  end.

(* value and number of bytes consumed *)
Definition rparse (c : bytes) : option (resp * nat) :=
  match rp (S (length c)) c with
  | Some (v, r) => Some (v, length c - length r)
  | None => None
  end.

(* what a reply looks like on the wire: model-only markers erased *)
Definition strip2 (strip : resp -> resp) (kv : resp * resp) : resp * resp :=
  (strip (fst kv), strip (snd kv)).

Fixpoint strip (v : resp) : resp :=
  match v with
  | RSimple s => RSimple (sanitize s)
  | RErr s => RErr (sanitize s)
  | RInt z => RInt z
  | RApprox z _ => RInt z
  | RBulk b => RBulk b
  | RNil => RNil
  | RNull => RNull
  | RArr l | RArrU l => RArr (map strip l)
  | RSet l => RSet (map strip l)
  | RMap l => RMap (map (fun kv => (strip (fst kv), strip (snd kv))) l)
  | RPairs l => RArr (map (fun kv => RArr [strip (fst kv); strip (snd kv)]) l)
  | RFlatU l => RArr (flat_map (fun kv => [strip (fst kv); strip (snd kv)]) l)
  | RDouble t => RDouble t
  | RBool b => RBool b
  | RBig t => RBig t
  | RVerb f t => RVerb (pad3 f) t
  | RPick _ _ _ _ | RScan _ _ | RAny => RNil
  end.

(* the only side condition: the text of a double / big number is a line (the emulator
   produces them from numbers); everything else is unrestricted *)
Fixpoint wire_ok (v : resp) : bool :=
  match v with
  | RArr l | RArrU l | RSet l => forallb wire_ok l
  | RMap l | RPairs l | RFlatU l => forallb (fun kv => wire_ok (fst kv) && wire_ok (snd kv)) l
  | RDouble t | RBig t => line_safe t
  | _ => true
  end.

(* ---------- induction principle for the nested type resp ---------- *)
Section RespInd2.
  Variable P : resp -> Prop.
  Definition PP (kv : resp * resp) : Prop := P (fst kv) /\ P (snd kv).
  Hypothesis HSimple : forall s, P (RSimple s).
  Hypothesis HErr : forall s, P (RErr s).
  Hypothesis HInt : forall z, P (RInt z).
  Hypothesis HBulk : forall b, P (RBulk b).
  Hypothesis HNil : P RNil.
  Hypothesis HNull : P RNull.
  Hypothesis HArr : forall l, Forall P l -> P (RArr l).
  Hypothesis HArrU : forall l, Forall P l -> P (RArrU l).
  Hypothesis HMap : forall l, Forall PP l -> P (RMap l).
  Hypothesis HSet : forall l, Forall P l -> P (RSet l).
  Hypothesis HPairs : forall l, Forall PP l -> P (RPairs l).
  Hypothesis HFlatU : forall l, Forall PP l -> P (RFlatU l).
  Hypothesis HDouble : forall t, P (RDouble t).
  Hypothesis HBool : forall b, P (RBool b).
  Hypothesis HBig : forall t, P (RBig t).
  Hypothesis HVerb : forall f t, P (RVerb f t).
  Hypothesis HApprox : forall z u, P (RApprox z u).
  Hypothesis HPick : forall l n s w, P (RPick l n s w).
  Hypothesis HScan : forall l p, P (RScan l p).
  Hypothesis HAny : P RAny.

  Fixpoint resp_ind2 (v : resp) : P v :=
    let fix go (l : list resp) : Forall P l :=
      match l with
      | [] => Forall_nil P
      | x :: r => Forall_cons x (resp_ind2 x) (go r)
      end in
    let fix gop (l : list (resp * resp)) : Forall PP l :=
      match l with
      | [] => Forall_nil PP
      | kv :: r => Forall_cons kv (conj (resp_ind2 (fst kv)) (resp_ind2 (snd kv))) (gop r)
      end in
    match v with
    | RSimple s => HSimple s
    | RErr s => HErr s
    | RInt z => HInt z
    | RBulk b => HBulk b
    | RNil => HNil
    | RNull => HNull
    | RArr l => HArr l (go l)
    | RArrU l => HArrU l (go l)
    | RMap l => HMap l (gop l)
    | RSet l => HSet l (go l)
    | RPairs l => HPairs l (gop l)
    | RFlatU l => HFlatU l (gop l)
    | RDouble t => HDouble t
    | RBool b => HBool b
    | RBig t => HBig t
    | RVerb f t => HVerb f t
    | RApprox z u => HApprox z u
    | RPick l n s w => HPick l n s w
    | RScan l p => HScan l p
    | RAny => HAny
    end.
End RespInd2.

(* ---------- building blocks ---------- *)
Lemma take_line_app l : forall rest,
  Forall (fun x => x <> 13%N) l -> take_line (l ++ 13%N :: 10%N :: rest) = Some (l, rest).
Proof.
  induction l as [|x l IH]; intros rest Hl.
  - reflexivity.
  - inversion Hl as [|? ? Hx Hl']; subst.
    cbn [app take_line]. rewrite (IH rest Hl').
    destruct (N.eqb_spec x 13) as [E|_]; [contradiction|]. reflexivity.
Qed.

Lemma take_blob_app b rest : take_blob (length b) (b ++ 13%N :: 10%N :: rest) = Some (b, rest).
Proof. unfold take_blob. rewrite skipn_length_app, firstn_length_app. reflexivity. Qed.

Lemma line_length t body : length (line t body) = length body + 3.
Proof. unfold line. cbn [length]. rewrite app_length. cbn. lia. Qed.

Lemma rp_line f (t : N) body X :
  t <> 13%N -> Forall (fun x => x <> 13%N) body ->
  rp (S f) (line t body ++ X) = rp_dispatch (rp f) t body X.
Proof.
  intros Ht Hb. cbn [rp].
  replace (line t body ++ X) with ((t :: body) ++ 13%N :: 10%N :: X)
    by (unfold line, crlf; cbn [app]; rewrite <- app_assoc; reflexivity).
  rewrite take_line_app by (constructor; assumption). reflexivity.
Qed.

Lemma Z_to_bytes_no_cr z : Forall (fun x => x <> 13%N) (Z_to_bytes z).
Proof.
  destruct z as [|p|p]; cbn [Z_to_bytes].
  - constructor; [discriminate | constructor].
  - apply (dec_no_cr (Npos p)).
  - constructor; [discriminate | apply (dec_no_cr (Npos p))].
Qed.

Lemma dec_first_digit n : exists d r, N_to_bytes n = d :: r /\ is_digit d = true.
Proof.
  pose proof (C01_dec_nonempty n) as Hn. pose proof (C01_dec_digits n) as Hd.
  destruct (N_to_bytes n) as [|d r]; [congruence|]. exists d, r. split; [reflexivity|].
  now inversion Hd.
Qed.

Lemma parse_Z_dec n : parse_Z (N_to_bytes n) = Some (Z.of_N n).
Proof.
  destruct (dec_first_digit n) as (d & r & E & Hd). unfold parse_Z.
  pose proof (parse_udec_N n) as Hu. rewrite E in *.
  destruct (N.eqb_spec d 45) as [->|_]; [vm_compute in Hd; discriminate|].
  rewrite Hu. reflexivity.
Qed.

Lemma parse_Z_roundtrip z : parse_Z (Z_to_bytes z) = Some z.
Proof.
  destruct z as [|p|p]; cbn [Z_to_bytes].
  - reflexivity.
  - apply (parse_Z_dec (Npos p)).
  - change (uint_bytes (Pos.to_uint p)) with (N_to_bytes (Npos p)).
    unfold parse_Z. cbn [N.eqb Pos.eqb]. rewrite parse_udec_N. reflexivity.
Qed.

Lemma dec_not_m1 n : bytes_eqb (N_to_bytes n) (s2b "-1") = false.
Proof.
  apply bytes_eqb_neq. intro H. pose proof (C01_dec_digits n) as Hd. rewrite H in Hd.
  inversion Hd as [|? ? Hd1 _]. vm_compute in Hd1. discriminate.
Qed.

Lemma pad3_length f : length (pad3 f) = 3.
Proof. unfold pad3. rewrite firstn_length, app_length. cbn [length]. lia. Qed.

(* bulk strings: any payload bytes *)
Lemma rp_bulk f b rest : rp (S f) (ser_bulk b ++ rest) = Some (RBulk b, rest).
Proof.
  unfold ser_bulk. rewrite <- app_assoc.
  rewrite rp_line by (try discriminate; apply dec_no_cr).
  unfold rp_dispatch. cbn [N.eqb Pos.eqb].
  rewrite dec_not_m1, parse_udec_N, Nat2N.id.
  unfold crlf. rewrite <- app_assoc. cbn [app]. rewrite take_blob_app. reflexivity.
Qed.

Definition Pv (v : resp) : Prop :=
  wire_ok v = true -> forall f rest, length (ser v) <= f -> rp f (ser v ++ rest) = Some (strip v, rest).

Lemma rp_seq_ok l : Forall Pv l -> forallb wire_ok l = true ->
  forall f rest, length (concat (map ser l)) <= f ->
  rp_seq (rp f) (length l) (concat (map ser l) ++ rest) = Some (map strip l, rest).
Proof.
  induction 1 as [|x l Hx Hl IH]; intros Hok f rest Hf; [reflexivity|].
  cbn [forallb] in Hok. apply andb_true_iff in Hok as [Hok1 Hok2].
  cbn [map concat length] in *. rewrite app_length in Hf. rewrite <- app_assoc.
  cbn [rp_seq]. rewrite (Hx Hok1 f _ ltac:(lia)), (IH Hok2 f rest ltac:(lia)). reflexivity.
Qed.

Lemma rp_pairs_ok l : Forall (PP Pv) l ->
  forallb (fun kv => wire_ok (fst kv) && wire_ok (snd kv)) l = true ->
  forall f rest, length (concat (map (fun kv => ser (fst kv) ++ ser (snd kv)) l)) <= f ->
  rp_pairs (rp f) (length l) (concat (map (fun kv => ser (fst kv) ++ ser (snd kv)) l) ++ rest)
  = Some (map (fun kv => (strip (fst kv), strip (snd kv))) l, rest).
Proof.
  induction 1 as [|x l Hx Hl IH]; intros Hok f rest Hf; [reflexivity|].
  cbn [forallb] in Hok. apply andb_true_iff in Hok as [Hok1 Hok2].
  apply andb_true_iff in Hok1 as [Hk Hv]. destruct Hx as [Hx1 Hx2].
  cbn [map concat length] in *. rewrite !app_length in Hf. rewrite <- !app_assoc.
  cbn [rp_pairs]. rewrite (Hx1 Hk f _ ltac:(lia)), (Hx2 Hv f _ ltac:(lia)), (IH Hok2 f rest ltac:(lia)).
  reflexivity.
Qed.

(* a map flattened to k v k v ... *)
Lemma rp_flat_ok l : Forall (PP Pv) l ->
  forallb (fun kv => wire_ok (fst kv) && wire_ok (snd kv)) l = true ->
  forall f rest, length (concat (map (fun kv => ser (fst kv) ++ ser (snd kv)) l)) <= f ->
  rp_seq (rp f) (2 * length l) (concat (map (fun kv => ser (fst kv) ++ ser (snd kv)) l) ++ rest)
  = Some (flat_map (fun kv => [strip (fst kv); strip (snd kv)]) l, rest).
Proof.
  induction 1 as [|x l Hx Hl IH]; intros Hok f rest Hf; [reflexivity|].
  cbn [forallb] in Hok. apply andb_true_iff in Hok as [Hok1 Hok2].
  apply andb_true_iff in Hok1 as [Hk Hv]. destruct Hx as [Hx1 Hx2].
  cbn [map concat length flat_map app] in *. rewrite !app_length in Hf. rewrite <- !app_assoc.
  replace (2 * S (length l)) with (S (S (2 * length l))) by lia.
  cbn [rp_seq]. rewrite (Hx1 Hk f _ ltac:(lia)), (Hx2 Hv f _ ltac:(lia)), (IH Hok2 f rest ltac:(lia)).
  reflexivity.
Qed.

(* an array of 2-element arrays *)
Lemma rp_pairarr_ok l : Forall (PP Pv) l ->
  forallb (fun kv => wire_ok (fst kv) && wire_ok (snd kv)) l = true ->
  forall f rest,
  length (concat (map (fun kv => s2b "*2" ++ crlf ++ ser (fst kv) ++ ser (snd kv)) l)) <= f ->
  rp_seq (rp f) (length l)
    (concat (map (fun kv => s2b "*2" ++ crlf ++ ser (fst kv) ++ ser (snd kv)) l) ++ rest)
  = Some (map (fun kv => RArr [strip (fst kv); strip (snd kv)]) l, rest).
Proof.
  induction 1 as [|x l Hx Hl IH]; intros Hok f rest Hf; [reflexivity|].
  cbn [forallb] in Hok. apply andb_true_iff in Hok as [Hok1 Hok2].
  apply andb_true_iff in Hok1 as [Hk Hv]. destruct Hx as [Hx1 Hx2].
  cbn [map concat length] in *.
  change (s2b "*2" ++ crlf ++ ser (fst x) ++ ser (snd x))
    with (line 42%N [50%N] ++ (ser (fst x) ++ ser (snd x))) in *.
  rewrite !app_length, line_length in Hf. cbn [length] in Hf. rewrite <- !app_assoc.
  destruct f as [|f]; [lia|].
  cbn [rp_seq].
  rewrite rp_line by (try discriminate; repeat constructor; discriminate).
  unfold rp_dispatch at 1. cbn [N.eqb Pos.eqb].
  change (parse_udec [50%N]) with (Some 2%N). cbv beta iota. change (N.to_nat 2%N) with 2%nat.
  cbn [rp_seq]. rewrite (Hx1 Hk f _ ltac:(lia)), (Hx2 Hv f _ ltac:(lia)).
  rewrite (IH Hok2 (S f) rest ltac:(lia)). reflexivity.
Qed.

Lemma ser_nil_shape : s2b "$-1" ++ crlf = line 36%N [45%N; 49%N].
Proof. reflexivity. Qed.

Lemma rp_nil f rest : rp (S f) ((s2b "$-1" ++ crlf) ++ rest) = Some (RNil, rest).
Proof.
  rewrite ser_nil_shape, rp_line by (try discriminate; repeat constructor; discriminate).
  reflexivity.
Qed.

Lemma hdr_count f (t : N) n X :
  t <> 13%N ->
  rp (S f) ((line t (N_to_bytes (N.of_nat n)) ++ X)) = rp_dispatch (rp f) t (N_to_bytes (N.of_nat n)) X.
Proof. intro Ht. apply rp_line; [exact Ht | apply dec_no_cr]. Qed.

Lemma ser_nonempty v : 1 <= length (ser v).
Proof.
  destruct v; try (destruct b); cbn [ser]; cbv zeta; unfold ser_bulk, line;
    rewrite ?app_length; cbn [length]; try lia; vm_compute; lia.
Qed.

Theorem rp_ser : forall v, Pv v.
Proof.
  intro v; induction v using resp_ind2; unfold Pv; intros Hok fu rest Hf;
    (destruct fu as [|fu]; [exfalso; match type of Hf with length (ser ?w) <= _ => pose proof (ser_nonempty w) as Hne end; lia|]).
  - (* RSimple *) cbn [ser strip].
    rewrite rp_line by (try discriminate; apply line_safe_no_cr, C01_lines_safe). reflexivity.
  - (* RErr *) cbn [ser strip].
    rewrite rp_line by (try discriminate; apply line_safe_no_cr, C01_lines_safe). reflexivity.
  - (* RInt *) cbn [ser strip].
    rewrite rp_line by (try discriminate; apply Z_to_bytes_no_cr).
    unfold rp_dispatch. cbn [N.eqb Pos.eqb]. rewrite parse_Z_roundtrip. reflexivity.
  - (* RBulk *) apply rp_bulk.
  - (* RNil *) apply rp_nil.
  - (* RNull *) reflexivity.
  - (* RArr *) cbn [ser strip wire_ok] in *. rewrite app_length, line_length in Hf.
    rewrite <- app_assoc, hdr_count by discriminate.
    unfold rp_dispatch. cbn [N.eqb Pos.eqb]. rewrite parse_udec_N, Nat2N.id.
    rewrite (rp_seq_ok l H Hok fu rest ltac:(lia)). reflexivity.
  - (* RArrU *) cbn [ser strip wire_ok] in *. rewrite app_length, line_length in Hf.
    rewrite <- app_assoc, hdr_count by discriminate.
    unfold rp_dispatch. cbn [N.eqb Pos.eqb]. rewrite parse_udec_N, Nat2N.id.
    rewrite (rp_seq_ok l H Hok fu rest ltac:(lia)). reflexivity.
  - (* RMap *) cbn [ser strip wire_ok] in *. rewrite app_length, line_length in Hf.
    rewrite <- app_assoc, hdr_count by discriminate.
    unfold rp_dispatch. cbn [N.eqb Pos.eqb]. rewrite parse_udec_N, Nat2N.id.
    rewrite (rp_pairs_ok l H Hok fu rest ltac:(lia)). reflexivity.
  - (* RSet *) cbn [ser strip wire_ok] in *. rewrite app_length, line_length in Hf.
    rewrite <- app_assoc, hdr_count by discriminate.
    unfold rp_dispatch. cbn [N.eqb Pos.eqb]. rewrite parse_udec_N, Nat2N.id.
    rewrite (rp_seq_ok l H Hok fu rest ltac:(lia)). reflexivity.
  - (* RPairs *) cbn [ser strip wire_ok] in *. rewrite app_length, line_length in Hf.
    rewrite <- app_assoc, hdr_count by discriminate.
    unfold rp_dispatch. cbn [N.eqb Pos.eqb]. rewrite parse_udec_N, Nat2N.id.
    rewrite (rp_pairarr_ok l H Hok fu rest ltac:(lia)). reflexivity.
  - (* RFlatU *) cbn [ser strip wire_ok] in *. rewrite app_length, line_length in Hf.
    rewrite <- app_assoc, hdr_count by discriminate.
    unfold rp_dispatch. cbn [N.eqb Pos.eqb]. rewrite parse_udec_N, Nat2N.id.
    rewrite (rp_flat_ok l H Hok fu rest ltac:(lia)). reflexivity.
  - (* RDouble *) cbn [ser strip wire_ok] in *.
    rewrite rp_line by (try discriminate; apply line_safe_no_cr, Hok). reflexivity.
  - (* RBool *) destruct b; reflexivity.
  - (* RBig *) cbn [ser strip wire_ok] in *.
    rewrite rp_line by (try discriminate; apply line_safe_no_cr, Hok). reflexivity.
  - (* RVerb *) cbn [ser strip]. cbv zeta.
    rewrite <- !app_assoc, hdr_count by discriminate.
    unfold rp_dispatch. cbn [N.eqb Pos.eqb]. rewrite parse_udec_N, Nat2N.id.
    unfold crlf. cbn [app].
    replace (pad3 f ++ 58%N :: t ++ 13%N :: 10%N :: rest)
      with ((pad3 f ++ 58%N :: t) ++ 13%N :: 10%N :: rest)
      by (rewrite <- app_assoc; reflexivity).
    rewrite take_blob_app.
    pose proof (pad3_length f) as Hp.
    rewrite nth_error_app2 by lia. rewrite Hp. cbn [Nat.sub nth_error N.eqb Pos.eqb].
    rewrite <- Hp at 1. rewrite firstn_length_app.
    replace (pad3 f ++ 58%N :: t) with ((pad3 f ++ [58%N]) ++ t) by (rewrite <- app_assoc; reflexivity).
    replace 4 with (length (pad3 f ++ [58%N])) by (rewrite app_length, Hp; reflexivity).
    rewrite skipn_length_app. reflexivity.
  - (* RApprox *) cbn [ser strip].
    rewrite rp_line by (try discriminate; apply Z_to_bytes_no_cr).
    unfold rp_dispatch. cbn [N.eqb Pos.eqb]. rewrite parse_Z_roundtrip. reflexivity.
  - (* RPick *) apply rp_nil.
  - (* RScan *) apply rp_nil.
  - (* RAny *) apply rp_nil.
Qed.

Theorem C01_reply_parses : forall v, wire_ok v = true ->
  forall rest, rparse (ser v ++ rest) = Some (strip v, length (ser v)).
Proof.
  intros v Hok rest. unfold rparse.
  rewrite (rp_ser v Hok (S (length (ser v ++ rest))) rest) by (rewrite app_length; lia).
  f_equal. f_equal. rewrite app_length. lia.
Qed.
Print Assumptions C01_reply_parses.

(* 11. bulk replies are binary safe: any payload, any continuation *)
Theorem C01_bulk_binary_safe : forall b rest,
  rparse (ser (RBulk b) ++ rest) = Some (RBulk b, length (ser (RBulk b))).
Proof. intros b rest. apply (C01_reply_parses (RBulk b) eq_refl). Qed.
Print Assumptions C01_bulk_binary_safe.

(* a pipeline of replies is read back one value per reply, in order, nothing left over *)
Theorem C01_reply_stream : forall vs rest, forallb wire_ok vs = true ->
  rp_seq (rp (S (length (concat (map ser vs) ++ rest)))) (length vs) (concat (map ser vs) ++ rest)
  = Some (map strip vs, rest).
Proof.
  intros vs rest Hok. apply rp_seq_ok; [|exact Hok|rewrite app_length; lia].
  apply Forall_forall. intros v _. apply rp_ser.
Qed.
Print Assumptions C01_reply_stream.

Example C01_reply_parses_ex :
  let v := RArr [RBulk [13;10;36;49;13;10]%N; RErr (s2b "ERR 'a" ++ [13;10]%N ++ s2b "+OK'");
                 RInt (-42); RNil; RArrU [RSimple (s2b "OK"); RBulk []];
                 RMap [(RBulk (s2b "k"), RDouble (s2b "1.5"))]; RVerb (s2b "txt") (s2b "a:b");
                 RPairs [(RBulk (s2b "f"), RInt 1)]; RFlatU [(RBulk (s2b "f"), RBool true)]; RNull;
                 RSet [RBig (s2b "123456789012345678901234567890")]] in
  wire_ok v = true /\
  rparse (ser v ++ s2b "+next") = Some (strip v, length (ser v)).
Proof. vm_compute. split; reflexivity. Qed.
