(* Lemmas.v — basic facts about the association-list primitives and the store
   primitives, shared by the property proofs. *)
From RE Require Import Base Resp State.
Open Scope Z_scope.

Section AssocFacts.
  Context {V : Type}.
  Implicit Types (m : list (bytes * V)) (k : bytes) (v : V).

  Lemma aget_aset_same m k v : aget (aset m k v) k = Some v.
  Proof.
    induction m as [|[k' v'] m IH]; simpl.
    - rewrite bytes_eqb_refl. reflexivity.
    - destruct (bytes_eqb k k') eqn:E; simpl.
      + rewrite bytes_eqb_refl. reflexivity.
      + rewrite E. exact IH.
  Qed.

  Lemma aget_aset_other m k k' v : k' <> k -> aget (aset m k v) k' = aget m k'.
  Proof.
    intro Hne. induction m as [|[k0 v0] m IH]; simpl.
    - apply bytes_eqb_neq in Hne. rewrite Hne. reflexivity.
    - destruct (bytes_eqb k k0) eqn:E; simpl.
      + apply bytes_eqb_eq in E. subst k0.
        apply bytes_eqb_neq in Hne. rewrite Hne. reflexivity.
      + destruct (bytes_eqb k' k0); [reflexivity | exact IH].
  Qed.

  Lemma aget_adel_same m k : aget (adel m k) k = None.
  Proof.
    induction m as [|[k' v'] m IH]; simpl; [reflexivity|].
    destruct (bytes_eqb k k') eqn:E; simpl; [exact IH|]. rewrite E. exact IH.
  Qed.

  Lemma aget_adel_other m k k' : k' <> k -> aget (adel m k) k' = aget m k'.
  Proof.
    intro Hne. induction m as [|[k0 v0] m IH]; simpl; [reflexivity|].
    destruct (bytes_eqb k k0) eqn:E; simpl.
    - apply bytes_eqb_eq in E. subst k0.
      apply bytes_eqb_neq in Hne. rewrite Hne. exact IH.
    - destruct (bytes_eqb k' k0); [reflexivity | exact IH].
  Qed.

  (* keys of an association list are distinct *)
  Definition akeys m : list bytes := map fst m.

  Lemma akeys_aset_in m k v x : In x (akeys (aset m k v)) <-> x = k \/ In x (akeys m).
  Proof.
    induction m as [|[k' v'] m IH]; simpl.
    - split; [intros [H|[]]; left; auto | intros [H|[]]; left; auto].
    - destruct (bytes_eqb k k') eqn:E; simpl.
      + apply bytes_eqb_eq in E. subst k'. split.
        * intros [H|H]; [left; auto | right; right; exact H].
        * intros [H|[H|H]]; [left; auto | left; auto | right; exact H].
      + rewrite IH. split.
        * intros [H|[H|H]]; [right; left; exact H | left; exact H | right; right; exact H].
        * intros [H|[H|H]]; [right; left; exact H | left; exact H | right; right; exact H].
  Qed.

  Lemma akeys_adel_in m k x : In x (akeys (adel m k)) <-> x <> k /\ In x (akeys m).
  Proof.
    induction m as [|[k' v'] m IH]; simpl; [tauto|].
    destruct (bytes_eqb k k') eqn:E; simpl.
    - apply bytes_eqb_eq in E. subst k'. rewrite IH. split; [tauto|].
      intros [Hne [H|H]]; [congruence|tauto].
    - rewrite IH. apply bytes_eqb_neq in E. split.
      + intros [H|[H1 H2]]; [subst; split; [congruence|auto] | tauto].
      + tauto.
  Qed.

  Lemma NoDup_akeys_aset m k v : NoDup (akeys m) -> NoDup (akeys (aset m k v)).
  Proof.
    induction m as [|[k' v'] m IH]; simpl; intro H.
    - constructor; [intros []|constructor].
    - inversion H as [|? ? Hnin Hnd]; subst.
      destruct (bytes_eqb k k') eqn:E; simpl.
      + apply bytes_eqb_eq in E. subst k'. constructor; assumption.
      + constructor; [|apply IH; assumption].
        intro Hin. apply akeys_aset_in in Hin. apply bytes_eqb_neq in E.
        destruct Hin as [Hin|Hin]; [congruence|contradiction].
  Qed.

  Lemma NoDup_akeys_adel m k : NoDup (akeys m) -> NoDup (akeys (adel m k)).
  Proof.
    induction m as [|[k' v'] m IH]; simpl; intro H; [constructor|].
    inversion H as [|? ? Hnin Hnd]; subst.
    destruct (bytes_eqb k k') eqn:E; simpl; [apply IH; assumption|].
    constructor; [|apply IH; assumption].
    intro Hin. apply akeys_adel_in in Hin. tauto.
  Qed.

  Lemma aget_some_in m k v : aget m k = Some v -> In k (akeys m).
  Proof.
    induction m as [|[k' v'] m IH]; simpl; [discriminate|].
    destruct (bytes_eqb k k') eqn:E; intro H.
    - apply bytes_eqb_eq in E. left. congruence.
    - right. apply IH. exact H.
  Qed.

  Lemma aget_none_notin m k : aget m k = None -> ~ In k (akeys m).
  Proof.
    induction m as [|[k' v'] m IH]; simpl; [tauto|].
    destruct (bytes_eqb k k') eqn:E; [discriminate|]. intros H [H1|H1].
    - apply bytes_eqb_neq in E. congruence.
    - apply IH in H. contradiction.
  Qed.
End AssocFacts.

(* ---------- store primitives ---------- *)
Lemma lookup_put_same now d k v exp :
  lookup now (put d k v exp) k =
  let e := mkE v exp (d_next d + 1)%N in if expired now e then None else Some e.
Proof. unfold lookup, put; simpl. rewrite aget_aset_same. reflexivity. Qed.

Lemma lookup_put_other now d k k' v exp : k' <> k -> lookup now (put d k v exp) k' = lookup now d k'.
Proof. intro H. unfold lookup, put; simpl. rewrite aget_aset_other by assumption. reflexivity. Qed.

Lemma lookup_del_same now d k : lookup now (del d k) k = None.
Proof. unfold lookup, del; simpl. rewrite aget_adel_same. reflexivity. Qed.

Lemma lookup_del_other now d k k' : k' <> k -> lookup now (del d k) k' = lookup now d k'.
Proof. intro H. unfold lookup, del; simpl. rewrite aget_adel_other by assumption. reflexivity. Qed.

Lemma lookup_put_or_del_other now d k k' v exp :
  k' <> k -> lookup now (put_or_del d k v exp) k' = lookup now d k'.
Proof.
  intro H. unfold put_or_del. destruct (is_empty_agg v).
  - apply lookup_del_other; assumption.
  - apply lookup_put_other; assumption.
Qed.

(* versions only grow, and every write takes a version never used before *)
Lemma put_next d k v exp : d_next (put d k v exp) = (d_next d + 1)%N.
Proof. reflexivity. Qed.
Lemma del_next d k : d_next (del d k) = (d_next d + 1)%N.
Proof. reflexivity. Qed.
