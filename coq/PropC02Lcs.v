(* PropC02Lcs.v — the LCS command (model: Lcs.v).
   1. the table of Lcs.v holds, in cell (i, j), the textbook LCS length of the prefixes a[0..i), b[0..j);
   2. the reply of plain LCS is a longest common subsequence of the two strings, LEN is its length;
   3. the IDX ranges: well formed, equal substrings, strictly decreasing, maximal, sum = LCS length,
      reverse concatenation = the LCS string;
   4. command level facts of cmd_lcs;
   5. the documentation examples.
   No size bound on the strings anywhere. Standard library only. *)
From RE Require Import Base Resp State Exec Lcs.
From Coq Require Import String.
From Coq Require Import List Lia Arith.
Import ListNotations.
Open Scope list_scope.
Open Scope nat_scope.

(* ====================================================================== *)
(* 1. The specification and the table                                      *)
(* ====================================================================== *)

(* textbook recursion, on the reversed strings (so that it is structural):
   lcs_r (x :: ra) (y :: rb) = if x = y then 1 + lcs_r ra rb else max (lcs_r ra (y :: rb)) (lcs_r (x :: ra) rb) *)
Fixpoint lcs_r (ra rb : list N) {struct ra} : nat :=
  match ra with
  | [] => 0
  | x :: ra' =>
    (fix inner (rb : list N) : nat :=
       match rb with
       | [] => 0
       | y :: rb' => if N.eqb x y then S (lcs_r ra' rb') else Nat.max (lcs_r ra' rb) (inner rb')
       end) rb
  end.

(* LCS length of a and b: recursion on the last characters (i.e. on prefixes) *)
Definition lcs_spec (a b : list N) : nat := lcs_r (rev a) (rev b).

Lemma lcs_r_nil_r ra : lcs_r ra [] = 0.
Proof. destruct ra; reflexivity. Qed.

Lemma lcs_r_cons x ra y rb :
  lcs_r (x :: ra) (y :: rb) =
  if N.eqb x y then S (lcs_r ra rb) else Nat.max (lcs_r ra (y :: rb)) (lcs_r (x :: ra) rb).
Proof. reflexivity. Qed.

(* the three defining equations of the specification, in prefix form *)
Lemma lcs_spec_nil_l b : lcs_spec [] b = 0.
Proof. reflexivity. Qed.

Lemma lcs_spec_nil_r a : lcs_spec a [] = 0.
Proof. unfold lcs_spec. cbn [rev]. apply lcs_r_nil_r. Qed.

Lemma lcs_spec_snoc a x b y :
  lcs_spec (a ++ [x]) (b ++ [y]) =
  if N.eqb x y then S (lcs_spec a b)
  else Nat.max (lcs_spec a (b ++ [y])) (lcs_spec (a ++ [x]) b).
Proof. unfold lcs_spec. rewrite !rev_unit. apply lcs_r_cons. Qed.

(* ---- list helpers ---- *)
Lemma nth_map_seq {A} (f : nat -> A) d n s i :
  i < n -> nth i (map f (seq s n)) d = f (s + i).
Proof.
  revert s i. induction n as [|n IH]; intros s i Hi; [lia|].
  destruct i as [|i]; cbn [seq map nth].
  - f_equal. lia.
  - rewrite IH by lia. f_equal. lia.
Qed.

Lemma firstn_S_nth {A} (d : A) l i :
  i < length l -> firstn (S i) l = firstn i l ++ [nth i l d].
Proof.
  revert l. induction i as [|i IH]; intros [|x l] Hi; cbn [length] in Hi; try lia.
  - reflexivity.
  - change (x :: firstn (S i) l = x :: (firstn i l ++ [nth i l d])).
    rewrite (IH l) by lia. reflexivity.
Qed.

Lemma firstn_app_exact {A} (l1 l2 : list A) : firstn (length l1) (l1 ++ l2) = l1.
Proof. induction l1 as [|x l1 IH]; cbn; [destruct l2; reflexivity | rewrite IH; reflexivity]. Qed.

Lemma firstn_app_snoc {A} (l1 : list A) y l2 : firstn (S (length l1)) (l1 ++ y :: l2) = l1 ++ [y].
Proof. induction l1 as [|x l1 IH]; cbn; [reflexivity | cbn in IH; rewrite IH; reflexivity]. Qed.

(* ---- the specification row ---- *)
(* srow pa b = [ lcs_spec pa b[0..j)  |  j = 0 .. |b| ] *)
Definition srow (pa b : list N) : list nat :=
  map (fun j => lcs_spec pa (firstn j b)) (seq 0 (S (length b))).

Lemma row0_srow b : row0 b = srow [] b.
Proof.
  unfold row0, srow. generalize (S (length b)) as n. intro n.
  change (repeat 0 n = map (fun _ : nat => 0) (seq 0 n)).
  generalize 0 at 3 as s. revert n.
  induction n as [|n IH]; intro s; cbn [repeat seq map]; [reflexivity|].
  rewrite <- IH. reflexivity.
Qed.

Lemma next_row_spec pa x b2 : forall b1,
  next_row x b2
    (map (fun j => lcs_spec pa (firstn j (b1 ++ b2))) (seq (length b1) (S (length b2))))
    (lcs_spec (pa ++ [x]) b1)
  = map (fun j => lcs_spec (pa ++ [x]) (firstn j (b1 ++ b2))) (seq (S (length b1)) (length b2)).
Proof.
  induction b2 as [|y b2 IH]; intro b1; [reflexivity|].
  cbn [length seq map next_row].
  rewrite firstn_app_exact, firstn_app_snoc.
  rewrite <- lcs_spec_snoc.
  f_equal.
  specialize (IH (b1 ++ [y])).
  rewrite <- app_assoc in IH. cbn [app] in IH.
  rewrite app_length in IH. cbn [length] in IH.
  replace (length b1 + 1) with (S (length b1)) in IH by lia.
  cbn [seq map] in IH. rewrite firstn_app_snoc in IH. exact IH.
Qed.

Lemma next_row_srow pa x b : 0 :: next_row x b (srow pa b) 0 = srow (pa ++ [x]) b.
Proof.
  unfold srow. cbn [seq map firstn]. rewrite !lcs_spec_nil_r. f_equal.
  pose proof (next_row_spec pa x b []) as H. cbn [app length] in H.
  cbn [seq map firstn] in H. rewrite !lcs_spec_nil_r in H. exact H.
Qed.

Lemma rows_spec b a2 : forall a1,
  rows a2 b (srow a1 b) =
  map (fun i => srow (firstn i (a1 ++ a2)) b) (seq (S (length a1)) (length a2)).
Proof.
  induction a2 as [|x a2 IH]; intro a1; [reflexivity|].
  cbn [rows length seq map].
  rewrite next_row_srow, firstn_app_snoc. f_equal.
  specialize (IH (a1 ++ [x])).
  rewrite <- app_assoc in IH. cbn [app] in IH.
  rewrite app_length in IH. cbn [length] in IH.
  replace (length a1 + 1) with (S (length a1)) in IH by lia.
  exact IH.
Qed.

Lemma table_spec a b :
  table a b = map (fun i => srow (firstn i a) b) (seq 0 (S (length a))).
Proof.
  unfold table. rewrite row0_srow. cbn [seq map firstn]. f_equal.
  exact (rows_spec b a []).
Qed.

(* Table correctness: every cell is the textbook LCS length of the two prefixes. *)
Theorem C02_lcs_table_correct : forall a b i j,
  i <= length a -> j <= length b ->
  cell (table a b) i j = lcs_spec (firstn i a) (firstn j b).
Proof.
  intros a b i j Hi Hj. unfold cell. rewrite table_spec.
  rewrite nth_map_seq by lia. unfold srow. rewrite nth_map_seq by lia. reflexivity.
Qed.
Print Assumptions C02_lcs_table_correct.

Corollary C02_lcs_length_spec : forall a b, lcs_length a b = lcs_spec a b.
Proof.
  intros a b. unfold lcs_length. rewrite C02_lcs_table_correct by lia.
  rewrite !firstn_all. reflexivity.
Qed.
Print Assumptions C02_lcs_length_spec.

Example table_ex :
  table [1;2;3]%N [2;3;4]%N = [[0;0;0;0];[0;0;0;0];[0;1;1;1];[0;1;2;2]]
  /\ cell (table [1;2;3]%N [2;3;4]%N) 3 2 = lcs_spec (firstn 3 [1;2;3]%N) (firstn 2 [2;3;4]%N).
Proof. split; vm_compute; reflexivity. Qed.

(* ====================================================================== *)
(* 2. Optimality                                                           *)
(* ====================================================================== *)

Inductive subseq : list N -> list N -> Prop :=
| ss_nil  : forall l, subseq [] l
| ss_skip : forall s x l, subseq s l -> subseq s (x :: l)
| ss_take : forall s x l, subseq s l -> subseq (x :: s) (x :: l).

Lemma subseq_refl l : subseq l l.
Proof. induction l; constructor; assumption. Qed.

Lemma subseq_tail x s l : subseq (x :: s) l -> subseq s l.
Proof.
  intro H. remember (x :: s) as xs eqn:E. revert x s E.
  induction H as [l | s' y l H IH | s' y l H IH]; intros x s E.
  - discriminate.
  - constructor. eapply IH; eassumption.
  - inversion E; subst. constructor. assumption.
Qed.

Lemma subseq_app s1 l1 s2 l2 : subseq s1 l1 -> subseq s2 l2 -> subseq (s1 ++ s2) (l1 ++ l2).
Proof.
  intros H1 H2. induction H1 as [l | s x l H IH | s x l H IH]; cbn [app].
  - induction l as [|x l IHl]; cbn [app]; [assumption | constructor; assumption].
  - constructor; assumption.
  - constructor; assumption.
Qed.

Lemma subseq_app_r s l l' : subseq s l -> subseq s (l ++ l').
Proof.
  intro H. rewrite <- (app_nil_r s). apply subseq_app; [assumption | constructor].
Qed.

Lemma subseq_snoc s l x : subseq s l -> subseq (s ++ [x]) (l ++ [x]).
Proof. intro H. apply subseq_app; [assumption | apply subseq_refl]. Qed.

Lemma subseq_rev s l : subseq s l -> subseq (rev s) (rev l).
Proof.
  induction 1 as [l | s x l H IH | s x l H IH]; cbn [rev].
  - constructor.
  - apply subseq_app_r. assumption.
  - apply subseq_snoc. assumption.
Qed.

Lemma subseq_length s l : subseq s l -> length s <= length l.
Proof. induction 1; cbn [length]; lia. Qed.

Lemma lcs_r_upper : forall ra rb s, subseq s ra -> subseq s rb -> length s <= lcs_r ra rb.
Proof.
  induction ra as [|x ra IHa].
  - intros rb s Ha _. inversion Ha; subst. cbn. lia.
  - induction rb as [|y rb IHb]; intros s Ha Hb.
    + inversion Hb; subst. cbn. lia.
    + rewrite lcs_r_cons.
      inversion Ha as [l E1 E2 | s1 x1 l1 Ha' E1 E2 | s1 x1 l1 Ha' E1 E2]; subst.
      * cbn. lia.
      * (* x skipped *)
        destruct (N.eqb x y) eqn:Exy.
        -- inversion Hb as [l E1 E2 | s2 y2 l2 Hb' E1 E2 | s2 y2 l2 Hb' E1 E2]; subst.
           ++ cbn. lia.
           ++ specialize (IHa rb s Ha' Hb'). lia.
           ++ apply subseq_tail in Ha'. specialize (IHa rb s2 Ha' Hb'). cbn [length]. lia.
        -- specialize (IHa (y :: rb) s Ha' Hb). lia.
      * (* x taken *)
        inversion Hb as [l E1 E2 | s2 y2 l2 Hb' E1 E2 | s2 y2 l2 Hb' E1 E2]; subst.
        -- destruct (N.eqb x y) eqn:Exy.
           ++ apply subseq_tail in Hb'. specialize (IHa rb s1 Ha' Hb'). cbn [length]. lia.
           ++ specialize (IHb (x :: s1) Ha Hb'). lia.
        -- rewrite N.eqb_refl. specialize (IHa rb s1 Ha' Hb'). cbn [length]. lia.
Qed.

(* the specification is an upper bound for every common subsequence *)
Lemma lcs_spec_upper a b s : subseq s a -> subseq s b -> length s <= lcs_spec a b.
Proof.
  intros Ha Hb. rewrite <- rev_length. apply lcs_r_upper; apply subseq_rev; assumption.
Qed.

Theorem C02_lcs_upper : forall a b s,
  subseq s a -> subseq s b -> length s <= lcs_length a b.
Proof. intros a b s Ha Hb. rewrite C02_lcs_length_spec. apply lcs_spec_upper; assumption. Qed.
Print Assumptions C02_lcs_upper.

(* ====================================================================== *)
(* The walk back, as an inductive relation                                 *)
(* ====================================================================== *)

(* L a b i j: the specification value of table cell (i, j) *)
Definition L (a b : list N) (i j : nat) : nat := lcs_spec (firstn i a) (firstn j b).

Lemma L_0_l a b j : L a b 0 j = 0.
Proof. reflexivity. Qed.

Lemma L_0_r a b i : L a b i 0 = 0.
Proof. unfold L. cbn [firstn]. apply lcs_spec_nil_r. Qed.

Lemma L_S a b i' j' : i' < length a -> j' < length b ->
  L a b (S i') (S j') =
  if N.eqb (nth i' a 0%N) (nth j' b 0%N) then S (L a b i' j')
  else Nat.max (L a b i' (S j')) (L a b (S i') j').
Proof.
  intros Hi Hj. unfold L.
  rewrite (firstn_S_nth 0%N a i' Hi), (firstn_S_nth 0%N b j' Hj).
  apply lcs_spec_snoc.
Qed.

Definition olist (cur : option rng) : list rng :=
  match cur with Some c => [c] | None => [] end.

(* the pending range after one more matching pair (i', j') *)
Definition ext (cur : option rng) (i' j' : nat) : rng :=
  match cur with
  | None => mkRng i' i' j' j'
  | Some c => mkRng i' (ra_e c) j' (rb_e c)
  end.

Lemma walk_S f t a b i' j' cur :
  walk (S f) t a b (S i') (S j') cur =
  let x := nth i' a 0%N in
  let y := nth j' b 0%N in
  if N.eqb x y then
    if Nat.eqb i' O || Nat.eqb j' O then
      let '(cs, rs) := walk f t a b i' j' None in (cs ++ [x], ext cur i' j' :: rs)
    else
      let '(cs, rs) := walk f t a b i' j' (Some (ext cur i' j')) in (cs ++ [x], rs)
  else
    let '(cs, rs) := if Nat.ltb (cell t (S i') j') (cell t i' (S j'))
                     then walk f t a b i' (S j') None else walk f t a b (S i') j' None in
    (cs, olist cur ++ rs).
Proof. destruct cur; reflexivity. Qed.

Lemma walk_zero f t a b i j : i = 0 \/ j = 0 -> walk f t a b i j None = ([], []).
Proof.
  intros [-> | ->]; destruct f; try reflexivity.
  destruct i; reflexivity.
Qed.

Lemma walk_stop f t a b i j cur : i = 0 \/ j = 0 -> walk f t a b i j cur = ([], olist cur).
Proof.
  intros [-> | ->]; destruct f; try reflexivity.
  destruct i; reflexivity.
Qed.

Inductive W (a b : list N) : nat -> nat -> option rng -> list N -> list rng -> Prop :=
| W_end : forall i j cur, i = 0 \/ j = 0 -> W a b i j cur [] (olist cur)
| W_match_end : forall i' j' cur,
    nth i' a 0%N = nth j' b 0%N -> i' = 0 \/ j' = 0 ->
    W a b (S i') (S j') cur [nth i' a 0%N] [ext cur i' j']
| W_match : forall i' j' cur cs rs,
    nth i' a 0%N = nth j' b 0%N -> i' <> 0 -> j' <> 0 ->
    W a b i' j' (Some (ext cur i' j')) cs rs ->
    W a b (S i') (S j') cur (cs ++ [nth i' a 0%N]) rs
| W_up : forall i' j' cur cs rs,
    nth i' a 0%N <> nth j' b 0%N ->
    L a b (S i') j' < L a b i' (S j') ->
    W a b i' (S j') None cs rs ->
    W a b (S i') (S j') cur cs (olist cur ++ rs)
| W_left : forall i' j' cur cs rs,
    nth i' a 0%N <> nth j' b 0%N ->
    L a b i' (S j') <= L a b (S i') j' ->
    W a b (S i') j' None cs rs ->
    W a b (S i') (S j') cur cs (olist cur ++ rs).

Lemma walk_W a b : forall f i j cur,
  i + j <= f -> i <= length a -> j <= length b ->
  W a b i j cur (fst (walk f (table a b) a b i j cur)) (snd (walk f (table a b) a b i j cur)).
Proof.
  induction f as [|f IH]; intros i j cur Hf Hi Hj.
  - rewrite walk_stop by lia. apply W_end. lia.
  - destruct i as [|i']; [rewrite walk_stop by lia; apply W_end; lia|].
    destruct j as [|j']; [rewrite walk_stop by lia; apply W_end; lia|].
    rewrite walk_S. cbv zeta.
    destruct (N.eqb (nth i' a 0%N) (nth j' b 0%N)) eqn:Exy.
    + apply N.eqb_eq in Exy.
      destruct (Nat.eqb i' 0 || Nat.eqb j' 0) eqn:Ez.
      * apply orb_true_iff in Ez. rewrite !Nat.eqb_eq in Ez.
        rewrite walk_zero by exact Ez. cbn [fst snd app].
        apply W_match_end; assumption.
      * apply orb_false_iff in Ez. rewrite !Nat.eqb_neq in Ez. destruct Ez as [Ez1 Ez2].
        pose proof (IH i' j' (Some (ext cur i' j')) ltac:(lia) ltac:(lia) ltac:(lia)) as HW.
        destruct (walk f (table a b) a b i' j' (Some (ext cur i' j'))) as [cs rs].
        cbn [fst snd] in *. apply W_match; assumption.
    + apply N.eqb_neq in Exy.
      rewrite !C02_lcs_table_correct by lia. fold (L a b (S i') j') (L a b i' (S j')).
      destruct (Nat.ltb (L a b (S i') j') (L a b i' (S j'))) eqn:El.
      * apply Nat.ltb_lt in El.
        pose proof (IH i' (S j') None ltac:(lia) ltac:(lia) ltac:(lia)) as HW.
        destruct (walk f (table a b) a b i' (S j') None) as [cs rs].
        cbn [fst snd] in *. apply W_up; assumption.
      * apply Nat.ltb_ge in El.
        pose proof (IH (S i') j' None ltac:(lia) ltac:(lia) ltac:(lia)) as HW.
        destruct (walk f (table a b) a b (S i') j' None) as [cs rs].
        cbn [fst snd] in *. apply W_left; assumption.
Qed.

Lemma lcs_walk_W a b :
  W a b (length a) (length b) None (lcs_string a b) (lcs_ranges a b).
Proof. unfold lcs_string, lcs_ranges, lcs_walk. apply walk_W; lia. Qed.

(* ---- the characters ---- *)
Lemma W_chars a b i j cur cs rs :
  W a b i j cur cs rs -> i <= length a -> j <= length b ->
  subseq cs (firstn i a) /\ subseq cs (firstn j b) /\ length cs = L a b i j.
Proof.
  induction 1 as [i j cur Hz | i' j' cur Hxy Hz | i' j' cur cs rs Hxy Hi0 Hj0 HW IH
                 | i' j' cur cs rs Hxy Hl HW IH | i' j' cur cs rs Hxy Hl HW IH];
    intros Hi Hj.
  - split; [constructor|]. split; [constructor|].
    destruct Hz as [-> | ->]; [rewrite L_0_l | rewrite L_0_r]; reflexivity.
  - rewrite L_S by lia. rewrite Hxy, N.eqb_refl.
    rewrite (firstn_S_nth 0%N a i') by lia. rewrite (firstn_S_nth 0%N b j') by lia.
    rewrite <- Hxy.
    split; [apply (subseq_app [] _ [nth i' a 0%N] [nth i' a 0%N]); [constructor | apply subseq_refl]|].
    split; [apply (subseq_app [] _ [nth i' a 0%N] [nth i' a 0%N]); [constructor | apply subseq_refl]|].
    destruct Hz as [-> | ->]; [rewrite L_0_l | rewrite L_0_r]; reflexivity.
  - destruct (IH ltac:(lia) ltac:(lia)) as (Ha & Hb & Hlen).
    rewrite L_S by lia. rewrite Hxy, N.eqb_refl.
    rewrite (firstn_S_nth 0%N a i') by lia. rewrite (firstn_S_nth 0%N b j') by lia.
    rewrite <- Hxy.
    split; [apply subseq_snoc; assumption|].
    split; [apply subseq_snoc; assumption|].
    rewrite app_length. cbn [length]. lia.
  - destruct (IH ltac:(lia) ltac:(lia)) as (Ha & Hb & Hlen).
    rewrite L_S by lia. apply N.eqb_neq in Hxy. rewrite Hxy.
    rewrite (firstn_S_nth 0%N a i') by lia.
    split; [apply subseq_app_r; assumption|].
    split; [assumption|]. lia.
  - destruct (IH ltac:(lia) ltac:(lia)) as (Ha & Hb & Hlen).
    rewrite L_S by lia. apply N.eqb_neq in Hxy. rewrite Hxy.
    rewrite (firstn_S_nth 0%N b j') by lia.
    split; [assumption|].
    split; [apply subseq_app_r; assumption|]. lia.
Qed.

(* The reply of plain LCS is a common subsequence of maximal length; LEN is its length. *)
Theorem C02_lcs_witness : forall a b,
  subseq (lcs_string a b) a /\ subseq (lcs_string a b) b /\
  length (lcs_string a b) = lcs_length a b.
Proof.
  intros a b.
  destruct (W_chars a b _ _ _ _ _ (lcs_walk_W a b) (le_n _) (le_n _)) as (Ha & Hb & Hlen).
  rewrite firstn_all in Ha, Hb. unfold L in Hlen. rewrite !firstn_all in Hlen.
  rewrite C02_lcs_length_spec. auto.
Qed.
Print Assumptions C02_lcs_witness.

(* both together: lcs_string is a longest common subsequence *)
Corollary C02_lcs_longest : forall a b s,
  subseq s a -> subseq s b -> length s <= length (lcs_string a b).
Proof.
  intros a b s Ha Hb. destruct (C02_lcs_witness a b) as (_ & _ & ->).
  apply C02_lcs_upper; assumption.
Qed.
Print Assumptions C02_lcs_longest.

(* ====================================================================== *)
(* 3. The ranges (IDX)                                                     *)
(* ====================================================================== *)

(* well formed range with equal characters position by position *)
Definition valid (a b : list N) (r : rng) : Prop :=
  ra_s r <= ra_e r /\ ra_e r < length a /\
  rb_s r <= rb_e r /\ rb_e r < length b /\
  ra_e r - ra_s r = rb_e r - rb_s r /\
  forall k, k <= ra_e r - ra_s r -> nth (ra_s r + k) a 0%N = nth (rb_s r + k) b 0%N.

(* the pending range starts exactly at the current position *)
Definition cur_ok (a b : list N) (i j : nat) (cur : option rng) : Prop :=
  match cur with
  | None => True
  | Some c => ra_s c = i /\ rb_s c = j /\ valid a b c
  end.

Definition below (i j : nat) (r : rng) : Prop := ra_e r < i /\ rb_e r < j.

(* r2 follows r1 in the reply: strictly before it in both strings and not adjacent in both *)
Definition gap (r1 r2 : rng) : Prop :=
  ra_e r2 < ra_s r1 /\ rb_e r2 < rb_s r1 /\
  ~ (ra_e r2 + 1 = ra_s r1 /\ rb_e r2 + 1 = rb_s r1).

Fixpoint desc (rs : list rng) : Prop :=
  match rs with
  | [] => True
  | r1 :: tl => match tl with [] => True | r2 :: _ => gap r1 r2 end /\ desc tl
  end.

Definition hia (cur : option rng) (i : nat) : nat :=
  match cur with None => i | Some c => S (ra_e c) end.
Definition hib (cur : option rng) (j : nat) : nat :=
  match cur with None => j | Some c => S (rb_e c) end.

Lemma below_mono i j i2 j2 rs :
  Forall (below i j) rs -> i <= i2 -> j <= j2 -> Forall (below i2 j2) rs.
Proof.
  intros H Hi Hj. eapply Forall_impl; [|exact H].
  intros r [H1 H2]. unfold below. lia.
Qed.

Lemma desc_cons_below c rs i' j' :
  desc rs -> Forall (below i' j') rs ->
  i' <= ra_s c -> j' <= rb_s c -> i' < ra_s c \/ j' < rb_s c ->
  desc (c :: rs).
Proof.
  intros Hd Hb Hi Hj Hlt. destruct rs as [|r2 rs]; cbn [desc]; [tauto|].
  split; [|exact Hd].
  inversion Hb as [|r0 l0 [Hb1 Hb2] Hb' E]; subst.
  unfold gap. lia.
Qed.

Lemma ext_ok a b i' j' cur :
  cur_ok a b (S i') (S j') cur -> i' < length a -> j' < length b ->
  nth i' a 0%N = nth j' b 0%N ->
  cur_ok a b i' j' (Some (ext cur i' j')).
Proof.
  intros Hc Hi Hj Hxy. destruct cur as [c|]; cbn [cur_ok ext].
  - destruct Hc as (Hs1 & Hs2 & Hv1 & Hv2 & Hv3 & Hv4 & Hv5 & Hv6).
    split; [reflexivity|]. split; [reflexivity|].
    unfold valid. cbn [ra_s ra_e rb_s rb_e].
    repeat (split; [lia|]).
    intros k Hk. destruct k as [|k].
    + rewrite !Nat.add_0_r. exact Hxy.
    + specialize (Hv6 k ltac:(lia)). rewrite Hs1, Hs2 in Hv6.
      replace (i' + S k) with (S i' + k) by lia.
      replace (j' + S k) with (S j' + k) by lia. exact Hv6.
  - split; [reflexivity|]. split; [reflexivity|].
    unfold valid. cbn [ra_s ra_e rb_s rb_e].
    repeat (split; [lia|]).
    intros k Hk. replace k with 0 by lia. rewrite !Nat.add_0_r. exact Hxy.
Qed.

Lemma hia_ext cur i' j' : hia (Some (ext cur i' j')) i' = hia cur (S i').
Proof. destruct cur; reflexivity. Qed.
Lemma hib_ext cur i' j' : hib (Some (ext cur i' j')) j' = hib cur (S j').
Proof. destruct cur; reflexivity. Qed.

Lemma W_ranges a b i j cur cs rs :
  W a b i j cur cs rs -> i <= length a -> j <= length b -> cur_ok a b i j cur ->
  Forall (valid a b) rs /\ desc rs /\ Forall (below (hia cur i) (hib cur j)) rs.
Proof.
  induction 1 as [i j cur Hz | i' j' cur Hxy Hz | i' j' cur cs rs Hxy Hi0 Hj0 HW IH
                 | i' j' cur cs rs Hxy Hl HW IH | i' j' cur cs rs Hxy Hl HW IH];
    intros Hi Hj Hc.
  - destruct cur as [c|]; cbn [olist].
    + destruct Hc as (Hs1 & Hs2 & Hv).
      split; [constructor; [exact Hv | constructor]|].
      split; [cbn; tauto|].
      constructor; [|constructor]. unfold below. cbn [hia hib]. lia.
    + repeat split; constructor.
  - pose proof (ext_ok a b i' j' cur Hc ltac:(lia) ltac:(lia) Hxy) as (Hs1 & Hs2 & Hv).
    split; [constructor; [exact Hv | constructor]|].
    split; [cbn; tauto|].
    constructor; [|constructor]. unfold below.
    destruct cur as [c|]; cbn [hia hib ext ra_e rb_e]; lia.
  - pose proof (ext_ok a b i' j' cur Hc ltac:(lia) ltac:(lia) Hxy) as Hc'.
    specialize (IH ltac:(lia) ltac:(lia) Hc').
    rewrite hia_ext, hib_ext in IH. exact IH.
  - destruct (IH ltac:(lia) ltac:(lia) I) as (Hv & Hd & Hb). cbn [hia hib] in Hb.
    destruct cur as [c|]; cbn [olist app].
    + destruct Hc as (Hs1 & Hs2 & Hvc).
      pose proof Hvc as (Hv1 & Hv2 & Hv3 & Hv4 & Hv5 & Hv6).
      split; [constructor; assumption|].
      split; [apply (desc_cons_below c rs i' (S j')); try assumption; lia|].
      cbn [hia hib]. constructor; [unfold below; lia|].
      apply (below_mono i' (S j')); [assumption | lia | lia].
    + split; [assumption|]. split; [assumption|].
      cbn [hia hib]. apply (below_mono i' (S j')); [assumption | lia | lia].
  - destruct (IH ltac:(lia) ltac:(lia) I) as (Hv & Hd & Hb). cbn [hia hib] in Hb.
    destruct cur as [c|]; cbn [olist app].
    + destruct Hc as (Hs1 & Hs2 & Hvc).
      pose proof Hvc as (Hv1 & Hv2 & Hv3 & Hv4 & Hv5 & Hv6).
      split; [constructor; assumption|].
      split; [apply (desc_cons_below c rs (S i') j'); try assumption; lia|].
      cbn [hia hib]. constructor; [unfold below; lia|].
      apply (below_mono (S i') j'); [assumption | lia | lia].
    + split; [assumption|]. split; [assumption|].
      cbn [hia hib]. apply (below_mono (S i') j'); [assumption | lia | lia].
Qed.

(* ---- from positionwise equality to equality of the substrings ---- *)
Lemma skipn_nth {A} (d : A) l i : i < length l -> skipn i l = nth i l d :: skipn (S i) l.
Proof.
  revert l. induction i as [|i IH]; intros [|x l] Hi; cbn [length] in Hi; try lia.
  - reflexivity.
  - change (skipn i l = nth i l d :: skipn (S i) l). apply IH. lia.
Qed.

Lemma firstn_skipn_ext (a b : list N) n : forall s t,
  s + n <= length a -> t + n <= length b ->
  (forall k, k < n -> nth (s + k) a 0%N = nth (t + k) b 0%N) ->
  firstn n (skipn s a) = firstn n (skipn t b).
Proof.
  induction n as [|n IH]; intros s t Hs Ht Hk; [reflexivity|].
  rewrite (skipn_nth 0%N a s) by lia. rewrite (skipn_nth 0%N b t) by lia.
  cbn [firstn]. f_equal.
  - specialize (Hk 0 ltac:(lia)). rewrite !Nat.add_0_r in Hk. exact Hk.
  - apply IH; try lia. intros k Hlt. specialize (Hk (S k) ltac:(lia)).
    replace (S s + k) with (s + S k) by lia. replace (S t + k) with (t + S k) by lia. exact Hk.
Qed.

Lemma lcs_ranges_inv a b :
  Forall (valid a b) (lcs_ranges a b) /\ desc (lcs_ranges a b).
Proof.
  destruct (W_ranges a b _ _ _ _ _ (lcs_walk_W a b) (le_n _) (le_n _) I) as (Hv & Hd & _).
  split; assumption.
Qed.

(* 3a. every range of the IDX reply is well formed and its two substrings are equal *)
Theorem C02_lcs_ranges_wf : forall a b r, In r (lcs_ranges a b) ->
  ra_s r <= ra_e r /\ ra_e r < length a /\
  rb_s r <= rb_e r /\ rb_e r < length b /\
  ra_e r - ra_s r = rb_e r - rb_s r /\
  firstn (rng_len r) (skipn (ra_s r) a) = firstn (rng_len r) (skipn (rb_s r) b).
Proof.
  intros a b r Hin. destruct (lcs_ranges_inv a b) as (Hv & _).
  rewrite Forall_forall in Hv. destruct (Hv r Hin) as (H1 & H2 & H3 & H4 & H5 & H6).
  repeat (split; [assumption|]).
  unfold rng_len. apply firstn_skipn_ext; try lia.
  intros k Hk. apply H6. lia.
Qed.
Print Assumptions C02_lcs_ranges_wf.

Lemma desc_tail r l : desc (r :: l) -> desc l.
Proof. cbn [desc]. tauto. Qed.

Lemma desc_app_gap pre r1 r2 post : desc (pre ++ r1 :: r2 :: post) -> gap r1 r2.
Proof.
  induction pre as [|p pre IH]; cbn [app]; intro H.
  - cbn [desc] in H. tauto.
  - apply IH. eapply desc_tail. exact H.
Qed.

(* 3b. consecutive ranges r1 (earlier in the reply), r2: r2 lies strictly before r1 in both strings,
   and the two are never adjacent in both strings at once (the ranges are maximal) *)
Theorem C02_lcs_ranges_order : forall a b pre r1 r2 post,
  lcs_ranges a b = pre ++ r1 :: r2 :: post ->
  ra_e r2 < ra_s r1 /\ rb_e r2 < rb_s r1 /\
  ~ (ra_e r2 + 1 = ra_s r1 /\ rb_e r2 + 1 = rb_s r1).
Proof.
  intros a b pre r1 r2 post E. destruct (lcs_ranges_inv a b) as (_ & Hd).
  rewrite E in Hd. exact (desc_app_gap _ _ _ _ Hd).
Qed.
Print Assumptions C02_lcs_ranges_order.

(* ---- concatenation ---- *)
Definition rng_str (a : list N) (r : rng) : list N := firstn (rng_len r) (skipn (ra_s r) a).
Definition rng_str_b (b : list N) (r : rng) : list N := firstn (rng_len r) (skipn (rb_s r) b).

Definition pend (a : list N) (cur : option rng) : list N :=
  match cur with Some c => rng_str a c | None => [] end.

Lemma rng_str_ext a b i' j' cur :
  cur_ok a b (S i') (S j') cur -> i' < length a ->
  rng_str a (ext cur i' j') = nth i' a 0%N :: pend a cur.
Proof.
  intros Hc Hi. unfold rng_str, rng_len. destruct cur as [c|]; cbn [ext pend ra_s ra_e].
  - destruct Hc as (Hs1 & Hs2 & Hv1 & Hv2 & _).
    rewrite (skipn_nth 0%N a i') by lia.
    replace (ra_e c - i') with (S (ra_e c - S i')) by lia.
    cbn [firstn]. unfold rng_str, rng_len. rewrite Hs1. reflexivity.
  - rewrite (skipn_nth 0%N a i') by lia. rewrite Nat.sub_diag. reflexivity.
Qed.

Lemma concat_olist a cur : concat (map (rng_str a) (rev (olist cur))) = pend a cur.
Proof. destruct cur; cbn; [apply app_nil_r | reflexivity]. Qed.

Lemma W_concat a b i j cur cs rs :
  W a b i j cur cs rs -> i <= length a -> j <= length b -> cur_ok a b i j cur ->
  concat (map (rng_str a) (rev rs)) = cs ++ pend a cur.
Proof.
  induction 1 as [i j cur Hz | i' j' cur Hxy Hz | i' j' cur cs rs Hxy Hi0 Hj0 HW IH
                 | i' j' cur cs rs Hxy Hl HW IH | i' j' cur cs rs Hxy Hl HW IH];
    intros Hi Hj Hc.
  - apply concat_olist.
  - cbn [rev app map concat]. rewrite app_nil_r.
    apply (rng_str_ext a b i' j' cur Hc). lia.
  - pose proof (ext_ok a b i' j' cur Hc ltac:(lia) ltac:(lia) Hxy) as Hc'.
    rewrite (IH ltac:(lia) ltac:(lia) Hc'). cbn [pend].
    rewrite (rng_str_ext a b i' j' cur Hc) by lia.
    rewrite <- app_assoc. reflexivity.
  - rewrite rev_app_distr, map_app, concat_app.
    rewrite (IH ltac:(lia) ltac:(lia) I). cbn [pend]. rewrite app_nil_r.
    rewrite concat_olist. reflexivity.
  - rewrite rev_app_distr, map_app, concat_app.
    rewrite (IH ltac:(lia) ltac:(lia) I). cbn [pend]. rewrite app_nil_r.
    rewrite concat_olist. reflexivity.
Qed.

(* 3c. the a-substrings of the ranges, in reverse reply order, spell the LCS string *)
Theorem C02_lcs_ranges_concat : forall a b,
  concat (map (fun r => firstn (rng_len r) (skipn (ra_s r) a)) (rev (lcs_ranges a b)))
  = lcs_string a b.
Proof.
  intros a b.
  pose proof (W_concat a b _ _ _ _ _ (lcs_walk_W a b) (le_n _) (le_n _) I) as H.
  cbn [pend] in H. rewrite app_nil_r in H. exact H.
Qed.
Print Assumptions C02_lcs_ranges_concat.

(* ... and so do the b-substrings *)
Theorem C02_lcs_ranges_concat_b : forall a b,
  concat (map (fun r => firstn (rng_len r) (skipn (rb_s r) b)) (rev (lcs_ranges a b)))
  = lcs_string a b.
Proof.
  intros a b. rewrite <- C02_lcs_ranges_concat. f_equal.
  apply map_ext_in. intros r Hin. apply in_rev in Hin.
  symmetry. apply (C02_lcs_ranges_wf a b r Hin).
Qed.
Print Assumptions C02_lcs_ranges_concat_b.

(* ---- total length ---- *)
Lemma list_sum_rev l : list_sum (rev l) = list_sum l.
Proof.
  induction l as [|x l IH]; [reflexivity|].
  cbn [rev]. rewrite list_sum_app, IH. unfold list_sum. cbn [fold_right]. lia.
Qed.

Lemma rng_str_length a b r : valid a b r -> length (rng_str a r) = rng_len r.
Proof.
  intros (H1 & H2 & _). unfold rng_str. rewrite firstn_length, skipn_length.
  unfold rng_len. lia.
Qed.

Lemma concat_rng_length a b rs :
  Forall (valid a b) rs -> length (concat (map (rng_str a) rs)) = list_sum (map rng_len rs).
Proof.
  induction 1 as [|r rs Hr Hrs IH]; [reflexivity|].
  cbn [map concat]. rewrite app_length, IH, (rng_str_length a b r Hr). reflexivity.
Qed.

(* 3d. the lengths of the ranges add up to the LCS length *)
Theorem C02_lcs_ranges_sum : forall a b,
  list_sum (map rng_len (lcs_ranges a b)) = lcs_length a b.
Proof.
  intros a b. destruct (C02_lcs_witness a b) as (_ & _ & <-).
  rewrite <- C02_lcs_ranges_concat.
  destruct (lcs_ranges_inv a b) as (Hv & _).
  change (fun r => firstn (rng_len r) (skipn (ra_s r) a)) with (rng_str a).
  rewrite (concat_rng_length a b) by (apply Forall_rev; exact Hv).
  rewrite map_rev, list_sum_rev. reflexivity.
Qed.
Print Assumptions C02_lcs_ranges_sum.

(* 3e. the same order between ANY two ranges of the reply, not only neighbours:
   the ranges are pairwise disjoint and strictly decreasing in both strings *)
Lemma desc_app_tail pre l : desc (pre ++ l) -> desc l.
Proof.
  induction pre as [|p pre IH]; cbn [app]; intro H; [exact H|].
  apply IH. eapply desc_tail. exact H.
Qed.

Lemma desc_all_below a b rs : forall r1,
  Forall (valid a b) rs -> desc (r1 :: rs) -> Forall (below (ra_s r1) (rb_s r1)) rs.
Proof.
  induction rs as [|r2 rs IH]; intros r1 Hv Hd; [constructor|].
  inversion Hv as [|r0 l0 Hv2 Hvs E]; subst.
  cbn [desc] in Hd. destruct Hd as [(Hg1 & Hg2 & _) Hd].
  constructor; [split; assumption|].
  destruct Hv2 as (H1 & _ & H3 & _).
  apply (below_mono (ra_s r2) (rb_s r2)); [apply IH; assumption | lia | lia].
Qed.

Theorem C02_lcs_ranges_order_any : forall a b pre r1 mid r2 post,
  lcs_ranges a b = pre ++ r1 :: mid ++ r2 :: post ->
  ra_e r2 < ra_s r1 /\ rb_e r2 < rb_s r1.
Proof.
  intros a b pre r1 mid r2 post E. destruct (lcs_ranges_inv a b) as (Hv & Hd).
  rewrite E in Hv, Hd. apply desc_app_tail in Hd.
  apply Forall_app in Hv. destruct Hv as [_ Hv].
  inversion Hv as [|r0 l0 _ Hv' E0]; subst.
  pose proof (desc_all_below a b _ r1 Hv' Hd) as Hb.
  rewrite Forall_forall in Hb. apply (Hb r2).
  apply in_or_app. right. left. reflexivity.
Qed.
Print Assumptions C02_lcs_ranges_order_any.

(* LEN is characterised uniquely: the maximum length of a common subsequence *)
Theorem C02_lcs_length_characterization : forall a b n,
  lcs_length a b = n <->
  (exists s, subseq s a /\ subseq s b /\ length s = n) /\
  (forall s, subseq s a -> subseq s b -> length s <= n).
Proof.
  intros a b n. split.
  - intros <-. split.
    + exists (lcs_string a b). apply C02_lcs_witness.
    + intros s. apply C02_lcs_upper.
  - intros [(s & Ha & Hb & Hlen) Hup].
    destruct (C02_lcs_witness a b) as (Wa & Wb & Wlen).
    pose proof (C02_lcs_upper a b s Ha Hb). pose proof (Hup _ Wa Wb). lia.
Qed.
Print Assumptions C02_lcs_length_characterization.

(* ====================================================================== *)
(* 4. Command level                                                        *)
(* ====================================================================== *)
Open Scope string_scope.
Open Scope Z_scope.

(* key k holds the string a; a missing (or expired) key counts as the empty string *)
Definition holds (now : Z) (d : db) (k : bytes) (a : bytes) : Prop :=
  (lookup now d k = None /\ a = []) \/
  (exists e, lookup now d k = Some e /\ str_of e = Some a).

Lemma holds_operand now d k a : holds now d k a <-> lcs_operand now d k = Some a.
Proof.
  unfold holds, lcs_operand. split.
  - intros [[-> ->] | (e & -> & He)]; [reflexivity | exact He].
  - destruct (lookup now d k) as [e|]; intro H.
    + right. exists e. split; [reflexivity | exact H].
    + left. split; [reflexivity | congruence].
Qed.

Lemma holds_string now d k e a : lookup now d k = Some e -> str_of e = Some a -> holds now d k a.
Proof. intros H1 H2. right. exists e. split; assumption. Qed.

Lemma holds_missing now d k : lookup now d k = None -> holds now d k [].
Proof. intro H. left. split; [assumption | reflexivity]. Qed.

Definition lcs_init : lcsopts := mkLO false false 0 false.

(* 4a. LCS never changes the database, whatever the arguments *)
Theorem C02_cmd_lcs_readonly : forall now d args, fst (cmd_lcs now d args) = d.
Proof.
  intros now d args. unfold cmd_lcs.
  destruct args as [|k1 [|k2 opts]]; try reflexivity.
  destruct (scan_lcs opts _) as [o| |]; try reflexivity.
  destruct (lcs_operand now d k1); [|reflexivity].
  destruct (lcs_operand now d k2); [|reflexivity].
  destruct (lo_idx o && lo_len o); [reflexivity|].
  destruct (lo_idx o); [reflexivity|].
  destruct (lo_len o); reflexivity.
Qed.
Print Assumptions C02_cmd_lcs_readonly.

(* 4b. the reply depends on the two keys only through the strings they hold; in particular
   (4e) a missing key behaves exactly as a key holding the empty string, for every option list *)
Theorem C02_cmd_lcs_operands_only : forall now d k1 k2 now' d' k1' k2' a b opts,
  holds now d k1 a -> holds now d k2 b -> holds now' d' k1' a -> holds now' d' k2' b ->
  snd (cmd_lcs now d (k1 :: k2 :: opts)) = snd (cmd_lcs now' d' (k1' :: k2' :: opts)).
Proof.
  intros now d k1 k2 now' d' k1' k2' a b opts H1 H2 H1' H2'.
  apply holds_operand in H1, H2, H1', H2'.
  unfold cmd_lcs. rewrite H1, H2, H1', H2'.
  destruct (scan_lcs opts _) as [o| |]; try reflexivity.
  destruct (lo_idx o && lo_len o); [reflexivity|].
  destruct (lo_idx o); [reflexivity|].
  destruct (lo_len o); reflexivity.
Qed.
Print Assumptions C02_cmd_lcs_operands_only.

(* 4c. no options: the reply is the LCS string *)
Theorem C02_cmd_lcs_plain_gen : forall now d k1 k2 a b,
  holds now d k1 a -> holds now d k2 b ->
  cmd_lcs now d [k1; k2] = (d, RBulk (lcs_string a b)).
Proof.
  intros now d k1 k2 a b H1 H2. apply holds_operand in H1, H2.
  unfold cmd_lcs. cbn [scan_lcs]. rewrite H1, H2. reflexivity.
Qed.
Print Assumptions C02_cmd_lcs_plain_gen.

Theorem C02_cmd_lcs_plain : forall now d k1 k2 e1 e2 a b,
  lookup now d k1 = Some e1 -> str_of e1 = Some a ->
  lookup now d k2 = Some e2 -> str_of e2 = Some b ->
  cmd_lcs now d [k1; k2] = (d, RBulk (lcs_string a b)).
Proof.
  intros. apply C02_cmd_lcs_plain_gen; eapply holds_string; eassumption.
Qed.
Print Assumptions C02_cmd_lcs_plain.

(* keyword facts: one argument cannot be two different keywords *)
Lemma is_kw_other x k1 k2 :
  is_kw x k1 = true -> ieq (s2b k1) (s2b k2) = false -> is_kw x k2 = false.
Proof.
  unfold is_kw, ieq. intros H1 H2. apply bytes_eqb_eq in H1. rewrite H1. exact H2.
Qed.

(* 4d. LEN alone: the reply is the LCS length *)
Theorem C02_cmd_lcs_len_gen : forall now d k1 k2 o a b,
  is_kw o "LEN" = true -> holds now d k1 a -> holds now d k2 b ->
  cmd_lcs now d [k1; k2; o] = (d, RInt (Z.of_nat (lcs_length a b))).
Proof.
  intros now d k1 k2 o a b Ho H1 H2. apply holds_operand in H1, H2.
  unfold cmd_lcs. cbn [scan_lcs]. rewrite Ho. cbn [lo_idx lo_min lo_with].
  rewrite H1, H2. reflexivity.
Qed.
Print Assumptions C02_cmd_lcs_len_gen.

Theorem C02_cmd_lcs_len : forall now d k1 k2 o e1 e2 a b,
  is_kw o "LEN" = true ->
  lookup now d k1 = Some e1 -> str_of e1 = Some a ->
  lookup now d k2 = Some e2 -> str_of e2 = Some b ->
  cmd_lcs now d [k1; k2; o] = (d, RInt (Z.of_nat (lcs_length a b))).
Proof.
  intros. apply C02_cmd_lcs_len_gen; [assumption | eapply holds_string; eassumption ..].
Qed.
Print Assumptions C02_cmd_lcs_len.

(* 4e. a missing key is the empty string: the LCS is empty and its length 0 *)
Lemma lcs_string_nil_l b : lcs_string [] b = [].
Proof. unfold lcs_string, lcs_walk. rewrite walk_stop by (left; reflexivity). reflexivity. Qed.

Lemma lcs_length_nil_l b : lcs_length [] b = 0%nat.
Proof. rewrite C02_lcs_length_spec. apply lcs_spec_nil_l. Qed.

Lemma lcs_string_nil_r a : lcs_string a [] = [].
Proof. unfold lcs_string, lcs_walk. rewrite walk_stop by (right; reflexivity). reflexivity. Qed.

Lemma lcs_length_nil_r a : lcs_length a [] = 0%nat.
Proof. rewrite C02_lcs_length_spec. apply lcs_spec_nil_r. Qed.

Theorem C02_cmd_lcs_missing : forall now d k1 k2 o,
  is_kw o "LEN" = true ->
  (lookup now d k1 = None /\ (exists b, holds now d k2 b)) \/
  (lookup now d k2 = None /\ (exists a, holds now d k1 a)) ->
  cmd_lcs now d [k1; k2] = (d, RBulk []) /\
  cmd_lcs now d [k1; k2; o] = (d, RInt 0).
Proof.
  intros now d k1 k2 o Ho [[Hn (b & Hb)] | [Hn (a & Ha)]]; apply holds_missing in Hn.
  - rewrite (C02_cmd_lcs_plain_gen now d k1 k2 [] b Hn Hb).
    rewrite (C02_cmd_lcs_len_gen now d k1 k2 o [] b Ho Hn Hb).
    rewrite lcs_string_nil_l, lcs_length_nil_l. split; reflexivity.
  - rewrite (C02_cmd_lcs_plain_gen now d k1 k2 a [] Ha Hn).
    rewrite (C02_cmd_lcs_len_gen now d k1 k2 o a [] Ho Ha Hn).
    rewrite lcs_string_nil_r, lcs_length_nil_r. split; reflexivity.
Qed.
Print Assumptions C02_cmd_lcs_missing.

Definition lcs_len_idx_err : resp :=
  err "ERR If you want both the length and indexes, please just use IDX.".

(* 4f. LEN together with IDX (either order) is refused *)
Theorem C02_cmd_lcs_len_idx : forall now d k1 k2 ol oi a b,
  is_kw ol "LEN" = true -> is_kw oi "IDX" = true ->
  holds now d k1 a -> holds now d k2 b ->
  cmd_lcs now d [k1; k2; ol; oi] = (d, lcs_len_idx_err) /\
  cmd_lcs now d [k1; k2; oi; ol] = (d, lcs_len_idx_err).
Proof.
  intros now d k1 k2 ol oi a b Hl Hi H1 H2. apply holds_operand in H1, H2.
  pose proof (is_kw_other oi "IDX" "LEN" Hi eq_refl) as Hil.
  unfold cmd_lcs. cbn [scan_lcs]. rewrite Hl, Hil, Hi, ?Hl.
  cbn [lo_idx lo_len lo_min lo_with]. rewrite H1, H2. split; reflexivity.
Qed.
Print Assumptions C02_cmd_lcs_len_idx.

(* once LEN and IDX have been seen, whatever follows, the command cannot succeed *)
Lemma scan_lcs_flags : forall n opts o o',
  (length opts <= n)%nat -> scan_lcs opts o = LOk o' ->
  (lo_len o = true -> lo_len o' = true) /\ (lo_idx o = true -> lo_idx o' = true).
Proof.
  induction n as [|n IH]; intros opts o o' Hn H; destruct opts as [|x opts];
    try (cbn in H; inversion H; subst; tauto); cbn [length] in Hn; [lia|].
  cbn [scan_lcs] in H.
  destruct (is_kw x "LEN");
    [apply (IH opts) in H; [cbn [lo_len lo_idx] in H; tauto | lia]|].
  destruct (is_kw x "IDX");
    [apply (IH opts) in H; [cbn [lo_len lo_idx] in H; tauto | lia]|].
  destruct (is_kw x "WITHMATCHLEN");
    [apply (IH opts) in H; [cbn [lo_len lo_idx] in H; tauto | lia]|].
  destruct (is_kw x "MINMATCHLEN"); [|discriminate].
  destruct opts as [|m opts']; [discriminate|].
  destruct (parse_i64 m) as [z|]; [|discriminate].
  cbn [length] in Hn.
  apply (IH opts') in H; [cbn [lo_len lo_idx] in H; tauto | lia].
Qed.

Theorem C02_cmd_lcs_len_idx_never : forall now d k1 k2 ol oi rest a b,
  is_kw ol "LEN" = true -> is_kw oi "IDX" = true ->
  holds now d k1 a -> holds now d k2 b ->
  let r := snd (cmd_lcs now d (k1 :: k2 :: ol :: oi :: rest)) in
  r = lcs_len_idx_err \/ r = syntaxerr \/ r = notint.
Proof.
  intros now d k1 k2 ol oi rest a b Hl Hi H1 H2. apply holds_operand in H1, H2.
  pose proof (is_kw_other oi "IDX" "LEN" Hi eq_refl) as Hil.
  unfold cmd_lcs. cbn [scan_lcs]. rewrite Hl, Hil, Hi. cbn [lo_idx lo_len lo_min lo_with].
  destruct (scan_lcs rest _) as [o'| |] eqn:Es; cbn [snd]; [|tauto|tauto].
  apply (scan_lcs_flags (length rest) rest) in Es; [|lia]. cbn [lo_len lo_idx] in Es.
  destruct Es as [Es1 Es2]. rewrite H1, H2, (Es1 eq_refl), (Es2 eq_refl). cbn [andb snd]. tauto.
Qed.
Print Assumptions C02_cmd_lcs_len_idx_never.

(* 4g. a key of another type: WRONGTYPE (after the options have been accepted) *)
Theorem C02_cmd_lcs_wrongtype_gen : forall now d k1 k2 opts o e,
  scan_lcs opts lcs_init = LOk o ->
  (lookup now d k1 = Some e \/ lookup now d k2 = Some e) -> str_of e = None ->
  cmd_lcs now d (k1 :: k2 :: opts) = (d, wrongtype).
Proof.
  intros now d k1 k2 opts o e Hs Hk He. unfold cmd_lcs. fold lcs_init. rewrite Hs.
  unfold lcs_operand. destruct Hk as [Hk | Hk]; rewrite Hk, He.
  - reflexivity.
  - destruct (match lookup now d k1 with Some e0 => str_of e0 | None => Some [] end); reflexivity.
Qed.

Print Assumptions C02_cmd_lcs_wrongtype_gen.

Theorem C02_cmd_lcs_wrongtype : forall now d k1 k2 e,
  (lookup now d k1 = Some e \/ lookup now d k2 = Some e) -> str_of e = None ->
  cmd_lcs now d [k1; k2] = (d, wrongtype).
Proof. intros. eapply C02_cmd_lcs_wrongtype_gen; try eassumption. reflexivity. Qed.
Print Assumptions C02_cmd_lcs_wrongtype.

(* whatever the options, with a key of another type the reply is one of three errors *)
Theorem C02_cmd_lcs_wrongtype_any : forall now d k1 k2 opts e,
  (lookup now d k1 = Some e \/ lookup now d k2 = Some e) -> str_of e = None ->
  let r := snd (cmd_lcs now d (k1 :: k2 :: opts)) in
  r = wrongtype \/ r = syntaxerr \/ r = notint.
Proof.
  intros now d k1 k2 opts e Hk He.
  destruct (scan_lcs opts lcs_init) as [o| |] eqn:Es.
  - cbv zeta. rewrite (C02_cmd_lcs_wrongtype_gen now d k1 k2 opts o e Es Hk He). cbn [snd]. tauto.
  - cbv zeta. unfold cmd_lcs. fold lcs_init. rewrite Es. cbn [snd]. tauto.
  - cbv zeta. unfold cmd_lcs. fold lcs_init. rewrite Es. cbn [snd]. tauto.
Qed.
Print Assumptions C02_cmd_lcs_wrongtype_any.

(* 4h. IDX: all ranges; IDX MINMATCHLEN m: exactly the ranges of length >= m *)
Definition idx_reply (withlen : bool) (rs : list rng) (len : nat) : resp :=
  RMap [(RBulk (s2b "matches"), RArr (map (rng_resp withlen) rs));
        (RBulk (s2b "len"), RInt (Z.of_nat len))].

Definition keep_min (m : Z) (rs : list rng) : list rng :=
  filter (fun r => Z.leb m (Z.of_nat (rng_len r))) rs.

Lemma keep_min_In m rs r : In r (keep_min m rs) <-> In r rs /\ m <= Z.of_nat (rng_len r).
Proof. unfold keep_min. rewrite filter_In, Z.leb_le. tauto. Qed.

Lemma keep_min_all m rs : m <= 1 -> keep_min m rs = rs.
Proof.
  intro Hm. unfold keep_min. induction rs as [|r rs IH]; [reflexivity|].
  cbn [filter]. rewrite IH.
  replace (m <=? Z.of_nat (rng_len r)) with true; [reflexivity|].
  symmetry. apply Z.leb_le. unfold rng_len. lia.
Qed.

Lemma keep_min_clamp m rs : keep_min (if m <? 0 then 0 else m) rs = keep_min m rs.
Proof.
  destruct (m <? 0) eqn:E; [|reflexivity].
  apply Z.ltb_lt in E. rewrite !keep_min_all by lia. reflexivity.
Qed.

Theorem C02_cmd_lcs_idx : forall now d k1 k2 oi a b,
  is_kw oi "IDX" = true -> holds now d k1 a -> holds now d k2 b ->
  cmd_lcs now d [k1; k2; oi] = (d, idx_reply false (lcs_ranges a b) (lcs_length a b)).
Proof.
  intros now d k1 k2 oi a b Hi H1 H2. apply holds_operand in H1, H2.
  pose proof (is_kw_other oi "IDX" "LEN" Hi eq_refl) as Hil.
  unfold cmd_lcs. cbn [scan_lcs]. rewrite Hil, Hi. cbn [lo_idx lo_len lo_min lo_with].
  rewrite H1, H2. cbn [andb]. unfold idx_reply.
  change (filter _ (lcs_ranges a b)) with (keep_min 0 (lcs_ranges a b)).
  rewrite keep_min_all by lia. reflexivity.
Qed.
Print Assumptions C02_cmd_lcs_idx.

Theorem C02_cmd_lcs_minmatchlen : forall now d k1 k2 oi om n m a b,
  is_kw oi "IDX" = true -> is_kw om "MINMATCHLEN" = true -> parse_i64 n = Some m ->
  holds now d k1 a -> holds now d k2 b ->
  cmd_lcs now d [k1; k2; oi; om; n] =
    (d, idx_reply false (keep_min m (lcs_ranges a b)) (lcs_length a b)) /\
  cmd_lcs now d [k1; k2; om; n; oi] =
    (d, idx_reply false (keep_min m (lcs_ranges a b)) (lcs_length a b)) /\
  (forall r, In r (keep_min m (lcs_ranges a b)) <->
             In r (lcs_ranges a b) /\ m <= Z.of_nat (rng_len r)) /\
  (m <= 0 -> keep_min m (lcs_ranges a b) = lcs_ranges a b).
Proof.
  intros now d k1 k2 oi om n m a b Hi Hm Hn H1 H2. apply holds_operand in H1, H2.
  pose proof (is_kw_other oi "IDX" "LEN" Hi eq_refl) as Hil.
  pose proof (is_kw_other om "MINMATCHLEN" "LEN" Hm eq_refl) as Hml.
  pose proof (is_kw_other om "MINMATCHLEN" "IDX" Hm eq_refl) as Hmi.
  pose proof (is_kw_other om "MINMATCHLEN" "WITHMATCHLEN" Hm eq_refl) as Hmw.
  split; [|split; [|split]].
  - unfold cmd_lcs. cbn [scan_lcs]. rewrite Hil, Hi, Hml, Hmi, Hmw, Hm, Hn.
    cbn [lo_idx lo_len lo_min lo_with]. rewrite H1, H2. cbn [andb]. unfold idx_reply.
    change (filter _ (lcs_ranges a b)) with (keep_min (if m <? 0 then 0 else m) (lcs_ranges a b)).
    rewrite keep_min_clamp. reflexivity.
  - unfold cmd_lcs. cbn [scan_lcs]. rewrite Hml, Hmi, Hmw, Hm, Hn, Hil, Hi.
    cbn [lo_idx lo_len lo_min lo_with]. rewrite H1, H2. cbn [andb]. unfold idx_reply.
    change (filter _ (lcs_ranges a b)) with (keep_min (if m <? 0 then 0 else m) (lcs_ranges a b)).
    rewrite keep_min_clamp. reflexivity.
  - intro r. apply keep_min_In.
  - intro Hle. apply keep_min_all. lia.
Qed.
Print Assumptions C02_cmd_lcs_minmatchlen.

(* ====================================================================== *)
(* 5. Examples                                                             *)
(* ====================================================================== *)
Definition ex_a : bytes := s2b "ohmytext".
Definition ex_b : bytes := s2b "mynewtext".

(* the example of the Redis documentation *)
Example C02_lcs_doc_example :
  lcs_string ex_a ex_b = s2b "mytext" /\
  lcs_length ex_a ex_b = 6%nat /\
  lcs_ranges ex_a ex_b = [mkRng 4 7 5 8; mkRng 2 3 0 1].
Proof. vm_compute. repeat split; reflexivity. Qed.

(* a byte is paired with its LAST possible partner: one range, not two *)
Example C02_lcs_ab_aab :
  lcs_ranges (s2b "ab") (s2b "aab") = [mkRng 0 1 1 2] /\
  lcs_string (s2b "ab") (s2b "aab") = s2b "ab" /\
  lcs_length (s2b "ab") (s2b "aab") = 2%nat.
Proof. vm_compute. repeat split; reflexivity. Qed.

(* consecutive ranges may touch in ONE string (here in a: 1 + 1 = 2), never in both *)
Example C02_lcs_touch_one_side :
  lcs_ranges (s2b "abcd") (s2b "abxcd") = [mkRng 2 3 3 4; mkRng 0 1 0 1].
Proof. vm_compute. reflexivity. Qed.

(* instances of the optimality theorems *)
Ltac subseq_tac := cbv; repeat first [apply ss_nil | apply ss_take | apply ss_skip].

Example C02_lcs_upper_ex : (length (s2b "mtt") <= lcs_length ex_a ex_b)%nat.
Proof. apply C02_lcs_upper; subseq_tac. Qed.

Example C02_lcs_witness_ex : subseq (s2b "mytext") ex_a /\ subseq (s2b "mytext") ex_b.
Proof.
  destruct (C02_lcs_witness ex_a ex_b) as (Ha & Hb & _).
  replace (lcs_string ex_a ex_b) with (s2b "mytext") in Ha, Hb by (vm_compute; reflexivity).
  split; assumption.
Qed.

Example C02_lcs_ranges_ex :
  let rs := lcs_ranges ex_a ex_b in
  list_sum (map rng_len rs) = 6%nat /\
  map (fun r => firstn (rng_len r) (skipn (ra_s r) ex_a)) (rev rs) = [s2b "my"; s2b "text"] /\
  map (fun r => firstn (rng_len r) (skipn (rb_s r) ex_b)) (rev rs) = [s2b "my"; s2b "text"].
Proof. vm_compute. repeat split; reflexivity. Qed.

(* a concrete database: two strings and a list *)
Definition ex_db : db :=
  mkDb [(s2b "key1", mkE (VStr ex_a) None 0%N);
        (s2b "key2", mkE (VStr ex_b) None 1%N);
        (s2b "lst",  mkE (VList [s2b "x"]) None 2%N);
        (s2b "emp",  mkE (VStr []) None 3%N)] 4%N false.

Example ex_db_holds :
  (exists e, lookup 0 ex_db (s2b "key1") = Some e /\ str_of e = Some ex_a) /\
  (exists e, lookup 0 ex_db (s2b "key2") = Some e /\ str_of e = Some ex_b) /\
  (exists e, lookup 0 ex_db (s2b "lst") = Some e /\ str_of e = None) /\
  lookup 0 ex_db (s2b "nokey") = None.
Proof.
  split; [eexists; split; vm_compute; reflexivity|].
  split; [eexists; split; vm_compute; reflexivity|].
  split; [eexists; split; vm_compute; reflexivity|].
  vm_compute; reflexivity.
Qed.

Example C02_cmd_lcs_examples :
  let k1 := s2b "key1" in let k2 := s2b "key2" in
  cmd_lcs 0 ex_db [k1; k2] = (ex_db, RBulk (s2b "mytext")) /\
  cmd_lcs 0 ex_db [k1; k2; s2b "len"] = (ex_db, RInt 6) /\
  cmd_lcs 0 ex_db [k1; k2; s2b "IDX"] =
    (ex_db, idx_reply false [mkRng 4 7 5 8; mkRng 2 3 0 1] 6) /\
  cmd_lcs 0 ex_db [k1; k2; s2b "IDX"; s2b "MINMATCHLEN"; s2b "4"; s2b "WITHMATCHLEN"] =
    (ex_db, idx_reply true [mkRng 4 7 5 8] 6) /\
  cmd_lcs 0 ex_db [k1; k2; s2b "IDX"; s2b "MINMATCHLEN"; s2b "-3"] =
    (ex_db, idx_reply false [mkRng 4 7 5 8; mkRng 2 3 0 1] 6) /\
  cmd_lcs 0 ex_db [k1; k2; s2b "IDX"; s2b "LEN"] = (ex_db, lcs_len_idx_err) /\
  cmd_lcs 0 ex_db [k1; s2b "lst"] = (ex_db, wrongtype) /\
  cmd_lcs 0 ex_db [s2b "lst"; s2b "nokey"; s2b "LEN"] = (ex_db, wrongtype) /\
  cmd_lcs 0 ex_db [k1; s2b "nokey"] = (ex_db, RBulk []) /\
  cmd_lcs 0 ex_db [k1; s2b "nokey"; s2b "LEN"] = (ex_db, RInt 0) /\
  cmd_lcs 0 ex_db [k1; s2b "nokey"; s2b "IDX"] = (ex_db, idx_reply false [] 0) /\
  cmd_lcs 0 ex_db [k1; s2b "emp"; s2b "IDX"] = (ex_db, idx_reply false [] 0) /\
  cmd_lcs 0 ex_db [k1; k2; s2b "MINMATCHLEN"] = (ex_db, syntaxerr) /\
  cmd_lcs 0 ex_db [k1; k2; s2b "MINMATCHLEN"; s2b "x"] = (ex_db, notint) /\
  cmd_lcs 0 ex_db [k1] = (ex_db, argerr).
Proof. vm_compute. repeat split; reflexivity. Qed.

(* the rendered IDX reply of the documentation example *)
Example C02_cmd_lcs_idx_rendered :
  snd (cmd_lcs 0 ex_db [s2b "key1"; s2b "key2"; s2b "IDX"; s2b "WITHMATCHLEN"]) =
  RMap [(RBulk (s2b "matches"),
         RArr [RArr [RArr [RInt 4; RInt 7]; RArr [RInt 5; RInt 8]; RInt 4];
               RArr [RArr [RInt 2; RInt 3]; RArr [RInt 0; RInt 1]; RInt 2]]);
        (RBulk (s2b "len"), RInt 6)].
Proof. vm_compute. reflexivity. Qed.

(* instances of the command level theorems on ex_db *)
Example C02_cmd_lcs_operands_only_ex :
  snd (cmd_lcs 0 ex_db [s2b "key1"; s2b "nokey"; s2b "IDX"; s2b "WITHMATCHLEN"]) =
  snd (cmd_lcs 7 ex_db [s2b "key1"; s2b "emp"; s2b "IDX"; s2b "WITHMATCHLEN"]).
Proof.
  apply (C02_cmd_lcs_operands_only _ _ _ _ _ _ _ _ ex_a []).
  - eapply holds_string; vm_compute; reflexivity.
  - apply holds_missing; vm_compute; reflexivity.
  - eapply holds_string; vm_compute; reflexivity.
  - eapply holds_string; vm_compute; reflexivity.
Qed.

Example C02_cmd_lcs_minmatchlen_ex :
  cmd_lcs 0 ex_db [s2b "key1"; s2b "key2"; s2b "idx"; s2b "minmatchlen"; s2b "3"] =
  (ex_db, idx_reply false (keep_min 3 (lcs_ranges ex_a ex_b)) (lcs_length ex_a ex_b)).
Proof.
  assert (Hi : is_kw (s2b "idx") "IDX" = true) by (vm_compute; reflexivity).
  assert (Hm : is_kw (s2b "minmatchlen") "MINMATCHLEN" = true) by (vm_compute; reflexivity).
  assert (Hn : parse_i64 (s2b "3") = Some 3) by (vm_compute; reflexivity).
  assert (H1 : holds 0 ex_db (s2b "key1") ex_a) by (eapply holds_string; vm_compute; reflexivity).
  assert (H2 : holds 0 ex_db (s2b "key2") ex_b) by (eapply holds_string; vm_compute; reflexivity).
  destruct (C02_cmd_lcs_minmatchlen _ _ _ _ _ _ _ _ _ _ Hi Hm Hn H1 H2) as (H & _).
  exact H.
Qed.
