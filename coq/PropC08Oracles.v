(* PropC08Oracles.v — the three oracles the concurrency harness applies to the real server
   (property C08), proved about the model for EVERY sequential order.

   PropC08.v proves that a concurrent run of the lock-based machine is a sequential run
   ([seq_run], a fold of [step]) of the same commands in some order.  The harness cannot know
   that order; it checks three facts that are claimed to hold whatever the order is:

     O1  uniform snapshots     writers store "all the same value" groups (MSET / HSET / HMSET /
                               SADD / SREM on fixed keys); every reader sees a uniform group
     O2  conditional pushes    RPUSHX / LPUSHX never create a list: they never reply 1
     O3  optimistic counter    final value of k = committed WATCH/MULTI/EXEC rounds + INCRs

   Levels:  O1 and O2 are stated on the command functions of Exec.v (sections 1, 2), tied to the
   command table by [run_words] / data_cmd, lifted to sequential runs of [step] ([seq_run] of
   Atomic.v) for connections outside MULTI (section 4: C08_uniform_seq_run,
   C08_conditional_never_one_seq) and, through PropC08.C08_linearizable, to every run of the
   concurrent machine (C08_uniform_concurrent, C08_conditional_concurrent).
   O3 (section 5) is stated on [step] itself: two connection ids and the full session machinery
   (WATCH records versions, MULTI queues, EXEC compares versions and runs the queue); the log of
   the interleaving is shown to be a [seq_run].

   The invariants are stated on the RAW stored entry (aget (d_map d) k), not on the expiry-aware
   [lookup]: this makes them independent of the clock, so every command of a run may read a
   different (even non-monotone) clock.

   Standard library only; no axioms. *)
From RE Require Import Base Resp State Exec Exec2 Bits Dispatch Atomic Lemmas.
From RE Require Import PropC02 PropC03 PropC04 PropC05 PropC10 PropC08.
From Coq Require Import String.
From Coq Require Import List ZArith NArith Lia Bool.
Import ListNotations.
Open Scope list_scope.
Open Scope Z_scope.

(* command words (string literals are confined to this module) *)
Module W.
  Import Coq.Strings.String.
  Local Open Scope string_scope.
  Definition MSET := s2b "MSET".
  Definition MGET := s2b "MGET".
  Definition HSET := s2b "HSET".
  Definition HMSET := s2b "HMSET".
  Definition HMGET := s2b "HMGET".
  Definition HVALS := s2b "HVALS".
  Definition HGETALL := s2b "HGETALL".
  Definition SADD := s2b "SADD".
  Definition SREM := s2b "SREM".
  Definition SCARD := s2b "SCARD".
  Definition SMISMEMBER := s2b "SMISMEMBER".
  Definition RPUSH := s2b "RPUSH".
  Definition LPUSH := s2b "LPUSH".
  Definition RPUSHX := s2b "RPUSHX".
  Definition LPUSHX := s2b "LPUSHX".
  Definition LINSERT := s2b "LINSERT".
  Definition BEFORE := s2b "BEFORE".
  Definition DEL := s2b "DEL".
  Definition WATCH := s2b "WATCH".
  Definition GET := s2b "GET".
  Definition MULTI := s2b "MULTI".
  Definition SET := s2b "SET".
  Definition EXEC := s2b "EXEC".
  Definition INCR := s2b "INCR".
  Definition queued : resp := RSimple (s2b "QUEUED").
  Definition ma := s2b "ma". Definition mb := s2b "mb". Definition mc := s2b "mc". Definition md := s2b "md".
  Definition hh := s2b "hh". Definition ss := s2b "ss".
  Definition f0 := s2b "f0". Definition f1 := s2b "f1". Definition f2 := s2b "f2". Definition f3 := s2b "f3".
  Definition f4 := s2b "f4". Definition f5 := s2b "f5". Definition f6 := s2b "f6". Definition f7 := s2b "f7".
  Definition a := s2b "a". Definition b := s2b "b". Definition c := s2b "c". Definition d := s2b "d".
  Definition q := s2b "q". Definition k := s2b "k".
  Definition x := s2b "x". Definition y := s2b "y".
  Definition t1 := s2b "17". Definition t2 := s2b "18".
End W.

(* ====================================================================== *)
(* 0. The raw entry of a key                                               *)
(* ====================================================================== *)
Definition raw (d : db) (k : bytes) : option entry := aget (d_map d) k.

Lemma lookup_raw_none now d k : raw d k = None -> lookup now d k = None.
Proof. unfold raw, lookup. intros ->. reflexivity. Qed.

Lemma lookup_raw_nodl now d k v n :
  raw d k = Some (mkE v None n) -> lookup now d k = Some (mkE v None n).
Proof. unfold raw, lookup. intros ->. reflexivity. Qed.

Lemma raw_put_same d k v x : raw (put d k v x) k = Some (mkE v x (d_next d + 1)%N).
Proof. unfold raw, put; cbn [d_map]. apply aget_aset_same. Qed.

Lemma raw_put_other d k k' v x : k' <> k -> raw (put d k v x) k' = raw d k'.
Proof. intro H. unfold raw, put; cbn [d_map]. apply aget_aset_other. exact H. Qed.

Lemma raw_del_same d k : raw (del d k) k = None.
Proof. unfold raw, del; cbn [d_map]. apply aget_adel_same. Qed.

Lemma raw_del_other d k k' : k' <> k -> raw (del d k) k' = raw d k'.
Proof. intro H. unfold raw, del; cbn [d_map]. apply aget_adel_other. exact H. Qed.

Lemma raw_put_or_del_other d k k' v x : k' <> k -> raw (put_or_del d k v x) k' = raw d k'.
Proof.
  intro H. unfold put_or_del. destruct (is_empty_agg v); [apply raw_del_other | apply raw_put_other]; exact H.
Qed.

Lemma In_aget_NoDup {V} (m : list (bytes * V)) k v :
  NoDup (map fst m) -> In (k, v) m -> aget m k = Some v.
Proof.
  induction m as [|[k0 v0] m IH]; simpl; intros Hnd Hin; [destruct Hin|].
  inversion Hnd as [|? ? Hn Hnd']; subst.
  destruct Hin as [E|Hin].
  - injection E as -> ->. rewrite bytes_eqb_refl. reflexivity.
  - destruct (bytes_eqb k k0) eqn:E.
    + apply bytes_eqb_eq in E. subst k0. exfalso. apply Hn.
      apply (in_map fst) in Hin. exact Hin.
    + apply IH; assumption.
Qed.

(* ====================================================================== *)
(* 1. O1: uniform snapshots                                                *)
(* ====================================================================== *)

(* key/value argument lists "k1 t k2 t ..." *)
Definition kv_args (ks : list bytes) (t : bytes) : list bytes := flat_map (fun k => [k; t]) ks.

Lemma kv_pairs ks t : pairs_of (kv_args ks t) = Some (map (fun k => (k, t)) ks).
Proof.
  induction ks as [|k ks IH]; [reflexivity|]. unfold kv_args in *.
  cbn [flat_map app]. cbn [pairs_of]. rewrite IH. reflexivity.
Qed.

Definition mset_fold (ps : list (bytes * bytes)) (d : db) : db :=
  fold_left (fun d kv => put d (fst kv) (VStr (snd kv)) None) ps d.

Lemma mset_fold_raw_other ps : forall d k', ~ In k' (map fst ps) -> raw (mset_fold ps d) k' = raw d k'.
Proof.
  induction ps as [|[k v] ps IH]; intros d k' Hn; [reflexivity|].
  simpl in Hn. unfold mset_fold in *. cbn [fold_left fst snd]. rewrite IH by tauto.
  apply raw_put_other. intro E. subst. tauto.
Qed.

Lemma mset_fold_raw_in t ps :
  (forall p, In p ps -> snd p = t) -> forall d k,
  (In k (map fst ps) \/ exists n, raw d k = Some (mkE (VStr t) None n)) ->
  exists n, raw (mset_fold ps d) k = Some (mkE (VStr t) None n).
Proof.
  induction ps as [|[k0 v0] ps IH]; intros Hall d k H.
  - destruct H as [[]|H]. exact H.
  - unfold mset_fold in *. cbn [fold_left fst snd]. apply IH.
    { intros p Hp. apply Hall. right. exact Hp. }
    destruct (bytes_eq_dec k k0) as [->|Hne].
    + right. rewrite raw_put_same.
      assert (v0 = t) by (apply (Hall (k0, v0)); left; reflexivity). subst. eexists; reflexivity.
    + destruct H as [[H|H]|H].
      * simpl in H. congruence.
      * left. exact H.
      * right. rewrite raw_put_other by exact Hne. exact H.
Qed.

Lemma cmd_mset_kv now d ks t :
  ks <> [] -> cmd_mset now d (kv_args ks t) = (mset_fold (map (fun k => (k, t)) ks) d, ok).
Proof.
  intro Hne. destruct ks as [|k ks]; [congruence|]. pose proof (kv_pairs (k :: ks) t) as Hp.
  unfold cmd_mset. change (kv_args (k :: ks) t) with (k :: t :: kv_args ks t) in *.
  cbv beta iota. rewrite Hp. reflexivity.
Qed.

(* the value of the last pair of a constant-valued list *)
Lemma aget_const_pairs (t : bytes) (ps : list (bytes * bytes)) f :
  (forall p, In p ps -> snd p = t) ->
  aget ps f = if mem_bytes f (map fst ps) then Some t else None.
Proof.
  induction ps as [|[k v] ps IH]; intro Hall; simpl; [reflexivity|].
  destruct (bytes_eqb f k) eqn:E; simpl.
  - f_equal. apply (Hall (k, v)). left. reflexivity.
  - apply IH. intros p Hp. apply Hall. right. exact Hp.
Qed.

Lemma mem_bytes_ext x l1 l2 : (forall y, In y l1 <-> In y l2) -> mem_bytes x l1 = mem_bytes x l2.
Proof.
  intro H. destruct (mem_bytes x l2) eqn:E.
  - apply mem_bytes_In. apply H. apply mem_bytes_In. exact E.
  - apply mem_bytes_nIn. intro Hin. apply H in Hin. apply mem_bytes_In in Hin. congruence.
Qed.

Lemma aget_rev_const (fs : list bytes) (t f : bytes) :
  aget (rev (map (fun f => (f, t)) fs)) f = if mem_bytes f fs then Some t else None.
Proof.
  rewrite (aget_const_pairs t).
  - rewrite map_rev, map_map. cbn [fst]. rewrite map_id.
    rewrite (mem_bytes_ext f (rev fs) fs); [reflexivity|]. intro y. symmetry. apply in_rev.
  - intros p Hp. apply in_rev in Hp. apply in_map_iff in Hp as (f' & <- & _). reflexivity.
Qed.

(* HSET hh f1 t f2 t ... on a hash h *)
Lemma hset_const (h : list (bytes * bytes)) (fs : list bytes) (t f : bytes) :
  aget (fst (hset_all h (map (fun f => (f, t)) fs) false)) f =
  if mem_bytes f fs then Some t else aget h f.
Proof.
  rewrite hset_all_refines, hset_spec_set, aget_rev_const. destruct (mem_bytes f fs); reflexivity.
Qed.

(* SADD on the missing key / on the full set, SREM of all members *)
Definition sadd_step (acc : list bytes * Z) (m : bytes) : list bytes * Z :=
  let '(s, n) := acc in if mem_bytes m s then (s, n) else (s ++ [m], n + 1).
Definition srem_step (acc : list bytes * Z) (m : bytes) : list bytes * Z :=
  let '(s, n) := acc in if mem_bytes m s then (remove_bytes m s, n + 1) else (s, n).

Lemma sadd_fresh r : forall s n, NoDup (s ++ r) -> fold_left sadd_step r (s, n) = (s ++ r, n + Zlen r).
Proof.
  induction r as [|m r IH]; intros s n Hnd; cbn [fold_left].
  - rewrite app_nil_r. f_equal. unfold Zlen; simpl. lia.
  - unfold sadd_step at 2.
    assert (Hm : mem_bytes m s = false).
    { apply mem_bytes_nIn. intro Hin. apply NoDup_remove_2 in Hnd. apply Hnd. apply in_or_app. left. exact Hin. }
    rewrite Hm. rewrite IH.
    + rewrite <- app_assoc. cbn [app]. f_equal. unfold Zlen. cbn [length]. lia.
    + rewrite <- app_assoc. exact Hnd.
Qed.

Lemma sadd_present r : forall s n, (forall x, In x r -> In x s) -> fold_left sadd_step r (s, n) = (s, n).
Proof.
  induction r as [|m r IH]; intros s n Hin; cbn [fold_left]; [reflexivity|].
  unfold sadd_step at 2.
  assert (Hm : mem_bytes m s = true) by (apply mem_bytes_In, Hin; left; reflexivity).
  rewrite Hm. apply IH. intros x Hx. apply Hin. right. exact Hx.
Qed.

Lemma srem_sub r : forall s n x, In x (fst (fold_left srem_step r (s, n))) -> In x s /\ ~ In x r.
Proof.
  induction r as [|m r IH]; intros s n x Hx; cbn [fold_left] in Hx.
  - split; [exact Hx|intros []].
  - unfold srem_step at 2 in Hx. destruct (mem_bytes m s) eqn:Hm.
    + apply IH in Hx as [H1 H2]. apply remove_bytes_In in H1 as [H1 H3].
      split; [exact H1|]. intros [E|Hr]; [congruence|contradiction].
    + apply IH in Hx as [H1 H2]. split; [exact H1|].
      intros [E|Hr]; [|contradiction]. subst x. apply mem_bytes_nIn in Hm. contradiction.
Qed.

Lemma srem_all s n : fst (fold_left srem_step s (s, n)) = [].
Proof.
  destruct (fst (fold_left srem_step s (s, n))) as [|x l] eqn:E; [reflexivity|].
  exfalso. destruct (srem_sub s s n x) as [H1 H2]; [rewrite E; left; reflexivity|]. contradiction.
Qed.

Lemma cmd_sadd_eq now d ss m0 ms' :
  cmd_sadd now d (ss :: m0 :: ms') =
  match get_set now d ss with
  | None => (d, wrongtype)
  | Some cur =>
    let '(s0, exp) := match cur with Some (s, e) => (s, e) | None => ([], None) end in
    let '(s', n) := fold_left sadd_step (m0 :: ms') (s0, 0) in
    (if n =? 0 then d else put_set d ss s' exp, RInt n)
  end.
Proof. reflexivity. Qed.

Lemma cmd_srem_eq now d ss m0 ms' :
  cmd_srem now d (ss :: m0 :: ms') =
  match get_set now d ss with
  | None => (d, wrongtype)
  | Some None => (d, RInt 0)
  | Some (Some (s, exp)) =>
    let '(s', n) := fold_left srem_step (m0 :: ms') (s, 0) in
    (if n =? 0 then d else put_set d ss s' exp, RInt n)
  end.
Proof. reflexivity. Qed.

(* HSET / HMSET hh f1 t f2 t ... as one update of the stored hash *)
Lemma cmd_hset_kv mode now d hh fs t :
  fs <> [] -> N.eqb mode 2 = false ->
  cmd_hset mode now d (hh :: kv_args fs t) =
  match get_hash now d hh with
  | None => (d, wrongtype)
  | Some cur =>
    let '(h0, exp) := match cur with Some (h, e) => (h, e) | None => ([], None) end in
    let '(h', n) := hset_all h0 (map (fun f => (f, t)) fs) false in
    (put_hash d hh h' exp, if N.eqb mode 1 then ok else RInt n)
  end.
Proof.
  intros Hne Em. destruct fs as [|f0 fs]; [congruence|]. pose proof (kv_pairs (f0 :: fs) t) as Hp.
  unfold cmd_hset. change (kv_args (f0 :: fs) t) with (f0 :: t :: kv_args fs t) in *.
  cbv beta iota. rewrite Hp, Em. cbn [andb]. reflexivity.
Qed.

(* words on the wire, run through the command table of Dispatch.v *)
Definition run_words (now : Z) (d : db) (ws : list bytes) : res :=
  match ws with
  | name :: args => match data_cmd (lower name) with Some f => f now d args | None => (d, unknown_cmd) end
  | [] => (d, unknown_cmd)
  end.
Definition is_data (ws : list bytes) : Prop :=
  exists name args f, ws = name :: args /\ data_cmd (lower name) = Some f.

Section O1.
  (* the string keys (ma mb mc md), the hash key and its fields (hh; f0..f7), the set key and its
     members (ss; a b c d); any number of each *)
  Variables (mk fs ms : list bytes) (hh ss : bytes).
  Hypothesis Hmk : mk <> [].
  Hypothesis Hfs : fs <> [].
  Hypothesis Hms : ms <> [].
  Hypothesis Hnd : NoDup ms.
  Hypothesis Hhh : ~ In hh mk.
  Hypothesis Hss : ~ In ss mk.
  Hypothesis Hhs : hh <> ss.

  (* clock independent: no key of the three groups carries a deadline *)
  Definition uni_str (d : db) : Prop :=
    (forall k, In k mk -> raw d k = None) \/
    (exists t, forall k, In k mk -> exists n, raw d k = Some (mkE (VStr t) None n)).
  (* the hash has exactly the fields fs, all with the value t *)
  Definition uni_hash (d : db) : Prop :=
    raw d hh = None \/
    (exists h t n, raw d hh = Some (mkE (VHash h) None n) /\ NoDup (map fst h) /\
                   forall f, aget h f = if mem_bytes f fs then Some t else None).
  Definition uni_set (d : db) : Prop :=
    raw d ss = None \/ (exists n, raw d ss = Some (mkE (VSet ms) None n)).
  Definition uniform (d : db) : Prop := uni_str d /\ uni_hash d /\ uni_set d.

  Inductive writer :=
  | WMset (t : bytes) | WHset (t : bytes) | WHmset (t : bytes) | WSadd | WSrem.

  Definition run_writer (now : Z) (d : db) (w : writer) : res :=
    match w with
    | WMset t => cmd_mset now d (kv_args mk t)
    | WHset t => cmd_hset 0 now d (hh :: kv_args fs t)
    | WHmset t => cmd_hset 1 now d (hh :: kv_args fs t)
    | WSadd => cmd_sadd now d (ss :: ms)
    | WSrem => cmd_srem now d (ss :: ms)
    end.

  (* the same commands as words on the wire (run through the command table by [run_words]) *)
  Definition writer_words (w : writer) : list bytes :=
    match w with
    | WMset t => W.MSET :: kv_args mk t
    | WHset t => W.HSET :: hh :: kv_args fs t
    | WHmset t => W.HMSET :: hh :: kv_args fs t
    | WSadd => W.SADD :: ss :: ms
    | WSrem => W.SREM :: ss :: ms
    end.

  Lemma run_words_writer now d w : run_words now d (writer_words w) = run_writer now d w.
  Proof. destruct w; reflexivity. Qed.

  Theorem C08_uniform_init : uniform empty_db.
  Proof. split; [|split]; left; reflexivity. Qed.

  Lemma uniform_hset now d t mode :
    mode = 0%N \/ mode = 1%N -> uniform d -> uniform (fst (cmd_hset mode now d (hh :: kv_args fs t))).
  Proof.
    intros Hmode (Hs & Hh & Hse).
    set (ps := map (fun f => (f, t)) fs).
    assert (Hps : ps <> []).
    { subst ps. destruct fs; [congruence|discriminate]. }
    (* the command as one put of the updated hash *)
    assert (Em : N.eqb mode 2 = false) by (destruct Hmode; subst; reflexivity).
    assert (Hcmd : exists h0, (h0 = [] \/ exists t0 n0, raw d hh = Some (mkE (VHash h0) None n0) /\
                                 NoDup (map fst h0) /\ forall f, aget h0 f = if mem_bytes f fs then Some t0 else None) /\
              fst (cmd_hset mode now d (hh :: kv_args fs t)) = put d hh (VHash (fst (hset_all h0 ps false))) None).
    { rewrite (cmd_hset_kv mode now d hh fs t Hfs Em). fold ps.
      destruct Hh as [Hh|(h & t0 & n0 & Hh & Hn & Hf)].
      - exists []. split; [left; reflexivity|].
        unfold get_hash. rewrite (lookup_raw_none _ _ _ Hh).
        pose proof (hset_all_not_nil [] ps false Hps) as Hnn.
        destruct (hset_all [] ps false) as [h' n'] eqn:E. cbn [fst] in *.
        unfold put_hash, put_or_del. destruct h'; [congruence|]. reflexivity.
      - exists h. split; [right; exists t0, n0; auto|].
        unfold get_hash. rewrite (lookup_raw_nodl _ _ _ _ _ Hh). cbn [hash_of e_val e_exp].
        pose proof (hset_all_not_nil h ps false Hps) as Hnn.
        destruct (hset_all h ps false) as [h' n'] eqn:E. cbn [fst] in *.
        unfold put_hash, put_or_del. destruct h'; [congruence|]. reflexivity. }
    destruct Hcmd as (h0 & Hh0 & ->).
    split; [|split].
    - destruct Hs as [Hs|[t' Hs]]; [left|right; exists t'];
        intros k Hk; rewrite raw_put_other by (intro; subst; contradiction); apply Hs; exact Hk.
    - right. exists (fst (hset_all h0 ps false)), t, (d_next d + 1)%N.
      split; [apply raw_put_same|]. split.
      + apply hset_all_NoDup. destruct Hh0 as [->|(t0 & n0 & _ & Hn & _)]; [constructor|exact Hn].
      + intro f. subst ps. rewrite hset_const. destruct (mem_bytes f fs) eqn:Emf; [reflexivity|].
        destruct Hh0 as [->|(t0 & n0 & _ & _ & Hf)]; [reflexivity|]. rewrite Hf, Emf. reflexivity.
    - destruct Hse as [Hse|[n Hse]]; [left|right; exists n];
        rewrite raw_put_other by (intro E; symmetry in E; contradiction); exact Hse.
  Qed.

  (* every writer keeps the database uniform, whatever its clock reading *)
  Theorem C08_uniform_preserved now d w : uniform d -> uniform (fst (run_writer now d w)).
  Proof.
    intro Hu. destruct w as [t|t|t| |]; cbn [run_writer].
    - (* MSET *)
      destruct Hu as (Hs & Hh & Hse). rewrite (cmd_mset_kv _ _ _ _ Hmk). cbn [fst].
      assert (Hfst : map fst (map (fun k => (k, t)) mk) = mk) by (rewrite map_map; apply map_id).
      split; [|split].
      + right. exists t. intros k Hk. apply mset_fold_raw_in.
        * intros p Hp. apply in_map_iff in Hp as (k' & <- & _). reflexivity.
        * left. rewrite Hfst. exact Hk.
      + unfold uni_hash. rewrite mset_fold_raw_other by (rewrite Hfst; exact Hhh). exact Hh.
      + unfold uni_set. rewrite mset_fold_raw_other by (rewrite Hfst; exact Hss). exact Hse.
    - apply uniform_hset; [left; reflexivity|exact Hu].
    - apply uniform_hset; [right; reflexivity|exact Hu].
    - (* SADD *)
      destruct Hu as (Hs & Hh & Hse). destruct ms as [|m0 ms'] eqn:Ems; [congruence|].
      rewrite cmd_sadd_eq. rewrite <- Ems in *.
      destruct Hse as [Hse|[n Hse]].
      + unfold get_set. rewrite (lookup_raw_none _ _ _ Hse).
        rewrite (sadd_fresh ms [] 0 Hnd). cbn [app].
        destruct (0 + Zlen ms =? 0); cbn [fst]; [split; [|split]; [assumption|assumption|left; exact Hse]|].
        unfold put_set, put_or_del. rewrite Ems. cbn [is_empty_agg]. rewrite <- Ems.
        split; [|split].
        * destruct Hs as [Hs|[t' Hs]]; [left|right; exists t'];
            intros k Hk; rewrite raw_put_other by (intro; subst; contradiction); apply Hs; exact Hk.
        * unfold uni_hash. rewrite raw_put_other by exact Hhs. exact Hh.
        * right. eexists. apply raw_put_same.
      + unfold get_set. rewrite (lookup_raw_nodl _ _ _ _ _ Hse). cbn [set_of e_val e_exp].
        rewrite (sadd_present ms ms 0 (fun x H => H)). cbn [Z.eqb fst].
        split; [|split]; [assumption|assumption|right; exists n; exact Hse].
    - (* SREM *)
      destruct Hu as (Hs & Hh & Hse). destruct ms as [|m0 ms'] eqn:Ems; [congruence|].
      rewrite cmd_srem_eq. rewrite <- Ems in *.
      destruct Hse as [Hse|[n Hse]].
      + unfold get_set. rewrite (lookup_raw_none _ _ _ Hse). cbn [fst].
        split; [|split]; [assumption|assumption|left; exact Hse].
      + unfold get_set. rewrite (lookup_raw_nodl _ _ _ _ _ Hse). cbn [set_of e_val e_exp].
        pose proof (srem_all ms 0) as Hall.
        destruct (fold_left srem_step ms (ms, 0)) as [s' n'] eqn:E. cbn [fst] in Hall. subst s'.
        destruct (n' =? 0); cbn [fst].
        * split; [|split]; [assumption|assumption|right; exists n; exact Hse].
        * unfold put_set, put_or_del. cbn [is_empty_agg]. split; [|split].
          -- destruct Hs as [Hs|[t' Hs]]; [left|right; exists t'];
               intros k Hk; rewrite raw_del_other by (intro; subst; contradiction); apply Hs; exact Hk.
          -- unfold uni_hash. rewrite raw_del_other by exact Hhs. exact Hh.
          -- left. apply raw_del_same.
  Qed.

  (* any sequence of writers, each with its own clock reading, from the empty database *)
  Fixpoint run_writers (d : db) (ws : list (Z * writer)) : db :=
    match ws with
    | [] => d
    | (now, w) :: r => run_writers (fst (run_writer now d w)) r
    end.

  Corollary C08_uniform_run ws : forall d, uniform d -> uniform (run_writers d ws).
  Proof.
    induction ws as [|[now w] ws IH]; intros d Hu; [exact Hu|].
    cbn [run_writers]. apply IH. apply C08_uniform_preserved. exact Hu.
  Qed.

  (* what the readers see in a uniform database (none of them changes it) *)
  Theorem C08_uniform_reads now d :
    uniform d ->
    (* MGET ma mb mc md: all nil or all the same bulk *)
    (exists r, (r = RNil \/ exists t, r = RBulk t) /\
               cmd_mget now d mk = (d, RArr (map (fun _ => r) mk))) /\
    (* HMGET hh f0 .. f7: all nil or all the same bulk *)
    (exists r, (r = RNil \/ exists t, r = RBulk t) /\
               cmd_hmget now d (hh :: fs) = (d, RArr (map (fun _ => r) fs))) /\
    (* HVALS hh: all values equal *)
    (exists t vs, cmd_hkeys true now d [hh] = (d, RArrU (bulks vs)) /\ forall v, In v vs -> v = t) /\
    (* HGETALL hh: all values equal, all fields among f0..f7 *)
    (exists t h, cmd_hgetall now d [hh] = (d, RMap (map (fun fv => (RBulk (fst fv), RBulk (snd fv))) h)) /\
                 forall fv, In fv h -> snd fv = t /\ In (fst fv) fs) /\
    (* SMISMEMBER ss a b c d: four equal integers *)
    (exists b, (b = 0 \/ b = 1) /\
               cmd_smismember now d (ss :: ms) = (d, RArr (map (fun _ => RInt b) ms))) /\
    (* SCARD ss: 0 or all *)
    (cmd_scard now d [ss] = (d, RInt 0) \/ cmd_scard now d [ss] = (d, RInt (Zlen ms))).
  Proof.
    clear Hnd Hhh Hss Hhs.
    intros (Hs & Hh & Hse). split; [|split; [|split; [|split; [|split]]]].
    - unfold cmd_mget. destruct Hs as [Hs|[t Hs]].
      + exists RNil. split; [left; reflexivity|]. destruct mk as [|k0 mk'] eqn:E; [congruence|].
        rewrite <- E in *. f_equal. f_equal. apply map_ext_in. intros k Hk.
        rewrite (lookup_raw_none _ _ _ (Hs k Hk)). reflexivity.
      + exists (RBulk t). split; [right; exists t; reflexivity|]. destruct mk as [|k0 mk'] eqn:E; [congruence|].
        rewrite <- E in *. f_equal. f_equal. apply map_ext_in. intros k Hk.
        destruct (Hs k Hk) as [n Hr]. rewrite (lookup_raw_nodl _ _ _ _ _ Hr). reflexivity.
    - unfold cmd_hmget. destruct fs as [|f0 fs'] eqn:E; [congruence|]. rewrite <- E in *.
      destruct Hh as [Hh|(h & t & n & Hh & Hn & Hf)].
      + exists RNil. split; [left; reflexivity|]. unfold get_hash. rewrite (lookup_raw_none _ _ _ Hh). reflexivity.
      + exists (RBulk t). split; [right; exists t; reflexivity|].
        unfold get_hash. rewrite (lookup_raw_nodl _ _ _ _ _ Hh). cbn [hash_of e_val e_exp].
        f_equal. f_equal. apply map_ext_in. intros f Hin. rewrite Hf.
        apply mem_bytes_In in Hin. rewrite Hin. reflexivity.
    - unfold cmd_hkeys. destruct Hh as [Hh|(h & t & n & Hh & Hn & Hf)].
      + exists [], []. split; [|intros v []]. unfold get_hash. rewrite (lookup_raw_none _ _ _ Hh). reflexivity.
      + exists t, (map snd h). split.
        * unfold get_hash. rewrite (lookup_raw_nodl _ _ _ _ _ Hh). reflexivity.
        * intros v Hv. apply in_map_iff in Hv as ([f v'] & <- & Hin). cbn [snd].
          apply (In_aget_NoDup _ _ _ Hn) in Hin. rewrite Hf in Hin.
          destruct (mem_bytes f fs); congruence.
    - unfold cmd_hgetall. destruct Hh as [Hh|(h & t & n & Hh & Hn & Hf)].
      + exists [], []. split; [|intros v []]. unfold get_hash. rewrite (lookup_raw_none _ _ _ Hh). reflexivity.
      + exists t, h. split.
        * unfold get_hash. rewrite (lookup_raw_nodl _ _ _ _ _ Hh). reflexivity.
        * intros [f v] Hin. cbn [fst snd].
          apply (In_aget_NoDup _ _ _ Hn) in Hin. rewrite Hf in Hin.
          destruct (mem_bytes f fs) eqn:Em; [|discriminate]. split; [congruence|].
          apply mem_bytes_In. exact Em.
    - unfold cmd_smismember. destruct ms as [|m0 ms'] eqn:E; [congruence|]. rewrite <- E in *.
      destruct Hse as [Hse|[n Hse]].
      + exists 0. split; [left; reflexivity|]. unfold get_set. rewrite (lookup_raw_none _ _ _ Hse). reflexivity.
      + exists 1. split; [right; reflexivity|]. unfold get_set. rewrite (lookup_raw_nodl _ _ _ _ _ Hse).
        cbn [set_of e_val e_exp]. f_equal. f_equal. apply map_ext_in. intros m Hin.
        apply mem_bytes_In in Hin. rewrite Hin. reflexivity.
    - unfold cmd_scard. destruct Hse as [Hse|[n Hse]].
      + left. unfold get_set. rewrite (lookup_raw_none _ _ _ Hse). reflexivity.
      + right. unfold get_set. rewrite (lookup_raw_nodl _ _ _ _ _ Hse). reflexivity.
  Qed.

  (* writers and readers together: one command of the O1 workload *)
  Inductive o1cmd := OWrite (w : writer) | OMget | OHmget | OHvals | OHgetall | OSmismember | OScard.

  Definition o1_words (c : o1cmd) : list bytes :=
    match c with
    | OWrite w => writer_words w
    | OMget => W.MGET :: mk
    | OHmget => W.HMGET :: hh :: fs
    | OHvals => [W.HVALS; hh]
    | OHgetall => [W.HGETALL; hh]
    | OSmismember => W.SMISMEMBER :: ss :: ms
    | OScard => [W.SCARD; ss]
    end.

  (* the oracle on one reply *)
  Definition uniform_reply (c : o1cmd) (r : resp) : Prop :=
    match c with
    | OWrite _ => True
    | OMget => exists x, (x = RNil \/ exists t, x = RBulk t) /\ r = RArr (map (fun _ => x) mk)
    | OHmget => exists x, (x = RNil \/ exists t, x = RBulk t) /\ r = RArr (map (fun _ => x) fs)
    | OHvals => exists t vs, r = RArrU (bulks vs) /\ forall v, In v vs -> v = t
    | OHgetall => exists t h, r = RMap (map (fun fv => (RBulk (fst fv), RBulk (snd fv))) h) /\
                              forall fv, In fv h -> snd fv = t /\ In (fst fv) fs
    | OSmismember => exists b, (b = 0 \/ b = 1) /\ r = RArr (map (fun _ => RInt b) ms)
    | OScard => r = RInt 0 \/ r = RInt (Zlen ms)
    end.

  Lemma o1_is_data c : is_data (o1_words c).
  Proof.
    destruct c as [[t|t|t| |]| | | | | |]; cbn [o1_words writer_words];
      eexists _, _, _; (split; [reflexivity|]); reflexivity.
  Qed.

  Lemma o1_step now d c :
    uniform d ->
    uniform (fst (run_words now d (o1_words c))) /\ uniform_reply c (snd (run_words now d (o1_words c))).
  Proof.
    intro Hu.
    destruct (C08_uniform_reads now d Hu) as (R1 & R2 & R3 & R4 & R5 & R6).
    destruct c as [w| | | | | |]; cbn [o1_words uniform_reply].
    - rewrite run_words_writer. split; [apply C08_uniform_preserved; exact Hu|exact I].
    - change (run_words now d (W.MGET :: mk)) with (cmd_mget now d mk).
      destruct R1 as (x & Hx & ->). cbn [fst snd]. split; [exact Hu|]. exists x. split; [exact Hx|reflexivity].
    - change (run_words now d (W.HMGET :: hh :: fs)) with (cmd_hmget now d (hh :: fs)).
      destruct R2 as (x & Hx & ->). cbn [fst snd]. split; [exact Hu|]. exists x. split; [exact Hx|reflexivity].
    - change (run_words now d [W.HVALS; hh]) with (cmd_hkeys true now d [hh]).
      destruct R3 as (t & vs & -> & Hv). cbn [fst snd]. split; [exact Hu|]. exists t, vs. split; [reflexivity|exact Hv].
    - change (run_words now d [W.HGETALL; hh]) with (cmd_hgetall now d [hh]).
      destruct R4 as (t & h & -> & Hv). cbn [fst snd]. split; [exact Hu|]. exists t, h. split; [reflexivity|exact Hv].
    - change (run_words now d (W.SMISMEMBER :: ss :: ms)) with (cmd_smismember now d (ss :: ms)).
      destruct R5 as (b & Hb & ->). cbn [fst snd]. split; [exact Hu|]. exists b. split; [exact Hb|reflexivity].
    - change (run_words now d [W.SCARD; ss]) with (cmd_scard now d [ss]).
      destruct R6 as [-> | ->]; cbn [fst snd]; (split; [exact Hu|]); [left|right]; reflexivity.
  Qed.
End O1.

Print Assumptions C08_uniform_init.
Print Assumptions C08_uniform_preserved.
Print Assumptions C08_uniform_run.
Print Assumptions C08_uniform_reads.

(* ---------- the harness instance: ma..md, hh f0..f7, ss a..d ---------- *)
Definition mk4 : list bytes := [W.ma; W.mb; W.mc; W.md].
Definition fs8 : list bytes := [W.f0; W.f1; W.f2; W.f3; W.f4; W.f5; W.f6; W.f7].
Definition ms4 : list bytes := [W.a; W.b; W.c; W.d].

Lemma harness_keys_ok :
  mk4 <> [] /\ fs8 <> [] /\ ms4 <> [] /\ NoDup ms4 /\ ~ In W.hh mk4 /\ ~ In W.ss mk4 /\ W.hh <> W.ss.
Proof.
  split; [discriminate|]. split; [discriminate|]. split; [discriminate|]. split.
  - repeat constructor; cbn [In]; intro H; repeat (destruct H as [H|H]; [discriminate H|]); exact H.
  - split; [|split]; try discriminate;
      cbn [In mk4]; intro H; repeat (destruct H as [H|H]; [discriminate H|]); exact H.
Qed.

(* whatever the writers did, in whatever order and at whatever times, each reader sees one value *)
Corollary C08_uniform_harness ws now :
  let d := run_writers mk4 fs8 ms4 W.hh W.ss empty_db ws in
  (exists r, (r = RNil \/ exists t, r = RBulk t) /\
             run_words now d (W.MGET :: mk4) = (d, RArr [r; r; r; r])) /\
  (exists r, (r = RNil \/ exists t, r = RBulk t) /\
             run_words now d (W.HMGET :: W.hh :: fs8) = (d, RArr [r; r; r; r; r; r; r; r])) /\
  (exists t vs, run_words now d [W.HVALS; W.hh] = (d, RArrU (bulks vs)) /\ forall v, In v vs -> v = t) /\
  (exists t h, run_words now d [W.HGETALL; W.hh] = (d, RMap (map (fun fv => (RBulk (fst fv), RBulk (snd fv))) h)) /\
               forall fv, In fv h -> snd fv = t /\ In (fst fv) fs8) /\
  (exists b, (b = 0 \/ b = 1) /\
             run_words now d (W.SMISMEMBER :: W.ss :: ms4) = (d, RArr [RInt b; RInt b; RInt b; RInt b])) /\
  (run_words now d [W.SCARD; W.ss] = (d, RInt 0) \/ run_words now d [W.SCARD; W.ss] = (d, RInt 4)).
Proof.
  destruct harness_keys_ok as (H1 & H2 & H3 & H4 & H5 & H6 & H7). intro d.
  assert (Hu : uniform mk4 fs8 ms4 W.hh W.ss d).
  { apply C08_uniform_run; auto. apply C08_uniform_init. }
  exact (C08_uniform_reads mk4 fs8 ms4 W.hh W.ss H1 H2 H3 now d Hu).
Qed.
Print Assumptions C08_uniform_harness.

Example C08_uniform_ex :
  let d := run_writers mk4 fs8 ms4 W.hh W.ss empty_db
             [(1, WMset W.t1); (2, WHset W.t1); (3, WSadd); (4, WMset W.t2);
              (5, WHmset W.t2); (6, WSrem); (7, WSadd); (8, WSadd)] in
  snd (cmd_mget 9 d mk4) = RArr [RBulk W.t2; RBulk W.t2; RBulk W.t2; RBulk W.t2] /\
  snd (cmd_hmget 9 d (W.hh :: fs8)) = RArr (map (fun _ => RBulk W.t2) fs8) /\
  snd (cmd_hkeys true 9 d [W.hh]) = RArrU (map (fun _ => RBulk W.t2) fs8) /\
  snd (cmd_smismember 9 d (W.ss :: ms4)) = RArr [RInt 1; RInt 1; RInt 1; RInt 1] /\
  snd (cmd_scard 9 d [W.ss]) = RInt 4 /\
  snd (cmd_scard 9 (fst (run_writer mk4 fs8 ms4 W.hh W.ss 9 d WSrem)) [W.ss]) = RInt 0 /\
  snd (cmd_mget 9 empty_db mk4) = RArr [RNil; RNil; RNil; RNil] /\
  run_words 9 d (writer_words mk4 fs8 ms4 W.hh W.ss (WMset W.t1)) = run_writer mk4 fs8 ms4 W.hh W.ss 9 d (WMset W.t1).
Proof. vm_compute. repeat split. Qed.

(* ====================================================================== *)
(* 2. O2: conditional pushes never create                                  *)
(* ====================================================================== *)

(* the three facts about single commands *)
Theorem C08_pushx_missing (lft : bool) now d q y ys :
  get_list now d q = Some None -> cmd_push lft true now d (q :: y :: ys) = (d, RInt 0).
Proof. intro H. exact (cmd_push_missing lft true now d q y ys H). Qed.

Theorem C08_pushx_list (lft : bool) now d q y l exp :
  get_list now d q = Some (Some (l, exp)) -> l <> [] ->
  snd (cmd_push lft true now d [q; y]) = RInt (Zlen l + 1) /\ 1 <= Zlen l.
Proof.
  intros H Hne. destruct (cmd_push_spec lft true now d q y [] l exp H) as (E & Hl & _).
  cbv zeta in E, Hl. rewrite E. cbn [snd]. rewrite Hl. split; [reflexivity|].
  destruct l; [congruence|]. unfold Zlen. cbn [length]. lia.
Qed.

Theorem C08_linsert_missing now d q w p x :
  get_list now d q = Some None ->
  cmd_linsert now d [q; w; p; x] = (d, RInt 0) \/ cmd_linsert now d [q; w; p; x] = (d, argerr).
Proof.
  intro H. unfold cmd_linsert. destruct (is_kw w "BEFORE"%string); [rewrite H; left; reflexivity|].
  destruct (is_kw w "AFTER"%string); [rewrite H; left; reflexivity|]. right. reflexivity.
Qed.

Lemma insert_at_nonnil before p x l l' : insert_at before p x l = Some l' -> l' <> [].
Proof.
  destruct l as [|y r]; cbn [insert_at]; [discriminate|].
  destruct (bytes_eqb y p).
  - intro H. injection H as <-. destruct before; discriminate.
  - destruct (insert_at before p x r); [|discriminate]. intro H. injection H as <-. discriminate.
Qed.

Section O2.
  Variable q : bytes.

  (* the stored entry of q, if any, is a non-empty list (any deadline) *)
  Definition qinv (d : db) : Prop :=
    raw d q = None \/ exists l x n, l <> [] /\ raw d q = Some (mkE (VList l) x n).

  Inductive lcmd :=
  | LPush (lft : bool) (v : bytes) (vs : list bytes)      (* LPUSH / RPUSH q v vs... *)
  | LPushX (lft : bool) (v : bytes) (vs : list bytes)     (* LPUSHX / RPUSHX q v vs... *)
  | LDel (ks : list bytes)                                (* DEL ks... (q among them or not) *)
  | LInsert (w p x : bytes).                              (* LINSERT q w p x *)

  Definition run_lcmd (now : Z) (d : db) (c : lcmd) : res :=
    match c with
    | LPush lft v vs => cmd_push lft false now d (q :: v :: vs)
    | LPushX lft v vs => cmd_push lft true now d (q :: v :: vs)
    | LDel ks => cmd_del now d ks
    | LInsert w p x => cmd_linsert now d [q; w; p; x]
    end.

  Definition lcmd_words (c : lcmd) : list bytes :=
    match c with
    | LPush lft v vs => (if lft then W.LPUSH else W.RPUSH) :: q :: v :: vs
    | LPushX lft v vs => (if lft then W.LPUSHX else W.RPUSHX) :: q :: v :: vs
    | LDel ks => W.DEL :: ks
    | LInsert w p x => [W.LINSERT; q; w; p; x]
    end.

  Lemma run_words_lcmd now d c : run_words now d (lcmd_words c) = run_lcmd now d c.
  Proof. destruct c as [[|] v vs|[|] v vs|ks|w p x]; reflexivity. Qed.

  Lemma qinv_get_list now d :
    qinv d -> get_list now d q = Some None \/
              exists l x, l <> [] /\ get_list now d q = Some (Some (l, x)).
  Proof.
    intros [H|(l & x & n & Hne & H)]; unfold get_list, lookup; unfold raw in H; rewrite H.
    - left. reflexivity.
    - destruct (expired now _); [left; reflexivity|]. right. exists l, x. split; [exact Hne|reflexivity].
  Qed.

  Lemma qinv_put_list d l x : l <> [] -> qinv (put_list d q l x).
  Proof.
    intro Hne. right. exists l, x, (d_next d + 1)%N. split; [exact Hne|].
    unfold put_list, put_or_del. destruct l; [congruence|]. cbn [is_empty_agg]. apply raw_put_same.
  Qed.

  Lemma qinv_del_fold now ks : forall acc, qinv (fst acc) ->
    qinv (fst (fold_left (fun acc k => let '(d, r) := acc in
                 match r with
                 | RInt n => match lookup now d k with
                             | Some _ => (del d k, RInt (n + 1))
                             | None => (d, RInt n)
                             end
                 | _ => acc
                 end) ks acc)).
  Proof.
    induction ks as [|k ks IH]; intros [d r] Hq; cbn [fold_left]; [exact Hq|].
    apply IH. cbn [fst] in Hq. destruct r; try exact Hq.
    destruct (lookup now d k); [|exact Hq]. cbn [fst].
    destruct (bytes_eq_dec q k) as [<-|Hne].
    - left. apply raw_del_same.
    - unfold qinv. rewrite raw_del_other by exact Hne. exact Hq.
  Qed.

  Lemma qinv_step now d c : qinv d -> qinv (fst (run_lcmd now d c)).
  Proof.
    intro Hq. pose proof (qinv_get_list now d Hq) as Hg.
    destruct c as [lft v vs|lft v vs|ks|w p x]; cbn [run_lcmd].
    - unfold cmd_push. destruct Hg as [Hg|(l & e & Hne & Hg)]; rewrite Hg; cbn [fst].
      + apply qinv_put_list. destruct lft; [|discriminate].
        cbn [rev]. intro E. apply app_eq_nil in E as [_ E]. discriminate.
      + apply qinv_put_list. destruct lft; intro E; apply app_eq_nil in E as [E1 E2]; congruence.
    - unfold cmd_push. destruct Hg as [Hg|(l & e & Hne & Hg)]; rewrite Hg; cbn [fst].
      + exact Hq.
      + apply qinv_put_list. destruct lft; intro E; apply app_eq_nil in E as [E1 E2]; congruence.
    - unfold cmd_del. destruct ks as [|k0 ks]; [exact Hq|]. apply qinv_del_fold. exact Hq.
    - unfold cmd_linsert.
      destruct (if is_kw w "BEFORE"%string then Some true else if is_kw w "AFTER"%string then Some false else None) as [bf|];
        [|exact Hq].
      destruct Hg as [Hg|(l & e & Hne & Hg)]; rewrite Hg; [exact Hq|].
      destruct (insert_at bf p x l) as [l'|] eqn:Ei; cbn [fst]; [|exact Hq].
      apply qinv_put_list. exact (insert_at_nonnil _ _ _ _ _ Ei).
  Qed.

  (* a conditional push in a state where q is missing or a non-empty list: 0 and nothing happens,
     or the new length, which is at least 2 *)
  Lemma pushx_reply now d lft v vs :
    qinv d ->
    run_lcmd now d (LPushX lft v vs) = (d, RInt 0) \/
    exists n, 2 <= n /\ snd (run_lcmd now d (LPushX lft v vs)) = RInt n.
  Proof.
    intro Hq. cbn [run_lcmd]. destruct (qinv_get_list now d Hq) as [Hg|(l & e & Hne & Hg)].
    - left. apply C08_pushx_missing. exact Hg.
    - right. destruct (cmd_push_spec lft true now d q v vs l e Hg) as (E & Hl & _).
      cbv zeta in E, Hl. rewrite E. cbn [snd]. eexists. split; [|reflexivity]. rewrite Hl.
      destruct l; [congruence|]. unfold Zlen. cbn [length]. lia.
  Qed.

  (* a sequential run: every command reads its own clock; the result is the list of
     (command, reply) pairs *)
  Fixpoint run_lseq (d : db) (prog : list (Z * lcmd)) : list (lcmd * resp) :=
    match prog with
    | [] => []
    | (now, c) :: r => let o := run_lcmd now d c in (c, snd o) :: run_lseq (fst o) r
    end.

  Theorem C08_conditional_never_one prog : forall d,
    qinv d ->
    forall lft v vs r, In (LPushX lft v vs, r) (run_lseq d prog) ->
      r = RInt 0 \/ exists n, 2 <= n /\ r = RInt n.
  Proof.
    induction prog as [|[now c] prog IH]; intros d Hq lft v vs r Hin; [destruct Hin|].
    cbn [run_lseq] in Hin. destruct Hin as [E|Hin].
    - injection E as -> <-.
      destruct (pushx_reply now d lft v vs Hq) as [H|H]; [left; rewrite H; reflexivity|right; exact H].
    - exact (IH _ (qinv_step now d c Hq) lft v vs r Hin).
  Qed.

  Corollary C08_conditional_never_one_neq prog lft v vs :
    ~ In (LPushX lft v vs, RInt 1) (run_lseq empty_db prog).
  Proof.
    intro Hin. destruct (C08_conditional_never_one prog empty_db (or_introl eq_refl) lft v vs _ Hin) as [H|(n & Hn & H)].
    - discriminate.
    - injection H as <-. lia.
  Qed.

  Lemma lcmd_is_data c : is_data (lcmd_words c).
  Proof.
    destruct c as [[|] v vs|[|] v vs|ks|w p x]; cbn [lcmd_words];
      eexists _, _, _; (split; [reflexivity|]); reflexivity.
  Qed.
End O2.

Print Assumptions C08_pushx_missing.
Print Assumptions C08_pushx_list.
Print Assumptions C08_linsert_missing.
Print Assumptions C08_conditional_never_one.
Print Assumptions C08_conditional_never_one_neq.

Example C08_conditional_ex :
  run_lseq W.q empty_db
    [(1, LPushX false W.y []); (2, LInsert W.BEFORE W.x W.y); (3, LPush false W.x []);
     (4, LPushX true W.y []); (5, LInsert W.BEFORE W.x W.y); (6, LDel [W.q]); (7, LPushX false W.y [])]
  = [(LPushX false W.y [], RInt 0); (LInsert W.BEFORE W.x W.y, RInt 0); (LPush false W.x [], RInt 1);
     (LPushX true W.y [], RInt 2); (LInsert W.BEFORE W.x W.y, RInt 3); (LDel [W.q], RInt 1);
     (LPushX false W.y [], RInt 0)].
Proof. vm_compute. reflexivity. Qed.


(* ====================================================================== *)
(* 3. [step] on the commands of the oracles                                *)
(* ====================================================================== *)
Lemma get_db_set_db_same st i d : get_db (set_db st i d) i = d.
Proof. unfold get_db, set_db. cbn [s_dbs]. rewrite PropC10.nget_nset_same. reflexivity. Qed.
Lemma get_db_set_db_other st i j d : j <> i -> get_db (set_db st i d) j = get_db st j.
Proof. intro H. unfold get_db, set_db. cbn [s_dbs]. rewrite PropC10.nget_nset_other by exact H. reflexivity. Qed.
Lemma get_db_set_conn st c x i : get_db (set_conn st c x) i = get_db st i.
Proof. reflexivity. Qed.
Lemma get_conn_set_conn_same st c x : get_conn (set_conn st c x) c = x.
Proof. unfold get_conn, set_conn. cbn [s_conns]. rewrite PropC10.nget_nset_same. reflexivity. Qed.
Lemma get_conn_set_conn_other st c c' x : c' <> c -> get_conn (set_conn st c x) c' = get_conn st c'.
Proof. intro H. unfold get_conn, set_conn. cbn [s_conns]. rewrite PropC10.nget_nset_other by exact H. reflexivity. Qed.
Lemma get_conn_set_db st i d c : get_conn (set_db st i d) c = get_conn st c.
Proof. reflexivity. Qed.

Lemma data_not_tx name f :
  data_cmd name = Some f ->
  bytes_eqb name (s2b "multi") = false /\ bytes_eqb name (s2b "discard") = false /\
  bytes_eqb name (s2b "watch") = false /\ bytes_eqb name (s2b "exec") = false.
Proof.
  intro Hf.
  assert (H : forall s, data_cmd (s2b s) = None -> bytes_eqb name (s2b s) = false).
  { intros s Hs. destruct (bytes_eqb name (s2b s)) eqn:E; [|reflexivity].
    apply bytes_eqb_eq in E. subst name. congruence. }
  repeat split; apply H; vm_compute; reflexivity.
Qed.

Lemma run_plain_data now st cid name args b f :
  data_cmd name = Some f ->
  run_plain now st cid name args b =
  mkOut (set_db st (c_sel (get_conn st cid)) (fst (f now (get_db st (c_sel (get_conn st cid))) args)))
        (snd (f now (get_db st (c_sel (get_conn st cid))) args)) false.
Proof.
  intro Hf. unfold run_plain. rewrite Hf.
  destruct (f now (get_db st (c_sel (get_conn st cid))) args) as [d' r]. reflexivity.
Qed.

(* a data command of a connection outside MULTI: the command function applied to the selected database *)
Lemma step_data now st cid name0 args f :
  data_cmd (lower name0) = Some f -> c_queue (get_conn st cid) = None ->
  step now st cid (name0 :: args) =
  mkOut (set_db st (c_sel (get_conn st cid)) (fst (f now (get_db st (c_sel (get_conn st cid))) args)))
        (snd (f now (get_db st (c_sel (get_conn st cid))) args)) false.
Proof.
  intros Hf Hq. destruct (data_not_tx _ _ Hf) as (E1 & E2 & E3 & E4).
  unfold step. cbv beta iota zeta.
  assert (Hk : known_cmd (lower name0) = true) by (unfold known_cmd; rewrite Hf; reflexivity).
  rewrite Hk, E1, E2, E3, E4. cbn [negb]. cbv beta iota. rewrite Hq.
  apply run_plain_data. exact Hf.
Qed.

(* the same command inside MULTI: only queued (an arity error flags the transaction) *)
Lemma step_data_queued now st cid name0 args f q :
  data_cmd (lower name0) = Some f -> c_queue (get_conn st cid) = Some q ->
  is_argerr (snd (f now (get_db st (c_sel (get_conn st cid))) args)) = false ->
  let c := get_conn st cid in
  step now st cid (name0 :: args) =
  mkOut (set_conn st cid (mkConn (c_sel c) (c_resp c) (c_name c) (Some (q ++ [name0 :: args])) (c_qerr c) (c_watch c)))
        W.queued false.
Proof.
  intros Hf Hq Ha c. destruct (data_not_tx _ _ Hf) as (E1 & E2 & E3 & E4).
  unfold step. cbv beta iota zeta.
  assert (Hk : known_cmd (lower name0) = true) by (unfold known_cmd; rewrite Hf; reflexivity).
  rewrite Hk, E1, E2, E3, E4. cbn [negb]. cbv beta iota. rewrite Hq.
  rewrite (run_plain_data _ _ _ _ _ _ _ Hf). cbn [o_reply]. rewrite Ha. reflexivity.
Qed.

Lemma known_multi : known_cmd (s2b "multi") = true. Proof. vm_compute. reflexivity. Qed.

Lemma step_multi now st cid name0 :
  lower name0 = s2b "multi" -> c_queue (get_conn st cid) = None ->
  let c := get_conn st cid in
  step now st cid [name0] =
  mkOut (set_conn st cid (mkConn (c_sel c) (c_resp c) (c_name c) (Some []) false (c_watch c))) ok false.
Proof.
  intros Hl Hq c. unfold step. cbv beta iota zeta. rewrite Hl, known_multi.
  replace (bytes_eqb (s2b "multi") (s2b "multi")) with true by reflexivity.
  cbn [negb]. cbv beta iota. rewrite Hq. reflexivity.
Qed.

Lemma step_watch1 now st cid name0 k :
  lower name0 = s2b "watch" -> c_queue (get_conn st cid) = None ->
  let c := get_conn st cid in
  step now st cid [name0; k] =
  mkOut (set_conn st cid (mkConn (c_sel c) (c_resp c) (c_name c) None (c_qerr c)
           ((c_sel c, k, ver_of now (get_db st (c_sel c)) k) ::
            filter (fun w => let '(i, k', _) := w in negb (N.eqb i (c_sel c) && mem_bytes k' [k])) (c_watch c))))
        ok false.
Proof.
  intros Hl Hq c. unfold step. cbv beta iota zeta. rewrite Hl, known_watch.
  replace (bytes_eqb (s2b "watch") (s2b "multi")) with false by reflexivity.
  replace (bytes_eqb (s2b "watch") (s2b "discard")) with false by reflexivity.
  replace (bytes_eqb (s2b "watch") (s2b "watch")) with true by reflexivity.
  cbn [negb]. cbv beta iota. rewrite Hq. reflexivity.
Qed.

(* ====================================================================== *)
(* 4. O1 and O2 on sequential runs of [step] (the [seq_run] of Atomic.v)    *)
(* ====================================================================== *)
(* connection c has selected database i and is outside MULTI *)
Definition plain (st : state) (c i : N) : Prop :=
  c_sel (get_conn st c) = i /\ c_queue (get_conn st c) = None.

Lemma step_plain_data now st c i ws :
  plain st c i -> is_data ws ->
  let o := step now st c ws in
  o_reply o = snd (run_words now (get_db st i) ws) /\
  get_db (o_st o) i = fst (run_words now (get_db st i) ws) /\
  (forall c', get_conn (o_st o) c' = get_conn st c').
Proof.
  intros [Hs Hq] (name & args & f & -> & Hf) o. subst o.
  rewrite (step_data now st c name args f Hf Hq). rewrite Hs. cbn [o_reply o_st].
  unfold run_words. rewrite Hf. split; [reflexivity|]. split; [apply get_db_set_db_same|].
  intro c'. apply get_conn_set_db.
Qed.

Definition op3 {X} (words : X -> list bytes) (op : N * Z * X) : N * Z * list bytes :=
  let '(c, now, x) := op in (c, now, words x).

(* O1 for every sequential order: the clients (any number of connections that have selected
   database i and are outside MULTI) issue writers and readers of the O1 workload in any order,
   each command with its own clock reading; every reply of a reader is uniform *)
Theorem C08_uniform_seq_run (mk fs ms : list bytes) (hh ss : bytes) :
  mk <> [] -> fs <> [] -> ms <> [] -> NoDup ms -> ~ In hh mk -> ~ In ss mk -> hh <> ss ->
  forall i (ops : list (N * Z * o1cmd)) st,
  uniform mk fs ms hh ss (get_db st i) ->
  (forall c now x, In (c, now, x) ops -> plain st c i) ->
  uniform mk fs ms hh ss (get_db (fst (seq_run st (map (op3 (o1_words mk fs ms hh ss)) ops))) i) /\
  Forall2 (fun op r => uniform_reply mk fs ms (snd op) r) ops
          (snd (seq_run st (map (op3 (o1_words mk fs ms hh ss)) ops))).
Proof.
  intros H1 H2 H3 H4 H5 H6 H7 i ops. induction ops as [|[[c now] x] ops IH]; intros st Hu Hp.
  - split; [exact Hu|constructor].
  - cbn [map op3 seq_run].
    destruct (step_plain_data now st c i _ (Hp c now x (or_introl eq_refl)) (o1_is_data mk fs ms hh ss x))
      as (Hr & Hd & Hc).
    destruct (o1_step mk fs ms hh ss H1 H2 H3 H4 H5 H6 H7 now (get_db st i) x Hu) as [Hu' Hrep].
    rewrite <- Hd in Hu'. rewrite <- Hr in Hrep.
    specialize (IH (o_st (step now st c (o1_words mk fs ms hh ss x))) Hu').
    destruct (seq_run (o_st (step now st c (o1_words mk fs ms hh ss x))) (map (op3 (o1_words mk fs ms hh ss)) ops))
      as [st' rs].
    cbn [fst snd] in *. destruct IH as [IH1 IH2].
    { intros c' now' x' Hin. destruct (Hp c' now' x' (or_intror Hin)) as [Hs Hq].
      unfold plain. rewrite Hc. split; assumption. }
    split; [exact IH1|]. constructor; [exact Hrep|exact IH2].
Qed.
Print Assumptions C08_uniform_seq_run.

(* O2 for every sequential order *)
Theorem C08_conditional_never_one_seq q i (ops : list (N * Z * lcmd)) : forall st,
  qinv q (get_db st i) ->
  (forall c now x, In (c, now, x) ops -> plain st c i) ->
  Forall2 (fun op r => forall lft v vs, snd op = LPushX lft v vs ->
                         r = RInt 0 \/ exists n, 2 <= n /\ r = RInt n)
          ops (snd (seq_run st (map (op3 (lcmd_words q)) ops))).
Proof.
  induction ops as [|[[c now] x] ops IH]; intros st Hq Hp; [constructor|].
  cbn [map op3 seq_run].
  destruct (step_plain_data now st c i _ (Hp c now x (or_introl eq_refl)) (lcmd_is_data q x))
    as (Hr & Hd & Hc).
  rewrite run_words_lcmd in Hr, Hd.
  pose proof (qinv_step q now (get_db st i) x Hq) as Hq'. rewrite <- Hd in Hq'.
  specialize (IH (o_st (step now st c (lcmd_words q x))) Hq').
  destruct (seq_run (o_st (step now st c (lcmd_words q x))) (map (op3 (lcmd_words q)) ops)) as [st' rs].
  cbn [fst snd] in *. constructor.
  - intros lft v vs E. cbn [snd] in E. subst x. rewrite Hr.
    destruct (pushx_reply q now (get_db st i) lft v vs Hq) as [H|H]; [left; rewrite H; reflexivity|right; exact H].
  - apply IH. intros c' now' x' Hin. destruct (Hp c' now' x' (or_intror Hin)) as [Hs Hq2].
    unfold plain. rewrite Hc. split; assumption.
Qed.
Print Assumptions C08_conditional_never_one_seq.


(* ---------- with PropC08.C08_linearizable: the oracles on CONCURRENT runs ---------- *)
(* In any run of the concurrent machine of Atomic.v from its initial state (any number of
   connections, any interleaving of invoke / execute / respond events) in which the executed
   commands are commands of the O1 workload, every reply delivered to a reader is uniform. *)
Corollary C08_uniform_concurrent (mk fs ms : list bytes) (hh ss : bytes) es m (ops : list (N * Z * o1cmd)) :
  mk <> [] -> fs <> [] -> ms <> [] -> NoDup ms -> ~ In hh mk -> ~ In ss mk -> hh <> ss ->
  mrun mach0 es = Some m ->
  exec_order [] es = map (op3 (o1_words mk fs ms hh ss)) ops ->
  Forall2 (fun op r => uniform_reply mk fs ms (snd op) r) ops (map (fun x => snd x) (m_done m)).
Proof.
  intros H1 H2 H3 H4 H5 H6 H7 Hr Ho.
  destruct (C08_linearizable es m Hr) as [Hs _]. cbv zeta in Hs. rewrite Ho in Hs.
  destruct (C08_uniform_seq_run mk fs ms hh ss H1 H2 H3 H4 H5 H6 H7 0%N ops state0) as [_ HF].
  - apply C08_uniform_init.
  - intros c now x _. split; reflexivity.
  - rewrite Hs in HF. exact HF.
Qed.
Print Assumptions C08_uniform_concurrent.

Lemma Forall2_weaken {A B} (P Q : A -> B -> Prop) l1 l2 :
  (forall a b, P a b -> Q a b) -> Forall2 P l1 l2 -> Forall2 Q l1 l2.
Proof. intros H HF. induction HF; constructor; auto. Qed.

(* ... and no conditional push is answered with 1 *)
Corollary C08_conditional_concurrent q es m (ops : list (N * Z * lcmd)) :
  mrun mach0 es = Some m ->
  exec_order [] es = map (op3 (lcmd_words q)) ops ->
  Forall2 (fun op r => forall lft v vs, snd op = LPushX lft v vs -> r <> RInt 1)
          ops (map (fun x => snd x) (m_done m)).
Proof.
  intros Hr Ho. destruct (C08_linearizable es m Hr) as [Hs _]. cbv zeta in Hs. rewrite Ho in Hs.
  pose proof (C08_conditional_never_one_seq q 0%N ops state0 (or_introl eq_refl)
                (fun c now x _ => conj eq_refl eq_refl)) as HF.
  rewrite Hs in HF. cbn [snd] in HF.
  eapply Forall2_weaken; [|exact HF]. intros op r H lft v vs E.
  destruct (H lft v vs E) as [->|(n & Hn & ->)]; [discriminate|]. intro E1. injection E1 as E1. lia.
Qed.
Print Assumptions C08_conditional_concurrent.

Example C08_seq_run_ex :
  snd (seq_run state0 (map (op3 (o1_words mk4 fs8 ms4 W.hh W.ss))
        [(1%N, 1, OWrite (WMset W.t1)); (2%N, 2, OMget); (3%N, 3, OWrite (WHset W.t2)); (1%N, 4, OHvals);
         (2%N, 5, OWrite WSadd); (3%N, 6, OScard); (1%N, 7, OWrite WSrem); (2%N, 8, OSmismember)]))
  = [ok; RArr [RBulk W.t1; RBulk W.t1; RBulk W.t1; RBulk W.t1]; RInt 8;
     RArrU (map (fun _ => RBulk W.t2) fs8); RInt 4; RInt 4; RInt 4; RArr [RInt 0; RInt 0; RInt 0; RInt 0]] /\
  snd (seq_run state0 (map (op3 (lcmd_words W.q))
        [(1%N, 1, LPushX false W.y []); (2%N, 2, LPush false W.x []); (1%N, 3, LPushX true W.y []);
         (2%N, 4, LDel [W.q]); (1%N, 5, LPushX false W.y [])]))
  = [RInt 0; RInt 1; RInt 2; RInt 1; RInt 0].
Proof. vm_compute. split; reflexivity. Qed.


(* ====================================================================== *)
(* 5. O3: the optimistic counter                                           *)
(* ====================================================================== *)
Lemma cmd_set_plain now d k v : cmd_set now d [k; v] = (put d k (VStr v) None, ok).
Proof. unfold cmd_set. cbn [length scan_set]. unfold set_core. destruct (lookup now d k); reflexivity. Qed.

Lemma Zlen_cons {A} (x : A) l : Zlen (x :: l) = 1 + Zlen l.
Proof. unfold Zlen. cbn [length]. lia. Qed.

Lemma in_i64_range n : 0 <= n <= max_i64 -> in_i64 n = true.
Proof. intro H. apply in_i64_iff. unfold max_i64 in H. lia. Qed.

(* what the client of connection A computes from the reply of GET: the text of v+1 (nil counts as 0) *)
Definition next_text (r : resp) : bytes :=
  match r with
  | RBulk t => match parse_i64 t with Some v => Z_to_bytes (v + 1) | None => [] end
  | _ => Z_to_bytes 1
  end.

(* how a reply of GET is read as a number *)
Definition counter_of (r : resp) : option Z :=
  match r with RNil => Some 0 | RBulk t => parse_i64 t | _ => None end.

Section O3.
  (* connection A runs the optimistic rounds, connection B the INCRs; both have selected database i *)
  Variables (ca cb : N) (i : N) (k : bytes).
  Hypothesis Hab : ca <> cb.

  (* the counter: key k is not stored (0) or holds the decimal text of n, without deadline *)
  Definition kstate (d : db) (n : Z) : Prop :=
    (raw d k = None /\ n = 0) \/
    (exists ver, raw d k = Some (mkE (VStr (Z_to_bytes n)) None ver) /\ (ver <= d_next d)%N).
  Definition kver (d : db) : N := match raw d k with Some e => e_ver e | None => 0%N end.

  Lemma kstate_ver_of now d n : kstate d n -> ver_of now d k = kver d.
  Proof.
    unfold ver_of, kver. intros [[H _]|(ver & H & _)].
    - rewrite (lookup_raw_none _ _ _ H), H. reflexivity.
    - rewrite (lookup_raw_nodl _ _ _ _ _ H), H. reflexivity.
  Qed.

  Lemma kstate_kver_le d n : kstate d n -> (kver d <= d_next d)%N.
  Proof. unfold kver. intros [[H _]|(ver & H & Hle)]; rewrite H; cbn [e_ver]; lia. Qed.

  Lemma kstate_get now d n :
    kstate d n -> 0 <= n <= max_i64 ->
    fst (cmd_get now d [k]) = d /\ next_text (snd (cmd_get now d [k])) = Z_to_bytes (n + 1) /\
    counter_of (snd (cmd_get now d [k])) = Some n.
  Proof.
    intros Hk Hn. unfold cmd_get. destruct Hk as [[H ->]|(ver & H & _)].
    - rewrite (lookup_raw_none _ _ _ H). repeat split; reflexivity.
    - rewrite (lookup_raw_nodl _ _ _ _ _ H). cbn [str_of e_val fst snd next_text counter_of].
      rewrite (parse_i64_Z_to_bytes n (in_i64_range n Hn)). repeat split; reflexivity.
  Qed.

  Lemma kstate_put d n : kstate (put d k (VStr (Z_to_bytes n)) None) n.
  Proof. right. exists (d_next d + 1)%N. split; [apply raw_put_same|]. cbn [put d_next]. lia. Qed.

  Lemma kver_put d v x : kver (put d k v x) = (d_next d + 1)%N.
  Proof. unfold kver. rewrite raw_put_same. reflexivity. Qed.

  Lemma kstate_incr now d n :
    kstate d n -> 0 <= n -> n + 1 <= max_i64 ->
    cmd_incr 1 now d [k] = (put d k (VStr (Z_to_bytes (n + 1))) None, RInt (n + 1)).
  Proof.
    intros Hk H0 H1. destruct Hk as [[H ->]|(ver & H & _)].
    - rewrite (cmd_incr_missing 1 now d k (lookup_raw_none _ _ _ H)). reflexivity.
    - apply (cmd_incr_ok 1 now d k _ (Z_to_bytes n) n (lookup_raw_nodl _ _ _ _ _ H) eq_refl).
      + apply strict_i64_Z_to_bytes. apply in_i64_range. lia.
      + apply in_i64_range. lia.
  Qed.

  (* ---------- the two clients ---------- *)
  Inductive phase := P0 | P1 | P2 (nv : bytes) | P3 (nv : bytes) | P4 (nv : bytes).

  (* A's next command, and where A goes on the reply *)
  Definition a_cmd (p : phase) : list bytes :=
    match p with
    | P0 => [W.WATCH; k]
    | P1 => [W.GET; k]
    | P2 _ => [W.MULTI]
    | P3 nv => [W.SET; k; nv]
    | P4 _ => [W.EXEC]
    end.
  Definition a_next (p : phase) (r : resp) : phase :=
    match p with
    | P0 => P1
    | P1 => P2 (next_text r)
    | P2 nv => P3 nv
    | P3 nv => P4 nv
    | P4 _ => P0
    end.
  Definition b_cmd : list bytes := [W.INCR; k].

  (* a schedule says whose command is executed next and at what clock reading (true = A);
     the log records (connection, clock, command, reply) *)
  Definition logent := (N * Z * list bytes * resp)%type.

  Fixpoint otrace (sched : list (Z * bool)) (st : state) (p : phase) : list logent :=
    match sched with
    | [] => []
    | (now, true) :: r =>
      let o := step now st ca (a_cmd p) in
      (ca, now, a_cmd p, o_reply o) :: otrace r (o_st o) (a_next p (o_reply o))
    | (now, false) :: r =>
      let o := step now st cb b_cmd in
      (cb, now, b_cmd, o_reply o) :: otrace r (o_st o) p
    end.

  Fixpoint ofinal (sched : list (Z * bool)) (st : state) (p : phase) : state * phase :=
    match sched with
    | [] => (st, p)
    | (now, true) :: r =>
      let o := step now st ca (a_cmd p) in ofinal r (o_st o) (a_next p (o_reply o))
    | (now, false) :: r =>
      let o := step now st cb b_cmd in ofinal r (o_st o) p
    end.

  (* what the harness counts: EXECs of A answered with an array, and INCRs of B *)
  Definition is_commit (e : logent) : bool :=
    let '(c, _, cmd, r) := e in
    match cmd with [w] => bytes_eqb w W.EXEC | _ => false end
    && match r with RArr _ => true | _ => false end && N.eqb c ca.
  Definition is_incr (e : logent) : bool := let '(c, _, _, _) := e in N.eqb c cb.
  Definition n_commits (log : list logent) : Z := Zlen (filter is_commit log).
  Definition n_incrs (log : list logent) : Z := Zlen (filter is_incr log).

  (* ---------- the invariant ---------- *)
  (* A watches k with version w; if k still has that version, the text A is going to SET is n+1 *)
  Definition watch_ok (d : db) (n : Z) (c : conn) (nv : option bytes) : Prop :=
    exists w, c_watch c = [(i, k, w)] /\ (w <= d_next d)%N /\
      match nv with Some t => kver d = w -> t = Z_to_bytes (n + 1) | None => True end.

  Definition Inv (st : state) (p : phase) (n : Z) : Prop :=
    let d := get_db st i in
    let A := get_conn st ca in
    let B := get_conn st cb in
    kstate d n /\ c_sel B = i /\ c_queue B = None /\ c_sel A = i /\ c_qerr A = false /\
    match p with
    | P0 => c_queue A = None /\ c_watch A = []
    | P1 => c_queue A = None /\ watch_ok d n A None
    | P2 nv => c_queue A = None /\ watch_ok d n A (Some nv)
    | P3 nv => c_queue A = Some [] /\ watch_ok d n A (Some nv)
    | P4 nv => c_queue A = Some [[W.SET; k; nv]] /\ watch_ok d n A (Some nv)
    end.

  Definition committed (p : phase) (r : resp) : Z :=
    match p, r with P4 _, RArr _ => 1 | _, _ => 0 end.

  (* an INCR of B: always succeeds, and invalidates whatever A watches *)
  Lemma b_step_inv now st p n :
    Inv st p n -> 0 <= n -> n + 1 <= max_i64 ->
    let o := step now st cb b_cmd in
    Inv (o_st o) p (n + 1) /\ o_reply o = RInt (n + 1).
  Proof.
    intros (Hk & HBs & HBq & HAs & HAe & Hp) H0 H1 o. subst o. unfold b_cmd.
    rewrite (step_data now st cb W.INCR [k] (cmd_incr 1) eq_refl HBq). rewrite HBs.
    rewrite (kstate_incr now _ n Hk H0 H1). cbn [fst snd o_st o_reply]. split; [|reflexivity].
    unfold Inv. rewrite get_db_set_db_same, !get_conn_set_db.
    split; [apply kstate_put|]. split; [exact HBs|]. split; [exact HBq|]. split; [exact HAs|]. split; [exact HAe|].
    assert (Hw : forall nv, watch_ok (get_db st i) n (get_conn st ca) nv ->
                 watch_ok (put (get_db st i) k (VStr (Z_to_bytes (n + 1))) None) (n + 1) (get_conn st ca) nv).
    { intros nv (w & Hw & Hle & _). exists w. split; [exact Hw|]. split; [cbn [put d_next]; lia|].
      destruct nv; [|exact I]. rewrite kver_put. intro E. lia. }
    destruct p; destruct Hp as [Hq Hwo]; (split; [exact Hq|]); try exact Hwo; apply Hw; exact Hwo.
  Qed.

  (* one command of A *)
  Lemma a_step_inv now st p n :
    Inv st p n -> 0 <= n <= max_i64 ->
    let o := step now st ca (a_cmd p) in
    Inv (o_st o) (a_next p (o_reply o)) (n + committed p (o_reply o)).
  Proof.
    intros (Hk & HBs & HBq & HAs & HAe & Hp) Hn o. subst o.
    assert (Hba : cb <> ca) by (intro E; apply Hab; symmetry; exact E).
    destruct p as [| |nv|nv|nv]; cbn [a_cmd a_next]; destruct Hp as [Hq Hw].
    - (* WATCH k *)
      rewrite (step_watch1 now st ca W.WATCH k eq_refl Hq). cbn [o_st o_reply committed].
      rewrite Z.add_0_r. unfold Inv.
      rewrite get_db_set_conn, get_conn_set_conn_same, (get_conn_set_conn_other _ _ _ _ Hba).
      cbn [c_sel c_queue c_qerr c_watch].
      split; [exact Hk|]. split; [exact HBs|]. split; [exact HBq|]. split; [exact HAs|]. split; [exact HAe|].
      split; [reflexivity|]. rewrite Hw, HAs. cbn [filter].
      exists (ver_of now (get_db st i) k). split; [reflexivity|]. split; [|exact I].
      rewrite (kstate_ver_of now _ _ Hk). exact (kstate_kver_le _ _ Hk).
    - (* GET k *)
      rewrite (step_data now st ca W.GET [k] cmd_get eq_refl Hq). rewrite HAs.
      destruct (kstate_get now _ n Hk Hn) as (Hd & Hnt & _).
      cbn [o_st o_reply committed]. rewrite Hd, Hnt. rewrite Z.add_0_r. unfold Inv.
      rewrite get_db_set_db_same, !get_conn_set_db.
      split; [exact Hk|]. split; [exact HBs|]. split; [exact HBq|]. split; [exact HAs|]. split; [exact HAe|].
      split; [exact Hq|]. destruct Hw as (w & Hw & Hle & _). exists w. split; [exact Hw|]. split; [exact Hle|].
      intros _. reflexivity.
    - (* MULTI *)
      rewrite (step_multi now st ca W.MULTI eq_refl Hq). cbn [o_st o_reply committed].
      rewrite Z.add_0_r. unfold Inv.
      rewrite get_db_set_conn, get_conn_set_conn_same, (get_conn_set_conn_other _ _ _ _ Hba).
      cbn [c_sel c_queue c_qerr c_watch].
      split; [exact Hk|]. split; [exact HBs|]. split; [exact HBq|]. split; [exact HAs|]. split; [reflexivity|].
      split; [reflexivity|]. exact Hw.
    - (* SET k nv: queued *)
      rewrite (step_data_queued now st ca W.SET [k; nv] cmd_set [] eq_refl Hq)
        by (rewrite cmd_set_plain; reflexivity).
      cbn [o_st o_reply committed app]. rewrite Z.add_0_r. unfold Inv.
      rewrite get_db_set_conn, get_conn_set_conn_same, (get_conn_set_conn_other _ _ _ _ Hba).
      cbn [c_sel c_queue c_qerr c_watch].
      split; [exact Hk|]. split; [exact HBs|]. split; [exact HBq|]. split; [exact HAs|]. split; [exact HAe|].
      split; [reflexivity|]. exact Hw.
    - (* EXEC *)
      rewrite (step_exec now st ca W.EXEC eq_refl). cbv zeta. rewrite Hq, HAe.
      destruct Hw as (w & Hw & Hle & Hnv). rewrite Hw.
      unfold watch_dirty. cbn [existsb]. rewrite orb_false_r.
      rewrite (kstate_ver_of now _ _ Hk).
      destruct (N.eqb (kver (get_db st i)) w) eqn:E; cbn [negb].
      + (* nobody touched k: the queued SET runs *)
        apply N.eqb_eq in E. specialize (Hnv E). subst nv.
        cbn [exec_queue]. rewrite (run_plain_data _ _ _ (lower W.SET) [k; Z_to_bytes (n + 1)] true cmd_set eq_refl).
        rewrite get_conn_set_conn_same. cbn [reset_tx c_sel]. rewrite HAs, get_db_set_conn.
        rewrite cmd_set_plain. cbn [fst snd o_st o_reply committed]. unfold Inv.
        rewrite get_db_set_db_same, !get_conn_set_db, get_conn_set_conn_same,
          (get_conn_set_conn_other _ _ _ _ Hba).
        cbn [c_sel c_queue c_qerr c_watch].
        split; [apply kstate_put|]. split; [exact HBs|]. split; [exact HBq|]. split; [exact HAs|].
        split; [reflexivity|]. split; reflexivity.
      + (* k was written since WATCH: nil, nothing happens *)
        cbn [o_st o_reply committed]. rewrite Z.add_0_r. unfold Inv.
        rewrite get_db_set_conn, get_conn_set_conn_same, (get_conn_set_conn_other _ _ _ _ Hba).
        cbn [reset_tx c_sel c_queue c_qerr c_watch].
        split; [exact Hk|]. split; [exact HBs|]. split; [exact HBq|]. split; [exact HAs|].
        split; [reflexivity|]. split; reflexivity.
  Qed.


  (* the heart, spelled out.  (1) an INCR of B between A's WATCH and A's EXEC moves the version of k
     away from the watched one, for good *)
  Lemma C08_incr_moves_version now st p n w :
    Inv st p n -> 0 <= n -> n + 1 <= max_i64 ->
    c_watch (get_conn st ca) = [(i, k, w)] -> (w <= d_next (get_db st i))%N ->
    let st' := o_st (step now st cb b_cmd) in
    c_watch (get_conn st' ca) = [(i, k, w)] /\ (w < kver (get_db st' i))%N /\
    (w <= d_next (get_db st' i))%N.
  Proof.
    intros (Hk & HBs & HBq & _) H0 H1 Hw Hle st'. subst st'. unfold b_cmd.
    rewrite (step_data now st cb W.INCR [k] (cmd_incr 1) eq_refl HBq). rewrite HBs.
    rewrite (kstate_incr now _ n Hk H0 H1). cbn [fst o_st].
    rewrite get_db_set_db_same, get_conn_set_db, kver_put. cbn [put d_next].
    split; [exact Hw|]. split; lia.
  Qed.

  (* (2) EXEC of A: nil and no database touched when the version of k is not the watched one;
     otherwise the queued SET runs and the counter becomes n+1 *)
  Lemma C08_exec_cases now st nv n :
    Inv st (P4 nv) n ->
    let o := step now st ca [W.EXEC] in
    exists w, c_watch (get_conn st ca) = [(i, k, w)] /\
      (kver (get_db st i) <> w -> o_reply o = RNil /\ s_dbs (o_st o) = s_dbs st) /\
      (kver (get_db st i) = w ->
         o_reply o = RArr [ok] /\ nv = Z_to_bytes (n + 1) /\ kstate (get_db (o_st o) i) (n + 1)).
  Proof.
    intros (Hk & HBs & HBq & HAs & HAe & Hq & (w & Hw & Hle & Hnv)) o. subst o.
    exists w. split; [exact Hw|].
    rewrite (step_exec now st ca W.EXEC eq_refl). cbv zeta. rewrite Hq, HAe, Hw.
    unfold watch_dirty. cbn [existsb]. rewrite orb_false_r. rewrite (kstate_ver_of now _ _ Hk).
    split; intro E.
    - apply N.eqb_neq in E. rewrite E. cbn [negb o_reply o_st]. split; reflexivity.
    - specialize (Hnv E). subst nv. apply N.eqb_eq in E. rewrite E. cbn [negb exec_queue].
      rewrite (run_plain_data _ _ _ (lower W.SET) [k; Z_to_bytes (n + 1)] true cmd_set eq_refl).
      rewrite get_conn_set_conn_same. cbn [reset_tx c_sel]. rewrite HAs, get_db_set_conn.
      rewrite cmd_set_plain. cbn [fst snd o_st o_reply].
      split; [reflexivity|]. split; [reflexivity|]. rewrite get_db_set_db_same. apply kstate_put.
  Qed.

  Lemma is_commit_a now p r : is_commit (ca, now, a_cmd p, r) = true -> committed p r = 1.
  Proof.
    unfold is_commit. destruct p; cbn [a_cmd andb]; try discriminate.
    destruct r; cbn [andb]; rewrite ?andb_false_r; try discriminate. reflexivity.
  Qed.
  Lemma is_commit_a_false now p r : is_commit (ca, now, a_cmd p, r) = false -> committed p r = 0.
  Proof.
    unfold is_commit. destruct p; cbn [a_cmd committed]; try reflexivity.
    replace (bytes_eqb W.EXEC W.EXEC) with true by reflexivity. rewrite N.eqb_refl.
    destruct r; cbn [andb]; try reflexivity. discriminate.
  Qed.

  Lemma orun_inv sched : forall st p n,
    Inv st p n -> 0 <= n -> n + Z.of_nat (length sched) <= max_i64 ->
    let n' := n + n_commits (otrace sched st p) + n_incrs (otrace sched st p) in
    Inv (fst (ofinal sched st p)) (snd (ofinal sched st p)) n' /\ 0 <= n' <= n + Z.of_nat (length sched) /\
    (* every INCR of B is answered with an integer *)
    (forall e, In e (otrace sched st p) -> is_incr e = true -> exists m, snd e = RInt m).
  Proof.
    unfold n_commits, n_incrs.
    induction sched as [|[now who] sched IH]; intros st p n HI H0 Hmax.
    - cbn [otrace ofinal filter fst snd length]. unfold Zlen. cbn [length].
      rewrite !Z.add_0_r. split; [exact HI|]. split; [lia|]. intros e [].
    - cbn [length] in Hmax. rewrite Nat2Z.inj_succ in Hmax. destruct who.
      + (* A moves *)
        cbn [otrace ofinal]. set (o := step now st ca (a_cmd p)).
        pose proof (a_step_inv now st p n HI ltac:(lia)) as HI'. cbv zeta in HI'. fold o in HI'.
        assert (Hc : 0 <= committed p (o_reply o) <= 1).
        { unfold committed. destruct p; try lia. destruct (o_reply o); lia. }
        specialize (IH (o_st o) (a_next p (o_reply o)) (n + committed p (o_reply o)) HI' ltac:(lia) ltac:(lia)).
        cbv zeta in IH. destruct IH as (IH1 & IH2 & IH3).
        assert (Hcnt : Zlen (filter is_commit ((ca, now, a_cmd p, o_reply o) :: otrace sched (o_st o) (a_next p (o_reply o))))
                       = committed p (o_reply o) + Zlen (filter is_commit (otrace sched (o_st o) (a_next p (o_reply o))))).
        { cbn [filter]. destruct (is_commit (ca, now, a_cmd p, o_reply o)) eqn:E.
          - rewrite Zlen_cons, (is_commit_a _ _ _ E). reflexivity.
          - rewrite (is_commit_a_false _ _ _ E). reflexivity. }
        assert (Hinc : filter is_incr ((ca, now, a_cmd p, o_reply o) :: otrace sched (o_st o) (a_next p (o_reply o)))
                       = filter is_incr (otrace sched (o_st o) (a_next p (o_reply o)))).
        { cbn [filter is_incr]. apply N.eqb_neq in Hab. rewrite Hab. reflexivity. }
        rewrite Hcnt, Hinc. cbn [length]. rewrite Nat2Z.inj_succ.
        replace (n + (committed p (o_reply o) + Zlen (filter is_commit (otrace sched (o_st o) (a_next p (o_reply o))))) +
                 Zlen (filter is_incr (otrace sched (o_st o) (a_next p (o_reply o)))))
          with (n + committed p (o_reply o) + Zlen (filter is_commit (otrace sched (o_st o) (a_next p (o_reply o)))) +
                Zlen (filter is_incr (otrace sched (o_st o) (a_next p (o_reply o))))) by lia.
        split; [exact IH1|]. split; [lia|].
        intros e [<-|Hin] He; [|exact (IH3 e Hin He)].
        cbn [is_incr] in He. apply N.eqb_eq in He. contradiction.
      + (* B moves *)
        cbn [otrace ofinal]. set (o := step now st cb b_cmd).
        destruct (b_step_inv now st p n HI H0 ltac:(lia)) as [HI' Hr]. fold o in HI', Hr.
        specialize (IH (o_st o) p (n + 1) HI' ltac:(lia) ltac:(lia)).
        cbv zeta in IH. destruct IH as (IH1 & IH2 & IH3).
        assert (Hcnt : filter is_commit ((cb, now, b_cmd, o_reply o) :: otrace sched (o_st o) p)
                       = filter is_commit (otrace sched (o_st o) p)) by reflexivity.
        assert (Hinc : Zlen (filter is_incr ((cb, now, b_cmd, o_reply o) :: otrace sched (o_st o) p))
                       = 1 + Zlen (filter is_incr (otrace sched (o_st o) p))).
        { cbn [filter is_incr]. rewrite N.eqb_refl. apply Zlen_cons. }
        rewrite Hcnt, Hinc. cbn [length]. rewrite Nat2Z.inj_succ.
        replace (n + Zlen (filter is_commit (otrace sched (o_st o) p)) +
                 (1 + Zlen (filter is_incr (otrace sched (o_st o) p))))
          with (n + 1 + Zlen (filter is_commit (otrace sched (o_st o) p)) +
                Zlen (filter is_incr (otrace sched (o_st o) p))) by lia.
        split; [exact IH1|]. split; [lia|].
        intros e [<-|Hin] He; [|exact (IH3 e Hin He)].
        cbn [snd]. exists (n + 1). exact Hr.
  Qed.

  (* the log is the log of a sequential run in the sense of Atomic.v / PropC08.v *)
  Definition log_op (e : logent) : N * Z * list bytes := let '(c, now, cmd, _) := e in (c, now, cmd).
  Definition log_reply (e : logent) : resp := snd e.

  Lemma otrace_seq_run sched : forall st p,
    seq_run st (map log_op (otrace sched st p)) =
    (fst (ofinal sched st p), map log_reply (otrace sched st p)).
  Proof.
    induction sched as [|[now who] sched IH]; intros st p; [reflexivity|].
    destruct who; cbn [otrace ofinal map log_op seq_run]; rewrite IH; reflexivity.
  Qed.

  (* The oracle.  Initially (state st): A and B have selected database i, are outside MULTI, A
     watches nothing; k is missing (n0 = 0) or holds the text of n0.  After ANY schedule (A's
     rounds WATCH k; GET k -> v; MULTI; SET k (v+1); EXEC interleaved with B's INCR k at arbitrary
     positions, every command with its own clock reading; A may be stopped in the middle of a round):
       value of k  =  n0 + (EXECs of A answered with an array) + (INCRs of B). *)
  Theorem C08_optimistic_counter sched st n0 :
    kstate (get_db st i) n0 ->
    c_sel (get_conn st cb) = i -> c_queue (get_conn st cb) = None ->
    c_sel (get_conn st ca) = i -> c_qerr (get_conn st ca) = false ->
    c_queue (get_conn st ca) = None -> c_watch (get_conn st ca) = [] ->
    0 <= n0 -> n0 + Z.of_nat (length sched) <= max_i64 ->
    let log := otrace sched st P0 in
    let st' := fst (ofinal sched st P0) in
    let total := n0 + n_commits log + n_incrs log in
    (* the log is a sequential run from st ending in st' *)
    seq_run st (map log_op log) = (st', map log_reply log) /\
    (* the stored counter *)
    kstate (get_db st' i) total /\
    (* what GET k says afterwards, at any time, issued by B *)
    (forall now, counter_of (o_reply (step now st' cb [W.GET; k])) = Some total) /\
    (forall e, In e log -> is_incr e = true -> exists m, snd e = RInt m).
  Proof.
    intros Hk HBs HBq HAs HAe HAq HAw H0 Hmax log st' total.
    assert (HI : Inv st P0 n0) by (unfold Inv; repeat (split; [assumption|]); assumption).
    destruct (orun_inv sched st P0 n0 HI H0 Hmax) as (HI' & Hb & Hr). cbv zeta in HI', Hb, Hr.
    fold log in HI', Hb, Hr. fold st' in HI'. fold total in HI', Hb.
    split; [apply otrace_seq_run|].
    destruct HI' as (Hk' & HBs' & HBq' & _). split; [exact Hk'|]. split; [|exact Hr].
    intro now. rewrite (step_data now st' cb W.GET [k] cmd_get eq_refl HBq'). cbn [o_reply].
    rewrite HBs'. destruct (kstate_get now _ total Hk' ltac:(lia)) as (_ & _ & Hc). exact Hc.
  Qed.
End O3.

Print Assumptions C08_incr_moves_version.
Print Assumptions C08_exec_cases.
Print Assumptions C08_optimistic_counter.

(* from the initial state of the server: both connections fresh, database 0, k missing *)
Corollary C08_optimistic_counter_state0 ca cb k sched :
  ca <> cb -> Z.of_nat (length sched) <= max_i64 ->
  let log := otrace ca cb k sched state0 P0 in
  let st' := fst (ofinal ca cb k sched state0 P0) in
  let total := n_commits ca log + n_incrs cb log in
  seq_run state0 (map log_op log) = (st', map log_reply log) /\
  forall now, counter_of (o_reply (step now st' cb [W.GET; k])) = Some total.
Proof.
  intros Hab Hmax log st' total.
  destruct (C08_optimistic_counter ca cb 0%N k Hab sched state0 0) as (H1 & _ & H3 & _);
    try reflexivity; try lia.
  - left. split; reflexivity.
  - split; [exact H1|exact H3].
Qed.
Print Assumptions C08_optimistic_counter_state0.

(* two rounds of A and three INCRs of B: the first round is overtaken (EXEC -> nil), the second
   commits; 0 + 1 + 3 = 4 *)
Example C08_optimistic_ex :
  let sched := [(1, true); (2, true); (3, false); (4, true); (5, true); (6, true);     (* round 1, INCR after GET *)
                (7, false);
                (8, true); (9, true); (10, true); (11, true); (12, true);              (* round 2, undisturbed *)
                (13, false)] in
  let log := otrace 1 2 W.k sched state0 P0 in
  map log_reply log =
    [ok; RNil; RInt 1; ok; W.queued; RNil; RInt 2; ok; RBulk (s2b "2"); ok; W.queued; RArr [ok]; RInt 4] /\
  n_commits 1 log = 1 /\ n_incrs 2 log = 3 /\
  o_reply (step 14 (fst (ofinal 1 2 W.k sched state0 P0)) 2 [W.GET; W.k]) = RBulk (s2b "4").
Proof. vm_compute. repeat split. Qed.
