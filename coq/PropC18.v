(* PropC18.v — properties of the BITMAP commands of the model (Bits.v).
   A string is viewed as a big-endian bit array.  All statements are universally
   quantified; bytes are N, [wf_bytes] says every byte is below 256. *)
From RE Require Import Base Resp State Exec Bits Lemmas.
From Coq Require Import String.
From Coq Require Import List ZArith NArith Lia Bool FinFun.
Import ListNotations.
Open Scope Z_scope.

Definition wf_bytes (bs : bytes) : Prop := Forall (fun b => (b < 256)%N) bs.

(* ------------------------------------------------------------------ *)
(* generic list helpers                                                *)
(* ------------------------------------------------------------------ *)
Lemma repeatN_length {A} (x : A) n : length (repeatN x n) = n.
Proof. induction n as [|n IH]; simpl; [reflexivity | rewrite IH; reflexivity]. Qed.

Lemma repeatN_nth {A} (x : A) n i : nth i (repeatN x n) x = x.
Proof. revert i; induction n as [|n IH]; intros [|i]; simpl; auto. Qed.

Lemma nth_skipn_c18 {A} (l : list A) n i d : nth i (skipn n l) d = nth (n + i) l d.
Proof.
  revert l; induction n as [|n IH]; intros l; simpl; [reflexivity|].
  destruct l as [|x l]; simpl; [destruct i; reflexivity | apply IH].
Qed.

Lemma nth_firstn_c18 {A} (l : list A) n i d : (i < n)%nat -> nth i (firstn n l) d = nth i l d.
Proof.
  revert l i; induction n as [|n IH]; intros l i Hi; [lia|].
  destruct l as [|x l]; simpl; [reflexivity|].
  destruct i as [|i]; [reflexivity | apply IH; lia].
Qed.

Lemma map_seq_ext {A} (f g : nat -> A) s n :
  (forall j, (s <= j < s + n)%nat -> f j = g j) -> map f (seq s n) = map g (seq s n).
Proof.
  intro H. apply map_ext_in. intros j Hj. apply in_seq in Hj. apply H. exact Hj.
Qed.

Lemma nth_map_seq {A} (f : nat -> A) n j d : (j < n)%nat -> nth j (map f (seq 0 n)) d = f j.
Proof.
  intro H. rewrite (nth_indep _ d (f 0%nat)) by (rewrite map_length, seq_length; lia).
  rewrite map_nth, seq_nth by lia. reflexivity.
Qed.

Lemma nth_map_default {A B} (g : A -> B) l d d' i :
  (i < length l)%nat -> nth i (map g l) d' = g (nth i l d).
Proof.
  intro H. rewrite (nth_indep _ d' (g d)) by (rewrite map_length; exact H). apply map_nth.
Qed.

Lemma list_eq_map_nth {A} (l : list A) d :
  l = map (fun j => nth j l d) (seq 0 (length l)).
Proof.
  induction l as [|x l IH]; simpl; [reflexivity|].
  f_equal. rewrite <- seq_shift, map_map. exact IH.
Qed.

(* ------------------------------------------------------------------ *)
(* 2. bits_val / val_bits                                              *)
(* ------------------------------------------------------------------ *)
Lemma bits_val_acc l : forall acc,
  fold_left (fun acc (b : bool) => 2 * acc + (if b then 1 else 0)) l acc
  = acc * 2 ^ Z.of_nat (length l) + bits_val l.
Proof.
  unfold bits_val.
  induction l as [|b l IH]; intro acc.
  - simpl. lia.
  - cbn [fold_left length]. rewrite IH. rewrite (IH (2 * 0 + _)).
    rewrite Nat2Z.inj_succ, Z.pow_succ_r by lia. ring.
Qed.

Lemma bits_val_nil : bits_val [] = 0.
Proof. reflexivity. Qed.

Lemma bits_val_cons b l :
  bits_val (b :: l) = Z.b2z b * 2 ^ Z.of_nat (length l) + bits_val l.
Proof.
  unfold bits_val at 1. cbn [fold_left]. rewrite bits_val_acc.
  destruct b; simpl Z.b2z; ring.
Qed.

Lemma bits_val_app l1 l2 :
  bits_val (l1 ++ l2) = bits_val l1 * 2 ^ Z.of_nat (length l2) + bits_val l2.
Proof.
  unfold bits_val at 1. rewrite fold_left_app. fold (bits_val l1). apply bits_val_acc.
Qed.

Theorem bits_val_range l : 0 <= bits_val l < 2 ^ Z.of_nat (length l).
Proof.
  induction l as [|b l IH].
  - rewrite bits_val_nil. simpl. lia.
  - rewrite bits_val_cons. cbn [length]. rewrite Nat2Z.inj_succ, Z.pow_succ_r by lia.
    destruct b; simpl Z.b2z; lia.
Qed.
Print Assumptions bits_val_range.
Example bits_val_range_ex : bits_val [true; false; true; true] = 11.
Proof. reflexivity. Qed.

Lemma val_bits_length w v : length (val_bits w v) = w.
Proof. induction w as [|w IH]; simpl; [reflexivity | rewrite IH; reflexivity]. Qed.

Theorem bits_val_val_bits w v : bits_val (val_bits w v) = v mod 2 ^ Z.of_nat w.
Proof.
  induction w as [|w IH].
  - simpl. rewrite Z.mod_1_r. reflexivity.
  - cbn [val_bits]. rewrite bits_val_cons, val_bits_length, IH.
    rewrite Nat2Z.inj_succ, Z.pow_succ_r by lia.
    assert (Hp : 0 < 2 ^ Z.of_nat w) by (apply Z.pow_pos_nonneg; lia).
    rewrite (Z.mul_comm 2), Z.rem_mul_r by lia.
    rewrite Z.testbit_spec' by lia. ring.
Qed.
Print Assumptions bits_val_val_bits.
Example bits_val_val_bits_ex : bits_val (val_bits 4 (-3)) = 13.
Proof. reflexivity. Qed.

Lemma bits_val_inj l1 : forall l2,
  length l1 = length l2 -> bits_val l1 = bits_val l2 -> l1 = l2.
Proof.
  induction l1 as [|b1 l1 IH]; intros [|b2 l2] Hlen Hv; try discriminate; [reflexivity|].
  injection Hlen as Hlen. rewrite !bits_val_cons, Hlen in Hv.
  pose proof (bits_val_range l1) as R1. pose proof (bits_val_range l2) as R2.
  rewrite Hlen in R1.
  assert (b1 = b2 /\ bits_val l1 = bits_val l2) as [Hb Hr]
    by (destruct b1, b2; simpl Z.b2z in Hv; split; try reflexivity; lia).
  subst. f_equal. apply IH; assumption.
Qed.

Theorem val_bits_bits_val l w : length l = w -> val_bits w (bits_val l) = l.
Proof.
  intro H. apply bits_val_inj.
  - rewrite val_bits_length. symmetry. exact H.
  - rewrite bits_val_val_bits. subst w. apply Z.mod_small. apply bits_val_range.
Qed.
Print Assumptions val_bits_bits_val.
Example val_bits_bits_val_ex : val_bits 3 (bits_val [true; false; true]) = [true; false; true].
Proof. reflexivity. Qed.

Lemma nth_val_bits w v : forall j, (j < w)%nat ->
  nth j (val_bits w v) false = Z.testbit v (Z.of_nat w - 1 - Z.of_nat j).
Proof.
  induction w as [|w IH]; intros j Hj; [lia|].
  cbn [val_bits]. destruct j as [|j].
  - simpl nth. f_equal. lia.
  - cbn [nth]. rewrite IH by lia. f_equal. lia.
Qed.

Lemma val_bits_map w v :
  val_bits w v = map (fun j => Z.testbit v (Z.of_nat w - 1 - Z.of_nat j)) (seq 0 w).
Proof.
  rewrite (list_eq_map_nth (val_bits w v) false), val_bits_length.
  apply map_seq_ext. intros j Hj. apply nth_val_bits. lia.
Qed.

(* ------------------------------------------------------------------ *)
(* 1. bytes <-> bits round trip                                        *)
(* ------------------------------------------------------------------ *)
Lemma byte_bits_val_bits b : byte_bits b = val_bits 8 (Z.of_N b).
Proof.
  unfold byte_bits. cbn [map]. rewrite <- !N2Z.inj_testbit. reflexivity.
Qed.

Lemma byte_bits_length b : length (byte_bits b) = 8%nat.
Proof. reflexivity. Qed.

Theorem bits_of_length bs : length (bits_of bs) = (8 * length bs)%nat.
Proof.
  unfold bits_of. induction bs as [|b bs IH]; [reflexivity|].
  cbn [flat_map]. rewrite app_length, byte_bits_length, IH. cbn [length]. lia.
Qed.
Print Assumptions bits_of_length.

Lemma bits_of_cons b bs : bits_of (b :: bs) = byte_bits b ++ bits_of bs.
Proof. reflexivity. Qed.

Lemma bits_of_app a b : bits_of (a ++ b) = bits_of a ++ bits_of b.
Proof. unfold bits_of. apply flat_map_app. Qed.

Lemma bits_val_byte_bits b : (b < 256)%N -> bits_val (byte_bits b) = Z.of_N b.
Proof.
  intro H. rewrite byte_bits_val_bits, bits_val_val_bits.
  apply Z.mod_small. change (2 ^ Z.of_nat 8) with 256. lia.
Qed.

(* one step of bytes_of_bits on a list that starts with a full byte *)
Lemma bob_step f l8 r : length l8 = 8%nat ->
  bytes_of_bits (S f) (l8 ++ r) = Z.to_N (bits_val l8) :: bytes_of_bits f r.
Proof.
  intro H. cbn [bytes_of_bits].
  destruct (l8 ++ r) eqn:E.
  - apply (f_equal (@length bool)) in E. rewrite app_length in E. simpl in E. lia.
  - rewrite <- E. f_equal.
    + rewrite <- app_assoc, firstn_app, H, Nat.sub_diag, firstn_O.
      rewrite app_nil_r, firstn_all2 by lia. reflexivity.
    + rewrite skipn_app, H, Nat.sub_diag, skipn_O.
      rewrite skipn_all2 by lia. reflexivity.
Qed.

Lemma bob_bits_of bs : forall f, (length bs <= f)%nat -> wf_bytes bs ->
  bytes_of_bits f (bits_of bs) = bs.
Proof.
  induction bs as [|b bs IH]; intros f Hf Hwf.
  - destruct f; reflexivity.
  - destruct f as [|f]; [simpl in Hf; lia|].
    inversion Hwf as [|? ? Hb Hbs]; subst.
    rewrite bits_of_cons, bob_step by apply byte_bits_length.
    rewrite bits_val_byte_bits, N2Z.id by assumption.
    f_equal. apply IH; [simpl in Hf; lia | assumption].
Qed.

Theorem pack_bits_of bs : wf_bytes bs -> pack (bits_of bs) = bs.
Proof.
  intro H. unfold pack. apply bob_bits_of; [|exact H].
  rewrite bits_of_length. lia.
Qed.
Print Assumptions pack_bits_of.
Example pack_bits_of_ex : pack (bits_of [200%N; 7%N; 255%N]) = [200%N; 7%N; 255%N].
Proof. reflexivity. Qed.

Lemma split8 (l : list bool) n : length l = (8 * S n)%nat ->
  exists l8 r, l = l8 ++ r /\ length l8 = 8%nat /\ length r = (8 * n)%nat.
Proof.
  intro H. exists (firstn 8 l), (skipn 8 l). split; [symmetry; apply firstn_skipn|].
  rewrite firstn_length, skipn_length. lia.
Qed.

Lemma bits_of_bob n : forall l f, length l = (8 * n)%nat -> (n <= f)%nat ->
  bits_of (bytes_of_bits f l) = l /\ length (bytes_of_bits f l) = n.
Proof.
  induction n as [|n IH]; intros l f Hl Hf.
  - destruct l; [|simpl in Hl; lia]. destruct f; split; reflexivity.
  - destruct f as [|f]; [lia|].
    destruct (split8 l n Hl) as (l8 & r & -> & H8 & Hr).
    rewrite bob_step by exact H8.
    destruct (IH r f Hr ltac:(lia)) as [IH1 IH2].
    split; [|cbn [length]; rewrite IH2; reflexivity].
    rewrite bits_of_cons, IH1. f_equal.
    rewrite byte_bits_val_bits, Z2N.id by apply bits_val_range.
    apply val_bits_bits_val. exact H8.
Qed.

Theorem bits_of_pack l n : length l = (8 * n)%nat -> bits_of (pack l) = l.
Proof. intro H. unfold pack. apply (bits_of_bob n); lia. Qed.
Print Assumptions bits_of_pack.

Lemma pack_length l n : length l = (8 * n)%nat -> length (pack l) = n.
Proof. intro H. unfold pack. apply (bits_of_bob n); lia. Qed.

Example bits_of_pack_ex :
  let l := [true;false;false;true;true;true;false;false; false;false;false;false;false;false;true;true] in
  bits_of (pack l) = l /\ pack l = [156%N; 3%N].
Proof. split; reflexivity. Qed.

Lemma wf_bob f : forall l, wf_bytes (bytes_of_bits f l).
Proof.
  induction f as [|f IH]; intro l; cbn [bytes_of_bits]; [constructor|].
  destruct l as [|x l']; [constructor|].
  constructor; [|apply IH].
  set (l8 := firstn 8 _).
  pose proof (bits_val_range l8) as R.
  assert (Hl : (length l8 <= 8)%nat) by (subst l8; rewrite firstn_length; lia).
  assert (2 ^ Z.of_nat (length l8) <= 2 ^ 8) by (apply Z.pow_le_mono_r; lia).
  change (2 ^ 8) with 256 in *. lia.
Qed.

Theorem wf_pack l : wf_bytes (pack l).
Proof. apply wf_bob. Qed.
Print Assumptions wf_pack.
Example wf_pack_ex : pack [true; true; true] = [224%N].
Proof. reflexivity. Qed.

(* list view <-> byte / bit-number view *)
Lemma nth_byte_bits b k : (k < 8)%nat ->
  nth k (byte_bits b) false = N.testbit b (N.of_nat (7 - k)).
Proof.
  intro H. unfold byte_bits. cbn [map].
  do 8 (destruct k as [|k]; [reflexivity|]). lia.
Qed.

Lemma nth_bits_of bs : forall i, (i < 8 * length bs)%nat ->
  nth i (bits_of bs) false = nth (i mod 8) (byte_bits (nth (i / 8) bs 0%N)) false.
Proof.
  induction bs as [|b bs IH]; intros i Hi; [simpl in Hi; lia|].
  rewrite bits_of_cons. destruct (Nat.lt_ge_cases i 8) as [Hlt|Hge].
  - rewrite app_nth1 by (rewrite byte_bits_length; exact Hlt).
    rewrite Nat.mod_small, Nat.div_small by exact Hlt. reflexivity.
  - rewrite app_nth2 by (rewrite byte_bits_length; exact Hge).
    rewrite byte_bits_length. cbn [length] in Hi. rewrite IH by lia.
    replace i with ((i - 8) + 1 * 8)%nat at 3 4 by lia.
    rewrite Nat.mod_add, Nat.div_add by lia.
    replace (((i - 8) / 8 + 1))%nat with (S ((i - 8) / 8)) by lia. reflexivity.
Qed.

Theorem bit_at_testbit bs i : 0 <= i < 8 * Z.of_nat (length bs) ->
  bit_at bs i = N.testbit (nth (Z.to_nat (i / 8)) bs 0%N) (Z.to_N (7 - i mod 8)).
Proof.
  intro H. unfold bit_at, Zlen.
  destruct (i <? 0) eqn:E1; [lia|]. destruct (8 * Z.of_nat (length bs) <=? i) eqn:E2; [lia|].
  cbn [orb]. rewrite nth_bits_of by lia.
  assert (Hm : 0 <= i mod 8 < 8) by (apply Z.mod_pos_bound; lia).
  rewrite nth_byte_bits by (apply Nat.mod_upper_bound; lia).
  f_equal.
  - f_equal. rewrite Z2Nat.inj_div by lia. reflexivity.
  - assert (Z.to_nat i mod 8 = Z.to_nat (i mod 8))%nat as ->.
    { change 8%nat with (Z.to_nat 8). rewrite Z2Nat.inj_mod by lia. reflexivity. }
    lia.
Qed.
Print Assumptions bit_at_testbit.
Example bit_at_testbit_ex : bit_at [1%N; 128%N] 8 = true /\ bit_at [1%N; 128%N] 7 = true /\ bit_at [1%N; 128%N] 9 = false.
Proof. repeat split; reflexivity. Qed.

Theorem bit_at_outside bs i : i < 0 \/ 8 * Z.of_nat (length bs) <= i -> bit_at bs i = false.
Proof.
  intro H. unfold bit_at, Zlen.
  destruct (i <? 0) eqn:E1; [reflexivity|].
  destruct (8 * Z.of_nat (length bs) <=? i) eqn:E2; [reflexivity|]. lia.
Qed.
Print Assumptions bit_at_outside.

Lemma bit_at_inside bs i : 0 <= i < 8 * Z.of_nat (length bs) ->
  bit_at bs i = nth (Z.to_nat i) (bits_of bs) false.
Proof.
  intro H. unfold bit_at, Zlen.
  destruct (i <? 0) eqn:E1; [lia|]. destruct (8 * Z.of_nat (length bs) <=? i) eqn:E2; [lia|].
  reflexivity.
Qed.

(* bit_at is total access into bits_of with default false *)
Lemma bit_at_nth bs i : 0 <= i -> bit_at bs i = nth (Z.to_nat i) (bits_of bs) false.
Proof.
  intro H. destruct (Z_lt_ge_dec i (8 * Z.of_nat (length bs))) as [Hlt|Hge].
  - apply bit_at_inside; lia.
  - rewrite bit_at_outside by lia. symmetry. apply nth_overflow.
    rewrite bits_of_length. lia.
Qed.

(* ------------------------------------------------------------------ *)
(* 3. writes touch only the addressed bits                             *)
(* ------------------------------------------------------------------ *)
Definition spliced (bs : bytes) (off : Z) (w : nat) (v : Z) : list bool :=
  firstn (Z.to_nat off) (bits_of bs) ++ val_bits w v ++ skipn (Z.to_nat off + w) (bits_of bs).

Lemma spliced_length bs off w v :
  0 <= off -> off + Z.of_nat w <= 8 * Z.of_nat (length bs) ->
  length (spliced bs off w v) = (8 * length bs)%nat.
Proof.
  intros H0 H1. unfold spliced.
  rewrite !app_length, firstn_length, skipn_length, val_bits_length, bits_of_length. lia.
Qed.

Lemma nth_spliced bs off w v i :
  0 <= off -> off + Z.of_nat w <= 8 * Z.of_nat (length bs) ->
  nth i (spliced bs off w v) false =
  if (Z.to_nat off <=? i)%nat && (i <? Z.to_nat off + w)%nat
  then Z.testbit v (off + Z.of_nat w - 1 - Z.of_nat i) else nth i (bits_of bs) false.
Proof.
  intros H0 H1. unfold spliced.
  assert (Hfl : length (firstn (Z.to_nat off) (bits_of bs)) = Z.to_nat off)
    by (rewrite firstn_length, bits_of_length; lia).
  destruct (Nat.leb_spec (Z.to_nat off) i) as [Hle|Hlt]; cbn [andb].
  - rewrite app_nth2 by lia. rewrite Hfl.
    destruct (Nat.ltb_spec i (Z.to_nat off + w)) as [Hlt2|Hge2].
    + rewrite app_nth1 by (rewrite val_bits_length; lia).
      rewrite nth_val_bits by lia. f_equal. lia.
    + rewrite app_nth2 by (rewrite val_bits_length; lia).
      rewrite val_bits_length, nth_skipn_c18. f_equal. lia.
  - rewrite app_nth1 by lia. apply nth_firstn_c18. exact Hlt.
Qed.

Theorem write_bits_length bs off w v :
  0 <= off -> off + Z.of_nat w <= 8 * Z.of_nat (length bs) ->
  length (write_bits bs off w v) = length bs.
Proof.
  intros H0 H1. unfold write_bits. apply pack_length.
  apply (spliced_length bs off w v); assumption.
Qed.
Print Assumptions write_bits_length.

Theorem write_bits_wf bs off w v : wf_bytes (write_bits bs off w v).
Proof. unfold write_bits. apply wf_pack. Qed.
Print Assumptions write_bits_wf.

Lemma bits_of_write_bits bs off w v :
  0 <= off -> off + Z.of_nat w <= 8 * Z.of_nat (length bs) ->
  bits_of (write_bits bs off w v) = spliced bs off w v.
Proof.
  intros H0 H1. unfold write_bits. apply (bits_of_pack _ (length bs)).
  apply (spliced_length bs off w v); assumption.
Qed.

(* main frame theorem: bit i of the result is bit (off+w-1-i) of v inside the
   field and the old bit everywhere else (including outside the string) *)
Theorem write_bits_bit_at bs off w v i :
  0 <= off -> off + Z.of_nat w <= 8 * Z.of_nat (length bs) ->
  bit_at (write_bits bs off w v) i =
  if (off <=? i) && (i <? off + Z.of_nat w)
  then Z.testbit v (off + Z.of_nat w - 1 - i) else bit_at bs i.
Proof.
  intros H0 H1.
  destruct (Z_lt_ge_dec i 0) as [Hneg|Hpos].
  - rewrite !bit_at_outside by lia.
    destruct (Z.leb_spec off i); [lia|]. reflexivity.
  - destruct (Z_lt_ge_dec i (8 * Z.of_nat (length bs))) as [Hin|Hout].
    + rewrite !bit_at_inside by (rewrite ?write_bits_length; lia).
      rewrite bits_of_write_bits, nth_spliced by assumption.
      rewrite Z2Nat.id by lia.
      destruct (Z.leb_spec off i), (Nat.leb_spec (Z.to_nat off) (Z.to_nat i)); try lia;
        destruct (Z.ltb_spec i (off + Z.of_nat w)),
                 (Nat.ltb_spec (Z.to_nat i) (Z.to_nat off + w)); try lia; reflexivity.
    + rewrite !bit_at_outside by (rewrite ?write_bits_length; lia).
      destruct (Z.leb_spec off i), (Z.ltb_spec i (off + Z.of_nat w)); try lia; reflexivity.
Qed.
Print Assumptions write_bits_bit_at.
Example write_bits_ex :
  write_bits [255%N; 0%N; 255%N] 6 5 9 = [253%N; 32%N; 255%N]
  /\ bit_at (write_bits [255%N; 0%N; 255%N] 6 5 9) 7 = Z.testbit 9 3
  /\ bit_at (write_bits [255%N; 0%N; 255%N] 6 5 9) 11 = bit_at [255%N; 0%N; 255%N] 11.
Proof. repeat split; reflexivity. Qed.

(* ------------------------------------------------------------------ *)
(* 4. read after write, two's complement                               *)
(* ------------------------------------------------------------------ *)
Lemma field_bits_length bs off w : length (field_bits bs off w) = w.
Proof. unfold field_bits. rewrite map_length, seq_length. reflexivity. Qed.

Lemma field_bits_write_bits bs off w v :
  0 <= off -> off + Z.of_nat w <= 8 * Z.of_nat (length bs) ->
  field_bits (write_bits bs off w v) off w = val_bits w v.
Proof.
  intros H0 H1. unfold field_bits. rewrite val_bits_map.
  apply map_seq_ext. intros j Hj.
  rewrite write_bits_bit_at by assumption.
  destruct (Z.leb_spec off (off + Z.of_nat j)); [|lia].
  destruct (Z.ltb_spec (off + Z.of_nat j) (off + Z.of_nat w)); [|lia].
  cbn [andb]. f_equal. lia.
Qed.

Theorem field_unsigned_write_bits bs off w v :
  0 <= off -> off + Z.of_nat w <= 8 * Z.of_nat (length bs) ->
  field_unsigned (write_bits bs off w v) off w = v mod 2 ^ Z.of_nat w.
Proof.
  intros H0 H1. unfold field_unsigned.
  rewrite field_bits_write_bits by assumption. apply bits_val_val_bits.
Qed.
Print Assumptions field_unsigned_write_bits.
Example field_unsigned_write_bits_ex :
  field_unsigned (write_bits [255%N; 0%N; 255%N] 6 5 (-3)) 6 5 = 29.
Proof. reflexivity. Qed.

Lemma field_unsigned_range bs off w : 0 <= field_unsigned bs off w < 2 ^ Z.of_nat w.
Proof.
  unfold field_unsigned. pose proof (bits_val_range (field_bits bs off w)) as R.
  rewrite field_bits_length in R. exact R.
Qed.

(* to_signed maps [0,2^w) onto [-2^(w-1),2^(w-1)) keeping the class mod 2^w *)
Lemma to_signed_spec w u : (1 <= w)%nat -> 0 <= u < 2 ^ Z.of_nat w ->
  to_signed w u = (if u <? 2 ^ (Z.of_nat w - 1) then u else u - 2 ^ Z.of_nat w).
Proof.
  intros Hw Hu. unfold to_signed.
  assert (Hp : 2 ^ Z.of_nat w = 2 * 2 ^ (Z.of_nat w - 1)).
  { rewrite <- Z.pow_succ_r by lia. f_equal. lia. }
  assert (Hq : 0 < 2 ^ (Z.of_nat w - 1)) by (apply Z.pow_pos_nonneg; lia).
  pose proof (Z.testbit_spec' u (Z.of_nat w - 1) ltac:(lia)) as T.
  destruct (Z.ltb_spec u (2 ^ (Z.of_nat w - 1))) as [Hlt|Hge].
  - rewrite Z.div_small, Z.mod_0_l in T by lia.
    destruct (Z.testbit u (Z.of_nat w - 1)); [discriminate|reflexivity].
  - assert (u / 2 ^ (Z.of_nat w - 1) = 1) as E.
    { symmetry. apply (Z.div_unique _ _ 1 (u - 2 ^ (Z.of_nat w - 1))); lia. }
    rewrite E in T. change (1 mod 2) with 1 in T.
    destruct (Z.testbit u (Z.of_nat w - 1)); [reflexivity|discriminate].
Qed.

Lemma to_signed_range w u : (1 <= w)%nat -> 0 <= u < 2 ^ Z.of_nat w ->
  - 2 ^ (Z.of_nat w - 1) <= to_signed w u < 2 ^ (Z.of_nat w - 1)
  /\ to_signed w u mod 2 ^ Z.of_nat w = u.
Proof.
  intros Hw Hu. rewrite to_signed_spec by assumption.
  assert (Hp : 2 ^ Z.of_nat w = 2 * 2 ^ (Z.of_nat w - 1)).
  { rewrite <- Z.pow_succ_r by lia. f_equal. lia. }
  destruct (Z.ltb_spec u (2 ^ (Z.of_nat w - 1))) as [Hlt|Hge].
  - split; [lia|]. apply Z.mod_small. lia.
  - split; [lia|].
    replace (u - 2 ^ Z.of_nat w) with (u + (-1) * 2 ^ Z.of_nat w) by ring.
    rewrite Z.mod_add by lia. apply Z.mod_small. lia.
Qed.

(* uniqueness of the representative: two integers of a window of length M
   that are congruent modulo M are equal *)
Lemma mod_window_unique M lo x y : 0 < M ->
  lo <= x < lo + M -> lo <= y < lo + M -> x mod M = y mod M -> x = y.
Proof.
  intros HM Hx Hy E.
  pose proof (Z.div_mod x M ltac:(lia)). pose proof (Z.div_mod y M ltac:(lia)).
  pose proof (Z.mod_pos_bound x M HM). pose proof (Z.mod_pos_bound y M HM).
  assert (x / M = y / M) by nia. nia.
Qed.

Theorem field_signed_write_bits bs off w v :
  (1 <= w)%nat -> 0 <= off -> off + Z.of_nat w <= 8 * Z.of_nat (length bs) ->
  let s := field_signed (write_bits bs off w v) off w in
  - 2 ^ (Z.of_nat w - 1) <= s < 2 ^ (Z.of_nat w - 1)
  /\ s mod 2 ^ Z.of_nat w = v mod 2 ^ Z.of_nat w
  /\ (forall s', - 2 ^ (Z.of_nat w - 1) <= s' < 2 ^ (Z.of_nat w - 1) ->
                 s' mod 2 ^ Z.of_nat w = v mod 2 ^ Z.of_nat w -> s' = s).
Proof.
  intros Hw H0 H1 s. subst s. unfold field_signed.
  rewrite field_unsigned_write_bits by assumption.
  assert (HM : 0 < 2 ^ Z.of_nat w) by (apply Z.pow_pos_nonneg; lia).
  pose proof (Z.mod_pos_bound v _ HM) as Hu.
  destruct (to_signed_range w _ Hw Hu) as [R C].
  split; [exact R|]. split; [exact C|].
  intros s' R' C'.
  assert (Hp : 2 ^ Z.of_nat w = 2 * 2 ^ (Z.of_nat w - 1)).
  { rewrite <- Z.pow_succ_r by lia. f_equal. lia. }
  apply (mod_window_unique (2 ^ Z.of_nat w) (- 2 ^ (Z.of_nat w - 1))); try lia.
Qed.
Print Assumptions field_signed_write_bits.
Example field_signed_write_bits_ex :
  field_signed (write_bits [255%N; 0%N; 255%N] 6 5 29) 6 5 = -3.
Proof. reflexivity. Qed.

(* zero extension is invisible to reads *)
Lemma bits_of_zeros n : bits_of (repeatN 0%N n) = repeatN false (8 * n).
Proof.
  induction n as [|n IH]; [reflexivity|].
  cbn [repeatN]. rewrite bits_of_cons, IH.
  replace (8 * S n)%nat with (8 + 8 * n)%nat by lia. reflexivity.
Qed.

Lemma extend_length bs n : length (extend bs n) = Nat.max (length bs) n.
Proof. unfold extend. rewrite app_length, repeatN_length. lia. Qed.

Theorem bit_at_extend bs n i : bit_at (extend bs n) i = bit_at bs i.
Proof.
  destruct (Z_lt_ge_dec i 0) as [Hneg|Hpos].
  - rewrite !bit_at_outside by lia. reflexivity.
  - rewrite !bit_at_nth by lia. unfold extend. rewrite bits_of_app, bits_of_zeros.
    destruct (Nat.lt_ge_cases (Z.to_nat i) (length (bits_of bs))) as [Hlt|Hge].
    + apply app_nth1. exact Hlt.
    + rewrite app_nth2 by exact Hge. rewrite repeatN_nth.
      symmetry. apply nth_overflow. exact Hge.
Qed.
Print Assumptions bit_at_extend.

Lemma wf_extend bs n : wf_bytes bs -> wf_bytes (extend bs n).
Proof.
  intro H. unfold extend, wf_bytes. apply Forall_app. split; [exact H|].
  induction (n - length bs)%nat; simpl; constructor; [reflexivity | assumption].
Qed.

(* a field read depends only on the bits of [off, off+w) *)
Theorem field_read_local sg bs1 bs2 off w :
  (forall i, off <= i < off + Z.of_nat w -> bit_at bs1 i = bit_at bs2 i) ->
  field_bits bs1 off w = field_bits bs2 off w /\
  field_read sg bs1 off w = field_read sg bs2 off w.
Proof.
  intro H.
  assert (E : field_bits bs1 off w = field_bits bs2 off w).
  { unfold field_bits. apply map_seq_ext. intros j Hj. apply H. lia. }
  split; [exact E|].
  unfold field_read, field_signed, field_unsigned. rewrite E. reflexivity.
Qed.
Print Assumptions field_read_local.

(* reading beyond the end of the string reads zeros: same result as on the
   zero-extended string, and 0 when the field is entirely outside *)
Theorem field_read_extend sg bs n off w :
  field_read sg (extend bs n) off w = field_read sg bs off w.
Proof. apply field_read_local. intros i _. apply bit_at_extend. Qed.
Print Assumptions field_read_extend.

Lemma bits_val_zeros n : bits_val (repeatN false n) = 0.
Proof.
  induction n as [|n IH]; [reflexivity|].
  cbn [repeatN]. rewrite bits_val_cons, IH. simpl Z.b2z. lia.
Qed.

Theorem field_beyond_end sg bs off w :
  8 * Z.of_nat (length bs) <= off ->
  field_bits bs off w = repeatN false w /\ field_read sg bs off w = 0.
Proof.
  intro H.
  assert (E : field_bits bs off w = repeatN false w).
  { unfold field_bits. rewrite (list_eq_map_nth (repeatN false w) false), repeatN_length.
    apply map_seq_ext. intros j Hj. rewrite repeatN_nth. apply bit_at_outside. lia. }
  split; [exact E|].
  unfold field_read, field_signed, field_unsigned. rewrite E, bits_val_zeros.
  unfold to_signed. rewrite Z.testbit_0_l. destruct sg; reflexivity.
Qed.
Print Assumptions field_beyond_end.
Example field_beyond_end_ex :
  field_read true [255%N] 6 4 = -4 /\ field_read false [255%N] 6 4 = 12 /\ field_read true [255%N] 8 4 = 0.
Proof. repeat split; reflexivity. Qed.

(* writes outside a field do not change what is read from it *)
Theorem field_read_write_other sg bs off w v off' w' :
  0 <= off -> off + Z.of_nat w <= 8 * Z.of_nat (length bs) ->
  off' + Z.of_nat w' <= off \/ off + Z.of_nat w <= off' ->
  field_read sg (write_bits bs off w v) off' w' = field_read sg bs off' w'.
Proof.
  intros H0 H1 Hd. apply field_read_local. intros i Hi.
  rewrite write_bits_bit_at by assumption.
  destruct (Z.leb_spec off i), (Z.ltb_spec i (off + Z.of_nat w)); try reflexivity; lia.
Qed.
Print Assumptions field_read_write_other.

(* ------------------------------------------------------------------ *)
(* 5. overflow policies and BITFIELD operations                        *)
(* ------------------------------------------------------------------ *)
Definition type_lo (sg : bool) (w : nat) : Z := if sg then - 2 ^ (Z.of_nat w - 1) else 0.
Definition type_hi (sg : bool) (w : nat) : Z :=
  if sg then 2 ^ (Z.of_nat w - 1) - 1 else 2 ^ Z.of_nat w - 1.
Definition in_type (sg : bool) (w : nat) (x : Z) : Prop := type_lo sg w <= x <= type_hi sg w.

Lemma pow2_half w : (1 <= w)%nat ->
  2 ^ Z.of_nat w = 2 * 2 ^ (Z.of_nat w - 1) /\ 0 < 2 ^ (Z.of_nat w - 1).
Proof.
  intro Hw. split.
  - rewrite <- Z.pow_succ_r by lia. f_equal. lia.
  - apply Z.pow_pos_nonneg; lia.
Qed.

Lemma type_window sg w : (1 <= w)%nat -> type_hi sg w = type_lo sg w + 2 ^ Z.of_nat w - 1.
Proof.
  intro Hw. destruct (pow2_half w Hw) as [Hp Hq]. unfold type_hi, type_lo. destruct sg; lia.
Qed.

Lemma fit_unfold sg w o r :
  fit sg w o r =
  if (type_lo sg w <=? r) && (r <=? type_hi sg w) then Some r else
  match o with
  | OFail => None
  | OSat => Some (if r <? type_lo sg w then type_lo sg w else type_hi sg w)
  | OWrap => let m := r mod 2 ^ Z.of_nat w in Some (if sg then to_signed w m else m)
  end.
Proof. reflexivity. Qed.

Lemma in_type_dec sg w r :
  (type_lo sg w <=? r) && (r <=? type_hi sg w) = true <-> in_type sg w r.
Proof. unfold in_type. rewrite andb_true_iff, !Z.leb_le. tauto. Qed.

(* in range: every policy stores the ideal value *)
Theorem fit_in_range_id sg w o r : in_type sg w r -> fit sg w o r = Some r.
Proof.
  intro H. rewrite fit_unfold. apply in_type_dec in H. rewrite H. reflexivity.
Qed.
Print Assumptions fit_in_range_id.

Theorem fit_fail sg w r : ~ in_type sg w r -> fit sg w OFail r = None.
Proof.
  intro H. rewrite fit_unfold.
  destruct ((type_lo sg w <=? r) && (r <=? type_hi sg w)) eqn:E; [|reflexivity].
  apply in_type_dec in E. contradiction.
Qed.
Print Assumptions fit_fail.

Theorem fit_fail_none_iff sg w r : fit sg w OFail r = None <-> ~ in_type sg w r.
Proof.
  split; [|apply fit_fail]. intros H Hin.
  rewrite fit_in_range_id in H by assumption. discriminate.
Qed.

(* saturation: the nearest bound *)
Theorem fit_sat sg w r : (1 <= w)%nat -> ~ in_type sg w r ->
  (r < type_lo sg w -> fit sg w OSat r = Some (type_lo sg w)) /\
  (type_hi sg w < r -> fit sg w OSat r = Some (type_hi sg w)).
Proof.
  intros Hw H. pose proof (type_window sg w Hw) as TW.
  destruct (pow2_half w Hw) as [Hp Hq]. rewrite fit_unfold.
  destruct ((type_lo sg w <=? r) && (r <=? type_hi sg w)) eqn:E;
    [apply in_type_dec in E; contradiction|].
  split; intro Hr.
  - destruct (Z.ltb_spec r (type_lo sg w)); [reflexivity | lia].
  - destruct (Z.ltb_spec r (type_lo sg w)); [|reflexivity].
    unfold in_type in H. lia.
Qed.
Print Assumptions fit_sat.

(* wrap: the unique in-range integer congruent to r modulo 2^w *)
Theorem fit_wrap sg w r : (1 <= w)%nat ->
  exists x, fit sg w OWrap r = Some x /\ in_type sg w x /\
            x mod 2 ^ Z.of_nat w = r mod 2 ^ Z.of_nat w /\
            (forall y, in_type sg w y -> y mod 2 ^ Z.of_nat w = r mod 2 ^ Z.of_nat w -> y = x).
Proof.
  intro Hw. destruct (pow2_half w Hw) as [Hp Hq].
  assert (HM : 0 < 2 ^ Z.of_nat w) by lia.
  assert (Huniq : forall x y, in_type sg w x -> in_type sg w y ->
             x mod 2 ^ Z.of_nat w = y mod 2 ^ Z.of_nat w -> y = x).
  { intros x y Hx Hy E. unfold in_type in *. rewrite type_window in * by exact Hw.
    apply (mod_window_unique (2 ^ Z.of_nat w) (type_lo sg w)); try lia. }
  rewrite fit_unfold.
  destruct ((type_lo sg w <=? r) && (r <=? type_hi sg w)) eqn:E.
  - apply in_type_dec in E. exists r. repeat split; try assumption; try apply E.
    intros y Hy Ey. apply Huniq; [exact E | exact Hy | symmetry; exact Ey].
  - cbv zeta. pose proof (Z.mod_pos_bound r _ HM) as Hu.
    destruct sg.
    + destruct (to_signed_range w _ Hw Hu) as [R C].
      exists (to_signed w (r mod 2 ^ Z.of_nat w)).
      assert (Hin : in_type true w (to_signed w (r mod 2 ^ Z.of_nat w)))
        by (unfold in_type, type_lo, type_hi; lia).
      split; [reflexivity|]. split; [exact Hin|]. split.
      * exact C.
      * intros y Hy Ey. apply Huniq; [exact Hin | exact Hy|].
        rewrite C. symmetry. exact Ey.
    + exists (r mod 2 ^ Z.of_nat w).
      assert (Hin : in_type false w (r mod 2 ^ Z.of_nat w))
        by (unfold in_type, type_lo, type_hi; lia).
      split; [reflexivity|]. split; [exact Hin|]. split.
      * apply Z.mod_mod. lia.
      * intros y Hy Ey. apply Huniq; [exact Hin | exact Hy|].
        rewrite Ey. apply Z.mod_mod. lia.
Qed.
Print Assumptions fit_wrap.

(* whatever fit returns lies in the range of the type *)
Theorem fit_some_in_type sg w o r x : (1 <= w)%nat -> fit sg w o r = Some x -> in_type sg w x.
Proof.
  intros Hw H. destruct (pow2_half w Hw) as [Hp Hq].
  destruct (in_type_dec sg w r) as [D1 D2].
  destruct ((type_lo sg w <=? r) && (r <=? type_hi sg w)) eqn:E.
  - rewrite fit_in_range_id in H by (apply D1; reflexivity).
    injection H as <-. apply D1. reflexivity.
  - destruct o.
    + destruct (fit_wrap sg w r Hw) as (x' & Hx' & Hin & _). congruence.
    + rewrite fit_unfold, E in H. injection H as <-.
      destruct (r <? type_lo sg w); unfold in_type, type_lo, type_hi; destruct sg; lia.
    + rewrite fit_unfold, E in H. discriminate.
Qed.
Print Assumptions fit_some_in_type.
Example fit_ex :
  fit true 8 OWrap 200 = Some (-56) /\ fit true 8 OSat 200 = Some 127 /\ fit true 8 OSat (-200) = Some (-128)
  /\ fit true 8 OFail 200 = None /\ fit false 8 OWrap (-1) = Some 255 /\ fit false 8 OSat (-1) = Some 0
  /\ fit false 63 OWrap (2 ^ 63 + 5) = Some 5 /\ fit true 64 OWrap (2 ^ 63) = Some (- 2 ^ 63)
  /\ fit true 1 OWrap 1 = Some (-1) /\ fit true 64 OSat (2 ^ 63) = Some (2 ^ 63 - 1).
Proof. repeat split; reflexivity. Qed.

(* a value of the type is read back exactly *)
Theorem field_read_write_bits sg bs off w v :
  (1 <= w)%nat -> 0 <= off -> off + Z.of_nat w <= 8 * Z.of_nat (length bs) ->
  in_type sg w v -> field_read sg (write_bits bs off w v) off w = v.
Proof.
  intros Hw H0 H1 Hin. destruct (pow2_half w Hw) as [Hp Hq].
  unfold field_read. destruct sg.
  - destruct (field_signed_write_bits bs off w v Hw H0 H1) as (_ & _ & U).
    symmetry. apply U; [|reflexivity]. unfold in_type, type_lo, type_hi in Hin. lia.
  - rewrite field_unsigned_write_bits by assumption.
    apply Z.mod_small. unfold in_type, type_lo, type_hi in Hin. lia.
Qed.
Print Assumptions field_read_write_bits.

Lemma field_read_in_type sg bs off w : (1 <= w)%nat -> in_type sg w (field_read sg bs off w).
Proof.
  intro Hw. destruct (pow2_half w Hw) as [Hp Hq].
  pose proof (field_unsigned_range bs off w) as R.
  unfold field_read, in_type, type_lo, type_hi. destruct sg; [|lia].
  unfold field_signed. destruct (to_signed_range w _ Hw R). lia.
Qed.

(* --- single-operation corollaries for run_bf --- *)
Definition bf_frame (bs bs' : bytes) (off : Z) (w : nat) : Prop :=
  length bs' = length bs /\ wf_bytes bs' /\
  forall i, i < off \/ off + Z.of_nat w <= i -> bit_at bs' i = bit_at bs i.

Lemma write_bits_frame bs off w v :
  0 <= off -> off + Z.of_nat w <= 8 * Z.of_nat (length bs) ->
  bf_frame bs (write_bits bs off w v) off w.
Proof.
  intros H0 H1. split; [apply write_bits_length; assumption|].
  split; [apply write_bits_wf|]. intros i Hi.
  rewrite write_bits_bit_at by assumption.
  destruct (Z.leb_spec off i), (Z.ltb_spec i (off + Z.of_nat w)); try reflexivity; lia.
Qed.

Theorem run_bf_get sg w off bs o ch :
  run_bf [BGet sg w off] bs o ch = (bs, [RInt (field_read sg bs off w)], ch).
Proof. reflexivity. Qed.
Print Assumptions run_bf_get.

Theorem run_bf_incr sg w off v bs o ch :
  (1 <= w)%nat -> 0 <= off -> off + Z.of_nat w <= 8 * Z.of_nat (length bs) ->
  match fit sg w o (field_read sg bs off w + v) with
  | Some nv =>
      exists bs', run_bf [BIncr sg w off v] bs o ch = (bs', [RInt nv], true)
                  /\ field_read sg bs' off w = nv /\ in_type sg w nv /\ bf_frame bs bs' off w
  | None => run_bf [BIncr sg w off v] bs o ch = (bs, [RNil], ch)
  end.
Proof.
  intros Hw H0 H1. cbn [run_bf].
  destruct (fit sg w o (field_read sg bs off w + v)) as [nv|] eqn:E; [|reflexivity].
  exists (write_bits bs off w nv). split; [reflexivity|].
  pose proof (fit_some_in_type _ _ _ _ _ Hw E) as Hin.
  split; [apply field_read_write_bits; assumption|].
  split; [exact Hin | apply write_bits_frame; assumption].
Qed.
Print Assumptions run_bf_incr.
Example run_bf_incr_ex :
  run_bf [BIncr true 5 6 30] [255%N; 0%N; 255%N] OWrap false = ([254%N; 192%N; 255%N], [RInt (-10)], true)
  /\ run_bf [BIncr false 5 6 20] [255%N; 0%N; 255%N] OSat false = ([255%N; 224%N; 255%N], [RInt 31], true)
  /\ run_bf [BIncr false 5 6 20] [255%N; 0%N; 255%N] OFail false = ([255%N; 0%N; 255%N], [RNil], false).
Proof. repeat split; reflexivity. Qed.

Theorem run_bf_set sg w off v bs o ch :
  (1 <= w)%nat -> 0 <= off -> off + Z.of_nat w <= 8 * Z.of_nat (length bs) ->
  match fit sg w o (if sg then v else v mod 2 ^ 64) with
  | Some nv =>
      exists bs', run_bf [BSet sg w off v] bs o ch = (bs', [RInt (field_read sg bs off w)], true)
                  /\ field_read sg bs' off w = nv /\ in_type sg w nv /\ bf_frame bs bs' off w
  | None => run_bf [BSet sg w off v] bs o ch = (bs, [RNil], ch)
  end.
Proof.
  intros Hw H0 H1. cbn [run_bf].
  destruct (fit sg w o (if sg then v else v mod 2 ^ 64)) as [nv|] eqn:E; [|reflexivity].
  exists (write_bits bs off w nv). split; [reflexivity|].
  pose proof (fit_some_in_type _ _ _ _ _ Hw E) as Hin.
  split; [apply field_read_write_bits; assumption|].
  split; [exact Hin | apply write_bits_frame; assumption].
Qed.
Print Assumptions run_bf_set.
Example run_bf_set_ex :
  run_bf [BSet true 8 4 (-2)] [255%N; 0%N] OWrap false = ([255%N; 224%N], [RInt (-16)], true)
  /\ run_bf [BSet false 4 0 (-1)] [0%N] OWrap false = ([240%N], [RInt 0], true)
  /\ run_bf [BOver OFail; BSet false 4 0 16] [0%N] OWrap false = ([0%N], [RNil], false).
Proof. repeat split; reflexivity. Qed.

(* --- whole-program facts for run_bf --- *)
Definition op_fits (n : nat) (op : bfop) : Prop :=
  match op with
  | BSet _ w off _ | BIncr _ w off _ => 0 <= off /\ off + Z.of_nat w <= 8 * Z.of_nat n
  | _ => True
  end.

Theorem run_bf_length ops : forall bs o ch,
  Forall (op_fits (length bs)) ops ->
  length (fst (fst (run_bf ops bs o ch))) = length bs.
Proof.
  induction ops as [|op r IH]; intros bs o ch HF; [reflexivity|].
  inversion HF as [|? ? Hop Hr]; subst.
  destruct op as [sg w off|sg w off v|sg w off v|o']; cbn [run_bf].
  - specialize (IH bs o ch Hr). destruct (run_bf r bs o ch) as [[? ?] ?]. exact IH.
  - destruct Hop as [H0 H1].
    destruct (fit sg w o (if sg then v else v mod 2 ^ 64)) as [nv|].
    + assert (HL := write_bits_length bs off w nv H0 H1).
      specialize (IH (write_bits bs off w nv) o true). rewrite HL in IH. specialize (IH Hr).
      destruct (run_bf r (write_bits bs off w nv) o true) as [[? ?] ?]. exact IH.
    + specialize (IH bs o ch Hr). destruct (run_bf r bs o ch) as [[? ?] ?]. exact IH.
  - destruct Hop as [H0 H1].
    destruct (fit sg w o (field_read sg bs off w + v)) as [nv|].
    + assert (HL := write_bits_length bs off w nv H0 H1).
      specialize (IH (write_bits bs off w nv) o true). rewrite HL in IH. specialize (IH Hr).
      destruct (run_bf r (write_bits bs off w nv) o true) as [[? ?] ?]. exact IH.
    + specialize (IH bs o ch Hr). destruct (run_bf r bs o ch) as [[? ?] ?]. exact IH.
  - apply IH. exact Hr.
Qed.
Print Assumptions run_bf_length.

Theorem run_bf_wf ops : forall bs o ch, wf_bytes bs -> wf_bytes (fst (fst (run_bf ops bs o ch))).
Proof.
  induction ops as [|op r IH]; intros bs o ch Hwf; [exact Hwf|].
  destruct op as [sg w off|sg w off v|sg w off v|o']; cbn [run_bf].
  - specialize (IH bs o ch Hwf). destruct (run_bf r bs o ch) as [[? ?] ?]. exact IH.
  - destruct (fit sg w o (if sg then v else v mod 2 ^ 64)) as [nv|].
    + specialize (IH (write_bits bs off w nv) o true (write_bits_wf _ _ _ _)).
      destruct (run_bf r (write_bits bs off w nv) o true) as [[? ?] ?]. exact IH.
    + specialize (IH bs o ch Hwf). destruct (run_bf r bs o ch) as [[? ?] ?]. exact IH.
  - destruct (fit sg w o (field_read sg bs off w + v)) as [nv|].
    + specialize (IH (write_bits bs off w nv) o true (write_bits_wf _ _ _ _)).
      destruct (run_bf r (write_bits bs off w nv) o true) as [[? ?] ?]. exact IH.
    + specialize (IH bs o ch Hwf). destruct (run_bf r bs o ch) as [[? ?] ?]. exact IH.
  - apply IH. exact Hwf.
Qed.
Print Assumptions run_bf_wf.

Lemma run_bf_changed_true ops : forall bs o, snd (run_bf ops bs o true) = true.
Proof.
  induction ops as [|op r IH]; intros bs o; [reflexivity|].
  destruct op as [sg w off|sg w off v|sg w off v|o']; cbn [run_bf].
  - specialize (IH bs o). destruct (run_bf r bs o true) as [[? ?] ?]. exact IH.
  - destruct (fit sg w o (if sg then v else v mod 2 ^ 64)) as [nv|].
    + specialize (IH (write_bits bs off w nv) o).
      destruct (run_bf r (write_bits bs off w nv) o true) as [[? ?] ?]. exact IH.
    + specialize (IH bs o). destruct (run_bf r bs o true) as [[? ?] ?]. exact IH.
  - destruct (fit sg w o (field_read sg bs off w + v)) as [nv|].
    + specialize (IH (write_bits bs off w nv) o).
      destruct (run_bf r (write_bits bs off w nv) o true) as [[? ?] ?]. exact IH.
    + specialize (IH bs o). destruct (run_bf r bs o true) as [[? ?] ?]. exact IH.
  - apply IH.
Qed.

(* the changed flag is sound: not set means the string is untouched *)
Theorem run_bf_unchanged ops : forall bs o bs' rs,
  run_bf ops bs o false = (bs', rs, false) -> bs' = bs.
Proof.
  induction ops as [|op r IH]; intros bs o bs' rs H.
  - cbn [run_bf] in H. congruence.
  - destruct op as [sg w off|sg w off v|sg w off v|o']; cbn [run_bf] in H.
    + destruct (run_bf r bs o false) as [[b1 r1] c1] eqn:E.
      injection H as -> _ ->. eapply IH. exact E.
    + destruct (fit sg w o (if sg then v else v mod 2 ^ 64)) as [nv|].
      * pose proof (run_bf_changed_true r (write_bits bs off w nv) o) as T.
        destruct (run_bf r (write_bits bs off w nv) o true) as [[b1 r1] c1].
        cbn [snd] in T. injection H as _ _ Hc. congruence.
      * destruct (run_bf r bs o false) as [[b1 r1] c1] eqn:E.
        injection H as -> _ ->. eapply IH. exact E.
    + destruct (fit sg w o (field_read sg bs off w + v)) as [nv|].
      * pose proof (run_bf_changed_true r (write_bits bs off w nv) o) as T.
        destruct (run_bf r (write_bits bs off w nv) o true) as [[b1 r1] c1].
        cbn [snd] in T. injection H as _ _ Hc. congruence.
      * destruct (run_bf r bs o false) as [[b1 r1] c1] eqn:E.
        injection H as -> _ ->. eapply IH. exact E.
    + eapply IH. exact H.
Qed.
Print Assumptions run_bf_unchanged.

Definition is_get (op : bfop) : bool := match op with BGet _ _ _ => true | _ => false end.

(* a program of GETs (and OVERFLOW directives) never touches the string *)
Theorem run_bf_gets ops : forall bs o ch,
  Forall (fun op => match op with BGet _ _ _ | BOver _ => True | _ => False end) ops ->
  fst (fst (run_bf ops bs o ch)) = bs /\ snd (run_bf ops bs o ch) = ch.
Proof.
  induction ops as [|op r IH]; intros bs o ch HF; [split; reflexivity|].
  inversion HF as [|? ? Hop Hr]; subst.
  destruct op as [sg w off|sg w off v|sg w off v|o']; cbn [run_bf]; try contradiction.
  - specialize (IH bs o ch Hr). destruct (run_bf r bs o ch) as [[? ?] ?]. exact IH.
  - apply IH. exact Hr.
Qed.
Print Assumptions run_bf_gets.

(* ------------------------------------------------------------------ *)
(* 8. BITCOUNT / BITPOS ranges, counting, searching                    *)
(* ------------------------------------------------------------------ *)
Theorem norm_range_bounds tot s e a b :
  norm_range tot s e = Some (a, b) -> 0 <= a <= b /\ b < tot.
Proof.
  unfold norm_range.
  destruct ((s <? 0) && (e <? 0) && (e <? s)); [discriminate|].
  destruct (s <? 0) eqn:E1; destruct (e <? 0) eqn:E2;
    repeat match goal with
           | |- context [if ?c then _ else _] => destruct c eqn:?
           end;
    intro H; try discriminate; injection H as <- <-; lia.
Qed.
Print Assumptions norm_range_bounds.
Example norm_range_ex :
  norm_range 10 (-3) (-1) = Some (7, 9) /\ norm_range 10 2 100 = Some (2, 9)
  /\ norm_range 10 (-100) (-50) = Some (0, 0) /\ norm_range 10 (-50) (-100) = None
  /\ norm_range 0 0 (-1) = None /\ norm_range 10 5 4 = None.
Proof. repeat split; reflexivity. Qed.

(* Redis' rule (bitops.c, bitcountCommand / bitposCommand), written with min / max *)
Definition redis_range (tot s e : Z) : option (Z * Z) :=
  let from_end x := if x <? 0 then tot + x else x in
  let s' := Z.max 0 (from_end s) in
  let e' := Z.min (tot - 1) (Z.max 0 (from_end e)) in
  if ((s <? 0) && (e <? 0) && (s >? e)) || (s' >? e') then None else Some (s', e').

Theorem norm_range_redis tot s e : norm_range tot s e = redis_range tot s e.
Proof.
  unfold norm_range, redis_range.
  destruct (s <? 0) eqn:E1; destruct (e <? 0) eqn:E2; cbn [andb];
    repeat match goal with
           | |- context [if ?c then _ else _] => destruct c eqn:?
           | H : context [if ?c then _ else _] |- _ => destruct c eqn:?
           end;
    try reflexivity; try (f_equal; f_equal; lia); exfalso; lia.
Qed.
Print Assumptions norm_range_redis.

Theorem norm_range_empty_tot s e : norm_range 0 s e = None.
Proof.
  destruct (norm_range 0 s e) as [[a b]|] eqn:E; [|reflexivity].
  apply norm_range_bounds in E. lia.
Qed.

(* counting *)
Definition zrange (a z : Z) : list Z :=
  map (fun j => a + Z.of_nat j) (seq 0 (Z.to_nat (z - a + 1))).

Lemma in_zrange a z i : In i (zrange a z) <-> a <= i <= z.
Proof.
  unfold zrange. rewrite in_map_iff. split.
  - intros (j & <- & Hj). apply in_seq in Hj. lia.
  - intro H. exists (Z.to_nat (i - a)). split; [lia|]. apply in_seq. lia.
Qed.

Lemma NoDup_zrange a z : NoDup (zrange a z).
Proof.
  unfold zrange. apply FinFun.Injective_map_NoDup; [|apply seq_NoDup].
  intros x y H. lia.
Qed.

Lemma count_filter_map {A} (f : A -> bool) (l : list A) :
  count_true (map f l) = Zlen (filter f l).
Proof.
  unfold count_true, Zlen. f_equal.
  induction l as [|x l IH]; [reflexivity|]. cbn [map filter].
  destruct (f x); cbn [length]; rewrite IH; reflexivity.
Qed.

Lemma slice_map {A} (l : list A) d a z : 0 <= a -> z < Z.of_nat (length l) ->
  slice l a z = map (fun i => nth (Z.to_nat i) l d) (zrange a z).
Proof.
  intros Ha Hz. unfold slice, zrange. rewrite map_map.
  destruct (Z_lt_ge_dec z a) as [Hza|Hza].
  { replace (Z.to_nat (z - a + 1)) with 0%nat by lia. reflexivity. }
  remember (Z.to_nat (z - a + 1)) as n eqn:En.
  assert (Hn : (Z.to_nat a + n <= length l)%nat) by lia.
  clear En.
  rewrite (list_eq_map_nth (firstn n (skipn (Z.to_nat a) l)) d).
  rewrite firstn_length, skipn_length, Nat.min_l by lia.
  apply map_seq_ext. intros j Hj.
  rewrite nth_firstn_c18 by lia. rewrite nth_skipn_c18. f_equal. lia.
Qed.

(* BITCOUNT counts exactly the indices of [a, z] whose bit is set *)
Theorem count_true_slice b a z : 0 <= a -> z < 8 * Z.of_nat (length b) ->
  count_true (slice (bits_of b) a z) = Zlen (filter (bit_at b) (zrange a z)).
Proof.
  intros Ha Hz.
  rewrite (slice_map _ false) by (rewrite ?bits_of_length; lia).
  rewrite count_filter_map. unfold Zlen. f_equal. f_equal.
  apply filter_ext_in. intros i Hi. apply in_zrange in Hi.
  symmetry. apply bit_at_nth. lia.
Qed.
Print Assumptions count_true_slice.
Example count_true_slice_ex :
  count_true (slice (bits_of [255%N; 1%N; 128%N]) 6 16) = 4
  /\ Zlen (filter (bit_at [255%N; 1%N; 128%N]) (zrange 6 16)) = 4.
Proof. split; reflexivity. Qed.

Theorem count_true_all b :
  count_true (bits_of b) = Zlen (filter (bit_at b) (zrange 0 (8 * Z.of_nat (length b) - 1))).
Proof.
  rewrite <- count_true_slice by lia. f_equal. unfold slice.
  rewrite skipn_O. symmetry. apply firstn_all2. rewrite bits_of_length. lia.
Qed.

(* searching *)
Theorem find_bit_some l b : forall pos p,
  find_bit l b pos = Some p <->
  exists n, p = pos + Z.of_nat n /\ (n < length l)%nat /\ nth n l (negb b) = b /\
            forall m, (m < n)%nat -> nth m l b <> b.
Proof.
  induction l as [|x l IH]; intros pos p; cbn [find_bit].
  - split; [discriminate|]. intros (n & _ & Hn & _). simpl in Hn. lia.
  - destruct (Bool.eqb x b) eqn:E.
    + apply Bool.eqb_prop in E. subst x. split.
      * intro H. injection H as <-. exists 0%nat. cbn [nth length].
        repeat split; try lia.
      * intros (n & -> & Hn & Hb & Hfirst). destruct n as [|n]; [f_equal; lia|].
        exfalso. apply (Hfirst 0%nat); [lia | reflexivity].
    + apply Bool.eqb_false_iff in E. rewrite IH. split.
      * intros (n & -> & Hn & Hb & Hfirst). exists (S n). cbn [nth length].
        repeat split; try lia; try assumption.
        intros [|m] Hm; cbn [nth]; [exact E | apply Hfirst; lia].
      * intros (n & -> & Hn & Hb & Hfirst). destruct n as [|n]; [cbn [nth] in Hb; contradiction|].
        exists n. cbn [nth length] in *. repeat split; try lia; try assumption.
        intros m Hm. apply (Hfirst (S m)). lia.
Qed.
Print Assumptions find_bit_some.

Theorem find_bit_none l b : forall pos,
  find_bit l b pos = None <-> forall x, In x l -> x <> b.
Proof.
  induction l as [|x l IH]; intros pos; cbn [find_bit].
  - split; [intros _ y [] | reflexivity].
  - destruct (Bool.eqb x b) eqn:E.
    + apply Bool.eqb_prop in E. split; [discriminate|].
      intro H. exfalso. apply (H x); [left; reflexivity | exact E].
    + apply Bool.eqb_false_iff in E. rewrite IH. split.
      * intros H y [<-|Hy]; [exact E | apply H; exact Hy].
      * intros H y Hy. apply H. right. exact Hy.
Qed.
Print Assumptions find_bit_none.
Example find_bit_ex :
  find_bit [false; false; true; false; true] true 10 = Some 12
  /\ find_bit [true; true] false 0 = None.
Proof. split; reflexivity. Qed.

(* BITPOS on a range: the first index of [a, z] holding bit value v *)
Theorem find_bit_slice bs v a z p : 0 <= a -> z < 8 * Z.of_nat (length bs) ->
  find_bit (slice (bits_of bs) a z) v a = Some p <->
  (a <= p <= z /\ bit_at bs p = v /\ forall i, a <= i < p -> bit_at bs i <> v).
Proof.
  intros Ha Hz. rewrite find_bit_some.
  rewrite (slice_map _ false) by (rewrite ?bits_of_length; lia).
  unfold zrange. rewrite map_map, map_length, seq_length.
  remember (Z.to_nat (z - a + 1)) as n eqn:En.
  assert (Hnth : forall j d, (j < n)%nat ->
            nth j (map (fun x => nth (Z.to_nat (a + Z.of_nat x)) (bits_of bs) false) (seq 0 n)) d
            = bit_at bs (a + Z.of_nat j)).
  { intros j d Hj. rewrite bit_at_nth by lia.
    rewrite nth_map_seq by exact Hj. reflexivity. }
  split.
  - intros (j & -> & Hj & Hb & Hfirst). rewrite Hnth in Hb by exact Hj.
    split; [lia|]. split; [exact Hb|]. intros i Hi.
    specialize (Hfirst (Z.to_nat (i - a)) ltac:(lia)).
    rewrite Hnth in Hfirst by lia. replace (a + Z.of_nat (Z.to_nat (i - a))) with i in Hfirst by lia.
    exact Hfirst.
  - intros (Hp & Hb & Hfirst). exists (Z.to_nat (p - a)).
    split; [lia|]. split; [lia|]. split.
    + rewrite Hnth by lia. replace (a + Z.of_nat (Z.to_nat (p - a))) with p by lia. exact Hb.
    + intros m Hm. rewrite Hnth by lia. apply Hfirst. lia.
Qed.
Print Assumptions find_bit_slice.

(* ------------------------------------------------------------------ *)
(* 7. SETBIT / GETBIT                                                  *)
(* ------------------------------------------------------------------ *)
Definition cur_bytes (cur : option (bytes * option Z)) : bytes :=
  match cur with Some (b, _) => b | None => [] end.
Definition cur_exp (cur : option (bytes * option Z)) : option Z :=
  match cur with Some (_, e) => e | None => None end.

Lemma str_key_live now d k cur v n :
  str_key now d k = Some cur -> expired now (mkE v (cur_exp cur) n) = false.
Proof.
  unfold str_key, lookup. intro H.
  destruct (aget (d_map d) k) as [e|]; [|injection H as <-; reflexivity].
  destruct (expired now e) eqn:Ex; [injection H as <-; reflexivity|].
  destruct (str_of e); [|discriminate]. injection H as <-.
  unfold expired in *. exact Ex.
Qed.

Lemma str_key_put now d k nb cur :
  str_key now d k = Some cur ->
  str_key now (put d k (VStr nb) (cur_exp cur)) k = Some (Some (nb, cur_exp cur)).
Proof.
  intro H. unfold str_key. rewrite lookup_put_same. cbv zeta.
  rewrite (str_key_live _ _ _ _ _ _ H). reflexivity.
Qed.

Lemma setbit_eq now d k o vb off v cur :
  parse_i64 o = Some off -> 0 <= off < max_bit_off ->
  parse_i64 vb = Some v -> v = 0 \/ v = 1 ->
  str_key now d k = Some cur ->
  cmd_setbit now d [k; o; vb] =
  (put d k (VStr (write_bits (extend (cur_bytes cur) (Z.to_nat (off / 8 + 1))) off 1 v)) (cur_exp cur),
   RInt (if bit_at (cur_bytes cur) off then 1 else 0)).
Proof.
  intros Ho Hoff Hv Hv01 Hk. unfold cmd_setbit. rewrite Ho, Hv, Hk.
  destruct (Z.ltb_spec off 0); [lia|]. destruct (Z.leb_spec max_bit_off off); [lia|].
  cbn [orb].
  assert ((v =? 0) || (v =? 1) = true) as -> by (destruct Hv01; subst; reflexivity).
  cbn [negb]. destruct cur as [[b e]|]; reflexivity.
Qed.

Lemma div8_bound off : 0 <= off -> off + 1 <= 8 * (off / 8 + 1) /\ 0 <= off / 8.
Proof.
  intro H. pose proof (Z.div_mod off 8 ltac:(lia)). pose proof (Z.mod_pos_bound off 8 ltac:(lia)).
  split; [lia|]. apply Z.div_pos; lia.
Qed.

Theorem setbit_spec now d k o vb off v cur :
  parse_i64 o = Some off -> 0 <= off < max_bit_off ->
  parse_i64 vb = Some v -> v = 0 \/ v = 1 ->
  str_key now d k = Some cur ->
  let b := cur_bytes cur in
  let r := cmd_setbit now d [k; o; vb] in
  (* the reply is the old bit *)
  snd r = RInt (if bit_at b off then 1 else 0) /\
  exists b',
    (* the key holds a string with the same deadline *)
    str_key now (fst r) k = Some (Some (b', cur_exp cur)) /\
    Z.of_nat (length b') = Z.max (Z.of_nat (length b)) (off / 8 + 1) /\
    wf_bytes b' /\
    (* only bit off changed *)
    (forall i, bit_at b' i = if i =? off then (v =? 1) else bit_at b i) /\
    (* other keys are untouched *)
    (forall k', k' <> k -> lookup now (fst r) k' = lookup now d k').
Proof.
  intros Ho Hoff Hv Hv01 Hk b r. subst r.
  rewrite (setbit_eq now d k o vb off v cur) by assumption. cbn [fst snd]. fold b.
  split; [reflexivity|].
  destruct (div8_bound off ltac:(lia)) as [D1 D2].
  set (eb := extend b (Z.to_nat (off / 8 + 1))).
  assert (Hlen : Z.of_nat (length eb) = Z.max (Z.of_nat (length b)) (off / 8 + 1))
    by (subst eb; rewrite extend_length; lia).
  assert (H1 : off + Z.of_nat 1 <= 8 * Z.of_nat (length eb)) by lia.
  exists (write_bits eb off 1 v).
  split; [apply str_key_put; exact Hk|].
  split; [rewrite write_bits_length by lia; exact Hlen|].
  split; [apply write_bits_wf|].
  split.
  - intro i. rewrite write_bits_bit_at by lia.
    destruct (Z.eqb_spec i off) as [->|Hne].
    + destruct (Z.leb_spec off off); [|lia].
      destruct (Z.ltb_spec off (off + Z.of_nat 1)); [|lia]. cbn [andb].
      replace (off + Z.of_nat 1 - 1 - off) with 0 by lia.
      destruct Hv01; subst; reflexivity.
    + destruct (Z.leb_spec off i), (Z.ltb_spec i (off + Z.of_nat 1)); cbn [andb]; try lia;
        subst eb; apply bit_at_extend.
  - intros k' Hne. apply lookup_put_other. exact Hne.
Qed.
Print Assumptions setbit_spec.

Lemma getbit_eq now d k o off cur :
  parse_i64 o = Some off -> 0 <= off < max_bit_off -> str_key now d k = Some cur ->
  cmd_getbit now d [k; o] = (d, RInt (if bit_at (cur_bytes cur) off then 1 else 0)).
Proof.
  intros Ho Hoff Hk. unfold cmd_getbit. rewrite Ho, Hk.
  destruct (Z.ltb_spec off 0); [lia|]. destruct (Z.leb_spec max_bit_off off); [lia|].
  cbn [orb]. destruct cur as [[b e]|]; [reflexivity|].
  cbn [cur_bytes]. rewrite bit_at_outside by (cbn [length]; lia). reflexivity.
Qed.

(* GETBIT after SETBIT: the written bit at off, the previous reply elsewhere
   (which is 0 beyond the end of the old string, see getbit_beyond) *)
Theorem getbit_after_setbit now d k o vb off v cur o' off' :
  parse_i64 o = Some off -> 0 <= off < max_bit_off ->
  parse_i64 vb = Some v -> v = 0 \/ v = 1 ->
  str_key now d k = Some cur ->
  parse_i64 o' = Some off' -> 0 <= off' < max_bit_off ->
  let d' := fst (cmd_setbit now d [k; o; vb]) in
  cmd_getbit now d' [k; o'] =
  (d', if off' =? off then RInt v else snd (cmd_getbit now d [k; o'])).
Proof.
  intros Ho Hoff Hv Hv01 Hk Ho' Hoff' d'.
  destruct (setbit_spec now d k o vb off v cur Ho Hoff Hv Hv01 Hk) as (_ & b' & Hk' & _ & _ & Hbit & _).
  fold d' in Hk'.
  rewrite (getbit_eq now d' k o' off' _ Ho' Hoff' Hk'). cbn [cur_bytes].
  rewrite (getbit_eq now d k o' off' _ Ho' Hoff' Hk). cbn [snd].
  rewrite Hbit. destruct (off' =? off); [|reflexivity].
  destruct Hv01; subst; reflexivity.
Qed.
Print Assumptions getbit_after_setbit.

Theorem getbit_beyond now d k o off cur :
  parse_i64 o = Some off -> 0 <= off < max_bit_off -> str_key now d k = Some cur ->
  8 * Z.of_nat (length (cur_bytes cur)) <= off ->
  cmd_getbit now d [k; o] = (d, RInt 0).
Proof.
  intros Ho Hoff Hk Hb. rewrite (getbit_eq now d k o off cur) by assumption.
  rewrite bit_at_outside by lia. reflexivity.
Qed.

Example setbit_getbit_ex :
  let d0 := put empty_db (s2b "k"%string) (VStr [1%N]) (Some 500) in
  let r := cmd_setbit 100 d0 [s2b "k"%string; s2b "21"%string; s2b "1"%string] in
  snd r = RInt 0
  /\ str_key 100 (fst r) (s2b "k"%string) = Some (Some ([1%N; 0%N; 4%N], Some 500))
  /\ snd (cmd_getbit 100 (fst r) [s2b "k"%string; s2b "21"%string]) = RInt 1
  /\ snd (cmd_getbit 100 (fst r) [s2b "k"%string; s2b "7"%string]) = RInt 1
  /\ snd (cmd_getbit 100 (fst r) [s2b "k"%string; s2b "22"%string]) = RInt 0
  /\ snd (cmd_setbit 100 (fst r) [s2b "k"%string; s2b "7"%string; s2b "0"%string]) = RInt 1
  /\ snd (cmd_setbit 100 empty_db [s2b "nokey"%string; s2b "9"%string; s2b "1"%string]) = RInt 0.
Proof. vm_compute. repeat split; reflexivity. Qed.

(* ------------------------------------------------------------------ *)
(* 9. BITOP                                                            *)
(* ------------------------------------------------------------------ *)
Definition zip_bits (f : bool -> bool -> bool) (l1 l2 : list bool) : list bool :=
  map (fun xy => f (fst xy) (snd xy)) (combine l1 l2).

Lemma byte_op_lt f x y : (byte_op f x y < 256)%N.
Proof.
  unfold byte_op.
  pose proof (bits_val_range (zip_bits f (byte_bits x) (byte_bits y))) as R.
  change (Z.of_nat (length (zip_bits f (byte_bits x) (byte_bits y)))) with 8 in R.
  change (2 ^ 8) with 256 in R. unfold zip_bits in R. lia.
Qed.

Lemma byte_bits_byte_op f x y :
  byte_bits (byte_op f x y) = zip_bits f (byte_bits x) (byte_bits y).
Proof.
  unfold byte_op. fold (zip_bits f (byte_bits x) (byte_bits y)).
  rewrite byte_bits_val_bits, Z2N.id by apply bits_val_range.
  apply val_bits_bits_val. reflexivity.
Qed.

Lemma testbit_byte_bits b j : (j < 8)%N ->
  N.testbit b j = nth (7 - N.to_nat j) (byte_bits b) false.
Proof.
  intro H. rewrite nth_byte_bits by lia. f_equal. lia.
Qed.

(* bit j of the result is f applied to bit j of the operands *)
Theorem byte_op_testbit f x y j : (j < 8)%N ->
  N.testbit (byte_op f x y) j = f (N.testbit x j) (N.testbit y j).
Proof.
  intro H. rewrite !(testbit_byte_bits _ j H), byte_bits_byte_op.
  assert (Hk : (7 - N.to_nat j < 8)%nat) by lia.
  revert Hk. generalize (7 - N.to_nat j)%nat as k. intros k Hk.
  unfold zip_bits, byte_bits. cbn [map combine fst snd].
  do 8 (destruct k as [|k]; [reflexivity|]). lia.
Qed.
Print Assumptions byte_op_testbit.
Example byte_op_ex :
  byte_op andb 12%N 10%N = 8%N /\ byte_op orb 12%N 10%N = 14%N /\ byte_op xorb 12%N 10%N = 6%N
  /\ byte_op xorb 255%N 170%N = 85%N.
Proof. repeat split; reflexivity. Qed.

Lemma nth_extend bs n i : nth i (extend bs n) 0%N = nth i bs 0%N.
Proof.
  unfold extend. destruct (Nat.lt_ge_cases i (length bs)) as [Hlt|Hge].
  - apply app_nth1. exact Hlt.
  - rewrite app_nth2 by exact Hge. rewrite repeatN_nth. symmetry. apply nth_overflow. exact Hge.
Qed.

Theorem bytes_op_spec f n a b :
  (length a <= n)%nat -> (length b <= n)%nat ->
  length (bytes_op f n a b) = n /\
  wf_bytes (bytes_op f n a b) /\
  forall i, (i < n)%nat ->
    nth i (bytes_op f n a b) 0%N = byte_op f (nth i a 0%N) (nth i b 0%N).
Proof.
  intros Ha Hb. unfold bytes_op.
  assert (La : length (extend a n) = n) by (rewrite extend_length; lia).
  assert (Lb : length (extend b n) = n) by (rewrite extend_length; lia).
  split; [rewrite map_length, combine_length, La, Lb; lia|].
  split.
  - unfold wf_bytes. apply Forall_forall. intros x Hx.
    apply in_map_iff in Hx. destruct Hx as ([p q] & <- & _). apply byte_op_lt.
  - intros i Hi.
    rewrite (nth_map_default _ _ (0%N, 0%N)) by (rewrite combine_length, La, Lb; lia).
    rewrite combine_nth by lia. cbn [fst snd].
    rewrite !nth_extend. reflexivity.
Qed.
Print Assumptions bytes_op_spec.
Example bytes_op_ex :
  bytes_op xorb 3 [255%N; 15%N; 1%N] [240%N] = [15%N; 15%N; 1%N]
  /\ bytes_op andb 3 [255%N; 15%N; 1%N] [240%N] = [240%N; 0%N; 0%N].
Proof. split; reflexivity. Qed.

(* total version of bit_at_testbit: a missing byte counts as 0 *)
Lemma bit_at_testbit_total bs i : 0 <= i ->
  bit_at bs i = N.testbit (nth (Z.to_nat (i / 8)) bs 0%N) (Z.to_N (7 - i mod 8)).
Proof.
  intro H. destruct (Z_lt_ge_dec i (8 * Z.of_nat (length bs))) as [Hlt|Hge].
  - apply bit_at_testbit. lia.
  - rewrite bit_at_outside by lia.
    rewrite nth_overflow; [reflexivity|].
    pose proof (Z.div_mod i 8 ltac:(lia)). pose proof (Z.mod_pos_bound i 8 ltac:(lia)).
    assert (Z.of_nat (length bs) <= i / 8) by lia. lia.
Qed.

(* the same on the bit array: bit i of the result is f of bit i of the
   operands, an operand that is too short reading as 0 *)
Theorem bytes_op_bit_at f n a b i :
  (length a <= n)%nat -> (length b <= n)%nat -> 0 <= i < 8 * Z.of_nat n ->
  bit_at (bytes_op f n a b) i = f (bit_at a i) (bit_at b i).
Proof.
  intros Ha Hb Hi. destruct (bytes_op_spec f n a b Ha Hb) as (L & _ & Hn).
  rewrite !bit_at_testbit_total by lia.
  pose proof (Z.div_mod i 8 ltac:(lia)). pose proof (Z.mod_pos_bound i 8 ltac:(lia)).
  rewrite Hn by lia. apply byte_op_testbit. lia.
Qed.
Print Assumptions bytes_op_bit_at.

(* the whole BITOP AND/OR/XOR fold: bit i of the result is the fold of f over
   bit i of all operands *)
Theorem fold_bytes_op_bit_at f n rest i : forall acc,
  length acc = n -> Forall (fun o => (length o <= n)%nat) rest -> 0 <= i < 8 * Z.of_nat n ->
  length (fold_left (bytes_op f n) rest acc) = n /\
  bit_at (fold_left (bytes_op f n) rest acc) i =
  fold_left f (map (fun o => bit_at o i) rest) (bit_at acc i).
Proof.
  induction rest as [|o rest IH]; intros acc Hacc HF Hi; [split; [exact Hacc | reflexivity]|].
  inversion HF as [|? ? Ho Hrest]; subst.
  cbn [fold_left map].
  destruct (bytes_op_spec f (length acc) acc o ltac:(lia) Ho) as (L & _ & _).
  destruct (IH (bytes_op f (length acc) acc o) L Hrest Hi) as [IH1 IH2].
  split; [exact IH1|]. rewrite IH2. f_equal.
  apply bytes_op_bit_at; [lia | exact Ho | exact Hi].
Qed.
Print Assumptions fold_bytes_op_bit_at.
Example fold_bytes_op_ex :
  fold_left (bytes_op xorb 2) [[255%N]; [1%N; 1%N]] (extend [15%N] 2) = [241%N; 1%N].
Proof. reflexivity. Qed.

(* NOT *)
Lemma not_byte_check :
  forallb (fun x => N.ltb (255 - x) 256 &&
             forallb (fun j => Bool.eqb (N.testbit (255 - x) j) (negb (N.testbit x j)))
                     (map N.of_nat (seq 0 8)))
          (map N.of_nat (seq 0 256)) = true.
Proof. vm_compute. reflexivity. Qed.

Theorem not_byte_spec x j : (x < 256)%N -> (j < 8)%N ->
  (255 - x < 256)%N /\ N.testbit (255 - x) j = negb (N.testbit x j).
Proof.
  intros Hx Hj. pose proof not_byte_check as C.
  rewrite forallb_forall in C. specialize (C x).
  assert (Hin : In x (map N.of_nat (seq 0 256))).
  { apply in_map_iff. exists (N.to_nat x). split; [lia|]. apply in_seq. lia. }
  apply C in Hin. apply andb_true_iff in Hin. destruct Hin as [C1 C2].
  split; [apply N.ltb_lt; exact C1|].
  rewrite forallb_forall in C2. apply Bool.eqb_prop. apply C2.
  apply in_map_iff. exists (N.to_nat j). split; [lia|]. apply in_seq. lia.
Qed.
Print Assumptions not_byte_spec.

Theorem not_bytes_spec a : wf_bytes a ->
  let r := map (fun x => (255 - x)%N) a in
  length r = length a /\ wf_bytes r /\
  forall i, 0 <= i < 8 * Z.of_nat (length a) -> bit_at r i = negb (bit_at a i).
Proof.
  intros Hwf r. subst r. split; [apply map_length|]. split.
  - unfold wf_bytes in *. rewrite Forall_forall in *. intros y Hy.
    apply in_map_iff in Hy. destruct Hy as (x & <- & Hx).
    apply (not_byte_spec x 0%N); [apply Hwf; exact Hx | lia].
  - intros i Hi.
    pose proof (Z.div_mod i 8 ltac:(lia)). pose proof (Z.mod_pos_bound i 8 ltac:(lia)).
    rewrite !bit_at_testbit by (rewrite ?map_length; lia).
    rewrite (nth_map_default _ _ 0%N) by lia. apply not_byte_spec; [|lia].
    unfold wf_bytes in Hwf. rewrite Forall_forall in Hwf. apply Hwf. apply nth_In. lia.
Qed.
Print Assumptions not_bytes_spec.
Example not_bytes_ex : map (fun x => (255 - x)%N) [0%N; 170%N; 255%N] = [255%N; 85%N; 0%N].
Proof. reflexivity. Qed.

(* ------------------------------------------------------------------ *)
(* 6. reads never change the value                                     *)
(* ------------------------------------------------------------------ *)
Theorem getbit_db now d args : fst (cmd_getbit now d args) = d.
Proof.
  unfold cmd_getbit.
  repeat match goal with
         | |- context [match ?x with _ => _ end] => destruct x
         end; reflexivity.
Qed.
Print Assumptions getbit_db.

Theorem bitcount_db now d args : fst (cmd_bitcount now d args) = d.
Proof.
  unfold cmd_bitcount.
  repeat match goal with
         | |- context [match ?x with _ => _ end] => destruct x
         end; reflexivity.
Qed.
Print Assumptions bitcount_db.

Theorem bitpos_db now d args : fst (cmd_bitpos now d args) = d.
Proof.
  unfold cmd_bitpos.
  repeat match goal with
         | |- context [match ?x with _ => _ end] => destruct x
         end; reflexivity.
Qed.
Print Assumptions bitpos_db.
Example read_cmds_ex :
  let d0 := put empty_db (s2b "k"%string) (VStr [255%N; 1%N; 128%N]) None in
  cmd_bitcount 0 d0 [s2b "k"%string; s2b "-2"%string; s2b "-1"%string] = (d0, RInt 2)
  /\ cmd_bitcount 0 d0 [s2b "k"%string; s2b "6"%string; s2b "16"%string; s2b "bit"%string] = (d0, RInt 4)
  /\ cmd_bitpos 0 d0 [s2b "k"%string; s2b "0"%string] = (d0, RInt 8)
  /\ cmd_bitpos 0 d0 [s2b "k"%string; s2b "1"%string; s2b "1"%string] = (d0, RInt 15)
  /\ cmd_getbit 0 d0 [s2b "k"%string; s2b "16"%string] = (d0, RInt 1).
Proof. vm_compute. repeat split; reflexivity. Qed.

Definition get_or_over (op : bfop) : Prop :=
  match op with BGet _ _ _ | BOver _ => True | _ => False end.

(* BITFIELD whose operations are all GET (OVERFLOW directives allowed) leaves the db alone *)
Theorem bitfield_gets_db ro now d k rest ops :
  parse_bf (S (length rest)) rest = BfOk ops -> Forall get_or_over ops ->
  fst (cmd_bitfield ro now d (k :: rest)) = d.
Proof.
  intros Hp HF. unfold cmd_bitfield. rewrite Hp.
  destruct (ro && existsb _ ops); [reflexivity|].
  destruct (str_key now d k) as [cur|]; [|reflexivity].
  assert (G : forall b e,
    fst (let '(b', rs, ch) := run_bf ops (extend b (Z.to_nat (bf_need ops))) OWrap false in
         (if ch then put d k (VStr b') e else d, RArr rs)) = d).
  { intros b e.
    destruct (run_bf_gets ops (extend b (Z.to_nat (bf_need ops))) OWrap false HF) as [G1 G2].
    destruct (run_bf ops (extend b (Z.to_nat (bf_need ops))) OWrap false) as [[b' rs] ch].
    cbn [fst snd] in *. subst ch. reflexivity. }
  destruct cur as [[b e]|]; apply G.
Qed.
Print Assumptions bitfield_gets_db.

(* BITFIELD_RO never changes the db, whatever its arguments *)
Theorem bitfield_ro_db now d args : fst (cmd_bitfield true now d args) = d.
Proof.
  destruct args as [|k rest]; [reflexivity|].
  destruct (parse_bf (S (length rest)) rest) as [ops|e] eqn:Hp.
  - destruct (existsb (fun op => match op with BGet _ _ _ => false | _ => true end) ops) eqn:Ex.
    + unfold cmd_bitfield. rewrite Hp, Ex. reflexivity.
    + apply (bitfield_gets_db true now d k rest ops Hp).
      apply Forall_forall. intros op Hop.
      destruct op; cbn; auto;
        (assert (existsb (fun op => match op with BGet _ _ _ => false | _ => true end) ops = true)
          by (apply existsb_exists; eexists; split; [exact Hop | reflexivity]); congruence).
  - unfold cmd_bitfield. rewrite Hp. reflexivity.
Qed.
Print Assumptions bitfield_ro_db.
Example bitfield_get_ex :
  let d0 := put empty_db (s2b "k"%string) (VStr [255%N; 1%N; 128%N]) None in
  cmd_bitfield false 0 d0 [s2b "k"%string; s2b "GET"%string; s2b "i5"%string; s2b "6"%string;
                           s2b "get"%string; s2b "u4"%string; s2b "#3"%string;
                           s2b "GET"%string; s2b "u8"%string; s2b "100"%string]
  = (d0, RArr [RInt (-8); RInt 1; RInt 0]).
Proof. vm_compute. reflexivity. Qed.

(* ------------------------------------------------------------------ *)
(* BITFIELD at command level: types, offsets, zero extension           *)
(* ------------------------------------------------------------------ *)
Theorem parse_type_range t sg w :
  parse_type t = Some (sg, w) -> (1 <= w)%nat /\ (w <= if sg then 64 else 63)%nat.
Proof.
  unfold parse_type. destruct t as [|c ds]; [discriminate|].
  destruct (if N.eqb (lower_byte c) 105 then Some true
            else if N.eqb (lower_byte c) 117 then Some false else None) as [sg'|]; [|discriminate].
  destruct (parse_udec ds) as [n|]; [|discriminate].
  destruct ((1 <=? n)%N && (n <=? (if sg' then 64 else 63))%N) eqn:E; [|discriminate].
  intro H. injection H as <- <-.
  apply andb_true_iff in E. destruct E as [E1 E2].
  apply N.leb_le in E1. apply N.leb_le in E2. destruct sg'; lia.
Qed.
Print Assumptions parse_type_range.
Example parse_type_ex :
  parse_type (s2b "i64"%string) = Some (true, 64%nat) /\ parse_type (s2b "u63"%string) = Some (false, 63%nat)
  /\ parse_type (s2b "U1"%string) = Some (false, 1%nat) /\ parse_type (s2b "u64"%string) = None
  /\ parse_type (s2b "i65"%string) = None /\ parse_type (s2b "i0"%string) = None.
Proof. vm_compute. repeat split; reflexivity. Qed.

Theorem parse_off_scaled ds w :
  parse_off (35%N :: ds) w =
  match parse_udec ds with Some n => Some (Z.of_N n * Z.of_nat w) | None => None end.
Proof. reflexivity. Qed.

Theorem parse_off_nonneg o w off : parse_off o w = Some off -> 0 <= off.
Proof.
  unfold parse_off.
  assert (G : match parse_i64 o with
              | Some z => if z <? 0 then None else Some z
              | None => None end = Some off -> 0 <= off).
  { destruct (parse_i64 o) as [z|]; [|discriminate].
    destruct (Z.ltb_spec z 0) as [Hz|Hz]; [discriminate|]. intro Hs. injection Hs as <-. exact Hz. }
  destruct o as [|c ds]; [exact G|].
  destruct (N.eq_dec c 35) as [->|Hne].
  - destruct (parse_udec ds) as [n|]; [|discriminate]. intro H. injection H as <-. lia.
  - destruct c as [|p]; [exact G|].
    do 6 (destruct p as [p|p|]; try exact G). contradiction.
Qed.
Print Assumptions parse_off_nonneg.
Example parse_off_ex :
  parse_off (s2b "#3"%string) 5 = Some 15 /\ parse_off (s2b "17"%string) 5 = Some 17
  /\ parse_off (s2b "-1"%string) 5 = None.
Proof. vm_compute. repeat split; reflexivity. Qed.

Definition op_ok (op : bfop) : Prop :=
  match op with
  | BGet sg w off | BSet sg w off _ | BIncr sg w off _ =>
      (1 <= w)%nat /\ (w <= if sg then 64 else 63)%nat /\ 0 <= off /\ off + Z.of_nat w <= max_bit_off
  | BOver _ => True
  end.

(* every parsed operation has a type i1..i64 / u1..u63 and a non-negative offset *)
Theorem parse_bf_ok fuel : forall args ops, parse_bf fuel args = BfOk ops -> Forall op_ok ops.
Proof.
  induction fuel as [|fuel IH]; intros args ops H; [discriminate|].
  cbn [parse_bf] in H. destruct args as [|a r]; [injection H as <-; constructor|].
  destruct (is_kw a "GET").
  { destruct r as [|t [|o rest]]; try discriminate.
    destruct (parse_type t) as [[sg w]|] eqn:Et; [|discriminate].
    destruct (parse_off o w) as [off|] eqn:Eo; [|discriminate].
    destruct (Z.leb_spec max_bit_off (off + Z.of_nat w - 1)); [discriminate|].
    destruct (parse_bf fuel rest) as [ops'|] eqn:Er; [|discriminate].
    injection H as <-. constructor; [|eapply IH; exact Er].
    apply parse_type_range in Et. apply parse_off_nonneg in Eo. cbn [op_ok]. lia. }
  destruct (is_kw a "SET" || is_kw a "INCRBY").
  { destruct r as [|t [|o [|v rest]]]; try discriminate.
    destruct (parse_type t) as [[sg w]|] eqn:Et; [|discriminate].
    destruct (parse_off o w) as [off|] eqn:Eo; [|discriminate].
    destruct (Z.leb_spec max_bit_off (off + Z.of_nat w - 1)); [discriminate|].
    destruct (parse_i64 v) as [vz|]; [|discriminate].
    destruct (parse_bf fuel rest) as [ops'|] eqn:Er; [|discriminate].
    injection H as <-. constructor; [|eapply IH; exact Er].
    apply parse_type_range in Et. apply parse_off_nonneg in Eo.
    destruct (is_kw a "SET"); cbn [op_ok]; lia. }
  destruct (is_kw a "OVERFLOW"); [|discriminate].
  destruct r as [|p rest]; [discriminate|].
  destruct (is_kw p "WRAP").
  { destruct (parse_bf fuel rest) as [ops'|] eqn:Er; [|discriminate].
    injection H as <-. constructor; [exact I | eapply IH; exact Er]. }
  destruct (is_kw p "SAT").
  { destruct (parse_bf fuel rest) as [ops'|] eqn:Er; [|discriminate].
    injection H as <-. constructor; [exact I | eapply IH; exact Er]. }
  destruct (is_kw p "FAIL"); [|discriminate].
  destruct (parse_bf fuel rest) as [ops'|] eqn:Er; [|discriminate].
  injection H as <-. constructor; [exact I | eapply IH; exact Er].
Qed.
Print Assumptions parse_bf_ok.

Definition bf_need_step (m : Z) (op : bfop) : Z :=
  match op with
  | BSet _ w off _ | BIncr _ w off _ => Z.max m ((off + Z.of_nat w - 1) / 8 + 1)
  | _ => m
  end.

Lemma bf_need_fold ops : forall m0,
  m0 <= fold_left bf_need_step ops m0 /\
  Forall (fun op => match op with
                    | BSet _ w off _ | BIncr _ w off _ =>
                        (off + Z.of_nat w - 1) / 8 + 1 <= fold_left bf_need_step ops m0
                    | _ => True end) ops.
Proof.
  induction ops as [|op r IH]; intro m0; cbn [fold_left]; [split; [lia | constructor]|].
  destruct (IH (bf_need_step m0 op)) as [I1 I2].
  assert (m0 <= bf_need_step m0 op) by (destruct op; cbn [bf_need_step]; lia).
  split; [lia|]. constructor; [|exact I2].
  destruct op; cbn [bf_need_step] in *; try exact I; lia.
Qed.

(* the string is zero-extended just enough for every write to fit *)
Theorem bf_need_fits ops b :
  Forall op_ok ops -> Forall (op_fits (length (extend b (Z.to_nat (bf_need ops))))) ops.
Proof.
  intro Hok. destruct (bf_need_fold ops 0) as [N0 NF].
  change (fold_left bf_need_step ops 0) with (bf_need ops) in *.
  rewrite extend_length.
  rewrite Forall_forall in *. intros op Hop. specialize (Hok op Hop). specialize (NF op Hop).
  destruct op as [sg w off|sg w off v|sg w off v|o']; cbn [op_fits op_ok] in *; try exact I.
  - pose proof (Z.div_mod (off + Z.of_nat w - 1) 8 ltac:(lia)).
    pose proof (Z.mod_pos_bound (off + Z.of_nat w - 1) 8 ltac:(lia)). lia.
  - pose proof (Z.div_mod (off + Z.of_nat w - 1) 8 ltac:(lia)).
    pose proof (Z.mod_pos_bound (off + Z.of_nat w - 1) 8 ltac:(lia)). lia.
Qed.
Print Assumptions bf_need_fits.

(* BITFIELD: the operations run on the zero-extended old value; the stored
   string has exactly the extended length, is well formed, keeps its deadline,
   and is stored only when some write succeeded *)
Theorem bitfield_spec now d k rest ops cur :
  parse_bf (S (length rest)) rest = BfOk ops -> str_key now d k = Some cur ->
  let b0 := extend (cur_bytes cur) (Z.to_nat (bf_need ops)) in
  let r := run_bf ops b0 OWrap false in
  cmd_bitfield false now d (k :: rest) =
    (if snd r then put d k (VStr (fst (fst r))) (cur_exp cur) else d, RArr (snd (fst r)))
  /\ Forall op_ok ops /\ Forall (op_fits (length b0)) ops
  /\ length (fst (fst r)) = Nat.max (length (cur_bytes cur)) (Z.to_nat (bf_need ops))
  /\ (wf_bytes (cur_bytes cur) -> wf_bytes (fst (fst r)))
  /\ (snd r = false -> fst (fst r) = b0).
Proof.
  intros Hp Hk b0 r.
  pose proof (parse_bf_ok _ _ _ Hp) as Hok.
  pose proof (bf_need_fits ops (cur_bytes cur) Hok) as Hfit. fold b0 in Hfit.
  split.
  { unfold cmd_bitfield. rewrite Hp, Hk. cbn [andb].
    subst r b0. destruct cur as [[b e]|]; cbn [cur_bytes cur_exp];
      destruct (run_bf ops _ OWrap false) as [[b' rs] ch]; reflexivity. }
  split; [exact Hok|]. split; [exact Hfit|].
  split; [subst r; rewrite run_bf_length by exact Hfit; subst b0; apply extend_length|].
  split; [intro Hwf; subst r; apply run_bf_wf; subst b0; apply wf_extend; exact Hwf|].
  intro Hch. subst r. destruct (run_bf ops b0 OWrap false) as [[b' rs] ch] eqn:E.
  cbn [fst snd] in *. subst ch. eapply run_bf_unchanged. exact E.
Qed.
Print Assumptions bitfield_spec.
Example bitfield_ex :
  let d0 := put empty_db (s2b "k"%string) (VStr [255%N]) (Some 77) in
  let r := cmd_bitfield false 0 d0
     [s2b "k"%string; s2b "INCRBY"%string; s2b "u4"%string; s2b "#3"%string; s2b "17"%string;
      s2b "OVERFLOW"%string; s2b "SAT"%string; s2b "SET"%string; s2b "i8"%string; s2b "0"%string; s2b "-200"%string;
      s2b "OVERFLOW"%string; s2b "FAIL"%string; s2b "INCRBY"%string; s2b "i8"%string; s2b "0"%string; s2b "-1"%string;
      s2b "GET"%string; s2b "i8"%string; s2b "0"%string] in
  snd r = RArr [RInt 1; RInt (-1); RNil; RInt (-128)]
  /\ str_key 0 (fst r) (s2b "k"%string) = Some (Some ([128%N; 1%N], Some 77)).
Proof. vm_compute. split; reflexivity. Qed.

(* ------------------------------------------------------------------ *)
(* BITCOUNT / BITPOS at command level                                  *)
(* ------------------------------------------------------------------ *)
(* number of set bits of b with index in [a, z] *)
Definition count_bits (b : bytes) (a z : Z) : Z := Zlen (filter (bit_at b) (zrange a z)).

Theorem bitcount_all_spec now d k b exp :
  str_key now d k = Some (Some (b, exp)) ->
  cmd_bitcount now d [k] = (d, RInt (count_bits b 0 (8 * Z.of_nat (length b) - 1))).
Proof.
  intro Hk. unfold cmd_bitcount. rewrite Hk. rewrite count_true_all. reflexivity.
Qed.
Print Assumptions bitcount_all_spec.

(* BITCOUNT key start end  (byte indexes) *)
Theorem bitcount_byte_spec now d k sb eb s e b exp :
  parse_i64 sb = Some s -> parse_i64 eb = Some e ->
  str_key now d k = Some (Some (b, exp)) ->
  cmd_bitcount now d [k; sb; eb] =
  (d, RInt (match redis_range (Z.of_nat (length b)) s e with
            | Some (a, z) => count_bits b (8 * a) (8 * z + 7)
            | None => 0 end)).
Proof.
  intros Hs He Hk. unfold cmd_bitcount. rewrite Hs, He, Hk. unfold Zlen.
  rewrite <- norm_range_redis.
  destruct (norm_range (Z.of_nat (length b)) s e) as [[a z]|] eqn:E; [|reflexivity].
  apply norm_range_bounds in E. rewrite count_true_slice by lia. reflexivity.
Qed.
Print Assumptions bitcount_byte_spec.

(* BITCOUNT key start end BIT|BYTE *)
Theorem bitcount_unit_spec now d k sb eb u s e bit b exp :
  parse_i64 sb = Some s -> parse_i64 eb = Some e -> unit_kw u = Some bit ->
  str_key now d k = Some (Some (b, exp)) ->
  cmd_bitcount now d [k; sb; eb; u] =
  (d, RInt (if bit
            then match redis_range (8 * Z.of_nat (length b)) s e with
                 | Some (a, z) => count_bits b a z | None => 0 end
            else match redis_range (Z.of_nat (length b)) s e with
                 | Some (a, z) => count_bits b (8 * a) (8 * z + 7) | None => 0 end)).
Proof.
  intros Hs He Hu Hk. unfold cmd_bitcount. rewrite Hs, He, Hu, Hk. unfold Zlen.
  rewrite <- !norm_range_redis. destruct bit.
  - destruct (norm_range (8 * Z.of_nat (length b)) s e) as [[a z]|] eqn:E; [|reflexivity].
    apply norm_range_bounds in E. rewrite count_true_slice by lia. reflexivity.
  - destruct (norm_range (Z.of_nat (length b)) s e) as [[a z]|] eqn:E; [|reflexivity].
    apply norm_range_bounds in E. rewrite count_true_slice by lia. reflexivity.
Qed.
Print Assumptions bitcount_unit_spec.

Theorem bitcount_missing now d k rest r :
  str_key now d k = Some None -> cmd_bitcount now d (k :: rest) = (d, r) ->
  r = RInt 0 \/ r = argerr.
Proof.
  intros Hk. unfold cmd_bitcount. rewrite Hk.
  repeat match goal with
         | |- context [match ?x with _ => _ end] => destruct x
         end; intro H; injection H as <-; auto.
Qed.

Theorem find_bit_slice_none bs v a z : 0 <= a -> z < 8 * Z.of_nat (length bs) ->
  find_bit (slice (bits_of bs) a z) v a = None <->
  (forall i, a <= i <= z -> bit_at bs i <> v).
Proof.
  intros Ha Hz. rewrite find_bit_none.
  rewrite (slice_map _ false) by (rewrite ?bits_of_length; lia).
  split.
  - intros H i Hi. rewrite bit_at_nth by lia. apply H.
    apply in_map_iff. exists i. split; [reflexivity | apply in_zrange; exact Hi].
  - intros H x Hx. apply in_map_iff in Hx. destruct Hx as (i & <- & Hi).
    apply in_zrange in Hi. rewrite <- bit_at_nth by lia. apply H. exact Hi.
Qed.
Print Assumptions find_bit_slice_none.

(* p is the answer of a search for bit value v over the indices [a, z] *)
Definition first_bit (b : bytes) (v : bool) (a z p : Z) : Prop :=
  (p = -1 /\ forall i, a <= i <= z -> bit_at b i <> v) \/
  (a <= p <= z /\ bit_at b p = v /\ forall i, a <= i < p -> bit_at b i <> v).

Lemma find_bit_first b v a z : 0 <= a -> z < 8 * Z.of_nat (length b) ->
  first_bit b v a z (match find_bit (slice (bits_of b) a z) v a with Some p => p | None => -1 end).
Proof.
  intros Ha Hz. destruct (find_bit (slice (bits_of b) a z) v a) as [p|] eqn:E.
  - right. apply find_bit_slice; assumption.
  - left. split; [reflexivity|]. apply find_bit_slice_none; assumption.
Qed.

(* BITPOS key bit start end [BIT|BYTE]: explicit end, so no virtual zero padding *)
Theorem bitpos_range_spec now d k bvb sb eb u bitv s e bit b exp :
  parse_i64 bvb = Some bitv -> bitv = 0 \/ bitv = 1 ->
  parse_i64 sb = Some s -> parse_i64 eb = Some e -> unit_kw u = Some bit ->
  str_key now d k = Some (Some (b, exp)) ->
  exists p, cmd_bitpos now d [k; bvb; sb; eb; u] = (d, RInt p) /\
    if bit
    then match redis_range (8 * Z.of_nat (length b)) s e with
         | Some (a, z) => first_bit b (bitv =? 1) a z p | None => p = -1 end
    else match redis_range (Z.of_nat (length b)) s e with
         | Some (a, z) => first_bit b (bitv =? 1) (8 * a) (8 * z + 7) p | None => p = -1 end.
Proof.
  intros Hbv Hv01 Hs He Hu Hk. unfold cmd_bitpos. rewrite Hbv, Hs, He, Hu, Hk. unfold Zlen.
  assert ((bitv =? 0) || (bitv =? 1) = true) as -> by (destruct Hv01; subst; reflexivity).
  cbn [negb]. rewrite <- !norm_range_redis. destruct bit.
  - destruct (norm_range (8 * Z.of_nat (length b)) s e) as [[a z]|] eqn:E;
      [|exists (-1); split; reflexivity].
    apply norm_range_bounds in E.
    pose proof (find_bit_first b (bitv =? 1) a z ltac:(lia) ltac:(lia)) as F.
    destruct (find_bit (slice (bits_of b) a z) (bitv =? 1) a) as [p|].
    + exists p. split; [reflexivity | exact F].
    + exists (-1). split; [rewrite andb_false_r; reflexivity | exact F].
  - destruct (norm_range (Z.of_nat (length b)) s e) as [[a z]|] eqn:E;
      [|exists (-1); split; reflexivity].
    apply norm_range_bounds in E.
    pose proof (find_bit_first b (bitv =? 1) (8 * a) (8 * z + 7) ltac:(lia) ltac:(lia)) as F.
    destruct (find_bit (slice (bits_of b) (8 * a) (8 * z + 7)) (bitv =? 1) (8 * a)) as [p|].
    + exists p. split; [reflexivity | exact F].
    + exists (-1). split; [rewrite andb_false_r; reflexivity | exact F].
Qed.
Print Assumptions bitpos_range_spec.

(* BITPOS key bit start end (byte indexes) *)
Theorem bitpos_byte_spec now d k bvb sb eb bitv s e b exp :
  parse_i64 bvb = Some bitv -> bitv = 0 \/ bitv = 1 ->
  parse_i64 sb = Some s -> parse_i64 eb = Some e ->
  str_key now d k = Some (Some (b, exp)) ->
  exists p, cmd_bitpos now d [k; bvb; sb; eb] = (d, RInt p) /\
    match redis_range (Z.of_nat (length b)) s e with
    | Some (a, z) => first_bit b (bitv =? 1) (8 * a) (8 * z + 7) p | None => p = -1 end.
Proof.
  intros Hbv Hv01 Hs He Hk. unfold cmd_bitpos. rewrite Hbv, Hs, He, Hk. unfold Zlen.
  assert ((bitv =? 0) || (bitv =? 1) = true) as -> by (destruct Hv01; subst; reflexivity).
  cbn [negb]. rewrite <- !norm_range_redis.
  destruct (norm_range (Z.of_nat (length b)) s e) as [[a z]|] eqn:E;
    [|exists (-1); split; reflexivity].
  apply norm_range_bounds in E.
  pose proof (find_bit_first b (bitv =? 1) (8 * a) (8 * z + 7) ltac:(lia) ltac:(lia)) as F.
  destruct (find_bit (slice (bits_of b) (8 * a) (8 * z + 7)) (bitv =? 1) (8 * a)) as [p|].
  - exists p. split; [reflexivity | exact F].
  - exists (-1). split; [rewrite andb_false_r; reflexivity | exact F].
Qed.
Print Assumptions bitpos_byte_spec.

Lemma norm_range_whole L : 0 < L -> norm_range L 0 (-1) = Some (0, L - 1).
Proof.
  intro HL. unfold norm_range.
  change (0 <? 0) with false. change (-1 <? 0) with true. cbn [andb].
  repeat match goal with
         | |- context [if ?c then _ else _] => destruct c eqn:?
         | H : context [if ?c then _ else _] |- _ => destruct c eqn:?
         end;
    try reflexivity; try (f_equal; f_equal; lia); exfalso; lia.
Qed.

(* BITPOS key bit: the whole string; a search for 0 that fails answers the
   first bit after the string (virtual zero padding), for a non-empty string *)
Theorem bitpos_all_spec now d k bvb bitv b exp :
  parse_i64 bvb = Some bitv -> bitv = 0 \/ bitv = 1 ->
  str_key now d k = Some (Some (b, exp)) -> b <> [] ->
  let n := 8 * Z.of_nat (length b) in
  exists p, cmd_bitpos now d [k; bvb] = (d, RInt p) /\
    ((0 <= p < n /\ bit_at b p = (bitv =? 1) /\ forall i, 0 <= i < p -> bit_at b i <> (bitv =? 1))
     \/ ((forall i, 0 <= i < n -> bit_at b i <> (bitv =? 1)) /\ p = if bitv =? 0 then n else -1)).
Proof.
  intros Hbv Hv01 Hk Hne n. unfold cmd_bitpos. rewrite Hbv, Hk. unfold Zlen.
  assert ((bitv =? 0) || (bitv =? 1) = true) as -> by (destruct Hv01; subst; reflexivity).
  cbn [negb].
  assert (Hlen : 0 < Z.of_nat (length b)) by (destruct b; [contradiction | cbn [length]; lia]).
  rewrite (norm_range_whole _ Hlen).
  destruct (find_bit (slice (bits_of b) (8 * 0) (8 * (Z.of_nat (length b) - 1) + 7)) (bitv =? 1) (8 * 0))
    as [p|] eqn:EF.
  - exists p. split; [reflexivity|]. left.
    apply find_bit_slice in EF; [|lia|lia]. destruct EF as (F1 & F2 & F3).
    subst n. split; [lia|]. split; [exact F2|]. intros i Hi. apply F3. lia.
  - exists (if bitv =? 0 then n else -1). split.
    + rewrite andb_true_r. destruct (bitv =? 0); reflexivity.
    + right. split; [|reflexivity]. intros i Hi.
      apply (proj1 (find_bit_slice_none b (bitv =? 1) (8 * 0) (8 * (Z.of_nat (length b) - 1) + 7)
                      ltac:(lia) ltac:(lia)) EF). subst n. lia.
Qed.
Print Assumptions bitpos_all_spec.

Theorem bitpos_missing now d k bvb bitv :
  parse_i64 bvb = Some bitv -> bitv = 0 \/ bitv = 1 -> str_key now d k = Some None ->
  cmd_bitpos now d [k; bvb] = (d, RInt (if bitv =? 1 then -1 else 0)).
Proof.
  intros Hbv Hv01 Hk. unfold cmd_bitpos. rewrite Hbv, Hk.
  assert ((bitv =? 0) || (bitv =? 1) = true) as -> by (destruct Hv01; subst; reflexivity).
  reflexivity.
Qed.
Example bitpos_ex :
  let d0 := put empty_db (s2b "k"%string) (VStr [255%N; 240%N; 0%N]) None in
  cmd_bitpos 0 d0 [s2b "k"%string; s2b "0"%string] = (d0, RInt 12)
  /\ cmd_bitpos 0 d0 [s2b "k"%string; s2b "1"%string; s2b "2"%string] = (d0, RInt (-1))
  /\ cmd_bitpos 0 d0 [s2b "k"%string; s2b "1"%string; s2b "-3"%string; s2b "-1"%string; s2b "bit"%string] = (d0, RInt (-1))
  /\ cmd_bitpos 0 d0 [s2b "k"%string; s2b "0"%string; s2b "1"%string; s2b "-1"%string; s2b "BYTE"%string] = (d0, RInt 12)
  /\ cmd_bitpos 0 (put empty_db (s2b "k"%string) (VStr [255%N]) None) [s2b "k"%string; s2b "0"%string]
     = (put empty_db (s2b "k"%string) (VStr [255%N]) None, RInt 8).
Proof. vm_compute. repeat split; reflexivity. Qed.

(* ------------------------------------------------------------------ *)
(* BITOP at command level                                              *)
(* ------------------------------------------------------------------ *)
Open Scope string_scope.
Definition bitop_fn (op : bytes) : option (option (bool -> bool -> bool)) :=
  if is_kw op "AND" then Some (Some andb) else
  if is_kw op "OR" then Some (Some orb) else
  if is_kw op "XOR" then Some (Some xorb) else
  if is_kw op "NOT" then Some None else None.
Close Scope string_scope.

Lemma fold_max_ge l : forall m0,
  (m0 <= fold_left Nat.max l m0)%nat /\ Forall (fun x => (x <= fold_left Nat.max l m0)%nat) l.
Proof.
  induction l as [|x l IH]; intro m0; cbn [fold_left]; [split; [lia | constructor]|].
  destruct (IH (Nat.max m0 x)) as [I1 I2]. split; [lia|]. constructor; [lia | exact I2].
Qed.

Lemma str_operands_cons now d k ks ops :
  str_operands now d (k :: ks) = Some ops ->
  exists cur rest, str_key now d k = Some cur /\ str_operands now d ks = Some rest /\
                   ops = cur_bytes cur :: rest.
Proof.
  cbn [str_operands]. destruct (str_key now d k) as [cur|]; [|discriminate].
  destruct (str_operands now d ks) as [rest|]; [|discriminate].
  intro H. injection H as <-. exists cur, rest. destruct cur as [[b e]|]; auto.
Qed.

Lemma fold_bytes_op_length g n rest : forall acc,
  length acc = n -> Forall (fun o => (length o <= n)%nat) rest ->
  length (fold_left (bytes_op g n) rest acc) = n.
Proof.
  induction rest as [|o rest IH]; intros acc Lacc HF; [exact Lacc|].
  inversion HF as [|? ? Ho Hr]; subst. cbn [fold_left]. apply IH; [|exact Hr].
  apply bytes_op_spec; [lia | exact Ho].
Qed.

Lemma fold_bytes_op_wf g n rest : forall acc,
  length acc = n -> Forall (fun o => (length o <= n)%nat) rest -> rest <> [] ->
  wf_bytes (fold_left (bytes_op g n) rest acc).
Proof.
  induction rest as [|o rest IH]; intros acc Lacc HF Hne; [contradiction|].
  inversion HF as [|? ? Ho Hr]; subst. cbn [fold_left].
  destruct (bytes_op_spec g (length acc) acc o ltac:(lia) Ho) as (L & W & _).
  destruct rest as [|o2 rest2]; [exact W|].
  apply IH; [exact L | exact Hr | discriminate].
Qed.

(* BITOP AND/OR/XOR dst src1 src2 ...: the result has the length of the longest
   operand and bit i is the fold of the operator over bit i of the operands,
   short operands reading as zeros; it is stored (or dst deleted when empty) *)
Theorem bitop_binary_spec now d op dst s1 srest g a rest :
  bitop_fn op = Some (Some g) ->
  str_operands now d (s1 :: srest) = Some (a :: rest) ->
  let n := fold_left Nat.max (map (@length byte) (a :: rest)) 0%nat in
  exists r, cmd_bitop now d (op :: dst :: s1 :: srest) = (store_str_or_del d dst r, RInt (Zlen r))
    /\ length r = n
    /\ (forall o, In o (a :: rest) -> (length o <= n)%nat)
    /\ (rest <> [] \/ wf_bytes a -> wf_bytes r)
    /\ (forall i, 0 <= i < 8 * Z.of_nat n ->
          bit_at r i = fold_left g (map (fun o => bit_at o i) rest) (bit_at a i)).
Proof.
  intros Hf Hops n.
  destruct (fold_max_ge (map (@length byte) (a :: rest)) 0%nat) as [_ Hge]. fold n in Hge.
  assert (Hall : forall o, In o (a :: rest) -> (length o <= n)%nat).
  { intros o Ho. rewrite Forall_forall in Hge. apply Hge. apply in_map. exact Ho. }
  assert (Ha : (length a <= n)%nat) by (apply Hall; left; reflexivity).
  assert (Hrest : Forall (fun o => (length o <= n)%nat) rest)
    by (apply Forall_forall; intros o Ho; apply Hall; right; exact Ho).
  assert (Lacc : length (extend a n) = n) by (rewrite extend_length; lia).
  exists (fold_left (bytes_op g n) rest (extend a n)).
  split.
  { unfold cmd_bitop. fold (bitop_fn op). rewrite Hf, Hops. reflexivity. }
  split.
  { apply fold_bytes_op_length; assumption. }
  split; [exact Hall|].
  split.
  { intros [Hne|Hwf]; [apply fold_bytes_op_wf; assumption|].
    destruct rest as [|o rest']; [apply wf_extend; exact Hwf|].
    apply fold_bytes_op_wf; [assumption | assumption | discriminate]. }
  intros i Hi.
  destruct (fold_bytes_op_bit_at g n rest i (extend a n) Lacc Hrest Hi) as [_ B].
  rewrite B, bit_at_extend. reflexivity.
Qed.
Print Assumptions bitop_binary_spec.

(* BITOP NOT dst src *)
Theorem bitop_not_spec now d op dst s1 a :
  bitop_fn op = Some None -> str_operands now d [s1] = Some [a] ->
  let r := map (fun x => (255 - x)%N) a in
  cmd_bitop now d [op; dst; s1] = (store_str_or_del d dst r, RInt (Zlen r)).
Proof.
  intros Hf Hops r. unfold cmd_bitop. fold (bitop_fn op). rewrite Hf, Hops. reflexivity.
Qed.
Print Assumptions bitop_not_spec.

(* what "stored" means: afterwards dst reads as the result, without deadline *)
Theorem store_str_or_del_spec now d dst r :
  str_key now (store_str_or_del d dst r) dst = Some (match r with [] => None | _ => Some (r, None) end)
  /\ forall k', k' <> dst -> lookup now (store_str_or_del d dst r) k' = lookup now d k'.
Proof.
  unfold store_str_or_del. destruct r as [|x r].
  - destruct (aget (d_map d) dst) as [e|] eqn:E.
    + split; [unfold str_key; rewrite lookup_del_same; reflexivity|].
      intros k' Hne. apply lookup_del_other. exact Hne.
    + split; [unfold str_key, lookup; rewrite E; reflexivity | reflexivity].
  - split.
    + unfold str_key. rewrite lookup_put_same. reflexivity.
    + intros k' Hne. apply lookup_put_other. exact Hne.
Qed.
Print Assumptions store_str_or_del_spec.
Example bitop_ex :
  let d0 := put (put empty_db (s2b "a"%string) (VStr [255%N; 15%N; 1%N]) None)
                (s2b "b"%string) (VStr [240%N]) None in
  let r := cmd_bitop 0 d0 [s2b "xor"%string; s2b "c"%string; s2b "a"%string; s2b "b"%string; s2b "nokey"%string] in
  snd r = RInt 3 /\ str_key 0 (fst r) (s2b "c"%string) = Some (Some ([15%N; 15%N; 1%N], None))
  /\ str_key 0 (fst (cmd_bitop 0 d0 [s2b "NOT"%string; s2b "c"%string; s2b "b"%string])) (s2b "c"%string)
     = Some (Some ([15%N], None))
  /\ snd (cmd_bitop 0 d0 [s2b "and"%string; s2b "a"%string; s2b "a"%string; s2b "nokey"%string]) = RInt 3
  /\ str_key 0 (fst (cmd_bitop 0 d0 [s2b "and"%string; s2b "a"%string; s2b "a"%string; s2b "nokey"%string])) (s2b "a"%string)
     = Some (Some ([0%N; 0%N; 0%N], None)).
Proof. vm_compute. repeat split; reflexivity. Qed.
