(* Fnum.v — INCRBYFLOAT / HINCRBYFLOAT (redisKeys.go: fnIncrByFloat; redisHashTable.go:
   fnHIncrByFloat; dataStoreCommands.go: addFloat, fieldAddFloat) on decimal numbers.

   Redis computes with long double and prints with "%.17Lf" minus trailing zeros. On the
   modelled domain — operands written as [+-]digits[.digits] whose sum needs no more than 17
   fractional digits and is small enough for the binary rounding error to stay below half a
   unit of the 17th place — that is exact decimal arithmetic, which is what this file defines.
   Exponent forms, inf/nan and magnitudes at which long double shows binary noise are outside
   the modelled domain (the generators stay inside it). *)
From RE Require Import Base Resp State Exec Sort.
From Coq Require Import String.
From Coq Require Import List.
Open Scope string_scope.
Open Scope list_scope.
Open Scope Z_scope.

(* value = sc_m / 10^sc_k (Sort.score) *)
Definition dec_add (a b : score) : score :=
  let k := Nat.max (sc_k a) (sc_k b) in
  mkSc (sc_m a * 10 ^ Z.of_nat (k - sc_k a) + sc_m b * 10 ^ Z.of_nat (k - sc_k b)) k.

(* drop trailing zeros of the fraction *)
Fixpoint dec_norm (fuel : nat) (m : Z) (k : nat) : Z * nat :=
  match fuel, k with
  | S f, S k' => if (m mod 10 =? 0) then dec_norm f (m / 10) k' else (m, k)
  | _, _ => (m, k)
  end.

Definition pad_zeros (n : nat) (b : bytes) : bytes := repeat 48%N (n - length b) ++ b.

(* "%.17Lf" without trailing zeros: sign, integer part, '.', fraction *)
Definition dec_print (s : score) : bytes :=
  let '(m, k) := dec_norm (sc_k s) (sc_m s) (sc_k s) in
  let a := Z.abs m in
  let p := 10 ^ Z.of_nat k in
  let ip := Z_to_bytes (a / p) in
  let body := match k with
              | O => ip
              | _ => ip ++ [46%N] ++ pad_zeros k (Z_to_bytes (a mod p))
              end in
  if m <? 0 then 45%N :: body else body.

Definition notfloat : resp := err "ERR value is not a valid float".

Definition cmd_incrbyfloat (now : Z) (d : db) (args : list bytes) : res :=
  match args with
  | [k; inc] =>
    (* Redis' order: the type of the key, then the stored text, then the increment *)
    match lookup now d k with
    | None =>
      match parse_score inc with
      | None => (d, notfloat)
      | Some delta => let v := dec_print delta in (put d k (VStr v) None, RBulk v)
      end
    | Some e =>
      match str_of e with
      | None => (d, wrongtype)
      | Some old =>
        match parse_score old with
        | None => (d, notfloat)
        | Some cur =>
          match parse_score inc with
          | None => (d, notfloat)
          | Some delta => let v := dec_print (dec_add cur delta) in (put d k (VStr v) (e_exp e), RBulk v)
          end
        end
      end
    end
  | _ => (d, argerr)
  end.

Definition cmd_hincrbyfloat (now : Z) (d : db) (args : list bytes) : res :=
  match args with
  | [k; f; inc] =>
    match parse_score inc with
    | None => (d, notfloat)
    | Some delta =>
      match get_hash now d k with
      | None => (d, wrongtype)
      | Some cur =>
        let '(h0, exp) := match cur with Some (h, e) => (h, e) | None => ([], None) end in
        match aget h0 f with
        | Some old =>
          match parse_score old with
          | Some v => let t := dec_print (dec_add v delta) in (put_hash d k (aset h0 f t) exp, RDouble t)
          | None => (d, err "ERR hash value is not a float")
          end
        | None => let t := dec_print delta in (put_hash d k (aset h0 f t) exp, RDouble t)
        end
      end
    end
  | _ => (d, argerr)
  end.
