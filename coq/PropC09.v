From RE Require Import Base Resp State Exec Exec2 Bits Dispatch Lemmas.
From Coq Require Import String.
From Coq Require Import List.
Open Scope string_scope.
Open Scope list_scope.
Open Scope Z_scope.

(* ================================================================== *)
(* Preamble (identical in PropC09/PropC14/PropC15 so that each file   *)
(* compiles on its own): finite maps keyed by N, state accessors, and *)
(* the shape of the state change of one non-transactional command.    *)
(* ================================================================== *)

Section NMap.
  Context {A : Type}.
  Implicit Types (m : list (N * A)) (k : N) (v : A).

  Lemma nget_nset_same m k v : nget (nset m k v) k = Some v.
  Proof.
    induction m as [|[k' v'] m IH]; simpl.
    - rewrite N.eqb_refl. reflexivity.
    - destruct (N.eqb k k') eqn:E; simpl.
      + rewrite N.eqb_refl. reflexivity.
      + rewrite E. exact IH.
  Qed.

  Lemma nget_nset_other m k k' v : k' <> k -> nget (nset m k v) k' = nget m k'.
  Proof.
    intro Hne. induction m as [|[k0 v0] m IH]; simpl.
    - apply N.eqb_neq in Hne. rewrite Hne. reflexivity.
    - destruct (N.eqb k k0) eqn:E; simpl.
      + apply N.eqb_eq in E. subst k0. apply N.eqb_neq in Hne. rewrite Hne. reflexivity.
      + destruct (N.eqb k' k0); [reflexivity | exact IH].
  Qed.

  Lemma nget_ndel_same m k : nget (ndel m k) k = None.
  Proof.
    induction m as [|[k' v'] m IH]; simpl; [reflexivity|].
    destruct (N.eqb k k') eqn:E; simpl; [exact IH|]. rewrite E. exact IH.
  Qed.

  Lemma nget_ndel_other m k k' : k' <> k -> nget (ndel m k) k' = nget m k'.
  Proof.
    intro Hne. induction m as [|[k0 v0] m IH]; simpl; [reflexivity|].
    destruct (N.eqb k k0) eqn:E; simpl.
    - apply N.eqb_eq in E. subst k0. apply N.eqb_neq in Hne. rewrite Hne. exact IH.
    - destruct (N.eqb k' k0); [reflexivity | exact IH].
  Qed.

  Lemma nget_map_val {B} (g : A -> B) m k :
    nget (map (fun id => (fst id, g (snd id))) m) k = option_map g (nget m k).
  Proof.
    induction m as [|[k' v'] m IH]; simpl; [reflexivity|].
    destruct (N.eqb k k'); [reflexivity | exact IH].
  Qed.
End NMap.

(* ---------- state accessors ---------- *)
Lemma get_conn_set_conn_same st c x : get_conn (set_conn st c x) c = x.
Proof. unfold get_conn, set_conn; simpl. rewrite nget_nset_same. reflexivity. Qed.

Lemma get_conn_set_conn_other st c c' x : c' <> c -> get_conn (set_conn st c x) c' = get_conn st c'.
Proof. intro H. unfold get_conn, set_conn; simpl. rewrite nget_nset_other by assumption. reflexivity. Qed.

Lemma get_conn_set_db st i d c : get_conn (set_db st i d) c = get_conn st c.
Proof. reflexivity. Qed.

Lemma get_db_set_db_same st i d : get_db (set_db st i d) i = d.
Proof. unfold get_db, set_db; simpl. rewrite nget_nset_same. reflexivity. Qed.

Lemma get_db_set_db_other st i j d : j <> i -> get_db (set_db st i d) j = get_db st j.
Proof. intro H. unfold get_db, set_db; simpl. rewrite nget_nset_other by assumption. reflexivity. Qed.

Lemma get_db_set_conn st c x i : get_db (set_conn st c x) i = get_db st i.
Proof. reflexivity. Qed.

Lemma s_dbs_set_conn st c x : s_dbs (set_conn st c x) = s_dbs st.
Proof. reflexivity. Qed.

Lemma s_conns_set_db st i d : s_conns (set_db st i d) = s_conns st.
Proof. reflexivity. Qed.

Lemma get_conn_fresh st c : nget (s_conns st) c = None -> get_conn st c = conn0.
Proof. intro H. unfold get_conn. rewrite H. reflexivity. Qed.

Lemma get_conn_close_same st c : get_conn (close_conn st c) c = conn0.
Proof. unfold get_conn, close_conn; simpl. rewrite nget_ndel_same. reflexivity. Qed.

Lemma get_conn_close_other st c c' : c' <> c -> get_conn (close_conn st c) c' = get_conn st c'.
Proof. intro H. unfold get_conn, close_conn; simpl. rewrite nget_ndel_other by assumption. reflexivity. Qed.

Definition flush_all (st : state) : state :=
  mkSt (map (fun id => (fst id, flush_db (snd id))) (s_dbs st)) (s_conns st).

Lemma get_conn_flush_all st c : get_conn (flush_all st) c = get_conn st c.
Proof. reflexivity. Qed.

Lemma d_map_get_db_flush_all st i : d_map (get_db (flush_all st) i) = [].
Proof.
  unfold get_db, flush_all; simpl. rewrite nget_map_val.
  destruct (nget (s_dbs st) i); reflexivity.
Qed.

(* ---------- how one connection record may change ---------- *)
(* name is the (lower-cased) command name that caused the change *)
Definition conn_upd_ok (name : bytes) (c c' : conn) : Prop :=
  c_queue c' = c_queue c /\
  c_qerr c' = c_qerr c /\
  (c_watch c' = c_watch c \/ (name = s2b "unwatch" /\ c_watch c' = [])) /\
  (c_sel c' = c_sel c \/ name = s2b "select") /\
  (c_resp c' = c_resp c \/ (name = s2b "hello" /\ (c_resp c' = 2 \/ c_resp c' = 3))) /\
  (c_name c' = c_name c \/ name = s2b "client").

Lemma conn_upd_ok_refl name c : conn_upd_ok name c c.
Proof. unfold conn_upd_ok. repeat split; left; reflexivity. Qed.

(* the state after one command run by [run_plain] for connection cid *)
Inductive run_shape (st : state) (cid : N) (name : bytes) : state -> Prop :=
| rs_same : run_shape st cid name st
| rs_conn c' : conn_upd_ok name (get_conn st cid) c' -> run_shape st cid name (set_conn st cid c')
| rs_db d : run_shape st cid name (set_db st (c_sel (get_conn st cid)) d)
| rs_flushall : name = s2b "flushall" -> run_shape st cid name (flush_all st).

Ltac break_in H :=
  repeat match type of H with
         | context [match ?x with _ => _ end] => destruct x eqn:?
         end.

Lemma session_cmd_shape now st cid name args st' r :
  session_cmd now st cid name args = Some (st', r) -> run_shape st cid name st'.
Proof.
  intro H. unfold session_cmd in H. cbv beta zeta in H.
  destruct (bytes_eqb name (s2b "ping")) eqn:E1.
  { injection H as H _. subst st'. constructor. }
  destruct (bytes_eqb name (s2b "echo")) eqn:E2.
  { injection H as H _. subst st'. constructor. }
  destruct (bytes_eqb name (s2b "quit")) eqn:E3.
  { injection H as H _. subst st'. constructor. }
  destruct (bytes_eqb name (s2b "select")) eqn:E4.
  { apply bytes_eqb_eq in E4. injection H as H.
    break_in H; injection H as H _; subst st'; try constructor.
    unfold conn_upd_ok; cbn. repeat split; auto. }
  destruct (bytes_eqb name (s2b "flushdb")) eqn:E5.
  { injection H as H. break_in H; injection H as H _; subst st'; constructor. }
  destruct (bytes_eqb name (s2b "flushall")) eqn:E6.
  { apply bytes_eqb_eq in E6. injection H as H.
    break_in H; injection H as H _; subst st';
      first [apply rs_same | apply (rs_flushall st cid name E6)]. }
  destruct (bytes_eqb name (s2b "hello")) eqn:E7.
  { apply bytes_eqb_eq in E7. injection H as H.
    break_in H; injection H as H _; subst st'; try constructor;
      unfold conn_upd_ok; cbn; repeat split; auto. }
  destruct (bytes_eqb name (s2b "unwatch")) eqn:E8.
  { apply bytes_eqb_eq in E8. injection H as H.
    break_in H; injection H as H _; subst st'; try constructor;
      unfold conn_upd_ok; cbn; repeat split; auto. }
  destruct (bytes_eqb name (s2b "client")) eqn:E9.
  { apply bytes_eqb_eq in E9. injection H as H.
    break_in H; injection H as H _; subst st'; try constructor;
      unfold conn_upd_ok; cbn; repeat split; auto. }
  destruct (bytes_eqb name (s2b "command") || bytes_eqb name (s2b "info")) eqn:E10.
  { injection H as H _. subst st'. constructor. }
  discriminate H.
Qed.

Lemma run_plain_shape now st cid name args b :
  run_shape st cid name (o_st (run_plain now st cid name args b)).
Proof.
  unfold run_plain.
  destruct (data_cmd name) as [f|].
  { destruct (f now (get_db st (c_sel (get_conn st cid))) args) as [d' r]. cbn [o_st]. constructor. }
  destruct (blocking_cmd name) as [f|].
  { destruct (f now (get_db st (c_sel (get_conn st cid))) args) as [d' r].
    destruct r; cbn [o_st]; constructor. }
  destruct (session_cmd now st cid name args) as [[st' r]|] eqn:E; cbn [o_st].
  - eapply session_cmd_shape; eassumption.
  - constructor.
Qed.

Lemma run_plain_in_exec_noblock now st cid name args :
  o_block (run_plain now st cid name args true) = false.
Proof.
  unfold run_plain.
  destruct (data_cmd name) as [f|].
  { destruct (f now (get_db st (c_sel (get_conn st cid))) args) as [d' r]. reflexivity. }
  destruct (blocking_cmd name) as [f|].
  { destruct (f now (get_db st (c_sel (get_conn st cid))) args) as [d' r].
    destruct r; reflexivity. }
  destruct (session_cmd now st cid name args) as [[st' r]|]; reflexivity.
Qed.

(* consequences of the shape *)
Lemma shape_other_conn st cid name st' c2 :
  run_shape st cid name st' -> c2 <> cid -> get_conn st' c2 = get_conn st c2.
Proof.
  intros H Hne. destruct H; try reflexivity.
  apply get_conn_set_conn_other; assumption.
Qed.

Lemma shape_conn st cid name st' :
  run_shape st cid name st' -> conn_upd_ok name (get_conn st cid) (get_conn st' cid).
Proof.
  intros H. destruct H; try apply conn_upd_ok_refl.
  rewrite get_conn_set_conn_same. assumption.
Qed.

Lemma shape_other_db st cid name st' i :
  run_shape st cid name st' -> name <> s2b "flushall" ->
  i <> c_sel (get_conn st cid) -> get_db st' i = get_db st i.
Proof.
  intros H Hn Hi. destruct H; try reflexivity.
  - apply get_db_set_db_other; assumption.
  - contradiction.
Qed.

(* exec_queue only threads run_plain *)
(* (the clock advances by one per executed queued command, hence the quantification over now) *)
Lemma exec_queue_other_conn cid q : forall now st c2,
  c2 <> cid -> get_conn (fst (exec_queue now st cid q)) c2 = get_conn st c2.
Proof.
  induction q as [|cmd q IH]; intros now st c2 Hne; [reflexivity|].
  destruct cmd as [|name args]; cbn [exec_queue]; [apply IH; assumption|].
  specialize (IH (now + 1) (o_st (run_plain now st cid (lower name) args true)) c2 Hne).
  destruct (exec_queue (now + 1) (o_st (run_plain now st cid (lower name) args true)) cid q) as [st' rs].
  cbn [fst] in *. rewrite IH.
  eapply shape_other_conn; [apply run_plain_shape | assumption].
Qed.

(* [flag_tx]: the arity error of a control command inside an open transaction *)
Lemma flag_tx_none st cid c : c_queue c = None -> flag_tx st cid c = st.
Proof. intro H. unfold flag_tx. rewrite H. reflexivity. Qed.

Lemma flag_tx_some st cid c q :
  c_queue c = Some q ->
  flag_tx st cid c = set_conn st cid (mkConn (c_sel c) (c_resp c) (c_name c) (Some q) true (c_watch c)).
Proof. intro H. unfold flag_tx. rewrite H. reflexivity. Qed.

Lemma flag_tx_other_conn st cid c c2 : c2 <> cid -> get_conn (flag_tx st cid c) c2 = get_conn st c2.
Proof.
  intro Hne. unfold flag_tx. destruct (c_queue c); [|reflexivity].
  apply get_conn_set_conn_other; assumption.
Qed.

Lemma flag_tx_dbs st cid c : s_dbs (flag_tx st cid c) = s_dbs st.
Proof. unfold flag_tx. destruct (c_queue c); reflexivity. Qed.

Lemma get_db_flag_tx st cid c i : get_db (flag_tx st cid c) i = get_db st i.
Proof. unfold flag_tx. destruct (c_queue c); reflexivity. Qed.

(* ---------- unfolding equations of [step] ---------- *)
Definition is_name (name0 : bytes) (s : string) : Prop := lower name0 = s2b s.

Lemma tx_control_split name :
  is_tx_control name = false ->
  bytes_eqb name (s2b "multi") = false /\ bytes_eqb name (s2b "exec") = false /\
  bytes_eqb name (s2b "discard") = false /\ bytes_eqb name (s2b "watch") = false.
Proof.
  unfold is_tx_control. cbv beta zeta. intro H.
  apply orb_false_iff in H as [H H4]. apply orb_false_iff in H as [H H3].
  apply orb_false_iff in H as [H1 H2]. auto.
Qed.

(* a known command that is not multi/exec/discard/watch: queued inside MULTI, run otherwise *)
Lemma step_plain_eq now st cid name0 args :
  known_cmd (lower name0) = true -> is_tx_control (lower name0) = false ->
  step now st cid (name0 :: args) =
  let name := lower name0 in
  let c := get_conn st cid in
  match c_queue c with
  | Some q =>
    let o := run_plain now st cid name args true in
    if is_argerr (o_reply o) then
      mkOut (set_conn st cid (mkConn (c_sel c) (c_resp c) (c_name c) (Some q) true (c_watch c))) argerr false
    else
      mkOut (set_conn st cid (mkConn (c_sel c) (c_resp c) (c_name c) (Some (q ++ [name0 :: args])) (c_qerr c) (c_watch c)))
            (RSimple (s2b "QUEUED")) false
  | None => run_plain now st cid name args false
  end.
Proof.
  intros Hk Ht. apply tx_control_split in Ht as (H1 & H2 & H3 & H4).
  unfold step. cbv beta iota zeta. rewrite Hk, H1, H2, H3, H4. reflexivity.
Qed.

Lemma step_unknown_eq now st cid name0 args :
  known_cmd (lower name0) = false ->
  step now st cid (name0 :: args) =
  let c := get_conn st cid in
  match c_queue c with
  | Some q => mkOut (set_conn st cid (mkConn (c_sel c) (c_resp c) (c_name c) (Some q) true (c_watch c))) unknown_cmd false
  | None => mkOut st unknown_cmd false
  end.
Proof. intros Hk. unfold step. cbv beta iota zeta. rewrite Hk. reflexivity. Qed.

Lemma step_multi_eq now st cid name0 args :
  lower name0 = s2b "multi" ->
  step now st cid (name0 :: args) =
  let c := get_conn st cid in
  match args, c_queue c with
  | [], None => mkOut (set_conn st cid (mkConn (c_sel c) (c_resp c) (c_name c) (Some []) false (c_watch c))) ok false
  | [], Some _ => mkOut st (err "ERR MULTI calls can not be nested") false
  | _, _ => mkOut (flag_tx st cid c) argerr false
  end.
Proof. intros H. unfold step. cbv beta iota zeta. rewrite H. reflexivity. Qed.

Lemma step_discard_eq now st cid name0 args :
  lower name0 = s2b "discard" ->
  step now st cid (name0 :: args) =
  let c := get_conn st cid in
  match args, c_queue c with
  | [], Some _ => mkOut (set_conn st cid (reset_tx c)) ok false
  | [], None => mkOut st (err "ERR DISCARD without MULTI") false
  | _, _ => mkOut (flag_tx st cid c) argerr false
  end.
Proof. intros H. unfold step. cbv beta iota zeta. rewrite H. reflexivity. Qed.

Lemma step_watch_multi_eq now st cid name0 a args q :
  lower name0 = s2b "watch" -> c_queue (get_conn st cid) = Some q ->
  step now st cid (name0 :: a :: args) = mkOut st (err "ERR WATCH inside MULTI is not allowed") false.
Proof. intros H Hq. unfold step. cbv beta iota zeta. rewrite H, Hq. reflexivity. Qed.

Lemma step_exec_eq now st cid name0 args :
  lower name0 = s2b "exec" ->
  step now st cid (name0 :: args) =
  let c := get_conn st cid in
  match args, c_queue c with
  | _ :: _, _ => mkOut (flag_tx st cid c) argerr false
  | [], None => mkOut st (err "ERR EXEC without MULTI") false
  | [], Some q =>
    if c_qerr c then
      mkOut (set_conn st cid (reset_tx c)) (err "EXECABORT Transaction discarded because of previous errors.") false
    else if watch_dirty now st (c_watch c) then
      mkOut (set_conn st cid (reset_tx c)) RNil false
    else
      let st1 := set_conn st cid (reset_tx c) in
      let '(st2, rs) := exec_queue now st1 cid q in
      mkOut st2 (RArr rs) false
  end.
Proof. intros H. unfold step. cbv beta iota zeta. rewrite H. reflexivity. Qed.


Definition is_err (r : resp) : bool := match r with RErr _ => true | _ => false end.

Lemma step_watch_eq now st cid name0 args :
  lower name0 = s2b "watch" ->
  step now st cid (name0 :: args) =
  let c := get_conn st cid in
  match c_queue c with
  | Some _ =>
    match args with
    | [] => mkOut (flag_tx st cid c) argerr false
    | _ => mkOut st (err "ERR WATCH inside MULTI is not allowed") false
    end
  | None =>
    match args with
    | [] => mkOut st argerr false
    | _ =>
      let d := get_db st (c_sel c) in
      let ws := map (fun k => (c_sel c, k, ver_of now d k)) args in
      mkOut (set_conn st cid (mkConn (c_sel c) (c_resp c) (c_name c) None (c_qerr c)
                              (ws ++ filter (fun w => let '(i, k, _) := w in
                                               negb (N.eqb i (c_sel c) && mem_bytes k args)) (c_watch c)))) ok false
    end
  end.
Proof. intros H. unfold step. cbv beta iota zeta. rewrite H. reflexivity. Qed.

Lemma tx_control_cases name :
  is_tx_control name = true ->
  name = s2b "multi" \/ name = s2b "exec" \/ name = s2b "discard" \/ name = s2b "watch".
Proof.
  unfold is_tx_control. cbv beta zeta. intro H.
  apply orb_true_iff in H as [H|H4]; [|apply bytes_eqb_eq in H4; auto].
  apply orb_true_iff in H as [H|H3]; [|apply bytes_eqb_eq in H3; auto].
  apply orb_true_iff in H as [H1|H2]; [apply bytes_eqb_eq in H1 | apply bytes_eqb_eq in H2]; auto.
Qed.

Lemma tx_control_known name : is_tx_control name = true -> known_cmd name = true.
Proof.
  intro H. apply tx_control_cases in H as [H|[H|[H|H]]]; subst name; vm_compute; reflexivity.
Qed.

Lemma run_plain_session_eq now st cid name args b :
  data_cmd name = None -> blocking_cmd name = None ->
  run_plain now st cid name args b =
  match session_cmd now st cid name args with
  | Some (st', r) => mkOut st' r false
  | None => mkOut st unknown_cmd false
  end.
Proof. intros H1 H2. unfold run_plain. rewrite H1, H2. reflexivity. Qed.

(* a step of connection cid leaves every other session as it was *)
Lemma step_other_conn now st cid cmd c2 :
  c2 <> cid -> get_conn (o_st (step now st cid cmd)) c2 = get_conn st c2.
Proof.
  intro Hne. destruct cmd as [|name0 args]; [reflexivity|].
  destruct (known_cmd (lower name0)) eqn:Hk.
  2:{ rewrite (step_unknown_eq now st cid name0 args Hk). cbv zeta.
      destruct (c_queue (get_conn st cid)); cbn [o_st]; [|reflexivity].
      apply get_conn_set_conn_other; assumption. }
  destruct (is_tx_control (lower name0)) eqn:Ht.
  - apply tx_control_cases in Ht as [Hn|[Hn|[Hn|Hn]]].
    + rewrite (step_multi_eq now st cid name0 args Hn). cbv zeta.
      destruct args; destruct (c_queue (get_conn st cid)); cbn [o_st];
        first [apply flag_tx_other_conn; assumption | reflexivity | idtac].
      apply get_conn_set_conn_other; assumption.
    + rewrite (step_exec_eq now st cid name0 args Hn). cbv zeta.
      destruct args; [|cbn [o_st]; apply flag_tx_other_conn; assumption].
      destruct (c_queue (get_conn st cid)) as [q|]; [|reflexivity].
      destruct (c_qerr (get_conn st cid)).
      { cbn [o_st]. apply get_conn_set_conn_other; assumption. }
      destruct (watch_dirty now st (c_watch (get_conn st cid))).
      { cbn [o_st]. apply get_conn_set_conn_other; assumption. }
      pose proof (exec_queue_other_conn cid q now (set_conn st cid (reset_tx (get_conn st cid))) c2 Hne) as H.
      destruct (exec_queue now (set_conn st cid (reset_tx (get_conn st cid))) cid q) as [st2 rs].
      cbn [o_st fst] in *. rewrite H. apply get_conn_set_conn_other; assumption.
    + rewrite (step_discard_eq now st cid name0 args Hn). cbv zeta.
      destruct args; destruct (c_queue (get_conn st cid)); cbn [o_st];
        first [apply flag_tx_other_conn; assumption | reflexivity | idtac].
      apply get_conn_set_conn_other; assumption.
    + rewrite (step_watch_eq now st cid name0 args Hn). cbv zeta.
      destruct (c_queue (get_conn st cid)).
      { destruct args; cbn [o_st]; [apply flag_tx_other_conn; assumption | reflexivity]. }
      destruct args; cbn [o_st]; [reflexivity|].
      apply get_conn_set_conn_other; assumption.
  - rewrite (step_plain_eq now st cid name0 args Hk Ht). cbv zeta.
    destruct (c_queue (get_conn st cid)) as [q|].
    + destruct (is_argerr _); cbn [o_st]; apply get_conn_set_conn_other; assumption.
    + eapply shape_other_conn; [apply run_plain_shape | assumption].
Qed.

(* ================================================================== *)
(* C09 — MULTI / EXEC / DISCARD                                        *)
(* ================================================================== *)

(* ---------- 1. queued commands have no effect ---------- *)

Theorem C09_queued_no_effect now st cid name0 args q :
  c_queue (get_conn st cid) = Some q ->
  known_cmd (lower name0) = true ->
  is_tx_control (lower name0) = false ->
  is_err (o_reply (step now st cid (name0 :: args))) = false ->
  let c := get_conn st cid in
  let o := step now st cid (name0 :: args) in
  o_reply o = RSimple (s2b "QUEUED") /\
  s_dbs (o_st o) = s_dbs st /\
  get_conn (o_st o) cid =
    mkConn (c_sel c) (c_resp c) (c_name c) (Some (q ++ [name0 :: args])) (c_qerr c) (c_watch c) /\
  (forall c2, c2 <> cid -> get_conn (o_st o) c2 = get_conn st c2) /\
  o_block o = false.
Proof.
  intros Hq Hk Ht Hne. cbv zeta.
  rewrite (step_plain_eq now st cid name0 args Hk Ht) in *. cbv zeta in *.
  rewrite Hq in *.
  destruct (is_argerr (o_reply (run_plain now st cid (lower name0) args true))) eqn:Ea.
  - cbn in Hne. discriminate Hne.
  - cbn [o_st o_reply o_block]. repeat split.
    + apply get_conn_set_conn_same.
    + intros c2 Hc2. apply get_conn_set_conn_other; assumption.
Qed.
Print Assumptions C09_queued_no_effect.

(* the same, with the exact condition under which the reply is not an error *)
Lemma C09_queued_iff now st cid name0 args q :
  c_queue (get_conn st cid) = Some q ->
  known_cmd (lower name0) = true ->
  is_tx_control (lower name0) = false ->
  (is_err (o_reply (step now st cid (name0 :: args))) = false <->
   is_argerr (o_reply (run_plain now st cid (lower name0) args true)) = false).
Proof.
  intros Hq Hk Ht. rewrite (step_plain_eq now st cid name0 args Hk Ht). cbv zeta. rewrite Hq.
  destruct (is_argerr _); cbn; split; intro; congruence.
Qed.

Definition ex_multi : state := o_st (step 0 state0 7 [s2b "MULTI"]).
Example C09_queued_example :
  c_queue (get_conn ex_multi 7) = Some [] /\
  known_cmd (lower (s2b "SeT")) = true /\ is_tx_control (lower (s2b "SeT")) = false /\
  step 0 ex_multi 7 [s2b "SeT"; s2b "k"; s2b "v"] =
    mkOut (set_conn ex_multi 7 (mkConn 0 2 [] (Some [[s2b "SeT"; s2b "k"; s2b "v"]]) false []))
          (RSimple (s2b "QUEUED")) false.
Proof. vm_compute. repeat split. Qed.

(* ---------- 2. rejected while queueing ---------- *)
Theorem C09_queue_error_flags now st cid name0 args q :
  c_queue (get_conn st cid) = Some q ->
  is_tx_control (lower name0) = false ->
  (known_cmd (lower name0) = false \/
   is_argerr (o_reply (run_plain now st cid (lower name0) args true)) = true) ->
  let c := get_conn st cid in
  let o := step now st cid (name0 :: args) in
  is_err (o_reply o) = true /\
  s_dbs (o_st o) = s_dbs st /\
  get_conn (o_st o) cid = mkConn (c_sel c) (c_resp c) (c_name c) (Some q) true (c_watch c) /\
  (forall c2, c2 <> cid -> get_conn (o_st o) c2 = get_conn st c2) /\
  o_block o = false.
Proof.
  intros Hq Ht Hbad. cbv zeta.
  destruct (known_cmd (lower name0)) eqn:Hk.
  - destruct Hbad as [Hbad|Hbad]; [discriminate|].
    rewrite (step_plain_eq now st cid name0 args Hk Ht). cbv zeta. rewrite Hq, Hbad.
    cbn [o_st o_reply o_block]. repeat split.
    + apply get_conn_set_conn_same.
    + intros c2 Hc2. apply get_conn_set_conn_other; assumption.
  - rewrite (step_unknown_eq now st cid name0 args Hk). cbv zeta. rewrite Hq.
    cbn [o_st o_reply o_block]. repeat split.
    + apply get_conn_set_conn_same.
    + intros c2 Hc2. apply get_conn_set_conn_other; assumption.
Qed.
Print Assumptions C09_queue_error_flags.

Example C09_queue_error_example :
  (* unknown command and bad arity inside MULTI *)
  let o1 := step 0 ex_multi 7 [s2b "nosuchcmd"] in
  let o2 := step 0 ex_multi 7 [s2b "GET"] in
  known_cmd (lower (s2b "nosuchcmd")) = false /\
  is_argerr (o_reply (run_plain 0 ex_multi 7 (lower (s2b "GET")) [] true)) = true /\
  c_qerr (get_conn (o_st o1) 7) = true /\ c_qerr (get_conn (o_st o2) 7) = true /\
  is_err (o_reply o1) = true /\ is_err (o_reply o2) = true.
Proof. vm_compute. repeat split. Qed.

Theorem C09_flagged_exec_aborts now st cid name0 q :
  lower name0 = s2b "exec" ->
  c_queue (get_conn st cid) = Some q ->
  c_qerr (get_conn st cid) = true ->
  let c := get_conn st cid in
  let o := step now st cid [name0] in
  o_reply o = err "EXECABORT Transaction discarded because of previous errors." /\
  s_dbs (o_st o) = s_dbs st /\
  get_conn (o_st o) cid = mkConn (c_sel c) (c_resp c) (c_name c) None false [] /\
  (forall c2, c2 <> cid -> get_conn (o_st o) c2 = get_conn st c2) /\
  o_block o = false.
Proof.
  intros Hn Hq He. cbv zeta. rewrite (step_exec_eq now st cid name0 [] Hn). cbv zeta.
  rewrite Hq, He. cbn [o_st o_reply o_block]. repeat split.
  - apply get_conn_set_conn_same.
  - intros c2 Hc2. apply get_conn_set_conn_other; assumption.
Qed.
Print Assumptions C09_flagged_exec_aborts.

Example C09_flagged_exec_example :
  let st1 := o_st (step 0 ex_multi 7 [s2b "SET"; s2b "k"; s2b "v"]) in
  let st2 := o_st (step 0 st1 7 [s2b "GET"]) in          (* bad arity: flags *)
  let o := step 0 st2 7 [s2b "ExEc"] in
  o_reply o = err "EXECABORT Transaction discarded because of previous errors." /\
  s_dbs (o_st o) = [] /\ get_conn (o_st o) 7 = conn0.
Proof. vm_compute. repeat split. Qed.

(* ---------- 3. EXEC runs the queue in order ---------- *)
(* Every executed queued command reads the clock itself: the i-th executed (non-empty)
   command of the queue runs at time now + i, where now is the time at which EXEC starts. *)
Definition nonempty_cmd (cmd : list bytes) : bool := match cmd with [] => false | _ => true end.

(* independent restatement of exec_queue as a left fold over the queue; the accumulator
   is (time of the next command, current state, replies so far) *)
Definition run_one (cid : N) (acc : Z * state * list resp) (cmd : list bytes) : Z * state * list resp :=
  match cmd with
  | [] => acc
  | name :: args =>
    let t := fst (fst acc) in
    let o := run_plain t (snd (fst acc)) cid (lower name) args true in
    (t + 1, o_st o, snd acc ++ [o_reply o])
  end.
Definition run_seq_t (now : Z) (st : state) (cid : N) (q : list (list bytes)) : Z * state * list resp :=
  fold_left (run_one cid) q (now, st, []).
Definition run_seq (now : Z) (st : state) (cid : N) (q : list (list bytes)) : state * list resp :=
  (snd (fst (run_seq_t now st cid q)), snd (run_seq_t now st cid q)).

Lemma exec_queue_fold cid q : forall now st acc,
  fold_left (run_one cid) q (now, st, acc) =
  (now + Z.of_nat (length (filter nonempty_cmd q)),
   fst (exec_queue now st cid q), acc ++ snd (exec_queue now st cid q)).
Proof.
  induction q as [|cmd q IH]; intros now st acc.
  - cbn. rewrite app_nil_r, Z.add_0_r. reflexivity.
  - destruct cmd as [|name args]; cbn [fold_left run_one exec_queue filter nonempty_cmd].
    + apply IH.
    + cbn [fst snd]. rewrite IH.
      destruct (exec_queue (now + 1) (o_st (run_plain now st cid (lower name) args true)) cid q) as [st' rs].
      cbn [fst snd length]. rewrite <- app_assoc, Nat2Z.inj_succ.
      replace (now + 1 + Z.of_nat (length (filter nonempty_cmd q)))
        with (now + Z.succ (Z.of_nat (length (filter nonempty_cmd q)))) by (unfold Z.succ; ring).
      reflexivity.
Qed.

Lemma exec_queue_run_seq now st cid q : exec_queue now st cid q = run_seq now st cid q.
Proof.
  unfold run_seq, run_seq_t. rewrite exec_queue_fold. cbn [app fst snd].
  destruct (exec_queue now st cid q); reflexivity.
Qed.

(* the clock after the run: one tick per executed command *)
Lemma run_seq_t_time now st cid q :
  fst (fst (run_seq_t now st cid q)) = now + Z.of_nat (length (filter nonempty_cmd q)).
Proof. unfold run_seq_t. rewrite exec_queue_fold. reflexivity. Qed.

Lemma exec_queue_length cid q : forall now st,
  length (snd (exec_queue now st cid q)) = length (filter nonempty_cmd q).
Proof.
  induction q as [|cmd q IH]; intros now st; [reflexivity|].
  destruct cmd as [|name args]; cbn [exec_queue filter nonempty_cmd]; [apply IH|].
  specialize (IH (now + 1) (o_st (run_plain now st cid (lower name) args true))).
  destruct (exec_queue (now + 1) (o_st (run_plain now st cid (lower name) args true)) cid q) as [st' rs].
  cbn [snd length] in *. rewrite IH. reflexivity.
Qed.

(* consecutive execution: running q1 ++ q2 is running q1, then q2 from the state q1 left and
   at the time q1 left (one tick per executed command of q1), the replies concatenated; in
   particular no reply (error or not) ends the run *)
Lemma exec_queue_app cid q1 : forall now st q2,
  exec_queue now st cid (q1 ++ q2) =
  let '(st1, rs1) := exec_queue now st cid q1 in
  let '(st2, rs2) := exec_queue (now + Z.of_nat (length (filter nonempty_cmd q1))) st1 cid q2 in
  (st2, rs1 ++ rs2).
Proof.
  induction q1 as [|cmd q1 IH]; intros now st q2.
  - cbn. rewrite Z.add_0_r. destruct (exec_queue now st cid q2); reflexivity.
  - destruct cmd as [|name args]; cbn [app exec_queue filter nonempty_cmd]; [apply IH|].
    rewrite IH. cbn [length]. rewrite Nat2Z.inj_succ.
    replace (now + 1 + Z.of_nat (length (filter nonempty_cmd q1)))
      with (now + Z.succ (Z.of_nat (length (filter nonempty_cmd q1)))) by (unfold Z.succ; ring).
    destruct (exec_queue (now + 1) (o_st (run_plain now st cid (lower name) args true)) cid q1) as [st1 rs1].
    destruct (exec_queue (now + Z.succ (Z.of_nat (length (filter nonempty_cmd q1)))) st1 cid q2) as [st2 rs2].
    reflexivity.
Qed.

(* one step of the run, whatever the reply of the first command is *)
Lemma exec_queue_cons now st cid name args q :
  exec_queue now st cid ((name :: args) :: q) =
  let o := run_plain now st cid (lower name) args true in
  (fst (exec_queue (now + 1) (o_st o) cid q), o_reply o :: snd (exec_queue (now + 1) (o_st o) cid q)).
Proof.
  cbn [exec_queue]. cbv zeta.
  destruct (exec_queue (now + 1) (o_st (run_plain now st cid (lower name) args true)) cid q); reflexivity.
Qed.

Theorem C09_exec_runs_in_order now st cid name0 q :
  lower name0 = s2b "exec" ->
  c_queue (get_conn st cid) = Some q ->
  c_qerr (get_conn st cid) = false ->
  watch_dirty now st (c_watch (get_conn st cid)) = false ->
  let st1 := set_conn st cid (reset_tx (get_conn st cid)) in
  let o := step now st cid [name0] in
  o_st o = fst (run_seq now st1 cid q) /\
  o_reply o = RArr (snd (run_seq now st1 cid q)) /\
  run_seq now st1 cid q = exec_queue now st1 cid q /\
  length (snd (run_seq now st1 cid q)) = length (filter nonempty_cmd q) /\
  o_block o = false.
Proof.
  intros Hn Hq He Hw. cbv zeta. rewrite (step_exec_eq now st cid name0 [] Hn). cbv zeta.
  rewrite Hq, He, Hw. rewrite <- exec_queue_run_seq.
  pose proof (exec_queue_length cid q now (set_conn st cid (reset_tx (get_conn st cid)))) as HL.
  destruct (exec_queue now (set_conn st cid (reset_tx (get_conn st cid))) cid q) as [st2 rs].
  cbn [o_st o_reply o_block fst snd] in *. repeat split. exact HL.
Qed.
Print Assumptions C09_exec_runs_in_order.

(* the n-th reply is the reply of the n-th queued command run in the state left by the
   commands before it, at time now + n (queue without empty commands, which the server
   never enqueues; n = number of commands executed before it = number of replies before it) *)
Theorem C09_exec_nth_reply now cid q1 name args q2 st :
  let '(st1, rs1) := exec_queue now st cid q1 in
  length rs1 = length (filter nonempty_cmd q1) /\
  nth_error (snd (exec_queue now st cid (q1 ++ (name :: args) :: q2))) (length rs1) =
  Some (o_reply (run_plain (now + Z.of_nat (length rs1)) st1 cid (lower name) args true)).
Proof.
  rewrite exec_queue_app.
  pose proof (exec_queue_length cid q1 now st) as HL.
  destruct (exec_queue now st cid q1) as [st1 rs1]. cbn [snd] in HL. split; [exact HL|].
  rewrite exec_queue_cons. cbv zeta. cbn [snd].
  rewrite nth_error_app2 by apply Nat.le_refl. rewrite Nat.sub_diag, HL. reflexivity.
Qed.
Print Assumptions C09_exec_nth_reply.

(* the clock does move inside one EXEC: PEXPIRE k 0 sets the deadline to the time of that
   command; the GET queued after it runs one tick later and finds k gone *)
Example C09_exec_time_example :
  let st0 := o_st (step 5 state0 7 [s2b "SET"; s2b "k"; s2b "v"]) in
  let st1 := o_st (step 5 st0 7 [s2b "MULTI"]) in
  let st2 := o_st (step 5 st1 7 [s2b "GET"; s2b "k"]) in
  let st3 := o_st (step 5 st2 7 [s2b "PEXPIRE"; s2b "k"; s2b "0"]) in
  let st4 := o_st (step 5 st3 7 [s2b "GET"; s2b "k"]) in
  let st5 := o_st (step 5 st4 7 [s2b "GET"; s2b "k"]) in
  o_reply (step 5 st5 7 [s2b "EXEC"]) = RArr [RBulk (s2b "v"); RInt 1; RNil; RNil].
Proof. vm_compute. reflexivity. Qed.

Example C09_exec_example :
  (* SET k v ; LPUSH k x (runtime WRONGTYPE error) ; GET k : three replies, the error does not stop GET *)
  let st1 := o_st (step 0 ex_multi 7 [s2b "SET"; s2b "k"; s2b "v"]) in
  let st2 := o_st (step 0 st1 7 [s2b "LPUSH"; s2b "k"; s2b "x"]) in
  let st3 := o_st (step 0 st2 7 [s2b "GET"; s2b "k"]) in
  let o := step 0 st3 7 [s2b "EXEC"] in
  c_qerr (get_conn st3 7) = false /\ watch_dirty 0 st3 (c_watch (get_conn st3 7)) = false /\
  o_reply o = RArr [ok; wrongtype; RBulk (s2b "v")] /\ get_conn (o_st o) 7 = conn0.
Proof. vm_compute. repeat split. Qed.

(* ---------- 4. the transaction state is reset ---------- *)
Definition tx_clean (c : conn) : Prop := c_queue c = None /\ c_watch c = [] /\ c_qerr c = false.

(* run_plain never changes c_queue / c_qerr of any connection, and changes c_watch only
   by UNWATCH of the calling connection, which empties it *)
Theorem run_plain_tx_fields now st cid name args b c2 :
  let st' := o_st (run_plain now st cid name args b) in
  c_queue (get_conn st' c2) = c_queue (get_conn st c2) /\
  c_qerr (get_conn st' c2) = c_qerr (get_conn st c2) /\
  (c_watch (get_conn st' c2) = c_watch (get_conn st c2) \/
   (c2 = cid /\ name = s2b "unwatch" /\ c_watch (get_conn st' c2) = [])).
Proof.
  cbv zeta. pose proof (run_plain_shape now st cid name args b) as Hs.
  destruct (N.eq_dec c2 cid) as [->|Hne].
  - apply shape_conn in Hs. destruct Hs as (H1 & H2 & H3 & _).
    repeat split; try assumption. destruct H3 as [H3|[H3 H4]]; [left; assumption | right; auto].
  - rewrite (shape_other_conn _ _ _ _ c2 Hs Hne). auto.
Qed.
Print Assumptions run_plain_tx_fields.

Lemma run_plain_tx_clean now st cid name args b c2 :
  tx_clean (get_conn st c2) -> tx_clean (get_conn (o_st (run_plain now st cid name args b)) c2).
Proof.
  intros (H1 & H2 & H3).
  destruct (run_plain_tx_fields now st cid name args b c2) as (G1 & G2 & G3). cbv zeta in *.
  unfold tx_clean. rewrite G1, G2. repeat split; try assumption.
  destruct G3 as [G3|(_ & _ & G3)]; congruence.
Qed.

Lemma exec_queue_tx_clean cid q : forall now st c2,
  tx_clean (get_conn st c2) -> tx_clean (get_conn (fst (exec_queue now st cid q)) c2).
Proof.
  induction q as [|cmd q IH]; intros now st c2 H; [exact H|].
  destruct cmd as [|name args]; cbn [exec_queue]; [apply IH; assumption|].
  specialize (IH (now + 1) (o_st (run_plain now st cid (lower name) args true)) c2
                 (run_plain_tx_clean now st cid (lower name) args true c2 H)).
  destruct (exec_queue (now + 1) (o_st (run_plain now st cid (lower name) args true)) cid q) as [st' rs].
  exact IH.
Qed.

Lemma tx_clean_reset c : tx_clean (reset_tx c).
Proof. repeat split. Qed.

(* EXEC (whichever of its three outcomes) and DISCARD inside MULTI: back to normal mode,
   for every queue content *)
Theorem C09_state_reset now st cid name0 q :
  c_queue (get_conn st cid) = Some q ->
  (lower name0 = s2b "exec" \/ lower name0 = s2b "discard") ->
  let c' := get_conn (o_st (step now st cid [name0])) cid in
  c_queue c' = None /\ c_watch c' = [] /\ c_qerr c' = false.
Proof.
  intros Hq [Hn|Hn]; cbv zeta.
  - rewrite (step_exec_eq now st cid name0 [] Hn). cbv zeta. rewrite Hq.
    destruct (c_qerr (get_conn st cid)).
    { cbn [o_st]. rewrite get_conn_set_conn_same. apply tx_clean_reset. }
    destruct (watch_dirty now st (c_watch (get_conn st cid))).
    { cbn [o_st]. rewrite get_conn_set_conn_same. apply tx_clean_reset. }
    pose proof (exec_queue_tx_clean cid q now (set_conn st cid (reset_tx (get_conn st cid))) cid) as H.
    rewrite get_conn_set_conn_same in H. specialize (H (tx_clean_reset _)).
    destruct (exec_queue now (set_conn st cid (reset_tx (get_conn st cid))) cid q) as [st2 rs].
    exact H.
  - rewrite (step_discard_eq now st cid name0 [] Hn). cbv zeta. rewrite Hq.
    cbn [o_st]. rewrite get_conn_set_conn_same. apply tx_clean_reset.
Qed.
Print Assumptions C09_state_reset.

(* sel / resp / name survive EXEC-abort and DISCARD; (after a run they are what the queued
   SELECT/HELLO/CLIENT SETNAME commands made them) *)
Theorem C09_discard now st cid name0 args q :
  lower name0 = s2b "discard" ->
  c_queue (get_conn st cid) = Some q ->
  let c := get_conn st cid in
  let o := step now st cid (name0 :: args) in
  s_dbs (o_st o) = s_dbs st /\
  (forall c2, c2 <> cid -> get_conn (o_st o) c2 = get_conn st c2) /\
  o_block o = false /\
  (args = [] -> o_reply o = ok /\
                get_conn (o_st o) cid = mkConn (c_sel c) (c_resp c) (c_name c) None false []) /\
  (* DISCARD with arguments: arity error; the transaction stays open and is flagged *)
  (args <> [] -> o_reply o = argerr /\
                 o_st o = set_conn st cid (mkConn (c_sel c) (c_resp c) (c_name c) (Some q) true (c_watch c))).
Proof.
  intros Hn Hq. cbv zeta. rewrite (step_discard_eq now st cid name0 args Hn). cbv zeta. rewrite Hq.
  destruct args as [|a args]; cbn [o_st o_reply o_block];
    rewrite ?(flag_tx_some st cid (get_conn st cid) q Hq); repeat split; try congruence.
  - intros c2 Hc2. apply get_conn_set_conn_other; assumption.
  - apply get_conn_set_conn_same.
  - intros c2 Hc2. apply get_conn_set_conn_other; assumption.
Qed.
Print Assumptions C09_discard.

Example C09_discard_example :
  let st1 := o_st (step 0 ex_multi 7 [s2b "SET"; s2b "k"; s2b "v"]) in
  let o := step 0 st1 7 [s2b "DISCARD"] in
  c_queue (get_conn st1 7) = Some [[s2b "SET"; s2b "k"; s2b "v"]] /\
  o_reply o = ok /\ s_dbs (o_st o) = [] /\ get_conn (o_st o) 7 = conn0.
Proof. vm_compute. repeat split. Qed.

Example C09_state_reset_example :
  (* a queue that itself contains UNWATCH and a failing command *)
  let st0 := o_st (step 0 state0 7 [s2b "WATCH"; s2b "a"]) in
  let st1 := o_st (step 0 st0 7 [s2b "MULTI"]) in
  let st2 := o_st (step 0 st1 7 [s2b "UNWATCH"]) in
  let st3 := o_st (step 0 st2 7 [s2b "INCR"; s2b "a"]) in
  let o := step 0 st3 7 [s2b "exec"] in
  c_watch (get_conn st3 7) = [(0%N, s2b "a", 0%N)] /\
  c_queue (get_conn st3 7) = Some [[s2b "UNWATCH"]; [s2b "INCR"; s2b "a"]] /\
  o_reply o = RArr [ok; RInt 1] /\ get_conn (o_st o) 7 = conn0.
Proof. vm_compute. repeat split. Qed.

(* ---------- 5. misuse of the control commands ---------- *)
(* the errors the property names: EXEC / DISCARD without MULTI (whatever the arguments),
   nested MULTI, WATCH k... inside MULTI: an error reply, nothing changes *)
Theorem C09_control_errors_inert now st cid name0 args :
  let c := get_conn st cid in
  (lower name0 = s2b "exec" /\ c_queue c = None) \/
  (lower name0 = s2b "discard" /\ c_queue c = None) \/
  (lower name0 = s2b "multi" /\ c_queue c <> None /\ args = []) \/
  (lower name0 = s2b "watch" /\ c_queue c <> None /\ args <> []) ->
  let o := step now st cid (name0 :: args) in
  is_err (o_reply o) = true /\ o_st o = st /\ o_block o = false.
Proof.
  cbv zeta. intros [[Hn Hq]|[[Hn Hq]|[[Hn [Hq Ha]]|[Hn [Hq Ha]]]]].
  - rewrite (step_exec_eq now st cid name0 args Hn). cbv zeta. rewrite Hq.
    destruct args; cbn [o_st o_reply o_block]; rewrite ?(flag_tx_none st cid _ Hq); repeat split.
  - rewrite (step_discard_eq now st cid name0 args Hn). cbv zeta. rewrite Hq.
    destruct args; cbn [o_st o_reply o_block]; rewrite ?(flag_tx_none st cid _ Hq); repeat split.
  - subst args. rewrite (step_multi_eq now st cid name0 [] Hn). cbv zeta.
    destruct (c_queue (get_conn st cid)) as [q|]; [|congruence]. repeat split.
  - destruct (c_queue (get_conn st cid)) as [q|] eqn:Eq; [|congruence].
    destruct args as [|a args]; [congruence|].
    rewrite (step_watch_multi_eq now st cid name0 a args q Hn Eq). repeat split.
Qed.
Print Assumptions C09_control_errors_inert.

(* a control command with a wrong number of arguments outside a transaction
   (MULTI x, EXEC x, DISCARD x, WATCH without key): arity error, nothing changes at all *)
Theorem C09_control_arity_outside_multi now st cid name0 args :
  c_queue (get_conn st cid) = None ->
  ((lower name0 = s2b "exec" \/ lower name0 = s2b "discard" \/ lower name0 = s2b "multi") /\ args <> []) \/
  (lower name0 = s2b "watch" /\ args = []) ->
  step now st cid (name0 :: args) = mkOut st argerr false.
Proof.
  intros Hq [[[Hn|[Hn|Hn]] Ha]|[Hn Ha]].
  - rewrite (step_exec_eq now st cid name0 args Hn). cbv zeta.
    destruct args as [|a args]; [congruence|]. rewrite (flag_tx_none st cid _ Hq). reflexivity.
  - rewrite (step_discard_eq now st cid name0 args Hn). cbv zeta.
    destruct args as [|a args]; [congruence|]. rewrite (flag_tx_none st cid _ Hq). reflexivity.
  - rewrite (step_multi_eq now st cid name0 args Hn). cbv zeta.
    destruct args as [|a args]; [congruence|]. rewrite (flag_tx_none st cid _ Hq). reflexivity.
  - subst args. rewrite (step_watch_eq now st cid name0 [] Hn). cbv zeta. rewrite Hq. reflexivity.
Qed.
Print Assumptions C09_control_arity_outside_multi.

(* the precise error texts *)
Theorem C09_control_error_texts now st cid name0 :
  let c := get_conn st cid in
  let o := step now st cid [name0] in
  (lower name0 = s2b "exec" -> c_queue c = None -> o_reply o = err "ERR EXEC without MULTI") /\
  (lower name0 = s2b "discard" -> c_queue c = None -> o_reply o = err "ERR DISCARD without MULTI") /\
  (lower name0 = s2b "multi" -> c_queue c <> None -> o_reply o = err "ERR MULTI calls can not be nested").
Proof.
  cbv zeta. repeat split; intros Hn Hq.
  - rewrite (step_exec_eq now st cid name0 [] Hn). cbv zeta. rewrite Hq. reflexivity.
  - rewrite (step_discard_eq now st cid name0 [] Hn). cbv zeta. rewrite Hq. reflexivity.
  - rewrite (step_multi_eq now st cid name0 [] Hn). cbv zeta.
    destruct (c_queue (get_conn st cid)); [reflexivity | congruence].
Qed.

Example C09_control_errors_example :
  is_err (o_reply (step 0 state0 7 [s2b "EXEC"])) = true /\
  is_err (o_reply (step 0 state0 7 [s2b "Discard"])) = true /\
  step 0 ex_multi 7 [s2b "MULTI"] = mkOut ex_multi (err "ERR MULTI calls can not be nested") false /\
  step 0 ex_multi 7 [s2b "WATCH"; s2b "k"] = mkOut ex_multi (err "ERR WATCH inside MULTI is not allowed") false.
Proof. vm_compute. repeat split. Qed.

(* MULTI outside a transaction opens one with an empty queue and touches nothing else *)
Theorem C09_multi_opens now st cid name0 :
  lower name0 = s2b "multi" -> c_queue (get_conn st cid) = None ->
  let c := get_conn st cid in
  let o := step now st cid [name0] in
  o_reply o = ok /\ s_dbs (o_st o) = s_dbs st /\
  get_conn (o_st o) cid = mkConn (c_sel c) (c_resp c) (c_name c) (Some []) false (c_watch c) /\
  (forall c2, c2 <> cid -> get_conn (o_st o) c2 = get_conn st c2).
Proof.
  intros Hn Hq. cbv zeta. rewrite (step_multi_eq now st cid name0 [] Hn). cbv zeta. rewrite Hq.
  cbn [o_st o_reply]. repeat split.
  - apply get_conn_set_conn_same.
  - intros c2 Hc2. apply get_conn_set_conn_other; assumption.
Qed.
Print Assumptions C09_multi_opens.

(* EXEC aborted by a touched WATCHed key: nil reply, nothing executed *)
Theorem C09_watch_abort now st cid name0 q :
  lower name0 = s2b "exec" ->
  c_queue (get_conn st cid) = Some q ->
  c_qerr (get_conn st cid) = false ->
  watch_dirty now st (c_watch (get_conn st cid)) = true ->
  let o := step now st cid [name0] in
  o_reply o = RNil /\ s_dbs (o_st o) = s_dbs st /\
  (forall c2, c2 <> cid -> get_conn (o_st o) c2 = get_conn st c2).
Proof.
  intros Hn Hq He Hw. cbv zeta. rewrite (step_exec_eq now st cid name0 [] Hn). cbv zeta.
  rewrite Hq, He, Hw. cbn [o_st o_reply]. repeat split.
  intros c2 Hc2. apply get_conn_set_conn_other; assumption.
Qed.
Print Assumptions C09_watch_abort.

(* A control command with a wrong number of arguments while a transaction is open
   (MULTI x, EXEC x, DISCARD x, WATCH without key) answers the arity error and FLAGS the
   transaction, as cmdDispatcher.go:dispatch does for every command rejected by the
   argument parser while a queue is open: c_qerr becomes true and nothing else changes
   (queue, watches, selected db / protocol / name, databases, other connections). *)
Theorem C09_control_arity_inside_multi now st cid name0 args q :
  c_queue (get_conn st cid) = Some q ->
  ((lower name0 = s2b "exec" \/ lower name0 = s2b "discard" \/ lower name0 = s2b "multi") /\ args <> []) \/
  (lower name0 = s2b "watch" /\ args = []) ->
  let c := get_conn st cid in
  let o := step now st cid (name0 :: args) in
  o = mkOut (set_conn st cid (mkConn (c_sel c) (c_resp c) (c_name c) (Some q) true (c_watch c))) argerr false /\
  is_err (o_reply o) = true /\
  s_dbs (o_st o) = s_dbs st /\
  get_conn (o_st o) cid = mkConn (c_sel c) (c_resp c) (c_name c) (Some q) true (c_watch c) /\
  (forall c2, c2 <> cid -> get_conn (o_st o) c2 = get_conn st c2) /\
  o_block o = false.
Proof.
  intros Hq Hcase. cbv zeta.
  assert (E : step now st cid (name0 :: args) =
              mkOut (set_conn st cid (mkConn (c_sel (get_conn st cid)) (c_resp (get_conn st cid))
                                             (c_name (get_conn st cid)) (Some q) true
                                             (c_watch (get_conn st cid)))) argerr false).
  { destruct Hcase as [[[Hn|[Hn|Hn]] Ha]|[Hn Ha]].
    - rewrite (step_exec_eq now st cid name0 args Hn). cbv zeta.
      destruct args as [|a args]; [congruence|]. rewrite (flag_tx_some st cid _ q Hq). reflexivity.
    - rewrite (step_discard_eq now st cid name0 args Hn). cbv zeta.
      destruct args as [|a args]; [congruence|]. rewrite (flag_tx_some st cid _ q Hq). reflexivity.
    - rewrite (step_multi_eq now st cid name0 args Hn). cbv zeta.
      destruct args as [|a args]; [congruence|]. rewrite (flag_tx_some st cid _ q Hq). reflexivity.
    - subst args. rewrite (step_watch_eq now st cid name0 [] Hn). cbv zeta. rewrite Hq.
      rewrite (flag_tx_some st cid _ q Hq). reflexivity. }
  rewrite E. cbn [o_st o_reply o_block]. repeat split.
  - apply get_conn_set_conn_same.
  - intros c2 Hc2. apply get_conn_set_conn_other; assumption.
Qed.
Print Assumptions C09_control_arity_inside_multi.

(* ... hence the EXEC that follows (at any later time) answers EXECABORT and runs nothing:
   the databases are those before the bad control command, the session is back to normal
   mode, the other connections are untouched *)
Theorem C09_control_arity_exec_aborts now now' st cid name0 args ename q :
  c_queue (get_conn st cid) = Some q ->
  ((lower name0 = s2b "exec" \/ lower name0 = s2b "discard" \/ lower name0 = s2b "multi") /\ args <> []) \/
  (lower name0 = s2b "watch" /\ args = []) ->
  lower ename = s2b "exec" ->
  let c := get_conn st cid in
  let st' := o_st (step now st cid (name0 :: args)) in
  let o := step now' st' cid [ename] in
  o_reply o = err "EXECABORT Transaction discarded because of previous errors." /\
  s_dbs (o_st o) = s_dbs st /\
  get_conn (o_st o) cid = mkConn (c_sel c) (c_resp c) (c_name c) None false [] /\
  (forall c2, c2 <> cid -> get_conn (o_st o) c2 = get_conn st c2) /\
  o_block o = false.
Proof.
  intros Hq Hcase He. cbv zeta.
  destruct (C09_control_arity_inside_multi now st cid name0 args q Hq Hcase) as (_ & _ & Hd & Hc & Ho & _).
  cbv zeta in Hd, Hc, Ho.
  set (st' := o_st (step now st cid (name0 :: args))) in *.
  assert (Hq' : c_queue (get_conn st' cid) = Some q) by (rewrite Hc; reflexivity).
  assert (He' : c_qerr (get_conn st' cid) = true) by (rewrite Hc; reflexivity).
  destruct (C09_flagged_exec_aborts now' st' cid ename q He Hq' He') as (R1 & R2 & R3 & R4 & R5).
  cbv zeta in R1, R2, R3, R4, R5. rewrite Hc in R3. cbn [c_sel c_resp c_name] in R3.
  repeat split; try assumption.
  - rewrite R2. exact Hd.
  - intros c2 Hc2. rewrite (R4 c2 Hc2). apply Ho; assumption.
Qed.
Print Assumptions C09_control_arity_exec_aborts.

Example C09_control_arity_example :
  (* MULTI; SET k v; then one of MULTI x / EXEC x / DISCARD x / WATCH : flagged, queue kept;
     EXEC then aborts and k is not set.  Outside MULTI the same commands change nothing. *)
  let st1 := o_st (step 0 ex_multi 7 [s2b "SET"; s2b "k"; s2b "v"]) in
  let bad := [[s2b "MULTI"; s2b "x"]; [s2b "exec"; s2b "x"]; [s2b "DISCARD"; s2b "x"; s2b "y"]; [s2b "Watch"]] in
  Forall (fun cmd =>
    let o := step 0 st1 7 cmd in
    o_reply o = argerr /\
    get_conn (o_st o) 7 = mkConn 0 2 [] (Some [[s2b "SET"; s2b "k"; s2b "v"]]) true [] /\
    step 1 (o_st o) 7 [s2b "EXEC"] =
      mkOut (set_conn (o_st o) 7 conn0) (err "EXECABORT Transaction discarded because of previous errors.") false /\
    s_dbs (o_st (step 1 (o_st o) 7 [s2b "EXEC"])) = [] /\
    step 0 state0 7 cmd = mkOut state0 argerr false) bad.
Proof.
  intros st1 bad. unfold bad.
  repeat (apply Forall_cons; [vm_compute; repeat split|]). apply Forall_nil.
Qed.

Example C09_watch_abort_example :
  (* connection 7 watches k, connection 8 writes k, EXEC of 7 is aborted: nil, INCR not run *)
  let s0 := o_st (step 0 state0 7 [s2b "WATCH"; s2b "k"]) in
  let s1 := o_st (step 0 s0 7 [s2b "MULTI"]) in
  let s2 := o_st (step 0 s1 7 [s2b "INCR"; s2b "n"]) in
  let s3 := o_st (step 0 s2 8 [s2b "SET"; s2b "k"; s2b "v"]) in
  let o := step 0 s3 7 [s2b "EXEC"] in
  watch_dirty 0 s3 (c_watch (get_conn s3 7)) = true /\
  o_reply o = RNil /\ s_dbs (o_st o) = s_dbs s3 /\ get_conn (o_st o) 7 = conn0 /\
  o_reply (step 0 s0 7 [s2b "multi"]) = ok.
Proof. vm_compute. repeat split. Qed.
