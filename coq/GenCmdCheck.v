(* GenCmdCheck.v — the model's command tables cover the dispatcher's handler table.
   CmdFacts.v is regenerated from /repo (cmdDispatcher.go: handlerTable) by `harness factgen` on every
   run. The "whole table" theorems (PropC06/C07/C10/C19) quantify over the model's data_cmd; this
   obligation ties that table to the Go one: every command the emulator serves is a data command, a
   blocking command or a session/transaction command of the model, or is on the audited list below.
   A command added to the Go table re-opens the audit. *)
From Coq Require Import String List Bool.
From RE Require Import Base Dispatch CmdFacts.
Import ListNotations.
Open Scope string_scope.

(* handled by session_cmd / step itself *)
Definition session_names : list string :=
  ["client"; "command"; "echo"; "flushall"; "flushdb"; "hello"; "info"; "ping"; "quit"; "select"; "unwatch";
   "multi"; "exec"; "discard"; "watch"].

(* served by the emulator, not in the model: opaque serialisation format (covered by the hostile-input
   stream of C13 only) *)
Definition not_modelled : list string := ["dump"; "restore"].

Definition smem (s : string) (l : list string) : bool := existsb (String.eqb s) l.

Definition covered (n : string) : bool :=
  match data_cmd (s2b n) with
  | Some _ => true
  | None => match blocking_cmd (s2b n) with
            | Some _ => true
            | None => smem n session_names || smem n not_modelled
            end
  end.

Theorem C06_go_table_covered : forallb covered go_commands = true.
Proof. vm_compute. reflexivity. Qed.

(* the audited exceptions are real commands of the emulator, and really not in the model *)
Theorem C06_not_modelled_exact :
  forallb (fun n => smem n go_commands
                    && match data_cmd (s2b n) with Some _ => false | None => true end) not_modelled = true.
Proof. vm_compute. reflexivity. Qed.

Example C06_go_table_nonempty : Nat.leb 100 (length go_commands) = true.
Proof. vm_compute. reflexivity. Qed.
