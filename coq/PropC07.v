(* PropC07.v — expiry: an expired key behaves exactly like a missing key for every command
   of the table, a key is visible up to and including its deadline, TTL reporting, and the
   rules by which commands keep, clear or set the deadline. *)
From RE Require Import Base Resp State Exec Exec2 Bits Lcs Sort Fnum Dispatch Lemmas.
From Coq Require Import ZArith.
From Coq Require Import String.
From Coq Require Import List.
From Coq Require Import Lia.
Open Scope string_scope.
Open Scope list_scope.
Open Scope Z_scope.

(* ------------------------------------------------------------------ *)
(* generic case-splitting tactic: destruct the scrutinee of an innermost match *)
Ltac bm :=
  first
  [ match goal with
    | |- context[match ?x with _ => _ end] =>
        lazymatch x with
        | context[match _ with _ => _ end] => fail
        | _ => destruct x eqn:?
        end
    end
  | match goal with
    | |- context[match ?x with _ => _ end] => destruct x eqn:?
    end ].
Ltac bms := cbv beta zeta; repeat (bm; cbv beta iota zeta).

(* ------------------------------------------------------------------ *)
(* the table as a list, so that table-wide theorems are [Forall]s *)
Definition table : list (string * (Z -> db -> list bytes -> res)) :=
  [("set", cmd_set); ("setnx", cmd_setnx); ("setex", cmd_setex sec); ("psetex", cmd_setex msec);
   ("get", cmd_get); ("getset", cmd_getset); ("getdel", cmd_getdel); ("getex", cmd_getex);
   ("append", cmd_append); ("strlen", cmd_strlen); ("getrange", cmd_getrange); ("substr", cmd_getrange);
   ("setrange", cmd_setrange); ("incr", cmd_incr 1); ("decr", cmd_incr (-1));
   ("incrby", cmd_incrby 1); ("decrby", cmd_incrby (-1)); ("mget", cmd_mget); ("mset", cmd_mset);
   ("msetnx", cmd_msetnx); ("lpush", cmd_push true false); ("rpush", cmd_push false false);
   ("lpushx", cmd_push true true); ("rpushx", cmd_push false true); ("lpop", cmd_pop true);
   ("rpop", cmd_pop false); ("llen", cmd_llen); ("lindex", cmd_lindex); ("lrange", cmd_lrange);
   ("lset", cmd_lset); ("linsert", cmd_linsert); ("lrem", cmd_lrem); ("ltrim", cmd_ltrim);
   ("lpos", cmd_lpos); ("lmove", cmd_lmove); ("rpoplpush", cmd_rpoplpush); ("lmpop", cmd_lmpop);
   ("hset", cmd_hset 0); ("hmset", cmd_hset 1); ("hsetnx", cmd_hset 2); ("hget", cmd_hget);
   ("hmget", cmd_hmget); ("hgetall", cmd_hgetall); ("hkeys", cmd_hkeys false); ("hvals", cmd_hkeys true);
   ("hlen", cmd_hlen); ("hexists", cmd_hexists false); ("hstrlen", cmd_hexists true); ("hdel", cmd_hdel);
   ("hincrby", cmd_hincrby); ("hrandfield", cmd_hrandfield); ("hscan", cmd_hscan); ("sadd", cmd_sadd);
   ("srem", cmd_srem); ("scard", cmd_scard); ("sismember", cmd_sismember); ("smismember", cmd_smismember);
   ("smembers", cmd_smembers); ("smove", cmd_smove); ("srandmember", cmd_srandmember); ("sscan", cmd_sscan);
   ("sinter", cmd_setop OpInter); ("sunion", cmd_setop OpUnion); ("sdiff", cmd_setop OpDiff);
   ("sinterstore", cmd_setop_store OpInter); ("sunionstore", cmd_setop_store OpUnion);
   ("sdiffstore", cmd_setop_store OpDiff); ("sintercard", cmd_sintercard); ("del", cmd_del);
   ("unlink", cmd_del); ("exists", cmd_exists); ("touch", cmd_touch); ("type", cmd_type);
   ("rename", cmd_rename false); ("renamenx", cmd_rename true); ("copy", cmd_copy); ("keys", cmd_keys);
   ("randomkey", cmd_randomkey); ("dbsize", cmd_dbsize); ("scan", cmd_scan);
   ("expire", cmd_expire sec true); ("pexpire", cmd_expire msec true); ("expireat", cmd_expire sec false);
   ("pexpireat", cmd_expire msec false); ("ttl", cmd_ttl sec true); ("pttl", cmd_ttl msec true);
   ("expiretime", cmd_ttl sec false); ("pexpiretime", cmd_ttl msec false); ("persist", cmd_persist);
   ("setbit", cmd_setbit); ("getbit", cmd_getbit); ("bitcount", cmd_bitcount); ("bitpos", cmd_bitpos);
   ("bitop", cmd_bitop); ("bitfield", cmd_bitfield false); ("bitfield_ro", cmd_bitfield true);
   ("lcs", cmd_lcs); ("sort", cmd_sort); ("incrbyfloat", cmd_incrbyfloat);
   ("hincrbyfloat", cmd_hincrbyfloat)].

Fixpoint tlook (t : list (string * (Z -> db -> list bytes -> res))) (name : bytes) :=
  match t with
  | [] => None
  | (s, f) :: r => if bytes_eqb name (s2b s) then Some f else tlook r name
  end.

(* both sides are normalised to the same [if]-chain first, so that a table that lacks an entry
   of [data_cmd] makes this fail at once (plain [reflexivity] then backtracks for hours) *)
Lemma data_cmd_tlook name : data_cmd name = tlook table name.
Proof. cbv [data_cmd table tlook]. reflexivity. Qed.

Lemma tlook_in t name f : tlook t name = Some f -> exists s, name = s2b s /\ In (s, f) t.
Proof.
  induction t as [|[s g] t IH]; simpl; [discriminate|].
  destruct (bytes_eqb name (s2b s)) eqn:E; intro H.
  - injection H as <-. apply bytes_eqb_eq in E. exists s. auto.
  - destruct (IH H) as (s' & H1 & H2). exists s'. auto.
Qed.

Lemma data_cmd_table name f :
  data_cmd name = Some f -> exists s, name = s2b s /\ In (s, f) table.
Proof. rewrite data_cmd_tlook. apply tlook_in. Qed.

(* the list is exactly the table *)
Lemma table_data_cmd : Forall (fun sf => data_cmd (s2b (fst sf)) = Some (snd sf)) table.
Proof. unfold table. repeat (constructor; [reflexivity|]). constructor. Qed.

Lemma table_forall (P : (Z -> db -> list bytes -> res) -> Prop) :
  Forall (fun sf => P (snd sf)) table -> forall name f, data_cmd name = Some f -> P f.
Proof.
  intros HF name f H. apply data_cmd_table in H as (s & _ & Hin).
  rewrite Forall_forall in HF. apply (HF _ Hin).
Qed.

Ltac unf :=
  cbv beta delta
    [cmd_set cmd_setnx cmd_setex cmd_get cmd_getset cmd_getdel cmd_getex cmd_append cmd_strlen
     cmd_getrange cmd_setrange cmd_incr cmd_incrby cmd_mget cmd_mset cmd_msetnx cmd_push cmd_pop
     cmd_llen cmd_lindex cmd_lrange cmd_lset cmd_linsert cmd_lrem cmd_ltrim cmd_lpos cmd_lmove
     cmd_rpoplpush cmd_lmpop cmd_hset cmd_hget cmd_hmget cmd_hgetall cmd_hkeys cmd_hlen cmd_hexists
     cmd_hdel cmd_hincrby cmd_hrandfield cmd_hscan cmd_sadd cmd_srem cmd_scard cmd_sismember
     cmd_smismember cmd_smembers cmd_smove cmd_srandmember cmd_sscan cmd_setop cmd_setop_store
     cmd_sintercard cmd_del cmd_exists cmd_touch cmd_type cmd_rename cmd_copy cmd_keys cmd_randomkey
     cmd_dbsize cmd_scan cmd_expire cmd_ttl cmd_persist cmd_setbit cmd_getbit cmd_bitcount cmd_bitpos
     cmd_bitop cmd_bitfield cmd_lcs lcs_operand cmd_incrbyfloat cmd_hincrbyfloat set_core incr_core expire_core lmove_core store_str_or_del
     get_list get_hash get_set str_key keys_live].

(* ------------------------------------------------------------------ *)
(* facts about expiry, lookup and purge *)
Lemma expired_mono now now' e : now <= now' -> expired now e = true -> expired now' e = true.
Proof.
  unfold expired. destruct (e_exp e) as [t|]; [|discriminate].
  intros Hle H. apply Z.ltb_lt in H. apply Z.ltb_lt. lia.
Qed.

Lemma aget_filter {V} (P : V -> bool) (m : list (bytes * V)) k :
  NoDup (map fst m) ->
  aget (filter (fun kv => P (snd kv)) m) k =
  match aget m k with Some v => if P v then Some v else None | None => None end.
Proof.
  induction m as [|[k' v'] m IH]; simpl; intro Hnd; [reflexivity|].
  inversion Hnd as [|? ? Hnin Hnd']; subst.
  destruct (bytes_eqb k k') eqn:E.
  - apply bytes_eqb_eq in E. subst k'. destruct (P v') eqn:EP; simpl.
    + rewrite bytes_eqb_refl. reflexivity.
    + rewrite (IH Hnd'). destruct (aget m k) as [v|] eqn:G; [|reflexivity].
      apply aget_some_in in G. contradiction.
  - destruct (P v'); simpl; [rewrite E|]; apply IH; exact Hnd'.
Qed.

Lemma lookup_purge now now' d k :
  NoDup (map fst (d_map d)) -> now <= now' -> lookup now' (purge now d) k = lookup now' d k.
Proof.
  intros Hnd Hle. unfold lookup, purge, live; cbn [d_map].
  rewrite (aget_filter (fun e => negb (expired now e)) (d_map d) k Hnd).
  destruct (aget (d_map d) k) as [e|]; [|reflexivity].
  destruct (expired now e) eqn:E; simpl; [|reflexivity].
  rewrite (expired_mono now now' e Hle E). reflexivity.
Qed.

Lemma live_purge now d : live now (purge now d) = live now d.
Proof.
  unfold purge; unfold live; cbn [d_map]. induction (d_map d) as [|[k e] m IH]; simpl; [reflexivity|].
  destruct (expired now e) eqn:E; simpl; [exact IH|]. rewrite E. simpl. rewrite IH. reflexivity.
Qed.

Lemma keys_live_purge now d : keys_live now (purge now d) = keys_live now d.
Proof. unfold keys_live. rewrite live_purge. reflexivity. Qed.

(* purge removes exactly the expired entries *)
Lemma purge_spec now d k e :
  In (k, e) (d_map (purge now d)) <-> In (k, e) (d_map d) /\ expired now e = false.
Proof.
  unfold purge, live; cbn [d_map]. rewrite filter_In. cbn [snd]. rewrite negb_true_iff. tauto.
Qed.

(* ------------------------------------------------------------------ *)
(* observational equivalence from [now] on *)
Definition leq (now : Z) (d1 d2 : db) : Prop :=
  forall k now', now <= now' -> lookup now' d1 k = lookup now' d2 k.
Definition deq (now : Z) (d1 d2 : db) : Prop := d_next d1 = d_next d2 /\ leq now d1 d2.

Lemma deq_leq now d1 d2 : deq now d1 d2 -> leq now d1 d2.
Proof. intros [_ H]. exact H. Qed.
Lemma deq_lookup now d1 d2 : deq now d1 d2 -> forall k, lookup now d1 k = lookup now d2 k.
Proof. intros [_ H] k. apply H. lia. Qed.
Lemma deq_purge now d : NoDup (map fst (d_map d)) -> deq now d (purge now d).
Proof. intro H. split; [reflexivity|]. intros k now' Hle. symmetry. apply lookup_purge; assumption. Qed.

Lemma deq_put now d1 d2 k v x : deq now d1 d2 -> deq now (put d1 k v x) (put d2 k v x).
Proof.
  intros [Hn Hl]. split; [unfold put; cbn [d_next]; congruence|].
  intros k' now' Hle. destruct (bytes_eq_dec k' k) as [->|Hne].
  - rewrite !lookup_put_same. rewrite Hn. reflexivity.
  - rewrite !lookup_put_other by exact Hne. apply Hl. exact Hle.
Qed.
Lemma deq_del now d1 d2 k : deq now d1 d2 -> deq now (del d1 k) (del d2 k).
Proof.
  intros [Hn Hl]. split; [unfold del; cbn [d_next]; congruence|].
  intros k' now' Hle. destruct (bytes_eq_dec k' k) as [->|Hne].
  - rewrite !lookup_del_same. reflexivity.
  - rewrite !lookup_del_other by exact Hne. apply Hl. exact Hle.
Qed.
Lemma deq_put_or_del now d1 d2 k v x : deq now d1 d2 -> deq now (put_or_del d1 k v x) (put_or_del d2 k v x).
Proof. intro H. unfold put_or_del. destruct (is_empty_agg v); [apply deq_del|apply deq_put]; exact H. Qed.
Lemma deq_set_exp now d1 d2 k e x : deq now d1 d2 -> deq now (set_exp d1 k e x) (set_exp d2 k e x).
Proof. apply deq_put. Qed.
Lemma deq_put_list now d1 d2 k l x : deq now d1 d2 -> deq now (put_list d1 k l x) (put_list d2 k l x).
Proof. apply deq_put_or_del. Qed.
Lemma deq_put_hash now d1 d2 k l x : deq now d1 d2 -> deq now (put_hash d1 k l x) (put_hash d2 k l x).
Proof. apply deq_put_or_del. Qed.
Lemma deq_put_set now d1 d2 k l x : deq now d1 d2 -> deq now (put_set d1 k l x) (put_set d2 k l x).
Proof. apply deq_put_or_del. Qed.

(* the raw test in store_str_or_del / cmd_setop_store: a stored but expired destination
   is deleted (version counter moves), a missing one is not; observably the same *)
Lemma leq_del_l now d1 d2 k : deq now d1 d2 -> aget (d_map d2) k = None -> leq now (del d1 k) d2.
Proof.
  intros [_ Hl] Hg k' now' Hle. destruct (bytes_eq_dec k' k) as [->|Hne].
  - rewrite lookup_del_same. unfold lookup. rewrite Hg. reflexivity.
  - rewrite lookup_del_other by exact Hne. apply Hl. exact Hle.
Qed.
Lemma leq_del_r now d1 d2 k : deq now d1 d2 -> aget (d_map d1) k = None -> leq now d1 (del d2 k).
Proof.
  intros [_ Hl] Hg k' now' Hle. destruct (bytes_eq_dec k' k) as [->|Hne].
  - rewrite lookup_del_same. unfold lookup. rewrite Hg. reflexivity.
  - rewrite lookup_del_other by exact Hne. apply Hl. exact Hle.
Qed.
#[export] Hint Resolve deq_put deq_del deq_put_or_del deq_set_exp deq_put_list deq_put_hash deq_put_set : deqdb.
#[export] Hint Resolve deq_leq leq_del_l leq_del_r | 5 : deqdb.

(* recursive readers *)
Lemma cg_set_operands now d1 d2 ks : deq now d1 d2 -> set_operands now d1 ks = set_operands now d2 ks.
Proof. intro H. induction ks as [|k ks IH]; simpl; [reflexivity|]. unfold get_set. rewrite (deq_lookup _ _ _ H), IH. reflexivity. Qed.
Lemma cg_set_operands_um now d1 d2 ks :
  deq now d1 d2 -> set_operands_until_missing now d1 ks = set_operands_until_missing now d2 ks.
Proof. intro H. induction ks as [|k ks IH]; simpl; [reflexivity|]. unfold get_set. rewrite (deq_lookup _ _ _ H), IH. reflexivity. Qed.
Lemma cg_setop_operands o now d1 d2 ks : deq now d1 d2 -> setop_operands o now d1 ks = setop_operands o now d2 ks.
Proof.
  intro H. unfold setop_operands. rewrite (cg_set_operands _ _ _ ks H), (cg_set_operands_um _ _ _ ks H).
  destruct o; try reflexivity. destruct ks; [reflexivity|]. unfold get_set. rewrite (deq_lookup _ _ _ H). reflexivity.
Qed.
Lemma cg_str_operands now d1 d2 ks : deq now d1 d2 -> str_operands now d1 ks = str_operands now d2 ks.
Proof. intro H. induction ks as [|k ks IH]; simpl; [reflexivity|]. unfold str_key. rewrite (deq_lookup _ _ _ H), IH. reflexivity. Qed.

Lemma cg_mget now d1 d2 (l : list bytes) : deq now d1 d2 ->
  map (fun k => match lookup now d1 k with
                | Some e => match str_of e with Some b => RBulk b | None => RNil end
                | None => RNil end) l =
  map (fun k => match lookup now d2 k with
                | Some e => match str_of e with Some b => RBulk b | None => RNil end
                | None => RNil end) l.
Proof. intro H. apply map_ext. intro k. rewrite (deq_lookup _ _ _ H). reflexivity. Qed.

Lemma cg_exists now d1 d2 (l : list bytes) : deq now d1 d2 ->
  filter (fun k => match lookup now d1 k with Some _ => true | None => false end) l =
  filter (fun k => match lookup now d2 k with Some _ => true | None => false end) l.
Proof.
  intro H. induction l as [|k l IH]; simpl; [reflexivity|].
  rewrite (deq_lookup _ _ _ H), IH. reflexivity.
Qed.

Lemma cg_msetnx_test now d1 d2 (ps : list (bytes * bytes)) : deq now d1 d2 ->
  existsb (fun kv => match lookup now d1 (fst kv) with Some _ => true | None => false end) ps =
  existsb (fun kv => match lookup now d2 (fst kv) with Some _ => true | None => false end) ps.
Proof.
  intro H. induction ps as [|p ps IH]; simpl; [reflexivity|].
  rewrite (deq_lookup _ _ _ H), IH. reflexivity.
Qed.

Lemma deq_fold_put now ps : forall d1 d2, deq now d1 d2 ->
  deq now (fold_left (fun d kv => put d (fst kv) (VStr (snd kv)) None) ps d1)
          (fold_left (fun d kv => put d (fst kv) (VStr (snd kv)) None) ps d2).
Proof. induction ps as [|p ps IH]; simpl; intros d1 d2 H; [exact H|]. apply IH. apply deq_put. exact H. Qed.
#[export] Hint Resolve deq_fold_put : deqdb.

Definition del_step (now : Z) (acc : db * resp) (k : bytes) : db * resp :=
  let '(d, r) := acc in
  match r with
  | RInt n => match lookup now d k with
              | Some _ => (del d k, RInt (n + 1))
              | None => (d, RInt n)
              end
  | _ => acc
  end.

Lemma cg_del_fold now l : forall d1 d2 r, deq now d1 d2 ->
  snd (fold_left (del_step now) l (d1, r)) = snd (fold_left (del_step now) l (d2, r)) /\
  deq now (fst (fold_left (del_step now) l (d1, r))) (fst (fold_left (del_step now) l (d2, r))).
Proof.
  induction l as [|k l IH]; simpl; intros d1 d2 r H; [split; [reflexivity|exact H]|].
  destruct r; try (apply IH; exact H).
  rewrite (deq_lookup _ _ _ H). destruct (lookup now d2 k); apply IH; auto with deqdb.
Qed.

Lemma cg_lmpop_keys now lft c ks : forall d1 d2, deq now d1 d2 ->
  snd (lmpop_keys now d1 ks lft c) = snd (lmpop_keys now d2 ks lft c) /\
  deq now (fst (lmpop_keys now d1 ks lft c)) (fst (lmpop_keys now d2 ks lft c)).
Proof.
  induction ks as [|k ks IH]; simpl; intros d1 d2 H; [split; [reflexivity|exact H]|].
  unfold get_list. rewrite (deq_lookup _ _ _ H).
  destruct (lookup now d2 k) as [e|]; [|apply IH; exact H].
  destruct (list_of e); [|split; [reflexivity|exact H]].
  destruct lft; cbn [fst snd]; (split; [reflexivity|auto with deqdb]).
Qed.

(* ------------------------------------------------------------------ *)
(* C07.1  the reply of a command depends only on the visible entries, and commands map
   observationally equal databases to observationally equal databases *)
Ltac rw H HL :=
  rewrite ?(deq_lookup _ _ _ H), ?(cg_setop_operands _ _ _ _ _ H), ?(cg_set_operands_um _ _ _ _ H),
          ?(cg_str_operands _ _ _ _ H), ?(cg_mget _ _ _ _ H), ?(cg_exists _ _ _ _ H),
          ?(cg_msetnx_test _ _ _ _ H), ?HL.
Definition rel_s (now : Z) (x y : db * resp) : Prop := snd x = snd y /\ deq now (fst x) (fst y).
Definition rel_w (now : Z) (x y : db * resp) : Prop := snd x = snd y /\ leq now (fst x) (fst y).
Ltac cgo :=
  intros H HL; unf; cbv beta zeta; rw H HL; repeat (bm; cbv beta iota zeta; rw H HL);
  (split; cbn [fst snd]; [reflexivity | eauto with deqdb]).

Lemma c_set  now d1 d2 a : deq now d1 d2 -> live now d1 = live now d2 -> rel_s now (cmd_set now d1 a) (cmd_set now d2 a).
Proof. cgo. Qed.
Lemma c_setnx  now d1 d2 a : deq now d1 d2 -> live now d1 = live now d2 -> rel_s now (cmd_setnx now d1 a) (cmd_setnx now d2 a).
Proof. cgo. Qed.
Lemma c_setex u now d1 d2 a : deq now d1 d2 -> live now d1 = live now d2 -> rel_s now (cmd_setex u now d1 a) (cmd_setex u now d2 a).
Proof. cgo. Qed.
Lemma c_get  now d1 d2 a : deq now d1 d2 -> live now d1 = live now d2 -> rel_s now (cmd_get now d1 a) (cmd_get now d2 a).
Proof. cgo. Qed.
Lemma c_getset  now d1 d2 a : deq now d1 d2 -> live now d1 = live now d2 -> rel_s now (cmd_getset now d1 a) (cmd_getset now d2 a).
Proof. cgo. Qed.
Lemma c_getdel  now d1 d2 a : deq now d1 d2 -> live now d1 = live now d2 -> rel_s now (cmd_getdel now d1 a) (cmd_getdel now d2 a).
Proof. cgo. Qed.
Lemma c_getex  now d1 d2 a : deq now d1 d2 -> live now d1 = live now d2 -> rel_s now (cmd_getex now d1 a) (cmd_getex now d2 a).
Proof. cgo. Qed.
Lemma c_append  now d1 d2 a : deq now d1 d2 -> live now d1 = live now d2 -> rel_s now (cmd_append now d1 a) (cmd_append now d2 a).
Proof. cgo. Qed.
Lemma c_strlen  now d1 d2 a : deq now d1 d2 -> live now d1 = live now d2 -> rel_s now (cmd_strlen now d1 a) (cmd_strlen now d2 a).
Proof. cgo. Qed.
Lemma c_getrange  now d1 d2 a : deq now d1 d2 -> live now d1 = live now d2 -> rel_s now (cmd_getrange now d1 a) (cmd_getrange now d2 a).
Proof. cgo. Qed.
Lemma c_setrange  now d1 d2 a : deq now d1 d2 -> live now d1 = live now d2 -> rel_s now (cmd_setrange now d1 a) (cmd_setrange now d2 a).
Proof. cgo. Qed.
Lemma c_incr dl now d1 d2 a : deq now d1 d2 -> live now d1 = live now d2 -> rel_s now (cmd_incr dl now d1 a) (cmd_incr dl now d2 a).
Proof. cgo. Qed.
Lemma c_incrby sg now d1 d2 a : deq now d1 d2 -> live now d1 = live now d2 -> rel_s now (cmd_incrby sg now d1 a) (cmd_incrby sg now d2 a).
Proof. cgo. Qed.
Lemma c_mget  now d1 d2 a : deq now d1 d2 -> live now d1 = live now d2 -> rel_s now (cmd_mget now d1 a) (cmd_mget now d2 a).
Proof. cgo. Qed.
Lemma c_mset  now d1 d2 a : deq now d1 d2 -> live now d1 = live now d2 -> rel_s now (cmd_mset now d1 a) (cmd_mset now d2 a).
Proof. cgo. Qed.
Lemma c_msetnx  now d1 d2 a : deq now d1 d2 -> live now d1 = live now d2 -> rel_s now (cmd_msetnx now d1 a) (cmd_msetnx now d2 a).
Proof. cgo. Qed.
Lemma c_push lf xo now d1 d2 a : deq now d1 d2 -> live now d1 = live now d2 -> rel_s now (cmd_push lf xo now d1 a) (cmd_push lf xo now d2 a).
Proof. cgo. Qed.
Lemma c_pop lf now d1 d2 a : deq now d1 d2 -> live now d1 = live now d2 -> rel_s now (cmd_pop lf now d1 a) (cmd_pop lf now d2 a).
Proof. cgo. Qed.
Lemma c_llen  now d1 d2 a : deq now d1 d2 -> live now d1 = live now d2 -> rel_s now (cmd_llen now d1 a) (cmd_llen now d2 a).
Proof. cgo. Qed.
Lemma c_lindex  now d1 d2 a : deq now d1 d2 -> live now d1 = live now d2 -> rel_s now (cmd_lindex now d1 a) (cmd_lindex now d2 a).
Proof. cgo. Qed.
Lemma c_lrange  now d1 d2 a : deq now d1 d2 -> live now d1 = live now d2 -> rel_s now (cmd_lrange now d1 a) (cmd_lrange now d2 a).
Proof. cgo. Qed.
Lemma c_lset  now d1 d2 a : deq now d1 d2 -> live now d1 = live now d2 -> rel_s now (cmd_lset now d1 a) (cmd_lset now d2 a).
Proof. cgo. Qed.
Lemma c_linsert  now d1 d2 a : deq now d1 d2 -> live now d1 = live now d2 -> rel_s now (cmd_linsert now d1 a) (cmd_linsert now d2 a).
Proof. cgo. Qed.
Lemma c_lrem  now d1 d2 a : deq now d1 d2 -> live now d1 = live now d2 -> rel_s now (cmd_lrem now d1 a) (cmd_lrem now d2 a).
Proof. cgo. Qed.
Lemma c_ltrim  now d1 d2 a : deq now d1 d2 -> live now d1 = live now d2 -> rel_s now (cmd_ltrim now d1 a) (cmd_ltrim now d2 a).
Proof. cgo. Qed.
Lemma c_lpos  now d1 d2 a : deq now d1 d2 -> live now d1 = live now d2 -> rel_s now (cmd_lpos now d1 a) (cmd_lpos now d2 a).
Proof. cgo. Qed.
Lemma c_lmove  now d1 d2 a : deq now d1 d2 -> live now d1 = live now d2 -> rel_s now (cmd_lmove now d1 a) (cmd_lmove now d2 a).
Proof. cgo. Qed.
Lemma c_rpoplpush  now d1 d2 a : deq now d1 d2 -> live now d1 = live now d2 -> rel_s now (cmd_rpoplpush now d1 a) (cmd_rpoplpush now d2 a).
Proof. cgo. Qed.
Lemma c_hset md now d1 d2 a : deq now d1 d2 -> live now d1 = live now d2 -> rel_s now (cmd_hset md now d1 a) (cmd_hset md now d2 a).
Proof. cgo. Qed.
Lemma c_hget  now d1 d2 a : deq now d1 d2 -> live now d1 = live now d2 -> rel_s now (cmd_hget now d1 a) (cmd_hget now d2 a).
Proof. cgo. Qed.
Lemma c_hmget  now d1 d2 a : deq now d1 d2 -> live now d1 = live now d2 -> rel_s now (cmd_hmget now d1 a) (cmd_hmget now d2 a).
Proof. cgo. Qed.
Lemma c_hgetall  now d1 d2 a : deq now d1 d2 -> live now d1 = live now d2 -> rel_s now (cmd_hgetall now d1 a) (cmd_hgetall now d2 a).
Proof. cgo. Qed.
Lemma c_hkeys vl now d1 d2 a : deq now d1 d2 -> live now d1 = live now d2 -> rel_s now (cmd_hkeys vl now d1 a) (cmd_hkeys vl now d2 a).
Proof. cgo. Qed.
Lemma c_hlen  now d1 d2 a : deq now d1 d2 -> live now d1 = live now d2 -> rel_s now (cmd_hlen now d1 a) (cmd_hlen now d2 a).
Proof. cgo. Qed.
Lemma c_hexists sl now d1 d2 a : deq now d1 d2 -> live now d1 = live now d2 -> rel_s now (cmd_hexists sl now d1 a) (cmd_hexists sl now d2 a).
Proof. cgo. Qed.
Lemma c_hdel  now d1 d2 a : deq now d1 d2 -> live now d1 = live now d2 -> rel_s now (cmd_hdel now d1 a) (cmd_hdel now d2 a).
Proof. cgo. Qed.
Lemma c_hincrby  now d1 d2 a : deq now d1 d2 -> live now d1 = live now d2 -> rel_s now (cmd_hincrby now d1 a) (cmd_hincrby now d2 a).
Proof. cgo. Qed.
Lemma c_hrandfield  now d1 d2 a : deq now d1 d2 -> live now d1 = live now d2 -> rel_s now (cmd_hrandfield now d1 a) (cmd_hrandfield now d2 a).
Proof. cgo. Qed.
Lemma c_hscan  now d1 d2 a : deq now d1 d2 -> live now d1 = live now d2 -> rel_s now (cmd_hscan now d1 a) (cmd_hscan now d2 a).
Proof. cgo. Qed.
Lemma c_sadd  now d1 d2 a : deq now d1 d2 -> live now d1 = live now d2 -> rel_s now (cmd_sadd now d1 a) (cmd_sadd now d2 a).
Proof. cgo. Qed.
Lemma c_srem  now d1 d2 a : deq now d1 d2 -> live now d1 = live now d2 -> rel_s now (cmd_srem now d1 a) (cmd_srem now d2 a).
Proof. cgo. Qed.
Lemma c_scard  now d1 d2 a : deq now d1 d2 -> live now d1 = live now d2 -> rel_s now (cmd_scard now d1 a) (cmd_scard now d2 a).
Proof. cgo. Qed.
Lemma c_sismember  now d1 d2 a : deq now d1 d2 -> live now d1 = live now d2 -> rel_s now (cmd_sismember now d1 a) (cmd_sismember now d2 a).
Proof. cgo. Qed.
Lemma c_smismember  now d1 d2 a : deq now d1 d2 -> live now d1 = live now d2 -> rel_s now (cmd_smismember now d1 a) (cmd_smismember now d2 a).
Proof. cgo. Qed.
Lemma c_smembers  now d1 d2 a : deq now d1 d2 -> live now d1 = live now d2 -> rel_s now (cmd_smembers now d1 a) (cmd_smembers now d2 a).
Proof. cgo. Qed.
Lemma c_smove  now d1 d2 a : deq now d1 d2 -> live now d1 = live now d2 -> rel_s now (cmd_smove now d1 a) (cmd_smove now d2 a).
Proof. cgo. Qed.
Lemma c_srandmember  now d1 d2 a : deq now d1 d2 -> live now d1 = live now d2 -> rel_s now (cmd_srandmember now d1 a) (cmd_srandmember now d2 a).
Proof. cgo. Qed.
Lemma c_sscan  now d1 d2 a : deq now d1 d2 -> live now d1 = live now d2 -> rel_s now (cmd_sscan now d1 a) (cmd_sscan now d2 a).
Proof. cgo. Qed.
Lemma c_setop o now d1 d2 a : deq now d1 d2 -> live now d1 = live now d2 -> rel_s now (cmd_setop o now d1 a) (cmd_setop o now d2 a).
Proof. cgo. Qed.
Lemma c_sintercard  now d1 d2 a : deq now d1 d2 -> live now d1 = live now d2 -> rel_s now (cmd_sintercard now d1 a) (cmd_sintercard now d2 a).
Proof. cgo. Qed.
Lemma c_exists  now d1 d2 a : deq now d1 d2 -> live now d1 = live now d2 -> rel_s now (cmd_exists now d1 a) (cmd_exists now d2 a).
Proof. cgo. Qed.
Lemma c_touch  now d1 d2 a : deq now d1 d2 -> live now d1 = live now d2 -> rel_s now (cmd_touch now d1 a) (cmd_touch now d2 a).
Proof. cgo. Qed.
Lemma c_type  now d1 d2 a : deq now d1 d2 -> live now d1 = live now d2 -> rel_s now (cmd_type now d1 a) (cmd_type now d2 a).
Proof. cgo. Qed.
Lemma c_rename nx now d1 d2 a : deq now d1 d2 -> live now d1 = live now d2 -> rel_s now (cmd_rename nx now d1 a) (cmd_rename nx now d2 a).
Proof. cgo. Qed.
Lemma c_copy  now d1 d2 a : deq now d1 d2 -> live now d1 = live now d2 -> rel_s now (cmd_copy now d1 a) (cmd_copy now d2 a).
Proof. cgo. Qed.
Lemma c_keys  now d1 d2 a : deq now d1 d2 -> live now d1 = live now d2 -> rel_s now (cmd_keys now d1 a) (cmd_keys now d2 a).
Proof. cgo. Qed.
Lemma c_randomkey  now d1 d2 a : deq now d1 d2 -> live now d1 = live now d2 -> rel_s now (cmd_randomkey now d1 a) (cmd_randomkey now d2 a).
Proof. cgo. Qed.
Lemma c_dbsize  now d1 d2 a : deq now d1 d2 -> live now d1 = live now d2 -> rel_s now (cmd_dbsize now d1 a) (cmd_dbsize now d2 a).
Proof. cgo. Qed.
Lemma c_scan  now d1 d2 a : deq now d1 d2 -> live now d1 = live now d2 -> rel_s now (cmd_scan now d1 a) (cmd_scan now d2 a).
Proof. cgo. Qed.
Lemma c_expire u rl now d1 d2 a : deq now d1 d2 -> live now d1 = live now d2 -> rel_s now (cmd_expire u rl now d1 a) (cmd_expire u rl now d2 a).
Proof. cgo. Qed.
Lemma c_ttl u rl now d1 d2 a : deq now d1 d2 -> live now d1 = live now d2 -> rel_s now (cmd_ttl u rl now d1 a) (cmd_ttl u rl now d2 a).
Proof. cgo. Qed.
Lemma c_persist  now d1 d2 a : deq now d1 d2 -> live now d1 = live now d2 -> rel_s now (cmd_persist now d1 a) (cmd_persist now d2 a).
Proof. cgo. Qed.
Lemma c_setbit  now d1 d2 a : deq now d1 d2 -> live now d1 = live now d2 -> rel_s now (cmd_setbit now d1 a) (cmd_setbit now d2 a).
Proof. cgo. Qed.
Lemma c_getbit  now d1 d2 a : deq now d1 d2 -> live now d1 = live now d2 -> rel_s now (cmd_getbit now d1 a) (cmd_getbit now d2 a).
Proof. cgo. Qed.
Lemma c_bitcount  now d1 d2 a : deq now d1 d2 -> live now d1 = live now d2 -> rel_s now (cmd_bitcount now d1 a) (cmd_bitcount now d2 a).
Proof. cgo. Qed.
Lemma c_bitpos  now d1 d2 a : deq now d1 d2 -> live now d1 = live now d2 -> rel_s now (cmd_bitpos now d1 a) (cmd_bitpos now d2 a).
Proof. cgo. Qed.
Lemma c_bitfield ro now d1 d2 a : deq now d1 d2 -> live now d1 = live now d2 -> rel_s now (cmd_bitfield ro now d1 a) (cmd_bitfield ro now d2 a).
Proof. cgo. Qed.
Lemma c_setop_store o now d1 d2 a : deq now d1 d2 -> live now d1 = live now d2 -> rel_w now (cmd_setop_store o now d1 a) (cmd_setop_store o now d2 a).
Proof. cgo. Qed.
Lemma c_bitop  now d1 d2 a : deq now d1 d2 -> live now d1 = live now d2 -> rel_w now (cmd_bitop now d1 a) (cmd_bitop now d2 a).
Proof. cgo. Qed.
Lemma c_del now d1 d2 a : deq now d1 d2 -> live now d1 = live now d2 -> rel_s now (cmd_del now d1 a) (cmd_del now d2 a).
Proof.
  intros H _. unfold cmd_del. destruct a as [|k l]; [split; [reflexivity|exact H]|].
  exact (cg_del_fold now (k :: l) d1 d2 (RInt 0) H).
Qed.
Lemma c_lmpop now d1 d2 a : deq now d1 d2 -> live now d1 = live now d2 -> rel_s now (cmd_lmpop now d1 a) (cmd_lmpop now d2 a).
Proof.
  intros H _. unfold cmd_lmpop. bms.
  all: try (split; cbn [fst snd]; [reflexivity | exact H]).
  all: apply cg_lmpop_keys; exact H.
Qed.

(* LCS, SORT, INCRBYFLOAT, HINCRBYFLOAT: they read the database through [lookup now d] only *)
Lemma c_lcs now d1 d2 a : deq now d1 d2 -> live now d1 = live now d2 -> rel_s now (cmd_lcs now d1 a) (cmd_lcs now d2 a).
Proof. cgo. Qed.
Lemma c_incrbyfloat now d1 d2 a : deq now d1 d2 -> live now d1 = live now d2 -> rel_s now (cmd_incrbyfloat now d1 a) (cmd_incrbyfloat now d2 a).
Proof. cgo. Qed.
Lemma c_hincrbyfloat now d1 d2 a : deq now d1 d2 -> live now d1 = live now d2 -> rel_s now (cmd_hincrbyfloat now d1 a) (cmd_hincrbyfloat now d2 a).
Proof. cgo. Qed.

Lemma cg_pattern_get now d1 d2 p x : deq now d1 d2 -> pattern_get now d1 p x = pattern_get now d2 p x.
Proof.
  intro H. unfold pattern_get. destruct (bytes_eqb p [35%N]); [reflexivity|].
  destruct (split_star p) as [[pre post]|]; [|reflexivity].
  destruct (split_arrow post) as [[post' fld]|]; rewrite (deq_lookup _ _ _ H); reflexivity.
Qed.
Lemma cg_keyed now d1 d2 by_ alpha l : deq now d1 d2 -> keyed now d1 by_ alpha l = keyed now d2 by_ alpha l.
Proof.
  intro H. induction l as [|x r IH]; cbn [keyed]; [reflexivity|]. rewrite IH.
  destruct by_ as [p|]; [rewrite (cg_pattern_get _ _ _ p x H)|]; reflexivity.
Qed.
Lemma cg_out_elems now d1 d2 gets l : deq now d1 d2 -> out_elems now d1 gets l = out_elems now d2 gets l.
Proof.
  intro H. unfold out_elems. destruct gets as [|g gs]; [reflexivity|].
  induction l as [|x r IH]; cbn [flat_map]; [reflexivity|]. rewrite IH. f_equal.
  apply map_ext. intro p. apply cg_pattern_get. exact H.
Qed.
Lemma cg_sort_source now d1 d2 k : deq now d1 d2 -> sort_source now d1 k = sort_source now d2 k.
Proof. intro H. unfold sort_source. rewrite (deq_lookup _ _ _ H). reflexivity. Qed.

(* innermost scrutinee of the head match of a term *)
Ltac hs7 t :=
  lazymatch t with
  | fst ?x => hs7 x
  | snd ?x => hs7 x
  | match ?x with _ => _ end => hs7 x
  | _ => t
  end.
(* one step along the head match of the left result; the readers are first moved to d2 *)
Ltac sort_cg_step H :=
  rewrite ?(cg_keyed _ _ _ _ _ _ H), ?(cg_out_elems _ _ _ _ _ H);
  lazymatch goal with
  | |- rel_s _ (match _ with _ => _ end) _ =>
    match goal with |- rel_s _ ?T _ => let x := hs7 T in destruct x end
  | |- rel_s _ (_, _) (_, _) => split; cbn [fst snd]; [reflexivity | auto with deqdb]
  end.
Lemma c_sort now d1 d2 a : deq now d1 d2 -> live now d1 = live now d2 -> rel_s now (cmd_sort now d1 a) (cmd_sort now d2 a).
Proof.
  intros H _. unfold cmd_sort. destruct a as [|k opts]; [split; [reflexivity|exact H]|].
  destruct (scan_sort opts st0) as [o| |]; try (split; [reflexivity|exact H]).
  cbv zeta. rewrite (cg_sort_source _ _ _ k H).
  repeat sort_cg_step H.
Qed.

Definition cg_strong (f : Z -> db -> list bytes -> res) : Prop :=
  forall now d1 d2 a, deq now d1 d2 -> live now d1 = live now d2 -> rel_s now (f now d1 a) (f now d2 a).
Definition cg_weak (f : Z -> db -> list bytes -> res) : Prop :=
  forall now d1 d2 a, deq now d1 d2 -> live now d1 = live now d2 -> rel_w now (f now d1 a) (f now d2 a).
Lemma cg_weaken f : cg_strong f -> cg_weak f.
Proof. intros H now d1 d2 a H1 H2. destruct (H now d1 d2 a H1 H2) as [Ha Hb]. split; [exact Ha|]. apply deq_leq. exact Hb. Qed.

Lemma cong_table : Forall (fun sf => cg_weak (snd sf)) table.
Proof.
  unfold table.
  apply Forall_cons; [apply cg_weaken; exact c_set|].
  apply Forall_cons; [apply cg_weaken; exact c_setnx|].
  apply Forall_cons; [apply cg_weaken; exact (c_setex sec)|].
  apply Forall_cons; [apply cg_weaken; exact (c_setex msec)|].
  apply Forall_cons; [apply cg_weaken; exact c_get|].
  apply Forall_cons; [apply cg_weaken; exact c_getset|].
  apply Forall_cons; [apply cg_weaken; exact c_getdel|].
  apply Forall_cons; [apply cg_weaken; exact c_getex|].
  apply Forall_cons; [apply cg_weaken; exact c_append|].
  apply Forall_cons; [apply cg_weaken; exact c_strlen|].
  apply Forall_cons; [apply cg_weaken; exact c_getrange|].
  apply Forall_cons; [apply cg_weaken; exact c_getrange|].
  apply Forall_cons; [apply cg_weaken; exact c_setrange|].
  apply Forall_cons; [apply cg_weaken; exact (c_incr 1)|].
  apply Forall_cons; [apply cg_weaken; exact (c_incr (-1))|].
  apply Forall_cons; [apply cg_weaken; exact (c_incrby 1)|].
  apply Forall_cons; [apply cg_weaken; exact (c_incrby (-1))|].
  apply Forall_cons; [apply cg_weaken; exact c_mget|].
  apply Forall_cons; [apply cg_weaken; exact c_mset|].
  apply Forall_cons; [apply cg_weaken; exact c_msetnx|].
  apply Forall_cons; [apply cg_weaken; exact (c_push true false)|].
  apply Forall_cons; [apply cg_weaken; exact (c_push false false)|].
  apply Forall_cons; [apply cg_weaken; exact (c_push true true)|].
  apply Forall_cons; [apply cg_weaken; exact (c_push false true)|].
  apply Forall_cons; [apply cg_weaken; exact (c_pop true)|].
  apply Forall_cons; [apply cg_weaken; exact (c_pop false)|].
  apply Forall_cons; [apply cg_weaken; exact c_llen|].
  apply Forall_cons; [apply cg_weaken; exact c_lindex|].
  apply Forall_cons; [apply cg_weaken; exact c_lrange|].
  apply Forall_cons; [apply cg_weaken; exact c_lset|].
  apply Forall_cons; [apply cg_weaken; exact c_linsert|].
  apply Forall_cons; [apply cg_weaken; exact c_lrem|].
  apply Forall_cons; [apply cg_weaken; exact c_ltrim|].
  apply Forall_cons; [apply cg_weaken; exact c_lpos|].
  apply Forall_cons; [apply cg_weaken; exact c_lmove|].
  apply Forall_cons; [apply cg_weaken; exact c_rpoplpush|].
  apply Forall_cons; [apply cg_weaken; exact c_lmpop|].
  apply Forall_cons; [apply cg_weaken; exact (c_hset 0%N)|].
  apply Forall_cons; [apply cg_weaken; exact (c_hset 1%N)|].
  apply Forall_cons; [apply cg_weaken; exact (c_hset 2%N)|].
  apply Forall_cons; [apply cg_weaken; exact c_hget|].
  apply Forall_cons; [apply cg_weaken; exact c_hmget|].
  apply Forall_cons; [apply cg_weaken; exact c_hgetall|].
  apply Forall_cons; [apply cg_weaken; exact (c_hkeys false)|].
  apply Forall_cons; [apply cg_weaken; exact (c_hkeys true)|].
  apply Forall_cons; [apply cg_weaken; exact c_hlen|].
  apply Forall_cons; [apply cg_weaken; exact (c_hexists false)|].
  apply Forall_cons; [apply cg_weaken; exact (c_hexists true)|].
  apply Forall_cons; [apply cg_weaken; exact c_hdel|].
  apply Forall_cons; [apply cg_weaken; exact c_hincrby|].
  apply Forall_cons; [apply cg_weaken; exact c_hrandfield|].
  apply Forall_cons; [apply cg_weaken; exact c_hscan|].
  apply Forall_cons; [apply cg_weaken; exact c_sadd|].
  apply Forall_cons; [apply cg_weaken; exact c_srem|].
  apply Forall_cons; [apply cg_weaken; exact c_scard|].
  apply Forall_cons; [apply cg_weaken; exact c_sismember|].
  apply Forall_cons; [apply cg_weaken; exact c_smismember|].
  apply Forall_cons; [apply cg_weaken; exact c_smembers|].
  apply Forall_cons; [apply cg_weaken; exact c_smove|].
  apply Forall_cons; [apply cg_weaken; exact c_srandmember|].
  apply Forall_cons; [apply cg_weaken; exact c_sscan|].
  apply Forall_cons; [apply cg_weaken; exact (c_setop OpInter)|].
  apply Forall_cons; [apply cg_weaken; exact (c_setop OpUnion)|].
  apply Forall_cons; [apply cg_weaken; exact (c_setop OpDiff)|].
  apply Forall_cons; [exact (c_setop_store OpInter)|].
  apply Forall_cons; [exact (c_setop_store OpUnion)|].
  apply Forall_cons; [exact (c_setop_store OpDiff)|].
  apply Forall_cons; [apply cg_weaken; exact c_sintercard|].
  apply Forall_cons; [apply cg_weaken; exact c_del|].
  apply Forall_cons; [apply cg_weaken; exact c_del|].
  apply Forall_cons; [apply cg_weaken; exact c_exists|].
  apply Forall_cons; [apply cg_weaken; exact c_touch|].
  apply Forall_cons; [apply cg_weaken; exact c_type|].
  apply Forall_cons; [apply cg_weaken; exact (c_rename false)|].
  apply Forall_cons; [apply cg_weaken; exact (c_rename true)|].
  apply Forall_cons; [apply cg_weaken; exact c_copy|].
  apply Forall_cons; [apply cg_weaken; exact c_keys|].
  apply Forall_cons; [apply cg_weaken; exact c_randomkey|].
  apply Forall_cons; [apply cg_weaken; exact c_dbsize|].
  apply Forall_cons; [apply cg_weaken; exact c_scan|].
  apply Forall_cons; [apply cg_weaken; exact (c_expire sec true)|].
  apply Forall_cons; [apply cg_weaken; exact (c_expire msec true)|].
  apply Forall_cons; [apply cg_weaken; exact (c_expire sec false)|].
  apply Forall_cons; [apply cg_weaken; exact (c_expire msec false)|].
  apply Forall_cons; [apply cg_weaken; exact (c_ttl sec true)|].
  apply Forall_cons; [apply cg_weaken; exact (c_ttl msec true)|].
  apply Forall_cons; [apply cg_weaken; exact (c_ttl sec false)|].
  apply Forall_cons; [apply cg_weaken; exact (c_ttl msec false)|].
  apply Forall_cons; [apply cg_weaken; exact c_persist|].
  apply Forall_cons; [apply cg_weaken; exact c_setbit|].
  apply Forall_cons; [apply cg_weaken; exact c_getbit|].
  apply Forall_cons; [apply cg_weaken; exact c_bitcount|].
  apply Forall_cons; [apply cg_weaken; exact c_bitpos|].
  apply Forall_cons; [exact c_bitop|].
  apply Forall_cons; [apply cg_weaken; exact (c_bitfield false)|].
  apply Forall_cons; [apply cg_weaken; exact (c_bitfield true)|].
  apply Forall_cons; [apply cg_weaken; exact c_lcs|].
  apply Forall_cons; [apply cg_weaken; exact c_sort|].
  apply Forall_cons; [apply cg_weaken; exact c_incrbyfloat|].
  apply Forall_cons; [apply cg_weaken; exact c_hincrbyfloat|].
  apply Forall_nil.
Qed.

(* Observational congruence: two databases that agree on every lookup from [now] on (and on
   the version counter and the order of the live keys) give the same reply to every command
   of the table and stay in agreement. *)
Theorem C07_observational_congruence name f now d1 d2 args :
  data_cmd name = Some f ->
  d_next d1 = d_next d2 ->
  (forall k now', now <= now' -> lookup now' d1 k = lookup now' d2 k) ->
  live now d1 = live now d2 ->
  snd (f now d1 args) = snd (f now d2 args) /\
  forall k now', now <= now' -> lookup now' (fst (f now d1 args)) k = lookup now' (fst (f now d2 args)) k.
Proof.
  intros Hf Hn Hl HL.
  exact (table_forall cg_weak cong_table _ _ Hf now d1 d2 args (conj Hn Hl) HL).
Qed.
Print Assumptions C07_observational_congruence.

(* C07.1: physically dropping the expired entries before a command changes neither its reply
   nor anything observable afterwards: expired data is never returned, counted, matched,
   moved, copied, and never blocks a write. *)
Theorem C07_expired_is_missing name f now d args :
  data_cmd name = Some f ->
  NoDup (map fst (d_map d)) ->
  snd (f now d args) = snd (f now (purge now d) args) /\
  forall k now', now <= now' ->
    lookup now' (fst (f now d args)) k = lookup now' (fst (f now (purge now d) args)) k.
Proof.
  intros Hf Hnd. destruct (deq_purge now d Hnd) as [Hn Hl].
  apply (C07_observational_congruence name f now d (purge now d) args Hf Hn Hl).
  symmetry. apply live_purge.
Qed.
Print Assumptions C07_expired_is_missing.

(* for all commands but the STORE forms and BITOP the version counters agree as well *)
Definition store_names : list string := ["sinterstore"; "sunionstore"; "sdiffstore"; "bitop"].

Example C07_expired_is_missing_ex :
  let d := fst (cmd_setex msec 0 (fst (cmd_sadd 0 empty_db [s2b "s"; s2b "a"])) [s2b "k"; s2b "5"; s2b "v"]) in
  let now := 5 * msec + 1 in
  d_map (purge now d) = [(s2b "s", mkE (VSet [s2b "a"]) None 1)] /\
  snd (cmd_rename false now d [s2b "k"; s2b "s"]) = err "ERR no such key" /\
  snd (cmd_sadd now d [s2b "k"; s2b "x"]) = RInt 1 /\
  snd (cmd_keys now d [s2b "*"]) = RArrU [RBulk (s2b "s")] /\
  snd (cmd_keys (now - 1) d [s2b "*"]) = RArrU [RBulk (s2b "s"); RBulk (s2b "k")].
Proof. vm_compute. repeat split; reflexivity. Qed.

(* ------------------------------------------------------------------ *)
(* C07.2  a key is visible up to and including its deadline, invisible afterwards *)
Theorem C07_visible_before now d k e :
  aget (d_map d) k = Some e ->
  match e_exp e with Some t => now <= t | None => True end ->
  lookup now d k = Some e.
Proof.
  intros Hg Ht. unfold lookup, expired. rewrite Hg. destruct (e_exp e) as [t|]; [|reflexivity].
  destruct (t <? now) eqn:E; [apply Z.ltb_lt in E; lia|reflexivity].
Qed.
Print Assumptions C07_visible_before.

Theorem C07_invisible_after now d k e t :
  aget (d_map d) k = Some e -> e_exp e = Some t -> t < now -> lookup now d k = None.
Proof.
  intros Hg He Ht. unfold lookup, expired. rewrite Hg, He.
  destruct (t <? now) eqn:E; [reflexivity|apply Z.ltb_ge in E; lia].
Qed.
Print Assumptions C07_invisible_after.

Lemma expired_iff now e : expired now e = true <-> exists t, e_exp e = Some t /\ t < now.
Proof.
  unfold expired. destruct (e_exp e) as [t|].
  - rewrite Z.ltb_lt. split; [intro H; exists t; auto|intros (t' & E & H); congruence].
  - split; [discriminate|intros (t' & E & _); discriminate].
Qed.

Theorem C07_expired_monotone now now' e : now <= now' -> expired now e = true -> expired now' e = true.
Proof. apply expired_mono. Qed.
Print Assumptions C07_expired_monotone.

(* visibility only shrinks with time; a visible entry is the stored one *)
Lemma lookup_antitone now now' d k e : now <= now' -> lookup now' d k = Some e -> lookup now d k = Some e.
Proof.
  unfold lookup. intros Hle H. destruct (aget (d_map d) k) as [e0|]; [|discriminate].
  destruct (expired now' e0) eqn:E'; [discriminate|]. injection H as <-.
  destruct (expired now e0) eqn:E; [|reflexivity].
  rewrite (expired_mono _ _ _ Hle E) in E'. discriminate.
Qed.

Lemma lookup_some_stored now d k e : lookup now d k = Some e -> aget (d_map d) k = Some e /\ expired now e = false.
Proof.
  unfold lookup. destruct (aget (d_map d) k) as [e0|]; [|discriminate].
  destruct (expired now e0) eqn:E; [discriminate|]. intro H. injection H as <-. auto.
Qed.

Example C07_visible_ex :
  let d := fst (cmd_setex sec 7 empty_db [s2b "k"; s2b "1"; s2b "v"]) in
  lookup (7 + sec) d (s2b "k") = Some (mkE (VStr (s2b "v")) (Some (7 + sec)) 1) /\
  lookup (7 + sec + 1) d (s2b "k") = None.
Proof. vm_compute. split; reflexivity. Qed.

(* ------------------------------------------------------------------ *)
(* C07.3  TTL / PTTL / EXPIRETIME / PEXPIRETIME *)
Theorem C07_ttl unit rel now d k :
  fst (cmd_ttl unit rel now d [k]) = d /\
  snd (cmd_ttl unit rel now d [k]) =
  match aget (d_map d) k with
  | None => RInt (-2)
  | Some e =>
    match e_exp e with
    | None => RInt (-1)
    | Some t => if t <? now then RInt (-2)
                else RApprox (if rel then t / unit - now / unit else t / unit) (unit / msec)
    end
  end.
Proof.
  unfold cmd_ttl, lookup, expired. destruct (aget (d_map d) k) as [e|]; [|split; reflexivity].
  destruct (e_exp e) as [t|] eqn:E; cbv beta iota; [destruct (t <? now)|]; cbv beta iota;
    rewrite ?E; split; reflexivity.
Qed.
Print Assumptions C07_ttl.

(* the remaining time reported for a visible key is never negative *)
Lemma C07_ttl_nonneg unit now t : 0 < unit -> now <= t -> 0 <= t / unit - now / unit.
Proof. intros Hu Hle. pose proof (Z.div_le_mono now t unit Hu Hle). lia. Qed.

Lemma C07_ttl_table :
  data_cmd (s2b "ttl") = Some (cmd_ttl sec true) /\ data_cmd (s2b "pttl") = Some (cmd_ttl msec true) /\
  data_cmd (s2b "expiretime") = Some (cmd_ttl sec false) /\ data_cmd (s2b "pexpiretime") = Some (cmd_ttl msec false).
Proof. repeat split; reflexivity. Qed.

Example C07_ttl_ex :
  let d := fst (cmd_setex sec 0 (fst (cmd_set 0 empty_db [s2b "p"; s2b "v"])) [s2b "k"; s2b "10"; s2b "v"]) in
  snd (cmd_ttl sec true (3 * sec) d [s2b "k"]) = RApprox 7 1000 /\
  snd (cmd_ttl msec true (3 * sec) d [s2b "k"]) = RApprox 7000 1 /\
  snd (cmd_ttl sec false (3 * sec) d [s2b "k"]) = RApprox 10 1000 /\
  snd (cmd_ttl sec true (10 * sec + 1) d [s2b "k"]) = RInt (-2) /\
  snd (cmd_ttl sec true (3 * sec) d [s2b "p"]) = RInt (-1) /\
  snd (cmd_ttl sec true (3 * sec) d [s2b "q"]) = RInt (-2).
Proof. vm_compute. repeat split; reflexivity. Qed.

(* ------------------------------------------------------------------ *)
(* C07.4a  commands that modify in place keep the deadline.
   [kx now d d']: every key visible in both states has the same deadline in both. *)
Definition kx (now : Z) (d d' : db) : Prop :=
  forall k e e', lookup now d k = Some e -> lookup now d' k = Some e' -> e_exp e' = e_exp e.

Lemma kx_refl now d : kx now d d.
Proof. intros k e e' H1 H2. congruence. Qed.
Lemma kx_put now d d' k v x :
  kx now d d' -> (forall e, lookup now d k = Some e -> x = e_exp e) -> kx now d (put d' k v x).
Proof.
  intros Hk Hx k' e e' H1 H2. destruct (bytes_eq_dec k' k) as [->|Hne].
  - rewrite lookup_put_same in H2. cbv zeta in H2.
    destruct (expired now (mkE v x (d_next d' + 1)%N)); [discriminate|].
    injection H2 as <-. cbn [e_exp]. apply Hx. exact H1.
  - rewrite lookup_put_other in H2 by exact Hne. exact (Hk _ _ _ H1 H2).
Qed.
Lemma kx_del now d d' k : kx now d d' -> kx now d (del d' k).
Proof.
  intros Hk k' e e' H1 H2. destruct (bytes_eq_dec k' k) as [->|Hne].
  - rewrite lookup_del_same in H2. discriminate.
  - rewrite lookup_del_other in H2 by exact Hne. exact (Hk _ _ _ H1 H2).
Qed.
Lemma kx_put_or_del now d d' k v x :
  kx now d d' -> (forall e, lookup now d k = Some e -> x = e_exp e) -> kx now d (put_or_del d' k v x).
Proof. intros Hk Hx. unfold put_or_del. destruct (is_empty_agg v); [apply kx_del|apply kx_put]; assumption. Qed.

Ltac kleaf :=
  cbn [fst snd];
  repeat first [ apply kx_refl
               | apply kx_del
               | apply kx_put
               | apply kx_put_or_del
               | unfold put_list, put_hash, put_set ];
  try (intros; congruence).

Ltac kgo := unf; bms; kleaf.

Lemma kx_fold_del now d0 l : forall acc,
  kx now d0 (fst acc) -> kx now d0 (fst (fold_left (del_step now) l acc)).
Proof.
  induction l as [|k l IH]; simpl; intros [d r] H; [exact H|].
  apply IH. unfold del_step. destruct r; try exact H. destruct (lookup now d k); cbn [fst] in *; [apply kx_del|]; exact H.
Qed.

Lemma kx_lmpop_keys now lft c ks : forall d, kx now d (fst (lmpop_keys now d ks lft c)).
Proof.
  induction ks as [|k ks IH]; simpl; intros d; [apply kx_refl|].
  unfold get_list. destruct (lookup now d k) as [e|] eqn:E; [|apply IH].
  destruct (list_of e); [|apply kx_refl].
  destruct lft; kleaf.
Qed.

Lemma kx_fold_put_fresh now d0 ps : forall d,
  (forall kv, In kv ps -> lookup now d0 (fst kv) = None) ->
  kx now d0 d -> kx now d0 (fold_left (fun d kv => put d (fst kv) (VStr (snd kv)) None) ps d).
Proof.
  induction ps as [|p ps IH]; simpl; intros d Hf H; [exact H|].
  apply IH; [intros kv Hin; apply Hf; right; exact Hin|].
  apply kx_put; [exact H|]. intros e He. rewrite (Hf p (or_introl eq_refl)) in He. discriminate.
Qed.

Lemma k_setnx  now d a : kx now d (fst (cmd_setnx now d a)).
Proof. kgo. Qed.
Lemma k_get  now d a : kx now d (fst (cmd_get now d a)).
Proof. kgo. Qed.
Lemma k_getdel  now d a : kx now d (fst (cmd_getdel now d a)).
Proof. kgo. Qed.
Lemma k_append  now d a : kx now d (fst (cmd_append now d a)).
Proof. kgo. Qed.
Lemma k_strlen  now d a : kx now d (fst (cmd_strlen now d a)).
Proof. kgo. Qed.
Lemma k_getrange  now d a : kx now d (fst (cmd_getrange now d a)).
Proof. kgo. Qed.
Lemma k_setrange  now d a : kx now d (fst (cmd_setrange now d a)).
Proof. kgo. Qed.
Lemma k_incr dl now d a : kx now d (fst (cmd_incr dl now d a)).
Proof. kgo. Qed.
Lemma k_incrby sg now d a : kx now d (fst (cmd_incrby sg now d a)).
Proof. kgo. Qed.
Lemma k_mget  now d a : kx now d (fst (cmd_mget now d a)).
Proof. kgo. Qed.
Lemma k_push lf xo now d a : kx now d (fst (cmd_push lf xo now d a)).
Proof. kgo. Qed.
Lemma k_pop lf now d a : kx now d (fst (cmd_pop lf now d a)).
Proof. kgo. Qed.
Lemma k_llen  now d a : kx now d (fst (cmd_llen now d a)).
Proof. kgo. Qed.
Lemma k_lindex  now d a : kx now d (fst (cmd_lindex now d a)).
Proof. kgo. Qed.
Lemma k_lrange  now d a : kx now d (fst (cmd_lrange now d a)).
Proof. kgo. Qed.
Lemma k_lset  now d a : kx now d (fst (cmd_lset now d a)).
Proof. kgo. Qed.
Lemma k_linsert  now d a : kx now d (fst (cmd_linsert now d a)).
Proof. kgo. Qed.
Lemma k_lrem  now d a : kx now d (fst (cmd_lrem now d a)).
Proof. kgo. Qed.
Lemma k_ltrim  now d a : kx now d (fst (cmd_ltrim now d a)).
Proof. kgo. Qed.
Lemma k_lpos  now d a : kx now d (fst (cmd_lpos now d a)).
Proof. kgo. Qed.
Lemma k_lmove  now d a : kx now d (fst (cmd_lmove now d a)).
Proof. kgo. Qed.
Lemma k_rpoplpush  now d a : kx now d (fst (cmd_rpoplpush now d a)).
Proof. kgo. Qed.
Lemma k_hset md now d a : kx now d (fst (cmd_hset md now d a)).
Proof. kgo. Qed.
Lemma k_hget  now d a : kx now d (fst (cmd_hget now d a)).
Proof. kgo. Qed.
Lemma k_hmget  now d a : kx now d (fst (cmd_hmget now d a)).
Proof. kgo. Qed.
Lemma k_hgetall  now d a : kx now d (fst (cmd_hgetall now d a)).
Proof. kgo. Qed.
Lemma k_hkeys vl now d a : kx now d (fst (cmd_hkeys vl now d a)).
Proof. kgo. Qed.
Lemma k_hlen  now d a : kx now d (fst (cmd_hlen now d a)).
Proof. kgo. Qed.
Lemma k_hexists sl now d a : kx now d (fst (cmd_hexists sl now d a)).
Proof. kgo. Qed.
Lemma k_hdel  now d a : kx now d (fst (cmd_hdel now d a)).
Proof. kgo. Qed.
Lemma k_hincrby  now d a : kx now d (fst (cmd_hincrby now d a)).
Proof. kgo. Qed.
Lemma k_hrandfield  now d a : kx now d (fst (cmd_hrandfield now d a)).
Proof. kgo. Qed.
Lemma k_hscan  now d a : kx now d (fst (cmd_hscan now d a)).
Proof. kgo. Qed.
Lemma k_sadd  now d a : kx now d (fst (cmd_sadd now d a)).
Proof. kgo. Qed.
Lemma k_srem  now d a : kx now d (fst (cmd_srem now d a)).
Proof. kgo. Qed.
Lemma k_scard  now d a : kx now d (fst (cmd_scard now d a)).
Proof. kgo. Qed.
Lemma k_sismember  now d a : kx now d (fst (cmd_sismember now d a)).
Proof. kgo. Qed.
Lemma k_smismember  now d a : kx now d (fst (cmd_smismember now d a)).
Proof. kgo. Qed.
Lemma k_smembers  now d a : kx now d (fst (cmd_smembers now d a)).
Proof. kgo. Qed.
Lemma k_smove  now d a : kx now d (fst (cmd_smove now d a)).
Proof. kgo. Qed.
Lemma k_srandmember  now d a : kx now d (fst (cmd_srandmember now d a)).
Proof. kgo. Qed.
Lemma k_sscan  now d a : kx now d (fst (cmd_sscan now d a)).
Proof. kgo. Qed.
Lemma k_setop o now d a : kx now d (fst (cmd_setop o now d a)).
Proof. kgo. Qed.
Lemma k_sintercard  now d a : kx now d (fst (cmd_sintercard now d a)).
Proof. kgo. Qed.
Lemma k_exists  now d a : kx now d (fst (cmd_exists now d a)).
Proof. kgo. Qed.
Lemma k_touch  now d a : kx now d (fst (cmd_touch now d a)).
Proof. kgo. Qed.
Lemma k_type  now d a : kx now d (fst (cmd_type now d a)).
Proof. kgo. Qed.
Lemma k_keys  now d a : kx now d (fst (cmd_keys now d a)).
Proof. kgo. Qed.
Lemma k_randomkey  now d a : kx now d (fst (cmd_randomkey now d a)).
Proof. kgo. Qed.
Lemma k_dbsize  now d a : kx now d (fst (cmd_dbsize now d a)).
Proof. kgo. Qed.
Lemma k_scan  now d a : kx now d (fst (cmd_scan now d a)).
Proof. kgo. Qed.
Lemma k_ttl u rl now d a : kx now d (fst (cmd_ttl u rl now d a)).
Proof. kgo. Qed.
Lemma k_setbit  now d a : kx now d (fst (cmd_setbit now d a)).
Proof. kgo. Qed.
Lemma k_getbit  now d a : kx now d (fst (cmd_getbit now d a)).
Proof. kgo. Qed.
Lemma k_bitcount  now d a : kx now d (fst (cmd_bitcount now d a)).
Proof. kgo. Qed.
Lemma k_bitpos  now d a : kx now d (fst (cmd_bitpos now d a)).
Proof. kgo. Qed.
Lemma k_bitfield ro now d a : kx now d (fst (cmd_bitfield ro now d a)).
Proof. kgo. Qed.
Lemma k_del now d a : kx now d (fst (cmd_del now d a)).
Proof.
  unfold cmd_del. destruct a as [|k l]; [apply kx_refl|].
  apply (kx_fold_del now d (k :: l) (d, RInt 0)). apply kx_refl.
Qed.
Lemma k_lmpop now d a : kx now d (fst (cmd_lmpop now d a)).
Proof. unfold cmd_lmpop. bms; cbn [fst]; try apply kx_refl; apply kx_lmpop_keys. Qed.
Lemma k_msetnx now d a : kx now d (fst (cmd_msetnx now d a)).
Proof.
  unfold cmd_msetnx. bms; cbn [fst]; try apply kx_refl.
  apply kx_fold_put_fresh; [|apply kx_refl].
  intros kv Hin.
  match goal with H : existsb _ _ = false |- _ => rename H into Hex end.
  destruct (lookup now d (fst kv)) eqn:E; [|reflexivity].
  assert (existsb (fun kv => match lookup now d (fst kv) with Some _ => true | None => false end) l0 = true)
    as Ht by (apply existsb_exists; exists kv; split; [exact Hin|rewrite E; reflexivity]).
  congruence.
Qed.

Lemma k_lcs now d a : kx now d (fst (cmd_lcs now d a)).
Proof.
  unfold cmd_lcs.
  repeat (lazymatch goal with
          | |- kx _ _ (fst (match _ with _ => _ end)) =>
            match goal with |- kx _ _ (fst ?T) => let x := hs7 T in destruct x end
          | |- kx _ _ (fst (_, _)) => fail
          end).
  all: apply kx_refl.
Qed.
Lemma k_incrbyfloat now d a : kx now d (fst (cmd_incrbyfloat now d a)).
Proof. kgo. Qed.
Lemma k_hincrbyfloat now d a : kx now d (fst (cmd_hincrbyfloat now d a)).
Proof. kgo. Qed.

(* "sort": SORT ... STORE dst replaces dst (no deadline), like the S*STORE commands *)
Definition ttl_changers : list string :=
  ["set"; "setex"; "psetex"; "getset"; "getex"; "mset"; "sinterstore"; "sunionstore"; "sdiffstore"; "rename"; "renamenx"; "copy"; "expire"; "pexpire"; "expireat"; "pexpireat"; "persist"; "bitop"; "sort"].

Lemma keep_table : Forall (fun sf => In (fst sf) ttl_changers \/ forall now d a, kx now d (fst (snd sf now d a))) table.
Proof.
  unfold table.
  apply Forall_cons; [left; cbn; tauto|].
  apply Forall_cons; [right; exact k_setnx|].
  apply Forall_cons; [left; cbn; tauto|].
  apply Forall_cons; [left; cbn; tauto|].
  apply Forall_cons; [right; exact k_get|].
  apply Forall_cons; [left; cbn; tauto|].
  apply Forall_cons; [right; exact k_getdel|].
  apply Forall_cons; [left; cbn; tauto|].
  apply Forall_cons; [right; exact k_append|].
  apply Forall_cons; [right; exact k_strlen|].
  apply Forall_cons; [right; exact k_getrange|].
  apply Forall_cons; [right; exact k_getrange|].
  apply Forall_cons; [right; exact k_setrange|].
  apply Forall_cons; [right; exact (k_incr 1)|].
  apply Forall_cons; [right; exact (k_incr (-1))|].
  apply Forall_cons; [right; exact (k_incrby 1)|].
  apply Forall_cons; [right; exact (k_incrby (-1))|].
  apply Forall_cons; [right; exact k_mget|].
  apply Forall_cons; [left; cbn; tauto|].
  apply Forall_cons; [right; exact k_msetnx|].
  apply Forall_cons; [right; exact (k_push true false)|].
  apply Forall_cons; [right; exact (k_push false false)|].
  apply Forall_cons; [right; exact (k_push true true)|].
  apply Forall_cons; [right; exact (k_push false true)|].
  apply Forall_cons; [right; exact (k_pop true)|].
  apply Forall_cons; [right; exact (k_pop false)|].
  apply Forall_cons; [right; exact k_llen|].
  apply Forall_cons; [right; exact k_lindex|].
  apply Forall_cons; [right; exact k_lrange|].
  apply Forall_cons; [right; exact k_lset|].
  apply Forall_cons; [right; exact k_linsert|].
  apply Forall_cons; [right; exact k_lrem|].
  apply Forall_cons; [right; exact k_ltrim|].
  apply Forall_cons; [right; exact k_lpos|].
  apply Forall_cons; [right; exact k_lmove|].
  apply Forall_cons; [right; exact k_rpoplpush|].
  apply Forall_cons; [right; exact k_lmpop|].
  apply Forall_cons; [right; exact (k_hset 0%N)|].
  apply Forall_cons; [right; exact (k_hset 1%N)|].
  apply Forall_cons; [right; exact (k_hset 2%N)|].
  apply Forall_cons; [right; exact k_hget|].
  apply Forall_cons; [right; exact k_hmget|].
  apply Forall_cons; [right; exact k_hgetall|].
  apply Forall_cons; [right; exact (k_hkeys false)|].
  apply Forall_cons; [right; exact (k_hkeys true)|].
  apply Forall_cons; [right; exact k_hlen|].
  apply Forall_cons; [right; exact (k_hexists false)|].
  apply Forall_cons; [right; exact (k_hexists true)|].
  apply Forall_cons; [right; exact k_hdel|].
  apply Forall_cons; [right; exact k_hincrby|].
  apply Forall_cons; [right; exact k_hrandfield|].
  apply Forall_cons; [right; exact k_hscan|].
  apply Forall_cons; [right; exact k_sadd|].
  apply Forall_cons; [right; exact k_srem|].
  apply Forall_cons; [right; exact k_scard|].
  apply Forall_cons; [right; exact k_sismember|].
  apply Forall_cons; [right; exact k_smismember|].
  apply Forall_cons; [right; exact k_smembers|].
  apply Forall_cons; [right; exact k_smove|].
  apply Forall_cons; [right; exact k_srandmember|].
  apply Forall_cons; [right; exact k_sscan|].
  apply Forall_cons; [right; exact (k_setop OpInter)|].
  apply Forall_cons; [right; exact (k_setop OpUnion)|].
  apply Forall_cons; [right; exact (k_setop OpDiff)|].
  apply Forall_cons; [left; cbn; tauto|].
  apply Forall_cons; [left; cbn; tauto|].
  apply Forall_cons; [left; cbn; tauto|].
  apply Forall_cons; [right; exact k_sintercard|].
  apply Forall_cons; [right; exact k_del|].
  apply Forall_cons; [right; exact k_del|].
  apply Forall_cons; [right; exact k_exists|].
  apply Forall_cons; [right; exact k_touch|].
  apply Forall_cons; [right; exact k_type|].
  apply Forall_cons; [left; cbn; tauto|].
  apply Forall_cons; [left; cbn; tauto|].
  apply Forall_cons; [left; cbn; tauto|].
  apply Forall_cons; [right; exact k_keys|].
  apply Forall_cons; [right; exact k_randomkey|].
  apply Forall_cons; [right; exact k_dbsize|].
  apply Forall_cons; [right; exact k_scan|].
  apply Forall_cons; [left; cbn; tauto|].
  apply Forall_cons; [left; cbn; tauto|].
  apply Forall_cons; [left; cbn; tauto|].
  apply Forall_cons; [left; cbn; tauto|].
  apply Forall_cons; [right; exact (k_ttl sec true)|].
  apply Forall_cons; [right; exact (k_ttl msec true)|].
  apply Forall_cons; [right; exact (k_ttl sec false)|].
  apply Forall_cons; [right; exact (k_ttl msec false)|].
  apply Forall_cons; [left; cbn; tauto|].
  apply Forall_cons; [right; exact k_setbit|].
  apply Forall_cons; [right; exact k_getbit|].
  apply Forall_cons; [right; exact k_bitcount|].
  apply Forall_cons; [right; exact k_bitpos|].
  apply Forall_cons; [left; cbn; tauto|].
  apply Forall_cons; [right; exact (k_bitfield false)|].
  apply Forall_cons; [right; exact (k_bitfield true)|].
  apply Forall_cons; [right; exact k_lcs|].
  apply Forall_cons; [left; cbn; tauto|].
  apply Forall_cons; [right; exact k_incrbyfloat|].
  apply Forall_cons; [right; exact k_hincrbyfloat|].
  apply Forall_nil.
Qed.

Theorem C07_inplace_keeps_deadline name f now d args k e e' :
  data_cmd name = Some f ->
  ~ In name (map s2b ttl_changers) ->
  lookup now d k = Some e -> lookup now (fst (f now d args)) k = Some e' ->
  e_exp e' = e_exp e.
Proof.
  intros Hf Hn H1 H2. apply data_cmd_table in Hf as (s & -> & Hin).
  pose proof keep_table as HT. rewrite Forall_forall in HT.
  destruct (HT _ Hin) as [Hc|Hk]; cbn [fst snd] in *.
  - exfalso. apply Hn. apply in_map. exact Hc.
  - exact (Hk now d args k e e' H1 H2).
Qed.
Print Assumptions C07_inplace_keeps_deadline.

Definition inplace_names : list string :=
  ["append"; "setrange"; "incr"; "decr"; "incrby"; "decrby"; "setbit"; "bitfield"; "lpush"; "rpush"; "lpushx"; "rpushx"; "lpop"; "rpop"; "lset"; "linsert"; "lrem"; "ltrim"; "lmove"; "rpoplpush"; "lmpop"; "hset"; "hmset"; "hsetnx"; "hdel"; "hincrby"; "sadd"; "srem"; "smove"; "incrbyfloat"; "hincrbyfloat"].

Lemma inplace_table : Forall (fun s => exists f, data_cmd (s2b s) = Some f /\ forall now d a, kx now d (fst (f now d a))) inplace_names.
Proof.
  unfold inplace_names.
  apply Forall_cons; [exists (cmd_append); split; [reflexivity | exact k_append]|].
  apply Forall_cons; [exists (cmd_setrange); split; [reflexivity | exact k_setrange]|].
  apply Forall_cons; [exists (cmd_incr 1); split; [reflexivity | exact (k_incr 1)]|].
  apply Forall_cons; [exists (cmd_incr (-1)); split; [reflexivity | exact (k_incr (-1))]|].
  apply Forall_cons; [exists (cmd_incrby 1); split; [reflexivity | exact (k_incrby 1)]|].
  apply Forall_cons; [exists (cmd_incrby (-1)); split; [reflexivity | exact (k_incrby (-1))]|].
  apply Forall_cons; [exists (cmd_setbit); split; [reflexivity | exact k_setbit]|].
  apply Forall_cons; [exists (cmd_bitfield false); split; [reflexivity | exact (k_bitfield false)]|].
  apply Forall_cons; [exists (cmd_push true false); split; [reflexivity | exact (k_push true false)]|].
  apply Forall_cons; [exists (cmd_push false false); split; [reflexivity | exact (k_push false false)]|].
  apply Forall_cons; [exists (cmd_push true true); split; [reflexivity | exact (k_push true true)]|].
  apply Forall_cons; [exists (cmd_push false true); split; [reflexivity | exact (k_push false true)]|].
  apply Forall_cons; [exists (cmd_pop true); split; [reflexivity | exact (k_pop true)]|].
  apply Forall_cons; [exists (cmd_pop false); split; [reflexivity | exact (k_pop false)]|].
  apply Forall_cons; [exists (cmd_lset); split; [reflexivity | exact k_lset]|].
  apply Forall_cons; [exists (cmd_linsert); split; [reflexivity | exact k_linsert]|].
  apply Forall_cons; [exists (cmd_lrem); split; [reflexivity | exact k_lrem]|].
  apply Forall_cons; [exists (cmd_ltrim); split; [reflexivity | exact k_ltrim]|].
  apply Forall_cons; [exists (cmd_lmove); split; [reflexivity | exact k_lmove]|].
  apply Forall_cons; [exists (cmd_rpoplpush); split; [reflexivity | exact k_rpoplpush]|].
  apply Forall_cons; [exists (cmd_lmpop); split; [reflexivity | exact k_lmpop]|].
  apply Forall_cons; [exists (cmd_hset 0%N); split; [reflexivity | exact (k_hset 0%N)]|].
  apply Forall_cons; [exists (cmd_hset 1%N); split; [reflexivity | exact (k_hset 1%N)]|].
  apply Forall_cons; [exists (cmd_hset 2%N); split; [reflexivity | exact (k_hset 2%N)]|].
  apply Forall_cons; [exists (cmd_hdel); split; [reflexivity | exact k_hdel]|].
  apply Forall_cons; [exists (cmd_hincrby); split; [reflexivity | exact k_hincrby]|].
  apply Forall_cons; [exists (cmd_sadd); split; [reflexivity | exact k_sadd]|].
  apply Forall_cons; [exists (cmd_srem); split; [reflexivity | exact k_srem]|].
  apply Forall_cons; [exists (cmd_smove); split; [reflexivity | exact k_smove]|].
  apply Forall_cons; [exists (cmd_incrbyfloat); split; [reflexivity | exact k_incrbyfloat]|].
  apply Forall_cons; [exists (cmd_hincrbyfloat); split; [reflexivity | exact k_hincrbyfloat]|].
  apply Forall_nil.
Qed.

Theorem C07_inplace_list s f now d args k e e' :
  In s inplace_names -> data_cmd (s2b s) = Some f ->
  lookup now d k = Some e -> lookup now (fst (f now d args)) k = Some e' ->
  e_exp e' = e_exp e.
Proof.
  intros Hin Hf. pose proof inplace_table as HT. rewrite Forall_forall in HT.
  destruct (HT _ Hin) as (g & Hg & Hk). rewrite Hg in Hf. injection Hf as <-. apply Hk.
Qed.
Print Assumptions C07_inplace_list.

Example C07_inplace_ex :
  let d := fst (cmd_setex sec 0 (fst (cmd_push false false 0 empty_db [s2b "l"; s2b "a"]))
                  [s2b "k"; s2b "9"; s2b "1"]) in
  let d := fst (cmd_expire sec true 0 d [s2b "l"; s2b "5"]) in
  let d' := fst (cmd_lmove 1 (fst (cmd_incr 1 1 d [s2b "k"])) [s2b "l"; s2b "l"; s2b "LEFT"; s2b "RIGHT"]) in
  option_map e_exp (lookup 1 d' (s2b "k")) = Some (Some (9 * sec)) /\
  option_map e_val (lookup 1 d' (s2b "k")) = Some (VStr (s2b "2")) /\
  option_map e_exp (lookup 1 d' (s2b "l")) = Some (Some (5 * sec)).
Proof. vm_compute. repeat split; reflexivity. Qed.

(* ------------------------------------------------------------------ *)
(* C07.4b  commands that replace the value clear the deadline; SET options *)
Lemma lookup_put_exp now d k v x e :
  lookup now (put d k v x) k = Some e -> e_val e = v /\ e_exp e = x /\ e_ver e = (d_next d + 1)%N.
Proof.
  rewrite lookup_put_same. cbv zeta. destruct (expired now (mkE v x (d_next d + 1)%N)); [discriminate|].
  intro H. injection H as <-. auto.
Qed.

(* a written deadline is observable exactly up to the deadline *)
Lemma lookup_put_deadline now d k v t :
  lookup now (put d k v (Some t)) k = if t <? now then None else Some (mkE v (Some t) (d_next d + 1)%N).
Proof. rewrite lookup_put_same. reflexivity. Qed.

Lemma is_kw_trans a s s' : is_kw a s = true -> is_kw a s' = is_kw (s2b s) s'.
Proof. unfold is_kw, ieq. intro H. apply bytes_eqb_eq in H. rewrite H. reflexivity. Qed.

Ltac kw H :=
  repeat match goal with
  | |- context[is_kw ?a ?s'] =>
      lazymatch a with
      | s2b _ => let v := eval vm_compute in (is_kw a s') in change (is_kw a s') with v
      | _ => rewrite (is_kw_trans a _ s' H)
      end
  end.

(* what SET writes: with NX/XX/GET it may refuse (database unchanged); when it writes, the
   deadline is the old one under KEEPTTL and the EX/PX/EXAT/PXAT deadline (or none) otherwise *)
Theorem C07_set_deadline now d k v opts o :
  scan_set now (S (length opts)) opts so0 false false false = ScanOk o ->
  fst (cmd_set now d (k :: v :: opts)) = d \/
  fst (cmd_set now d (k :: v :: opts)) =
    put d k (VStr v) (match lookup now d k with
                      | Some e => if so_keep o then e_exp e else so_exp o
                      | None => so_exp o
                      end).
Proof.
  intro Hs. unfold cmd_set. rewrite Hs. unfold set_core. bms; cbn [fst]; auto.
Qed.
Print Assumptions C07_set_deadline.

(* without NX/XX/GET, SET always writes *)
Lemma set_core_plain now d k v keep x :
  set_core now d k v (mkSO false false false keep x false) =
  (put d k (VStr v) (match lookup now d k with
                     | Some e => if keep then e_exp e else x
                     | None => x end), ok).
Proof. unfold set_core. cbn [so_get so_nx so_xx so_keep so_exp andb]. destruct (lookup now d k); reflexivity. Qed.

Theorem C07_set_plain now d k v :
  cmd_set now d [k; v] = (put d k (VStr v) None, ok).
Proof.
  unfold cmd_set. cbn [length scan_set]. unfold so0. rewrite set_core_plain.
  destruct (lookup now d k); reflexivity.
Qed.
Print Assumptions C07_set_plain.

Theorem C07_set_keepttl now d k v w :
  is_kw w "KEEPTTL" = true ->
  cmd_set now d [k; v; w] =
  (put d k (VStr v) (match lookup now d k with Some e => e_exp e | None => None end), ok).
Proof.
  intro H. unfold cmd_set. cbn [length scan_set]. kw H. cbv beta iota. cbn [so_nx so_xx so_get so_exp so0].
  rewrite set_core_plain. reflexivity.
Qed.
Print Assumptions C07_set_keepttl.

Definition set_unit (w : bytes) : option (Z * bool) :=
  if is_kw w "EX" then Some (sec, true) else if is_kw w "PX" then Some (msec, true) else
  if is_kw w "EXAT" then Some (sec, false) else if is_kw w "PXAT" then Some (msec, false) else None.

Theorem C07_set_expiry now d k v w n z u rel :
  (is_kw w "EX" = true /\ u = sec /\ rel = true) \/ (is_kw w "PX" = true /\ u = msec /\ rel = true) \/
  (is_kw w "EXAT" = true /\ u = sec /\ rel = false) \/ (is_kw w "PXAT" = true /\ u = msec /\ rel = false) ->
  parse_i64 n = Some z -> 0 < z ->
  cmd_set now d [k; v; w; n] = (put d k (VStr v) (Some (if rel then now + z * u else z * u)), ok).
Proof.
  intros Hw Hn Hz. assert (Hz' : (z <=? 0) = false) by (apply Z.leb_gt; exact Hz).
  unfold cmd_set. cbn [length scan_set].
  destruct Hw as [(H & -> & ->)|[(H & -> & ->)|[(H & -> & ->)|(H & -> & ->)]]]; kw H; cbv beta iota;
    rewrite Hn, Hz'; cbv beta iota; cbn [so_nx so_xx so_get so_keep so0];
    rewrite set_core_plain; destruct (lookup now d k); reflexivity.
Qed.
Print Assumptions C07_set_expiry.

(* SETEX / PSETEX *)
Theorem C07_setex u now d k n z v :
  parse_i64 n = Some z -> 0 < z ->
  cmd_setex u now d [k; n; v] = (put d k (VStr v) (Some (now + z * u)), ok).
Proof.
  intros Hn Hz. unfold cmd_setex. rewrite Hn.
  replace (z <=? 0) with false by (symmetry; apply Z.leb_gt; exact Hz). reflexivity.
Qed.
Print Assumptions C07_setex.

Theorem C07_getset_clears now d k v :
  (fst (cmd_getset now d [k; v]) = d /\ snd (cmd_getset now d [k; v]) = wrongtype) \/
  fst (cmd_getset now d [k; v]) = put d k (VStr v) None.
Proof.
  unfold cmd_getset, set_core. cbn [so_get so_nx so_xx so_keep so_exp andb].
  destruct (lookup now d k) as [e|]; [|right; reflexivity].
  destruct (str_of e); cbn [fst snd]; [right; reflexivity|left; split; reflexivity].
Qed.
Print Assumptions C07_getset_clears.

(* MSET / MSETNX: every key written ends without deadline *)
Lemma fold_put_none now ps k : forall d e,
  In k (map fst ps) ->
  lookup now (fold_left (fun d kv => put d (fst kv) (VStr (snd kv)) None) ps d) k = Some e ->
  e_exp e = None.
Proof.
  assert (Hkeep : forall ps d,
            (forall e, lookup now d k = Some e -> e_exp e = None) ->
            forall e, lookup now (fold_left (fun d kv => put d (fst kv) (VStr (snd kv)) None) ps d) k = Some e ->
                      e_exp e = None).
  { induction ps0 as [|p ps0 IH]; simpl; intros d Hd e He; [exact (Hd e He)|].
    apply (IH (put d (fst p) (VStr (snd p)) None)); [|exact He].
    intros e1 H1. destruct (bytes_eq_dec k (fst p)) as [->|Hne].
    - apply lookup_put_exp in H1. tauto.
    - rewrite lookup_put_other in H1 by exact Hne. exact (Hd e1 H1). }
  induction ps as [|p ps IH]; simpl; intros d e Hin He; [contradiction|].
  destruct (bytes_eq_dec k (fst p)) as [->|Hne].
  - apply (Hkeep ps (put d (fst p) (VStr (snd p)) None)); [|exact He].
    intros e1 H1. apply lookup_put_exp in H1. tauto.
  - destruct Hin as [Hin|Hin]; [congruence|]. exact (IH _ _ Hin He).
Qed.

Theorem C07_mset_clears now now' d args ps k e :
  pairs_of args = Some ps -> In k (map fst ps) ->
  lookup now' (fst (cmd_mset now d args)) k = Some e -> e_exp e = None.
Proof.
  intros Hp Hin. destruct args as [|a args].
  - simpl in Hp. injection Hp as <-. contradiction.
  - unfold cmd_mset. rewrite Hp. cbn [fst]. apply fold_put_none. exact Hin.
Qed.
Print Assumptions C07_mset_clears.

Theorem C07_msetnx_clears now now' d args ps k e :
  pairs_of args = Some ps -> In k (map fst ps) ->
  snd (cmd_msetnx now d args) = RInt 1 ->
  lookup now' (fst (cmd_msetnx now d args)) k = Some e -> e_exp e = None.
Proof.
  intros Hp Hin. destruct args as [|a args].
  - simpl in Hp. injection Hp as <-. contradiction.
  - unfold cmd_msetnx. rewrite Hp.
    destruct (existsb _ ps); cbn [fst snd]; [discriminate|]. intros _. apply fold_put_none. exact Hin.
Qed.
Print Assumptions C07_msetnx_clears.

(* the destination of SINTERSTORE / SUNIONSTORE / SDIFFSTORE and of BITOP has no deadline *)
Theorem C07_setop_store_clears o now now' d dst ks n e :
  snd (cmd_setop_store o now d (dst :: ks)) = RInt n ->
  lookup now' (fst (cmd_setop_store o now d (dst :: ks))) dst = Some e -> e_exp e = None.
Proof.
  unfold cmd_setop_store. bms; cbn [fst snd]; intros Hr Hl; try discriminate.
  - rewrite lookup_del_same in Hl. discriminate.
  - unfold lookup in Hl. match goal with H : aget (d_map d) dst = None |- _ => rewrite H in Hl end. discriminate.
  - apply lookup_put_exp in Hl. tauto.
Qed.
Print Assumptions C07_setop_store_clears.

Theorem C07_bitop_clears now now' d op dst srcs n e :
  snd (cmd_bitop now d (op :: dst :: srcs)) = RInt n ->
  lookup now' (fst (cmd_bitop now d (op :: dst :: srcs))) dst = Some e -> e_exp e = None.
Proof.
  unfold cmd_bitop, store_str_or_del. bms; cbn [fst snd]; intros Hr Hl; try discriminate.
  all: try (rewrite lookup_del_same in Hl; discriminate).
  all: try (apply lookup_put_exp in Hl; tauto).
  all: unfold lookup in Hl;
       match goal with H : aget (d_map _) _ = None |- _ => rewrite H in Hl end; discriminate.
Qed.
Print Assumptions C07_bitop_clears.

(* SORT: with STORE the destination is replaced and has no deadline (the source and the
   pattern keys are only read); without STORE the database record is returned as it is *)
Theorem C07_sort_store_clears now now' d k opts o dst n e :
  scan_sort opts st0 = SOk o -> st_store o = Some dst ->
  snd (cmd_sort now d (k :: opts)) = RInt n ->
  lookup now' (fst (cmd_sort now d (k :: opts))) dst = Some e -> e_exp e = None.
Proof.
  intros Hs Ho. unfold cmd_sort. rewrite Hs. cbv zeta. rewrite Ho.
  repeat (lazymatch goal with
          | |- snd (match _ with _ => _ end) = _ -> _ =>
            match goal with |- snd ?T = _ -> _ => let x := hs7 T in destruct x end
          end).
  all: cbn [fst snd]; intros Hr Hl; try discriminate.
  all: unfold put_list, put_or_del in Hl;
       match type of Hl with context[is_empty_agg ?v] => destruct (is_empty_agg v) end;
       [rewrite lookup_del_same in Hl; discriminate | apply lookup_put_exp in Hl; tauto].
Qed.
Print Assumptions C07_sort_store_clears.

Theorem C07_sort_nostore_reads now d k opts o :
  scan_sort opts st0 = SOk o -> st_store o = None -> fst (cmd_sort now d (k :: opts)) = d.
Proof.
  intros Hs Ho. unfold cmd_sort. rewrite Hs. cbv zeta. rewrite Ho.
  repeat (lazymatch goal with
          | |- fst (match _ with _ => _ end) = _ =>
            match goal with |- fst ?T = _ => let x := hs7 T in destruct x end
          end).
  all: reflexivity.
Qed.
Print Assumptions C07_sort_nostore_reads.

(* an expired source / weight key / operand is a missing one; STORE clears the deadline of dst *)
Example C07_sort_lcs_ex :
  let d0 := fst (cmd_push false false 0 empty_db [s2b "l"; s2b "b"; s2b "a"]) in
  let d0 := fst (cmd_setex sec 0 d0 [s2b "w_a"; s2b "5"; s2b "2"]) in
  let d0 := fst (cmd_setex sec 0 d0 [s2b "w_b"; s2b "9"; s2b "1"]) in
  let d0 := fst (cmd_setex sec 0 d0 [s2b "dst"; s2b "9"; s2b "old"]) in
  snd (cmd_sort 1 d0 [s2b "l"; s2b "BY"; s2b "w_*"]) = RArr [RBulk (s2b "b"); RBulk (s2b "a")] /\
  snd (cmd_sort (5 * sec + 1) d0 [s2b "l"; s2b "BY"; s2b "w_*"]) = RArr [RBulk (s2b "a"); RBulk (s2b "b")] /\
  snd (cmd_sort (5 * sec + 1) (purge (5 * sec + 1) d0) [s2b "l"; s2b "BY"; s2b "w_*"])
    = RArr [RBulk (s2b "a"); RBulk (s2b "b")] /\
  snd (cmd_sort 1 d0 [s2b "l"; s2b "ALPHA"; s2b "STORE"; s2b "dst"]) = RInt 2 /\
  option_map e_exp (lookup 1 (fst (cmd_sort 1 d0 [s2b "l"; s2b "ALPHA"; s2b "STORE"; s2b "dst"])) (s2b "dst"))
    = Some None /\
  snd (cmd_lcs 1 d0 [s2b "w_a"; s2b "w_a"]) = RBulk (s2b "2") /\
  snd (cmd_lcs (5 * sec + 1) d0 [s2b "w_a"; s2b "w_a"]) = RBulk [] /\
  option_map e_exp (lookup 1 (fst (cmd_incrbyfloat 1 d0 [s2b "w_a"; s2b "0.5"])) (s2b "w_a"))
    = Some (Some (5 * sec)) /\
  option_map e_val (lookup 1 (fst (cmd_incrbyfloat 1 d0 [s2b "w_a"; s2b "0.5"])) (s2b "w_a"))
    = Some (VStr (s2b "2.5")).
Proof. vm_compute. repeat split; reflexivity. Qed.

Example C07_replacers_ex :
  let d0 := fst (cmd_setex sec 0 (fst (cmd_setex sec 0 empty_db [s2b "a"; s2b "9"; s2b "x"])) [s2b "b"; s2b "9"; s2b "y"]) in
  option_map e_exp (lookup 1 (fst (cmd_set 1 d0 [s2b "a"; s2b "z"])) (s2b "a")) = Some None /\
  option_map e_exp (lookup 1 (fst (cmd_set 1 d0 [s2b "a"; s2b "z"; s2b "keepttl"])) (s2b "a")) = Some (Some (9 * sec)) /\
  option_map e_exp (lookup 1 (fst (cmd_set 1 d0 [s2b "a"; s2b "z"; s2b "PX"; s2b "5"])) (s2b "a")) = Some (Some (1 + 5 * msec)) /\
  option_map e_exp (lookup 1 (fst (cmd_set 1 d0 [s2b "a"; s2b "z"; s2b "EXAT"; s2b "5"])) (s2b "a")) = Some (Some (5 * sec)) /\
  option_map e_exp (lookup 1 (fst (cmd_getset 1 d0 [s2b "a"; s2b "z"])) (s2b "a")) = Some None /\
  option_map e_exp (lookup 1 (fst (cmd_mset 1 d0 [s2b "a"; s2b "z"])) (s2b "b")) = Some (Some (9 * sec)) /\
  option_map e_exp (lookup 1 (fst (cmd_bitop 1 d0 [s2b "OR"; s2b "a"; s2b "a"; s2b "b"])) (s2b "a")) = Some None.
Proof. vm_compute. repeat split; reflexivity. Qed.

(* ------------------------------------------------------------------ *)
(* C07.4c  EXPIRE / PEXPIRE / EXPIREAT / PEXPIREAT [NX|XX|GT|LT], PERSIST, GETEX *)
Definition expire_ok (c : expcond) (cur : option Z) (t : Z) : Prop :=
  match c with
  | CNone => True
  | CNX => cur = None
  | CXX => cur <> None
  | CGT => exists x, cur = Some x /\ x < t          (* no deadline = infinite: never greater *)
  | CLT => cur = None \/ exists x, cur = Some x /\ t < x
  end.

Theorem C07_expire_core now d k t c :
  match lookup now d k with
  | None => expire_core now d k t c = (d, RInt 0)
  | Some e =>
      (expire_ok c (e_exp e) t -> expire_core now d k t c = (put d k (e_val e) (Some t), RInt 1)) /\
      (~ expire_ok c (e_exp e) t -> expire_core now d k t c = (d, RInt 0))
  end.
Proof.
  unfold expire_core, set_exp. destruct (lookup now d k) as [e|]; [|reflexivity].
  destruct c; destruct (e_exp e) as [cur|]; cbn [expire_ok]; split; intro H;
    try reflexivity; try (exfalso; tauto); try (exfalso; apply H; congruence);
    try (exfalso; congruence).
  - destruct H as (x & Hx & Hlt). injection Hx as <-. apply Z.ltb_lt in Hlt. rewrite Hlt. reflexivity.
  - destruct (cur <? t) eqn:E; [|reflexivity]. exfalso. apply H. exists cur. apply Z.ltb_lt in E. auto.
  - destruct H as (x & Hx & _). discriminate.
  - destruct H as [H|(x & Hx & Hlt)]; [discriminate|]. injection Hx as <-. apply Z.ltb_lt in Hlt. rewrite Hlt. reflexivity.
  - destruct (t <? cur) eqn:E; [|reflexivity]. exfalso. apply H. right. exists cur. apply Z.ltb_lt in E. auto.
Qed.
Print Assumptions C07_expire_core.

(* the four commands are expire_core at the right absolute deadline *)
Theorem C07_expire_cmd unit rel now d k n z opts c :
  parse_i64 n = Some z -> parse_cond opts = Some c ->
  cmd_expire unit rel now d (k :: n :: opts) =
  expire_core now d k (if rel then now + z * unit else z * unit) c.
Proof. intros Hn Hc. unfold cmd_expire. rewrite Hn, Hc. reflexivity. Qed.
Print Assumptions C07_expire_cmd.

Lemma parse_cond_spec :
  parse_cond [] = Some CNone /\
  (forall w, is_kw w "NX" = true -> parse_cond [w] = Some CNX) /\
  (forall w, is_kw w "XX" = true -> parse_cond [w] = Some CXX) /\
  (forall w, is_kw w "GT" = true -> parse_cond [w] = Some CGT) /\
  (forall w, is_kw w "LT" = true -> parse_cond [w] = Some CLT).
Proof.
  split; [reflexivity|]. repeat split; intros w H; unfold parse_cond; kw H; reflexivity.
Qed.

Lemma C07_expire_table :
  data_cmd (s2b "expire") = Some (cmd_expire sec true) /\ data_cmd (s2b "pexpire") = Some (cmd_expire msec true) /\
  data_cmd (s2b "expireat") = Some (cmd_expire sec false) /\ data_cmd (s2b "pexpireat") = Some (cmd_expire msec false).
Proof. repeat split; reflexivity. Qed.

Theorem C07_persist now d k :
  match lookup now d k with
  | None => cmd_persist now d [k] = (d, RInt 0)
  | Some e =>
    match e_exp e with
    | None => cmd_persist now d [k] = (d, RInt 0)
    | Some _ => cmd_persist now d [k] = (put d k (e_val e) None, RInt 1)
    end
  end.
Proof.
  unfold cmd_persist, set_exp. destruct (lookup now d k) as [e|]; [|reflexivity].
  destruct (e_exp e); reflexivity.
Qed.
Print Assumptions C07_persist.

(* GETEX: no option leaves the database alone, PERSIST clears, EX/PX/EXAT/PXAT set *)
Theorem C07_getex_plain now d k : fst (cmd_getex now d [k]) = d.
Proof. unfold cmd_getex. destruct (lookup now d k) as [e|]; [|reflexivity]. destruct (str_of e); reflexivity. Qed.
Print Assumptions C07_getex_plain.

Theorem C07_getex_persist now d k w e b :
  is_kw w "PERSIST" = true -> lookup now d k = Some e -> str_of e = Some b ->
  cmd_getex now d [k; w] = (put d k (e_val e) None, RBulk b).
Proof.
  intros H Hl Hs. unfold cmd_getex, set_exp. rewrite H, Hl, Hs. reflexivity.
Qed.
Print Assumptions C07_getex_persist.

(* (the model marks "expire value <= 0" by the deadline -1, so a computed deadline of exactly
   -1 ns — only possible with a clock before 1970 — would be reported as invalid) *)
Theorem C07_getex_expiry now d k w n z u rel e b :
  (is_kw w "EX" = true /\ u = sec /\ rel = true) \/ (is_kw w "PX" = true /\ u = msec /\ rel = true) \/
  (is_kw w "EXAT" = true /\ u = sec /\ rel = false) \/ (is_kw w "PXAT" = true /\ u = msec /\ rel = false) ->
  parse_i64 n = Some z -> 0 < z -> 0 <= now ->
  lookup now d k = Some e -> str_of e = Some b ->
  cmd_getex now d [k; w; n] = (put d k (e_val e) (Some (if rel then now + z * u else z * u)), RBulk b).
Proof.
  intros Hw Hn Hz Hnow Hl Hs. assert (Hz' : (z <=? 0) = false) by (apply Z.leb_gt; exact Hz).
  unfold cmd_getex, set_exp.
  destruct Hw as [(H & -> & ->)|[(H & -> & ->)|[(H & -> & ->)|(H & -> & ->)]]]; kw H; cbv beta iota;
    rewrite Hn, Hz'; cbv beta iota.
  all: rewrite Hl, Hs.
  all: match goal with
       | |- match ?T with _ => _ end = _ =>
           assert (Ht : 0 < T) by (unfold sec, msec; lia);
           revert Ht; destruct T as [|p|p]; intro Ht; [lia | reflexivity | lia]
       end.
Qed.
Print Assumptions C07_getex_expiry.

Example C07_expire_ex :
  let d0 := fst (cmd_setex sec 0 (fst (cmd_set 0 empty_db [s2b "p"; s2b "v"])) [s2b "k"; s2b "10"; s2b "v"]) in
  let exp_of d k := option_map e_exp (lookup 1 d (s2b k)) in
  (* GT on a key without deadline never applies; LT does *)
  cmd_expire sec true 1 d0 [s2b "p"; s2b "5"; s2b "GT"] = (d0, RInt 0) /\
  exp_of (fst (cmd_expire sec true 1 d0 [s2b "p"; s2b "5"; s2b "LT"])) "p" = Some (Some (1 + 5 * sec)) /\
  cmd_expire sec true 1 d0 [s2b "k"; s2b "5"; s2b "GT"] = (d0, RInt 0) /\
  exp_of (fst (cmd_expire sec true 1 d0 [s2b "k"; s2b "50"; s2b "GT"])) "k" = Some (Some (1 + 50 * sec)) /\
  cmd_expire sec true 1 d0 [s2b "k"; s2b "5"; s2b "NX"] = (d0, RInt 0) /\
  cmd_expire sec true 1 d0 [s2b "p"; s2b "5"; s2b "XX"] = (d0, RInt 0) /\
  exp_of (fst (cmd_expire msec false 1 d0 [s2b "k"; s2b "5000"])) "k" = Some (Some (5 * sec)) /\
  exp_of (fst (cmd_persist 1 d0 [s2b "k"])) "k" = Some None /\
  cmd_persist 1 d0 [s2b "p"] = (d0, RInt 0) /\
  exp_of (fst (cmd_getex 1 d0 [s2b "k"])) "k" = Some (Some (10 * sec)) /\
  exp_of (fst (cmd_getex 1 d0 [s2b "k"; s2b "persist"])) "k" = Some None /\
  exp_of (fst (cmd_getex 1 d0 [s2b "p"; s2b "PXAT"; s2b "77"])) "p" = Some (Some (77 * msec)).
Proof. vm_compute. repeat split; reflexivity. Qed.

(* ------------------------------------------------------------------ *)
(* C07.4d  RENAME / RENAMENX / COPY carry the deadline along with the value *)
Theorem C07_rename_carries nx now d src dst e :
  lookup now d src = Some e -> src <> dst ->
  (nx = true -> lookup now d dst = None) ->
  fst (cmd_rename nx now d [src; dst]) = put (del d src) dst (e_val e) (e_exp e) /\
  forall now' e', lookup now' (fst (cmd_rename nx now d [src; dst])) dst = Some e' ->
                  e_val e' = e_val e /\ e_exp e' = e_exp e.
Proof.
  intros Hl Hne Hnx.
  assert (E : fst (cmd_rename nx now d [src; dst]) = put (del d src) dst (e_val e) (e_exp e)).
  { unfold cmd_rename. rewrite Hl. apply bytes_eqb_neq in Hne. rewrite Hne.
    destruct nx; cbn [andb]; [rewrite (Hnx eq_refl)|]; reflexivity. }
  split; [exact E|]. intros now' e' H. rewrite E in H. apply lookup_put_exp in H. tauto.
Qed.
Print Assumptions C07_rename_carries.

Theorem C07_copy_carries now d src dst opts repl e :
  (opts = [] /\ repl = false) \/ (exists w, opts = [w] /\ is_kw w "REPLACE" = true /\ repl = true) ->
  lookup now d src = Some e ->
  (repl = false -> lookup now d dst = None) ->
  fst (cmd_copy now d (src :: dst :: opts)) = put d dst (e_val e) (e_exp e) /\
  forall now' e', lookup now' (fst (cmd_copy now d (src :: dst :: opts))) dst = Some e' ->
                  e_val e' = e_val e /\ e_exp e' = e_exp e.
Proof.
  intros Ho Hl Hd.
  assert (E : fst (cmd_copy now d (src :: dst :: opts)) = put d dst (e_val e) (e_exp e)).
  { unfold cmd_copy. destruct Ho as [[-> ->]|(w & -> & Hw & ->)].
    - rewrite Hl, (Hd eq_refl). reflexivity.
    - rewrite Hw, Hl. reflexivity. }
  split; [exact E|]. intros now' e' H. rewrite E in H. apply lookup_put_exp in H. tauto.
Qed.
Print Assumptions C07_copy_carries.

Example C07_rename_ex :
  let d0 := fst (cmd_setex sec 0 empty_db [s2b "k"; s2b "10"; s2b "v"]) in
  option_map e_exp (lookup 1 (fst (cmd_rename false 1 d0 [s2b "k"; s2b "j"])) (s2b "j")) = Some (Some (10 * sec)) /\
  option_map e_exp (lookup 1 (fst (cmd_copy 1 d0 [s2b "k"; s2b "j"])) (s2b "j")) = Some (Some (10 * sec)) /\
  cmd_rename false (10 * sec + 1) d0 [s2b "k"; s2b "j"] = (d0, err "ERR no such key") /\
  cmd_copy (10 * sec + 1) d0 [s2b "k"; s2b "j"] = (d0, RInt 0).
Proof. vm_compute. repeat split; reflexivity. Qed.

Lemma cong_table_strong : Forall (fun sf => In (fst sf) store_names \/ cg_strong (snd sf)) table.
Proof.
  unfold table.
  apply Forall_cons; [right; exact c_set|].
  apply Forall_cons; [right; exact c_setnx|].
  apply Forall_cons; [right; exact (c_setex sec)|].
  apply Forall_cons; [right; exact (c_setex msec)|].
  apply Forall_cons; [right; exact c_get|].
  apply Forall_cons; [right; exact c_getset|].
  apply Forall_cons; [right; exact c_getdel|].
  apply Forall_cons; [right; exact c_getex|].
  apply Forall_cons; [right; exact c_append|].
  apply Forall_cons; [right; exact c_strlen|].
  apply Forall_cons; [right; exact c_getrange|].
  apply Forall_cons; [right; exact c_getrange|].
  apply Forall_cons; [right; exact c_setrange|].
  apply Forall_cons; [right; exact (c_incr 1)|].
  apply Forall_cons; [right; exact (c_incr (-1))|].
  apply Forall_cons; [right; exact (c_incrby 1)|].
  apply Forall_cons; [right; exact (c_incrby (-1))|].
  apply Forall_cons; [right; exact c_mget|].
  apply Forall_cons; [right; exact c_mset|].
  apply Forall_cons; [right; exact c_msetnx|].
  apply Forall_cons; [right; exact (c_push true false)|].
  apply Forall_cons; [right; exact (c_push false false)|].
  apply Forall_cons; [right; exact (c_push true true)|].
  apply Forall_cons; [right; exact (c_push false true)|].
  apply Forall_cons; [right; exact (c_pop true)|].
  apply Forall_cons; [right; exact (c_pop false)|].
  apply Forall_cons; [right; exact c_llen|].
  apply Forall_cons; [right; exact c_lindex|].
  apply Forall_cons; [right; exact c_lrange|].
  apply Forall_cons; [right; exact c_lset|].
  apply Forall_cons; [right; exact c_linsert|].
  apply Forall_cons; [right; exact c_lrem|].
  apply Forall_cons; [right; exact c_ltrim|].
  apply Forall_cons; [right; exact c_lpos|].
  apply Forall_cons; [right; exact c_lmove|].
  apply Forall_cons; [right; exact c_rpoplpush|].
  apply Forall_cons; [right; exact c_lmpop|].
  apply Forall_cons; [right; exact (c_hset 0%N)|].
  apply Forall_cons; [right; exact (c_hset 1%N)|].
  apply Forall_cons; [right; exact (c_hset 2%N)|].
  apply Forall_cons; [right; exact c_hget|].
  apply Forall_cons; [right; exact c_hmget|].
  apply Forall_cons; [right; exact c_hgetall|].
  apply Forall_cons; [right; exact (c_hkeys false)|].
  apply Forall_cons; [right; exact (c_hkeys true)|].
  apply Forall_cons; [right; exact c_hlen|].
  apply Forall_cons; [right; exact (c_hexists false)|].
  apply Forall_cons; [right; exact (c_hexists true)|].
  apply Forall_cons; [right; exact c_hdel|].
  apply Forall_cons; [right; exact c_hincrby|].
  apply Forall_cons; [right; exact c_hrandfield|].
  apply Forall_cons; [right; exact c_hscan|].
  apply Forall_cons; [right; exact c_sadd|].
  apply Forall_cons; [right; exact c_srem|].
  apply Forall_cons; [right; exact c_scard|].
  apply Forall_cons; [right; exact c_sismember|].
  apply Forall_cons; [right; exact c_smismember|].
  apply Forall_cons; [right; exact c_smembers|].
  apply Forall_cons; [right; exact c_smove|].
  apply Forall_cons; [right; exact c_srandmember|].
  apply Forall_cons; [right; exact c_sscan|].
  apply Forall_cons; [right; exact (c_setop OpInter)|].
  apply Forall_cons; [right; exact (c_setop OpUnion)|].
  apply Forall_cons; [right; exact (c_setop OpDiff)|].
  apply Forall_cons; [left; cbn; tauto|].
  apply Forall_cons; [left; cbn; tauto|].
  apply Forall_cons; [left; cbn; tauto|].
  apply Forall_cons; [right; exact c_sintercard|].
  apply Forall_cons; [right; exact c_del|].
  apply Forall_cons; [right; exact c_del|].
  apply Forall_cons; [right; exact c_exists|].
  apply Forall_cons; [right; exact c_touch|].
  apply Forall_cons; [right; exact c_type|].
  apply Forall_cons; [right; exact (c_rename false)|].
  apply Forall_cons; [right; exact (c_rename true)|].
  apply Forall_cons; [right; exact c_copy|].
  apply Forall_cons; [right; exact c_keys|].
  apply Forall_cons; [right; exact c_randomkey|].
  apply Forall_cons; [right; exact c_dbsize|].
  apply Forall_cons; [right; exact c_scan|].
  apply Forall_cons; [right; exact (c_expire sec true)|].
  apply Forall_cons; [right; exact (c_expire msec true)|].
  apply Forall_cons; [right; exact (c_expire sec false)|].
  apply Forall_cons; [right; exact (c_expire msec false)|].
  apply Forall_cons; [right; exact (c_ttl sec true)|].
  apply Forall_cons; [right; exact (c_ttl msec true)|].
  apply Forall_cons; [right; exact (c_ttl sec false)|].
  apply Forall_cons; [right; exact (c_ttl msec false)|].
  apply Forall_cons; [right; exact c_persist|].
  apply Forall_cons; [right; exact c_setbit|].
  apply Forall_cons; [right; exact c_getbit|].
  apply Forall_cons; [right; exact c_bitcount|].
  apply Forall_cons; [right; exact c_bitpos|].
  apply Forall_cons; [left; cbn; tauto|].
  apply Forall_cons; [right; exact (c_bitfield false)|].
  apply Forall_cons; [right; exact (c_bitfield true)|].
  apply Forall_cons; [right; exact c_lcs|].
  apply Forall_cons; [right; exact c_sort|].
  apply Forall_cons; [right; exact c_incrbyfloat|].
  apply Forall_cons; [right; exact c_hincrbyfloat|].
  apply Forall_nil.
Qed.

(* C07.1, counter part: except for the STORE forms and BITOP the version counters agree too,
   so the two runs stay in lock step for any number of further commands.  For those four the
   raw presence test of the destination makes an expired-but-stored destination count as
   "to be deleted": the counter (and the dirty flag) moves although nothing observable changes. *)
Theorem C07_expired_is_missing_counter name f now d args :
  data_cmd name = Some f -> ~ In name (map s2b store_names) ->
  NoDup (map fst (d_map d)) ->
  d_next (fst (f now d args)) = d_next (fst (f now (purge now d) args)).
Proof.
  intros Hf Hn Hnd. apply data_cmd_table in Hf as (s & -> & Hin).
  pose proof cong_table_strong as HT. rewrite Forall_forall in HT.
  destruct (HT _ Hin) as [Hc|Hk]; cbn [fst snd] in *.
  - exfalso. apply Hn. apply in_map. exact Hc.
  - destruct (Hk now d (purge now d) args (deq_purge now d Hnd) (eq_sym (live_purge now d))) as [_ [H _]].
    exact H.
Qed.
Print Assumptions C07_expired_is_missing_counter.

Example C07_store_counter_witness :
  let d := fst (cmd_setex msec 0 empty_db [s2b "dst"; s2b "5"; s2b "v"]) in
  let now := 5 * msec + 1 in
  let a := [s2b "dst"; s2b "nosuchset"] in
  snd (cmd_setop_store OpInter now d a) = RInt 0 /\
  snd (cmd_setop_store OpInter now (purge now d) a) = RInt 0 /\
  d_next (fst (cmd_setop_store OpInter now d a)) = 2%N /\
  d_next (fst (cmd_setop_store OpInter now (purge now d) a)) = 1%N /\
  d_dirty (fst (cmd_setop_store OpInter now (purge now (mkDb (d_map d) 1 false)) a)) = false /\
  d_dirty (fst (cmd_setop_store OpInter now (mkDb (d_map d) 1 false) a)) = true.
Proof. vm_compute. repeat split; reflexivity. Qed.
